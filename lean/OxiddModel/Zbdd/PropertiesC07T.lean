import OxiddModel.Zbdd.ThreadsSeq

/-!
# C07 for ZBDD: every interleaving of parallel `apply_union/intsec/diff/symm_diff` ≡ sequential

Headline theorems about the machine of `Zbdd/Threads.lean` (tasks = resumptions of the four set
operators of `crates/oxidd-rules-zbdd/src/apply_rec.rs`; atomic actions = cache query, `reduce`
with the zero-suppression rule, cache add; scheduler = arbitrary interleaving over all live
sub-tasks of all operations). All statements are for **every** schedule, every admissible cache
policy, every start state with the ZBDD store invariant (`Inv env` = hash consing + sound cache;
`NoRed` = no stored node with `hi = Empty`), all operands that denote trees, every split depth.

* `interleaving_invariant` — (b) after any schedule prefix the store is hash-consed, zero-suppressed,
  extends the start store; (c) the cache is sound; every running task still computes its tree;
* `interleaving_correct` — (a) when a schedule has finished all operations, operation `i` holds an
  edge denoting the tree-level result `setOp op a b` (`union/intsec/diff/symmDiff` of
  `Zbdd/Model.lean`, whose set semantics is `Zbdd/Properties.lean`);
* `interleaving_vs_sequential` — (a) against the sequential store-level model `setOpS`;
* `sequential_schedule_is_model` — the machine with one operation and the sequential recursor goes
  through exactly the model's state: same store slot for slot, same cache, same edge;
* `same_function_same_edge`, `interleaved_inserts_agree` (c);
* `enabled_schedule_bounded`, `stuck_iff_done`, `complete_schedule_exists` — termination.
-/
namespace OxiddModel.Zbdd.Threads
open OxiddModel.Zbdd OxiddModel.Zbdd.ZDD OxiddModel.Zbdd.Refine
open OxiddModel.Bdd.Refine (Policy OpTag Key Cache)

/-- a top-level operation (`union_edge`, `intsec_edge`, `diff_edge`, the `xor_edge` of the Boolean
function view = `apply_symm_diff`): split depth `d` of its recursor, operator, two operand edges -/
structure Job where
  d : Nat
  op : SetOp
  f : ZEdge
  g : ZEdge
deriving DecidableEq, Repr

def Job.task (j : Job) : Task := .call j.d ⟨j.op, j.f, j.g⟩

/-- the sequential store-level model of the operation: `setOpS` (`SetOpsS.lean`) -/
def Job.seq (p : Policy) (fuel : Nat) (st : St) (j : Job) : St × ZEdge :=
  setOpS p j.op fuel st j.f j.g

def Cfg.init (st : St) (jobs : List Job) : Cfg := ⟨st, jobs.map Job.task⟩

/-- the operands of all jobs denote trees; `Ts` are the tree-level results, `N` the step bound -/
inductive JobsOK (s : Store) : List Job → List ZDD → Nat → Prop
  | nil : JobsOK s [] [] 0
  | cons {j a b js Ts N} : DenotesZ s j.f a → DenotesZ s j.g b → JobsOK s js Ts N →
      JobsOK s (j :: js) (setOp j.op a b :: Ts) (W (a.size + b.size) + N)

theorem JobsOK.tasks {env : Env} {s : Store} {js : List Job} {Ts : List ZDD} {N : Nat}
    (h : JobsOK s js Ts N) : TasksOK env s (js.map Job.task) Ts N := by
  induction h with
  | nil => exact .nil
  | cons ha hb _ ih => exact .cons (.call ⟨_, _, ha, hb, rfl, Nat.le_refl _⟩ (Nat.le_refl _)) ih

theorem JobsOK.get {s : Store} {js : List Job} {Ts : List ZDD} {N : Nat} (h : JobsOK s js Ts N) :
    ∀ {i : Nat} {j : Job}, js[i]? = some j →
      ∃ a b, DenotesZ s j.f a ∧ DenotesZ s j.g b ∧ Ts[i]? = some (setOp j.op a b) := by
  induction h with
  | nil => intro i j hi; simp at hi
  | @cons j' a b js Ts N ha hb _ ih =>
    intro i j hi
    cases i with
    | zero => simp at hi; subst hi; exact ⟨a, b, ha, hb, rfl⟩
    | succ i => simp at hi; simpa using ih hi

/-- the hypothesis "all operands denote trees" in elementary form -/
def OperandsOK (s : Store) (jobs : List Job) : Prop :=
  ∀ j, j ∈ jobs → ∃ a b, DenotesZ s j.f a ∧ DenotesZ s j.g b

theorem jobsOK_of_operands {s : Store} : ∀ {jobs : List Job}, OperandsOK s jobs →
    ∃ Ts N, JobsOK s jobs Ts N := by
  intro jobs
  induction jobs with
  | nil => intro _; exact ⟨[], 0, .nil⟩
  | cons j js ih =>
    intro h
    obtain ⟨a, b, ha, hb⟩ := h j (List.mem_cons_self ..)
    obtain ⟨Ts, N, hjs⟩ := ih (fun j' hj' => h j' (List.mem_cons_of_mem _ hj'))
    exact ⟨_, _, .cons ha hb hjs⟩

theorem init_good {env : Env} {st : St} {jobs : List Job} {Ts : List ZDD} {N : Nat}
    (hinv : Inv env st) (hj : JobsOK st.store jobs Ts N) :
    GoodFrom env st.store (Cfg.init st jobs) Ts N :=
  ⟨hinv, Store.Le.refl _, id, hj.tasks⟩

theorem ret?_some {t : Task} {r : ZEdge} (h : t.ret? = some r) : t = .ret r := by
  cases t <;> simp only [Task.ret?] at h <;> cases h
  rfl

theorem GoodFrom.result {env : Env} {s0 : Store} {c : Cfg} {Ts : List ZDD} {N : Nat}
    (h : GoodFrom env s0 c Ts N) (hdone : c.allDone = true) {i : Nat} {T : ZDD}
    (hi : Ts[i]? = some T) : ∃ r, c.tasks[i]? = some (.ret r) ∧ DenotesZ c.st.store r T := by
  obtain ⟨t, n, ht, hok⟩ := h.tasks.get' hi
  have := List.all_eq_true.mp hdone t (List.mem_of_getElem? ht)
  cases hr : t.ret? with
  | none => simp [hr] at this
  | some r =>
    have e := ret?_some hr
    subst e
    exact ⟨r, ht, hok.ret_den rfl⟩

/-! ## (b), (c): the invariant after every schedule -/

/-- **Invariant under every interleaving.** From a state with the ZBDD store invariant and
operations whose operands denote trees, after *any* schedule: the store is hash-consed (`Unique`:
no duplicates), zero-suppressed if it was (`NoRed`: no node with `hi = Empty`), extends the start
store (every node that existed keeps its slot and content), the apply cache is sound for the
current store, and every operation — finished or not — is a task computing its tree-level
result. -/
theorem interleaving_invariant {p : Policy} (pok : p.OK) (env : Env) (st : St) (jobs : List Job)
    (hinv : Inv env st) (hops : OperandsOK st.store jobs) (sched : List Sel) :
    let c := (Cfg.init st jobs).run p sched
    c.st.store.Unique ∧ CacheOK env c.st.store c.st.cache ∧ st.store.Le c.st.store ∧
    (st.store.NoRed → c.st.store.NoRed) ∧ c.tasks.length = jobs.length ∧
    ∀ (i : Nat) (j : Job), jobs[i]? = some j → ∀ a b, DenotesZ st.store j.f a →
      DenotesZ st.store j.g b →
      ∃ t n, c.tasks[i]? = some t ∧ TaskOK env c.st.store t (setOp j.op a b) n := by
  intro c
  obtain ⟨Ts, N, hj⟩ := jobsOK_of_operands hops
  obtain ⟨N', hg, _, _⟩ := Cfg.run_good (p := p) pok sched (init_good hinv hj)
  refine ⟨hg.inv.1, hg.inv.2, hg.le, hg.nored, ?_, ?_⟩
  · show ((Cfg.init st jobs).run p sched).tasks.length = _
    rw [Cfg.run_length]; simp [Cfg.init]
  · intro i j hi a b ha hb
    obtain ⟨a', b', ha', hb', hTi⟩ := hj.get hi
    have := DenotesZ.functional ha ha'
    subst this
    have := DenotesZ.functional hb hb'
    subst this
    exact hg.tasks.get' hTi

/-! ## (a): the results -/

/-- **Every complete schedule yields the sequential result.** If the schedule has finished all
operations, operation `i` holds an edge `r` that denotes the result `setOp op a b` of the
tree-level (sequential, cache-free) algorithm on the trees `a`, `b` of its operands. -/
theorem interleaving_correct {p : Policy} (pok : p.OK) (env : Env) (st : St) (jobs : List Job)
    (hinv : Inv env st) (hops : OperandsOK st.store jobs) (sched : List Sel)
    (hdone : ((Cfg.init st jobs).run p sched).allDone = true)
    (i : Nat) (j : Job) (hi : jobs[i]? = some j) (a b : ZDD)
    (ha : DenotesZ st.store j.f a) (hb : DenotesZ st.store j.g b) :
    ∃ r, ((Cfg.init st jobs).run p sched).tasks[i]? = some (.ret r) ∧
      DenotesZ ((Cfg.init st jobs).run p sched).st.store r (setOp j.op a b) := by
  obtain ⟨Ts, N, hj⟩ := jobsOK_of_operands hops
  obtain ⟨N', hg, _, _⟩ := Cfg.run_good (p := p) pok sched (init_good hinv hj)
  obtain ⟨a', b', ha', hb', hTi⟩ := hj.get hi
  have := DenotesZ.functional ha ha'
  subst this
  have := DenotesZ.functional hb hb'
  subst this
  exact hg.result hdone hTi

/-- **Interleaved execution against the sequential store-level model** `Job.seq` = `setOpS`
(`SetOpsS.lean`; tied to the real code by the store-level streams). With `R` the sequential run
from the *start* state (any admissible policy `p'`, enough fuel) and `r` the edge operation `i`
holds after a complete schedule:

1. `r` and `R.2` denote the same tree (hence the same family of sets, the same diagram shape) in
   their respective stores;
2. if that tree was already present in the start store as edge `e`, then `r = e = R.2`;
3. if the start store is zero-suppressed: re-running the model in the *final* state of the schedule
   returns exactly `r` and leaves the store as it is.

(The stores may differ in the slot numbers of the nodes created on the way, because slots are
handed out in the order of the `reduce` actions.) -/
theorem interleaving_vs_sequential {p : Policy} (pok : p.OK) (env : Env) (st : St)
    (jobs : List Job) (hinv : Inv env st) (hops : OperandsOK st.store jobs) (sched : List Sel)
    (hdone : ((Cfg.init st jobs).run p sched).allDone = true)
    (i : Nat) (j : Job) (hi : jobs[i]? = some j) (a b : ZDD)
    (ha : DenotesZ st.store j.f a) (hb : DenotesZ st.store j.g b)
    {p' : Policy} (pok' : p'.OK) (fuel : Nat) (hfuel : a.size + b.size ≤ fuel) :
    ∃ r, ((Cfg.init st jobs).run p sched).tasks[i]? = some (.ret r) ∧
      DenotesZ ((Cfg.init st jobs).run p sched).st.store r (setOp j.op a b) ∧
      DenotesZ (j.seq p' fuel st).1.store (j.seq p' fuel st).2 (setOp j.op a b) ∧
      (∀ e, DenotesZ st.store e (setOp j.op a b) → r = e ∧ (j.seq p' fuel st).2 = e) ∧
      (st.store.NoRed →
        (j.seq p' fuel ((Cfg.init st jobs).run p sched).st).2 = r ∧
        (j.seq p' fuel ((Cfg.init st jobs).run p sched).st).1.store =
          ((Cfg.init st jobs).run p sched).st.store) := by
  obtain ⟨r, hr, hden⟩ := interleaving_correct pok env st jobs hinv hops sched hdone i j hi a b ha hb
  obtain ⟨hu, hc, hle, hnr, _, _⟩ := interleaving_invariant pok env st jobs hinv hops sched
  have hseq := setOpS_spec pok' env j.op fuel st j.f j.g a b hinv ha hb hfuel
  refine ⟨r, hr, hden, hseq.den, ?_, ?_⟩
  · intro e he
    exact ⟨inj_of_unique hu _ _ _ hden (he.mono hle),
      inj_of_unique hseq.inv.1 _ _ _ hseq.den (he.mono hseq.le)⟩
  · intro hr0
    have hre := setOpS_spec pok' env j.op fuel ((Cfg.init st jobs).run p sched).st j.f j.g a b
      ⟨hu, hc⟩ (ha.mono hle) (hb.mono hle) hfuel
    have hcan := hre.canon (hnr hr0)
    rw [intern_of_denotes hu (hnr hr0) hden] at hcan
    exact ⟨congrArg Prod.snd hcan, congrArg Prod.fst hcan⟩

/-- **The machine's sequential instance is the model.** One operation with the sequential
recursor (`d = 0`), selected again and again: after some number of (all enabled) selections the
configuration is exactly the model's result — `Job.seq`'s store (slot for slot), cache, time
stamp, and the task is `ret` of `Job.seq`'s edge. -/
theorem sequential_schedule_is_model {p : Policy} (pok : p.OK) (env : Env) (st : St) (j : Job)
    (hd : j.d = 0) (hinv : Inv env st) (a b : ZDD) (ha : DenotesZ st.store j.f a)
    (hb : DenotesZ st.store j.g b) (fuel : Nat) (hfuel : a.size + b.size ≤ fuel) :
    ∃ n, (Cfg.init st [j]).run p (List.replicate n ⟨0, []⟩) =
        ⟨(j.seq p fuel st).1, [.ret (j.seq p fuel st).2]⟩ ∧
      (Cfg.init st [j]).allEnabled p (List.replicate n ⟨0, []⟩) = true := by
  obtain ⟨d, op, f, g⟩ := j
  simp only at hd ha hb
  subst hd
  exact (steps_setOpS pok env op fuel st f g a b hinv ha hb hfuel).run

/-- **Canonicity across threads**: two operations, of whichever tasks and split depths, whose
tree-level results coincide hold the *same edge* after any complete schedule (e.g. `f ∪ g` by one
thread and `g ∪ f` by another). -/
theorem same_function_same_edge {p : Policy} (pok : p.OK) (env : Env) (st : St) (jobs : List Job)
    (hinv : Inv env st) (hops : OperandsOK st.store jobs) (sched : List Sel)
    (hdone : ((Cfg.init st jobs).run p sched).allDone = true)
    (i1 i2 : Nat) (j1 j2 : Job) (h1 : jobs[i1]? = some j1) (h2 : jobs[i2]? = some j2)
    (a1 b1 a2 b2 : ZDD) (ha1 : DenotesZ st.store j1.f a1) (hb1 : DenotesZ st.store j1.g b1)
    (ha2 : DenotesZ st.store j2.f a2) (hb2 : DenotesZ st.store j2.g b2)
    (hT : setOp j1.op a1 b1 = setOp j2.op a2 b2) :
    ∃ r, ((Cfg.init st jobs).run p sched).tasks[i1]? = some (.ret r) ∧
      ((Cfg.init st jobs).run p sched).tasks[i2]? = some (.ret r) := by
  obtain ⟨r1, hr1, hd1⟩ :=
    interleaving_correct pok env st jobs hinv hops sched hdone i1 j1 h1 a1 b1 ha1 hb1
  obtain ⟨r2, hr2, hd2⟩ :=
    interleaving_correct pok env st jobs hinv hops sched hdone i2 j2 h2 a2 b2 ha2 hb2
  obtain ⟨hu, _⟩ := interleaving_invariant pok env st jobs hinv hops sched
  rw [hT] at hd1
  have := inj_of_unique hu _ _ _ hd1 hd2
  subst this
  exact ⟨r1, hr1, hr2⟩

/-! ## (c): interleaved cache inserts -/

/-- **Interleaved inserts agree.** At any moment of any schedule: if two sub-tasks (anywhere in the
task trees of any two operations, possibly the same) hold a result for the same cache key and are
about to execute `apply_cache().add`, they insert the same edge; and if the cache already holds a
value for that key, it is (the word of) that same edge. -/
theorem interleaved_inserts_agree {p : Policy} (pok : p.OK) (env : Env) (st : St)
    (jobs : List Job) (hinv : Inv env st) (hops : OperandsOK st.store jobs) (sched : List Sel)
    (i1 i2 : Nat) (t1 t2 : Task)
    (h1 : ((Cfg.init st jobs).run p sched).tasks[i1]? = some t1)
    (h2 : ((Cfg.init st jobs).run p sched).tasks[i2]? = some t2)
    (key : ZKey) (r1 r2 : ZEdge) (hm1 : (key, r1) ∈ t1.mades) (hm2 : (key, r2) ∈ t2.mades) :
    r1 = r2 ∧
      ∀ w, (encKey key, w) ∈ ((Cfg.init st jobs).run p sched).st.cache → w = encE r1 := by
  obtain ⟨Ts, N, hj⟩ := jobsOK_of_operands hops
  obtain ⟨N', hg, _, _⟩ := Cfg.run_good (p := p) pok sched (init_good hinv hj)
  obtain ⟨T1, n1, _, hok1⟩ := hg.tasks.get h1
  obtain ⟨T2, n2, _, hok2⟩ := hg.tasks.get h2
  obtain ⟨U1, hk1, hd1⟩ := hok1.mades_ok key r1 hm1
  obtain ⟨U2, hk2, hd2⟩ := hok2.mades_ok key r2 hm2
  have := keyMeans_functional hk1 hk2
  subst this
  refine ⟨inj_of_unique hg.inv.1 _ _ _ hd1 hd2, fun w hw => ?_⟩
  obtain ⟨ts, e1, e2, _⟩ := hk1
  have hw' := (hg.inv.2 _ w hw).hit e1 e2
  have := inj_of_unique hg.inv.1 _ _ _ hw' hd1
  rw [← this, encE_decE]

/-! ## termination -/

/-- the explicit step bound: `W |operand trees|` per operation (`W (k+1) = 2 W k + 8`) -/
def stepBound (sizes : List Nat) : Nat := (sizes.map W).sum

theorem JobsOK.bound {s : Store} {js : List Job} {Ts : List ZDD} {N : Nat} (h : JobsOK s js Ts N) :
    ∀ (size : Job → Nat), (∀ j a b, j ∈ js → DenotesZ s j.f a → DenotesZ s j.g b →
      a.size + b.size ≤ size j) → N ≤ stepBound (js.map size) := by
  induction h with
  | nil => intro _ _; exact Nat.zero_le _
  | @cons j a b js Ts N ha hb _ ih =>
    intro size hs
    have h1 := W_mono (hs j a b (List.mem_cons_self ..) ha hb)
    have h2 := ih size (fun j' a' b' hj' => hs j' a' b' (List.mem_cons_of_mem _ hj'))
    simp only [stepBound, List.map_cons, List.sum_cons] at h2 ⊢
    omega

/-- **Every schedule terminates**: a schedule in which every selection names a live task has at
most `stepBound` elements — a number that depends only on the sizes of the operand trees, not on
the schedule, the cache policy, or the other operations. -/
theorem enabled_schedule_bounded {p : Policy} (pok : p.OK) (env : Env) (st : St) (jobs : List Job)
    (hinv : Inv env st) (hops : OperandsOK st.store jobs) (sched : List Sel)
    (hen : (Cfg.init st jobs).allEnabled p sched = true) (size : Job → Nat)
    (hsize : ∀ j a b, j ∈ jobs → DenotesZ st.store j.f a → DenotesZ st.store j.g b →
      a.size + b.size ≤ size j) :
    sched.length ≤ stepBound (jobs.map size) := by
  obtain ⟨Ts, N, hj⟩ := jobsOK_of_operands hops
  obtain ⟨N', _, _, hlen⟩ := Cfg.run_good (p := p) (env := env) pok sched (init_good hinv hj)
  have := hlen hen
  have := hj.bound size hsize
  omega

/-- a run is stuck (no selection enabled) exactly when all operations have returned: no deadlock -/
theorem stuck_iff_done (c : Cfg) : (∀ sel, c.enabled sel = false) ↔ c.allDone = true :=
  (Cfg.allDone_iff_none_enabled c).symm

theorem complete_schedule_exists {p : Policy} (pok : p.OK) (env : Env) (st : St) (jobs : List Job)
    (hinv : Inv env st) (hops : OperandsOK st.store jobs) :
    ∃ sched, (Cfg.init st jobs).allEnabled p sched = true ∧
      ((Cfg.init st jobs).run p sched).allDone = true := by
  obtain ⟨Ts, N, hj⟩ := jobsOK_of_operands hops
  exact Cfg.complete_exists pok N (init_good (env := env) hinv hj)

/-! ## non-vacuity: six operations on a concrete three-level store -/

def exX2 : ZDD := .node 2 .base .empty
/-- `{{0,1},{0,2},{0},{1},∅}`-like family: a three-level ZDD -/
def exF : ZDD := .node 0 (.node 1 .base exX2) (.node 1 .base .empty)
def exG : ZDD := .node 0 (.node 1 exX2 .base) (.node 1 .base (.node 2 .base .base))

/-- `#3 = F`, `#7 = G` -/
def exStore : Store := (intern (intern ⟨#[]⟩ exF).1 exG).1

example : exStore.nodes =
    #[some ⟨2, .base, .empty⟩, some ⟨1, .base, .inner 0⟩, some ⟨1, .base, .empty⟩,
      some ⟨0, .inner 1, .inner 2⟩, some ⟨1, .inner 0, .base⟩, some ⟨2, .base, .base⟩,
      some ⟨1, .base, .inner 5⟩, some ⟨0, .inner 4, .inner 6⟩] := by decide +kernel

theorem exStore_unique : exStore.Unique := intern_unique _ _ (intern_unique _ _ empty_unique)
theorem exStore_nored : exStore.NoRed := intern_nored _ _ (intern_nored _ _ empty_nored)

def exEnv : Env := ⟨3, id⟩
def exSt : St := ⟨exStore, [], 0⟩
theorem exSt_inv : Inv exEnv exSt := ⟨exStore_unique, CacheOK.nil _ _⟩

def eF : ZEdge := .inner 3
def eG : ZEdge := .inner 7

theorem exStore_F : DenotesZ exStore eF exF := by
  have h := (intern_denotes ⟨#[]⟩ exF (by simp [Reduced, exF, exX2])).mono (intern_le _ exG)
  have e : (intern ⟨#[]⟩ exF).2 = eF := by decide +kernel
  rw [e] at h; exact h
theorem exStore_G : DenotesZ exStore eG exG := by
  have h := intern_denotes (intern ⟨#[]⟩ exF).1 exG (by simp [Reduced, exG, exX2])
  have e : (intern (intern ⟨#[]⟩ exF).1 exG).2 = eG := by decide +kernel
  rw [e] at h; exact h

/-- a lossy direct-mapped cache with four buckets -/
def exPol : Policy :=
  Policy.dm 4 (fun k => match k.2 with | [_, .inner i, .inner j] => i + j | _ => 0) (fun _ => true)
theorem exPol_ok : exPol.OK := Policy.dm_ok _ _ _

/-- operation 0: `F ∪ G` with split depth 2 (forks at level 0 **and** in both branches at level
1); 1: `G ∪ F` with the sequential recursor; 2: `F ∩ G`, 3: `F \ G`, 4: `G Δ F`, split depth 1;
5: `F ∪ G` sequential once more (another user thread) -/
def exJobs : List Job :=
  [⟨2, .union, eF, eG⟩, ⟨0, .union, eG, eF⟩, ⟨1, .intsec, eF, eG⟩, ⟨1, .diff, eF, eG⟩,
   ⟨1, .symmDiff, eG, eF⟩, ⟨0, .union, eF, eG⟩]

theorem exOps : OperandsOK exSt.store exJobs := by
  intro j hj
  simp only [exJobs, List.mem_cons, List.mem_nil_iff, or_false] at hj
  rcases hj with h | h | h | h | h | h <;> subst h
  · exact ⟨_, _, exStore_F, exStore_G⟩
  · exact ⟨_, _, exStore_G, exStore_F⟩
  · exact ⟨_, _, exStore_F, exStore_G⟩
  · exact ⟨_, _, exStore_F, exStore_G⟩
  · exact ⟨_, _, exStore_G, exStore_F⟩
  · exact ⟨_, _, exStore_F, exStore_G⟩

abbrev exCfg : Cfg := Cfg.init exSt exJobs

/-- 30 rounds over the six operations; the paths alternate between the sub-tasks -/
def exSched : List Sel :=
  (List.range 30).flatMap fun k =>
    [⟨0, [k % 2 == 0, k % 3 == 0]⟩, ⟨1, []⟩, ⟨2, [k % 2 == 1]⟩, ⟨3, [true]⟩,
     ⟨4, [k % 2 == 0]⟩, ⟨5, []⟩]

/-- after 36 selections operation 0 has forked three times (level 0, and level 1 in both
branches): four sub-tasks are schedulable independently; operations 2, 3, 4 have forked once;
operation 1 is two `seq1` frames and a one-sided `one` frame (`Greater` arm of `apply_union`:
`Base ∪ #0` builds `⟨2, Base, ·⟩` by `reduce_borrowed`) deep in the sequential recursor -/
example : ((exCfg.run exPol (exSched.take 36)).tasks.map Task.forks = [3, 0, 1, 1, 1, 0]) ∧
    (exCfg.run exPol (exSched.take 36)).tasks[1]? =
      some (.seq1 ⟨⟨.union, [.inner 3, .inner 7], []⟩, 0⟩ ⟨.union, .inner 2, .inner 6⟩
        (.seq1 ⟨⟨.union, [.inner 1, .inner 4], []⟩, 1⟩ ⟨.union, .inner 0, .base⟩
          (.one ⟨.union, [.base, .inner 0], []⟩ (some (2, .base))
            (.call 0 ⟨.union, .base, .empty⟩)))) := by decide +kernel

theorem exDone : (exCfg.run exPol exSched).allDone = true := by decide +kernel

/-- the results: `F ∪ G = #9` three times (operand order and recursor do not matter), `F ∩ G = #2`
(already present), `F \ G = #10`, `G Δ F = #11`; four nodes were created, the lossy cache kept
three entries -/
example : (exCfg.run exPol exSched).tasks =
      [.ret (.inner 9), .ret (.inner 9), .ret (.inner 2), .ret (.inner 10), .ret (.inner 11),
       .ret (.inner 9)] ∧
    (exCfg.run exPol exSched).st.store.nodes.size = 12 ∧
    (exCfg.run exPol exSched).st.cache.length = 3 := by decide +kernel

/-- `interleaving_invariant` at an intermediate configuration -/
example := interleaving_invariant exPol_ok exEnv exSt exJobs exSt_inv exOps (exSched.take 36)

/-- `interleaving_correct`: operation 0's edge (`#9`) denotes `F ∪ G` in the final store,
operation 3's (`#10`) denotes `F \ G` -/
example := interleaving_correct exPol_ok exEnv exSt exJobs exSt_inv exOps exSched exDone 0
  ⟨2, .union, eF, eG⟩ rfl exF exG exStore_F exStore_G
example := interleaving_correct exPol_ok exEnv exSt exJobs exSt_inv exOps exSched exDone 3
  ⟨1, .diff, eF, eG⟩ rfl exF exG exStore_F exStore_G

/-- `interleaving_vs_sequential` for operations 0 and 4 against the model with the exact cache -/
example := interleaving_vs_sequential exPol_ok exEnv exSt exJobs exSt_inv exOps exSched exDone 0
  ⟨2, .union, eF, eG⟩ rfl exF exG exStore_F exStore_G Policy.exact_ok 20 (by decide)
example := interleaving_vs_sequential exPol_ok exEnv exSt exJobs exSt_inv exOps exSched exDone 4
  ⟨1, .symmDiff, eG, eF⟩ rfl exG exF exStore_G exStore_F Policy.exact_ok 20 (by decide)
/-- the sequential run of `G Δ F` from the start state returns `#9` (the tree the machine has in
slot `#11`: other operations got slots `#9`, `#10` first); re-run in the final state: `#11` -/
example : (Job.seq Policy.exact 20 exSt ⟨1, .symmDiff, eG, eF⟩).2 = .inner 9 ∧
    (Job.seq Policy.exact 20 (exCfg.run exPol exSched).st ⟨1, .symmDiff, eG, eF⟩).2 = .inner 11 := by
  decide +kernel

/-- `sequential_schedule_is_model`: operation 1 alone is `setOpS .union` -/
example := sequential_schedule_is_model exPol_ok exEnv exSt ⟨0, .union, eG, eF⟩ rfl exSt_inv
  exG exF exStore_G exStore_F 20 (by decide)

/-- `same_function_same_edge`: operations 0 (`F ∪ G`, parallel) and 1 (`G ∪ F`, sequential) -/
example := same_function_same_edge exPol_ok exEnv exSt exJobs exSt_inv exOps exSched exDone 0 1
  ⟨2, .union, eF, eG⟩ ⟨0, .union, eG, eF⟩ rfl rfl exF exG exG exF exStore_F exStore_G exStore_G
  exStore_F (setOp_comm' .union rfl exG exF)

/-- `interleaved_inserts_agree`: after 48 selections operations 1 and 5 have both finished `reduce`
for the sub-problem with key `(Union, [Base, #0])` and are both about to insert `↦ #5` -/
def exT (i : Nat) : Task := ((exCfg.run exPol (exSched.take 48)).tasks[i]?).getD (.ret eF)
example := interleaved_inserts_agree exPol_ok exEnv exSt exJobs exSt_inv exOps (exSched.take 48) 1 5
  (exT 1) (exT 5) (by decide +kernel) (by decide +kernel) ⟨.union, [.base, .inner 0], []⟩
  (.inner 5) (.inner 5) (by decide +kernel) (by decide +kernel)
example : (exT 1).mades = [(⟨.union, [.base, .inner 0], []⟩, .inner 5)] ∧
    (exT 5).mades = [(⟨.union, [.base, .inner 0], []⟩, .inner 5)] := by decide +kernel

/-- the schedule without the selections that were not enabled -/
def prune (p : Policy) : Cfg → List Sel → List Sel
  | _, [] => []
  | c, s :: ss => if c.enabled s then s :: prune p (c.step p s) ss else prune p c ss

/-- `enabled_schedule_bounded`: the enabled selections of `exSched`; the theorem bounds every such
schedule by `6 * W 20` -/
example : exCfg.allEnabled exPol (prune exPol exCfg exSched) = true := by decide +kernel
example := enabled_schedule_bounded exPol_ok exEnv exSt exJobs exSt_inv exOps
  (prune exPol exCfg exSched) (by decide +kernel) (fun _ => 20) (by
    intro j a b hj ha hb
    simp only [exJobs, List.mem_cons, List.mem_nil_iff, or_false] at hj
    rcases hj with h | h | h | h | h | h <;> subst h <;>
      first
      | (rw [DenotesZ.functional ha exStore_F, DenotesZ.functional hb exStore_G]; decide)
      | (rw [DenotesZ.functional ha exStore_G, DenotesZ.functional hb exStore_F]; decide))

example := complete_schedule_exists exPol_ok exEnv exSt exJobs exSt_inv exOps
example := (stuck_iff_done (exCfg.run exPol exSched)).mpr exDone

end OxiddModel.Zbdd.Threads
