import OxiddModel.Zbdd.ThreadsSub
import OxiddModel.Zbdd.PropertiesC07T

/-!
# C07 for the ZBDD `subset0` / `subset1` / `change`: every interleaving ≡ sequential

The run-level invariant and the headline theorems for the machine of `Zbdd/ThreadsSub.lean`
(`subset::<VAL>` with `rec.subset` = fork), in the form of `PropertiesC07T.lean`: for every
schedule, admissible cache policy, split depth, number of operations, and start state with the
ZBDD store invariant, with `var_level = var_to_level(var)` for every operation (`Par.OK`).
-/
namespace OxiddModel.Zbdd.ThreadsSub
open OxiddModel.Zbdd OxiddModel.Zbdd.ZDD OxiddModel.Zbdd.Refine
open OxiddModel.Bdd.Refine (Policy OpTag Key Cache)
open OxiddModel.Zbdd.Threads (Act runOpt Frame Sel W W_pos W_mono StOK keyMeans_mono keyMeans_functional)

inductive OpsOK (env : Env) (s : Store) : List Op → List ZDD → Nat → Prop
  | nil : OpsOK env s [] [] 0
  | cons {o T n os Ts N} : o.pr.OK env → TaskOK o.pr env s o.t T n → OpsOK env s os Ts N →
      OpsOK env s (o :: os) (T :: Ts) (n + N)

theorem OpsOK.mono {env : Env} {s s' : Store} (hle : s.Le s') {os : List Op} {Ts : List ZDD}
    {N : Nat} (h : OpsOK env s os Ts N) : OpsOK env s' os Ts N := by
  induction h with
  | nil => exact .nil
  | cons hp h _ ih => exact .cons hp (h.mono hle) ih

theorem OpsOK.get {env : Env} {s : Store} {os : List Op} {Ts : List ZDD} {N : Nat}
    (h : OpsOK env s os Ts N) : ∀ {i : Nat} {o : Op}, os[i]? = some o →
      ∃ T n, Ts[i]? = some T ∧ o.pr.OK env ∧ TaskOK o.pr env s o.t T n := by
  induction h with
  | nil => intro i t hi; simp at hi
  | @cons o' T n os Ts N hp h _ ih =>
    intro i o hi
    cases i with
    | zero => simp at hi; subst hi; exact ⟨T, n, rfl, hp, h⟩
    | succ i => simp at hi; simpa using ih hi

theorem OpsOK.get' {env : Env} {s : Store} {os : List Op} {Ts : List ZDD} {N : Nat}
    (h : OpsOK env s os Ts N) : ∀ {i : Nat} {T : ZDD}, Ts[i]? = some T →
      ∃ o n, os[i]? = some o ∧ TaskOK o.pr env s o.t T n := by
  induction h with
  | nil => intro i t hi; simp at hi
  | @cons o' T n os Ts N hp h _ ih =>
    intro i T' hi
    cases i with
    | zero => simp at hi; subst hi; exact ⟨o', n, rfl, h⟩
    | succ i => simp at hi; simpa using ih hi

theorem OpsOK.set {env : Env} {s s' : Store} (hle : s.Le s') {o : Op} {t' : Task} {os : List Op}
    {Ts : List ZDD} {N : Nat} (h : OpsOK env s os Ts N) : ∀ {i : Nat}, os[i]? = some o →
      (∀ T n, TaskOK o.pr env s o.t T n → ∃ n', n' < n ∧ TaskOK o.pr env s' t' T n') →
      ∃ N', N' < N ∧ OpsOK env s' (os.set i ⟨o.pr, t'⟩) Ts N' := by
  induction h with
  | nil => intro i hi; simp at hi
  | @cons o0 T n os Ts N hp h htl ih =>
    intro i hi hstep
    cases i with
    | zero =>
      simp at hi; subst hi
      obtain ⟨n', hlt, hok⟩ := hstep T n h
      exact ⟨n' + N, by omega, by simpa using .cons (o := ⟨o0.pr, t'⟩) hp hok (htl.mono hle)⟩
    | succ i =>
      simp at hi
      obtain ⟨N', hlt, hok⟩ := ih hi hstep
      exact ⟨n + N', by omega, by simpa using .cons hp (h.mono hle) hok⟩

structure GoodFrom (env : Env) (s0 : Store) (c : Cfg) (Ts : List ZDD) (N : Nat) : Prop where
  inv : Inv env c.st
  le : s0.Le c.st.store
  nored : s0.NoRed → c.st.store.NoRed
  ops : OpsOK env c.st.store c.ops Ts N

theorem Cfg.step_of_not_enabled {p : Policy} {c : Cfg} {sel : Sel} (h : c.enabled sel = false) :
    c.step p sel = c := by
  unfold Cfg.enabled at h
  unfold Cfg.step
  split
  · rfl
  · rename_i o ho
    simp only [ho] at h
    cases hr : o.t.ret? with
    | none => simp [hr] at h
    | some r => rfl

theorem Cfg.step_good {p : Policy} (pok : p.OK) {env : Env} {s0 : Store} {c : Cfg}
    {Ts : List ZDD} {N : Nat} (h : GoodFrom env s0 c Ts N) (sel : Sel) :
    ∃ N', GoodFrom env s0 (c.step p sel) Ts N' ∧ N' ≤ N ∧ (c.enabled sel = true → N' < N) := by
  cases he : c.enabled sel with
  | false => rw [Cfg.step_of_not_enabled he]; exact ⟨N, h, Nat.le_refl _, fun h => by cases h⟩
  | true =>
    unfold Cfg.enabled at he
    unfold Cfg.step
    split
    · rename_i hi; simp [hi] at he
    · rename_i o hi
      simp only [hi] at he
      cases hr : o.t.ret? with
      | some r => simp [hr] at he
      | none =>
        simp only
        obtain ⟨T, n, _, hp, hok⟩ := h.ops.get hi
        have hst := (Task.step_ok pok hp h.inv hok sel.path hr).1
        obtain ⟨N', hlt, hops⟩ := h.ops.set hst.le (t' := (o.t.step o.pr p c.st sel.path).2) hi
          (fun T n hT => (Task.step_ok pok hp h.inv hT sel.path hr).2)
        exact ⟨N', ⟨hst.inv, h.le.trans hst.le, fun hr0 => hst.nored (h.nored hr0), hops⟩,
          by omega, fun _ => hlt⟩

theorem Cfg.run_good {p : Policy} (pok : p.OK) {env : Env} {s0 : Store} {Ts : List ZDD}
    (sched : List Sel) : ∀ {c : Cfg} {N : Nat}, GoodFrom env s0 c Ts N →
    ∃ N', GoodFrom env s0 (c.run p sched) Ts N' ∧ N' ≤ N ∧
      (c.allEnabled p sched = true → sched.length + N' ≤ N) := by
  induction sched with
  | nil => intro c N h; exact ⟨N, h, Nat.le_refl _, fun _ => by simp⟩
  | cons sel ss ih =>
    intro c N h
    obtain ⟨N1, h1, hle1, hlt1⟩ := Cfg.step_good pok h sel
    obtain ⟨N2, h2, hle2, hlen2⟩ := ih h1
    refine ⟨N2, h2, by omega, fun hen => ?_⟩
    simp only [Cfg.allEnabled, Bool.and_eq_true] at hen
    have := hlt1 hen.1
    have := hlen2 hen.2
    simp only [List.length_cons]
    omega

theorem done_or_enabled (os : List Op) :
    (os.all (fun o => o.t.ret?.isSome) = true) ∨
      ∃ (i : Nat) (o : Op), os[i]? = some o ∧ o.t.ret? = none := by
  induction os with
  | nil => left; rfl
  | cons o os ih =>
    cases hr : o.t.ret? with
    | none => right; exact ⟨0, o, rfl, hr⟩
    | some r =>
      rcases ih with h | ⟨i, o', hi, ho'⟩
      · left; simp [hr, h]
      · right; exact ⟨i + 1, o', by simpa using hi, ho'⟩

theorem Cfg.complete_exists {p : Policy} (pok : p.OK) {env : Env} {s0 : Store} {Ts : List ZDD} :
    ∀ (N : Nat) {c : Cfg}, GoodFrom env s0 c Ts N →
      ∃ sched, c.allEnabled p sched = true ∧ (c.run p sched).allDone = true := by
  intro N
  induction N using Nat.strongRecOn with
  | _ N ih =>
    intro c h
    rcases done_or_enabled c.ops with hd | ⟨i, o, hi, hr⟩
    · exact ⟨[], rfl, hd⟩
    · have hen : c.enabled ⟨i, []⟩ = true := by simp [Cfg.enabled, hi, hr]
      obtain ⟨N1, h1, _, hlt⟩ := Cfg.step_good (p := p) pok h ⟨i, []⟩
      obtain ⟨ss, hen', hdone⟩ := ih N1 (hlt hen) h1
      exact ⟨⟨i, []⟩ :: ss, by simp [Cfg.allEnabled, hen, hen'], hdone⟩

theorem TaskOK.mades_ok {pr : Par} {env : Env} {s : Store} {t : Task} {T : ZDD} {n : Nat}
    (h : TaskOK pr env s t T n) :
    ∀ key r, (key, r) ∈ t.mades → ∃ T', KeyMeans env s key T' ∧ DenotesZ s r T' := by
  induction h with
  | ret => intro _ _ hm; simp [Task.mades] at hm
  | call => intro _ _ hm; simp [Task.mades] at hm
  | miss => intro _ _ hm; simp [Task.mades] at hm
  | seq1 _ _ _ _ _ ih => intro key r hm; exact ih key r hm
  | seq0 _ _ _ _ _ ih => intro key r hm; exact ih key r hm
  | par _ _ _ _ _ ih1 ih0 =>
    intro key r hm
    simp only [Task.mades, List.mem_append] at hm
    rcases hm with hm | hm
    · exact ih1 key r hm
    · exact ih0 key r hm
  | @made key' r' T n hk hr _ =>
    intro key r hm
    simp only [Task.mades, List.mem_singleton, Prod.mk.injEq] at hm
    obtain ⟨rfl, rfl⟩ := hm
    exact ⟨T, hk, hr⟩

/-! ## jobs -/

/-- a top-level `subset0_edge` / `subset1_edge` / `change_edge`: split depth, operator, variable,
its level, operand -/
structure Job where
  d : Nat
  pr : Par
  f : ZEdge
deriving DecidableEq, Repr

def Job.op (j : Job) : Op := ⟨j.pr, .call j.d j.f⟩

/-- the sequential store-level model: `subsetS` (`SetOpsS.lean`) -/
def Job.seq (p : Policy) (fuel : Nat) (st : St) (j : Job) : St × ZEdge :=
  subsetS p j.pr.op j.pr.var j.pr.vl fuel st j.f

def Cfg.init (st : St) (jobs : List Job) : Cfg := ⟨st, jobs.map Job.op⟩

/-- every operand denotes a tree and every `var_level` is the level of its variable -/
def JobsOK (env : Env) (s : Store) (jobs : List Job) : Prop :=
  ∀ j, j ∈ jobs → j.pr.OK env ∧ ∃ a, DenotesZ s j.f a

inductive JobsT (env : Env) (s : Store) : List Job → List ZDD → Nat → Prop
  | nil : JobsT env s [] [] 0
  | cons {j a js Ts N} : j.pr.OK env → DenotesZ s j.f a → JobsT env s js Ts N →
      JobsT env s (j :: js) (subset j.pr.op j.pr.vl a :: Ts) (W a.size + N)

theorem jobsT_of {env : Env} {s : Store} : ∀ {jobs : List Job}, JobsOK env s jobs →
    ∃ Ts N, JobsT env s jobs Ts N := by
  intro jobs
  induction jobs with
  | nil => intro _; exact ⟨[], 0, .nil⟩
  | cons j js ih =>
    intro h
    obtain ⟨hp, a, ha⟩ := h j (List.mem_cons_self ..)
    obtain ⟨Ts, N, hjs⟩ := ih (fun j' hj' => h j' (List.mem_cons_of_mem _ hj'))
    exact ⟨_, _, .cons hp ha hjs⟩

theorem JobsT.ops {env : Env} {s : Store} {js : List Job} {Ts : List ZDD} {N : Nat}
    (h : JobsT env s js Ts N) : OpsOK env s (js.map Job.op) Ts N := by
  induction h with
  | nil => exact .nil
  | cons hp ha _ ih => exact .cons hp (.call ⟨_, ha, rfl, Nat.le_refl _⟩ (Nat.le_refl _)) ih

theorem JobsT.get {env : Env} {s : Store} {js : List Job} {Ts : List ZDD} {N : Nat}
    (h : JobsT env s js Ts N) : ∀ {i : Nat} {j : Job}, js[i]? = some j →
      ∃ a, DenotesZ s j.f a ∧ Ts[i]? = some (subset j.pr.op j.pr.vl a) := by
  induction h with
  | nil => intro i j hi; simp at hi
  | @cons j' a js Ts N hp ha _ ih =>
    intro i j hi
    cases i with
    | zero => simp at hi; subst hi; exact ⟨a, ha, rfl⟩
    | succ i => simp at hi; simpa using ih hi

theorem init_good {env : Env} {st : St} {jobs : List Job} {Ts : List ZDD} {N : Nat}
    (hinv : Inv env st) (hj : JobsT env st.store jobs Ts N) :
    GoodFrom env st.store (Cfg.init st jobs) Ts N :=
  ⟨hinv, Store.Le.refl _, id, hj.ops⟩

theorem ret?_some {t : Task} {r : ZEdge} (h : t.ret? = some r) : t = .ret r := by
  cases t <;> simp only [Task.ret?] at h <;> cases h
  rfl

/-! ## headline theorems -/

/-- **(b), (c) Invariant under every interleaving** of `subset0/subset1/change` operations: after
*any* schedule the store is hash-consed, zero-suppressed if it was, extends the start store, the
cache is sound, and operation `i` is a task computing `subset op var_level a`. -/
theorem interleaving_invariant {p : Policy} (pok : p.OK) (env : Env) (st : St) (jobs : List Job)
    (hinv : Inv env st) (hops : JobsOK env st.store jobs) (sched : List Sel) :
    let c := (Cfg.init st jobs).run p sched
    c.st.store.Unique ∧ CacheOK env c.st.store c.st.cache ∧ st.store.Le c.st.store ∧
    (st.store.NoRed → c.st.store.NoRed) ∧
    ∀ (i : Nat) (j : Job), jobs[i]? = some j → ∀ a, DenotesZ st.store j.f a →
      ∃ o n, c.ops[i]? = some o ∧ TaskOK o.pr env c.st.store o.t (subset j.pr.op j.pr.vl a) n := by
  intro c
  obtain ⟨Ts, N, hj⟩ := jobsT_of hops
  obtain ⟨N', hg, _, _⟩ := Cfg.run_good (p := p) pok sched (init_good hinv hj)
  refine ⟨hg.inv.1, hg.inv.2, hg.le, hg.nored, ?_⟩
  intro i j hi a ha
  obtain ⟨a', ha', hTi⟩ := hj.get hi
  have := DenotesZ.functional ha ha'
  subst this
  exact hg.ops.get' hTi

/-- **(a) Every complete schedule yields the sequential result**: operation `i` holds an edge
denoting `subset op var_level a` (`Zbdd/Model.lean`). -/
theorem interleaving_correct {p : Policy} (pok : p.OK) (env : Env) (st : St) (jobs : List Job)
    (hinv : Inv env st) (hops : JobsOK env st.store jobs) (sched : List Sel)
    (hdone : ((Cfg.init st jobs).run p sched).allDone = true)
    (i : Nat) (j : Job) (hi : jobs[i]? = some j) (a : ZDD) (ha : DenotesZ st.store j.f a) :
    ∃ r pr, ((Cfg.init st jobs).run p sched).ops[i]? = some ⟨pr, .ret r⟩ ∧
      DenotesZ ((Cfg.init st jobs).run p sched).st.store r (subset j.pr.op j.pr.vl a) := by
  obtain ⟨Ts, N, hj⟩ := jobsT_of hops
  obtain ⟨N', hg, _, _⟩ := Cfg.run_good (p := p) pok sched (init_good hinv hj)
  obtain ⟨a', ha', hTi⟩ := hj.get hi
  have := DenotesZ.functional ha ha'
  subst this
  obtain ⟨o, n, ho, hok⟩ := hg.ops.get' hTi
  have := List.all_eq_true.mp hdone o (List.mem_of_getElem? ho)
  cases hr : o.t.ret? with
  | none => simp [hr] at this
  | some r =>
    have e := ret?_some hr
    obtain ⟨opr, ot⟩ := o
    simp only at e
    subst e
    exact ⟨r, opr, ho, hok.ret_den rfl⟩

/-- **(a) against the sequential store-level model `subsetS`**: same tree as the model run from
the start state; identical edge if the result existed in the start store; and if the start store
is zero-suppressed the model re-run in the final state returns exactly the machine's edge and
leaves the store unchanged. -/
theorem interleaving_vs_sequential {p : Policy} (pok : p.OK) (env : Env) (st : St)
    (jobs : List Job) (hinv : Inv env st) (hops : JobsOK env st.store jobs) (sched : List Sel)
    (hdone : ((Cfg.init st jobs).run p sched).allDone = true)
    (i : Nat) (j : Job) (hi : jobs[i]? = some j) (a : ZDD) (ha : DenotesZ st.store j.f a)
    {p' : Policy} (pok' : p'.OK) (fuel : Nat) (hfuel : a.size ≤ fuel) :
    ∃ r pr, ((Cfg.init st jobs).run p sched).ops[i]? = some ⟨pr, .ret r⟩ ∧
      DenotesZ ((Cfg.init st jobs).run p sched).st.store r (subset j.pr.op j.pr.vl a) ∧
      DenotesZ (j.seq p' fuel st).1.store (j.seq p' fuel st).2 (subset j.pr.op j.pr.vl a) ∧
      (∀ e, DenotesZ st.store e (subset j.pr.op j.pr.vl a) → r = e ∧ (j.seq p' fuel st).2 = e) ∧
      (st.store.NoRed →
        (j.seq p' fuel ((Cfg.init st jobs).run p sched).st).2 = r ∧
        (j.seq p' fuel ((Cfg.init st jobs).run p sched).st).1.store =
          ((Cfg.init st jobs).run p sched).st.store) := by
  obtain ⟨r, pr, hr, hden⟩ := interleaving_correct pok env st jobs hinv hops sched hdone i j hi a ha
  obtain ⟨hu, hc, hle, hnr, _⟩ := interleaving_invariant pok env st jobs hinv hops sched
  have hpr : j.pr.OK env := (hops j (List.mem_of_getElem? hi)).1
  have hseq := subsetS_spec pok' env j.pr.op j.pr.var fuel st j.f a hinv ha hfuel
  rw [← hpr] at hseq
  refine ⟨r, pr, hr, hden, hseq.den, ?_, ?_⟩
  · intro e he
    exact ⟨inj_of_unique hu _ _ _ hden (he.mono hle),
      inj_of_unique hseq.inv.1 _ _ _ hseq.den (he.mono hseq.le)⟩
  · intro hr0
    have hre := subsetS_spec pok' env j.pr.op j.pr.var fuel ((Cfg.init st jobs).run p sched).st
      j.f a ⟨hu, hc⟩ (ha.mono hle) hfuel
    rw [← hpr] at hre
    have hcan := hre.canon (hnr hr0)
    rw [intern_of_denotes hu (hnr hr0) hden] at hcan
    exact ⟨congrArg Prod.snd hcan, congrArg Prod.fst hcan⟩

/-- **(c) Interleaved inserts agree.** -/
theorem interleaved_inserts_agree {p : Policy} (pok : p.OK) (env : Env) (st : St)
    (jobs : List Job) (hinv : Inv env st) (hops : JobsOK env st.store jobs) (sched : List Sel)
    (i1 i2 : Nat) (o1 o2 : Op)
    (h1 : ((Cfg.init st jobs).run p sched).ops[i1]? = some o1)
    (h2 : ((Cfg.init st jobs).run p sched).ops[i2]? = some o2)
    (key : ZKey) (r1 r2 : ZEdge) (hm1 : (key, r1) ∈ o1.t.mades) (hm2 : (key, r2) ∈ o2.t.mades) :
    r1 = r2 ∧
      ∀ w, (encKey key, w) ∈ ((Cfg.init st jobs).run p sched).st.cache → w = encE r1 := by
  obtain ⟨Ts, N, hj⟩ := jobsT_of hops
  obtain ⟨N', hg, _, _⟩ := Cfg.run_good (p := p) pok sched (init_good hinv hj)
  obtain ⟨T1, n1, _, _, hok1⟩ := hg.ops.get h1
  obtain ⟨T2, n2, _, _, hok2⟩ := hg.ops.get h2
  obtain ⟨U1, hk1, hd1⟩ := hok1.mades_ok key r1 hm1
  obtain ⟨U2, hk2, hd2⟩ := hok2.mades_ok key r2 hm2
  have := keyMeans_functional hk1 hk2
  subst this
  refine ⟨inj_of_unique hg.inv.1 _ _ _ hd1 hd2, fun w hw => ?_⟩
  obtain ⟨ts, e1, e2, _⟩ := hk1
  have hw' := (hg.inv.2 _ w hw).hit e1 e2
  have := inj_of_unique hg.inv.1 _ _ _ hw' hd1
  rw [← this, encE_decE]

theorem JobsT.bound {env : Env} {s : Store} {js : List Job} {Ts : List ZDD} {N : Nat}
    (h : JobsT env s js Ts N) : ∀ (size : Job → Nat),
      (∀ j a, j ∈ js → DenotesZ s j.f a → a.size ≤ size j) →
      N ≤ Threads.stepBound (js.map size) := by
  induction h with
  | nil => intro _ _; exact Nat.zero_le _
  | @cons j a js Ts N hp ha _ ih =>
    intro size hs
    have h1 := W_mono (hs j a (List.mem_cons_self ..) ha)
    have h2 := ih size (fun j' a' hj' => hs j' a' (List.mem_cons_of_mem _ hj'))
    simp only [Threads.stepBound, List.map_cons, List.sum_cons] at h2 ⊢
    omega

/-- **Every schedule terminates** (bound Σ `W |operand tree|`). -/
theorem enabled_schedule_bounded {p : Policy} (pok : p.OK) (env : Env) (st : St) (jobs : List Job)
    (hinv : Inv env st) (hops : JobsOK env st.store jobs) (sched : List Sel)
    (hen : (Cfg.init st jobs).allEnabled p sched = true) (size : Job → Nat)
    (hsize : ∀ j a, j ∈ jobs → DenotesZ st.store j.f a → a.size ≤ size j) :
    sched.length ≤ Threads.stepBound (jobs.map size) := by
  obtain ⟨Ts, N, hj⟩ := jobsT_of hops
  obtain ⟨N', _, _, hlen⟩ := Cfg.run_good (p := p) pok sched (init_good hinv hj)
  have := hlen hen
  have := hj.bound size hsize
  omega

theorem complete_schedule_exists {p : Policy} (pok : p.OK) (env : Env) (st : St) (jobs : List Job)
    (hinv : Inv env st) (hops : JobsOK env st.store jobs) :
    ∃ sched, (Cfg.init st jobs).allEnabled p sched = true ∧
      ((Cfg.init st jobs).run p sched).allDone = true := by
  obtain ⟨Ts, N, hj⟩ := jobsT_of hops
  exact Cfg.complete_exists pok N (init_good hinv hj)

/-! ## non-vacuity: on the store of `PropertiesC07T.lean` -/

open OxiddModel.Zbdd.Threads (exStore exEnv exSt exSt_inv exPol exPol_ok exF exG eF eG exStore_F
  exStore_G)

/-- `subset1 G x1` with split depth 2, `change F x1` depth 1, `subset0 G x2` sequential,
`change G x2` depth 2 (`exEnv.levelOf = id`) -/
def exJobs : List Job :=
  [⟨2, ⟨.subset1, 1, 1⟩, eG⟩, ⟨1, ⟨.change, 1, 1⟩, eF⟩, ⟨0, ⟨.subset0, 2, 2⟩, eG⟩,
   ⟨2, ⟨.change, 2, 2⟩, eG⟩]

theorem exOps : JobsOK exEnv exSt.store exJobs := by
  intro j hj
  simp only [exJobs, List.mem_cons, List.mem_nil_iff, or_false] at hj
  rcases hj with h | h | h | h <;> subst h
  · exact ⟨rfl, _, exStore_G⟩
  · exact ⟨rfl, _, exStore_F⟩
  · exact ⟨rfl, _, exStore_G⟩
  · exact ⟨rfl, _, exStore_G⟩

abbrev exCfg : Cfg := Cfg.init exSt exJobs

def exSched : List Sel :=
  (List.range 40).flatMap fun k =>
    [⟨0, [k % 2 == 0, k % 3 == 0]⟩, ⟨1, [k % 2 == 1]⟩, ⟨2, []⟩, ⟨3, [k % 3 == 1, k % 2 == 0]⟩]

theorem exDone : (exCfg.run exPol exSched).allDone = true := by decide +kernel

/-- after 16 selections operations 0 and 1 have forked once, operation 3 (`change G x2`, split
depth 2) twice: level 0 and level 1 -/
example : (exCfg.run exPol (exSched.take 16)).ops.map (fun o => o.t.forks) = [1, 1, 0, 2] := by
  decide +kernel

/-- the results `#8, #9, #13, #11`; six nodes were created; the sequential model computes
`change G x2` from the start state into slot `#9`, the interleaved run into `#11` -/
example : (exCfg.run exPol exSched).ops.map (fun o => o.t.ret?) =
      [some (.inner 8), some (.inner 9), some (.inner 13), some (.inner 11)] ∧
    (exCfg.run exPol exSched).st.store.nodes.size = 14 ∧
    (Job.seq Policy.exact 12 exSt ⟨2, ⟨.change, 2, 2⟩, eG⟩).2 = .inner 9 := by decide +kernel

example := interleaving_invariant exPol_ok exEnv exSt exJobs exSt_inv exOps (exSched.take 20)
example := interleaving_correct exPol_ok exEnv exSt exJobs exSt_inv exOps exSched exDone 3
  ⟨2, ⟨.change, 2, 2⟩, eG⟩ rfl exG exStore_G
example := interleaving_vs_sequential exPol_ok exEnv exSt exJobs exSt_inv exOps exSched exDone 0
  ⟨2, ⟨.subset1, 1, 1⟩, eG⟩ rfl exG exStore_G Policy.exact_ok 12 (by decide)
example := complete_schedule_exists exPol_ok exEnv exSt exJobs exSt_inv exOps

end OxiddModel.Zbdd.ThreadsSub
