import OxiddModel.Zbdd.CountS

/-!
# Headline theorems for property C12, cache half, zero-suppressed diagrams (ZBDD)

Property text: `sat_count(vars)` is exact "whether the count cache is fresh or has been reused
across other handles, garbage collections, reorderings and different variable counts".

`Zbdd/Count.lean` proves the path count exact on *trees* (no cache). Here the memoised recursion
over node ids (`Zbdd/CountS.lean`: `SatCountCache`, `clear_if_invalid`, `sat_count_edge` with the
in-degree rule and the final scaling by `vars − num_levels`, the manager's `gc_count`, the
tautology chain, `add_vars`) is proved to return exactly the tree-level `Zbdd.satCount`, for every
history through ONE long-lived cache.

* `satCountZ_spec` — one call: result = `satCount num_levels vars t` of the denoted tree; for an
  ordered tree this is the number of models over the manager's variables (`vars = num_levels`),
  the number of models over `vars` variables of the function that ignores the additional ones
  (`vars > num_levels`), `⌊models / 2^(num_levels − vars)⌋` (`vars < num_levels`: what the code
  computes; exact when divisible, `Zbdd.satCount_lt`); the cache is valid afterwards;
* `CacheValid`, `valid_preserved` — every step of a history with atomic collections keeps the
  invariant, **including `add_vars`**: it changes `num_levels` but not `gc_count`; the map stays
  valid because its entries are path counts, which depend neither on `vars` nor on `num_levels`,
  and the store is only extended; `addVars_cache_kept`: the next call with the same `vars` does
  not even clear the map, and still returns the right (rescaled) number;
* `count_history_exact`, `count_cache_transparent`;
* `clear_vars_not_stored_benign` — the seeded `R3-C12-countcache-vars-not-updated` cannot produce a
  wrong ZBDD count (the map is `vars`-independent): only the BDD/BCDD instances of the shared
  struct are affected;
* negative witnesses: `free_without_epoch_wrong`, `count_during_collection_wrong`
  (`KF-countcache-during-collection`, the code as it is), and `scaled_cache_addvars_wrong`: a cache
  that stored *scaled* counts (terminal value `2^(vars − num_levels)`, as the B(C)DD recursion
  does with `2^vars`) would serve a stale number after `add_vars` for the same `vars` — the design
  of the real code (unscaled entries, scaling at the end with the current `num_levels`) is what
  makes `add_vars` without an epoch change sound.

Atomicity assumption: `HOp.Atomic` (no bare `gcFree`), as for BDDs and BCDDs.
-/
namespace OxiddModel.Zbdd.CountS
open OxiddModel.Zbdd OxiddModel.Zbdd.ZDD OxiddModel.Zbdd.Refine

/-- **The invariant of the long-lived cache.** -/
def CacheValid (m : Mgr) (c : CountCacheZ) : Prop :=
  c.epoch ≤ m.gcCount ∧ (c.epoch = m.gcCount → CacheOKZ m.store c)

/-- invariant of a history state -/
def HInv (st : HState) : Prop := st.mgr.HandlesOK ∧ CacheValid st.mgr st.cache

/-- C12 for ZBDDs, one call of `sat_count_edge` with a reused cache: for every store `s`, every
cache `c` that is valid if its epoch is current, every `cache_all` flag, every `vars` (below, equal
to or above `numLevels`), every reference-count function `rc` and every edge `e` denoting a tree `t`:
1. the result is the tree-level `satCount numLevels vars t` (path count, shifted);
2. if `t` is ordered within `numLevels` levels: for `vars = numLevels` it is the number of
   assignments of the manager's variables in the family; for `vars = numLevels + m` it is the
   number of assignments of `numLevels + m` variables satisfying the handle's function read as a
   function that ignores the `m` additional ones; for `vars < numLevels` it is
   `⌊models / 2^(numLevels − vars)⌋`;
3. the cache is valid afterwards, with the current epoch and `vars`, and the flag unchanged. -/
theorem satCountZ_spec (s : Store) (rc : Nat → Nat) (gcCount numLevels fuel : Nat) (c : CountCacheZ)
    (e : ZEdge) (vars : Nat) (t : ZDD) (hc : c.epoch = gcCount → CacheOKZ s c)
    (hd : DenotesZ s e t) (hf : t.size ≤ fuel) :
    (satCountZ s rc gcCount numLevels fuel c e vars).2 = satCount numLevels vars t ∧
    (Ordered numLevels 0 t →
      (vars = numLevels → (satCountZ s rc gcCount numLevels fuel c e vars).2 =
        modelCount numLevels (fam numLevels t)) ∧
      (∀ m, vars = numLevels + m → (satCountZ s rc gcCount numLevels fuel c e vars).2 =
        modelCount (numLevels + m) (fam numLevels t)) ∧
      (vars < numLevels → (satCountZ s rc gcCount numLevels fuel c e vars).2 =
        modelCount numLevels (fam numLevels t) / 2 ^ (numLevels - vars))) ∧
    CacheOKZ s (satCountZ s rc gcCount numLevels fuel c e vars).1 ∧
    (satCountZ s rc gcCount numLevels fuel c e vars).1.epoch = gcCount ∧
    (satCountZ s rc gcCount numLevels fuel c e vars).1.vars = vars ∧
    (satCountZ s rc gcCount numLevels fuel c e vars).1.cacheAll = c.cacheAll := by
  obtain ⟨h1, h2, h3, h4⟩ := clearIfInvalidZ_spec s c gcCount vars hc
  have P := innerZ_spec s rc fuel (c.clearIfInvalid gcCount vars) e t h1 hd hf
  have hv : (satCountZ s rc gcCount numLevels fuel c e vars).2 = satCount numLevels vars t := by
    simp only [satCountZ, P.val]; rfl
  refine ⟨hv, ?_, P.ok, P.epoch.trans h2, P.vars.trans h3, P.all.trans h4⟩
  intro ho
  rw [hv]
  refine ⟨?_, ?_, ?_⟩
  · intro h; subst h; exact satCount_exact _ t ho
  · intro m h; subst h; rw [satCount_ge _ m t ho, modelCount_extra _ m t ho]
  · intro h; exact (satCount_lt _ vars t ho h).1

/-- `clear_if_invalid` re-establishes validity whenever `vars` or the epoch changed (and keeps it
otherwise) -/
theorem clearIfInvalid_valid (m : Mgr) (c : CountCacheZ) (vars : Nat) (h : CacheValid m c) :
    CacheValid m (c.clearIfInvalid m.gcCount vars) ∧
    CacheOKZ m.store (c.clearIfInvalid m.gcCount vars) := by
  obtain ⟨h1, h2, _, _⟩ := clearIfInvalidZ_spec m.store c m.gcCount vars h.2
  exact ⟨⟨by omega, fun _ => h1⟩, h1⟩

/-- the manager part of a step does not depend on the cache -/
def HOp.stepMgr : HOp → Mgr → Mgr
  | .ext s' e, m => { m with store := s', handles := m.handles ++ [e] }
  | .clone i, m => { m with handles := m.handles ++ (m.handles[i]?).toList }
  | .drop i, m => { m with handles := m.handles.eraseIdx i }
  | .gc s', m => { m with store := s', gcCount := m.gcCount + 1 }
  | .gcBegin, m => { m with gcCount := m.gcCount + 1 }
  | .gcFree s', m => { m with store := s' }
  | .gcEnd, m => m
  | .reorder s' hs' ch', m =>
    { m with store := s', handles := hs', chain := ch', gcCount := m.gcCount + 1 }
  | .addVars k s' ch', m => { m with store := s', chain := ch', numLevels := m.numLevels + k }
  | .setCacheAll _, m => m
  | .count _ _ _, m => m

theorem HOp.run_mgr (o : HOp) (st : HState) : (o.run st).1.mgr = o.stepMgr st.mgr := by
  cases o <;> simp only [HOp.run, HOp.stepMgr]
  split <;> rfl

/-- C12 for ZBDDs, "reused across other handles, garbage collections, reorderings and different
variable counts": **every step keeps the invariant.** Store extension keeps it (`DenotesZ.mono`);
`gc` / `reorder` advance `gc_count` in the same atomic step in which ids become free;
**`add_vars` keeps it without touching `gc_count`**: the store is only extended and `CacheOKZ`
mentions neither `vars` nor the number of levels; `count` runs `clear_if_invalid` first. The only
hypothesis on the history is that collections are atomic (`o.Atomic`). -/
theorem valid_preserved (o : HOp) (st : HState) (ha : o.Atomic) (hv : o.Valid st) (hi : HInv st) :
    HInv (o.run st).1 := by
  obtain ⟨hh, hle, hok⟩ := hi
  cases o with
  | ext s' e =>
    obtain ⟨hle', t, hd⟩ := hv
    refine ⟨?_, hle, fun h => (hok h).mono hle'⟩
    intro x hx
    simp only [HOp.run, List.mem_append, List.mem_singleton] at hx
    rcases hx with hx | hx
    · obtain ⟨t', hd'⟩ := hh x hx; exact ⟨t', hd'.mono hle'⟩
    · subst hx; exact ⟨t, hd⟩
  | clone i =>
    refine ⟨?_, hle, hok⟩
    intro x hx
    simp only [HOp.run, List.mem_append] at hx
    rcases hx with hx | hx
    · exact hh x hx
    · cases hg : st.mgr.handles[i]? with
      | none => simp [hg] at hx
      | some y =>
        simp [hg] at hx; subst hx
        exact hh _ (List.mem_of_getElem? hg)
  | drop i =>
    exact ⟨fun x hx => hh x (List.mem_of_mem_eraseIdx hx), hle, hok⟩
  | gc s' =>
    refine ⟨?_, ?_, ?_⟩
    · intro x hx
      obtain ⟨t, hd⟩ := hh x hx
      exact ⟨t, hv x hx t hd⟩
    · simp only [HOp.run]; omega
    · intro h; simp only [HOp.run] at h; omega
  | gcBegin =>
    refine ⟨hh, ?_, ?_⟩
    · simp only [HOp.run]; omega
    · intro h; simp only [HOp.run] at h; omega
  | gcFree s' => exact absurd ha (by simp [HOp.Atomic])
  | gcEnd => exact ⟨hh, hle, hok⟩
  | reorder s' hs' ch' =>
    refine ⟨hv, ?_, ?_⟩
    · simp only [HOp.run]; omega
    · intro h; simp only [HOp.run] at h; omega
  | addVars k s' ch' =>
    refine ⟨?_, hle, fun h => (hok h).mono hv⟩
    intro x hx
    obtain ⟨t', hd'⟩ := hh x hx
    exact ⟨t', hd'.mono hv⟩
  | setCacheAll b => exact ⟨hh, hle, hok⟩
  | count i vars fuel =>
    simp only [HOp.run]
    cases hg : st.mgr.handles[i]? with
    | none => exact ⟨hh, hle, hok⟩
    | some e =>
      obtain ⟨t, hd⟩ := hh e (List.mem_of_getElem? hg)
      have S := satCountZ_spec st.mgr.store st.mgr.rc st.mgr.gcCount st.mgr.numLevels fuel st.cache
        e vars t hok hd (hv e t hg hd)
      exact ⟨hh, by simp only; omega, fun _ => S.2.2.1⟩

/-- **`add_vars` and the cache, in detail**: if the cache is current, then after `add_vars`
(`num_levels` changed, `gc_count` did not) `clear_if_invalid` with the same `vars` keeps the map as
it is, and every entry is still the member count of the node its id names. So the next `count`
with the same `vars` *uses* the entries made before `add_vars`; by `satCountZ_spec` it returns
`satCount (num_levels + k) vars t`, i.e. the old path count scaled with the new number of levels. -/
theorem addVars_cache_kept (st : HState) (hi : HInv st) (k : Nat) (s' : Store) (ch' : List ZEdge)
    (hv : (HOp.addVars k s' ch').Valid st) (hcur : st.cache.epoch = st.mgr.gcCount) :
    ((HOp.addVars k s' ch').run st).1.cache.clearIfInvalid
        ((HOp.addVars k s' ch').run st).1.mgr.gcCount st.cache.vars = st.cache ∧
    CacheOKZ ((HOp.addVars k s' ch').run st).1.mgr.store st.cache ∧
    ((HOp.addVars k s' ch').run st).1.mgr.numLevels = st.mgr.numLevels + k := by
  refine ⟨?_, (hi.2.2 hcur).mono hv, rfl⟩
  simp only [HOp.run, CountCacheZ.clearIfInvalid, hcur]
  simp

/-- the effect of `add_vars(k)` on the number returned for the same handle and the same
`vars ≥ num_levels + k`: it is divided by `2^k` exactly (every new variable is absent from every
member of the family, so it is no longer a don't-care among the `vars` variables) -/
theorem satCount_addVars (n k vars : Nat) (t : ZDD) (h : n + k ≤ vars) :
    satCount n vars t = satCount (n + k) vars t * 2 ^ k := by
  unfold satCount
  have h1 : vars ≥ n := by omega
  have h2 : vars ≥ n + k := h
  simp only [h1, h2, if_true, Nat.shiftLeft_eq]
  rw [Nat.mul_assoc, ← Nat.pow_add]
  congr 2
  omega

/-- what a step must return: `none` for everything but `count`; for `count i vars` the tree-level
`satCount` — with the number of levels the manager has *at that moment* — of the tree handle `i`
denotes, with its reading as a number of models when the tree is ordered -/
def CountSpec (m : Mgr) : HOp → Option Nat → Prop
  | .count i vars _, r =>
    match m.handles[i]? with
    | none => r = none
    | some e => ∃ t, DenotesZ m.store e t ∧ r = some (satCount m.numLevels vars t) ∧
        (Ordered m.numLevels 0 t →
          (vars = m.numLevels → r = some (modelCount m.numLevels (fam m.numLevels t))) ∧
          (∀ k, vars = m.numLevels + k →
            r = some (modelCount (m.numLevels + k) (fam m.numLevels t))) ∧
          (vars < m.numLevels →
            r = some (modelCount m.numLevels (fam m.numLevels t) / 2 ^ (m.numLevels - vars))))
  | _, r => r = none

/-- the specification of a whole history: defined on the *manager* alone (no cache anywhere) -/
def SpecAll : List HOp → Mgr → List (Option Nat) → Prop
  | [], _, rs => rs = []
  | o :: os, m, r :: rs => CountSpec m o r ∧ SpecAll os (o.stepMgr m) rs
  | _ :: _, _, [] => False

/-- C12 for ZBDDs **for all histories**: whatever the interleaving of store-extending operations
(which may recycle freed ids), clones, drops, atomic collections, reorderings, `add_vars` (which
changes `num_levels` under a current cache), flips of `cache_all` and counts with varying `vars`
(below, equal to, above `num_levels`) and varying handles through one cache — every `count` returns
the exact count. By induction over the history from any state satisfying the invariant. -/
theorem count_history_exact : ∀ (ops : List HOp) (st : HState), HInv st → (∀ o, o ∈ ops → o.Atomic) →
    ValidAll ops st → SpecAll ops st.mgr (runAll ops st).2 ∧ HInv (runAll ops st).1 := by
  intro ops
  induction ops with
  | nil => intro st hi _ _; exact ⟨rfl, hi⟩
  | cons o os ih =>
    intro st hi ha hv
    obtain ⟨hv1, hvs⟩ := hv
    have hi' := valid_preserved o st (ha o List.mem_cons_self) hv1 hi
    obtain ⟨h1, h2⟩ := ih (o.run st).1 hi' (fun x hx => ha x (List.mem_cons_of_mem _ hx)) hvs
    simp only [runAll, SpecAll]
    rw [HOp.run_mgr] at h1
    refine ⟨⟨?_, h1⟩, h2⟩
    cases o with
    | count i vars fuel =>
      simp only [CountSpec, HOp.run]
      cases hg : st.mgr.handles[i]? with
      | none => rfl
      | some e =>
        obtain ⟨t, hd⟩ := hi.1 e (List.mem_of_getElem? hg)
        have S := satCountZ_spec st.mgr.store st.mgr.rc st.mgr.gcCount st.mgr.numLevels fuel
          st.cache e vars t hi.2.2 hd (hv1 e t hg hd)
        refine ⟨t, hd, by simp only [S.1], fun ho => ⟨fun h => ?_, fun k h => ?_, fun h => ?_⟩⟩
        · simp only [(S.2.1 ho).1 h]
        · simp only [(S.2.1 ho).2.1 k h]
        · simp only [(S.2.1 ho).2.2 h]
    | _ => rfl

theorem HInv_new : HInv HState.new := by
  refine ⟨?_, Nat.le_refl _, fun _ => CacheOKZ.empty _ _ _ _⟩
  intro e he
  simp [HState.new, Mgr.new] at he

/-- the specification determines the results -/
theorem SpecAll.unique : ∀ (ops : List HOp) (m : Mgr) (r1 r2 : List (Option Nat)),
    SpecAll ops m r1 → SpecAll ops m r2 → r1 = r2 := by
  intro ops
  induction ops with
  | nil => intro m r1 r2 h1 h2; simp only [SpecAll] at h1 h2; rw [h1, h2]
  | cons o os ih =>
    intro m r1 r2 h1 h2
    cases r1 with
    | nil => exact absurd h1 (by simp [SpecAll])
    | cons a as =>
      cases r2 with
      | nil => exact absurd h2 (by simp [SpecAll])
      | cons b bs =>
        simp only [SpecAll] at h1 h2
        obtain ⟨ha, has⟩ := h1
        obtain ⟨hb, hbs⟩ := h2
        rw [ih _ _ _ has hbs]
        congr 1
        cases o with
        | count i vars fuel =>
          cases hg : m.handles[i]? with
          | none => simp only [CountSpec, hg] at ha hb; rw [ha, hb]
          | some e =>
            simp only [CountSpec, hg] at ha hb
            obtain ⟨t, hd, hr, _⟩ := ha
            obtain ⟨t', hd', hr', _⟩ := hb
            rw [hr, hr', DenotesZ.functional hd hd']
        | _ => simp only [CountSpec] at ha hb; rw [ha, hb]

/-- the validity of a history does not depend on the cache -/
theorem ValidAll.cache_indep : ∀ (ops : List HOp) (st1 st2 : HState), st1.mgr = st2.mgr →
    ValidAll ops st1 → ValidAll ops st2 := by
  intro ops
  induction ops with
  | nil => intro _ _ _ _; trivial
  | cons o os ih =>
    intro st1 st2 hm hv
    obtain ⟨hv1, hvs⟩ := hv
    refine ⟨?_, ih _ _ (by rw [HOp.run_mgr, HOp.run_mgr, hm]) hvs⟩
    cases o <;> simp only [HOp.Valid] at hv1 ⊢ <;> first | exact hv1 | (rw [← hm]; exact hv1)

/-- **The cache is transparent**: the same history run with two different valid caches returns the
same counts. -/
theorem count_cache_transparent (ops : List HOp) (m : Mgr) (c1 c2 : CountCacheZ)
    (hh : m.HandlesOK) (h1 : CacheValid m c1) (h2 : CacheValid m c2) (ha : ∀ o, o ∈ ops → o.Atomic)
    (hv : ValidAll ops ⟨m, c1⟩) : (runAll ops ⟨m, c1⟩).2 = (runAll ops ⟨m, c2⟩).2 :=
  SpecAll.unique ops m _ _ (count_history_exact ops ⟨m, c1⟩ ⟨hh, h1⟩ ha hv).1
    (count_history_exact ops ⟨m, c2⟩ ⟨hh, h2⟩ ha (ValidAll.cache_indep ops ⟨m, c1⟩ ⟨m, c2⟩ rfl hv)).1

/-! ## `clear_if_invalid` that does not store the new `vars`: benign for ZBDDs -/

/-- seeded `R3-C12-countcache-vars-not-updated` (the struct is shared by all rule sets) -/
def clearIfInvalidNoVars (c : CountCacheZ) (gcCount vars : Nat) : CountCacheZ :=
  if gcCount ≠ c.epoch then { c with epoch := gcCount, map := [] }
  else if vars ≠ c.vars then { c with vars := vars, map := [] }
  else c

def satCountZNoVars (s : Store) (rc : Nat → Nat) (gcCount numLevels fuel : Nat) (c : CountCacheZ)
    (e : ZEdge) (vars : Nat) : CountCacheZ × Nat :=
  let r := innerZ s rc fuel (clearIfInvalidNoVars c gcCount vars) e
  (r.1, scaleZ numLevels vars r.2)

/-- With the seeded `clear_if_invalid` the ZBDD count is **still exact** and the cache still valid
(under the same invariant): the map holds path counts, which do not depend on `vars`; clearing on a
change of `vars` is not needed for ZBDDs at all. (For BDDs/BCDDs the same change is wrong:
`Bdd.CountS.clear_vars_not_stored_wrong`, `Bcdd.CountS.clear_vars_not_stored_wrong`.) An oracle on
ZBDD counts therefore cannot notice that mutation; the stream comparison does (the map sizes
`before=`/`after=` differ). -/
theorem clear_vars_not_stored_benign (s : Store) (rc : Nat → Nat) (gcCount numLevels fuel : Nat)
    (c : CountCacheZ) (e : ZEdge) (vars : Nat) (t : ZDD) (hc : c.epoch = gcCount → CacheOKZ s c)
    (hd : DenotesZ s e t) (hf : t.size ≤ fuel) :
    (satCountZNoVars s rc gcCount numLevels fuel c e vars).2 = satCount numLevels vars t ∧
    CacheOKZ s (satCountZNoVars s rc gcCount numLevels fuel c e vars).1 ∧
    (satCountZNoVars s rc gcCount numLevels fuel c e vars).1.epoch = gcCount := by
  have h1 : CacheOKZ s (clearIfInvalidNoVars c gcCount vars) ∧
      (clearIfInvalidNoVars c gcCount vars).epoch = gcCount := by
    unfold clearIfInvalidNoVars
    split
    · exact ⟨CacheOKZ.empty _ _ _ _, rfl⟩
    · rename_i hne
      have he : gcCount = c.epoch := Classical.byContradiction fun x => hne x
      split
      · exact ⟨CacheOKZ.empty _ _ _ _, he.symm⟩
      · exact ⟨hc he.symm, he.symm⟩
  have P := innerZ_spec s rc fuel (clearIfInvalidNoVars c gcCount vars) e t h1.1 hd hf
  refine ⟨?_, P.ok, P.epoch.trans h1.2⟩
  simp only [satCountZNoVars, P.val]; rfl

/-! ## concrete stores: non-vacuity and negative witnesses -/

/-- a manager with two levels: the chain `#0 = (1, B, B)`, `#1 = (0, #0, #0)` -/
def c2 : Store × List ZEdge := rebuildChain 2 ⟨#[]⟩
def st2 : HState := ⟨⟨c2.1, 0, 2, [], c2.2⟩, CountCacheZ.new⟩

theorem HInv_st2 : HInv st2 :=
  ⟨fun _ he => (by cases he), Nat.le_refl _, fun _ => CacheOKZ.empty _ _ _ _⟩

/-- the family `{{0, 1}}` -/
def gZ : ZDD := .node 0 (.node 1 .base .empty) .empty
/-- the family `{{0}, {1}}` -/
def hZ : ZDD := .node 0 .base (.node 1 .base .empty)

/-- chain + `#2 = {{1}}`, `#3 = {{0,1}}` -/
def s1 : Store := (intern c2.1 gZ).1
/-- after the handle was dropped and a collection ran (roots: the chain): slots 2, 3 are free -/
def s2 : Store := sweepN c2.2 4 s1
/-- `{{0},{1}}` built in the recycled slots: `#2 = {{1}}`, `#3 = (0, B, #2)` — id 3 names another node -/
def s3 : Store := (intern s2 hZ).1
/-- `add_vars(1)` on `s3`: chain for three levels -/
def c4 : Store × List ZEdge := rebuildChain 3 s3
/-- a manager with three levels holding `{{0,1}}` (after a reordering) -/
def c5 : Store × List ZEdge := rebuildChain 3 ⟨#[]⟩
def s5 : Store := (intern c5.1 gZ).1

example : c2 = (⟨#[some ⟨1, .base, .base⟩, some ⟨0, .inner 0, .inner 0⟩]⟩, [.inner 1, .inner 0, .base]) ∧
    s1.nodes = #[some ⟨1, .base, .base⟩, some ⟨0, .inner 0, .inner 0⟩, some ⟨1, .base, .empty⟩,
      some ⟨0, .inner 2, .empty⟩] ∧
    s2.nodes = #[some ⟨1, .base, .base⟩, some ⟨0, .inner 0, .inner 0⟩, none, none] ∧
    s3.nodes = #[some ⟨1, .base, .base⟩, some ⟨0, .inner 0, .inner 0⟩, some ⟨1, .base, .empty⟩,
      some ⟨0, .base, .inner 2⟩] ∧
    c4.2 = [.inner 6, .inner 5, .inner 4, .base] := by
  decide +kernel

theorem s1_gZ : DenotesZ s1 (.inner 3) gZ := unfoldZ?_sound 3 (by decide +kernel)
theorem s3_hZ : DenotesZ s3 (.inner 3) hZ := unfoldZ?_sound 3 (by decide +kernel)

example : satCount 2 2 gZ = 1 ∧ modelCount 2 (fam 2 gZ) = 1 ∧ satCount 2 2 hZ = 2 ∧
    modelCount 2 (fam 2 hZ) = 2 ∧ satCount 2 3 hZ = 4 ∧ satCount 3 3 hZ = 2 ∧
    modelCount 3 (fam 3 hZ) = 2 ∧ satCount 3 2 hZ = 1 := by decide +kernel

/-- a history with everything in it: build, counts with `vars` equal to, above and below
`num_levels` (cache filled: every node, `cache_all`), clone, drops, atomic collection, rebuild in
the recycled slots, count, `add_vars` **between two counts with the same `vars`**, a count with
`vars` now below `num_levels`, reorder, count -/
def exOps : List HOp :=
  [.ext s1 (.inner 3), .setCacheAll true, .count 0 2 5, .count 0 3 5, .count 0 1 5, .clone 0,
   .drop 0, .drop 0, .gc s2, .ext s3 (.inner 3), .count 0 3 5, .addVars 1 c4.1 c4.2, .count 0 3 5,
   .count 0 2 5, .reorder s5 [(intern c5.1 gZ).2] c5.2, .count 0 3 5, .count 0 5 5]

theorem exOps_valid : ValidAll exOps st2 := validAllB_sound (F := 5) _ _ (by decide +kernel)
theorem exOps_atomic : ∀ o, o ∈ exOps → o.Atomic := by
  intro o ho
  simp only [exOps, List.mem_cons, List.not_mem_nil, or_false] at ho
  rcases ho with h | h | h | h | h | h | h | h | h | h | h | h | h | h | h | h | h <;>
    subst h <;> trivial

/-- non-vacuity of `count_history_exact` and what it predicts: `{{0,1}}` with 2 levels: 1, 2, 0;
`{{0},{1}}` in the same slots: 4 for `vars = 3` with 2 levels, **2 for the same `vars` after
`add_vars(1)`**, 1 for `vars = 2 < 3`; after the reordering `{{0,1}}` with 3 levels: 1 and 4 -/
example := count_history_exact exOps st2 HInv_st2 exOps_atomic exOps_valid
example : (runAll exOps st2).2 =
    [none, none, some 1, some 2, some 0, none, none, none, none, none, some 4, none, some 2,
     some 1, none, some 1, some 4] := by decide +kernel
/-- the map made before `add_vars` is the map after the count that follows it (not cleared, nothing
to add) -/
example : (runAll (exOps.take 11) st2).1.cache = ⟨[(3, 2), (2, 1)], 3, 1, true⟩ ∧
    (runAll (exOps.take 13) st2).1.cache = ⟨[(3, 2), (2, 1)], 3, 1, true⟩ ∧
    (runAll (exOps.take 13) st2).1.mgr.numLevels = 3 := by decide +kernel

/-- non-vacuity of `satCountZ_spec`: a non-empty current cache, `vars` below the number of levels -/
example := satCountZ_spec s3 (fun _ => 2) 7 2 5 ⟨[(2, 1)], 1, 7, false⟩ (.inner 3) 1 hZ
  (fun _ id n hm => by
    simp only [List.mem_singleton, Prod.mk.injEq] at hm
    obtain ⟨rfl, rfl⟩ := hm
    exact ⟨.node 1 .base .empty, unfoldZ?_sound 2 (by decide +kernel), by decide⟩)
  s3_hZ (by decide)
example : HInv ((HOp.gc s2).run ⟨⟨s1, 0, 2, [], c2.2⟩, ⟨[(3, 1)], 2, 0, true⟩⟩).1 := by
  refine valid_preserved (.gc s2) _ trivial (fun _ he => (by cases he)) ⟨fun _ he => (by cases he),
    Nat.le_refl _, fun _ id n hm => ?_⟩
  have hm' : (id, n) = (3, 1) := by simpa using hm
  cases hm'
  exact ⟨gZ, s1_gZ, by decide⟩
example := count_cache_transparent exOps st2.mgr CountCacheZ.new ⟨[], 9, 0, true⟩
  HInv_st2.1 HInv_st2.2 ⟨Nat.le_refl _, fun _ => CacheOKZ.empty _ _ _ _⟩ exOps_atomic exOps_valid
example := clearIfInvalid_valid Mgr.new CountCacheZ.new 3 HInv_new.2
example := satCount_addVars 2 1 4 gZ (by decide)
example := addVars_cache_kept st2 HInv_st2 1 (rebuildChain 3 c2.1).1 (rebuildChain 3 c2.1).2
  (addVarsS_valid st2 1) rfl
example := clear_vars_not_stored_benign s3 (fun _ => 2) 7 2 5 ⟨[], 1, 7, false⟩ (.inner 3) 4 hZ
  (fun _ => CacheOKZ.empty _ _ _ _) s3_hZ (by decide)

/-! ### (b) nodes freed and an id re-issued without `gc_count` advancing -/

def wFree : List HOp :=
  [.ext s1 (.inner 3), .setCacheAll true, .count 0 2 5, .drop 0, .gcFree s2, .ext s3 (.inner 3),
   .count 0 2 5]

/-- **(b)** every step is valid, the last count returns 1, but the handle denotes `{{0},{1}}` with
2 members; the state before the last count violates the invariant (so `valid_preserved` needs
`Atomic`). -/
theorem free_without_epoch_wrong :
    ValidAll wFree st2 ∧
    (runAll wFree st2).2 = [none, none, some 1, none, none, none, some 1] ∧
    (runAll wFree st2).1.mgr.handles = [.inner 3] ∧
    (runAll wFree st2).1.mgr.store = s3 ∧ DenotesZ s3 (.inner 3) hZ ∧
    modelCount 2 (fam 2 hZ) = 2 ∧ ¬ HInv (runAll wFree.dropLast st2).1 := by
  refine ⟨validAllB_sound (F := 5) _ _ (by decide +kernel), by decide +kernel, by decide +kernel,
    by decide +kernel, s3_hZ, by decide +kernel, ?_⟩
  rintro ⟨_, _, hok⟩
  have hst : (runAll wFree.dropLast st2).1 =
      ⟨⟨s3, 0, 2, [.inner 3], c2.2⟩, ⟨[(3, 1), (2, 1)], 2, 0, true⟩⟩ := by
    decide +kernel
  rw [hst] at hok
  obtain ⟨t, hd, hn⟩ := hok rfl 3 1 List.mem_cons_self
  rw [DenotesZ.functional hd s3_hZ] at hn
  exact absurd hn (by decide)

/-! ### (c) the code as it is: a count between the two halves of a collection -/

def wDuring : List HOp :=
  [.ext s1 (.inner 3), .setCacheAll true, .gcBegin, .count 0 2 5, .drop 0, .gcFree s2,
   .ext s3 (.inner 3), .count 0 2 5]

/-- **(c)** `KF-countcache-during-collection` for ZBDDs: `gc_count` is advanced at the start of
`Manager::gc` only and the collector holds the manager shared; a count between the increment and
the freeing of a node it caches (handle dropped in between) leaves a stale entry under the current
epoch: the last count returns 1 for a family with 2 members. -/
theorem count_during_collection_wrong :
    ValidAll wDuring st2 ∧
    (runAll wDuring st2).2 = [none, none, none, some 1, none, none, none, some 1] ∧
    (runAll wDuring st2).1.mgr.gcCount = 1 ∧
    (runAll wDuring st2).1.mgr.handles = [.inner 3] ∧
    (runAll wDuring st2).1.mgr.store = s3 ∧ DenotesZ s3 (.inner 3) hZ ∧
    modelCount 2 (fam 2 hZ) = 2 :=
  ⟨validAllB_sound (F := 5) _ _ (by decide +kernel), by decide +kernel, by decide +kernel,
    by decide +kernel, by decide +kernel, s3_hZ, by decide +kernel⟩

/-! ### (d) why the map must hold *unscaled* counts: `add_vars` does not advance `gc_count` -/

/-- `inner` with a terminal value for `Base` (the B(C)DD style: the scale enters at the leaves) -/
def innerZT (s : Store) (rc : Nat → Nat) (tv : Nat) : Nat → CountCacheZ → ZEdge → CountCacheZ × Nat
  | 0, c, _ => (c, 0)
  | _+1, c, .empty => (c, 0)
  | _+1, c, .base => (c, tv)
  | fuel+1, c, .inner i =>
    match s.get? i with
    | none => (c, 0)
    | some n =>
      let doCache := c.cacheAll || decide (rc i > 1)
      match (if doCache then c.map.lookup i else none) with
      | some v => (c, v)
      | none =>
        let r1 := innerZT s rc tv fuel c n.hi
        let r0 := innerZT s rc tv fuel r1.1 n.lo
        let v := r1.2 + r0.2
        (if doCache then r0.1.insert i v else r0.1, v)

/-- a `sat_count_edge` that scales at the leaves (`vars ≥ num_levels`), so that the map holds
scaled counts; same `clear_if_invalid` -/
def satCountZScaled (s : Store) (rc : Nat → Nat) (gcCount numLevels fuel : Nat) (c : CountCacheZ)
    (e : ZEdge) (vars : Nat) : CountCacheZ × Nat :=
  innerZT s rc (2 ^ (vars - numLevels)) fuel (c.clearIfInvalid gcCount vars) e

/-- **(d)** count `{{0,1}}` with `vars = 4` in a manager with 2 levels (4), `add_vars(1)` (store
extended, `gc_count` unchanged), count it again with `vars = 4`: the right answer is now 2 (the new
variable is in no member of the family); the scaled map still says 4. The real code returns 4 and 2
with the *same* map in both calls. -/
theorem scaled_cache_addvars_wrong :
    let c0 : CountCacheZ := ⟨[], 0, 0, true⟩
    let s4 := (rebuildChain 3 s1).1
    s1.Le s4 ∧ DenotesZ s4 (.inner 3) gZ ∧ satCount 2 4 gZ = 4 ∧ satCount 3 4 gZ = 2 ∧
    modelCount 3 (fam 3 gZ) = 1 ∧
    (let r1 := satCountZScaled s1 (fun _ => 1) 0 2 5 c0 (.inner 3) 4
     let r2 := satCountZScaled s4 (fun _ => 1) 0 3 5 r1.1 (.inner 3) 4
     r1.2 = 4 ∧ r2.2 = 4) ∧
    (let q1 := satCountZ s1 (fun _ => 1) 0 2 5 c0 (.inner 3) 4
     let q2 := satCountZ s4 (fun _ => 1) 0 3 5 q1.1 (.inner 3) 4
     q1.2 = 4 ∧ q2.2 = 2 ∧ q1.1.map = [(3, 1), (2, 1)] ∧ q2.1 = q1.1) :=
  ⟨rebuildChain_le _ _, s1_gZ.mono (rebuildChain_le _ _), by decide +kernel, by decide +kernel,
    by decide +kernel, by decide +kernel, by decide +kernel⟩

end OxiddModel.Zbdd.CountS
