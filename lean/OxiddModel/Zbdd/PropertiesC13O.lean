import OxiddModel.Zbdd.PickSO
import OxiddModel.Zbdd.Properties

/-!
# C13 for ZBDD at store level under an arbitrary variable order

Headline theorems about `pickCubeZ` (the vector of `pick_cube`, indexed by **variable**, initial
value `False`) and `pickCubeDdZ` (`pick_cube_dd` built in the store) of `Zbdd/PickSO.lean`, for
every duplicate-free store, every order `l2v = level_to_var` with `OrderOK l2v n`, every choice
function, every edge denoting a normal-form diagram of a manager with `n` levels.

The family over *variables* is `fun ρ => fam n a (fun l => ρ (l2v l))`.
-/
namespace OxiddModel.Zbdd.C13O
open OxiddModel.Zbdd OxiddModel.Zbdd.ZDD OxiddModel.Zbdd.Refine OxiddModel.PickO
open OxiddModel.Zbdd.PickSO

/-- the canonical completion of a vector: don't-cares are `false` -/
def completion (v : Vec) (x : Nat) : Bool :=
  match v[x]? with
  | some (some b) => b
  | _ => false

theorem completion_agree (v : Vec) : Agree (completion v) v := by
  intro x b h; simp [completion, h]

theorem pickCubeZ_none_iff_empty (s : Store) (l2v : Nat → Nat) (n : Nat) (choice : Nat → Bool)
    (fuel : Nat) (x : ZEdge) (a : ZDD) (hd : DenotesZ s x a) :
    pickCubeZ s l2v n choice fuel x = none ↔ a = .empty := by
  cases hd <;> simp [pickCubeZ]

/-- C13, entries are written at index `level_to_var(level)`: for every decision `(l, v)` of the
walk the entry of **variable** `l2v l` is `v` (`none` = don't-care, on the tautology tail), and
the entry of the variable of every level that is not on the walk is `False` (forced). -/
theorem pickCubeZ_entries (s : Store) (hu : s.Unique) (l2v : Nat → Nat) (n : Nat)
    (ho : OrderOK l2v n) (choice : Nat → Bool) (fuel : Nat) (x : ZEdge) (a : ZDD)
    (hd : DenotesZ s x a) (ha : NF n 0 a) (hf : a.size ≤ fuel) (vec : Vec)
    (h : pickCubeZ s l2v n choice fuel x = some vec) :
    vec.length = n ∧
    pickWalkZ s choice fuel x = pickPath choice a ∧
    (∀ l v, (l, v) ∈ pickWalkZ s choice fuel x → vec[l2v l]? = some v) ∧
    (∀ l, l < n → (∀ p ∈ pickWalkZ s choice fuel x, p.1 ≠ l) → vec[l2v l]? = some (some false)) := by
  have hw := pickWalkZ_eq hu choice hd fuel hf
  obtain ⟨hinc, hbel⟩ := pickPath_incr choice ha.1
  have hvec : vec = writeVec l2v (pickPath choice a) (List.replicate n (some false)) := by
    unfold pickCubeZ at h
    cases hd with
    | empty => cases h
    | base => simp only [Option.some.injEq] at h; rw [← h]; rfl
    | inner _ _ _ => simp only [Option.some.injEq] at h; rw [← h, hw]
  refine ⟨by rw [hvec, writeVec_length]; simp, hw, ?_, ?_⟩
  · intro l v hm
    rw [hw] at hm
    rw [hvec]
    exact writeVec_get_in ho hinc hbel _ (by simp) hm
  · intro l hl hoff
    rw [hw] at hoff
    rw [hvec, writeVec_get_off ho hbel _ hl hoff]
    have : l2v l < n := ho.1 l hl
    simp [this]

/-- C13 (the picked set is a member of the family), variable-indexed: every total assignment `ρ`
of the **variables** that agrees with the returned vector on its non-don't-care entries (so: the
decided values on the walk, `false` on every variable that is absent from the walk, anything on
the don't-cares of the tautology tail) is a member of the family. -/
theorem pickCubeZ_member (s : Store) (hu : s.Unique) (l2v : Nat → Nat) (n : Nat)
    (ho : OrderOK l2v n) (choice : Nat → Bool) (fuel : Nat) (x : ZEdge) (a : ZDD)
    (hd : DenotesZ s x a) (ha : NF n 0 a) (hf : a.size ≤ fuel) (vec : Vec)
    (h : pickCubeZ s l2v n choice fuel x = some vec) (ρ : Nat → Bool) (hag : Agree ρ vec) :
    fam n a (fun l => ρ (l2v l)) = true := by
  obtain ⟨_, hw, hin, hoff⟩ := pickCubeZ_entries s hu l2v n ho choice fuel x a hd ha hf vec h
  have hne : a ≠ .empty := fun he => by
    rw [(pickCubeZ_none_iff_empty s l2v n choice fuel x a hd).mpr he] at h; cases h
  obtain ⟨hinc, hbel⟩ := pickPath_incr choice ha.1
  apply (pickCubeDD_isPick choice a).implies ha.1
  rw [pick_same choice ha.1 ha.2 hne]
  apply pathEval_true n _ _ 0 hinc hbel
  · intro l b hm
    rw [← hw] at hm
    exact hag _ _ (hin l (some b) hm)
  · intro l _ hl hno
    rw [← hw] at hno
    exact hag _ _ (hoff l hl hno)

/-- C13 (`None` exactly for the empty family), over **variable** assignments. -/
theorem pickCubeZ_none_iff (s : Store) (hu : s.Unique) (l2v : Nat → Nat) (n : Nat)
    (ho : OrderOK l2v n) (choice : Nat → Bool) (fuel : Nat) (x : ZEdge) (a : ZDD)
    (hd : DenotesZ s x a) (ha : NF n 0 a) (hf : a.size ≤ fuel) :
    pickCubeZ s l2v n choice fuel x = none ↔ ∀ ρ : Nat → Bool, fam n a (fun l => ρ (l2v l)) = false := by
  constructor
  · intro h ρ
    rw [(pickCubeZ_none_iff_empty s l2v n choice fuel x a hd).mp h]; rfl
  · intro h
    cases hv : pickCubeZ s l2v n choice fuel x with
    | none => rfl
    | some vec =>
      have := pickCubeZ_member s hu l2v n ho choice fuel x a hd ha hf vec hv _ (completion_agree vec)
      rw [h] at this; cases this

/-- C13 (choices honoured), one step of the walk: at a node the entry is don't-care iff the two
child **edges** are equal; else `true` if `lo` is the terminal `Empty` (forced: the other branch
has no member); else the caller's choice **for the level of that node**. -/
theorem pickWalkZ_step (s : Store) (choice : Nat → Bool) (fuel : Nat) (i : Nat) (nd : ZNode)
    (hi : s.get? i = some nd) :
    pickWalkZ s choice (fuel+1) (.inner i) =
      if nd.hi = nd.lo then (nd.level, none) :: pickWalkZ s choice fuel nd.hi
      else if nd.lo = .empty then (nd.level, some true) :: pickWalkZ s choice fuel nd.hi
      else (nd.level, some (choice nd.level)) ::
        pickWalkZ s choice fuel (if choice nd.level then nd.hi else nd.lo) := by
  simp only [pickWalkZ, hi]
  split
  · rfl
  · split <;> simp

/-! ## negative witness: writing at index `level` (`R5b-C13`) is wrong under a non-identity order -/

/-- the order `level 0 ↦ var 1, level 1 ↦ var 2, level 2 ↦ var 0` (a 3-cycle, not an involution) -/
def cyc3 (l : Nat) : Nat := if l = 0 then 1 else if l = 1 then 2 else if l = 2 then 0 else l

theorem cyc3_ok : OrderOK cyc3 3 := by
  constructor
  · intro l hl; unfold cyc3; split <;> (try split) <;> (try split) <;> omega
  · intro l l' hl hl'
    have : l = 0 ∨ l = 1 ∨ l = 2 := by omega
    have : l' = 0 ∨ l' = 1 ∨ l' = 2 := by omega
    rcases ‹l = 0 ∨ l = 1 ∨ l = 2› with h | h | h <;> rcases ‹l' = 0 ∨ l' = 1 ∨ l' = 2› with h' | h' | h' <;>
      subst h <;> subst h' <;> simp [cyc3]

/-- the singleton family `{{variable at level 0}}` -/
def sSing : Store := ⟨#[some ⟨0, .base, .empty⟩]⟩
def aSing : ZDD := .node 0 .base .empty

theorem sSing_denotes : DenotesZ sSing (.inner 0) aSing := .inner (by rfl) .base .empty
theorem sSing_unique : sSing.Unique := by
  intro i j m hi hj
  have hi' : i = 0 := by
    match i, hi with
    | 0, _ => rfl
    | i+1, hi => simp [sSing, Store.get?] at hi
  have hj' : j = 0 := by
    match j, hj with
    | 0, _ => rfl
    | j+1, hj => simp [sSing, Store.get?] at hj
  omega
theorem aSing_nf : NF 3 0 aSing := ⟨.node (Nat.le_refl _) (by omega) .base .empty, ⟨by simp, trivial, trivial⟩⟩

/-- **The index must be `level_to_var(level)`**: for the model that writes at index `level`
(`pickCubeByLevelZ`, the seeded change `R5b-C13`) the membership theorem is false. Under the
3-cycle order the family `{{var 1}}` (one node at level 0) yields `[true, false, false]`, i.e. the
set `{var 0}`, which is not a member. -/
theorem pickCubeByLevelZ_not_member :
    ∃ (s : Store) (l2v : Nat → Nat) (n : Nat) (choice : Nat → Bool) (fuel : Nat) (x : ZEdge)
      (a : ZDD) (vec : Vec) (ρ : Nat → Bool),
      s.Unique ∧ OrderOK l2v n ∧ DenotesZ s x a ∧ NF n 0 a ∧ a.size ≤ fuel ∧
      pickCubeByLevelZ s n choice fuel x = some vec ∧ Agree ρ vec ∧
      fam n a (fun l => ρ (l2v l)) = false := by
  refine ⟨sSing, cyc3, 3, fun _ => false, 3, .inner 0, aSing, [some true, some false, some false],
    fun v => v == 0, sSing_unique, cyc3_ok, sSing_denotes, aSing_nf, by decide, by decide, ?_, by decide⟩
  intro v b h
  match v, h with
  | 0, h => simp at h; simp [h]
  | 1, h => simp at h; simp [h]
  | 2, h => simp at h; simp [h]
  | v+3, h => simp at h

/-- the faithful model on the same input writes at variable 1 -/
example : pickCubeZ sSing cyc3 3 (fun _ => false) 3 (.inner 0) = some [some false, some true, some false] := by
  decide

/-! ## `pick_cube_dd` on the store -/

/-- C13 for `pick_cube_dd` at store level: the store is only extended and stays duplicate-free;
the returned edge denotes a normal-form diagram `c` that is a sub-family of the input (`c ⊆ a`), is
exactly the cube described by the walk of `pick_cube` (decided levels, `false` on absent levels,
free on the don't-care levels of the tautology tail), and is `∅` exactly when the input is. -/
theorem pickCubeDdZ_c13 (s : Store) (hu : s.Unique) (n : Nat) (choice : Nat → Bool) (fuel : Nat)
    (x : ZEdge) (a : ZDD) (hd : DenotesZ s x a) (ha : NF n 0 a) (hf : a.size ≤ fuel) :
    ∃ c : ZDD,
      s.Le (pickCubeDdZ choice fuel s x).1 ∧ (pickCubeDdZ choice fuel s x).1.Unique ∧
      DenotesZ (pickCubeDdZ choice fuel s x).1 (pickCubeDdZ choice fuel s x).2 c ∧
      NF n 0 c ∧
      (a ≠ .empty → ∀ σ, fam n c σ = pathEval n σ 0 (pickWalkZ s choice fuel x)) ∧
      (∀ σ, fam n c σ = true → fam n a σ = true) ∧
      (c = .empty ↔ a = .empty) := by
  obtain ⟨r1, r2, r3⟩ := pickCubeDdZ_spec choice a s x fuel hu hd hf
  have hp := pickCubeDD_isPick choice a
  refine ⟨pickCubeDD choice a, r1, r2, r3, ⟨hp.ordered ha.1, hp.reduced ha.2⟩, ?_, ?_, ?_⟩
  · intro hne σ
    rw [pickWalkZ_eq hu choice hd fuel hf]
    exact pick_same choice ha.1 ha.2 hne σ
  · intro σ; exact hp.implies ha.1 σ
  · constructor
    · intro hc
      apply Classical.byContradiction
      intro hne
      exact hp.ne_empty hne hc
    · intro he; subst he; rfl

/-! ## non-vacuity: a walk that reaches the tautology tail at level 1 -/

/-- manager with 3 levels; slot 0 = `taut 2` = `(2, Base, Base)`, slot 1 = `taut 1` = `(1, s0, s0)`,
slot 2 = `(0, s1, Empty)`: the family "level 0 set, levels 1 and 2 arbitrary" -/
def sTail : Store := ⟨#[some ⟨2, .base, .base⟩, some ⟨1, .inner 0, .inner 0⟩, some ⟨0, .inner 1, .empty⟩]⟩
def aTail : ZDD := .node 0 (.node 1 (.node 2 .base .base) (.node 2 .base .base)) .empty

theorem sTail_denotes : DenotesZ sTail (.inner 2) aTail :=
  .inner (by rfl) (.inner (by rfl) (.inner (by rfl) .base .base) (.inner (by rfl) .base .base)) .empty

theorem sTail_unique : sTail.Unique := by
  intro i j m hi hj
  match i, j, hi, hj with
  | 0, 0, _, _ => rfl
  | 1, 1, _, _ => rfl
  | 2, 2, _, _ => rfl
  | 0, 1, hi, hj => simp [sTail, Store.get?] at hi hj; rw [← hi] at hj; cases hj
  | 0, 2, hi, hj => simp [sTail, Store.get?] at hi hj; rw [← hi] at hj; cases hj
  | 1, 0, hi, hj => simp [sTail, Store.get?] at hi hj; rw [← hi] at hj; cases hj
  | 1, 2, hi, hj => simp [sTail, Store.get?] at hi hj; rw [← hi] at hj; cases hj
  | 2, 0, hi, hj => simp [sTail, Store.get?] at hi hj; rw [← hi] at hj; cases hj
  | 2, 1, hi, hj => simp [sTail, Store.get?] at hi hj; rw [← hi] at hj; cases hj
  | i+3, _, hi, _ => simp [sTail, Store.get?] at hi
  | _, j+3, _, hj => simp [sTail, Store.get?] at hj

theorem aTail_nf : NF 3 0 aTail :=
  ⟨.node (Nat.le_refl _) (by omega)
      (.node (by omega) (by omega) (.node (by omega) (by omega) .base .base)
        (.node (by omega) (by omega) .base .base)) .empty,
   by simp [aTail, Reduced]⟩

/-- under the 3-cycle order the forced `true` of level 0 lands at variable 1, the two don't-cares
of the tautology tail (levels 1, 2) at variables 2 and 0 -/
example : pickCubeZ sTail cyc3 3 (fun _ => false) 9 (.inner 2) = some [none, some true, none] := by decide

example (ρ : Nat → Bool) (h : Agree ρ [none, some true, none]) : fam 3 aTail (fun l => ρ (cyc3 l)) = true :=
  pickCubeZ_member sTail sTail_unique cyc3 3 cyc3_ok (fun _ => false) 9 (.inner 2) aTail sTail_denotes
    aTail_nf (by decide) _ (by decide) ρ h

example := pickCubeDdZ_c13 sTail sTail_unique 3 (fun _ => false) 9 (.inner 2) aTail sTail_denotes aTail_nf
  (by decide)

end OxiddModel.Zbdd.C13O
