import OxiddModel.Zbdd.PickRO
import OxiddModel.Zbdd.PropertiesC13O

/-!
# C13 / C05 for ZBDD `pick_cube_dd` on the counted store

Headlines about `pickCubeDdZR` (`Zbdd/PickRO.lean`): the counters are exact after every run, a
successful run is the plain store run, and so the C13 statements of `PropertiesC13O.lean` hold for
the edge it returns; the store stays canonical (duplicate-free and zero-suppressed).
-/
namespace OxiddModel.Zbdd.C13O
open OxiddModel.Zbdd OxiddModel.Zbdd.ZDD OxiddModel.Zbdd.Refine OxiddModel.Zbdd.Rc
open OxiddModel.Zbdd.PickSO OxiddModel.Zbdd.PickRO

theorem has_of_denotes {s : Store} {x : ZEdge} {a : ZDD} (h : DenotesZ s x a) : has s x := by
  cases h with
  | empty => trivial
  | base => trivial
  | inner hi _ _ => exact ⟨_, hi⟩

/-- C13 "the store stays canonical": `pick_cube_dd` keeps the unique table duplicate-free and
zero-suppressed (no node whose HI edge is `Empty`). -/
theorem pickCubeDdZ_canonical (s : Store) (n : Nat) (choice : Nat → Bool) (fuel : Nat) (x : ZEdge)
    (a : ZDD) (hd : DenotesZ s x a) (ha : NF n 0 a) (hf : a.size ≤ fuel) (hu : s.Unique)
    (hr : s.NoRed) :
    (pickCubeDdZ choice fuel s x).1.Unique ∧ (pickCubeDdZ choice fuel s x).1.NoRed :=
  ⟨(pickCubeDdZ_spec choice a s x fuel hu hd hf).2.1,
   pickCubeDdZ_nored choice a s x fuel hu hr hd ha.2 hf⟩

/-- C05/C13 **counters exact**: whatever the capacity, the choice function and the fuel, a run of
`pick_cube_dd` from a state with exact counters (for the caller's edges `ext`, the tautology chain
among them) ends in a state with exact counters — for `result :: ext` on success, for `ext` after
`OutOfMemory`; the store is only extended. -/
theorem pickCubeDdZR_rc_exact (cap : Nat) (choice : Nat → Bool) (fuel : Nat) (r : RSt) (x : ZEdge)
    (ext : List ZEdge) (h : RcInv r ext) (hx : has r.st.store x) :
    RcPost r ext (pickCubeDdZR cap choice fuel r x) :=
  pickCubeDdZR_rc cap choice fuel r x ext h hx

/-- C13 on the counted store: a successful run of `pick_cube_dd` returns an edge `y` with exact
counters that denotes a normal-form diagram `c ⊆ a` which is the cube of the walk of `pick_cube`
(tautology tail = don't-care, absent levels = `false`) and is not `∅`; the store stays canonical;
cache untouched. -/
theorem pickCubeDdZR_c13 (cap : Nat) (n : Nat) (choice : Nat → Bool) (fuel : Nat) (r : RSt)
    (x : ZEdge) (ext : List ZEdge) (a : ZDD) (h : RcInv r ext) (hu : r.st.store.Unique)
    (hr : r.st.store.NoRed) (hd : DenotesZ r.st.store x a) (ha : NF n 0 a) (hne : a ≠ .empty)
    (hf : a.size ≤ fuel) (y : ZEdge) (hy : (pickCubeDdZR cap choice fuel r x).1 = some y) :
    RcInv (pickCubeDdZR cap choice fuel r x).2 (y :: ext) ∧
    (pickCubeDdZR cap choice fuel r x).2.st.store.Unique ∧
    (pickCubeDdZR cap choice fuel r x).2.st.store.NoRed ∧
    (pickCubeDdZR cap choice fuel r x).2.st.cache = r.st.cache ∧
    ∃ c : ZDD, DenotesZ (pickCubeDdZR cap choice fuel r x).2.st.store y c ∧ NF n 0 c ∧ c ≠ .empty ∧
      (∀ σ, fam n c σ = pathEval n σ 0 (pickWalkZ r.st.store choice fuel x)) ∧
      (∀ σ, fam n c σ = true → fam n a σ = true) := by
  have hpost := pickCubeDdZR_rc cap choice fuel r x ext h (has_of_denotes hd)
  obtain ⟨e1, _, e3⟩ := pickCubeDdZR_erase cap choice fuel r x
  have he := e3 y hy
  obtain ⟨c, _, _, c3, c4, c5, c6, c7⟩ := pickCubeDdZ_c13 r.st.store hu n choice fuel x a hd ha hf
  obtain ⟨k1, k2⟩ := pickCubeDdZ_canonical r.st.store n choice fuel x a hd ha hf hu hr
  rw [he] at c3 k1 k2
  refine ⟨?_, k1, k2, e1, c, c3, c4, fun hc => hne (c7.mp hc), c5 hne, c6⟩
  revert hpost hy
  generalize pickCubeDdZR cap choice fuel r x = R
  obtain ⟨o, r'⟩ := R
  intro hy hpost
  simp only at hy
  subst hy
  exact hpost.2

/-- non-vacuity: `singleton` from the empty manager, then `pick_cube_dd` on it -/
example (cap : Nat) (choice : Nat → Bool) (fuel : Nat) :
    match singletonR cap RSt.empty 0 with
    | (some v, r) => RcPost r [v] (pickCubeDdZR cap choice fuel r v)
    | (none, _) => True := by
  have hemp : RcInv RSt.empty [] :=
    { ext_ok := fun _ h => by cases h
      kids_ok := fun i n h => by simp [RSt.empty, Store.get?] at h
      cache_ok := fun _ _ h => by cases h
      rc_eq := fun i n h => by simp [RSt.empty, Store.get?] at h }
  have hv := singletonR_rc cap RSt.empty 0 [] hemp
  revert hv
  generalize singletonR cap RSt.empty 0 = R
  obtain ⟨o, r⟩ := R
  intro hv
  cases o with
  | none => trivial
  | some v => exact pickCubeDdZR_rc_exact cap choice fuel r v [v] hv.2 (hv.2.ext_ok v List.mem_cons_self)

end OxiddModel.Zbdd.C13O
