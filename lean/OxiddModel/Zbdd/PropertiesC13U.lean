import OxiddModel.Zbdd.Uniform
import OxiddModel.Zbdd.Properties

/-!
# Headline theorems for property C13, last clause ("uniform picking never returns a non-model and
# selects models without bias") — ZBDDs, tree level, Boolean view

`pickUniform n rs f` models `pick_cube_uniform_edge` on a ZBDD in a manager with `n` levels
(`vars = num_levels = n`): `cofactors_node` yields the stored children `(hi, lo)`,
`sat_count_edge(child, n)` is the number of sets of the child's family (`pathCount`), and
`pick_cube_edge::inner` (oxidd-rules-zbdd/src/apply_rec.rs) records a node with `hi = lo` as don't
care (continuing in `hi`, closure not consulted), forces `true` if `lo = ∅`, and consults the closure
otherwise. Variables of levels that the path skips — and of all levels not on the path — are
**false** in the returned vector (`pathEval`, from `Pick.lean`, is the cube's meaning: listed levels
have the listed value, `none` = don't care, all other levels `0`).

The statements are in the Boolean view `fam n f σ` (membership of the 1-set of `σ` in the family).
See `OxiddModel/Bdd/PropertiesC13U.lean` for `Frac`, `takeThen`, `fracSum`.
* `RootPath f c` — `c` is a decision list the sampler can produce (`uniform_returnable`);
* `cubeProb f c` — probability that the sampler returns `c`; `dontCares c` — its don't cares;
* `modelProbZ n f σ` — probability of the total assignment `σ`: that of the one returnable cube it
  can lie in (`pathOf σ f`) times `1/2` per don't care if `σ` does lie in it, else `0`.

`f` ranges over all zero-suppressed trees (`Reduced`, for the Boolean view also `Ordered n 0`).
-/
namespace OxiddModel.Zbdd
open ZDD
open OxiddModel.Bdd (Frac takeThen fracSum natSum)

/-- The sampler is `pick_cube` with some choice function. -/
theorem uniform_is_pick (n : Nat) (rs : List Frac) (f : ZDD) (k : Nat) (hf : Ordered n k f) :
    ∃ choice : Nat → Bool, pickUniform n rs f = pickCube choice f := by
  obtain ⟨c, hc⟩ := uniformPath_as_choice hf rs
  refine ⟨c, ?_⟩
  unfold pickUniform pickCube
  cases f <;> simp_all

/-- C13 "uniform picking never returns a non-model" (and nothing exactly for the unsatisfiable
function): via `pick_none_iff_empty`, `pick_same_cube` and `pick_implies`. -/
theorem uniform_never_nonmodel (n : Nat) (rs : List Frac) (f : ZDD) (hf : NF n 0 f) :
    (pickUniform n rs f = none ↔ ∀ σ, fam n f σ = false) ∧
    (∀ c, pickUniform n rs f = some c → ∀ σ, pathEval n σ 0 c = true → fam n f σ = true) := by
  obtain ⟨choice, hc⟩ := uniform_is_pick n rs f 0 hf.1
  rw [hc]
  refine ⟨(pick_none_iff_empty n choice f f hf).1, fun c hsome σ hσ => ?_⟩
  have hne : f ≠ .empty := by
    intro h; subst h; simp [pickCube] at hsome
  obtain ⟨p, hp, hsame⟩ := pick_same_cube n choice f hf hne σ
  rw [hp] at hsome
  cases hsome
  exact (pick_implies n choice f f hf σ).1 (by rw [hsame]; exact hσ)

/-- The decision lists the sampler can return (for some random source in `[0,1)`) are exactly the
`RootPath`s. -/
theorem uniform_returnable (n : Nat) (f : ZDD) (hr : Reduced f) (c : List (Nat × Option Bool)) :
    (∃ rs : List Frac, (∀ r ∈ rs, r.num < r.den) ∧ pickUniform n rs f = some c) ↔ RootPath f c := by
  constructor
  · rintro ⟨rs, _, h⟩
    unfold pickUniform at h
    split at h
    · cases h
    · rename_i hne
      cases h
      exact uniformPath_rootPath n rs hr (by intro h; exact hne h)
  · intro hw
    obtain ⟨h1, h2⟩ := drawsFor_spec n hr hw
    refine ⟨drawsFor n f c, h2, ?_⟩
    have hne := rootPath_ne_empty hw
    unfold pickUniform
    split
    · exact absurd rfl hne
    · rw [h1]

/-- C13 "selects models without bias", cube form: for every zero-suppressed `f` and every cube `c`
the sampler can return, with `k` don't cares, `cubeProb f c = 2^k / (number of sets of f)`
(cross-multiplied; denominators positive), and the number of sets is the number of models of the
Boolean view over the manager's `n` variables (= `sat_count(n)`). -/
theorem uniform_cube_prob (n : Nat) (f : ZDD) (hf : NF n 0 f) (c : List (Nat × Option Bool))
    (hc : RootPath f c) :
    (cubeProb f c).1 * pathCount f = 2 ^ dontCares c * (cubeProb f c).2 ∧
    0 < (cubeProb f c).2 ∧ 0 < pathCount f ∧
    pathCount f = satCount n n f ∧ pathCount f = modelCount n (fam n f) := by
  obtain ⟨h1, h2⟩ := cubeProb_telescope hf.2 hc
  exact ⟨h1, h2, pathCount_pos hf.2 (rootPath_ne_empty hc), (satCount_self n f).symm,
    by rw [← satCount_exact n f hf.1, satCount_self]⟩

/-- C13 "selects models without bias", model form: completing the don't cares by fair coin flips,
every member of the family (satisfying total assignment of the Boolean view) has probability exactly
`1 / (number of sets)`; the only returnable cube that can contain `σ` is `pathOf σ f`; a non-model
has probability `0` and lies in no returnable cube. -/
theorem uniform_model_prob (n : Nat) (f : ZDD) (hf : NF n 0 f) (σ : Nat → Bool) :
    (fam n f σ = true →
      (modelProbZ n f σ).1 * pathCount f = (modelProbZ n f σ).2 ∧
      0 < (modelProbZ n f σ).2 ∧
      RootPath f (pathOf σ f) ∧ pathEval n σ 0 (pathOf σ f) = true) ∧
    (∀ c, RootPath f c → pathEval n σ 0 c = true → c = pathOf σ f) ∧
    (fam n f σ = false →
      (modelProbZ n f σ).1 = 0 ∧ ∀ c, RootPath f c → pathEval n σ 0 c ≠ true) := by
  refine ⟨fun h => ?_, fun c hc hσ => rootPath_unique hc σ 0 hσ, fun h => ?_⟩
  · obtain ⟨hw, he⟩ := pathOf_spec σ f 0 h
    obtain ⟨h1, h2, _⟩ := uniform_cube_prob n f hf _ hw
    refine ⟨?_, ?_, hw, he⟩
    · simp only [modelProbZ, he, if_true, modelProb]
      rw [h1]; ac_rfl
    · simp only [modelProbZ, he, if_true, modelProb]
      exact Nat.mul_pos h2 (Nat.two_pow_pos _)
  · have hno : ∀ c, RootPath f c → pathEval n σ 0 c ≠ true := fun c hc hσ => by
      have := rootPath_eval hc σ 0 hσ
      unfold fam at h
      rw [h] at this; cases this
    refine ⟨?_, hno⟩
    simp only [modelProbZ]
    split
    · rename_i he
      -- `σ` satisfies the cube of its path, so that path is not returnable: its probability is `0`
      exact cubeProb_zero_of_not_rootPath (fun hw => hno _ hw he)
    · rfl

/-- … hence any two members of the family have the same probability. -/
theorem uniform_no_bias (n : Nat) (f : ZDD) (hf : NF n 0 f) (σ τ : Nat → Bool)
    (hσ : fam n f σ = true) (hτ : fam n f τ = true) :
    (modelProbZ n f σ).1 * (modelProbZ n f τ).2 = (modelProbZ n f τ).1 * (modelProbZ n f σ).2 := by
  obtain ⟨h1, _⟩ := (uniform_model_prob n f hf σ).1 hσ
  obtain ⟨h2, _⟩ := (uniform_model_prob n f hf τ).1 hτ
  rw [← h1, ← h2]; ac_rfl

/-- The probabilities of all returnable cubes sum to `1`; in integers: their weights
`2^(don't cares)` sum to the number of sets. -/
theorem uniform_total (n : Nat) (f : ZDD) (hf : NF n 0 f) (hs : f ≠ .empty) :
    (fracSum ((rootPaths f).map (cubeProb f))).1 = (fracSum ((rootPaths f).map (cubeProb f))).2 ∧
    0 < (fracSum ((rootPaths f).map (cubeProb f))).2 ∧
    natSum ((rootPaths f).map cubeWeight) = pathCount f ∧
    (rootPaths f).Nodup ∧ (∀ c, c ∈ rootPaths f ↔ RootPath f c) := by
  have hw := rootPaths_weight f
  have hpos := pathCount_pos hf.2 hs
  obtain ⟨h1, h2⟩ := Bdd.fracSum_weights (pathCount f) (cubeProb f) cubeWeight (rootPaths f)
    (fun c hc => by
      obtain ⟨a, b, _⟩ := uniform_cube_prob n f hf c (mem_rootPaths.mp hc)
      exact ⟨a, b⟩)
  refine ⟨?_, h2, hw, rootPaths_nodup f, fun c => mem_rootPaths⟩
  rw [hw, Nat.mul_comm] at h1
  exact Nat.eq_of_mul_eq_mul_left hpos h1

/-- No division by zero: whenever the closure is consulted, both counts are positive. -/
theorem uniform_no_zero_div (n : Nat) (rs : List Frac) (f : ZDD) (hr : Reduced f) :
    ∀ p ∈ uniformCounts n rs f, 0 < p.1 ∧ 0 < p.2 ∧ 0 < p.1 + p.2 := by
  intro p hp
  obtain ⟨a, b⟩ := uniformCounts_pos n hr rs p hp
  exact ⟨a, b, by omega⟩

/-! ## non-vacuity -/

/-- the family `{∅, {0,1}, {0,2}, {1,2}, {0,1,2}}` over 3 levels (truth table `e9`): a don't-care
node, a forced node and skipped levels -/
def exZ : ZDD :=
  .node 0 (.node 1 (.node 2 .base .base) (.node 2 .base .empty)) (.node 1 (.node 2 .base .empty) .base)

theorem exZ_nf : NF 3 0 exZ := by
  refine ⟨.node (by omega) (by omega)
    (.node (by omega) (by omega) (.node (by omega) (by omega) .base .base) (.node (by omega) (by omega) .base .empty))
    (.node (by omega) (by omega) (.node (by omega) (by omega) .base .empty) .base), ?_⟩
  simp [exZ, Reduced]

example :
    pathCount exZ = 5 ∧
    rootPaths exZ = [[(0, some true), (1, some true), (2, none)], [(0, some true), (1, some false), (2, some true)],
      [(0, some false), (1, some true), (2, some true)], [(0, some false), (1, some false)]] ∧
    cubeProb exZ [(0, some true), (1, some true), (2, none)] = (3 * 2, 5 * 3) ∧
    cubeProb exZ [(0, some false), (1, some false)] = (2 * 1, 5 * 2) ∧
    pickUniform 3 [⟨1, 3⟩, ⟨1, 2⟩] exZ = some [(0, some true), (1, some true), (2, none)] ∧
    uniformCounts 3 [⟨1, 3⟩, ⟨1, 2⟩] exZ = [(3, 2), (2, 1)] ∧
    modelProbZ 3 exZ (fun _ => true) = (6, 15 * 2) ∧
    modelProbZ 3 exZ (fun l => l == 2) = (0, 1) ∧
    (fracSum ((rootPaths exZ).map (cubeProb exZ))).1 = (fracSum ((rootPaths exZ).map (cubeProb exZ))).2 := by
  decide

example := uniform_is_pick 3 [⟨1, 2⟩] exZ 0 exZ_nf.1
example := uniform_never_nonmodel 3 [⟨1, 2⟩] exZ exZ_nf
example := (uniform_returnable 3 exZ exZ_nf.2 [(0, some false), (1, some false)]).mpr
  (by simp [RootPath, exZ])
example := uniform_cube_prob 3 exZ exZ_nf [(0, some false), (1, some false)] (by simp [RootPath, exZ])
example := (uniform_model_prob 3 exZ exZ_nf (fun _ => true)).1 (by decide)
example := (uniform_model_prob 3 exZ exZ_nf (fun l => l == 2)).2.2 (by decide)
example := uniform_no_bias 3 exZ exZ_nf (fun _ => true) (fun _ => false) (by decide) (by decide)
example := uniform_total 3 exZ exZ_nf (by decide)
example := uniform_no_zero_div 3 [⟨1, 3⟩, ⟨1, 2⟩] exZ exZ_nf.2

end OxiddModel.Zbdd
