import OxiddModel.Zbdd.ThresholdS
import OxiddModel.Zbdd.PropertiesC05R

/-!
# C14 for ZBDDs: the out-of-memory threshold of every set operation, exactly

Property C14: *running out of memory is reported as an error and leaves the manager intact*. For
the ZBDD algorithms `apply_union / apply_intsec / apply_diff / apply_symm_diff`, `apply_not`
(`tautology ∖ f`) and `subset0 / subset1 / change` on the id store with reference counters and a
node capacity (`Zbdd/RcS.lean`: `add_node` fails exactly when `count = cap` and a fresh slot is
needed) the theorems below say, for **all** stores, counter arrays, cache policies, cache contents,
operands, capacities and fuels:

* (c) `…_oom_iff_needed`, `…_threshold_exact`: with `needed` := the number of nodes the
  capacity-free algorithm of `SetOpsS.lean` allocates from the same state (no capacity in its
  definition) the capped run reports OutOfMemory **iff** `0 < needed ∧ cap < count + needed`:
  `count + needed` is the minimal capacity;
* (b) `…_monotone`: success under `cap` implies success under every `cap' ≥ cap` with the same
  result edge, store, cache and time stamp;
* (d) `…_success_is_uncapped`: a successful run is the capacity-free run (`Erases`, restated);
* (a) `…_failure_clean`: after a failure the counters are exact for the caller's unchanged
  references (`RcInv` with the same external list: nothing leaked, nothing dropped twice), every
  stored node is still stored, and a collection afterwards leaves **exactly** the slots that were
  reachable from the caller's references *before* the call, with their old contents — the same
  store a collection before the call leaves.
-/
namespace OxiddModel.Zbdd.C14T
open OxiddModel.Zbdd OxiddModel.Zbdd.ZDD OxiddModel.Zbdd.Refine OxiddModel.Zbdd.Rc
open OxiddModel.Bdd.Refine (Policy OpTag Key Cache)

/-- number of nodes a capacity-free run started in store `s` has added -/
def growth (s : Store) (S : St × ZEdge) : Nat := count S.1.store - count s

/-- nodes `apply_union/intsec/diff/symm_diff` allocate from `st` when nothing stops them -/
def neededSetOp (p : Policy) (op : SetOp) (fuel : Nat) (st : St) (f g : ZEdge) : Nat :=
  growth st.store (setOpS p op fuel st f g)

/-- nodes `subset0/subset1/change` allocate -/
def neededSubset (p : Policy) (op : SubsetOp) (var vl fuel : Nat) (st : St) (f : ZEdge) : Nat :=
  growth st.store (subsetS p op var vl fuel st f)

/-- nodes `apply_not` allocates -/
def neededNot (p : Policy) (chain : List ZEdge) (fuel : Nat) (st : St) (f : ZEdge) : Nat :=
  growth st.store (notS p chain fuel st f)

/-! ## structural part: any pair of runs related by `Thr` and `Erases` -/

section
variable {cap : Nat} {s : Store} {R : Option ZEdge × RSt} {S : St × ZEdge}

theorem thr_oom_iff (h : Thr cap s R S) (m : count s ≤ count S.1.store) :
    R.1 = none ↔ 0 < growth s S ∧ cap < count s + growth s S := by
  unfold Thr Fits at h
  unfold growth
  cases hR : R.1 with
  | none =>
    rw [hR] at h
    simp only [Option.isSome_none, Bool.false_eq_true, false_iff] at h
    simp only [true_iff]
    omega
  | some e =>
    rw [hR] at h
    simp only [Option.isSome_some, true_iff] at h
    simp only [reduceCtorEq, false_iff]
    omega

theorem thr_ok_iff (h : Thr cap s R S) (e : Erases R S) (m : count s ≤ count S.1.store)
    :
    (R.1 = some S.2 ∧ R.2.st = S.1) ↔ ¬ (0 < growth s S ∧ cap < count s + growth s S) := by
  rw [← thr_oom_iff h m]
  constructor
  · rintro ⟨h1, _⟩ h2; rw [h1] at h2; cases h2
  · intro hn
    cases hR : R.1 with
    | none => exact absurd hR hn
    | some x =>
      have := e x hR
      rw [this]
      exact ⟨rfl, rfl⟩
end

/-- success under `cap` carries over to every larger capacity, with the same outcome -/
theorem thr_monotone {cap cap' : Nat} {s : Store} {R R' : Option ZEdge × RSt} {S : St × ZEdge}
    (h : Thr cap s R S) (h' : Thr cap' s R' S) (e : Erases R S) (e' : Erases R' S)
    (hc : cap ≤ cap') {x : ZEdge} (hx : R.1 = some x) : R'.1 = some x ∧ R'.2.st = R.2.st := by
  have hf : Fits cap s S.1.store := h.mp (by rw [hx]; rfl)
  have hs' : R'.1.isSome = true := h'.mpr (hf.mono hc)
  obtain ⟨y, hy⟩ := Option.isSome_iff_exists.mp hs'
  have a := e x hx
  have b := e' y hy
  rw [a] at b
  simp only [Prod.mk.injEq] at b
  exact ⟨by rw [hy, b.2], b.1.symm⟩

/-! ## (c) the threshold -/

/-- **`apply_union/intsec/diff/symm_diff` report OutOfMemory iff the operation allocates at least
one node and the capacity is below `count + needed`** — no hypothesis on the state at all. -/
theorem setop_oom_iff_needed (cap : Nat) (p : Policy) (op : SetOp) (fuel : Nat) (r : RSt)
    (f g : ZEdge) :
    (setOpR cap p op fuel r f g).1 = none ↔
      0 < neededSetOp p op fuel r.st f g ∧
      cap < count r.st.store + neededSetOp p op fuel r.st f g :=
  thr_oom_iff (setOpR_thr cap p op fuel r f g) (setOpS_mono p op fuel r.st f g)

/-- **the minimal capacity is `count + needed`**: every capacity from the current count up to
`count + needed − 1` fails, every capacity from `count + needed` on succeeds with the result, the
store, the cache and the time stamp of the capacity-free run. -/
theorem setop_threshold_exact (p : Policy) (op : SetOp) (fuel : Nat) (r : RSt) (f g : ZEdge) :
    (∀ cap, count r.st.store ≤ cap → cap < count r.st.store + neededSetOp p op fuel r.st f g →
      (setOpR cap p op fuel r f g).1 = none) ∧
    (∀ cap, count r.st.store + neededSetOp p op fuel r.st f g ≤ cap →
      (setOpR cap p op fuel r f g).1 = some (setOpS p op fuel r.st f g).2 ∧
      (setOpR cap p op fuel r f g).2.st = (setOpS p op fuel r.st f g).1) := by
  constructor
  · intro cap hc hk
    rw [setop_oom_iff_needed]; omega
  · intro cap hk
    apply (thr_ok_iff (setOpR_thr cap p op fuel r f g) (setOpR_erase' cap p op fuel r f g)
      (setOpS_mono p op fuel r.st f g)).mpr
    show ¬ (0 < neededSetOp p op fuel r.st f g ∧ cap < count r.st.store + neededSetOp p op fuel r.st f g)
    omega

/-- `subset0 / subset1 / change`: OutOfMemory iff `0 < needed ∧ cap < count + needed` -/
theorem subset_oom_iff_needed (cap : Nat) (p : Policy) (op : SubsetOp) (var vl fuel : Nat)
    (r : RSt) (f : ZEdge) :
    (subsetR cap p op var vl fuel r f).1 = none ↔
      0 < neededSubset p op var vl fuel r.st f ∧
      cap < count r.st.store + neededSubset p op var vl fuel r.st f :=
  thr_oom_iff (subsetR_thr cap p op var vl fuel r f) (subsetS_mono p op var vl fuel r.st f)

theorem subset_threshold_exact (p : Policy) (op : SubsetOp) (var vl fuel : Nat) (r : RSt)
    (f : ZEdge) :
    (∀ cap, count r.st.store ≤ cap → cap < count r.st.store + neededSubset p op var vl fuel r.st f →
      (subsetR cap p op var vl fuel r f).1 = none) ∧
    (∀ cap, count r.st.store + neededSubset p op var vl fuel r.st f ≤ cap →
      (subsetR cap p op var vl fuel r f).1 = some (subsetS p op var vl fuel r.st f).2 ∧
      (subsetR cap p op var vl fuel r f).2.st = (subsetS p op var vl fuel r.st f).1) := by
  constructor
  · intro cap hc hk
    rw [subset_oom_iff_needed]; omega
  · intro cap hk
    apply (thr_ok_iff (subsetR_thr cap p op var vl fuel r f) (subsetR_erase' cap p op var vl fuel r f)
      (subsetS_mono p op var vl fuel r.st f)).mpr
    show ¬ (0 < neededSubset p op var vl fuel r.st f ∧
      cap < count r.st.store + neededSubset p op var vl fuel r.st f)
    omega

/-- `apply_not` (= `tautology(0) ∖ f`) -/
theorem not_oom_iff_needed (cap : Nat) (p : Policy) (chain : List ZEdge) (fuel : Nat) (r : RSt)
    (f : ZEdge) :
    (notR cap p chain fuel r f).1 = none ↔
      0 < neededNot p chain fuel r.st f ∧ cap < count r.st.store + neededNot p chain fuel r.st f :=
  setop_oom_iff_needed cap p .diff fuel r (tautologyS chain 0) f

theorem not_threshold_exact (p : Policy) (chain : List ZEdge) (fuel : Nat) (r : RSt) (f : ZEdge) :
    (∀ cap, count r.st.store ≤ cap → cap < count r.st.store + neededNot p chain fuel r.st f →
      (notR cap p chain fuel r f).1 = none) ∧
    (∀ cap, count r.st.store + neededNot p chain fuel r.st f ≤ cap →
      (notR cap p chain fuel r f).1 = some (notS p chain fuel r.st f).2 ∧
      (notR cap p chain fuel r f).2.st = (notS p chain fuel r.st f).1) :=
  setop_threshold_exact p .diff fuel r (tautologyS chain 0) f

/-! ## (b) monotonicity, (d) success = capacity-free run -/

/-- **once a capacity suffices, every larger one does, with the same result** (edge, store, cache,
time stamp; the counters of the two runs are each exact by `setOpR_rc_exact`) -/
theorem setop_monotone (p : Policy) (op : SetOp) (fuel : Nat) (r : RSt) (f g x : ZEdge)
    {cap cap' : Nat} (hc : cap ≤ cap') (hx : (setOpR cap p op fuel r f g).1 = some x) :
    (setOpR cap' p op fuel r f g).1 = some x ∧
    (setOpR cap' p op fuel r f g).2.st = (setOpR cap p op fuel r f g).2.st :=
  thr_monotone (setOpR_thr cap p op fuel r f g) (setOpR_thr cap' p op fuel r f g)
    (setOpR_erase' cap p op fuel r f g) (setOpR_erase' cap' p op fuel r f g) hc hx

theorem subset_monotone (p : Policy) (op : SubsetOp) (var vl fuel : Nat) (r : RSt) (f x : ZEdge)
    {cap cap' : Nat} (hc : cap ≤ cap') (hx : (subsetR cap p op var vl fuel r f).1 = some x) :
    (subsetR cap' p op var vl fuel r f).1 = some x ∧
    (subsetR cap' p op var vl fuel r f).2.st = (subsetR cap p op var vl fuel r f).2.st :=
  thr_monotone (subsetR_thr cap p op var vl fuel r f) (subsetR_thr cap' p op var vl fuel r f)
    (subsetR_erase' cap p op var vl fuel r f) (subsetR_erase' cap' p op var vl fuel r f) hc hx

theorem not_monotone (p : Policy) (chain : List ZEdge) (fuel : Nat) (r : RSt) (f x : ZEdge)
    {cap cap' : Nat} (hc : cap ≤ cap') (hx : (notR cap p chain fuel r f).1 = some x) :
    (notR cap' p chain fuel r f).1 = some x ∧
    (notR cap' p chain fuel r f).2.st = (notR cap p chain fuel r f).2.st :=
  setop_monotone p .diff fuel r (tautologyS chain 0) f x hc hx

/-- (d) a successful capped run is the capacity-free run -/
theorem setop_success_is_uncapped (cap : Nat) (p : Policy) (op : SetOp) (fuel : Nat) (r : RSt)
    (f g x : ZEdge) (hx : (setOpR cap p op fuel r f g).1 = some x) :
    setOpS p op fuel r.st f g = ((setOpR cap p op fuel r f g).2.st, x) :=
  setOpR_erase' cap p op fuel r f g x hx

theorem subset_success_is_uncapped (cap : Nat) (p : Policy) (op : SubsetOp) (var vl fuel : Nat)
    (r : RSt) (f x : ZEdge) (hx : (subsetR cap p op var vl fuel r f).1 = some x) :
    subsetS p op var vl fuel r.st f = ((subsetR cap p op var vl fuel r f).2.st, x) :=
  subsetR_erase' cap p op var vl fuel r f x hx

/-! ## (a) a failure leaves the manager intact -/

theorem reach_has {r : RSt} {ext : List ZEdge} (h : RcInv r ext) {i : Nat}
    (hr : Reach r.st.store ext i) : ∃ n, r.st.store.get? i = some n := by
  induction hr with
  | root hm => exact h.ext_ok _ hm
  | kid _ hp hch ih =>
    rcases hch with hch | hch
    · have := (h.kids_ok _ _ hp).1; rw [hch] at this; exact this
    · have := (h.kids_ok _ _ hp).2; rw [hch] at this; exact this

/-- growing the store does not change what is reachable from the caller's references -/
theorem reach_le_iff {r : RSt} {ext : List ZEdge} (h : RcInv r ext) {s' : Store}
    (hle : r.st.store.Le s') (i : Nat) : Reach s' ext i ↔ Reach r.st.store ext i := by
  constructor
  · intro hr
    induction hr with
    | root hm => exact .root hm
    | kid _ hp hch ih =>
      obtain ⟨n0, hn0⟩ := reach_has h ih
      have := hle _ _ hn0
      rw [this] at hp
      cases hp
      exact .kid ih hn0 hch
  · intro hr
    induction hr with
    | root hm => exact .root hm
    | kid _ hp hch ih => exact .kid ih (hle _ _ hp) hch

/-- a failed call `R`: counters exact for the same references, nothing removed, and a collection
afterwards leaves slot by slot the store that a collection before the call leaves -/
theorem failure_clean_of {N : Nat} {r : RSt} {ext : List ZEdge} {R : Option ZEdge × RSt}
    (hi : RcInv r ext) (hord0 : OrdInv N r) (hpost : RcPost r ext R) (hord : OrdInv N R.2)
    (herr : R.1 = none) :
    RcInv R.2 ext ∧ r.st.store.Le R.2.st.store ∧
    RcInv (gcR N R.2) ext ∧ RcInv (gcR N r) ext ∧
    (∀ i, (gcR N R.2).st.store.get? i = (gcR N r).st.store.get? i) ∧
    (∀ i, (∃ n, (gcR N R.2).st.store.get? i = some n) ↔ Reach r.st.store ext i) := by
  have hinv : RcInv R.2 ext := (hpost.elim).2 herr
  have hle := hpost.1
  obtain ⟨g1, g2, g3, _⟩ := C05R.gcR_exact N R.2 [] ext hinv hord.ord hord.bound
  obtain ⟨k1, k2, k3, _⟩ := C05R.gcR_exact N r [] ext hi hord0.ord hord0.bound
  refine ⟨hinv, hle, g1, k1, ?_, fun i => (g2 i).trans (reach_le_iff hi hle i)⟩
  intro i
  by_cases hr : Reach r.st.store ext i
  · obtain ⟨n, hn⟩ := (k2 i).mpr hr
    have hn0 := k3 i n hn
    obtain ⟨m, hm⟩ := (g2 i).mpr ((reach_le_iff hi hle i).mpr hr)
    have := g3 i m hm
    rw [hle i n hn0] at this
    cases this
    rw [hm, hn]
  · have a : (gcR N r).st.store.get? i = none := by
      cases h : (gcR N r).st.store.get? i with
      | none => rfl
      | some n => exact absurd ((k2 i).mp ⟨n, h⟩) hr
    have b : (gcR N R.2).st.store.get? i = none := by
      cases h : (gcR N R.2).st.store.get? i with
      | none => rfl
      | some n => exact absurd ((reach_le_iff hi hle i).mp ((g2 i).mp ⟨n, h⟩)) hr
    rw [a, b]

/-- **(a) for the set operations**: when `apply_union/…` fails with OutOfMemory in a state whose
counters are exact for the caller's references `ext` (handles, chain entries, temporaries), then
afterwards the counters are exact **for the same list** (no reference leaked, none dropped twice),
no node disappeared, and a collection leaves slot by slot the same store as a collection before
the call: exactly the nodes reachable from `ext` in the old store. -/
theorem setop_failure_clean {p : Policy} (pok : p.OK) (N cap : Nat) (op : SetOp) (fuel : Nat)
    (r : RSt) (f g : ZEdge) (ext : List ZEdge) (hi : RcInv r ext) (ho : OrdInv N r)
    (hf : f ∈ ext) (hg : g ∈ ext) (herr : (setOpR cap p op fuel r f g).1 = none) :
    RcInv (setOpR cap p op fuel r f g).2 ext ∧
    r.st.store.Le (setOpR cap p op fuel r f g).2.st.store ∧
    RcInv (gcR N (setOpR cap p op fuel r f g).2) ext ∧ RcInv (gcR N r) ext ∧
    (∀ i, (gcR N (setOpR cap p op fuel r f g).2).st.store.get? i = (gcR N r).st.store.get? i) ∧
    (∀ i, (∃ n, (gcR N (setOpR cap p op fuel r f g).2).st.store.get? i = some n) ↔
      Reach r.st.store ext i) := by
  have h := setOpR_ord pok N cap op fuel r f g ext 0 hi ho
    (has_above_zero (hi.ext_ok f hf)) (has_above_zero (hi.ext_ok g hg))
  exact failure_clean_of hi ho h.1 h.2.1 herr

/-- **(a) for `subset0 / subset1 / change`** -/
theorem subset_failure_clean {p : Policy} (pok : p.OK) (N cap : Nat) (op : SubsetOp) (v : Nat)
    (hv : v < N) (fuel : Nat) (r : RSt) (f : ZEdge) (ext : List ZEdge) (hi : RcInv r ext)
    (ho : OrdInv N r) (hf : f ∈ ext) (herr : (subsetR cap p op v v fuel r f).1 = none) :
    RcInv (subsetR cap p op v v fuel r f).2 ext ∧
    r.st.store.Le (subsetR cap p op v v fuel r f).2.st.store ∧
    RcInv (gcR N (subsetR cap p op v v fuel r f).2) ext ∧ RcInv (gcR N r) ext ∧
    (∀ i, (gcR N (subsetR cap p op v v fuel r f).2).st.store.get? i = (gcR N r).st.store.get? i) ∧
    (∀ i, (∃ n, (gcR N (subsetR cap p op v v fuel r f).2).st.store.get? i = some n) ↔
      Reach r.st.store ext i) := by
  have h := subsetR_ord pok N cap op v hv fuel r f ext 0 hi ho (has_above_zero (hi.ext_ok f hf))
  exact failure_clean_of hi ho h.1 h.2.1 herr

/-- **(a) for `apply_not`** (`chain` = the tautology chain, among the external references) -/
theorem not_failure_clean {p : Policy} (pok : p.OK) (N cap : Nat) (chain : List ZEdge)
    (fuel : Nat) (r : RSt) (f : ZEdge) (ext : List ZEdge) (hi : RcInv r ext) (ho : OrdInv N r)
    (hch : tautologyS chain 0 ∈ ext) (hf : f ∈ ext) (herr : (notR cap p chain fuel r f).1 = none) :
    RcInv (notR cap p chain fuel r f).2 ext ∧
    r.st.store.Le (notR cap p chain fuel r f).2.st.store ∧
    RcInv (gcR N (notR cap p chain fuel r f).2) ext ∧ RcInv (gcR N r) ext ∧
    (∀ i, (gcR N (notR cap p chain fuel r f).2).st.store.get? i = (gcR N r).st.store.get? i) ∧
    (∀ i, (∃ n, (gcR N (notR cap p chain fuel r f).2).st.store.get? i = some n) ↔
      Reach r.st.store ext i) :=
  setop_failure_clean pok N cap .diff fuel r (tautologyS chain 0) f ext hi ho hch hf herr

/-! ## non-vacuity

The history `C05R.exCmds` (two variables, capacity 8): after three commands the handles are
`{{0}} = #2`, `{{1}} = #3`, their union `#4`; five nodes are stored (two of them the chain). -/

open OxiddModel.Zbdd.C05R in
/-- `not (#4)` allocates one node: the minimal capacity is `5 + 1` -/
example : count (exRun 3).r.st.store = 5 ∧
    neededNot Policy.exact (exRun 3).chain 10 (exRun 3).r.st (.inner 4) = 1 ∧
    (notR 5 Policy.exact (exRun 3).chain 10 (exRun 3).r (.inner 4)).1 = none ∧
    (notR 6 Policy.exact (exRun 3).chain 10 (exRun 3).r (.inner 4)).1 = some (.inner 5) := by
  decide +kernel

open OxiddModel.Zbdd.C05R in
/-- the symmetric difference of `#5` and `#3` in the six-node store `exRun 6`: `needed = 1`, so
capacities `≤ 6` fail and capacities `≥ 7` succeed (`setop_threshold_exact`) — checked directly -/
example : count (exRun 6).r.st.store = 6 ∧
    neededSetOp Policy.exact .symmDiff 10 (exRun 6).r.st (.inner 5) (.inner 3) = 1 ∧
    (List.range 7).all (fun c => (setOpR c Policy.exact .symmDiff 10 (exRun 6).r (.inner 5) (.inner 3)).1 == none) = true ∧
    (setOpR 7 Policy.exact .symmDiff 10 (exRun 6).r (.inner 5) (.inner 3)).1 = some (.inner 6) := by
  decide +kernel

open OxiddModel.Zbdd.C05R in
/-- `change` of the variable 1 in `#5`: the result is stored already (`needed = 0`): succeeds in a
full store, under every capacity -/
example : neededSubset Policy.exact .change 1 1 10 (exRun 5).r.st (.inner 5) = 0 ∧
    (subsetR 0 Policy.exact .change 1 1 10 (exRun 5).r (.inner 5)).1.isSome = true := by
  decide +kernel

open OxiddModel.Zbdd.C05R in
/-- the hypotheses of `setop_failure_clean` hold along every history (`ord_history`); here the
failing symmetric difference of `exCmds`: after it and a collection the store is slot by slot the
store a collection before the call leaves -/
example : ∀ i,
    (gcR 2 (setOpR 6 Policy.exact .symmDiff 10 (exRun 6).r (.inner 5) (.inner 3)).2).st.store.get? i =
      (gcR 2 (exRun 6).r).st.store.get? i := by
  have h := ord_history Policy.exact_ok 8 2 exInit exInit_init (exCmds.take 6)
  have hn : (exRun 6).n = 2 := by decide +kernel
  have ho : OrdInv 2 (exRun 6).r := hn ▸ h.2.ord
  exact (setop_failure_clean Policy.exact_ok 2 6 .symmDiff 10 (exRun 6).r (.inner 5) (.inner 3)
    ((exRun 6).chain ++ (exRun 6).hs) h.1 ho (by decide +kernel) (by decide +kernel)
    (by decide +kernel)).2.2.2.2.1

end OxiddModel.Zbdd.C14T
