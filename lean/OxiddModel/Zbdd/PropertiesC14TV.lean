import OxiddModel.Zbdd.ThresholdVar
import OxiddModel.Zbdd.PropertiesC14T

/-!
# C14 for ZBDDs: the out-of-memory threshold of `var_edge`, `singleton_edge`, `add_vars`

`Zbdd/PropertiesC14T.lean` states (a)–(d) for the set operations, `not` and
`subset0/subset1/change`. The same four statements for the remaining allocating operations of the
counter model `Zbdd/RcS.lean`:

* `singleton_edge` (`singletonR`): one `get_or_insert`; `needed ∈ {0, 1}` and
  `needed = 1` iff the node `(level; Base, ∅)` is not in the unique table (closed form);
* `var_edge` (`varR`): `level + 1` calls of `get_or_insert`, each followed by `?`;
  `needed ≤ level + 1`;
* `add_vars` (`addVarsR`): `post_reorder_mut` rebuilds the tautology chain for `n + k` levels. The
  real code does **not** return an error there — it prints `Out of memory` and **aborts the
  process** (`KF-zbdd-addvars-oom`, recorded finding). The theorems therefore say *when* that
  happens — **iff `0 < needed ∧ cap < count + needed`**, `needed` = nodes of the new chain that are
  not stored, `≤ n + k` — and what a completed call is (`rebuildChain`), not that the manager is
  intact afterwards: there is no afterwards. (a) is *not* claimed for `add_vars`.

For `var_edge` / `singleton_edge` (a) is the statement of `PropertiesC14T`: after a failure the
counters are exact for the caller's unchanged references and a collection leaves slot by slot the
store a collection before the call leaves.
-/
namespace OxiddModel.Zbdd.C14T
open OxiddModel.Zbdd OxiddModel.Zbdd.ZDD OxiddModel.Zbdd.Refine OxiddModel.Zbdd.Rc
open OxiddModel.Bdd.Refine (Policy OpTag Key Cache)
open OxiddModel.Zbdd.QueriesS (varLoopS varAt)

/-- nodes `var_edge` at `level` allocates when nothing stops it (no capacity in the definition) -/
def neededVar (chain : List ZEdge) (s : Store) (level : Nat) : Nat :=
  count (varAt chain s level).1 - count s

/-- nodes `singleton_edge` at `level` allocates -/
def neededSingleton (s : Store) (level : Nat) : Nat := count (singletonAt s level).1 - count s

/-- nodes `add_vars(k)` allocates in a manager with `n` levels -/
def neededAddVars (n k : Nat) (s : Store) : Nat := count (rebuildChain (n + k) s).1 - count s

theorem neededVar_eq_growth (chain : List ZEdge) (st : St) (level : Nat) :
    neededVar chain st.store level = growth st.store (liftS st (varAt chain st.store level)) := rfl

/-! ## (c) the thresholds -/

/-- **`var_edge` reports OutOfMemory iff it allocates at least one node and the capacity is below
`count + needed`** — for every store, counter array, chain and level -/
theorem var_oom_iff_needed (cap : Nat) (chain : List ZEdge) (r : RSt) (level : Nat) :
    (varR cap chain r level).1 = none ↔
      0 < neededVar chain r.st.store level ∧ cap < count r.st.store + neededVar chain r.st.store level :=
  thr_oom_iff (varR_thr cap chain r level).1 (count_varAt_ge chain r.st.store level)

/-- **the minimal capacity of `var_edge` is `count + needed`** -/
theorem var_threshold_exact (chain : List ZEdge) (r : RSt) (level : Nat) :
    (∀ cap, count r.st.store ≤ cap → cap < count r.st.store + neededVar chain r.st.store level →
      (varR cap chain r level).1 = none) ∧
    (∀ cap, count r.st.store + neededVar chain r.st.store level ≤ cap →
      (varR cap chain r level).1 = some (varAt chain r.st.store level).2 ∧
      (varR cap chain r level).2.st = ⟨(varAt chain r.st.store level).1, r.st.cache, r.st.tick⟩) := by
  constructor
  · intro cap hc hk
    rw [var_oom_iff_needed]; omega
  · intro cap hk
    apply (thr_ok_iff (varR_thr cap chain r level).1 (varR_thr cap chain r level).2
      (count_varAt_ge chain r.st.store level)).mpr
    show ¬ (0 < neededVar chain r.st.store level ∧
      cap < count r.st.store + neededVar chain r.st.store level)
    omega

/-- `var_edge` on level `l` never needs more than `l + 1` free slots -/
theorem neededVar_le (chain : List ZEdge) (s : Store) (level : Nat) :
    neededVar chain s level ≤ level + 1 := by
  have := count_varAt_le chain s level
  unfold neededVar; omega

theorem singleton_oom_iff_needed (cap : Nat) (r : RSt) (level : Nat) :
    (singletonR cap r level).1 = none ↔
      0 < neededSingleton r.st.store level ∧ cap < count r.st.store + neededSingleton r.st.store level :=
  thr_oom_iff (singletonR_thr cap r level) (count_getOrInsert_ge _ _)

/-- closed form: `singleton_edge` needs one slot iff its node is not in the unique table -/
theorem neededSingleton_closed (s : Store) (level : Nat) :
    neededSingleton s level = if s.find? ⟨level, .base, .empty⟩ = none then 1 else 0 := by
  unfold neededSingleton singletonAt
  rw [count_getOrInsert]
  split <;> omega

/-- **`singleton_edge` reports OutOfMemory iff its node is not stored and no slot is free** -/
theorem singleton_oom_iff (cap : Nat) (r : RSt) (level : Nat) :
    (singletonR cap r level).1 = none ↔
      r.st.store.find? ⟨level, .base, .empty⟩ = none ∧ cap ≤ count r.st.store := by
  rw [singleton_oom_iff_needed, neededSingleton_closed]
  by_cases h : r.st.store.find? ⟨level, .base, .empty⟩ = none
  · simp only [h, if_true, true_and]; omega
  · simp [h]

theorem singleton_threshold_exact (r : RSt) (level : Nat) :
    (∀ cap, count r.st.store ≤ cap → cap < count r.st.store + neededSingleton r.st.store level →
      (singletonR cap r level).1 = none) ∧
    (∀ cap, count r.st.store + neededSingleton r.st.store level ≤ cap →
      (singletonR cap r level).1 = some (singletonAt r.st.store level).2 ∧
      (singletonR cap r level).2.st = ⟨(singletonAt r.st.store level).1, r.st.cache, r.st.tick⟩) := by
  constructor
  · intro cap hc hk
    rw [singleton_oom_iff_needed]; omega
  · intro cap hk
    apply (thr_ok_iff (singletonR_thr cap r level) (singletonR_erase cap r level)
      (count_getOrInsert_ge _ _)).mpr
    show ¬ (0 < neededSingleton r.st.store level ∧
      cap < count r.st.store + neededSingleton r.st.store level)
    omega

/-- **`add_vars(k)` aborts the process iff the new chain has nodes that are not stored and the
capacity is below `count + (their number)`** (`none` of the model = `std::process::abort()` of
`post_reorder_mut`; the old chain is released but not freed, so it does not make room) -/
theorem addvars_abort_iff_needed (cap n k : Nat) (chain : List ZEdge) (r : RSt) :
    (addVarsR cap n k chain r).1 = none ↔
      0 < neededAddVars n k r.st.store ∧ cap < count r.st.store + neededAddVars n k r.st.store := by
  have h := addVarsR_thr cap n k chain r
  have m := count_buildChain_ge (n + k) (n + k) r.st.store
  unfold Fits at h
  unfold neededAddVars rebuildChain
  cases hR : (addVarsR cap n k chain r).1 with
  | none =>
    rw [hR] at h
    simp only [Option.isSome_none, Bool.false_eq_true, false_iff] at h
    simp only [true_iff]
    unfold rebuildChain at h
    omega
  | some ch =>
    rw [hR] at h
    simp only [Option.isSome_some, true_iff] at h
    simp only [reduceCtorEq, false_iff]
    unfold rebuildChain at h
    omega

/-- the new chain has `n + k` inner nodes: `add_vars` never needs more free slots than that -/
theorem neededAddVars_le (n k : Nat) (s : Store) : neededAddVars n k s ≤ n + k := by
  have := count_buildChain_le (n + k) (n + k) s
  unfold neededAddVars rebuildChain; omega

/-- **the minimal capacity of `add_vars` is `count + needed`**: below it the process aborts, from
it on the call completes with the store and the chain of `rebuildChain` and an untouched cache -/
theorem addvars_threshold_exact (n k : Nat) (chain : List ZEdge) (r : RSt) :
    (∀ cap, count r.st.store ≤ cap → cap < count r.st.store + neededAddVars n k r.st.store →
      (addVarsR cap n k chain r).1 = none) ∧
    (∀ cap, count r.st.store + neededAddVars n k r.st.store ≤ cap →
      (addVarsR cap n k chain r).1 = some (rebuildChain (n + k) r.st.store).2 ∧
      (addVarsR cap n k chain r).2.st.store = (rebuildChain (n + k) r.st.store).1 ∧
      (addVarsR cap n k chain r).2.st.cache = r.st.cache) := by
  constructor
  · intro cap hc hk
    rw [addvars_abort_iff_needed]; omega
  · intro cap hk
    have hn : ¬ (addVarsR cap n k chain r).1 = none := by
      rw [addvars_abort_iff_needed]; omega
    cases hR : (addVarsR cap n k chain r).1 with
    | none => exact absurd hR hn
    | some ch =>
      obtain ⟨h1, h2⟩ := addVarsR_erase hR
      rw [h1]
      exact ⟨rfl, rfl, h2⟩

/-! ## (b) monotonicity, (d) success = capacity-free run -/

theorem var_monotone (chain : List ZEdge) (r : RSt) (level : Nat) (x : ZEdge) {cap cap' : Nat}
    (hc : cap ≤ cap') (hx : (varR cap chain r level).1 = some x) :
    (varR cap' chain r level).1 = some x ∧
    (varR cap' chain r level).2.st = (varR cap chain r level).2.st :=
  thr_monotone (varR_thr cap chain r level).1 (varR_thr cap' chain r level).1
    (varR_thr cap chain r level).2 (varR_thr cap' chain r level).2 hc hx

theorem singleton_monotone (r : RSt) (level : Nat) (x : ZEdge) {cap cap' : Nat}
    (hc : cap ≤ cap') (hx : (singletonR cap r level).1 = some x) :
    (singletonR cap' r level).1 = some x ∧
    (singletonR cap' r level).2.st = (singletonR cap r level).2.st :=
  thr_monotone (singletonR_thr cap r level) (singletonR_thr cap' r level)
    (singletonR_erase cap r level) (singletonR_erase cap' r level) hc hx

/-- a capacity under which `add_vars` completes: every larger one completes too, with the same
chain and the same store -/
theorem addvars_monotone (n k : Nat) (chain ch : List ZEdge) (r : RSt) {cap cap' : Nat}
    (hc : cap ≤ cap') (hx : (addVarsR cap n k chain r).1 = some ch) :
    (addVarsR cap' n k chain r).1 = some ch ∧
    (addVarsR cap' n k chain r).2.st.store = (addVarsR cap n k chain r).2.st.store := by
  have hf := (addVarsR_thr cap n k chain r).mp (by rw [hx]; rfl)
  have hs := (addVarsR_thr cap' n k chain r).mpr (hf.mono hc)
  obtain ⟨y, hy⟩ := Option.isSome_iff_exists.mp hs
  have a := (addVarsR_erase hx).1
  have b := (addVarsR_erase hy).1
  rw [a] at b
  simp only [Prod.mk.injEq] at b
  exact ⟨by rw [hy, b.2], b.1.symm⟩

/-- (d) a successful `var_edge` is the capacity-free `varAt` (`varS` of `QueriesS.lean` at
`var_to_level`), the apply cache untouched -/
theorem var_success_is_uncapped (cap : Nat) (chain : List ZEdge) (r : RSt) (level : Nat) (x : ZEdge)
    (hx : (varR cap chain r level).1 = some x) :
    varAt chain r.st.store level = ((varR cap chain r level).2.st.store, x) ∧
    (varR cap chain r level).2.st.cache = r.st.cache := by
  have := (varR_thr cap chain r level).2 x hx
  unfold liftS at this
  simp only [Prod.mk.injEq] at this
  obtain ⟨h1, h2⟩ := this
  rw [← h1, ← h2]
  exact ⟨rfl, rfl⟩

theorem singleton_success_is_uncapped (cap : Nat) (r : RSt) (level : Nat) (x : ZEdge)
    (hx : (singletonR cap r level).1 = some x) :
    singletonAt r.st.store level = ((singletonR cap r level).2.st.store, x) ∧
    (singletonR cap r level).2.st.cache = r.st.cache := by
  have := singletonR_erase cap r level x hx
  unfold liftS at this
  simp only [Prod.mk.injEq] at this
  obtain ⟨h1, h2⟩ := this
  rw [← h1, ← h2]
  exact ⟨rfl, rfl⟩

/-- (d) a completed `add_vars` is `rebuildChain` (restating `addVarsR_erase`) -/
theorem addvars_success_is_uncapped (cap n k : Nat) (chain ch : List ZEdge) (r : RSt)
    (hx : (addVarsR cap n k chain r).1 = some ch) :
    rebuildChain (n + k) r.st.store = ((addVarsR cap n k chain r).2.st.store, ch) ∧
    (addVarsR cap n k chain r).2.st.cache = r.st.cache :=
  addVarsR_erase hx

/-! ## (a) a failure leaves the manager intact (`var_edge`, `singleton_edge`) -/

/-- **(a) for `var_edge`**: `ext` = the caller's references, which include the tautology chain
(the chain entries are level-correct: `ChainLv`, an invariant of every history, `ord_history`) -/
theorem var_failure_clean (N cap : Nat) (chain : List ZEdge) (r : RSt) (level : Nat)
    (ext : List ZEdge) (hi : RcInv r ext) (ho : OrdInv N r) (hch : ∀ e ∈ chain, e ∈ ext)
    (hcl : ChainLv r.st.store chain) (hl : level < N)
    (herr : (varR cap chain r level).1 = none) :
    RcInv (varR cap chain r level).2 ext ∧
    r.st.store.Le (varR cap chain r level).2.st.store ∧
    RcInv (gcR N (varR cap chain r level).2) ext ∧ RcInv (gcR N r) ext ∧
    (∀ i, (gcR N (varR cap chain r level).2).st.store.get? i = (gcR N r).st.store.get? i) ∧
    (∀ i, (∃ n, (gcR N (varR cap chain r level).2).st.store.get? i = some n) ↔
      Reach r.st.store ext i) :=
  failure_clean_of hi ho (varR_rc cap chain r level ext hi hch)
    (varR_ord (cap := cap) chain r level ext hi hch ho hcl hl).1 herr

/-- **(a) for `singleton_edge`** -/
theorem singleton_failure_clean (N cap : Nat) (r : RSt) (level : Nat) (ext : List ZEdge)
    (hi : RcInv r ext) (ho : OrdInv N r) (hl : level < N)
    (herr : (singletonR cap r level).1 = none) :
    RcInv (singletonR cap r level).2 ext ∧
    r.st.store.Le (singletonR cap r level).2.st.store ∧
    RcInv (gcR N (singletonR cap r level).2) ext ∧ RcInv (gcR N r) ext ∧
    (∀ i, (gcR N (singletonR cap r level).2).st.store.get? i = (gcR N r).st.store.get? i) ∧
    (∀ i, (∃ n, (gcR N (singletonR cap r level).2).st.store.get? i = some n) ↔
      Reach r.st.store ext i) :=
  failure_clean_of hi ho (singletonR_rc cap r level ext hi)
    (singletonR_ord (cap := cap) r level ext hi ho hl).1 herr

/-- what the model knows about the state in which `add_vars` aborts (the real process is gone):
the store was only extended and the counters are exact for the user's references and the part of
the new chain built so far — *not* a statement that the manager is usable -/
theorem addvars_abort_state (cap n k : Nat) (chain : List ZEdge) (r : RSt) (ext : List ZEdge)
    (hi : RcInv r (chain ++ ext)) (herr : (addVarsR cap n k chain r).1 = none) :
    r.st.store.Le (addVarsR cap n k chain r).2.st.store ∧
    ∃ part, RcInv (addVarsR cap n k chain r).2 (part ++ ext) := by
  obtain ⟨a, _, c⟩ := addVarsR_rc (cap := cap) (n := n) (k := k) hi
  refine ⟨a, ?_⟩
  cases hR : addVarsR cap n k chain r with
  | mk o r' =>
    rw [hR] at c herr
    simp only at herr
    subst herr
    exact c

/-! ## non-vacuity (the history `C05R.exCmds`: two variables; `exRun 3` holds the chain `#1, #0`,
`{{0}} = #2`, `{{1}} = #3` and their union `#4`) -/

open OxiddModel.Zbdd.C05R in
/-- `var_edge(1)` in the initial manager (two chain nodes) needs two nodes: capacities 2, 3 fail
(3 after one node was created), 4 succeeds; in `exRun 3` the node `(1; Base, ∅)` exists (it is
`{{1}}`), one node is needed: 5 fails, 6 succeeds -/
example : count (exRun 0).r.st.store = 2 ∧ neededVar (exRun 0).chain (exRun 0).r.st.store 1 = 2 ∧
    (varR 2 (exRun 0).chain (exRun 0).r 1).1 = none ∧
    (varR 3 (exRun 0).chain (exRun 0).r 1).1 = none ∧
    count (varR 3 (exRun 0).chain (exRun 0).r 1).2.st.store = 3 ∧
    (varR 4 (exRun 0).chain (exRun 0).r 1).1.isSome = true ∧
    count (exRun 3).r.st.store = 5 ∧ neededVar (exRun 3).chain (exRun 3).r.st.store 1 = 1 ∧
    (varR 5 (exRun 3).chain (exRun 3).r 1).1 = none ∧
    (varR 6 (exRun 3).chain (exRun 3).r 1).1.isSome = true := by
  decide +kernel

open OxiddModel.Zbdd.C05R in
/-- `singleton_edge(0)` is stored in `exRun 3`: succeeds under capacity 0; in the initial manager
(two chain nodes) it needs one slot: capacity 2 fails, 3 succeeds -/
example : neededSingleton (exRun 3).r.st.store 0 = 0 ∧
    (singletonR 0 (exRun 3).r 0).1.isSome = true ∧
    neededSingleton exInit.r.st.store 0 = 1 ∧
    (singletonR 2 exInit.r 0).1 = none ∧ (singletonR 3 exInit.r 0).1.isSome = true := by
  decide +kernel

open OxiddModel.Zbdd.C05R in
/-- `add_vars(1)` in `exRun 3` (five nodes): the chain for three levels shares nothing with the
chain for two levels, so three nodes are needed: capacity 7 aborts, 8 completes -/
example : neededAddVars 2 1 (exRun 3).r.st.store = 3 ∧
    (addVarsR 7 2 1 (exRun 3).chain (exRun 3).r).1 = none ∧
    (addVarsR 8 2 1 (exRun 3).chain (exRun 3).r).1.isSome = true := by
  decide +kernel

open OxiddModel.Zbdd.C05R in
/-- the hypotheses of `var_failure_clean` hold along every history (`ord_history`); here the
failing `var_edge(1)` under capacity 3 in the initial manager (it created one node before it
failed): after it and a collection the store is slot by slot the store a collection before the
call leaves -/
example : ∀ i, (gcR 2 (varR 3 (exRun 0).chain (exRun 0).r 1).2).st.store.get? i =
    (gcR 2 (exRun 0).r).st.store.get? i := by
  have h := ord_history Policy.exact_ok 8 2 exInit exInit_init (exCmds.take 0)
  have hn : (exRun 0).n = 2 := by decide +kernel
  have ho : OrdInv 2 (exRun 0).r := hn ▸ h.2.ord
  exact (var_failure_clean 2 3 (exRun 0).chain (exRun 0).r 1 ((exRun 0).chain ++ (exRun 0).hs)
    h.1 ho (fun e he => List.mem_append_left _ he) h.2.lv (by decide)
    (by decide +kernel)).2.2.2.2.1

end OxiddModel.Zbdd.C14T
