import OxiddModel.Zbdd.GlobalSSteps
import OxiddModel.Zbdd.PropertiesQueriesS

/-!
# C01 / C03 / C05 — ONE store-level history theorem for ZBDDs (without reordering)

Property C01: *"two function handles compare equal if and only if they denote the same function
over the manager's variables … regardless of the sequence of operations, handle drops, garbage
collections, variable additions and reorderings through which the two handles were obtained."*

`GlobalS.lean` defines ONE ZBDD manager state (id-indexed node store with one reference counter per
slot, apply cache, `gc_count`, the number of variables, the tautology chain as internal roots, the
table of live handles) and ONE step function for the constants, `t`, `var`, `singleton`, the four
set operations, `not`, `subset0/subset1/change` (each under its own node capacity: succeeding or
failing with OutOfMemory at any allocation point), `clone`, `drop`, `gc`, `add_vars` and an empty
`Manager::reorder` (chain torn down with removal of unreferenced chain nodes, and rebuilt). There is
no `set_var_order` step: reordering live ZBDD nodes is a known defect of the code (`KF-zbdd-reorder`);
the order is the identity extended by `add_vars`. The theorems below hold for **every history**
(`List Step`, no bound on length, no side condition on the steps) from the empty manager and for
**every admissible cache policy** (`Policy.OK`):

* `global_inv` — the store is ordered, all levels `< n`, zero suppressed (no node with
  `hi = Empty`), hash consed, the cache sound, no dangling edge, counters exact
  (`rc = 1 + chain entries + handles + parents`), the chain denotes the tautologies of all levels;
* `global_semantics` — every handle denotes a reduced ordered ZDD whose SET FAMILY (= Boolean view
  over the current `n` variables) is that of its producing expression; `ghost_unchanged`,
  `handles_unchanged`: `gc`, `add_vars`, the empty `reorder` and failed operations leave every handle
  and its expression alone; `addVars_view`, `global_addVars_view`: after `add_vars k` the family of a handle is the
  same set of sets — its Boolean view over `n + k` variables is the old one conjoined with "all new
  variables false";
* `global_canonical` (C01) — two handles are the same edge iff their expressions specify the same
  family;
* `global_gc_exact` (C05) — after a `gc` step exactly the nodes reachable from the handles and the
  chain remain; with no handles exactly the chain nodes;
* `global_node_count` (C03) — `node_count` of a handle is the number of nodes of THE reduced ordered
  ZDD of its family.
-/
namespace OxiddModel.Zbdd.Global
open OxiddModel.Zbdd OxiddModel.Zbdd.ZDD OxiddModel.Zbdd.Refine OxiddModel.Zbdd.Rc
open OxiddModel.Bdd.Refine (Policy OpTag Key Cache)

/-! ## the empty manager, induction over the history -/

theorem ginv_empty : GInv GSt.empty where
  rc := RcInv.add_base rcinv_empty
  ord := ordinv_empty 0
  lv := fun l => by
    have : tautologyS [.base] l = .base := by simp [tautologyS]
    show Above _ l (tautologyS [.base] l)
    rw [this]; trivial
  closed := fun i n hm => by simp [GSt.empty] at hm
  uniq := empty_unique
  nored := empty_nored
  cache := CacheOK.nil _ _
  chain := ⟨rfl, fun l hl => by
    have : l = 0 := by simpa [GSt.empty] using hl
    subst this
    show DenotesZ _ .base (taut 0 0)
    rw [taut_ge (Nat.le_refl 0)]; exact .base⟩
  nmax := Nat.zero_le _

theorem foldl_inv {p : Policy} (pok : p.OK) : ∀ (hist : List Step) (x : GSt × List Expr),
    GInv x.1 → Sem x.1 x.2 →
    GInv (hist.foldl (fun x s => (step p x.1 s, track p x.1 x.2 s)) x).1 ∧
    Sem (hist.foldl (fun x s => (step p x.1 s, track p x.1 x.2 s)) x).1
      (hist.foldl (fun x s => (step p x.1 s, track p x.1 x.2 s)) x).2 := by
  intro hist
  induction hist with
  | nil => intro x hi hs; exact ⟨hi, hs⟩
  | cons s rest ih =>
    intro x hi hs
    obtain ⟨h1, h2⟩ := step_inv pok hi hs s
    exact ih _ h1 h2

/-- the invariant and the meaning of all handles, after every history -/
theorem run_inv {p : Policy} (pok : p.OK) (hist : List Step) :
    GInv (run p hist) ∧ Sem (run p hist) (runT p hist).2 := by
  rw [← runT_fst]
  exact foldl_inv pok hist (GSt.empty, []) ginv_empty .nil

theorem run_append (p : Policy) (hist : List Step) (s : Step) :
    run p (hist ++ [s]) = step p (run p hist) s := by
  simp [run, List.foldl_append]

/-! ## `global_inv` -/

/-- **`global_inv`.** After every history: (1) children lie on strictly larger levels, (2) all
levels are `< n`, (3) no node has the `hi` child `Empty` (the ZBDD reduction rule), (4) no two slots
hold the same node (hash consed), (5) every cache entry is the result its key specifies, (6) the
chain has `n + 1` entries and entry `l` denotes the tautology over the levels `[l, n)`, and it is
closed under children, (7) every handle, every chain entry and every child edge points to a stored
node, (8) the counter of every stored node is
`1 + #chain entries on it + #handles on it + #stored parent edges` (the `1` is the unique table's
reference; `ref_count()` reports `rc - 1`; the chain entries are the manager's internal roots),
(9) `n ≤ u32::MAX`. -/
theorem global_inv {p : Policy} (pok : p.OK) (hist : List Step) :
    let g := run p hist
    SOrdered g.r.st.store ∧
    (∀ i nd, g.r.st.store.get? i = some nd → nd.level < g.n) ∧
    g.r.st.store.NoRed ∧
    g.r.st.store.Unique ∧
    CacheOK (envOf g.n) g.r.st.store g.r.st.cache ∧
    (ChainOK g.n g.r.st.store g.chain ∧ ChainClosed g.r.st.store g.chain) ∧
    ((∀ x ∈ g.hs, has g.r.st.store x) ∧ (∀ x ∈ g.chain, has g.r.st.store x) ∧
      ∀ i nd, g.r.st.store.get? i = some nd → has g.r.st.store nd.hi ∧ has g.r.st.store nd.lo) ∧
    (∀ i nd, g.r.st.store.get? i = some nd →
      rcGet g.r.rc i =
        1 + g.chain.count (.inner i) + g.hs.count (.inner i) + parents g.r.st.store i) ∧
    g.n ≤ maxLevel := by
  intro g
  have h := (run_inv pok hist).1
  refine ⟨h.ord.ord, h.ord.bound, h.nored, h.uniq, h.cache, ⟨h.chain, h.closed⟩,
    ⟨fun x hx => h.rc.ext_ok x (List.mem_append_right _ hx),
     fun x hx => h.rc.ext_ok x (List.mem_append_left _ hx), h.rc.kids_ok⟩, ?_, h.nmax⟩
  intro i nd hget
  have := h.rc.rc_eq i nd hget
  rw [List.count_append, ← Nat.add_assoc] at this
  exact this

/-! ## `global_semantics` -/

/-- **`global_semantics`.** After every history the ghost list has one expression per handle, and
every handle denotes a diagram `t` in normal form for the current `n` levels (ordered, zero
suppressed) whose family — membership of the set `{v < n | σ v}`, i.e. the Boolean view over the
current `n` variables, which is also what the counter-walk `eval_edge` computes — is the family of
the expression that produced the handle: set operations applied to the families of their
operands. -/
theorem global_semantics {p : Policy} (pok : p.OK) (hist : List Step) :
    let g := run p hist
    let es := (runT p hist).2
    es.length = g.hs.length ∧
    ∀ (i : Nat) (x : ZEdge), g.hs[i]? = some x → ∃ (e : Expr) (t : ZDD), es[i]? = some e ∧ e.WF g.n ∧ DenotesZ g.r.st.store x t ∧ NF g.n 0 t ∧
      (∀ σ, fam g.n t σ = e.fam g.n σ) ∧ ∀ σ, evalEdge g.n σ t = e.fam g.n σ := by
  intro g es
  obtain ⟨hi, hs⟩ := run_inv pok hist
  refine ⟨forall₂_length hs, fun i x hx => ?_⟩
  obtain ⟨e, he, hw, t, hd, hev⟩ := forall₂_get hs hx
  exact ⟨e, t, he, hw, hd, hi.nf hd, hev, fun σ => by rw [bool_view g.n t σ (hi.nf hd).1, hev σ]⟩

/-- **`ghost_unchanged`.** `gc`, `add_vars`, the empty `reorder` and operations that fail with OutOfMemory (or name a
handle / variable that does not exist) push nothing and change no handle's expression: by
`global_semantics` for the longer history every old handle still denotes the family it denoted
(for `add_vars`: viewed over the new number of variables, `addVars_view`). -/
theorem ghost_unchanged (p : Policy) (g : GSt) (es : List Expr) :
    track p g es .gc = es ∧ (∀ cap k, track p g es (.addVars cap k) = es) ∧
    (∀ cap, track p g es (.reorderNop cap) = es) ∧
    (∀ s r', opRes p g s = some (none, r') → track p g es s = es) ∧
    (∀ s, opRes p g s = none → (∀ a, s ≠ .clone a) → (∀ a, s ≠ .drop a) → track p g es s = es) := by
  refine ⟨rfl, fun _ _ => rfl, fun _ => rfl, ?_, ?_⟩
  · intro s r' h
    cases s with
    | clone a => simp [opRes] at h
    | drop a => simp [opRes] at h
    | gc => rfl
    | addVars cap k => rfl
    | reorderNop cap => rfl
    | const b => simp only [track, h]
    | taut => simp only [track, h]
    | var cap v => simp only [track, h]
    | singleton cap v => simp only [track, h]
    | setop cap op a b => simp only [track, h]
    | not cap a => simp only [track, h]
    | subset cap op v a => simp only [track, h]
  · intro s h h1 h2
    cases s with
    | clone a => exact absurd rfl (h1 a)
    | drop a => exact absurd rfl (h2 a)
    | gc => rfl
    | addVars cap k => rfl
    | reorderNop cap => rfl
    | const b => simp only [track, h]
    | taut => simp only [track, h]
    | var cap v => simp only [track, h]
    | singleton cap v => simp only [track, h]
    | setop cap op a b => simp only [track, h]
    | not cap a => simp only [track, h]
    | subset cap op v a => simp only [track, h]

/-- … and the handle list itself is the old one after `gc`, `add_vars`, the empty `reorder` and a
failed operation -/
theorem handles_unchanged (p : Policy) (g : GSt) :
    (step p g .gc).hs = g.hs ∧ (∀ cap k, (step p g (.addVars cap k)).hs = g.hs) ∧
    (∀ cap, (step p g (.reorderNop cap)).hs = g.hs) ∧
    (∀ r', (pushOp g (some (none, r'))).hs = g.hs) := by
  refine ⟨rfl, fun cap k => ?_, fun cap => ?_, fun _ => rfl⟩
  · simp only [step, addVars]
    split
    · split <;> rfl
    · rfl
  · simp only [step, reorderNop]
    split <;> rfl

/-- **`addVars_view`.** The family of every handle's expression does not depend on the number of
variables it is viewed in: over `n + k` variables (`k` arbitrary) it is the family over the current
`n` variables, a member containing none of the new variables — as a Boolean function: the old
function conjoined with "every new variable is false". -/
theorem addVars_view {p : Policy} (pok : p.OK) (hist : List Step) :
    let g := run p hist
    let es := (runT p hist).2
    ∀ (i : Nat) (e : Expr), es[i]? = some e → ∀ (k : Nat) (σ : Nat → Bool),
      e.fam (g.n + k) σ = (e.fam g.n σ && allFalse σ g.n (g.n + k)) := by
  intro g es i e he k σ
  obtain ⟨hi, hs⟩ := run_inv pok hist
  have hlen := forall₂_length hs
  have hlt : i < g.hs.length := by
    have : i < es.length := by
      apply Classical.byContradiction; intro h
      rw [List.getElem?_eq_none (Nat.le_of_not_lt h)] at he; cases he
    have hl : es.length = g.hs.length := hlen
    omega
  obtain ⟨e', he', hw, _⟩ := forall₂_get hs (List.getElem?_eq_getElem hlt)
  have : es[i]? = some e' := he'
  rw [he] at this; cases this
  exact fam_window k hw σ

/-- **`global_addVars_view`**, on the diagrams: an `add_vars` step (successful, aborted or refused)
after any history keeps handle list and ghost, every handle denotes the *same tree* as before, and
the Boolean view of that tree over the new number of variables is the old view conjoined with
"all new variables false". -/
theorem global_addVars_view {p : Policy} (pok : p.OK) (hist : List Step) (cap k : Nat) :
    let g := run p hist
    let g' := step p g (.addVars cap k)
    g'.hs = g.hs ∧ (g'.n = g.n ∨ g'.n = g.n + k) ∧
    ∀ x ∈ g.hs, ∀ t, DenotesZ g.r.st.store x t →
      DenotesZ g'.r.st.store x t ∧ ∀ σ, fam g'.n t σ = (fam g.n t σ && allFalse σ g.n g'.n) := by
  intro g g'
  have hi := (run_inv pok hist).1
  obtain ⟨hle, hn, hh, _⟩ := addVars_le (p := p) hi cap k
  refine ⟨hh, hn, fun x _ t hd => ⟨hd.mono hle, fun σ => ?_⟩⟩
  rcases hn with hn | hn
  · show fam g'.n t σ = (fam g.n t σ && allFalse σ g.n g'.n)
    rw [hn, allFalse_self, Bool.and_true]
  · show fam g'.n t σ = (fam g.n t σ && allFalse σ g.n g'.n)
    rw [hn]
    exact (add_vars_family g.n k t σ (hi.nf hd).1).1

/-! ## `global_canonical` (C01) -/

/-- **`global_canonical`.** After every history two handles are the same edge (`==`, and hence
`Hash`/`Ord`, which are functions of the edge) **iff** the expressions that produced them specify
the same family (equivalently: the same Boolean function over the current `n` variables). -/
theorem global_canonical {p : Policy} (pok : p.OK) (hist : List Step) :
    let g := run p hist
    let es := (runT p hist).2
    ∀ (i j : Nat) (x y : ZEdge) (ex ey : Expr), g.hs[i]? = some x → g.hs[j]? = some y → es[i]? = some ex → es[j]? = some ey →
      (x = y ↔ ∀ σ, ex.fam g.n σ = ey.fam g.n σ) := by
  intro g es i j x y ex ey hx hy hex hey
  obtain ⟨hi, hs⟩ := run_inv pok hist
  obtain ⟨ex', hex', _, tx, hdx, hevx⟩ := forall₂_get hs hx
  obtain ⟨ey', hey', _, ty, hdy, hevy⟩ := forall₂_get hs hy
  have e1 : ex' = ex := by
    have : es[i]? = some ex' := hex'
    rw [hex] at this; cases this; rfl
  have e2 : ey' = ey := by
    have : es[j]? = some ey' := hey'
    rw [hey] at this; cases this; rfl
  subst e1 e2
  constructor
  · intro hxy σ
    subst hxy
    rw [← hevx σ, ← hevy σ, hdx.functional hdy]
  · intro hfn
    have htt : tx = ty := (zbdd_canonical g.n tx ty (hi.nf hdx) (hi.nf hdy)).mpr
      (fun σ => by rw [hevx σ, hevy σ, hfn σ])
    subst htt
    exact inj_of_unique hi.uniq _ _ _ hdx hdy

/-- the same without the ghost: for any two handles and the diagrams they denote, equality of the
edges is equality of the families (Boolean views over the current `n` variables) -/
theorem global_canonical_den {p : Policy} (pok : p.OK) (hist : List Step) :
    let g := run p hist
    ∀ (x y : ZEdge) (tx ty : ZDD), x ∈ g.hs → y ∈ g.hs → DenotesZ g.r.st.store x tx → DenotesZ g.r.st.store y ty →
      (x = y ↔ ∀ σ, fam g.n tx σ = fam g.n ty σ) := by
  intro g x y tx ty _ _ hdx hdy
  have hi := (run_inv pok hist).1
  constructor
  · intro hxy σ; subst hxy; rw [hdx.functional hdy]
  · intro hfn
    have htt : tx = ty := (zbdd_canonical g.n tx ty (hi.nf hdx) (hi.nf hdy)).mpr hfn
    subst htt
    exact inj_of_unique hi.uniq _ _ _ hdx hdy

/-! ## `global_gc_exact` (C05) -/

/-- **`global_gc_exact`.** Let `g` be the state after any history and `g'` the state after one more
`gc` step (`run_append`: that is the history `hist ++ [gc]`). Then the invariant holds, handles and
chain are the old ones, `gc_count` is advanced, the apply cache is empty, and the stored nodes of
`g'` are **exactly** the nodes reachable from the handles and the chain entries — in the store
before the collection and, since every surviving node keeps its content, in the store after it;
nothing else is changed; and with no handles exactly the chain nodes remain (the initial store of a
ZBDD manager with `n` variables is its chain). -/
theorem global_gc_exact {p : Policy} (pok : p.OK) (hist : List Step) :
    let g := run p hist
    let g' := step p g .gc
    GInv g' ∧ g'.hs = g.hs ∧ g'.chain = g.chain ∧ g'.n = g.n ∧ g'.gcCount = g.gcCount + 1 ∧
    g'.r.st.cache = [] ∧
    (∀ i, (∃ nd, g'.r.st.store.get? i = some nd) ↔ Reach g.r.st.store (g.chain ++ g.hs) i) ∧
    (∀ i, (∃ nd, g'.r.st.store.get? i = some nd) ↔ Reach g'.r.st.store (g'.chain ++ g'.hs) i) ∧
    (∀ i nd, g'.r.st.store.get? i = some nd → g.r.st.store.get? i = some nd) ∧
    (g.hs = [] → ∀ i, (∃ nd, g'.r.st.store.get? i = some nd) ↔ .inner i ∈ g.chain) := by
  intro g g'
  obtain ⟨hi, hs⟩ := run_inv pok hist
  have hi' : GInv g' := (step_inv pok hi hs .gc).1
  obtain ⟨_, hex, hsub, _⟩ := C05R.gcR_exact g.n g.r g.chain g.hs hi.rc hi.ord.ord hi.ord.bound
  have hcache := (C05R.gcR_sound g.n g.r _ hi.rc).2.1
  refine ⟨hi', rfl, rfl, rfl, rfl, hcache, hex, fun i => ?_, hsub, fun hnil => ?_⟩
  · constructor
    · intro h
      have hr := (hex i).mp h
      have : ∀ {k}, Reach g.r.st.store (g.chain ++ g.hs) k →
          Reach (gcR g.n g.r).st.store (g.chain ++ g.hs) k := by
        intro k hk
        induction hk with
        | root hm => exact .root hm
        | kid hp hget hkid ih =>
          obtain ⟨n', h1, h2⟩ := gcR_keeps_reach g.n hi.rc hp
          rw [hget] at h1; cases h1
          exact .kid ih h2 hkid
      exact this hr
    · intro h
      exact (hex i).mpr (Reach.sub hsub h)
  · have hrc : RcInv g.r g.chain := by
      have := hi.rc
      rw [hnil, List.append_nil] at this
      exact this
    exact C05R.all_dropped_chain_only g.n g.r g.chain hrc hi.ord.ord hi.ord.bound hi.closed

/-! ## `global_node_count` (C03) -/

/-- **`global_node_count`.** After every history, for every handle: if `t` is ANY reduced ordered
ZDD (normal form for the current `n` levels) whose family is the family of the handle's expression,
then `node_count` of the handle (the visited-set traversal of the store, `QueriesS.nodeCountS`) is
the number of distinct nodes of `t`. Such a `t` exists (`global_semantics`) and is unique
(`zbdd_canonical`), so this is *the* size of the family's diagram. -/
theorem global_node_count {p : Policy} (pok : p.OK) (hist : List Step) :
    let g := run p hist
    let es := (runT p hist).2
    ∀ (i : Nat) (x : ZEdge) (e : Expr), g.hs[i]? = some x → es[i]? = some e →
      ∀ t : ZDD, NF g.n 0 t → (∀ σ, fam g.n t σ = e.fam g.n σ) →
        ∀ fuel, t.size < fuel → QueriesS.nodeCountS g.r.st.store fuel x = nodeCount t := by
  intro g es i x e hx he t hnf hev fuel hfuel
  obtain ⟨hi, hs⟩ := run_inv pok hist
  obtain ⟨e', he', _, t0, hd, hev0⟩ := forall₂_get hs hx
  have e1 : e' = e := by
    have : es[i]? = some e' := he'
    rw [he] at this; cases this; rfl
  subst e1
  have htt : t = t0 := (zbdd_canonical g.n t t0 hnf (hi.nf hd)).mpr
    (fun σ => by rw [hev σ, hev0 σ])
  subst htt
  exact QueriesS.nodeCountS_eq_nodeCount g.r.st.store hi.uniq x t hd fuel hfuel

/-! ## non-vacuity: one history with every kind of step -/

/-- Two variables (chain `#1 → #0 → Base`); `x0 = var 0 = {{0}, {0,1}}` (node `#2`); `T`;
`s = subset0(T, 0) = {∅, {1}}` (the chain node `#0`); `not s = T ∖ s` — **the node of `x0` again**;
`var 1` under capacity 4 (the first `get_or_insert` allocates `#3`, the second fails: OutOfMemory,
one garbage node); `{{1}}` (finds `#3`), `{∅}`, their union (the chain node `#0` again), a clone;
all handles but `x0` dropped; `gc`; `add_vars 1` (new chain `#5 → #4 → #3`, the old chain node `#1`
becomes garbage); `var 0` over THREE variables (`#6`, a different family: it contains `{0,2}`),
`subset0(·, 2)` of it — **the node of the old `x0`**; `gc` (frees `#1`); an empty `reorder`
(the top chain node `#5`, referenced by nobody else, is removed and re-created in slot `#1`; `#4` is
kept: `x0'` refers to it). -/
def exHist : List Step :=
  [.addVars 10 2,
   .var 10 0,                                             -- [x0]
   .taut,                                                 -- [T, x0]
   .subset 10 .subset0 0 0,                               -- [s, T, x0]
   .not 10 0,                                             -- [¬s, s, T, x0]
   .var 4 1,                                              -- OutOfMemory after one allocation
   .singleton 10 1,                                       -- [{{1}}, ¬s, s, T, x0]
   .const true,                                           -- [{∅}, {{1}}, …]
   .setop 10 .union 0 1,                                  -- [{∅,{1}}, {∅}, {{1}}, ¬s, s, T, x0]
   .clone 0,
   .drop 0, .drop 0, .drop 0, .drop 0, .drop 0, .drop 0, .drop 0,   -- [x0]
   .gc,
   .addVars 10 1,
   .var 10 0,                                             -- [x0', x0]
   .subset 10 .subset0 2 0,                               -- [subset0(x0', 2), x0', x0]
   .gc,
   .reorderNop 10]

/-- the first route to `x0`: `¬ subset0(T, 0)` is the edge of `var 0` -/
example : (run Policy.exact (exHist.take 5)).hs = [.inner 2, .inner 0, .inner 1, .inner 2] := by
  decide +kernel

/-- the failed `var 1`: no new handle, one node of garbage (4 nodes instead of 3, counter 1) -/
example : (run Policy.exact (exHist.take 5)).hs = (run Policy.exact (exHist.take 6)).hs ∧
    count (run Policy.exact (exHist.take 5)).r.st.store = 3 ∧
    count (run Policy.exact (exHist.take 6)).r.st.store = 4 ∧
    (run Policy.exact (exHist.take 6)).r.rc = #[6, 3, 3, 1] := by decide +kernel

/-- the union of `{∅}` and `{{1}}` is the chain node `#0`; after the clone its counter is
`1 + 1 (chain) + 3 (handles s, union, clone) + 3 (parents: #1 twice, #2)` -/
example : (run Policy.exact (exHist.take 10)).hs =
      [.inner 0, .inner 0, .base, .inner 3, .inner 2, .inner 0, .inner 1, .inner 2] ∧
    (run Policy.exact (exHist.take 10)).r.rc = #[8, 3, 3, 2] := by decide +kernel

/-- after the drops and the collection: chain nodes `#0`, `#1` and `x0 = #2`; `add_vars 1` builds
the new chain in the free slot and two new ones and releases the old chain: `#1` is garbage -/
example : (run Policy.exact (exHist.take 18)).hs = [.inner 2] ∧
    count (run Policy.exact (exHist.take 18)).r.st.store = 3 ∧
    (run Policy.exact (exHist.take 19)).chain = [.inner 5, .inner 4, .inner 3, .base] ∧
    (run Policy.exact (exHist.take 19)).n = 3 ∧
    (run Policy.exact (exHist.take 19)).r.rc = #[4, 1, 2, 4, 4, 2] := by decide +kernel

/-- the final state: **the two routes give the same edge** (`inner 2`, first and last handle),
across an OutOfMemory failure, two collections, `add_vars` and an empty reordering -/
theorem exHist_run :
    (run Policy.exact exHist).hs = [.inner 2, .inner 6, .inner 2] ∧
    (run Policy.exact exHist).chain = [.inner 1, .inner 4, .inner 3, .base] ∧
    (run Policy.exact exHist).n = 3 ∧ (run Policy.exact exHist).gcCount = 3 ∧
    (run Policy.exact exHist).r.rc = #[2, 2, 3, 4, 5, 1, 2] ∧
    count (run Policy.exact exHist).r.st.store = 6 := by decide +kernel

/-- before the empty reordering: chain `#5 → #4 → #3`, `gc_count = 2` -/
example : (run Policy.exact (exHist.take 22)).chain = [.inner 5, .inner 4, .inner 3, .base] ∧
    (run Policy.exact (exHist.take 22)).gcCount = 2 ∧
    (run Policy.exact (exHist.take 22)).r.rc = #[2, 1, 3, 4, 5, 2, 2] := by decide +kernel

/-- the ghost: the expressions of the three handles -/
theorem exHist_ghost :
    (runT Policy.exact exHist).2 =
      [.subset .subset0 2 (.var 3 0), .var 3 0, .var 2 0] := by decide +kernel

/-- … and before the drops, the expression of the first route -/
example : (runT Policy.exact (exHist.take 5)).2 =
    [.not 2 (.subset .subset0 0 (.taut 2)), .subset .subset0 0 (.taut 2), .taut 2, .var 2 0] := by
  decide +kernel

/-- all theorems apply to it (no hypothesis besides `Policy.OK`) -/
example : GInv (run Policy.exact exHist) := (run_inv Policy.exact_ok exHist).1

/-- `global_canonical` on the example: since the two handles are the same edge, the two
expressions specify the same family — "the sets over 3 variables that contain 0 and not 2 are the
sets over the first 2 variables that contain 0" — obtained from the machine, not from Boolean
algebra -/
example : ∀ σ : Nat → Bool,
    (!σ 2 && (σ 0 && allFalse σ 3 3)) = (σ 0 && allFalse σ 2 3) := by
  have h := global_canonical Policy.exact_ok exHist 0 2 (.inner 2) (.inner 2) _ _
    (by rw [exHist_run.1]; rfl) (by rw [exHist_run.1]; rfl)
    (by rw [exHist_ghost]; rfl) (by rw [exHist_ghost]; rfl)
  rw [exHist_run.2.2.1] at h
  exact h.mp rfl

/-- … and the first route: `T ∖ subset0(T, 0) = var 0` over two variables -/
example : ∀ σ : Nat → Bool,
    (allFalse σ 2 2 && !(!σ 0 && allFalse σ 2 2)) = (σ 0 && allFalse σ 2 2) := by
  have hh : (run Policy.exact (exHist.take 5)).hs = [.inner 2, .inner 0, .inner 1, .inner 2] := by
    decide +kernel
  have he : (runT Policy.exact (exHist.take 5)).2 =
      [.not 2 (.subset .subset0 0 (.taut 2)), .subset .subset0 0 (.taut 2), .taut 2, .var 2 0] := by
    decide +kernel
  have hn : (run Policy.exact (exHist.take 5)).n = 2 := by decide +kernel
  have h := global_canonical Policy.exact_ok (exHist.take 5) 0 3 (.inner 2) (.inner 2) _ _
    (by rw [hh]; rfl) (by rw [hh]; rfl) (by rw [he]; rfl) (by rw [he]; rfl)
  rw [hn] at h
  exact h.mp rfl

/-- conversely two handles with different families are different edges: `var 0` over three
variables is not `var 0` over two -/
example : (run Policy.exact exHist).hs[0]? ≠ (run Policy.exact exHist).hs[1]? := by
  rw [exHist_run.1]; decide

/-- `global_node_count` on the example: `x0` has one inner node and two terminals before and after
`add_vars`, `var 0` over three variables has three inner nodes (+ 2 terminals) -/
example : QueriesS.nodeCountS (run Policy.exact exHist).r.st.store 20 (.inner 2) = 4 ∧
    QueriesS.nodeCountS (run Policy.exact exHist).r.st.store 20 (.inner 6) = 5 := by
  decide +kernel

/-- dropping every handle and collecting leaves exactly the three chain nodes (the counters of
the freed slots `#0, #2, #5, #6` are stale, those of the chain `#3, #4, #1` are
`1 + 1 (chain) + parents`) -/
example : count (run Policy.exact (exHist ++ [.drop 0, .drop 0, .drop 0, .gc])).r.st.store = 3 ∧
    (run Policy.exact (exHist ++ [.drop 0, .drop 0, .drop 0, .gc])).hs = [] ∧
    (run Policy.exact (exHist ++ [.drop 0, .drop 0, .drop 0, .gc])).r.rc =
      #[1, 2, 1, 4, 4, 1, 1] := by
  decide +kernel

/-- `add_vars` whose chain does not fit (abort in the code, `KF-zbdd-addvars-oom`) and `add_vars`
beyond `u32::MAX` levels (panic in the code) leave the state as it is -/
example : (run Policy.exact (exHist ++ [.addVars 7 2])).n = 3 ∧
    (run Policy.exact (exHist ++ [.addVars 100 4294967295])).n = 3 := by decide +kernel

/-- an empty reordering whose chain does not fit (all handles dropped, so all three chain nodes are
removed by the tear-down; capacity 2): abort in the code, state unchanged here -/
example : (run Policy.exact (exHist ++ [.drop 0, .drop 0, .drop 0, .reorderNop 2])).gcCount = 3 ∧
    count (run Policy.exact (exHist ++ [.drop 0, .drop 0, .drop 0, .reorderNop 2])).r.st.store = 6 := by
  decide +kernel

/-- the same history without an apply cache: the theorems apply as well, and the handles again
coincide -/
example : (run Policy.none exHist).hs[0]? = (run Policy.none exHist).hs[2]? := by decide +kernel

end OxiddModel.Zbdd.Global
