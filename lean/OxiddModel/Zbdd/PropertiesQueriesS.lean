import OxiddModel.Zbdd.QueriesS

/-!
# Headline theorems: the read-only queries of the ZBDD rules at store level, under any variable
# order (C02/C09: `eval`, `var`, `singleton`, `cofactors`, `satisfiable`, `valid`;
# C03: `node_count`)

`o` ranges over all orders with `PermOK`, `s` over all stores, `e` over all edges denoting a tree
that is ordered within the manager's `o.n` levels, argument lists over all lists.
-/
namespace OxiddModel.Zbdd.QueriesS
open OxiddModel.Zbdd OxiddModel.Zbdd.ZDD OxiddModel.Zbdd.Refine OxiddModel.OrderS OxiddModel

/-! ## eval -/

/-- **C02/C09 `eval`.** Table filling through `var_to_level` with the counter of ones, then the
walk that decrements the counter at every node whose variable is true and accepts at `Base` iff it
reached zero: the result is membership of the 1-set of the assignment described by the argument
list (last value of a repeated variable counts, variables not named are false) in the family — a
level skipped on the path means that its variable must be false — for every order with mutually
inverse maps. -/
theorem evalS_spec (o : Order) (hp : PermOK o) (s : Store) (e : ZEdge) (t : ZDD)
    (args : List (Nat × Bool)) (hargs : ∀ a ∈ args, a.1 < o.n) (hd : DenotesZ s e t)
    (hord : Ordered o.n 0 t) (fuel : Nat) (hf : t.size ≤ fuel) :
    evalS o s fuel e args = evalV o (rhoArgs args) t := by
  unfold evalS
  have hg : ∀ l, (fill o args).1.getD l false = rhoArgs args (o.var l) := fill_get o hp args hargs
  rw [walkS_eq s _ (fun l => rhoArgs args (o.var l)) hg hd fuel _ hf, (fill_ok o hp args hargs).2]
  have : tbl (fill o args) = fun l => rhoArgs args (o.var l) := funext hg
  rw [this]
  exact walk_eq_eval _ hord

/-- `debug_assert_eq!(values.count_ones(..), ones)` holds after the loop, and no decrement of the
loop underflows. -/
theorem fill_invariant (o : Order) (hp : PermOK o) (args : List (Nat × Bool))
    (hargs : ∀ a ∈ args, a.1 < o.n) :
    (fill o args).1.size = o.n ∧ (fill o args).2 = ones (fun l => (fill o args).1.getD l false) 0 o.n ∧
    ∀ l, l < o.n → (fill o args).1.getD l false = true → 0 < (fill o args).2 :=
  ⟨(fill_ok o hp args hargs).1, (fill_ok o hp args hargs).2,
    fun l hl h => fillStep_no_underflow o.n _ l hl (fill_ok o hp args hargs) h⟩

/-- … and neither does the walk: on an ordered diagram `ones - val as usize` never underflows
(so truncated, wrapping and checked subtraction agree). -/
theorem evalS_no_underflow (o : Order) (hp : PermOK o) (t : ZDD)
    (args : List (Nat × Bool)) (hargs : ∀ a ∈ args, a.1 < o.n) (hord : Ordered o.n 0 t) :
    NoUnderflow (fun l => (fill o args).1.getD l false) t (fill o args).2 := by
  apply walk_no_underflow _ hord
  rw [(fill_ok o hp args hargs).2]
  exact Nat.le_refl _

/-! ## var, singleton -/

/-- `var_edge` at a given level -/
def varAt (chain : List ZEdge) (s : Store) (level : Nat) : Store × ZEdge :=
  let r := s.getOrInsert ⟨level, tautologyS chain (level + 1), .empty⟩
  varLoopS level r.1 r.2

theorem varAt_spec (n : Nat) (chain : List ZEdge) (s : Store) (hc : ChainOK n s chain)
    (level : Nat) :
    s.Le (varAt chain s level).1 ∧ (s.Unique → (varAt chain s level).1.Unique) ∧
    DenotesZ (varAt chain s level).1 (varAt chain s level).2 (var n level) := by
  have h0 := getOrInsert_denotes s level (tautologyS chain (level + 1)) .empty _ _
    (tautologyS_denotes hc (level + 1)) .empty
  obtain ⟨h1, h2, h3⟩ := varLoopS_spec level _ _ _ h0
  exact ⟨(getOrInsert_le s _).trans h1, fun hu => h2 (getOrInsert_unique s _ hu), h3⟩

/-- **C02 `var`.** The node built at `var_to_level(v)` on top of `tautology(level + 1)` and below
the don't-care chain denotes the projection on variable `v`; the store is only extended (so the
tautology chain stays in place) and stays duplicate free; the result is in normal form. -/
theorem varS_spec (o : Order) (hp : PermOK o) (chain : List ZEdge) (s : Store)
    (hc : ChainOK o.n s chain) (v : Nat) (hv : v < o.n) :
    s.Le (varS o chain s v).1 ∧ (s.Unique → (varS o chain s v).1.Unique) ∧
    ChainOK o.n (varS o chain s v).1 chain ∧
    DenotesZ (varS o chain s v).1 (varS o chain s v).2 (var o.n (o.lvl v)) ∧
    NF o.n 0 (var o.n (o.lvl v)) ∧
    ∀ ρ, evalV o ρ (var o.n (o.lvl v)) = ρ v := by
  obtain ⟨h1, h2, h3⟩ := varAt_spec o.n chain s hc (o.lvl v)
  refine ⟨h1, h2, hc.mono h1, h3, var_nf o.n _ (hp.lvl_lt hv), fun ρ => ?_⟩
  unfold evalV fam
  rw [var_eval, hp.var_lvl]

/-- **C09 `singleton`.** The node built at `var_to_level(v)` denotes the family `{{v}}`: an
assignment is a member iff, among the manager's variables, exactly `v` is true. -/
theorem singletonS_spec (o : Order) (hp : PermOK o) (s : Store) (v : Nat) (hv : v < o.n) :
    s.Le (singletonS o s v).1 ∧ (s.Unique → (singletonS o s v).1.Unique) ∧
    DenotesZ (singletonS o s v).1 (singletonS o s v).2 (singleton (o.lvl v)) ∧
    NF o.n 0 (singleton (o.lvl v)) ∧
    ∀ ρ, evalV o ρ (singleton (o.lvl v)) = true ↔ ∀ w, w < o.n → (ρ w = true ↔ w = v) := by
  refine ⟨getOrInsert_le s _, fun hu => getOrInsert_unique s _ hu,
    getOrInsert_denotes s _ .base .empty _ _ .base .empty, singleton_nf o.n _ (hp.lvl_lt hv),
    fun ρ => ?_⟩
  unfold evalV fam
  rw [singleton_eval]
  simp only [Bool.and_eq_true, allFalse_iff, hp.var_lvl]
  have hl := hp.lvl_lt hv
  constructor
  · rintro ⟨⟨h1, h2⟩, h3⟩ w hw
    constructor
    · intro hρ
      apply Classical.byContradiction
      intro hne
      have hk : o.lvl w ≠ o.lvl v := fun h => hne (hp.lvl_inj h)
      have hkn := hp.lvl_lt hw
      by_cases hlt : o.lvl w < o.lvl v
      · have := h1 (o.lvl w) (Nat.zero_le _) hlt
        rw [hp.var_lvl, hρ] at this; cases this
      · have := h3 (o.lvl w) (by omega) hkn
        rw [hp.var_lvl, hρ] at this; cases this
    · rintro rfl; exact h2
  · intro h
    refine ⟨⟨fun k _ hk => ?_, (h v hv).mpr rfl⟩, fun k hk1 hk2 => ?_⟩
    · have hkn : k < o.n := by omega
      have hne : o.var k ≠ v := fun e => by
        have := hp.lvl_var k; rw [e] at this; omega
      cases hρ : ρ (o.var k)
      · rfl
      · exact absurd ((h _ (hp.var_lt hkn)).mp hρ) hne
    · have hne : o.var k ≠ v := fun e => by
        have := hp.lvl_var k; rw [e] at this; omega
      cases hρ : ρ (o.var k)
      · rfl
      · exact absurd ((h _ (hp.var_lt hk2)).mp hρ) hne

/-- `var` then `eval`: the two maps are used consistently. -/
theorem evalS_varS (o : Order) (hp : PermOK o) (chain : List ZEdge) (s : Store)
    (hc : ChainOK o.n s chain) (v : Nat) (hv : v < o.n)
    (args : List (Nat × Bool)) (hargs : ∀ a ∈ args, a.1 < o.n) (fuel : Nat)
    (hf : (var o.n (o.lvl v)).size ≤ fuel) :
    evalS o (varS o chain s v).1 fuel (varS o chain s v).2 args = rhoArgs args v := by
  obtain ⟨_, _, _, hd, hnf, hs⟩ := varS_spec o hp chain s hc v hv
  rw [evalS_spec o hp _ _ _ args hargs hd hnf.1 fuel hf, hs]

/-! ## cofactors -/

/-- **C02 `cofactors`.** A terminal has none; for an inner node the pair returned are the edges
of `hi` and `lo`, which are `subset1` / `subset0` of the handle with respect to its top-most
VARIABLE `x = level_to_var(level(root))` — the documented reduced-domain reading: `hi` holds
under `ρ` iff `x` is false in `ρ` and the handle holds under `ρ[x ↦ 1]`; `lo` iff `x` is false and
the handle holds under `ρ`. -/
theorem cofactorsS_spec (o : Order) (hp : PermOK o) (s : Store) :
    cofactorsS s .empty = none ∧ cofactorsS s .base = none ∧
    ∀ (e : ZEdge) (l : Nat) (hi lo : ZDD), DenotesZ s e (.node l hi lo) →
      Ordered o.n 0 (.node l hi lo) →
      ∃ eh el, cofactorsS s e = some (eh, el) ∧ cofactorTrueS s e = some eh ∧
        cofactorFalseS s e = some el ∧ DenotesZ s eh hi ∧ DenotesZ s el lo ∧
        hi = subset .subset1 l (.node l hi lo) ∧ lo = subset .subset0 l (.node l hi lo) ∧
        ∀ ρ, evalV o ρ hi = (!ρ (o.var l) && evalV o (updV ρ (o.var l) true) (.node l hi lo)) ∧
             evalV o ρ lo = (!ρ (o.var l) && evalV o ρ (.node l hi lo)) := by
  refine ⟨rfl, rfl, ?_⟩
  intro e l hi lo hd hord
  cases hd with
  | @inner i _ eh el _ _ hi' hh hl =>
    have hz := fun σ => zbdd_cofactors o.n l hi lo hord σ
    refine ⟨eh, el, by simp [cofactorsS, hi'], by simp [cofactorTrueS, cofactorsS, hi'],
      by simp [cofactorFalseS, cofactorsS, hi'], hh, hl, (hz (fun _ => false)).1.symm,
      (hz (fun _ => false)).2.1.symm, fun ρ => ?_⟩
    obtain ⟨_, _, h3, h4⟩ := hz (fun k => ρ (o.var k))
    unfold evalV
    rw [updV_var o hp]
    exact ⟨h3, h4⟩

/-! ## node_count -/

/-- **C03 `node_count` (graph reading).** The number of distinct nodes reachable from the root
(terminals included), i.e. the length of any duplicate-free enumeration of the reachable ids. -/
theorem nodeCountS_reach (s : Store) (e : ZEdge) (t : ZDD) (hd : DenotesZ s e t) (fuel : Nat)
    (hf : t.size < fuel) (L : List ZEdge) (hL : L.Nodup)
    (hm : ∀ y, y ∈ L ↔ VisitS.Reach (kidsS s) e y) : nodeCountS s fuel e = L.length :=
  VisitS.count_unique (kidsS s) _ fuel e (ranked_of_denotes hd) (by rw [den_eq hd]; exact hf) L hL hm

/-- … independent of the order in which the children are visited -/
theorem nodeCountS_order_independent (s : Store) (e : ZEdge) (t : ZDD) (hd : DenotesZ s e t)
    (fuel : Nat) (hf : t.size < fuel) (kids' : ZEdge → List ZEdge)
    (h : ∀ x y, y ∈ kids' x ↔ y ∈ kidsS s x) :
    VisitS.count kids' fuel e = nodeCountS s fuel e :=
  VisitS.visit_order_independent (kidsS s) kids' _ h fuel e (ranked_of_denotes hd)
    (by rw [den_eq hd]; exact hf)

/-- **C03 `node_count` (tree reading).** In a duplicate-free store the count is the number of
distinct subterms of the denoted tree: there is a duplicate-free list of exactly the subterms with
that length, and every such list has that length. -/
theorem nodeCountS_spec (s : Store) (hu : s.Unique) (e : ZEdge) (t : ZDD) (hd : DenotesZ s e t)
    (fuel : Nat) (hf : t.size < fuel) :
    (∃ L : List ZDD, L.Nodup ∧ (∀ x, x ∈ L ↔ Subterm x t) ∧ nodeCountS s fuel e = L.length) ∧
    ∀ L : List ZDD, L.Nodup → (∀ x, x ∈ L ↔ Subterm x t) → nodeCountS s fuel e = L.length := by
  obtain ⟨hn, hm⟩ := VisitS.visit_count (kidsS s) _ fuel e (ranked_of_denotes hd)
    (by rw [den_eq hd]; exact hf)
  have hden : ∀ y, y ∈ VisitS.visit (kidsS s) fuel [] e → ∃ ty, Subterm ty t ∧ DenotesZ s y ty :=
    fun y hy => reach_denotes ((hm y).mp hy) hd
  have hL : ((VisitS.visit (kidsS s) fuel [] e).map (den s)).Nodup := by
    rw [List.Nodup, List.pairwise_map]
    refine List.Pairwise.imp_of_mem ?_ hn
    intro a b ha hb hab heq
    obtain ⟨ta, _, hta⟩ := hden a ha
    obtain ⟨tb, _, htb⟩ := hden b hb
    rw [den_eq hta, den_eq htb] at heq
    subst heq
    exact hab (inj_of_unique hu _ _ _ hta htb)
  have hmem : ∀ x, x ∈ (VisitS.visit (kidsS s) fuel [] e).map (den s) ↔ Subterm x t := by
    intro x
    rw [List.mem_map]
    constructor
    · rintro ⟨y, hy, rfl⟩
      obtain ⟨ty, hs, hty⟩ := hden y hy
      rw [den_eq hty]; exact hs
    · intro hs
      obtain ⟨y, hr, hy⟩ := subterm_reach hd x hs
      exact ⟨y, (hm y).mpr hr, den_eq hy⟩
  have hlen : nodeCountS s fuel e = ((VisitS.visit (kidsS s) fuel [] e).map (den s)).length := by
    rw [List.length_map]; rfl
  refine ⟨⟨_, hL, hmem, hlen⟩, fun L hLn hLm => ?_⟩
  rw [hlen]
  exact ((List.perm_ext_iff_of_nodup hL hLn).mpr (fun x => by rw [hmem, hLm])).length_eq

/-- … which is the tree-level `Zbdd.nodeCount` (the model behind the `zbdd` stream's
`node_count` lines) -/
theorem nodeCountS_eq_nodeCount (s : Store) (hu : s.Unique) (e : ZEdge) (t : ZDD)
    (hd : DenotesZ s e t) (fuel : Nat) (hf : t.size < fuel) : nodeCountS s fuel e = nodeCount t :=
  (nodeCountS_spec s hu e t hd fuel hf).2 _ (nodeCount_subtrees t).1 (nodeCount_subtrees t).2

/-- **C03, last clause.** Handles of normal-form diagrams of the same function of the variables
are the same edge, hence have the same node count. -/
theorem nodeCountS_canonical (o : Order) (hp : PermOK o) (s : Store) (hu : s.Unique)
    (e e' : ZEdge) (t t' : ZDD) (hd : DenotesZ s e t) (hd' : DenotesZ s e' t')
    (hnf : NF o.n 0 t) (hnf' : NF o.n 0 t') (hsem : ∀ ρ, evalV o ρ t = evalV o ρ t') (fuel : Nat) :
    nodeCountS s fuel e = nodeCountS s fuel e' ∧ e = e' := by
  have htt : t = t' := (zbdd_canonical o.n t t' hnf hnf').mpr (fun σ => by
    rw [← evalV_lvl o hp σ t, ← evalV_lvl o hp σ t']; exact hsem _)
  subst htt
  have := inj_of_unique hu _ _ _ hd hd'
  subst this
  exact ⟨rfl, rfl⟩

/-! ## satisfiable, valid -/

/-- **C02 `satisfiable` / `valid`** = `∃ ρ` / `∀ ρ` over assignments of the manager's variables
(`valid` compares with `tautology(0)` of the chain). -/
theorem satisfiableS_validS_spec (o : Order) (hp : PermOK o) (s : Store) (hu : s.Unique)
    (chain : List ZEdge) (hc : ChainOK o.n s chain) (e : ZEdge) (t : ZDD)
    (hd : DenotesZ s e t) (hnf : NF o.n 0 t) :
    (satisfiableS e = true ↔ ∃ ρ, evalV o ρ t = true) ∧
    (validS chain e = true ↔ ∀ ρ, evalV o ρ t = true) := by
  obtain ⟨h1, h2⟩ := zbdd_sat_valid o.n t hnf
  have ht : e = tautologyS chain 0 ↔ t = constT o.n := by
    have hd0 := tautologyS_denotes hc 0
    constructor
    · intro h; subst h; exact DenotesZ.functional hd hd0
    · intro h; subst h; exact inj_of_unique hu _ _ _ hd hd0
  constructor
  · simp only [satisfiableS, bne_iff_ne, ne_eq, hd.empty_iff]
    rw [← ne_eq]
    have : t ≠ .empty ↔ t ≠ constF := Iff.rfl
    rw [this, h1]
    constructor
    · rintro ⟨σ, hσ⟩; exact ⟨fun v => σ (o.lvl v), by rw [evalV_lvl o hp]; exact hσ⟩
    · rintro ⟨ρ, hρ⟩; exact ⟨_, hρ⟩
  · simp only [validS, beq_iff_eq, ht]
    rw [h2]
    constructor
    · intro h ρ; exact h _
    · intro h σ; rw [← evalV_lvl o hp σ t]; exact h _

/-! ## non-vacuity under the 3-cycle order -/

/-- a manager with three levels after `var(0)`: slots 0–2 the tautology chain (`tautology(2)`,
`tautology(1)`, `tautology(0)`), slot 3 = (level `var_to_level(0) = 1`; `tautology(2)`, ∅),
slot 4 = (level 0; #3, #3), the handle of variable 0 -/
def exStore : Store :=
  ⟨#[some ⟨2, .base, .base⟩, some ⟨1, .inner 0, .inner 0⟩, some ⟨0, .inner 1, .inner 1⟩,
     some ⟨1, .inner 0, .empty⟩, some ⟨0, .inner 3, .inner 3⟩]⟩

def exChain : List ZEdge := [.inner 2, .inner 1, .inner 0, .base]

theorem exStore_denotes : DenotesZ exStore (.inner 4) (var 3 (threeCycle.lvl 0)) :=
  .inner (i := 4) rfl
    (.inner (i := 3) rfl (.inner (i := 0) rfl .base .base) .empty)
    (.inner (i := 3) rfl (.inner (i := 0) rfl .base .base) .empty)

theorem exChain_ok : ChainOK 3 exStore exChain := by
  refine ⟨rfl, fun l hl => ?_⟩
  have t2 : DenotesZ exStore (.inner 0) (taut 3 2) := .inner (i := 0) rfl .base .base
  have t1 : DenotesZ exStore (.inner 1) (taut 3 1) := .inner (i := 1) rfl t2 t2
  have t0 : DenotesZ exStore (.inner 2) (taut 3 0) := .inner (i := 2) rfl t1 t1
  have hl' : l = 0 ∨ l = 1 ∨ l = 2 ∨ l = 3 := by omega
  rcases hl' with rfl | rfl | rfl | rfl
  · exact t0
  · exact t1
  · exact t2
  · exact .base

/-- `eval` of the handle of variable 0 (on level 1 under the 3-cycle order): true iff variable 0
is true — whatever the other variables are (don't-care chain above, tautology below) —, a variable
named twice takes its last value; variables not named are false; 5 nodes (3 inner + 2 terminals) -/
example :
    evalS threeCycle exStore 12 (.inner 4) [(0, false), (1, true), (0, true)] = true ∧
    evalS threeCycle exStore 12 (.inner 4) [(0, true), (2, true), (0, false)] = false ∧
    evalS threeCycle exStore 12 (.inner 4) [] = false ∧
    nodeCountS exStore 12 (.inner 4) = 5 ∧
    cofactorsS exStore (.inner 4) = some (.inner 3, .inner 3) ∧
    satisfiableS (.inner 4) = true ∧ validS exChain (.inner 4) = false ∧
    validS exChain (.inner 2) = true := by decide

example := evalS_spec threeCycle threeCycle_ok exStore (.inner 4) _
  [(0, false), (1, true), (0, true)] (by decide) exStore_denotes
  (var_nf 3 _ (by decide)).1 12 (by decide)
example := varS_spec threeCycle threeCycle_ok exChain exStore exChain_ok 2 (by decide)
example := singletonS_spec threeCycle threeCycle_ok exStore 2 (by decide)
example := nodeCountS_reach exStore (.inner 4) _ exStore_denotes 12 (by decide)

/-! ## negative witnesses -/

/-- `eval_edge` with `level_to_var` where `var_to_level` belongs -/
def evalS_l2v (o : Order) (s : Store) (fuel : Nat) (e : ZEdge) (args : List (Nat × Bool)) : Bool :=
  let st := args.foldl (fun st a => fillStep st (o.var a.1) a.2) (Array.replicate o.n false, 0)
  walkS s st.1 fuel st.2 e

/-- `eval_edge` without the counter of ones (a plain BDD walk): skipped levels are not checked -/
def evalS_noOnes (o : Order) (s : Store) (fuel : Nat) (e : ZEdge) (args : List (Nat × Bool)) :
    Bool :=
  walkS s (fill o args).1 fuel 0 e

/-- Under the 3-cycle order the handle of variable 0 evaluates, with the wrong map, to the value
given for another variable; `var` / `singleton` with the wrong map denote the projection on /
the singleton of another variable; without the `ones` counter the singleton `{{2}}` (slot 0 of
`sgStore`, level 0) accepts an assignment in which variable 0 is true as well. -/
theorem wrong_map_fails :
    let args := [(0, false), (1, true), (2, true)]
    evalS threeCycle exStore 12 (.inner 4) args = false ∧ rhoArgs args 0 = false ∧
    evalS_l2v threeCycle exStore 12 (.inner 4) args = true ∧
    (∀ chain s, ChainOK 3 s chain →
      DenotesZ (varS_l2v threeCycle chain s 0).1 (varS_l2v threeCycle chain s 0).2
        (var 3 (threeCycle.var 0))) ∧
    evalV threeCycle (rhoArgs args) (var 3 (threeCycle.var 0)) ≠ rhoArgs args 0 ∧
    (∀ s, DenotesZ (singletonS_l2v threeCycle s 0).1 (singletonS_l2v threeCycle s 0).2
      (singleton (threeCycle.var 0))) ∧
    evalV threeCycle (fun v => v == 0) (singleton (threeCycle.var 0)) = false ∧
    evalV threeCycle (fun v => v == 0) (singleton (threeCycle.lvl 0)) = true ∧
    (let sg : Store := ⟨#[some ⟨0, .base, .empty⟩]⟩
     evalS threeCycle sg 3 (.inner 0) [(2, true), (0, true)] = false ∧
     evalS_noOnes threeCycle sg 3 (.inner 0) [(2, true), (0, true)] = true) :=
  ⟨by decide, by decide, by decide,
    fun chain s hc => (varAt_spec 3 chain s hc _).2.2, by decide,
    fun s => getOrInsert_denotes s _ .base .empty _ _ .base .empty, by decide, by decide,
    by decide⟩

end OxiddModel.Zbdd.QueriesS
