import OxiddModel.Zbdd.ChainS
import OxiddModel.Zbdd.Properties
import OxiddModel.Util.OrderS
import OxiddModel.Util.VisitS

/-!
# The read-only queries of the ZBDD rules at STORE level, under a variable order

Store-level counterparts (nodes hold LEVELS, the caller names VARIABLES, `OrderS.Order`
translates) of

* `eval_edge` (`crates/oxidd-rules-zbdd/src/apply_rec.rs`): a bit set `values` per LEVEL and a
  counter `ones`; for every `(var, val)` in order, `level = var_to_level(var)`,
  `if values.contains(level) != val { values.set(level, val); ones += if val {1} else {-1} }`
  (`fillStep`, `fill`); then the walk `node.child((!val) as usize)` with `ones - val as usize`,
  answering `ones == 0 && t == Base` at a terminal (`walkS`). A skipped level means that its
  variable must be false: every variable that is true has to be met on the path;
* `var_edge`: the node `(var_to_level(var); tautology(level + 1), ∅)` below the don't-care chain
  over the levels above (`varS`, with `tautologyS` of `ChainS.lean`); `singleton_edge`:
  `get_or_insert` of `(var_to_level(var); Base, ∅)` (`singletonS`);
* `cofactors_edge`: the two children (`hi`, `lo`) — `subset1` / `subset0` of the top-most
  variable in the reduced-domain reading;
* `Function::node_count` (`nodeCountS`; the two terminals are nodes with their own ids);
* `satisfiable` / `valid`: comparison with `∅` / `tautology(0)`.

`evalV o ρ t` is the Boolean function over the `o.n` VARIABLES of the manager denoted by the tree
`t` (membership of the 1-set of `ρ` in the family).
-/
namespace OxiddModel.Zbdd.QueriesS
open OxiddModel.Zbdd OxiddModel.Zbdd.ZDD OxiddModel.Zbdd.Refine OxiddModel.OrderS OxiddModel

/-! ## denotation over variables -/

/-- the Boolean function over the manager's variables denoted by a tree over levels -/
def evalV (o : Order) (ρ : Nat → Bool) (t : ZDD) : Bool := fam o.n t (fun l => ρ (o.var l))

theorem evalV_lvl (o : Order) (hp : PermOK o) (σ : Nat → Bool) (t : ZDD) :
    evalV o (fun v => σ (o.lvl v)) t = fam o.n t σ := by
  unfold evalV
  congr 1
  funext l
  show σ (o.lvl (o.var l)) = σ l
  rw [hp.lvl_var]

theorem updV_var (o : Order) (hp : PermOK o) (ρ : Nat → Bool) (l : Nat) (b : Bool) :
    (fun k => updV ρ (o.var l) b (o.var k)) = upd (fun k => ρ (o.var k)) l b := by
  funext k
  simp only [updV, upd]
  by_cases e : k = l
  · subst e; simp
  · have : ¬ o.var k = o.var l := fun h => e (hp.var_inj h)
    simp [e, this]

/-! ## counting ones -/

theorem countOnes_congr (σ τ : Nat → Bool) (c k : Nat) (h : ∀ i, k ≤ i → i < k + c → σ i = τ i) :
    countOnes σ c k = countOnes τ c k := by
  induction c generalizing k with
  | zero => rfl
  | succ c ih =>
    simp only [countOnes]
    rw [h k (Nat.le_refl _) (by omega), ih (k+1) (fun i h1 h2 => h i (by omega) (by omega))]

theorem ones_congr (σ τ : Nat → Bool) (k n : Nat) (h : ∀ i, k ≤ i → i < n → σ i = τ i) :
    ones σ k n = ones τ k n :=
  countOnes_congr σ τ _ _ (fun i h1 h2 => h i h1 (by omega))

/-- changing one entry of the table changes the number of ones accordingly -/
theorem ones_upd (σ : Nat → Bool) (l n : Nat) (b : Bool) (hl : l < n) :
    ones (upd σ l b) 0 n + (if σ l then 1 else 0) = ones σ 0 n + (if b then 1 else 0) := by
  rw [ones_split σ (Nat.zero_le l) (Nat.le_of_lt hl), ones_step σ hl,
    ones_split (upd σ l b) (Nat.zero_le l) (Nat.le_of_lt hl), ones_step (upd σ l b) hl,
    ones_congr (upd σ l b) σ 0 l (fun i _ h2 => upd_ne σ b (by omega)),
    ones_congr (upd σ l b) σ (l+1) n (fun i h1 _ => upd_ne σ b (by omega)), upd_same]
  omega

/-! ## `eval_edge` -/

/-- one iteration of the loop over `args` -/
def fillStep (st : Array Bool × Nat) (level : Nat) (val : Bool) : Array Bool × Nat :=
  if st.1.getD level false != val then
    (st.1.setIfInBounds level val, if val then st.2 + 1 else st.2 - 1)
  else st

/-- the loop: `values` zeroed with one bit per level, `ones = 0` -/
def fill (o : Order) (args : List (Nat × Bool)) : Array Bool × Nat :=
  args.foldl (fun st a => fillStep st (o.lvl a.1) a.2) (Array.replicate o.n false, 0)

/-- `inner(manager, edge, values, ones)` -/
def walkS (s : Store) (values : Array Bool) : Nat → Nat → ZEdge → Bool
  | 0, _, _ => false
  | _+1, _, .empty => false
  | _+1, ones, .base => ones == 0
  | fuel+1, ones, .inner i =>
    match s.get? i with
    | none => false -- dangling edge (excluded by `DenotesZ`)
    | some n =>
      let val := values.getD n.level false
      walkS s values fuel (ones - (if val then 1 else 0)) (if val then n.hi else n.lo)

/-- `eval_edge(manager, edge, args)` -/
def evalS (o : Order) (s : Store) (fuel : Nat) (e : ZEdge) (args : List (Nat × Bool)) : Bool :=
  walkS s (fill o args).1 fuel (fill o args).2 e

/-- the assignment described by an argument list (last value counts; not named: `false`) -/
def rhoArgs (args : List (Nat × Bool)) : Nat → Bool := argVal false args

theorem getD_setIfInBounds (t : Array Bool) (l k : Nat) (x : Bool) (hl : l < t.size) :
    (t.setIfInBounds l x).getD k false = if k = l then x else t.getD k false := by
  simp only [Array.getD_eq_getD_getElem?, Array.getElem?_setIfInBounds]
  by_cases e : k = l
  · subst e; simp [hl]
  · have : ¬ l = k := fun h => e h.symm
    simp [e, this]

/-- the table as a function of the level -/
def tbl (st : Array Bool × Nat) : Nat → Bool := fun l => st.1.getD l false

/-- the loop invariant: one bit per level, `ones` is the number of bits set
(`debug_assert_eq!(values.count_ones(..), ones)`) -/
def FillOK (n : Nat) (st : Array Bool × Nat) : Prop := st.1.size = n ∧ st.2 = ones (tbl st) 0 n

theorem fillStep_tbl (n : Nat) (st : Array Bool × Nat) (l : Nat) (x : Bool) (k : Nat) (hl : l < n)
    (h : FillOK n st) : tbl (fillStep st l x) k = if k = l then x else tbl st k := by
  unfold fillStep tbl
  split
  · exact getD_setIfInBounds _ _ _ _ (by rw [h.1]; exact hl)
  · rename_i hne
    by_cases e : k = l
    · subst e
      simp only [if_true]
      cases hv : st.1.getD k false <;> cases x <;> simp_all
    · simp [e]

theorem fillStep_ok (n : Nat) (st : Array Bool × Nat) (l : Nat) (x : Bool) (hl : l < n)
    (h : FillOK n st) : FillOK n (fillStep st l x) := by
  have htbl : tbl (fillStep st l x) = upd (tbl st) l x := by
    funext k; rw [fillStep_tbl n st l x k hl h]; rfl
  refine ⟨?_, ?_⟩
  · unfold fillStep; split
    · simpa using h.1
    · exact h.1
  · rw [htbl]
    have hu := ones_upd (tbl st) l n x hl
    unfold fillStep
    split
    · rename_i hne
      simp only
      rw [h.2]
      have hne' : tbl st l ≠ x := by simpa [tbl] using hne
      cases x <;> cases hv : tbl st l <;> simp_all <;> omega
    · rename_i hne
      have heq : tbl st l = x := by simpa [tbl] using hne
      rw [h.2]
      cases x <;> cases hv : tbl st l <;> simp_all

/-- the decrement never underflows (`wrapping_add_signed(-1)` is applied to a positive count) -/
theorem fillStep_no_underflow (n : Nat) (st : Array Bool × Nat) (l : Nat) (hl : l < n)
    (h : FillOK n st) (hset : st.1.getD l false = true) : 0 < st.2 := by
  have hu := ones_upd (tbl st) l n false hl
  have : tbl st l = true := hset
  rw [h.2]
  simp [this] at hu
  omega

theorem fill_ok (o : Order) (hp : PermOK o) (args : List (Nat × Bool))
    (hargs : ∀ a ∈ args, a.1 < o.n) : FillOK o.n (fill o args) := by
  unfold fill
  refine table_fill_ok o hp fillStep (FillOK o.n) (fun t l x hl ht => fillStep_ok o.n t l x hl ht)
    args hargs _ ⟨by simp, ?_⟩
  have h0 : tbl (Array.replicate o.n false, 0) = fun _ => false := by
    funext l
    simp only [tbl, Array.getD_eq_getD_getElem?, Array.getElem?_replicate]
    split <;> rfl
  rw [h0]
  symm
  exact (ones_zero_iff _ 0 o.n).mpr (allFalse_zero 0 o.n)

/-- the bit of level `l` after the loop is the value of the variable on that level -/
theorem fill_get (o : Order) (hp : PermOK o) (args : List (Nat × Bool))
    (hargs : ∀ a ∈ args, a.1 < o.n) (l : Nat) :
    tbl (fill o args) l = rhoArgs args (o.var l) := by
  unfold fill rhoArgs argVal
  refine table_fill o hp fillStep (fun t l => tbl t l) (fun x => x) (FillOK o.n)
    (fun t l x hl ht => fillStep_ok o.n t l x hl ht)
    (fun t l x k hl ht => fillStep_tbl o.n t l x k hl ht)
    args hargs _ false l ⟨by simp, ?_⟩ ?_
  · have h0 : tbl (Array.replicate o.n false, 0) = fun _ => false := by
      funext l
      simp only [tbl, Array.getD_eq_getD_getElem?, Array.getElem?_replicate]
      split <;> rfl
    rw [h0]
    symm
    exact (ones_zero_iff _ 0 o.n).mpr (allFalse_zero 0 o.n)
  · simp only [tbl, Array.getD_eq_getD_getElem?, Array.getElem?_replicate]
    split <;> rfl

/-- the store walk is the tree-level `walk` of the denoted tree -/
theorem walkS_eq (s : Store) (values : Array Bool) (σ : Nat → Bool)
    (h : ∀ l, values.getD l false = σ l) {e : ZEdge} {t : ZDD} (hd : DenotesZ s e t) :
    ∀ fuel c, t.size ≤ fuel → walkS s values fuel c e = walk σ t c := by
  induction hd with
  | empty =>
    intro fuel c hf
    cases fuel with
    | zero => simp [ZDD.size] at hf
    | succ fuel => rfl
  | base =>
    intro fuel c hf
    cases fuel with
    | zero => simp [ZDD.size] at hf
    | succ fuel => rfl
  | @inner i l eh el th tl hi _ _ ihh ihl =>
    intro fuel c hf
    cases fuel with
    | zero => simp [ZDD.size] at hf
    | succ fuel =>
      simp only [ZDD.size] at hf
      simp only [walkS, hi, h l, walk]
      cases σ l
      · simp only [Bool.false_eq_true, if_false, Nat.sub_zero]
        exact ihl fuel c (by omega)
      · simp only [if_true]
        exact ihh fuel (c - 1) (by omega)

/-- along the path of the walk, `ones - val as usize` is never applied to `ones = 0` with
`val = true` -/
def NoUnderflow (σ : Nat → Bool) : ZDD → Nat → Prop
  | .node l hi lo, c => if σ l then 0 < c ∧ NoUnderflow σ hi (c - 1) else NoUnderflow σ lo c
  | _, _ => True

theorem walk_no_underflow {n k : Nat} {t : ZDD} (σ : Nat → Bool) (ht : Ordered n k t) :
    ∀ c, ones σ k n ≤ c → NoUnderflow σ t c := by
  induction ht with
  | empty => intro c _; trivial
  | base => intro c _; trivial
  | @node k l hi lo h1 h2 _ _ ihh ihl =>
    intro c hc
    have e1 := ones_split σ h1 (Nat.le_of_lt h2)
    have e2 := ones_step σ h2
    simp only [NoUnderflow]
    cases hσ : σ l
    · simp only [hσ, Bool.false_eq_true, if_false] at e2 ⊢
      exact ihl c (by omega)
    · simp only [hσ, if_true] at e2 ⊢
      exact ⟨by omega, ihh (c - 1) (by omega)⟩

/-! ## `var_edge`, `singleton_edge` -/

/-- the loop building the don't-care chain over the levels `level - 1, …, 0` -/
def varLoopS : Nat → Store → ZEdge → Store × ZEdge
  | 0, s, e => (s, e)
  | l+1, s, e =>
    let r := s.getOrInsert ⟨l, e, e⟩
    varLoopS l r.1 r.2

/-- `var_edge` (`chain` = `ZBDDCache::tautologies`) -/
def varS (o : Order) (chain : List ZEdge) (s : Store) (v : Nat) : Store × ZEdge :=
  let level := o.lvl v
  let r := s.getOrInsert ⟨level, tautologyS chain (level + 1), .empty⟩
  varLoopS level r.1 r.2

/-- `singleton_edge` -/
def singletonS (o : Order) (s : Store) (v : Nat) : Store × ZEdge :=
  let level := o.lvl v
  s.getOrInsert ⟨level, .base, .empty⟩

/-- the same with `level_to_var` where `var_to_level` belongs (seeded
`C02-zbdd-var-level-confusion`) -/
def varS_l2v (o : Order) (chain : List ZEdge) (s : Store) (v : Nat) : Store × ZEdge :=
  let level := o.var v
  let r := s.getOrInsert ⟨level, tautologyS chain (level + 1), .empty⟩
  varLoopS level r.1 r.2
def singletonS_l2v (o : Order) (s : Store) (v : Nat) : Store × ZEdge :=
  s.getOrInsert ⟨o.var v, .base, .empty⟩

theorem varLoopS_spec : ∀ (l : Nat) (s : Store) (e : ZEdge) (t : ZDD), DenotesZ s e t →
    s.Le (varLoopS l s e).1 ∧ (s.Unique → (varLoopS l s e).1.Unique) ∧
    DenotesZ (varLoopS l s e).1 (varLoopS l s e).2 (dcChain l t) := by
  intro l
  induction l with
  | zero => intro s e t hd; exact ⟨Store.Le.refl _, id, hd⟩
  | succ l ih =>
    intro s e t hd
    simp only [varLoopS, dcChain]
    obtain ⟨h1, h2, h3⟩ := ih _ _ _ (getOrInsert_denotes s l e e t t hd hd)
    exact ⟨(getOrInsert_le s _).trans h1, fun hu => h2 (getOrInsert_unique s _ hu), h3⟩

/-! ## `cofactors_edge` -/

/-- `cofactors_edge`: `None` for a terminal, else `(hi, lo)` -/
def cofactorsS (s : Store) : ZEdge → Option (ZEdge × ZEdge)
  | .inner i => (s.get? i).map fun n => (n.hi, n.lo)
  | _ => none

def cofactorTrueS (s : Store) (e : ZEdge) : Option ZEdge := (cofactorsS s e).map (·.1)
def cofactorFalseS (s : Store) (e : ZEdge) : Option ZEdge := (cofactorsS s e).map (·.2)

/-! ## `node_count` -/

/-- ids of the children in iteration order (hi, lo); terminals have none -/
def kidsS (s : Store) : ZEdge → List ZEdge
  | .inner i =>
    match s.get? i with
    | none => []
    | some n => [n.hi, n.lo]
  | _ => []

/-- `Function::node_count` -/
def nodeCountS (s : Store) (fuel : Nat) (e : ZEdge) : Nat := VisitS.count (kidsS s) fuel e

/-- `x` is a node of the diagram of `t` (terminals included) -/
def Subterm (x : ZDD) : ZDD → Prop
  | .node l hi lo => x = .node l hi lo ∨ Subterm x hi ∨ Subterm x lo
  | t => x = t

theorem Subterm.refl (t : ZDD) : Subterm t t := by
  cases t with
  | node => exact .inl rfl
  | empty => rfl
  | base => rfl

theorem Subterm.size_le {x t : ZDD} (h : Subterm x t) : x.size ≤ t.size := by
  induction t with
  | empty => cases h; exact Nat.le_refl _
  | base => cases h; exact Nat.le_refl _
  | node l hi lo ihh ihl =>
    rcases h with rfl | h | h
    · exact Nat.le_refl _
    · have := ihh h; simp only [ZDD.size]; omega
    · have := ihl h; simp only [ZDD.size]; omega

theorem Subterm.trans {a b c : ZDD} (hab : Subterm a b) (hbc : Subterm b c) : Subterm a c := by
  induction c with
  | empty => cases hbc; exact hab
  | base => cases hbc; exact hab
  | node l hi lo ihh ihl =>
    rcases hbc with rfl | h | h
    · exact hab
    · exact .inr (.inl (ihh h))
    · exact .inr (.inr (ihl h))

/-- a list of trees is closed under taking subterms -/
def SubClosed (acc : List ZDD) : Prop := ∀ x ∈ acc, ∀ y, Subterm y x → y ∈ acc

/-- the invariant of the tree-level accumulating traversal `subtrees` (behind `Zbdd.nodeCount`) -/
theorem subtrees_spec (f : ZDD) : ∀ acc : List ZDD, acc.Nodup → SubClosed acc →
    (subtrees f acc).Nodup ∧ SubClosed (subtrees f acc) ∧
      ∀ x, x ∈ subtrees f acc ↔ x ∈ acc ∨ Subterm x f := by
  induction f with
  | empty =>
    intro acc hn hc
    simp only [subtrees]
    split
    · rename_i h
      rw [List.contains_iff_mem] at h
      refine ⟨hn, hc, fun x => ⟨.inl, ?_⟩⟩
      rintro (h' | h')
      · exact h'
      · cases h'; exact h
    · rename_i h
      rw [List.contains_iff_mem] at h
      refine ⟨List.nodup_cons.mpr ⟨h, hn⟩, ?_, ?_⟩
      · intro x hx y hy
        rcases List.mem_cons.mp hx with rfl | hx
        · cases hy; exact List.mem_cons_self ..
        · exact List.mem_cons_of_mem _ (hc x hx y hy)
      · intro x
        simp only [List.mem_cons, Subterm]
        constructor
        · rintro (h' | h')
          · exact .inr h'
          · exact .inl h'
        · rintro (h' | h')
          · exact .inr h'
          · exact .inl h'
  | base =>
    intro acc hn hc
    simp only [subtrees]
    split
    · rename_i h
      rw [List.contains_iff_mem] at h
      refine ⟨hn, hc, fun x => ⟨.inl, ?_⟩⟩
      rintro (h' | h')
      · exact h'
      · cases h'; exact h
    · rename_i h
      rw [List.contains_iff_mem] at h
      refine ⟨List.nodup_cons.mpr ⟨h, hn⟩, ?_, ?_⟩
      · intro x hx y hy
        rcases List.mem_cons.mp hx with rfl | hx
        · cases hy; exact List.mem_cons_self ..
        · exact List.mem_cons_of_mem _ (hc x hx y hy)
      · intro x
        simp only [List.mem_cons, Subterm]
        constructor
        · rintro (h' | h')
          · exact .inr h'
          · exact .inl h'
        · rintro (h' | h')
          · exact .inr h'
          · exact .inl h'
  | node l t e iht ihe =>
    intro acc hn hc
    simp only [subtrees]
    split
    · rename_i h
      rw [List.contains_iff_mem] at h
      refine ⟨hn, hc, fun x => ⟨.inl, ?_⟩⟩
      rintro (h' | h')
      · exact h'
      · exact hc _ h x h'
    · rename_i h
      rw [List.contains_iff_mem] at h
      obtain ⟨n1, c1, m1⟩ := iht acc hn hc
      obtain ⟨n2, c2, m2⟩ := ihe (subtrees t acc) n1 c1
      have hnot : ZDD.node l t e ∉ subtrees e (subtrees t acc) := by
        intro hm
        rcases (m2 _).mp hm with hm | hm
        · rcases (m1 _).mp hm with hm | hm
          · exact h hm
          · have := hm.size_le; simp only [ZDD.size] at this; omega
        · have := hm.size_le; simp only [ZDD.size] at this; omega
      refine ⟨List.nodup_cons.mpr ⟨hnot, n2⟩, ?_, ?_⟩
      · intro x hx y hy
        rcases List.mem_cons.mp hx with rfl | hx
        · rcases hy with rfl | hy | hy
          · exact List.mem_cons_self ..
          · exact List.mem_cons_of_mem _ ((m2 y).mpr (.inl ((m1 y).mpr (.inr hy))))
          · exact List.mem_cons_of_mem _ ((m2 y).mpr (.inr hy))
        · exact List.mem_cons_of_mem _ (c2 x hx y hy)
      · intro x
        simp only [List.mem_cons, Subterm, m2, m1]
        constructor
        · rintro (h' | (h' | h') | h')
          · exact .inr (.inl h')
          · exact .inl h'
          · exact .inr (.inr (.inl h'))
          · exact .inr (.inr (.inr h'))
        · rintro (h' | h' | h' | h')
          · exact .inr (.inl (.inl h'))
          · exact .inl h'
          · exact .inr (.inl (.inr h'))
          · exact .inr (.inr h')

/-- `Zbdd.nodeCount` is the number of distinct subterms -/
theorem nodeCount_subtrees (f : ZDD) :
    (subtrees f []).Nodup ∧ (∀ x, x ∈ subtrees f [] ↔ Subterm x f) := by
  obtain ⟨h1, _, h3⟩ := subtrees_spec f [] List.nodup_nil (fun x hx => by cases hx)
  exact ⟨h1, fun x => by simp [h3 x]⟩

open Classical in
/-- the tree an edge denotes, as a (noncomputable) function -/
noncomputable def den (s : Store) (e : ZEdge) : ZDD :=
  if h : ∃ t, DenotesZ s e t then Classical.choose h else .empty

theorem den_eq {s : Store} {e : ZEdge} {t : ZDD} (h : DenotesZ s e t) : den s e = t := by
  have hex : ∃ t, DenotesZ s e t := ⟨t, h⟩
  unfold den
  rw [dif_pos hex]
  exact DenotesZ.functional (Classical.choose_spec hex) h

theorem reach_denotes {s : Store} {e y : ZEdge} (hr : VisitS.Reach (kidsS s) e y) :
    ∀ {t : ZDD}, DenotesZ s e t → ∃ ty, Subterm ty t ∧ DenotesZ s y ty := by
  induction hr with
  | refl => intro t hd; exact ⟨t, Subterm.refl t, hd⟩
  | @step x k z hk _ ih =>
    intro t hd
    cases hd with
    | empty => simp [kidsS] at hk
    | base => simp [kidsS] at hk
    | @inner i l a b ta tb hi ha hb =>
      simp only [kidsS, hi, List.mem_cons, List.not_mem_nil, or_false] at hk
      rcases hk with rfl | rfl
      · obtain ⟨ty, hs, hy⟩ := ih ha
        exact ⟨ty, .inr (.inl hs), hy⟩
      · obtain ⟨ty, hs, hy⟩ := ih hb
        exact ⟨ty, .inr (.inr hs), hy⟩

theorem subterm_reach {s : Store} {e : ZEdge} {t : ZDD} (hd : DenotesZ s e t) :
    ∀ ty, Subterm ty t → ∃ y, VisitS.Reach (kidsS s) e y ∧ DenotesZ s y ty := by
  induction hd with
  | empty => intro ty hs; cases hs; exact ⟨_, .refl, .empty⟩
  | base => intro ty hs; cases hs; exact ⟨_, .refl, .base⟩
  | @inner i l a b ta tb hi ha hb iha ihb =>
    intro ty hs
    rcases hs with rfl | hs | hs
    · exact ⟨_, .refl, .inner hi ha hb⟩
    · obtain ⟨y, hr, hy⟩ := iha ty hs
      exact ⟨y, .step (by simp [kidsS, hi]) hr, hy⟩
    · obtain ⟨y, hr, hy⟩ := ihb ty hs
      exact ⟨y, .step (by simp [kidsS, hi]) hr, hy⟩

theorem ranked_of_denotes {s : Store} {e : ZEdge} {t : ZDD} (hd : DenotesZ s e t) :
    VisitS.Ranked (kidsS s) (fun x => (den s x).size) e := by
  intro y hy z hz
  obtain ⟨ty, _, hty⟩ := reach_denotes hy hd
  cases hty with
  | empty => simp [kidsS] at hz
  | base => simp [kidsS] at hz
  | @inner i l a b ta tb hi ha hb =>
    simp only [kidsS, hi, List.mem_cons, List.not_mem_nil, or_false] at hz
    show (den s z).size < (den s (.inner i)).size
    rw [den_eq (.inner hi ha hb)]
    rcases hz with rfl | rfl
    · rw [den_eq ha]; simp only [ZDD.size]; omega
    · rw [den_eq hb]; simp only [ZDD.size]; omega

/-! ## `satisfiable`, `valid` -/

/-- `edge != f_edge(manager)` (`f_edge` = the terminal `Empty`) -/
def satisfiableS (e : ZEdge) : Bool := e != .empty

/-- `edge == t_edge(manager)` (`t_edge` = `tautology(0)`) -/
def validS (chain : List ZEdge) (e : ZEdge) : Bool := e == tautologyS chain 0

end OxiddModel.Zbdd.QueriesS
