import OxiddModel.Zbdd.ThreadsRun
import OxiddModel.Zbdd.RcSLemmasInv
import OxiddModel.Zbdd.RcSLemmas

/-!
# The ZBDD interleaving machine with reference counters as shared state

`Zbdd/Threads.lean` interleaves the atomic actions of `apply_union/intsec/diff/symm_diff` on the
shared state `St` (unique table, apply cache, time stamp). This file adds the **counters**: the
shared state is `Rc.RSt` (`St` + one counter per slot, `Zbdd/RcS.lean`), and every step of a task
does to the counters what the Rust code does at that point (reference: the sequential counted
model `Rc.setOpR / Rc.setBodyR / Rc.forkR / Rc.mkNodeR / Rc.mkNodeBR` of `Zbdd/RcS.lean`, tied to
the code by the stream `zbdd-rcstore`):

* a `call` that returns at once — a terminal case (`clone_edge(f|g)` or the static `Empty`
  terminal) or a **cache hit** — returns an *owned* edge: `clone_edge` (terminals have no
  counter). For a hit the `retain` happens inside `ApplyCache::get`, under the bucket lock: one
  atomic action together with the lookup;
* operands of recursive calls, children read from operand nodes and cache keys are **borrowed**;
* `seq0 fr r1 _` owns `r1` (`EdgeDropGuard`), a finished sub-task owns its result, `made _ r` owns
  `r`; the `hi` edge kept by a one-sided frame `one key (some (l, hi)) _` is **borrowed** (a child
  of an operand's node) (`Task.owned`);
* `reduce` consumes both owned children — one atomic action `mkNodeU` = `Rc.mkNodeR` with a free
  slot always available; `reduce_borrowed` (`mkNodeBU` = `Rc.mkNodeBR`) clones the borrowed `hi`
  first (unless it is `Empty`) and consumes the owned `lo`; unique-table hit: the rejected node's
  children are dropped and the found node is retained, all inside `get_or_insert` under the
  level's mutex; miss: the children move into the new node, `rc = 2`;
* `apply_cache().add` stores borrowed edges: no counter operation.

`Task.rstep_erase`: forgetting the counters, a step of this machine **is** the step of
`Threads.lean`. `Task.rstep_rc`: every step keeps the counters **exact** (`Rc.RcInv r ext`).
Out of memory is not modelled (as in `Threads.lean`).
-/
namespace OxiddModel.Zbdd.Threads
open OxiddModel.Zbdd OxiddModel.Zbdd.ZDD OxiddModel.Zbdd.Refine OxiddModel.Zbdd.Rc
open OxiddModel.Bdd.Refine (Policy OpTag Key Cache)

/-- the edges a task **owns** (each is counted in its target node's `rc`) -/
def Task.owned : Task → List ZEdge
  | .call _ _ => []
  | .miss _ _ => []
  | .one _ _ t0 => t0.owned
  | .seq1 _ _ t1 => t1.owned
  | .seq0 _ r1 t0 => r1 :: t0.owned
  | .par _ t1 t0 => t1.owned ++ t0.owned
  | .made _ r => [r]
  | .ret r => [r]

theorem rcInv_perm {r : RSt} {ext ext' : List ZEdge} (h : RcInv r ext) (hp : ext.Perm ext') :
    RcInv r ext' := h.congr (fun e => hp.count_eq e)

/-- `reduce` with a free slot always available -/
def mkNodeU (r : RSt) (l : Nat) (t e : ZEdge) : ZEdge × RSt :=
  (((mkNodeR (count r.st.store + 1) r l t e).1).getD t, (mkNodeR (count r.st.store + 1) r l t e).2)

/-- `reduce_borrowed` with a free slot always available -/
def mkNodeBU (r : RSt) (l : Nat) (t e : ZEdge) : ZEdge × RSt :=
  (((mkNodeBR (count r.st.store + 1) r l t e).1).getD t,
    (mkNodeBR (count r.st.store + 1) r l t e).2)

theorem insertR_some (r r' : RSt) (hs : r'.st.store = r.st.store) (l : Nat) (t e : ZEdge) :
    ∃ x, (insertR (count r.st.store + 1) r' l t e).1 = some x := by
  unfold insertR
  rw [hs]
  cases r.st.store.find? ⟨l, t, e⟩ with
  | some i => exact ⟨_, rfl⟩
  | none => simp

theorem mkNodeU_some (r : RSt) (l : Nat) (t e : ZEdge) :
    (mkNodeR (count r.st.store + 1) r l t e).1 = some (mkNodeU r l t e).1 := by
  unfold mkNodeU
  have : ∃ x, (mkNodeR (count r.st.store + 1) r l t e).1 = some x := by
    unfold mkNodeR
    by_cases ht : t = .empty
    · simp [ht]
    · simp only [ht, if_false]; exact insertR_some r r rfl l t e
  obtain ⟨x, hx⟩ := this
  rw [hx]; rfl

theorem mkNodeBU_some (r : RSt) (l : Nat) (t e : ZEdge) :
    (mkNodeBR (count r.st.store + 1) r l t e).1 = some (mkNodeBU r l t e).1 := by
  unfold mkNodeBU
  have : ∃ x, (mkNodeBR (count r.st.store + 1) r l t e).1 = some x := by
    unfold mkNodeBR
    by_cases ht : t = .empty
    · simp [ht]
    · simp only [ht, if_false]; exact insertR_some r _ (by rw [cloneEdge_st]) l t e
  obtain ⟨x, hx⟩ := this
  rw [hx]; rfl

/-- forgetting the counters, `mkNodeU` is `mkS` (= `mkNodeZ` on the store) -/
theorem mkNodeU_erase (r : RSt) (l : Nat) (t e : ZEdge) :
    (mkNodeU r l t e).2.st = (mkS r.st l t e).1 ∧ (mkNodeU r l t e).1 = (mkS r.st l t e).2 := by
  have h := mkNodeR_erase (mkNodeU_some r l t e)
  have h2 : (mkNodeU r l t e).2 = (mkNodeR (count r.st.store + 1) r l t e).2 := rfl
  rw [h, h2]; exact ⟨rfl, rfl⟩

theorem mkNodeBU_erase (r : RSt) (l : Nat) (t e : ZEdge) :
    (mkNodeBU r l t e).2.st = (mkS r.st l t e).1 ∧ (mkNodeBU r l t e).1 = (mkS r.st l t e).2 := by
  have h := mkNodeBR_erase (mkNodeBU_some r l t e)
  have h2 : (mkNodeBU r l t e).2 = (mkNodeBR (count r.st.store + 1) r l t e).2 := rfl
  rw [h, h2]; exact ⟨rfl, rfl⟩

/-- `mkNodeU` keeps the counters exact: the two owned children are consumed, the result is owned -/
theorem mkNodeU_rc {r : RSt} {l : Nat} {t e : ZEdge} {ext : List ZEdge}
    (h : RcInv r (t :: e :: ext)) : RcInv (mkNodeU r l t e).2 ((mkNodeU r l t e).1 :: ext) := by
  have := mkNodeR_rc (cap := count r.st.store + 1) (l := l) h
  have hs := mkNodeU_some r l t e
  have h2 : (mkNodeU r l t e).2 = (mkNodeR (count r.st.store + 1) r l t e).2 := rfl
  rw [h2]
  generalize mkNodeR (count r.st.store + 1) r l t e = m at this hs
  obtain ⟨o, r'⟩ := m
  simp only at hs
  subst hs
  exact this

/-- `mkNodeBU` keeps the counters exact: `hi` borrowed (stored), the owned `lo` is consumed -/
theorem mkNodeBU_rc {r : RSt} {l : Nat} {t e : ZEdge} {ext : List ZEdge}
    (h : RcInv r (e :: ext)) (ht : has r.st.store t) :
    RcInv (mkNodeBU r l t e).2 ((mkNodeBU r l t e).1 :: ext) := by
  have := mkNodeBR_rc (cap := count r.st.store + 1) (l := l) h ht
  have hs := mkNodeBU_some r l t e
  have h2 : (mkNodeBU r l t e).2 = (mkNodeBR (count r.st.store + 1) r l t e).2 := rfl
  rw [h2]
  generalize mkNodeBR (count r.st.store + 1) r l t e = m at this hs
  obtain ⟨o, r'⟩ := m
  simp only at hs
  subst hs
  exact this

/-- a cache add does not touch store or counters -/
theorem rcInv_cacheAdd {p : Policy} (pok : p.OK) {r : RSt} {ext : List ZEdge} (h : RcInv r ext)
    (key : ZKey) {x : ZEdge} (hx : has r.st.store x) :
    RcInv ⟨(Act.cacheAdd key x).run p r.st, r.rc⟩ ext := by
  refine ⟨h.ext_ok, h.kids_ok, ?_, h.rc_eq⟩
  intro k v hm
  rcases pok.add_sub _ _ _ _ _ hm with h' | h'
  · exact h.cache_ok k v h'
  · cases h'
    show has r.st.store (decE (encE x))
    rw [decE_encE]; exact hx

theorem has_of_denotes {s : Store} {e : ZEdge} {T : ZDD} (h : DenotesZ s e T) : has s e := by
  cases h with
  | empty => trivial
  | base => trivial
  | inner hi _ _ => exact ⟨_, hi⟩

/-! ## the counted step -/

/-- **one step of a task on the counted state** -/
def Task.rstep (p : Policy) (r : RSt) : Task → List Bool → RSt × Task
  | .ret x, _ => (r, .ret x)
  | .call d c, _ =>
    let o := c.entry p r.st d
    -- a call that returns at once returns an owned edge: `clone_edge` (for a cache hit: inside
    -- `ApplyCache::get`, atomically with the lookup)
    match o.2 with
    | .ret h => (cloneEdge ⟨runOpt p o.1 r.st, r.rc⟩ h, .ret h)
    | t' => (⟨runOpt p o.1 r.st, r.rc⟩, t')
  | .miss d c, _ => (r, c.expand r.st.store d)
  | .one key keep t0, path =>
    match t0.ret? with
    | some r0 =>
      match keep with
      | some (l, hi) => ((mkNodeBU r l hi r0).2, .made key (mkNodeBU r l hi r0).1)
      | none => (r, .made key r0)
    | none => let o := t0.rstep p r path; (o.1, .one key keep o.2)
  | .seq1 fr c0 t1, path =>
    match t1.ret? with
    | some r1 => (r, .seq0 fr r1 (.call 0 c0))
    | none => let o := t1.rstep p r path; (o.1, .seq1 fr c0 o.2)
  | .seq0 fr r1 t0, path =>
    match t0.ret? with
    | some r0 => ((mkNodeU r fr.lvl r1 r0).2, .made fr.key (mkNodeU r fr.lvl r1 r0).1)
    | none => let o := t0.rstep p r path; (o.1, .seq0 fr r1 o.2)
  | .par fr t1 t0, path =>
    match t1.ret?, t0.ret? with
    | some r1, some r0 => ((mkNodeU r fr.lvl r1 r0).2, .made fr.key (mkNodeU r fr.lvl r1 r0).1)
    | _, _ =>
      if pickLeft path t1 t0 then
        let o := t1.rstep p r path.tail; (o.1, .par fr o.2 t0)
      else
        let o := t0.rstep p r path.tail; (o.1, .par fr t1 o.2)
  | .made key x, _ => (⟨(Act.cacheAdd key x).run p r.st, r.rc⟩, .ret x)

/-- **erasure**: forgetting the counters, the counted step is the step of `Threads.lean` -/
theorem Task.rstep_erase (p : Policy) (r : RSt) : ∀ (t : Task) (path : List Bool),
    (t.rstep p r path).1.st = runOpt p (t.step p r.st path).1 r.st ∧
    (t.rstep p r path).2 = (t.step p r.st path).2 := by
  intro t
  induction t with
  | ret x => intro _; exact ⟨rfl, rfl⟩
  | call d c =>
    intro _
    simp only [Task.rstep, Task.step]
    split
    · rename_i h heq
      exact ⟨by rw [cloneEdge_st], heq.symm⟩
    · exact ⟨rfl, rfl⟩
  | miss d c => intro _; exact ⟨rfl, rfl⟩
  | one key keep t0 ih =>
    intro path
    simp only [Task.rstep, Task.step]
    cases t0.ret? with
    | some r0 =>
      cases keep with
      | none => exact ⟨rfl, rfl⟩
      | some lh =>
        obtain ⟨l, hi⟩ := lh
        simp only [reduceOut, runOpt, Act.run]
        obtain ⟨h1, h2⟩ := mkNodeBU_erase r l hi r0
        exact ⟨h1, by rw [h2]; rfl⟩
    | none => simp only; exact ⟨(ih path).1, by rw [(ih path).2]⟩
  | seq1 fr c0 t1 ih =>
    intro path
    simp only [Task.rstep, Task.step]
    cases t1.ret? with
    | some r1 => exact ⟨rfl, rfl⟩
    | none => simp only; exact ⟨(ih path).1, by rw [(ih path).2]⟩
  | seq0 fr r1 t0 ih =>
    intro path
    simp only [Task.rstep, Task.step]
    cases t0.ret? with
    | some r0 =>
      simp only [reduceOut, runOpt, Act.run]
      obtain ⟨h1, h2⟩ := mkNodeU_erase r fr.lvl r1 r0
      exact ⟨h1, by rw [h2]; rfl⟩
    | none => simp only; exact ⟨(ih path).1, by rw [(ih path).2]⟩
  | par fr t1 t0 ih1 ih0 =>
    intro path
    have hl := ih1 path.tail
    have hr := ih0 path.tail
    cases e1 : t1.ret? with
    | none =>
      simp only [Task.rstep, Task.step, e1]
      split
      · exact ⟨hl.1, by rw [hl.2]⟩
      · exact ⟨hr.1, by rw [hr.2]⟩
    | some r1 =>
      cases e0 : t0.ret? with
      | none =>
        simp only [Task.rstep, Task.step, e1, e0]
        split
        · exact ⟨hl.1, by rw [hl.2]⟩
        · exact ⟨hr.1, by rw [hr.2]⟩
      | some r0 =>
        simp only [Task.rstep, Task.step, e1, e0, reduceOut, runOpt, Act.run]
        obtain ⟨h1, h2⟩ := mkNodeU_erase r fr.lvl r1 r0
        exact ⟨h1, by rw [h2]; rfl⟩
  | made key x => intro _; exact ⟨rfl, rfl⟩

/-! ## the counters stay exact -/

theorem entry_act (p : Policy) (st : St) (d : Nat) (c : Call) :
    (c.entry p st d).1 = none ∨ (c.entry p st d).1 = some .cacheGet := by
  simp only [Call.entry]
  split
  · left; rfl
  · split <;> (right; rfl)

theorem entry_owned (p : Policy) (st : St) (d : Nat) (c : Call) :
    (∃ x, (c.entry p st d).2 = .ret x) ∨ (c.entry p st d).2.owned = [] := by
  simp only [Call.entry]
  split
  · left; exact ⟨_, rfl⟩
  · split
    · left; exact ⟨_, rfl⟩
    · right; rfl

theorem ret?_some' {t : Task} {x : ZEdge} (h : t.ret? = some x) : t = .ret x := by
  cases t <;> simp only [Task.ret?] at h <;> cases h
  rfl

theorem rcInv_runEntry {p : Policy} {r : RSt} {ext : List ZEdge} (h : RcInv r ext) {o : Option Act}
    (ho : o = none ∨ o = some .cacheGet) : RcInv ⟨runOpt p o r.st, r.rc⟩ ext := by
  rcases ho with rfl | rfl
  · exact h
  · exact h.tickd

theorem fork_owned (d : Nat) (fr : Frame) (c1 c0 : Call) : (fork d fr c1 c0).owned = [] := by
  cases d <;> rfl

theorem expand_owned {s : Store} {c : Call} {T : ZDD} {k : Nat} (d : Nat)
    (hm : MissSpec s c T k) : (c.expand s d).owned = [] := by
  obtain ⟨op, f, g⟩ := c
  obtain ⟨a, b, hf, hg, hnt, _, _⟩ := hm
  simp only at hf hg hnt
  obtain ⟨hab, ha, hb⟩ := terminalT_none hnt
  cases hf with
  | empty => exact absurd rfl ha
  | base =>
    cases hg with
    | empty => exact absurd rfl hb
    | base => exact absurd rfl hab
    | inner hj _ _ => simp only [Call.expand, Store.cmpLevels, Store.node?, hj]; rfl
  | @inner i fl fh flo' fhi flo hi _ _ =>
    cases hg with
    | empty => exact absurd rfl hb
    | base => simp only [Call.expand, Store.cmpLevels, Store.node?, hi]; rfl
    | @inner j gl gh glo' ghi glo hj _ _ =>
      simp only [Call.expand, Store.cmpLevels, Store.node?, hi, hj]
      rcases Nat.lt_trichotomy fl gl with h | h | h
      · simp only [h, if_true]; rfl
      · subst h
        simp only [Nat.lt_irrefl, if_false, if_true]
        exact fork_owned _ _ _ _
      · have h1 : ¬ fl < gl := by omega
        have h2 : ¬ fl = gl := by omega
        simp only [h1, h2, if_false]; rfl

/-- **every step of a task keeps the counters exact** -/
theorem Task.rstep_rc {p : Policy} (pok : p.OK) {env : Env} {r : RSt} (hinv : Inv env r.st)
    {t : Task} {T : ZDD} {n : Nat} (h : TaskOK env r.st.store t T n) :
    ∀ (path : List Bool) (ext : List ZEdge), t.ret? = none → RcInv r (t.owned ++ ext) →
      RcInv (t.rstep p r path).1 ((t.rstep p r path).2.owned ++ ext) := by
  induction h with
  | ret h => intro _ _ hr; simp [Task.ret?] at hr
  | @call d c T k n hc hn =>
    intro path ext _ hrc
    simp only [Task.owned, List.nil_append] at hrc
    have hact := entry_act p r.st d c
    have hok := (entry_ok pok hinv d hc hn).2
    obtain ⟨n', _, hok⟩ := hok
    have hrc' := rcInv_runEntry (p := p) hrc hact
    simp only [Task.rstep]
    split
    · rename_i x hx
      rw [hx] at hok
      have hden := hok.ret_den rfl
      simp only [Task.owned, List.singleton_append]
      exact cloneEdge_rc hrc' (has_of_denotes hden)
    · rename_i hne
      rcases entry_owned p r.st d c with ⟨x, hx⟩ | hnil
      · exact absurd hx (hne x)
      · rw [hnil]; exact hrc'
  | @miss d c T k n hm hn =>
    intro path ext _ hrc
    simp only [Task.rstep]
    rw [expand_owned d hm]
    exact hrc
  | @oneK key l hi t0 T Thi T0 n0 n hT hk hhi h0 hn ih =>
    intro path ext _ hrc
    simp only [Task.rstep]
    cases hr : t0.ret? with
    | some r0 =>
      have := ret?_some' hr
      subst this
      exact mkNodeBU_rc hrc (has_of_denotes hhi)
    | none => exact ih path ext hr hrc
  | @oneN key t0 T n0 n hk h0 hn ih =>
    intro path ext _ hrc
    simp only [Task.rstep]
    cases hr : t0.ret? with
    | some r0 =>
      have := ret?_some' hr
      subst this
      exact hrc
    | none => exact ih path ext hr hrc
  | @seq1 fr c0 t1 T T1 T0 k0 n1 n hT hk hc h1 hn ih =>
    intro path ext _ hrc
    simp only [Task.rstep]
    cases hr : t1.ret? with
    | some r1 =>
      have := ret?_some' hr
      subst this
      exact hrc
    | none => exact ih path ext hr hrc
  | @seq0 fr r1 t0 T T1 T0 n0 n hT hk hr1 h0 hn ih =>
    intro path ext _ hrc
    simp only [Task.rstep]
    cases hr : t0.ret? with
    | some r0 =>
      have := ret?_some' hr
      subst this
      exact mkNodeU_rc hrc
    | none =>
      simp only [Task.owned, List.cons_append] at hrc ⊢
      have h1 : RcInv r (t0.owned ++ (r1 :: ext)) := rcInv_perm hrc List.perm_middle.symm
      exact rcInv_perm (ih path (r1 :: ext) hr h1) List.perm_middle
  | @par fr t1 t0 T T1 T0 n1 n0 n hT hk h1 h0 hn ih1 ih0 =>
    intro path ext _ hrc
    by_cases hb : ∃ r1 r0, t1.ret? = some r1 ∧ t0.ret? = some r0
    · obtain ⟨r1, r0, e1, e0⟩ := hb
      have := ret?_some' e1
      subst this
      have := ret?_some' e0
      subst this
      simp only [Task.rstep, Task.ret?]
      exact mkNodeU_rc hrc
    · have hstep : Task.rstep p r (.par fr t1 t0) path =
          if pickLeft path t1 t0 then
            ((t1.rstep p r path.tail).1, .par fr (t1.rstep p r path.tail).2 t0)
          else ((t0.rstep p r path.tail).1, .par fr t1 (t0.rstep p r path.tail).2) := by
        simp only [Task.rstep]
        split
        · rename_i r1 r0 e1 e0; exact absurd ⟨_, _, e1, e0⟩ hb
        · rfl
      rw [hstep]
      simp only [Task.owned, List.append_assoc] at hrc
      cases hp : pickLeft path t1 t0 with
      | true =>
        simp only [if_true, Task.owned, List.append_assoc]
        exact ih1 path.tail (t0.owned ++ ext) (pickLeft_true hp) hrc
      | false =>
        simp only [Bool.false_eq_true, if_false, Task.owned, List.append_assoc]
        have h1' : RcInv r (t0.owned ++ (t1.owned ++ ext)) := by
          refine rcInv_perm hrc ?_
          rw [← List.append_assoc, ← List.append_assoc]
          exact List.Perm.append_right _ List.perm_append_comm
        refine rcInv_perm (ih0 path.tail (t1.owned ++ ext) (pickLeft_false hp hb) h1') ?_
        rw [← List.append_assoc, ← List.append_assoc]
        exact List.Perm.append_right _ List.perm_append_comm
  | @made key x T n hk hr hn =>
    intro path ext _ hrc
    simp only [Task.rstep]
    exact rcInv_cacheAdd pok hrc key (has_of_denotes hr)

end OxiddModel.Zbdd.Threads
