import OxiddModel.Zbdd.ChainS

/-!
# The ZBDD id store with an explicit reference counter per node, and the tautology chain as
internal roots

This is the store level of `SetOpsS.lean` / `ChainS.lean` (hash-consed id store, apply cache,
tautology chain) extended by what the Rust code does to the **counters** (`rc` field of the index
manager's nodes) and by a **node capacity** (`add_node` fails with `OutOfMemory` when no slot is
left). Every `clone_edge`, `drop_edge` and `EdgeDropGuard` of

* `crates/oxidd-rules-zbdd/src/lib.rs`: `reduce`, `reduce_borrowed`, `ZBDDCache`
  (`post_reorder_mut` builds the chain, `pre_reorder_mut` tears it down through
  `try_remove_node`),
* `crates/oxidd-rules-zbdd/src/apply_rec.rs`: `apply_union / apply_intsec / apply_diff /
  apply_symm_diff`, `subset::<VAL>` (subset0, subset1, change), `apply_not` (= `taut ∖ f`),
  `var_edge`, `singleton_edge`, `t_edge`,
* `crates/oxidd-rules-zbdd/src/recursor.rs`: `SequentialRecursor::{binary, subset}` (the first
  result sits in an `EdgeDropGuard` while the second call runs),
* `crates/oxidd-manager-index/src/manager.rs`: `add_node`, `LevelViewSet::get_or_insert`,
  `clone_edge`, `drop_edge`, `try_remove_node`, `LevelViewSet::gc`, `Manager::gc`,
  `Manager::add_vars`, `Manager::reorder`

is a step of the model.

Conventions taken from the code (the same as for BDDs, `Bdd/RcS.lean`):

* the counter is the raw `rc` field: a fresh node starts at `2` (unique table + returned edge);
  `InnerNode::ref_count()` reports `rc - 1`;
* `Manager::gc` removes the nodes with `rc == 1`, level by level from the top, `free_slot` drops
  the children; `pre_gc` clears the apply cache;
* the two terminals are static: no counters;
* the apply cache stores borrowed edges, `get` returns a clone;
* **the chain** `ZBDDCache::tautologies` holds one *owned* edge per level (and the `Base`
  terminal): the references are counted like handles (`ref_count()` includes them; the harness
  oracle `Bf<KZbdd>::dump` adds one internal root per level for the chain node of that level).
  The model keeps the chain as a list with the top-most level first (`ChainS.lean`); it is part
  of the *externally owned* edges of the invariant (`RcSLemmasInv.lean`);
* `add_vars` runs `pre_reorder_mut` / `post_reorder_mut` **without** `reorder_gc_prepared`, so
  `try_remove_node` only releases the reference and reports `false` (the loop over the chain stops
  after the first entry, the remaining entries are dropped): the old chain nodes become garbage
  (or stay referenced by handles / parents), nothing is removed, the apply cache keeps its entries.
  The new chain is built bottom-up by `get_or_insert`; when a slot is missing the real code
  **aborts the process** (`KF-zbdd-addvars-oom`): the model returns `none` (*abort*).
* inside `Manager::reorder` (`reorder_gc_prepared = true`, apply cache cleared by `pre_gc`)
  `try_remove_node` removes a chain node whose counter drops to the table's reference and frees
  its slot (children dropped); the first entry that is still referenced ends the loop.

Forgetting the counters, a *successful* run is exactly the run of the capacity-free algorithms
(`RcSLemmas.lean`).
-/
namespace OxiddModel.Zbdd.Rc
open OxiddModel.Zbdd OxiddModel.Zbdd.ZDD OxiddModel.Zbdd.Refine
open OxiddModel.Bdd.Refine (Policy OpTag Key Cache)

/-! ## the counter array -/

/-- value of the `rc` field of slot `i` (0 for slots never used) -/
def rcGet (m : Array Nat) (i : Nat) : Nat := m.getD i 0

/-- write the `rc` field of slot `i` (the array grows with the store) -/
def rcSet (m : Array Nat) (i v : Nat) : Array Nat :=
  if i < m.size then m.set! i v else (m ++ Array.replicate (i + 1 - m.size) 0).set! i v

/-- store + apply cache + time stamp (`Refine.St`) and one counter per slot -/
structure RSt where
  st : St
  rc : Array Nat

/-- the state after one cache access -/
def RSt.tickd (r : RSt) : RSt := { r with st := r.st.tickd }

/-- what `InnerNode::ref_count()` reports: the counter without the unique table's own reference -/
def RSt.refCount (r : RSt) (i : Nat) : Nat := rcGet r.rc i - 1

/-- number of stored nodes (`num_inner_nodes`) -/
def count (s : Store) : Nat := s.nodes.countP Option.isSome

/-! ## `clone_edge`, `drop_edge` -/

/-- `Store::clone_edge`: `retain()` on the node; terminals are static -/
def cloneEdge (r : RSt) : ZEdge → RSt
  | .inner i => { r with rc := rcSet r.rc i (rcGet r.rc i + 1) }
  | _ => r

/-- `Store::drop_edge`: `release()` on the node (never frees: the unique table keeps its reference) -/
def dropEdge (r : RSt) : ZEdge → RSt
  | .inner i => { r with rc := rcSet r.rc i (rcGet r.rc i - 1) }
  | _ => r

/-! ## `get_or_insert`, `reduce`, `reduce_borrowed` -/

/-- `LevelView::get_or_insert(InnerNode::new(level, [hi, lo]))` with **owned** `hi`, `lo`:
* unique-table hit: `drop(node)` = `drop_edge(hi)`, `drop_edge(lo)`; then `clone_edge(found)`;
* miss, slot available (`add_node`, `Ok`): the children move into the node, `rc = 2`;
* miss, store full (`add_node`, `Err(OutOfMemory)`): `node.drop_with(|e| self.drop_edge(e))`. -/
def insertR (cap : Nat) (r : RSt) (level : Nat) (hi lo : ZEdge) : Option ZEdge × RSt :=
  match r.st.store.find? ⟨level, hi, lo⟩ with
  | some i => (some (.inner i), cloneEdge (dropEdge (dropEdge r hi) lo) (.inner i))
  | none =>
    if count r.st.store < cap then
      let a := r.st.store.alloc ⟨level, hi, lo⟩
      (some (.inner a.2), { st := { r.st with store := a.1 }, rc := rcSet r.rc a.2 2 })
    else (none, dropEdge (dropEdge r hi) lo)

/-- `reduce(manager, level, hi, lo, op)` with **owned** `hi`, `lo` (both in `EdgeDropGuard`s):
`hi` is the terminal `Empty` ⇒ the guard of `hi` drops it (a terminal: nothing happens) and `lo`
is returned; otherwise `get_or_insert`. -/
def mkNodeR (cap : Nat) (r : RSt) (level : Nat) (hi lo : ZEdge) : Option ZEdge × RSt :=
  if hi = .empty then (some lo, r) else insertR cap r level hi lo

/-- `reduce_borrowed(manager, level, hi, lo, op)`: `hi` is **borrowed** (a child edge of an
operand's node), `lo` owned: `hi` is `Empty` ⇒ `lo`; otherwise `clone_edge(&hi)` and
`then_insert` (= `get_or_insert`). -/
def mkNodeBR (cap : Nat) (r : RSt) (level : Nat) (hi lo : ZEdge) : Option ZEdge × RSt :=
  if hi = .empty then (some lo, r) else insertR cap (cloneEdge r hi) level hi lo

/-- the seeded defect `C05-oom-leaks-children`: `add_node` returns the error without dropping the
children of the rejected node -/
def insertLeak (cap : Nat) (r : RSt) (level : Nat) (hi lo : ZEdge) : Option ZEdge × RSt :=
  match r.st.store.find? ⟨level, hi, lo⟩ with
  | some i => (some (.inner i), cloneEdge (dropEdge (dropEdge r hi) lo) (.inner i))
  | none =>
    if count r.st.store < cap then
      let a := r.st.store.alloc ⟨level, hi, lo⟩
      (some (.inner a.2), { st := { r.st with store := a.1 }, rc := rcSet r.rc a.2 2 })
    else (none, r)

/-! ## control flow of the recursive algorithms -/

/-- `apply_cache().add(.., h.borrowed())`: the entry holds no counted reference -/
def addR (p : Policy) (r : RSt) (key : ZKey) (h : ZEdge) : RSt :=
  { r with st := ⟨r.st.store, p.add r.st.tick r.st.cache (encKey key) (encE h), r.st.tick + 1⟩ }

/-- `let h = <computation>?; apply_cache().add(key, h.borrowed()); Ok(h)` -/
def finishAdd (p : Policy) (key : ZKey) : Option ZEdge × RSt → Option ZEdge × RSt
  | (none, r) => (none, r)
  | (some h, r) => (some h, addR p r key h)

/-- `let x = c(..)?; k(x)` -/
def bindR (c : RSt → Option ZEdge × RSt) (k : RSt → ZEdge → Option ZEdge × RSt) (r : RSt) :
    Option ZEdge × RSt :=
  match c r with
  | (none, r') => (none, r')
  | (some x, r') => k r' x

/-- `let (hi, lo) = rec.binary(op, manager, a, b)?` / `rec.subset(..)?` with the
`SequentialRecursor` (`let ra = EdgeDropGuard::new(manager, op(a)?); let rb =
EdgeDropGuard::new(manager, op(b)?);`), followed by `k(hi.into_edge(), lo.into_edge())`: when the
second call fails the guard of the first result drops it -/
def forkR (c1 c0 : RSt → Option ZEdge × RSt) (k : RSt → ZEdge → ZEdge → Option ZEdge × RSt)
    (r : RSt) : Option ZEdge × RSt :=
  match c1 r with
  | (none, r1) => (none, r1)
  | (some hi, r1) =>
    match c0 r1 with
    | (none, r0) => (none, dropEdge r0 hi)
    | (some lo, r0) => k r0 hi lo

/-! ## `apply_union`, `apply_intsec`, `apply_diff`, `apply_symm_diff` -/

/-- everything after the terminal cases and the operand swap (operands borrowed, result owned):
cache query (a hit is a clone), level comparison, recursion, `reduce` / `reduce_borrowed`,
`?`, cache add -/
def setBodyR (cap : Nat) (p : Policy) (op : SetOp)
    (rec : RSt → ZEdge → ZEdge → Option ZEdge × RSt) (r : RSt) (f g : ZEdge) :
    Option ZEdge × RSt :=
  match p.get r.st.tick r.st.cache (encKey ⟨setTag op, [f, g], []⟩) with
  | some h => (some (decE h), cloneEdge r.tickd (decE h))
  | none =>
    match r.st.store.cmpLevels f g with
    | .lt nf =>
      if op.keepLt then
        -- `let lo = apply_op(flo, g)?; reduce_borrowed(flevel, hi, lo)`
        finishAdd p ⟨setTag op, [f, g], []⟩
          (bindR (fun s => rec s nf.lo g) (fun s lo => mkNodeBR cap s nf.level nf.hi lo) r.tickd)
      else finishAdd p ⟨setTag op, [f, g], []⟩ (rec r.tickd nf.lo g)
    | .eq nf ng =>
      finishAdd p ⟨setTag op, [f, g], []⟩
        (forkR (fun s => rec s nf.hi ng.hi) (fun s => rec s nf.lo ng.lo)
          (fun s hi lo => mkNodeR cap s nf.level hi lo) r.tickd)
    | .gt ng =>
      if op.keepGt then
        finishAdd p ⟨setTag op, [f, g], []⟩
          (bindR (fun s => rec s f ng.lo) (fun s lo => mkNodeBR cap s ng.level ng.hi lo) r.tickd)
      else finishAdd p ⟨setTag op, [f, g], []⟩ (rec r.tickd f ng.lo)
    | .none => (some f, cloneEdge r.tickd f) -- two terminals or a dangling edge (excluded)

/-- `apply_union / apply_intsec / apply_diff / apply_symm_diff` (operands borrowed, result owned):
the terminal cases return `clone_edge(f|g)` or the `Empty` terminal -/
def setOpR (cap : Nat) (p : Policy) (op : SetOp) : Nat → RSt → ZEdge → ZEdge → Option ZEdge × RSt
  | 0, r, f, _ => (some f, cloneEdge r f)
  | fuel+1, r, f, g =>
    match terminalS op f g with
    | some x => (some x, cloneEdge r x)
    | none =>
      if op.comm && f.gt g then setBodyR cap p op (setOpR cap p op fuel) r g f
      else setBodyR cap p op (setOpR cap p op fuel) r f g

def unionR (cap : Nat) (p : Policy) := setOpR cap p .union
def intsecR (cap : Nat) (p : Policy) := setOpR cap p .intsec
def diffR (cap : Nat) (p : Policy) := setOpR cap p .diff
def symmDiffR (cap : Nat) (p : Policy) := setOpR cap p .symmDiff

/-- `apply_not`: `apply_diff(manager, rec, tautology(0).borrowed(), f)` -/
def notR (cap : Nat) (p : Policy) (chain : List ZEdge) (fuel : Nat) (r : RSt) (f : ZEdge) :
    Option ZEdge × RSt :=
  setOpR cap p .diff fuel r (tautologyS chain 0) f

/-! ## `subset::<VAL>` -/

/-- `var_level` above `level` (or `f` a terminal): `clone_edge(&f)` / `Empty` /
`reduce(var_level, clone_edge(&f), Empty)` -/
def subsetBelowR (cap : Nat) (op : SubsetOp) (vl : Nat) (r : RSt) (f : ZEdge) :
    Option ZEdge × RSt :=
  match op with
  | .subset0 => (some f, cloneEdge r f)
  | .subset1 => (some .empty, r)
  | .change => mkNodeR cap (cloneEdge r f) vl f .empty

/-- `subset::<VAL>(f, var, var_level)` -/
def subsetR (cap : Nat) (p : Policy) (op : SubsetOp) (var vl : Nat) :
    Nat → RSt → ZEdge → Option ZEdge × RSt
  | 0, r, f => (some f, cloneEdge r f)
  | fuel+1, r, f =>
    match r.st.store.node? f with
    | some n =>
      if n.level < vl then
        match p.get r.st.tick r.st.cache (encKey ⟨subsetTag op, [f], [var]⟩) with
        | some h => (some (decE h), cloneEdge r.tickd (decE h))
        | none =>
          finishAdd p ⟨subsetTag op, [f], [var]⟩
            (forkR (fun s => subsetR cap p op var vl fuel s n.hi)
              (fun s => subsetR cap p op var vl fuel s n.lo)
              (fun s hi lo => mkNodeR cap s n.level hi lo) r.tickd)
      else if n.level = vl then
        match op with
        -- `let (lo, hi) = collect_children(node); reduce_borrowed(level, hi, clone_edge(&lo))`
        | .change => mkNodeBR cap (cloneEdge r n.hi) n.level n.lo n.hi
        | .subset0 => (some n.lo, cloneEdge r n.lo)
        | .subset1 => (some n.hi, cloneEdge r n.hi)
      else subsetBelowR cap op vl r f
    | none => subsetBelowR cap op vl r f

/-! ## `var_edge`, `singleton_edge`, `t_edge` -/

/-- the loop of `var_edge` over the levels above the variable (`level-1, …, 0`):
`let edge2 = clone_edge(&edge); edge = view.get_or_insert(InnerNode::new(level, [edge, edge2]))?` -/
def varLoopR (cap : Nat) : Nat → RSt → ZEdge → Option ZEdge × RSt
  | 0, r, e => (some e, r)
  | l+1, r, e =>
    match insertR cap (cloneEdge r e) l e e with
    | (none, r') => (none, r')
    | (some e', r') => varLoopR cap l r' e'

/-- `ZBDDFunction::var_edge` (the Boolean-function view of a variable):
`get_or_insert(level, [clone(tautology(level + 1)), Empty])?`, then the don't-care chain above -/
def varR (cap : Nat) (chain : List ZEdge) (r : RSt) (level : Nat) : Option ZEdge × RSt :=
  match insertR cap (cloneEdge r (tautologyS chain (level + 1))) level
      (tautologyS chain (level + 1)) .empty with
  | (none, r') => (none, r')
  | (some e, r') => varLoopR cap level r' e

/-- `singleton_edge`: `get_or_insert(level, [Base, Empty])` -/
def singletonR (cap : Nat) (r : RSt) (level : Nat) : Option ZEdge × RSt :=
  insertR cap r level .base .empty

/-- `t_edge`: `clone_edge(tautology(0))` -/
def tR (chain : List ZEdge) (r : RSt) : Option ZEdge × RSt :=
  (some (tautologyS chain 0), cloneEdge r (tautologyS chain 0))

/-! ## garbage collection -/

/-- `free_slot`: the slot is emptied, the children of the node are dropped -/
def freeSlot (r : RSt) (i : Nat) (n : ZNode) : RSt :=
  dropEdge (dropEdge { r with st := { r.st with store := ⟨r.st.store.nodes.set! i none⟩ } } n.hi) n.lo

/-- one step of `LevelViewSet::gc` (`retain`): the node in slot `i`, if it is on level `l` and
only the unique table references it (`rc == 1`), is removed from the table and freed -/
def gcSlot (l : Nat) (r : RSt) (i : Nat) : RSt :=
  match r.st.store.get? i with
  | none => r
  | some n => if n.level = l ∧ rcGet r.rc i = 1 then freeSlot r i n else r

/-- `level.gc(store)` for the unique table of level `l` -/
def gcLevel (r : RSt) (l : Nat) : RSt :=
  (List.range r.st.store.nodes.size).foldl (gcSlot l) r

/-- `Manager::gc`: `pre_gc` clears the apply cache; the unique tables are visited in level order.
The chain is *not* touched: its references keep its nodes. -/
def gcR (numLevels : Nat) (r : RSt) : RSt :=
  (List.range numLevels).foldl gcLevel { r with st := { r.st with cache := [] } }

/-! ## the tautology chain: `post_reorder_mut`, `pre_reorder_mut`, `try_remove_node` -/

/-- `post_reorder_mut` after `j` levels (`n-1, …, n-j`): `hi = clone_edge(last); lo =
clone_edge(&hi); get_or_insert(InnerNode::new(level, [hi, lo]))`; `none` = the process aborts
(`eprintln!("Out of memory"); std::process::abort()`). The list has the entry pushed last (the
top-most level) first, as in `ChainS.lean`. -/
def buildChainR (cap n : Nat) : Nat → RSt → Option (List ZEdge) × RSt
  | 0, r => (some [.base], r)
  | j+1, r =>
    match buildChainR cap n j r with
    | (none, r') => (none, r')
    | (some ch, r') =>
      match insertR cap (cloneEdge (cloneEdge r' (ch.headD .base)) (ch.headD .base)) (n - (j+1))
          (ch.headD .base) (ch.headD .base) with
      | (none, r'') => (none, r'')
      | (some e, r'') => (some (e :: ch), r'')

/-- `Manager::try_remove_node(edge, level)` (single-threaded): the edge is released in any case;
if the counter was `2` (table + this edge) **and** a reordering is prepared
(`reorder_gc_prepared`), the node is removed from its unique table and its slot freed (children
dropped) — result `true` -/
def tryRemoveNodeR (prepared : Bool) (r : RSt) : ZEdge → Bool × RSt
  | .inner i =>
    if rcGet r.rc i = 2 ∧ prepared = true then
      match r.st.store.get? i with
      | some n => (true, freeSlot (dropEdge r (.inner i)) i n)
      | none => (false, dropEdge r (.inner i))
    else (false, dropEdge r (.inner i))
  | _ => (false, r)

/-- the seeded defects `R2-C05-zbdd-addvars-frees-node` / `R4-C20-tryremove-and-or`:
`try_remove_node` without the `reorder_gc_prepared` guard -/
def tryRemoveNodeNoGuard (r : RSt) (e : ZEdge) : Bool × RSt := tryRemoveNodeR true r e

/-- `pre_reorder_mut`: `while ts.len() > 1 { if !try_remove_node(ts.pop(), level) { break }; level
+= 1 }`, then `for e in ts.into_iter().rev() { drop_edge(e) }` (the chain is listed top-most level
first, so `pop` takes the head) -/
def tearDownR (tryRemove : RSt → ZEdge → Bool × RSt) : List ZEdge → RSt → RSt
  | [], r => r
  | [b], r => dropEdge r b
  | e :: rest, r =>
    match tryRemove r e with
    | (true, r') => tearDownR tryRemove rest r'
    | (false, r') => rest.foldl dropEdge r'

/-- `Manager::add_vars(k)` in a manager with `n` levels and chain `chain`: `pre_reorder_mut`
(outside a reordering), `k` more (empty) levels, `post_reorder_mut`. The apply cache is left as it
is. `none` = abort (the new chain does not fit). -/
def addVarsR (cap n k : Nat) (chain : List ZEdge) (r : RSt) : Option (List ZEdge) × RSt :=
  buildChainR cap (n + k) (n + k) (tearDownR (tryRemoveNodeR false) chain r)

/-- `Manager::reorder(|_| ())`: `pre_gc` (apply cache cleared), `reorder_gc_prepared = true`,
`pre_reorder_mut`, nothing, `post_reorder_mut` -/
def reorderNopR (cap n : Nat) (chain : List ZEdge) (r : RSt) : Option (List ZEdge) × RSt :=
  buildChainR cap n n
    (tearDownR (tryRemoveNodeR true) chain { r with st := { r.st with cache := [] } })

/-- `add_vars` with the unguarded `try_remove_node` (apply cache **not** cleared) -/
def addVarsNoGuard (cap n k : Nat) (chain : List ZEdge) (r : RSt) : Option (List ZEdge) × RSt :=
  buildChainR cap (n + k) (n + k) (tearDownR tryRemoveNodeNoGuard chain r)

/-! ## the empty manager -/

def RSt.empty : RSt := ⟨⟨⟨#[]⟩, [], 0⟩, #[]⟩

end OxiddModel.Zbdd.Rc
