import OxiddModel.Zbdd.RcSLemmasChain

/-!
# Histories over the ZBDD counter model

A user of the manager holds a list of handles (owned edges); the manager holds the tautology
chain. Commands: constants, `t_edge`, `var_edge`, `singleton_edge`, the four set operations, `not`,
`subset0/subset1/change` (each with **its own capacity**, so any of them may fail with OutOfMemory
at any allocation point), clone, drop, `gc`, `add_vars` (abort = the call is not made: the real
process would die), an empty `reorder`.

`HInv h`: `RcInv h.r (h.chain ++ h.hs)` — the counter of every stored node is
`1 + chain entries + handles + stored parent edges`. `Cmd.run_rc`, `runAll_rc`.
-/
namespace OxiddModel.Zbdd.Rc
open OxiddModel.Zbdd OxiddModel.Zbdd.ZDD OxiddModel.Zbdd.Refine
open OxiddModel.Bdd.Refine (Policy OpTag Key Cache)

/-- the manager (store, counters, chain, number of levels) and the user's handles -/
structure HSt where
  r : RSt
  chain : List ZEdge
  n : Nat
  hs : List ZEdge

/-- operands are positions in the handle list; `cap` is the node capacity during the command;
the variable order is the identity (level = variable); a variable number beyond the current
number of levels is rejected (`bad-op` in the driver: the real call would panic) -/
inductive Cmd where
  | const (base : Bool)
  | t
  | var (cap level : Nat)
  | singleton (cap level : Nat)
  | setop (cap fuel : Nat) (op : SetOp) (a b : Nat)
  | not (cap fuel a : Nat)
  | subset (cap fuel : Nat) (op : SubsetOp) (v a : Nat)
  | clone (a : Nat)
  | drop (a : Nat)
  | gc
  | addVars (cap k : Nat)
  | reorderNop (cap : Nat)

/-- a successful operation yields a new handle, a failed one (OutOfMemory) none -/
def pushRes (h : HSt) (res : Option ZEdge × RSt) : HSt :=
  match res with
  | (some x, r') => { h with r := r', hs := x :: h.hs }
  | (none, r') => { h with r := r' }

def Cmd.run (p : Policy) : Cmd → HSt → HSt
  | .const b, h => { h with hs := (if b then .base else .empty) :: h.hs }
  | .t, h => pushRes h (tR h.chain h.r)
  | .var cap level, h => if level < h.n then pushRes h (varR cap h.chain h.r level) else h
  | .singleton cap level, h => if level < h.n then pushRes h (singletonR cap h.r level) else h
  | .setop cap fuel op a b, h =>
    match h.hs[a]?, h.hs[b]? with
    | some f, some g => pushRes h (setOpR cap p op fuel h.r f g)
    | _, _ => h
  | .not cap fuel a, h =>
    match h.hs[a]? with
    | some f => pushRes h (notR cap p h.chain fuel h.r f)
    | none => h
  | .subset cap fuel op v a, h =>
    match h.hs[a]? with
    | some f => if v < h.n then pushRes h (subsetR cap p op v v fuel h.r f) else h
    | none => h
  | .clone a, h =>
    match h.hs[a]? with
    | some f => { h with r := cloneEdge h.r f, hs := f :: h.hs }
    | none => h
  | .drop a, h =>
    match h.hs[a]? with
    | some f => { h with r := dropEdge h.r f, hs := h.hs.erase f }
    | none => h
  | .gc, h => { h with r := gcR h.n h.r }
  | .addVars cap k, h =>
    match addVarsR cap h.n k h.chain h.r with
    | (some ch, r') => { r := r', chain := ch, n := h.n + k, hs := h.hs }
    | (none, _) => h -- abort: the real process is gone; the harness does not make the call
  | .reorderNop cap, h =>
    match reorderNopR cap h.n h.chain h.r with
    | (some ch, r') => { h with r := r', chain := ch }
    | (none, _) => h

def runAll (p : Policy) (cmds : List Cmd) (h : HSt) : HSt := cmds.foldl (fun h c => c.run p h) h

/-- the initial manager with `n` variables under capacity `cap` (`new_manager` + `add_vars(n)`);
`none` = the chain does not fit (abort) -/
def HSt.init (cap n : Nat) : Option HSt :=
  match addVarsR cap 0 n [.base] RSt.empty with
  | (some ch, r') => some { r := r', chain := ch, n := n, hs := [] }
  | (none, _) => none

/-- counters exact for chain entries + handles -/
def HInv (h : HSt) : Prop := RcInv h.r (h.chain ++ h.hs)

theorem pushRes_rc {h : HSt} {res : Option ZEdge × RSt} (hres : RcPost h.r (h.chain ++ h.hs) res) :
    HInv (pushRes h res) := by
  obtain ⟨o, r'⟩ := res
  cases o with
  | none => exact hres.2
  | some x => exact RcInv.unmid hres.2

theorem count_cons_erase {l : List ZEdge} {f : ZEdge} (hf : f ∈ l) (e : ZEdge) :
    (f :: l.erase f).count e = l.count e := by
  rw [List.count_cons, List.count_erase]
  by_cases h : (f == e) = true
  · have : f = e := by simpa using h
    subst this
    have : 0 < l.count f := List.count_pos_iff.mpr hf
    simp; omega
  · simp [h]

theorem chain_sub (h : HSt) : ∀ e ∈ h.chain, e ∈ h.chain ++ h.hs :=
  fun _ he => List.mem_append_left _ he

theorem hs_has {h : HSt} (hi : HInv h) {a : Nat} {f : ZEdge} (ha : h.hs[a]? = some f) :
    has h.r.st.store f :=
  hi.ext_ok f (List.mem_append_right _ (List.mem_of_getElem? ha))

theorem Cmd.run_rc {p : Policy} (pok : p.OK) (c : Cmd) (h : HSt) (hi : HInv h) :
    HInv (c.run p h) := by
  cases c with
  | const b =>
    simp only [Cmd.run, HInv]
    cases b
    · exact RcInv.unmid (RcInv.add_empty hi)
    · exact RcInv.unmid (RcInv.add_base hi)
  | t => exact pushRes_rc (tR_rc h.chain h.r _ hi (chain_sub h))
  | var cap level =>
    simp only [Cmd.run]
    split
    · exact pushRes_rc (varR_rc cap h.chain h.r level _ hi (chain_sub h))
    · exact hi
  | singleton cap level =>
    simp only [Cmd.run]
    split
    · exact pushRes_rc (singletonR_rc cap h.r level _ hi)
    · exact hi
  | setop cap fuel op a b =>
    simp only [Cmd.run]
    cases ha : h.hs[a]? with
    | none => exact hi
    | some f =>
      cases hb : h.hs[b]? with
      | none => exact hi
      | some g => exact pushRes_rc (setOpR_rc pok cap op fuel h.r f g _ hi (hs_has hi ha) (hs_has hi hb))
  | not cap fuel a =>
    simp only [Cmd.run]
    cases ha : h.hs[a]? with
    | none => exact hi
    | some f => exact pushRes_rc (notR_rc pok cap h.chain fuel h.r f _ hi (chain_sub h) (hs_has hi ha))
  | subset cap fuel op v a =>
    simp only [Cmd.run]
    cases ha : h.hs[a]? with
    | none => exact hi
    | some f =>
      simp only
      split
      · exact pushRes_rc (subsetR_rc pok cap op v v fuel h.r f _ hi (hs_has hi ha))
      · exact hi
  | clone a =>
    simp only [Cmd.run]
    cases ha : h.hs[a]? with
    | none => exact hi
    | some f => exact RcInv.unmid (cloneEdge_rc hi (hs_has hi ha))
  | drop a =>
    simp only [Cmd.run]
    cases ha : h.hs[a]? with
    | none => exact hi
    | some f =>
      have hf := List.mem_of_getElem? ha
      refine dropEdge_rc (RcInv.congr hi (fun e => ?_))
      have := count_cons_erase hf e
      simp only [List.count_append, List.count_cons] at this ⊢
      omega
  | gc => exact (gcR_rc h.n hi).1
  | addVars cap k =>
    simp only [Cmd.run]
    have := (addVarsR_rc (cap := cap) (n := h.n) (k := k) hi).2.2
    cases hR : addVarsR cap h.n k h.chain h.r with
    | mk o r' =>
      rw [hR] at this
      cases o with
      | none => exact hi
      | some ch => exact this.1
  | reorderNop cap =>
    simp only [Cmd.run]
    have := (reorderNopR_rc (cap := cap) (n := h.n) hi).2
    cases hR : reorderNopR cap h.n h.chain h.r with
    | mk o r' =>
      rw [hR] at this
      cases o with
      | none => exact hi
      | some ch => exact this.1

theorem runAll_rc {p : Policy} (pok : p.OK) : ∀ (cmds : List Cmd) (h : HSt), HInv h →
    HInv (runAll p cmds h) := by
  intro cmds
  induction cmds with
  | nil => intro h hi; exact hi
  | cons c cs ih => intro h hi; exact ih _ (Cmd.run_rc pok c h hi)

theorem rcinv_empty : RcInv RSt.empty [] where
  ext_ok _ h := by cases h
  kids_ok i n h := by simp [RSt.empty, Store.get?] at h
  cache_ok _ _ h := by cases h
  rc_eq i n h := by simp [RSt.empty, Store.get?] at h

theorem init_rc {cap n : Nat} {h : HSt} (hh : HSt.init cap n = some h) : HInv h := by
  unfold HSt.init at hh
  have h0 : RcInv RSt.empty ([ZEdge.base] ++ []) := RcInv.add_base rcinv_empty
  have := (addVarsR_rc (cap := cap) (n := 0) (k := n) h0).2.2
  cases hR : addVarsR cap 0 n [.base] RSt.empty with
  | mk o r' =>
    rw [hR] at this hh
    cases o with
    | none => cases hh
    | some ch => cases hh; exact this.1

/-! ## executable tests (for concrete examples) -/

def hasB (s : Store) : ZEdge → Bool
  | .inner i => (s.get? i).isSome
  | _ => true

theorem hasB_of_has {s : Store} {e : ZEdge} (h : has s e) : hasB s e = true := by
  cases e with
  | inner i => obtain ⟨n, hn⟩ := h; simp [hasB, hn]
  | empty => rfl
  | base => rfl

/-- executable necessary condition of `RcInv`: the counter equation on all slots, and no dangling
cached result -/
def rcCheck (r : RSt) (ext : List ZEdge) : Bool :=
  ((List.range r.st.store.nodes.size).all fun i =>
    match r.st.store.get? i with
    | none => true
    | some _ => rcGet r.rc i == 1 + ext.count (.inner i) + parents r.st.store i) &&
  r.st.cache.all fun kv => hasB r.st.store (decE kv.2)

theorem rcCheck_of_inv {r : RSt} {ext : List ZEdge} (h : RcInv r ext) : rcCheck r ext = true := by
  unfold rcCheck
  rw [Bool.and_eq_true, List.all_eq_true, List.all_eq_true]
  constructor
  · intro i _
    cases hi : r.st.store.get? i with
    | none => rfl
    | some n => simp [h.rc_eq i n hi]
  · intro kv hkv
    exact hasB_of_has (h.cache_ok kv.1 kv.2 hkv)

def sorderedB (s : Store) : Bool :=
  (List.range s.nodes.size).all fun i =>
    match s.get? i with
    | none => true
    | some n =>
      let ok : ZEdge → Bool := fun x =>
        match x with
        | .inner j =>
          match s.get? j with
          | some m => decide (n.level < m.level)
          | none => true
        | _ => true
      ok n.hi && ok n.lo

theorem sordered_of_sorderedB {s : Store} (h : sorderedB s = true) : SOrdered s := by
  intro i n j m hi hc hj
  have hlt : i < s.nodes.size := by
    by_cases hlt : i < s.nodes.size
    · exact hlt
    · simp [Store.get?, hlt] at hi
  unfold sorderedB at h
  rw [List.all_eq_true] at h
  have := h i (List.mem_range.mpr hlt)
  simp only [hi, Bool.and_eq_true] at this
  rcases hc with hc | hc
  · have h1 := this.1
    rw [hc] at h1
    simpa [hj] using h1
  · have h2 := this.2
    rw [hc] at h2
    simpa [hj] using h2

end OxiddModel.Zbdd.Rc
