import OxiddModel.Zbdd.RcSLemmasInv

/-!
# Erasure of the counters

The store-level algorithms of `SetOpsS.lean` / `ChainS.lean` have no capacity: they never fail.
`Erases R S`: **if** the counted, capacity-bounded run `R` succeeded, it is exactly the
counter-free run `S` — same result edge, same store, same apply cache, same time stamp. So every
theorem of `Zbdd.PropertiesC06` (specification, cache transparency, canonical store) holds for
every successful counted run, under every capacity. No hypothesis on the state is needed.

`insertR_erase`, `mkNodeR_erase`, `mkNodeBR_erase`, `setBodyR_erase`, `setOpR_erase'`,
`subsetR_erase'`.
-/
namespace OxiddModel.Zbdd.Rc
open OxiddModel.Zbdd OxiddModel.Zbdd.ZDD OxiddModel.Zbdd.Refine
open OxiddModel.Bdd.Refine (Policy OpTag Key Cache)

/-- a successful counted run is the counter-free run -/
def Erases (R : Option ZEdge × RSt) (S : St × ZEdge) : Prop :=
  ∀ e, R.1 = some e → S = (R.2.st, e)

theorem Erases.clone (r : RSt) (x : ZEdge) : Erases (some x, cloneEdge r x) (r.st, x) := by
  intro e h; cases h; simp

/-! ## `get_or_insert`, `reduce`, `reduce_borrowed` -/

theorem insertR_erase {cap : Nat} {r : RSt} {l : Nat} {t e x : ZEdge}
    (h : (insertR cap r l t e).1 = some x) :
    r.st.store.getOrInsert ⟨l, t, e⟩ = ((insertR cap r l t e).2.st.store, x) ∧
    (insertR cap r l t e).2.st.cache = r.st.cache ∧ (insertR cap r l t e).2.st.tick = r.st.tick := by
  unfold insertR at h ⊢
  unfold Store.getOrInsert
  cases hf : r.st.store.find? ⟨l, t, e⟩ with
  | some i =>
    rw [hf] at h
    simp only at h ⊢
    cases h
    simp
  | none =>
    rw [hf] at h
    simp only at h ⊢
    by_cases hc : count r.st.store < cap
    · simp only [hc, if_true] at h ⊢
      cases h
      simp
    · simp only [hc, if_false] at h
      cases h

theorem mkNodeR_erase {cap : Nat} {r : RSt} {l : Nat} {t e x : ZEdge}
    (h : (mkNodeR cap r l t e).1 = some x) :
    mkS r.st l t e = ((mkNodeR cap r l t e).2.st, x) := by
  unfold mkNodeR at h ⊢
  unfold mkS Store.mkNodeZ
  by_cases ht : t = .empty
  · simp only [ht, if_true] at h ⊢
    cases h; rfl
  · simp only [ht, if_false] at h ⊢
    obtain ⟨h1, h2, h3⟩ := insertR_erase h
    rw [h1]
    simp only
    rw [← h2, ← h3]

theorem mkNodeBR_erase {cap : Nat} {r : RSt} {l : Nat} {t e x : ZEdge}
    (h : (mkNodeBR cap r l t e).1 = some x) :
    mkS r.st l t e = ((mkNodeBR cap r l t e).2.st, x) := by
  unfold mkNodeBR at h ⊢
  unfold mkS Store.mkNodeZ
  by_cases ht : t = .empty
  · simp only [ht, if_true] at h ⊢
    cases h; rfl
  · simp only [ht, if_false] at h ⊢
    obtain ⟨h1, h2, h3⟩ := insertR_erase h
    simp only [cloneEdge_st] at h1 h2 h3
    rw [h1]
    simp only
    rw [← h2, ← h3]

/-! ## control flow -/

theorem finishAdd_some {p : Policy} {key : ZKey} {R : Option ZEdge × RSt} {e : ZEdge}
    (h : (finishAdd p key R).1 = some e) :
    R.1 = some e ∧ (finishAdd p key R).2 = addR p R.2 key e := by
  obtain ⟨o, r'⟩ := R
  cases o with
  | none => cases h
  | some x => simp only [finishAdd] at h ⊢; cases h; exact ⟨rfl, rfl⟩

theorem bindR_some {c : RSt → Option ZEdge × RSt} {k : RSt → ZEdge → Option ZEdge × RSt}
    {r : RSt} {e : ZEdge} (h : (bindR c k r).1 = some e) :
    ∃ x, (c r).1 = some x ∧ bindR c k r = k (c r).2 x := by
  unfold bindR at h ⊢
  cases hc : c r with
  | mk o r1 =>
    rw [hc] at h
    cases o with
    | none => cases h
    | some x => exact ⟨x, rfl, rfl⟩

theorem forkR_some {c1 c0 : RSt → Option ZEdge × RSt}
    {k : RSt → ZEdge → ZEdge → Option ZEdge × RSt} {r : RSt} {e : ZEdge}
    (h : (forkR c1 c0 k r).1 = some e) :
    ∃ hi lo, (c1 r).1 = some hi ∧ (c0 (c1 r).2).1 = some lo ∧
      forkR c1 c0 k r = k (c0 (c1 r).2).2 hi lo := by
  unfold forkR at h ⊢
  cases hc1 : c1 r with
  | mk o1 r1 =>
    rw [hc1] at h
    cases o1 with
    | none => cases h
    | some hi =>
      simp only at h ⊢
      cases hc0 : c0 r1 with
      | mk o0 r0 =>
        rw [hc0] at h
        cases o0 with
        | none => cases h
        | some lo => exact ⟨hi, lo, rfl, rfl, rfl⟩

/-- `reduce(..)?` + cache add on both sides -/
theorem finishZ_of {p : Policy} {key : ZKey} {l : Nat} {hi lo e : ZEdge} {r0 : RSt}
    {M : Option ZEdge × RSt} (_hM : M.1 = some e) (hm : mkS r0.st l hi lo = (M.2.st, e)) :
    finishZ p r0.st key l hi lo = ((addR p M.2 key e).st, e) := by
  unfold finishZ
  rw [hm]
  rfl

/-! ## the set operations -/

theorem setBodyR_erase (cap : Nat) (p : Policy) (op : SetOp)
    (recR : RSt → ZEdge → ZEdge → Option ZEdge × RSt) (recS : St → ZEdge → ZEdge → St × ZEdge)
    (hrec : ∀ r f g, Erases (recR r f g) (recS r.st f g)) (r : RSt) (f g : ZEdge) :
    Erases (setBodyR cap p op recR r f g) (setBody p op recS r.st f g) := by
  intro e h
  unfold setBodyR at h ⊢
  unfold setBody
  cases hget : p.get r.st.tick r.st.cache (encKey ⟨setTag op, [f, g], []⟩) with
  | some x =>
    rw [hget] at h
    simp only at h ⊢
    cases h
    simp
  | none =>
    rw [hget] at h
    simp only at h ⊢
    cases hcmp : r.st.store.cmpLevels f g with
    | lt nf =>
      rw [hcmp] at h
      simp only at h ⊢
      by_cases hk : op.keepLt = true
      · simp only [hk, if_true] at h ⊢
        obtain ⟨h1, h2⟩ := finishAdd_some h
        obtain ⟨x, hx, hb⟩ := bindR_some h1
        rw [hb] at h1
        have e0 := hrec r.tickd nf.lo g x hx
        simp only [tickd_st] at e0
        rw [e0, h2, hb]
        exact finishZ_of h1 (mkNodeBR_erase h1)
      · have hk' : op.keepLt = false := by simpa using hk
        simp only [hk', Bool.false_eq_true, if_false] at h ⊢
        obtain ⟨h1, h2⟩ := finishAdd_some h
        have e0 := hrec r.tickd nf.lo g e h1
        simp only [tickd_st] at e0
        rw [e0, h2]
        rfl
    | eq nf ng =>
      rw [hcmp] at h
      simp only at h ⊢
      obtain ⟨h1, h2⟩ := finishAdd_some h
      obtain ⟨hi, lo, hhi, hlo, hb⟩ := forkR_some h1
      rw [hb] at h1
      have e1 := hrec r.tickd nf.hi ng.hi hi hhi
      simp only [tickd_st] at e1
      have e0 := hrec _ nf.lo ng.lo lo hlo
      rw [e1]
      simp only
      rw [e0, h2, hb]
      exact finishZ_of h1 (mkNodeR_erase h1)
    | gt ng =>
      rw [hcmp] at h
      simp only at h ⊢
      by_cases hk : op.keepGt = true
      · simp only [hk, if_true] at h ⊢
        obtain ⟨h1, h2⟩ := finishAdd_some h
        obtain ⟨x, hx, hb⟩ := bindR_some h1
        rw [hb] at h1
        have e0 := hrec r.tickd f ng.lo x hx
        simp only [tickd_st] at e0
        rw [e0, h2, hb]
        exact finishZ_of h1 (mkNodeBR_erase h1)
      · have hk' : op.keepGt = false := by simpa using hk
        simp only [hk', Bool.false_eq_true, if_false] at h ⊢
        obtain ⟨h1, h2⟩ := finishAdd_some h
        have e0 := hrec r.tickd f ng.lo e h1
        simp only [tickd_st] at e0
        rw [e0, h2]
        rfl
    | none =>
      rw [hcmp] at h
      simp only at h ⊢
      cases h
      simp

/-- **a successful `setOpR` run is the `setOpS` run** -/
theorem setOpR_erase' (cap : Nat) (p : Policy) (op : SetOp) (fuel : Nat) :
    ∀ (r : RSt) (f g : ZEdge), Erases (setOpR cap p op fuel r f g) (setOpS p op fuel r.st f g) := by
  induction fuel with
  | zero => intro r f g; simp only [setOpR, setOpS]; exact Erases.clone r f
  | succ fuel ih =>
    intro r f g
    simp only [setOpR, setOpS]
    cases hT : terminalS op f g with
    | some x => exact Erases.clone r x
    | none =>
      simp only
      split
      · exact setBodyR_erase cap p op _ _ ih r g f
      · exact setBodyR_erase cap p op _ _ ih r f g

/-! ## `subset::<VAL>` -/

theorem subsetBelowR_erase (cap : Nat) (op : SubsetOp) (vl : Nat) (r : RSt) (f : ZEdge) :
    Erases (subsetBelowR cap op vl r f) (subsetBelowS op vl r.st f) := by
  intro e h
  cases op <;> simp only [subsetBelowR, subsetBelowS] at h ⊢
  · cases h; simp
  · cases h; rfl
  · have := mkNodeR_erase h
    simp only [cloneEdge_st] at this
    exact this

/-- **a successful `subsetR` run is the `subsetS` run** -/
theorem subsetR_erase' (cap : Nat) (p : Policy) (op : SubsetOp) (var vl : Nat) (fuel : Nat) :
    ∀ (r : RSt) (f : ZEdge),
      Erases (subsetR cap p op var vl fuel r f) (subsetS p op var vl fuel r.st f) := by
  induction fuel with
  | zero => intro r f; simp only [subsetR, subsetS]; exact Erases.clone r f
  | succ fuel ih =>
    intro r f
    simp only [subsetR, subsetS]
    cases hn : r.st.store.node? f with
    | none => exact subsetBelowR_erase cap op vl r f
    | some n =>
      simp only
      by_cases h1 : n.level < vl
      · simp only [h1, if_true]
        cases hget : p.get r.st.tick r.st.cache (encKey ⟨subsetTag op, [f], [var]⟩) with
        | some x => intro e h; cases h; simp
        | none =>
          simp only
          intro e h
          obtain ⟨ha, hb⟩ := finishAdd_some h
          obtain ⟨hi, lo, hhi, hlo, hf⟩ := forkR_some ha
          rw [hf] at ha
          have e1 := ih r.tickd n.hi hi hhi
          simp only [tickd_st] at e1
          have e0 := ih _ n.lo lo hlo
          rw [e1]
          simp only
          rw [e0, hb, hf]
          exact finishZ_of ha (mkNodeR_erase ha)
      · simp only [h1, if_false]
        by_cases h2 : n.level = vl
        · simp only [h2, if_true]
          cases op <;> simp only
          · exact Erases.clone r n.lo
          · exact Erases.clone r n.hi
          · intro e h
            have := mkNodeBR_erase h
            simp only [cloneEdge_st] at this
            exact this
        · simp only [h2, if_false]
          exact subsetBelowR_erase cap op vl r f

end OxiddModel.Zbdd.Rc
