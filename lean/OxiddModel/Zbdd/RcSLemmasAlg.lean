import OxiddModel.Zbdd.RcSLemmasInv

/-!
# The ZBDD algorithms keep the counters exact — on success and on every failure path

`RcPost r ext R`: the run `R` started in `r` by a caller owning `ext` (handles, chain entries,
temporaries of the callers) only extended the store and ends with exact counters for
`result :: ext` (success) resp. `ext` (OutOfMemory).

`insertR_post`, `mkNodeR_post`, `mkNodeBR_post`, `finishAdd_post`, `bindR_post`, `forkR_post` (the
sequential recursor with its drop guard), `setOpR_rc` (union, intersection, difference, symmetric
difference), `notR_rc`, `subsetR_rc` (subset0, subset1, change), `varR_rc`, `singletonR_rc`,
`tR_rc`: for every capacity, fuel, policy (`Policy.OK`) and all operands that point to stored
nodes. No semantic hypothesis (denotation, fuel bound, hash consing) is needed.
-/
namespace OxiddModel.Zbdd.Rc
open OxiddModel.Zbdd OxiddModel.Zbdd.ZDD OxiddModel.Zbdd.Refine
open OxiddModel.Bdd.Refine (Policy OpTag Key Cache)

/-- postcondition of a run from `r` whose caller owns the edges `ext` -/
def RcPost (r : RSt) (ext : List ZEdge) (R : Option ZEdge × RSt) : Prop :=
  r.st.store.Le R.2.st.store ∧
  match R with
  | (some x, r') => RcInv r' (x :: ext)
  | (none, r') => RcInv r' ext

theorem RcPost.of_le {r r1 : RSt} {ext : List ZEdge} {R : Option ZEdge × RSt}
    (hle : r.st.store.Le r1.st.store) (h : RcPost r1 ext R) : RcPost r ext R :=
  ⟨hle.trans h.1, h.2⟩

/-- returning a clone of a stored edge -/
theorem RcPost.clone {r : RSt} {ext : List ZEdge} {x : ZEdge} (h : RcInv r ext)
    (hx : has r.st.store x) : RcPost r ext (some x, cloneEdge r x) :=
  ⟨by rw [cloneEdge_st]; exact Store.Le.refl _, cloneEdge_rc h hx⟩

theorem RcPost.clone_tickd {r : RSt} {ext : List ZEdge} {x : ZEdge} (h : RcInv r ext)
    (hx : has r.st.store x) : RcPost r ext (some x, cloneEdge r.tickd x) :=
  ⟨by rw [cloneEdge_st]; exact Store.Le.refl _, cloneEdge_rc h.tickd hx⟩

/-- the state of a failed / successful run as a function of the result -/
theorem RcPost.elim {r : RSt} {ext : List ZEdge} {R : Option ZEdge × RSt} (h : RcPost r ext R) :
    (∀ x, R.1 = some x → RcInv R.2 (x :: ext)) ∧ (R.1 = none → RcInv R.2 ext) := by
  obtain ⟨o, r'⟩ := R
  cases o with
  | none => exact ⟨fun x hx => (by cases hx), fun _ => h.2⟩
  | some y => exact ⟨fun x hx => (by cases hx; exact h.2), fun hx => (by cases hx)⟩

/-! ## `get_or_insert`, `reduce`, `reduce_borrowed` -/

theorem insertR_le (cap : Nat) (r : RSt) (l : Nat) (t e : ZEdge) :
    r.st.store.Le (insertR cap r l t e).2.st.store := by
  unfold insertR
  split
  · simp only [cloneEdge_st, dropEdge_st]; exact Store.Le.refl _
  · split
    · exact alloc_le _ _
    · simp only [dropEdge_st]; exact Store.Le.refl _

theorem insertR_cache (cap : Nat) (r : RSt) (l : Nat) (t e : ZEdge) :
    (insertR cap r l t e).2.st.cache = r.st.cache ∧ (insertR cap r l t e).2.st.tick = r.st.tick := by
  unfold insertR
  split
  · simp
  · split <;> simp

theorem insertR_post {cap : Nat} {r : RSt} {l : Nat} {t e : ZEdge} {ext : List ZEdge}
    (h : RcInv r (t :: e :: ext)) : RcPost r ext (insertR cap r l t e) := by
  have h1 := insertR_rc (cap := cap) (l := l) h
  have h2 := insertR_le cap r l t e
  cases hR : insertR cap r l t e with
  | mk o r' => rw [hR] at h1 h2; exact ⟨h2, h1⟩

theorem mkNodeR_post {cap : Nat} {r : RSt} {l : Nat} {t e : ZEdge} {ext : List ZEdge}
    (h : RcInv r (t :: e :: ext)) : RcPost r ext (mkNodeR cap r l t e) := by
  unfold mkNodeR
  by_cases ht : t = .empty
  · subst ht
    simp only [if_true]
    exact ⟨Store.Le.refl _, h.drop_empty⟩
  · simp only [ht, if_false]
    exact insertR_post h

theorem mkNodeBR_post {cap : Nat} {r : RSt} {l : Nat} {t e : ZEdge} {ext : List ZEdge}
    (h : RcInv r (e :: ext)) (ht : has r.st.store t) : RcPost r ext (mkNodeBR cap r l t e) := by
  unfold mkNodeBR
  by_cases hte : t = .empty
  · simp only [hte, if_true]
    exact ⟨Store.Le.refl _, h⟩
  · simp only [hte, if_false]
    have := insertR_post (cap := cap) (l := l) (cloneEdge_rc h ht)
    exact ⟨by have := this.1; rwa [cloneEdge_st] at this, this.2⟩

/-! ## control flow -/

/-- `?` + cache add: the new entry is the result, which the caller now owns -/
theorem finishAdd_post {p : Policy} (pok : p.OK) {r : RSt} {ext : List ZEdge} {key : ZKey}
    {R : Option ZEdge × RSt} (h : RcPost r ext R) : RcPost r ext (finishAdd p key R) := by
  obtain ⟨o, r'⟩ := R
  cases o with
  | none => exact h
  | some x =>
    obtain ⟨hle, hm⟩ := h
    refine ⟨hle, ⟨hm.ext_ok, hm.kids_ok, ?_, hm.rc_eq⟩⟩
    intro k v hkv
    rcases pok.add_sub _ _ _ _ _ hkv with hold | hnew
    · exact hm.cache_ok k v hold
    · cases hnew
      rw [decE_encE]
      exact hm.ext_ok x List.mem_cons_self

theorem bindR_post {c : RSt → Option ZEdge × RSt} {k : RSt → ZEdge → Option ZEdge × RSt}
    {r : RSt} {ext : List ZEdge} (h1 : RcPost r ext (c r))
    (h2 : ∀ x r1, RcInv r1 (x :: ext) → r.st.store.Le r1.st.store → RcPost r1 ext (k r1 x)) :
    RcPost r ext (bindR c k r) := by
  unfold bindR
  cases hc : c r with
  | mk o r1 =>
    rw [hc] at h1
    cases o with
    | none => exact h1
    | some x => exact (h2 x r1 h1.2 h1.1).of_le h1.1

/-- the sequential recursor: first call, second call (the first result is guarded), continuation —
exact counters whichever of the three fails -/
theorem forkR_post {c1 c0 : RSt → Option ZEdge × RSt}
    {k : RSt → ZEdge → ZEdge → Option ZEdge × RSt} {r : RSt} {ext : List ZEdge}
    (h1 : RcPost r ext (c1 r))
    (h0 : ∀ t r1, RcInv r1 (t :: ext) → r.st.store.Le r1.st.store → RcPost r1 (t :: ext) (c0 r1))
    (hk : ∀ hi lo r0, RcInv r0 (hi :: lo :: ext) → r.st.store.Le r0.st.store →
      RcPost r0 ext (k r0 hi lo)) :
    RcPost r ext (forkR c1 c0 k r) := by
  unfold forkR
  cases hc1 : c1 r with
  | mk o1 r1 =>
    rw [hc1] at h1
    cases o1 with
    | none => exact h1
    | some t =>
      obtain ⟨le1, i1⟩ := h1
      simp only at i1 le1 ⊢
      have h0' := h0 t r1 i1 le1
      cases hc0 : c0 r1 with
      | mk o0 r0 =>
        rw [hc0] at h0'
        obtain ⟨le0, i0⟩ := h0'
        cases o0 with
        | none =>
          simp only at i0 le0 ⊢
          refine ⟨?_, dropEdge_rc i0⟩
          simp only [dropEdge_st]
          exact le1.trans le0
        | some e =>
          simp only at i0 le0 ⊢
          exact (hk t e r0 i0.swap (le1.trans le0)).of_le (le1.trans le0)

/-! ## reading nodes -/

theorem node?_some {s : Store} {f : ZEdge} {n : ZNode} (h : s.node? f = some n) :
    ∃ i, f = .inner i ∧ s.get? i = some n := by
  cases f with
  | inner i => exact ⟨i, rfl, h⟩
  | empty => cases h
  | base => cases h

theorem node?_kids {r : RSt} {ext : List ZEdge} (h : RcInv r ext) {f : ZEdge} {n : ZNode}
    (hn : r.st.store.node? f = some n) : has r.st.store n.hi ∧ has r.st.store n.lo := by
  obtain ⟨i, _, hi⟩ := node?_some hn
  exact h.kids_ok i n hi

theorem cmpLevels_lt {s : Store} {f g : ZEdge} {nf : ZNode} (h : s.cmpLevels f g = .lt nf) :
    s.node? f = some nf := by
  unfold Store.cmpLevels at h
  cases hf : s.node? f with
  | none => rw [hf] at h; cases hg : s.node? g <;> rw [hg] at h <;> cases h
  | some n =>
    rw [hf] at h
    cases hg : s.node? g with
    | none => rw [hg] at h; cases h; rfl
    | some m =>
      rw [hg] at h
      simp only at h
      split at h
      · cases h; rfl
      · split at h <;> cases h

theorem cmpLevels_gt {s : Store} {f g : ZEdge} {ng : ZNode} (h : s.cmpLevels f g = .gt ng) :
    s.node? g = some ng := by
  unfold Store.cmpLevels at h
  cases hf : s.node? f with
  | none =>
    rw [hf] at h
    cases hg : s.node? g with
    | none => rw [hg] at h; cases h
    | some m => rw [hg] at h; cases h; rfl
  | some n =>
    rw [hf] at h
    cases hg : s.node? g with
    | none => rw [hg] at h; cases h
    | some m =>
      rw [hg] at h
      simp only at h
      split at h
      · cases h
      · split at h
        · cases h
        · cases h; rfl

theorem cmpLevels_eq {s : Store} {f g : ZEdge} {nf ng : ZNode} (h : s.cmpLevels f g = .eq nf ng) :
    s.node? f = some nf ∧ s.node? g = some ng ∧ nf.level = ng.level := by
  unfold Store.cmpLevels at h
  cases hf : s.node? f with
  | none => rw [hf] at h; cases hg : s.node? g <;> rw [hg] at h <;> cases h
  | some n =>
    rw [hf] at h
    cases hg : s.node? g with
    | none => rw [hg] at h; cases h
    | some m =>
      rw [hg] at h
      simp only at h
      split at h
      · cases h
      · split at h
        · rename_i heq; cases h; exact ⟨rfl, rfl, heq⟩
        · cases h

/-- what the terminal cases return is an operand or the `Empty` terminal -/
theorem terminalS_shape {op : SetOp} {f g x : ZEdge} (h : terminalS op f g = some x) :
    x = f ∨ x = g ∨ x = .empty := by
  cases op <;> simp only [terminalS] at h <;> (repeat' (split at h)) <;> simp_all

theorem terminalS_has {s : Store} {op : SetOp} {f g x : ZEdge} (hf : has s f) (hg : has s g)
    (h : terminalS op f g = some x) : has s x := by
  rcases terminalS_shape h with rfl | rfl | rfl
  · exact hf
  · exact hg
  · trivial

/-! ## the set operations -/

theorem setBodyR_rc {p : Policy} (pok : p.OK) (cap : Nat) (op : SetOp)
    (rec : RSt → ZEdge → ZEdge → Option ZEdge × RSt)
    (hrec : ∀ (r : RSt) (f g : ZEdge) (ext : List ZEdge), RcInv r ext → has r.st.store f →
      has r.st.store g → RcPost r ext (rec r f g))
    (r : RSt) (f g : ZEdge) (ext : List ZEdge) (h : RcInv r ext) (hf : has r.st.store f)
    (hg : has r.st.store g) : RcPost r ext (setBodyR cap p op rec r f g) := by
  unfold setBodyR
  cases hget : p.get r.st.tick r.st.cache (encKey ⟨setTag op, [f, g], []⟩) with
  | some x => exact RcPost.clone_tickd h (h.cache_ok _ _ (pok.get_mem _ _ _ _ hget))
  | none =>
    simp only
    cases hcmp : r.st.store.cmpLevels f g with
    | lt nf =>
      simp only
      have hk := node?_kids h (cmpLevels_lt hcmp)
      split
      · refine finishAdd_post pok (bindR_post (r := r.tickd) (hrec _ _ _ _ h.tickd hk.2 hg) ?_)
        intro x r1 i1 le1
        exact mkNodeBR_post i1 (hk.1.mono le1)
      · exact finishAdd_post pok (hrec r.tickd _ _ _ h.tickd hk.2 hg)
    | eq nf ng =>
      simp only
      obtain ⟨h1, h2, _⟩ := cmpLevels_eq hcmp
      have hkf := node?_kids h h1
      have hkg := node?_kids h h2
      refine finishAdd_post pok (forkR_post (r := r.tickd) (hrec _ _ _ _ h.tickd hkf.1 hkg.1) ?_ ?_)
      · intro t r1 i1 le1
        exact hrec _ _ _ _ i1 (hkf.2.mono le1) (hkg.2.mono le1)
      · intro hi lo r0 i0 _
        exact mkNodeR_post i0
    | gt ng =>
      simp only
      have hk := node?_kids h (cmpLevels_gt hcmp)
      split
      · refine finishAdd_post pok (bindR_post (r := r.tickd) (hrec _ _ _ _ h.tickd hf hk.2) ?_)
        intro x r1 i1 le1
        exact mkNodeBR_post i1 (hk.1.mono le1)
      · exact finishAdd_post pok (hrec r.tickd _ _ _ h.tickd hf hk.2)
    | none => exact RcPost.clone_tickd h hf

/-- **`apply_union / apply_intsec / apply_diff / apply_symm_diff` keep the counters exact** -/
theorem setOpR_rc {p : Policy} (pok : p.OK) (cap : Nat) (op : SetOp) (fuel : Nat) :
    ∀ (r : RSt) (f g : ZEdge) (ext : List ZEdge), RcInv r ext → has r.st.store f →
      has r.st.store g → RcPost r ext (setOpR cap p op fuel r f g) := by
  induction fuel with
  | zero => intro r f g ext h hf _; exact RcPost.clone h hf
  | succ fuel ih =>
    intro r f g ext h hf hg
    simp only [setOpR]
    cases hT : terminalS op f g with
    | some x => exact RcPost.clone h (terminalS_has hf hg hT)
    | none =>
      simp only
      split
      · exact setBodyR_rc pok cap op _ ih r g f ext h hg hf
      · exact setBodyR_rc pok cap op _ ih r f g ext h hf hg

/-! ## the chain as operand -/

/-- `tautology(level)` is an entry of the chain or the `Base` terminal -/
theorem tautologyS_mem (chain : List ZEdge) (level : Nat) :
    tautologyS chain level ∈ chain ∨ tautologyS chain level = .base := by
  unfold tautologyS
  by_cases hl : min (chain.length - 1) level < chain.length
  · left
    rw [List.getD_eq_getElem?_getD, List.getElem?_eq_getElem hl]
    exact List.getElem_mem hl
  · right
    rw [List.getD_eq_getElem?_getD, List.getElem?_eq_none (by omega)]
    rfl

theorem tautologyS_has {s : Store} {chain : List ZEdge} (h : ∀ e ∈ chain, has s e) (level : Nat) :
    has s (tautologyS chain level) := by
  rcases tautologyS_mem chain level with hm | hb
  · exact h _ hm
  · rw [hb]; trivial

/-- **`apply_not`** (`taut ∖ f`; the chain is among the externally owned edges) -/
theorem notR_rc {p : Policy} (pok : p.OK) (cap : Nat) (chain : List ZEdge) (fuel : Nat) (r : RSt)
    (f : ZEdge) (ext : List ZEdge) (h : RcInv r ext) (hch : ∀ e ∈ chain, e ∈ ext)
    (hf : has r.st.store f) : RcPost r ext (notR cap p chain fuel r f) :=
  setOpR_rc pok cap .diff fuel r _ f ext h
    (tautologyS_has (fun e he => h.ext_ok e (hch e he)) 0) hf

/-! ## `subset::<VAL>` -/

theorem subsetBelowR_rc (cap : Nat) (op : SubsetOp) (vl : Nat) (r : RSt) (f : ZEdge)
    (ext : List ZEdge) (h : RcInv r ext) (hf : has r.st.store f) :
    RcPost r ext (subsetBelowR cap op vl r f) := by
  cases op <;> simp only [subsetBelowR]
  · exact RcPost.clone h hf
  · exact ⟨Store.Le.refl _, h.add_empty⟩
  · have h2 : RcInv (cloneEdge r f) (f :: .empty :: ext) :=
      (cloneEdge_rc (cloneEdge_rc (x := .empty) h trivial) hf)
    have := mkNodeR_post (cap := cap) (l := vl) h2
    exact ⟨by have := this.1; rwa [cloneEdge_st] at this, this.2⟩

/-- **`subset0 / subset1 / change` keep the counters exact** -/
theorem subsetR_rc {p : Policy} (pok : p.OK) (cap : Nat) (op : SubsetOp) (var vl : Nat)
    (fuel : Nat) : ∀ (r : RSt) (f : ZEdge) (ext : List ZEdge), RcInv r ext → has r.st.store f →
      RcPost r ext (subsetR cap p op var vl fuel r f) := by
  induction fuel with
  | zero => intro r f ext h hf; exact RcPost.clone h hf
  | succ fuel ih =>
    intro r f ext h hf
    simp only [subsetR]
    cases hn : r.st.store.node? f with
    | none => exact subsetBelowR_rc cap op vl r f ext h hf
    | some n =>
      simp only
      have hk := node?_kids h hn
      split
      · cases hget : p.get r.st.tick r.st.cache (encKey ⟨subsetTag op, [f], [var]⟩) with
        | some x => exact RcPost.clone_tickd h (h.cache_ok _ _ (pok.get_mem _ _ _ _ hget))
        | none =>
          simp only
          refine finishAdd_post pok (forkR_post (r := r.tickd) (ih _ _ _ h.tickd hk.1) ?_ ?_)
          · intro t r1 i1 le1
            exact ih _ _ _ i1 (hk.2.mono le1)
          · intro hi lo r0 i0 _
            exact mkNodeR_post i0
      · split
        · cases op <;> simp only
          · exact RcPost.clone h hk.2
          · exact RcPost.clone h hk.1
          · have := mkNodeBR_post (cap := cap) (l := n.level) (t := n.lo) (cloneEdge_rc h hk.1)
              (by rw [cloneEdge_st]; exact hk.2)
            exact ⟨by have := this.1; rwa [cloneEdge_st] at this, this.2⟩
        · exact subsetBelowR_rc cap op vl r f ext h hf

/-! ## `var_edge`, `singleton_edge`, `t_edge` -/

theorem varLoopR_rc (cap : Nat) : ∀ (l : Nat) (r : RSt) (e : ZEdge) (ext : List ZEdge),
    RcInv r (e :: ext) → RcPost r ext (varLoopR cap l r e) := by
  intro l
  induction l with
  | zero => intro r e ext h; exact ⟨Store.Le.refl _, h⟩
  | succ l ih =>
    intro r e ext h
    simp only [varLoopR]
    have h2 : RcInv (cloneEdge r e) (e :: e :: ext) :=
      cloneEdge_rc h (h.ext_ok e List.mem_cons_self)
    have hp := insertR_post (cap := cap) (l := l) h2
    cases hR : insertR cap (cloneEdge r e) l e e with
    | mk o r' =>
      rw [hR] at hp
      have hle : r.st.store.Le r'.st.store := by have := hp.1; rwa [cloneEdge_st] at this
      cases o with
      | none => exact ⟨hle, hp.2⟩
      | some e' => exact (ih r' e' ext hp.2).of_le hle

/-- **`var_edge`** (uses `tautology(level + 1)` of the chain) -/
theorem varR_rc (cap : Nat) (chain : List ZEdge) (r : RSt) (level : Nat) (ext : List ZEdge)
    (h : RcInv r ext) (hch : ∀ e ∈ chain, e ∈ ext) : RcPost r ext (varR cap chain r level) := by
  unfold varR
  have ht : has r.st.store (tautologyS chain (level + 1)) :=
    tautologyS_has (fun e he => h.ext_ok e (hch e he)) _
  have h2 : RcInv (cloneEdge r (tautologyS chain (level + 1)))
      (tautologyS chain (level + 1) :: .empty :: ext) :=
    cloneEdge_rc h.add_empty ht
  have hp := insertR_post (cap := cap) (l := level) h2
  cases hR : insertR cap (cloneEdge r (tautologyS chain (level + 1))) level
      (tautologyS chain (level + 1)) .empty with
  | mk o r' =>
    rw [hR] at hp
    have hle : r.st.store.Le r'.st.store := by have := hp.1; rwa [cloneEdge_st] at this
    cases o with
    | none => exact ⟨hle, hp.2⟩
    | some e => exact (varLoopR_rc cap level r' e ext hp.2).of_le hle

/-- **`singleton_edge`** -/
theorem singletonR_rc (cap : Nat) (r : RSt) (level : Nat) (ext : List ZEdge) (h : RcInv r ext) :
    RcPost r ext (singletonR cap r level) :=
  insertR_post h.add_empty.add_base

/-- **`t_edge`** -/
theorem tR_rc (chain : List ZEdge) (r : RSt) (ext : List ZEdge) (h : RcInv r ext)
    (hch : ∀ e ∈ chain, e ∈ ext) : RcPost r ext (tR chain r) :=
  RcPost.clone h (tautologyS_has (fun e he => h.ext_ok e (hch e he)) 0)

end OxiddModel.Zbdd.Rc
