import OxiddModel.Zbdd.RcSLemmasAlg
import OxiddModel.Zbdd.RcSLemmasGc

/-!
# The tautology chain as internal roots: `try_remove_node`, `pre_reorder_mut`, `post_reorder_mut`,
`add_vars`, an empty `reorder`

The chain entries are externally owned edges: the invariant before is `RcInv r (chain ++ ext)`
(`ext` = the user's handles).

* `tryRemoveNodeR_rc`: releasing a chain entry — and, inside a reordering (apply cache empty),
  removing the node when only the table still references it — keeps `RcInv` for the other edges;
* `tearDownR_rc`: after `pre_reorder_mut` the counters are exact for the handles alone;
* `buildChainR_spec`: `post_reorder_mut` yields `RcInv r' (chain' ++ ext)`, the new chain is closed
  under children (`ChainClosed`), ends with `Base`, has one entry per level (+1); when a slot is
  missing (`none`: the real code aborts) the counters are still exact for `ext`;
* `addVarsR_rc`, `reorderNopR_rc`; `addVarsR_st`: outside a reordering `add_vars` removes nothing
  and leaves the apply cache alone; `addVarsR_erase`: a non-aborting `add_vars` builds exactly the
  chain of `ChainS.rebuildChain` / `Mgr.addVars`.
-/
namespace OxiddModel.Zbdd.Rc
open OxiddModel.Zbdd OxiddModel.Zbdd.ZDD OxiddModel.Zbdd.Refine
open OxiddModel.Bdd.Refine (Policy OpTag Key Cache)

/-! ## `try_remove_node` -/

theorem tryRemoveNodeR_cache (prepared : Bool) (r : RSt) (e : ZEdge) :
    (tryRemoveNodeR prepared r e).2.st.cache = r.st.cache := by
  cases e with
  | empty => rfl
  | base => rfl
  | inner i =>
    simp only [tryRemoveNodeR]
    split
    · split
      · rw [freeSlot_cache, dropEdge_st]
      · rw [dropEdge_st]
    · rw [dropEdge_st]

/-- outside a reordering nothing but the counter changes -/
theorem tryRemoveNodeR_false (r : RSt) (e : ZEdge) :
    tryRemoveNodeR false r e = (false, dropEdge r e) := by
  cases e with
  | empty => rfl
  | base => rfl
  | inner i => simp [tryRemoveNodeR]

theorem tryRemoveNodeR_sub (prepared : Bool) (r : RSt) (e : ZEdge) :
    Sub (tryRemoveNodeR prepared r e).2.st.store r.st.store := by
  cases e with
  | empty => exact Sub.refl _
  | base => exact Sub.refl _
  | inner i =>
    simp only [tryRemoveNodeR]
    split
    · split
      · intro k m hk
        rw [freeSlot_store, get?_free, dropEdge_st] at hk
        split at hk
        · cases hk
        · exact hk
      · rw [dropEdge_st]; exact Sub.refl _
    · rw [dropEdge_st]; exact Sub.refl _

/-- **`try_remove_node` keeps the counters exact**: the edge is released; the node is removed only
when the table's reference is the last one — and then, inside a reordering, no apply-cache entry
can refer to it because the cache is empty -/
theorem tryRemoveNodeR_rc {prepared : Bool} {r : RSt} {e : ZEdge} {ext : List ZEdge}
    (h : RcInv r (e :: ext)) (hc : prepared = true → r.st.cache = []) :
    RcInv (tryRemoveNodeR prepared r e).2 ext := by
  cases e with
  | empty => exact dropEdge_rc h
  | base => exact dropEdge_rc h
  | inner i =>
    have hd : RcInv (dropEdge r (.inner i)) ext := dropEdge_rc h
    simp only [tryRemoveNodeR]
    split
    · rename_i hcond
      cases hi : r.st.store.get? i with
      | none => exact hd
      | some n =>
        simp only
        refine freeSlot_inv hd ?_ ?_ ?_
        · rw [dropEdge_st]; exact hc hcond.2
        · rw [dropEdge_st]; exact hi
        · rw [rcGet_dropEdge, hcond.1]; simp [cnt]
    · exact hd

/-! ## `pre_reorder_mut` -/

theorem foldl_dropEdge_rc : ∀ (xs : List ZEdge) (r : RSt) (ext : List ZEdge),
    RcInv r (xs ++ ext) → RcInv (xs.foldl dropEdge r) ext := by
  intro xs
  induction xs with
  | nil => intro r ext h; exact h
  | cons x xs ih => intro r ext h; exact ih _ _ (dropEdge_rc h)

theorem foldl_dropEdge_st : ∀ (xs : List ZEdge) (r : RSt), (xs.foldl dropEdge r).st = r.st := by
  intro xs
  induction xs with
  | nil => intro r; rfl
  | cons x xs ih => intro r; rw [List.foldl_cons, ih, dropEdge_st]

theorem tearDownR_cons2 (f : RSt → ZEdge → Bool × RSt) (e e2 : ZEdge) (rest : List ZEdge) (r : RSt) :
    tearDownR f (e :: e2 :: rest) r =
      match f r e with
      | (true, r') => tearDownR f (e2 :: rest) r'
      | (false, r') => (e2 :: rest).foldl dropEdge r' := by
  rw [tearDownR]
  all_goals first | rfl | (intro h; cases h)

/-- **after `pre_reorder_mut` the counters are exact for the user's handles alone**: every chain
entry was released exactly once, whether `try_remove_node` removed its node or not -/
theorem tearDownR_rc {prepared : Bool} : ∀ (chain : List ZEdge) (r : RSt) (ext : List ZEdge),
    RcInv r (chain ++ ext) → (prepared = true → r.st.cache = []) →
    RcInv (tearDownR (tryRemoveNodeR prepared) chain r) ext := by
  intro chain
  induction chain with
  | nil => intro r ext h _; exact h
  | cons e rest ih =>
    intro r ext h hc
    cases rest with
    | nil => exact dropEdge_rc h
    | cons e2 rest =>
      rw [tearDownR_cons2]
      have h1 := tryRemoveNodeR_rc (prepared := prepared) h hc
      have hc1 := tryRemoveNodeR_cache prepared r e
      cases hR : tryRemoveNodeR prepared r e with
      | mk b r' =>
        rw [hR] at h1 hc1
        cases b with
        | true => exact ih r' ext h1 (fun hp => by rw [hc1]; exact hc hp)
        | false => exact foldl_dropEdge_rc _ _ _ h1

/-- outside a reordering `pre_reorder_mut` removes nothing and leaves the apply cache alone -/
theorem tearDownR_false_st : ∀ (chain : List ZEdge) (r : RSt),
    (tearDownR (tryRemoveNodeR false) chain r).st = r.st := by
  intro chain
  induction chain with
  | nil => intro r; rfl
  | cons e rest ih =>
    intro r
    cases rest with
    | nil => exact dropEdge_st r e
    | cons e2 rest =>
      rw [tearDownR_cons2, tryRemoveNodeR_false]
      simp only
      rw [foldl_dropEdge_st, dropEdge_st]

theorem tearDownR_sub {prepared : Bool} : ∀ (chain : List ZEdge) (r : RSt),
    Sub (tearDownR (tryRemoveNodeR prepared) chain r).st.store r.st.store ∧
    (tearDownR (tryRemoveNodeR prepared) chain r).st.cache = r.st.cache := by
  intro chain
  induction chain with
  | nil => intro r; exact ⟨Sub.refl _, rfl⟩
  | cons e rest ih =>
    intro r
    cases rest with
    | nil => rw [show tearDownR (tryRemoveNodeR prepared) [e] r = dropEdge r e from rfl, dropEdge_st]
             exact ⟨Sub.refl _, rfl⟩
    | cons e2 rest =>
      rw [tearDownR_cons2]
      have hs := tryRemoveNodeR_sub prepared r e
      have hc := tryRemoveNodeR_cache prepared r e
      cases hR : tryRemoveNodeR prepared r e with
      | mk b r' =>
        rw [hR] at hs hc
        cases b with
        | true =>
          simp only
          obtain ⟨a, b⟩ := ih r'
          exact ⟨a.trans hs, b.trans hc⟩
        | false =>
          simp only
          rw [foldl_dropEdge_st]
          exact ⟨hs, hc⟩

/-! ## `post_reorder_mut` -/

/-- the chain is closed under taking children -/
def ChainClosed (s : Store) (ch : List ZEdge) : Prop :=
  ∀ i n, .inner i ∈ ch → s.get? i = some n → n.hi ∈ ch ∧ n.lo ∈ ch

/-- a successful `get_or_insert` returns an edge to a slot holding the requested node -/
theorem insertR_get {cap : Nat} {r : RSt} {l : Nat} {t e x : ZEdge}
    (h : (insertR cap r l t e).1 = some x) :
    ∃ i, x = .inner i ∧ (insertR cap r l t e).2.st.store.get? i = some ⟨l, t, e⟩ := by
  unfold insertR at h ⊢
  cases hf : r.st.store.find? ⟨l, t, e⟩ with
  | some i =>
    rw [hf] at h
    simp only at h ⊢
    cases h
    exact ⟨i, rfl, by simp only [cloneEdge_st, dropEdge_st]; exact find?_some hf⟩
  | none =>
    rw [hf] at h
    simp only at h ⊢
    by_cases hc : count r.st.store < cap
    · simp only [hc, if_true] at h ⊢
      cases h
      exact ⟨_, rfl, by simp [get?_alloc]⟩
    · simp only [hc, if_false] at h
      cases h

theorem headD_mem {ch : List ZEdge} (hb : ZEdge.base ∈ ch) : ch.headD .base ∈ ch := by
  cases ch with
  | nil => cases hb
  | cons x xs => exact List.mem_cons_self

/-- **`post_reorder_mut`**: every new entry is an owned reference; the chain is closed under
children; abort (`none`) leaks nothing -/
theorem buildChainR_spec (cap n : Nat) : ∀ (j : Nat) (r : RSt) (ext : List ZEdge), RcInv r ext →
    r.st.store.Le (buildChainR cap n j r).2.st.store ∧
    (buildChainR cap n j r).2.st.cache = r.st.cache ∧
    match buildChainR cap n j r with
    | (some ch, r') => RcInv r' (ch ++ ext) ∧ .base ∈ ch ∧ ChainClosed r'.st.store ch ∧
        ch.length = j + 1
    | (none, r') => ∃ part, RcInv r' (part ++ ext) := by
  intro j
  induction j with
  | zero =>
    intro r ext h
    refine ⟨Store.Le.refl _, rfl, h.add_base, List.mem_cons_self, ?_, rfl⟩
    intro i n hm
    simp at hm
  | succ j ih =>
    intro r ext h
    obtain ⟨le1, hc1, i1⟩ := ih r ext h
    simp only [buildChainR]
    cases hB : buildChainR cap n j r with
    | mk o r' =>
      rw [hB] at le1 hc1 i1
      cases o with
      | none => exact ⟨le1, hc1, i1⟩
      | some ch =>
        obtain ⟨inv1, hb, hcl, hlen⟩ := i1
        simp only at le1 hc1 ⊢
        have hlast : ch.headD .base ∈ ch := headD_mem hb
        have hhas : has r'.st.store (ch.headD .base) :=
          inv1.ext_ok _ (List.mem_append_left _ hlast)
        have h2 : RcInv (cloneEdge (cloneEdge r' (ch.headD .base)) (ch.headD .base))
            (ch.headD .base :: ch.headD .base :: (ch ++ ext)) :=
          cloneEdge_rc (cloneEdge_rc inv1 hhas) (by rw [cloneEdge_st]; exact hhas)
        have hp := insertR_post (cap := cap) (l := n - (j + 1)) h2
        have hg : ∀ x, (insertR cap (cloneEdge (cloneEdge r' (ch.headD .base)) (ch.headD .base))
            (n - (j + 1)) (ch.headD .base) (ch.headD .base)).1 = some x → _ :=
          fun x => insertR_get (cap := cap)
            (r := cloneEdge (cloneEdge r' (ch.headD .base)) (ch.headD .base))
            (l := n - (j + 1)) (t := ch.headD .base) (e := ch.headD .base) (x := x)
        have hcc := insertR_cache cap (cloneEdge (cloneEdge r' (ch.headD .base)) (ch.headD .base))
          (n - (j + 1)) (ch.headD .base) (ch.headD .base)
        cases hR : insertR cap (cloneEdge (cloneEdge r' (ch.headD .base)) (ch.headD .base))
            (n - (j + 1)) (ch.headD .base) (ch.headD .base) with
        | mk o2 r'' =>
          rw [hR] at hp hg hcc
          have le2 : r'.st.store.Le r''.st.store := by
            have := hp.1; simp only [cloneEdge_st] at this; exact this
          have hc2 : r''.st.cache = r.st.cache := by
            have := hcc.1; simp only [cloneEdge_st] at this; rw [this, hc1]
          cases o2 with
          | none => exact ⟨le1.trans le2, hc2, ch, hp.2⟩
          | some e =>
            simp only
            refine ⟨le1.trans le2, hc2, hp.2, List.mem_cons_of_mem _ hb, ?_, by simp [hlen]⟩
            obtain ⟨a, rfl, ha⟩ := hg e rfl
            intro i m hm hi
            by_cases hia : i = a
            · subst hia
              simp only at ha
              rw [ha] at hi; cases hi
              exact ⟨List.mem_cons_of_mem _ hlast, List.mem_cons_of_mem _ hlast⟩
            · have hm' : ZEdge.inner i ∈ ch := by
                rcases List.mem_cons.mp hm with heq | hm'
                · cases heq; exact absurd rfl hia
                · exact hm'
              have hx : has r'.st.store (.inner i) := inv1.ext_ok _ (List.mem_append_left _ hm')
              obtain ⟨m0, hm0⟩ := hx
              obtain ⟨x, y⟩ := hcl i m0 hm' hm0
              have := le2 i m0 hm0
              rw [this] at hi; cases hi
              exact ⟨List.mem_cons_of_mem _ x, List.mem_cons_of_mem _ y⟩

/-! ## `add_vars`, empty `reorder` -/

/-- **`add_vars` keeps the counters exact** for the new chain and the user's handles; on abort
for the handles alone -/
theorem addVarsR_rc {cap n k : Nat} {chain : List ZEdge} {r : RSt} {ext : List ZEdge}
    (h : RcInv r (chain ++ ext)) :
    r.st.store.Le (addVarsR cap n k chain r).2.st.store ∧
    (addVarsR cap n k chain r).2.st.cache = r.st.cache ∧
    match addVarsR cap n k chain r with
    | (some ch, r') => RcInv r' (ch ++ ext) ∧ .base ∈ ch ∧ ChainClosed r'.st.store ch ∧
        ch.length = n + k + 1
    | (none, r') => ∃ part, RcInv r' (part ++ ext) := by
  unfold addVarsR
  have h1 := tearDownR_rc (prepared := false) chain r ext h (fun hp => by cases hp)
  have hst := tearDownR_false_st chain r
  obtain ⟨a, b, c⟩ := buildChainR_spec cap (n + k) (n + k) _ ext h1
  rw [hst] at a b
  exact ⟨a, b, c⟩

/-- **an empty `Manager::reorder` keeps the counters exact** (chain nodes are removed and
re-created; the apply cache is cleared first) -/
theorem reorderNopR_rc {cap n : Nat} {chain : List ZEdge} {r : RSt} {ext : List ZEdge}
    (h : RcInv r (chain ++ ext)) :
    (reorderNopR cap n chain r).2.st.cache = [] ∧
    match reorderNopR cap n chain r with
    | (some ch, r') => RcInv r' (ch ++ ext) ∧ .base ∈ ch ∧ ChainClosed r'.st.store ch ∧
        ch.length = n + 1
    | (none, r') => ∃ part, RcInv r' (part ++ ext) := by
  unfold reorderNopR
  have h0 : RcInv { r with st := { r.st with cache := [] } } (chain ++ ext) :=
    ⟨h.ext_ok, h.kids_ok, fun _ _ hm => (by cases hm), h.rc_eq⟩
  have h1 := tearDownR_rc (prepared := true) chain _ ext h0 (fun _ => rfl)
  have hc := (tearDownR_sub (prepared := true) chain { r with st := { r.st with cache := [] } }).2
  obtain ⟨_, b, c⟩ := buildChainR_spec cap n n _ ext h1
  exact ⟨b.trans hc, c⟩

/-! ## erasure of the chain construction -/

/-- a non-aborting `post_reorder_mut` is `ChainS.buildChain` -/
theorem buildChainR_erase (cap n : Nat) : ∀ (j : Nat) (r : RSt) (ch : List ZEdge),
    (buildChainR cap n j r).1 = some ch →
    buildChain n j r.st.store = ((buildChainR cap n j r).2.st.store, ch) := by
  intro j
  induction j with
  | zero => intro r ch h; simp only [buildChainR] at h; cases h; rfl
  | succ j ih =>
    intro r ch h
    simp only [buildChainR] at h ⊢
    cases hB : buildChainR cap n j r with
    | mk o r' =>
      rw [hB] at h
      cases o with
      | none => cases h
      | some ch0 =>
        have e0 := ih r ch0 (by rw [hB])
        rw [hB] at e0
        simp only at h ⊢
        simp only [buildChain, e0]
        generalize hlast : ch0.headD .base = last at h ⊢
        unfold insertR at h ⊢
        unfold Store.getOrInsert
        simp only [cloneEdge_st] at h ⊢
        cases hf : r'.st.store.find? ⟨n - (j + 1), last, last⟩ with
        | some i =>
          rw [hf] at h
          simp only at h ⊢
          cases h
          simp
        | none =>
          rw [hf] at h
          simp only at h ⊢
          by_cases hc : count r'.st.store < cap
          · simp only [hc, if_true] at h ⊢
            cases h
            rfl
          · simp only [hc, if_false] at h
            cases h

/-- **a non-aborting `add_vars` is `Mgr.addVars` of `ChainS.lean`**: the same store, the same
chain, the apply cache untouched -/
theorem addVarsR_erase {cap n k : Nat} {chain ch : List ZEdge} {r : RSt}
    (h : (addVarsR cap n k chain r).1 = some ch) :
    rebuildChain (n + k) r.st.store = ((addVarsR cap n k chain r).2.st.store, ch) ∧
    (addVarsR cap n k chain r).2.st.cache = r.st.cache := by
  unfold addVarsR at h ⊢
  have := buildChainR_erase cap (n + k) (n + k) _ ch h
  rw [tearDownR_false_st] at this
  refine ⟨this, ?_⟩
  have hc : ∀ (j : Nat) (r0 : RSt), (buildChainR cap (n + k) j r0).2.st.cache = r0.st.cache := by
    intro j
    induction j with
    | zero => intro r0; rfl
    | succ j ih =>
      intro r0
      simp only [buildChainR]
      have := ih r0
      cases hB : buildChainR cap (n + k) j r0 with
      | mk o r' =>
        rw [hB] at this
        cases o with
        | none => exact this
        | some ch0 =>
          simp only
          have hcc := insertR_cache cap (cloneEdge (cloneEdge r' (ch0.headD .base)) (ch0.headD .base))
            (n + k - (j + 1)) (ch0.headD .base) (ch0.headD .base)
          cases hR : insertR cap (cloneEdge (cloneEdge r' (ch0.headD .base)) (ch0.headD .base))
              (n + k - (j + 1)) (ch0.headD .base) (ch0.headD .base) with
          | mk o2 r'' =>
            rw [hR] at hcc
            have := hcc.1
            simp only [cloneEdge_st] at this
            cases o2 <;> simp only <;> rw [this] <;> assumption
  rw [hc, tearDownR_false_st]

end OxiddModel.Zbdd.Rc
