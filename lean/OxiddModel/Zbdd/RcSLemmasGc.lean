import OxiddModel.Zbdd.RcSLemmasInv

/-!
# The counter-driven collection `gcR` (`Manager::gc`)

* `gcSlot_rc` / `gcLevel_rc` / `gcR_rc`: every single removal (`rc == 1` ⇒ remove from the unique
  table, `free_slot` drops the children) keeps `RcInv` — for any store, ordered or not;
* `gcR_sub`: nothing is created or changed; `gcR_keeps_reach`: no node reachable from the external
  edges is removed, `gcR_denotes`: external edges denote what they denoted;
* `gcR_complete`: if the store is ordered (children on strictly larger levels) and all levels are
  visited, every node that survives the single top-down pass is reachable from an external edge.
-/
namespace OxiddModel.Zbdd.Rc
open OxiddModel.Zbdd OxiddModel.Zbdd.ZDD OxiddModel.Zbdd.Refine
open OxiddModel.Bdd.Refine (Policy OpTag Key Cache)

/-! ## reachability, orderedness -/

/-- slot `i` is reachable from the external edges through stored nodes -/
inductive Reach (s : Store) (ext : List ZEdge) : Nat → Prop
  | root {i : Nat} : .inner i ∈ ext → Reach s ext i
  | kid {p i : Nat} {n : ZNode} : Reach s ext p → s.get? p = some n →
      (n.hi = .inner i ∨ n.lo = .inner i) → Reach s ext i

/-- children live on strictly larger levels (`Manager::gc` relies on it: one top-down pass) -/
def SOrdered (s : Store) : Prop :=
  ∀ i n j m, s.get? i = some n → (n.hi = .inner j ∨ n.lo = .inner j) → s.get? j = some m →
    n.level < m.level

/-- `s'` is `s` with some slots emptied -/
def Sub (s' s : Store) : Prop := ∀ i n, s'.get? i = some n → s.get? i = some n

theorem Sub.refl (s : Store) : Sub s s := fun _ _ h => h
theorem Sub.trans {a b c : Store} (h1 : Sub a b) (h2 : Sub b c) : Sub a c :=
  fun i n h => h2 i n (h1 i n h)

theorem sordered_sub {s s' : Store} (h : SOrdered s) (hs : Sub s' s) : SOrdered s' :=
  fun i n j m hi hc hj => h i n j m (hs i n hi) hc (hs j m hj)

theorem Reach.sub {s s' : Store} {ext : List ZEdge} (hs : Sub s' s) {i : Nat}
    (h : Reach s' ext i) : Reach s ext i := by
  induction h with
  | root hm => exact .root hm
  | kid _ hp hc ih => exact .kid ih (hs _ _ hp) hc

/-! ## counters after `drop_edge` -/

theorem rcGet_dropEdge (r : RSt) (x : ZEdge) (k : Nat) :
    rcGet (dropEdge r x).rc k = rcGet r.rc k - cnt x k := by
  cases x with
  | empty => simp [dropEdge, cnt]
  | base => simp [dropEdge, cnt]
  | inner j =>
    simp only [dropEdge, rcGet_rcSet, cnt]
    by_cases hkj : k = j
    · subst hkj; simp
    · have : ZEdge.inner j ≠ ZEdge.inner k := fun e => hkj (by cases e; rfl)
      simp [hkj, this]

/-- a positive parent count is witnessed by a stored parent -/
theorem parents_pos {s : Store} {j : Nat} (h : 0 < parents s j) :
    ∃ k n, s.get? k = some n ∧ (n.hi = .inner j ∨ n.lo = .inner j) := by
  apply Classical.byContradiction
  intro hno
  have : parents s j = 0 := parents_zero (fun k n hk =>
    ⟨fun ht => hno ⟨k, n, hk, .inl ht⟩, fun he => hno ⟨k, n, hk, .inr he⟩⟩)
  omega

theorem le_sum_of_mem {α} (f : α → Nat) : ∀ (l : List α) (a : α), a ∈ l → f a ≤ (l.map f).sum := by
  intro l
  induction l with
  | nil => intro a h; cases h
  | cons b bs ih =>
    intro a h
    simp only [List.map_cons, List.sum_cons]
    rcases List.mem_cons.mp h with rfl | h
    · omega
    · have := ih a h; omega

theorem parents_zero_no_child {s : Store} {j : Nat} (h : parents s j = 0) {k : Nat} {n : ZNode}
    (hk : s.get? k = some n) : n.hi ≠ .inner j ∧ n.lo ≠ .inner j := by
  have hlt : k < s.nodes.size := by
    by_cases hlt : k < s.nodes.size
    · exact hlt
    · simp [Store.get?, hlt] at hk
  have hn : s.nodes[k] = some n := by simpa [Store.get?, hlt] using hk
  have hmem : some n ∈ s.nodes.toList := by
    rw [← hn]; exact Array.getElem_mem_toList hlt
  have hle : refsOpt j (some n) ≤ parents s j := by
    unfold parents
    exact le_sum_of_mem (refsOpt j) _ _ hmem
  rw [h] at hle
  simp only [refsOpt, cnt] at hle
  constructor
  · intro ht; simp [ht] at hle
  · intro he; simp [he] at hle

/-! ## one removal -/

theorem gcSlot_eq (l : Nat) (r : RSt) (i : Nat) :
    gcSlot l r i = match r.st.store.get? i with
      | none => r
      | some n => if n.level = l ∧ rcGet r.rc i = 1 then freeSlot r i n else r := rfl

theorem freeSlot_store (r : RSt) (i : Nat) (n : ZNode) :
    (freeSlot r i n).st.store = ⟨r.st.store.nodes.set! i none⟩ := by
  simp [freeSlot]

theorem freeSlot_cache (r : RSt) (i : Nat) (n : ZNode) :
    (freeSlot r i n).st.cache = r.st.cache := by
  simp [freeSlot]

theorem freeSlot_rc (r : RSt) (i : Nat) (n : ZNode) (k : Nat) :
    rcGet (freeSlot r i n).rc k = rcGet r.rc k - cnt n.hi k - cnt n.lo k := by
  simp only [freeSlot, rcGet_dropEdge]

theorem has_free {s : Store} {i : Nat} {x : ZEdge} (hx : has s x) (hne : x ≠ .inner i) :
    has (⟨s.nodes.set! i none⟩ : Store) x := by
  cases x with
  | empty => trivial
  | base => trivial
  | inner j =>
    obtain ⟨m, hm⟩ := hx
    refine ⟨m, ?_⟩
    rw [get?_free]
    have : j ≠ i := fun e => hne (by rw [e])
    simp [this, hm]

/-- removing a node that only the unique table references keeps the invariant -/
theorem freeSlot_inv {r : RSt} {ext : List ZEdge} {i : Nat} {n : ZNode} (h : RcInv r ext)
    (hc : r.st.cache = []) (hi : r.st.store.get? i = some n) (hrc : rcGet r.rc i = 1) :
    RcInv (freeSlot r i n) ext := by
  have heq := h.rc_eq i n hi
  rw [hrc] at heq
  have hcnt : ext.count (.inner i) = 0 := by omega
  have hpar : parents r.st.store i = 0 := by omega
  have hnotmem : ZEdge.inner i ∉ ext := List.count_eq_zero.mp hcnt
  refine ⟨?_, ?_, ?_, ?_⟩
  · intro e he
    rw [freeSlot_store]
    exact has_free (h.ext_ok e he) (fun e' => hnotmem (e' ▸ he))
  · intro k m hk
    rw [freeSlot_store] at hk ⊢
    rw [get?_free] at hk
    split at hk
    · cases hk
    · obtain ⟨h1, h2⟩ := h.kids_ok k m hk
      obtain ⟨n1, n2⟩ := parents_zero_no_child hpar hk
      exact ⟨has_free h1 n1, has_free h2 n2⟩
  · intro k v hkv
    rw [freeSlot_cache, hc] at hkv
    cases hkv
  · intro k m hk
    rw [freeSlot_store] at hk ⊢
    rw [get?_free] at hk
    split at hk
    · cases hk
    · have := h.rc_eq k m hk
      have hp := parents_free r.st.store i n k hi
      rw [freeSlot_rc]
      omega

theorem gcSlot_rc {l : Nat} {r : RSt} {ext : List ZEdge} (i : Nat) (h : RcInv r ext)
    (hc : r.st.cache = []) : RcInv (gcSlot l r i) ext ∧ (gcSlot l r i).st.cache = [] := by
  rw [gcSlot_eq]
  cases hi : r.st.store.get? i with
  | none => exact ⟨h, hc⟩
  | some n =>
    simp only
    split
    · rename_i hcond
      exact ⟨freeSlot_inv h hc hi hcond.2, by rw [freeSlot_cache]; exact hc⟩
    · exact ⟨h, hc⟩

theorem gcSlot_sub (l : Nat) (r : RSt) (i : Nat) : Sub (gcSlot l r i).st.store r.st.store := by
  rw [gcSlot_eq]
  cases hi : r.st.store.get? i with
  | none => exact Sub.refl _
  | some n =>
    simp only
    split
    · intro k m hk
      rw [freeSlot_store, get?_free] at hk
      split at hk
      · cases hk
      · exact hk
    · exact Sub.refl _

theorem gcSlot_size (l : Nat) (r : RSt) (i : Nat) :
    (gcSlot l r i).st.store.nodes.size = r.st.store.nodes.size := by
  rw [gcSlot_eq]
  cases hi : r.st.store.get? i with
  | none => rfl
  | some n =>
    simp only
    split
    · rw [freeSlot_store]; simp
    · rfl

/-! ## folds -/

/-- a property of states that every `gcSlot` step preserves is preserved by the whole collection -/
theorem foldl_gcSlot_ind {P : RSt → Prop} (l : Nat) (hstep : ∀ r i, P r → P (gcSlot l r i)) :
    ∀ (is : List Nat) (r : RSt), P r → P (is.foldl (gcSlot l) r) := by
  intro is
  induction is with
  | nil => intro r h; exact h
  | cons i is ih => intro r h; exact ih _ (hstep r i h)

theorem gcLevel_ind {P : RSt → Prop} (hstep : ∀ l r i, P r → P (gcSlot l r i)) (r : RSt) (l : Nat)
    (h : P r) : P (gcLevel r l) := foldl_gcSlot_ind l (hstep l) _ r h

theorem gcLevels_ind {P : RSt → Prop} (hstep : ∀ l r i, P r → P (gcSlot l r i)) :
    ∀ (ls : List Nat) (r : RSt), P r → P (ls.foldl gcLevel r) := by
  intro ls
  induction ls with
  | nil => intro r h; exact h
  | cons l ls ih => intro r h; exact ih _ (gcLevel_ind hstep r l h)

/-- **the collection keeps the counters exact** (no orderedness needed) -/
theorem gcR_rc {r : RSt} {ext : List ZEdge} (numLevels : Nat) (h : RcInv r ext) :
    RcInv (gcR numLevels r) ext ∧ (gcR numLevels r).st.cache = [] := by
  unfold gcR
  apply gcLevels_ind (P := fun r => RcInv r ext ∧ r.st.cache = [])
  · intro l r i ⟨h1, h2⟩; exact gcSlot_rc i h1 h2
  · refine ⟨RcInv.mk h.ext_ok h.kids_ok ?_ h.rc_eq, rfl⟩
    intro k v hm
    cases hm

/-- nothing is created, no node changes -/
theorem gcR_sub (numLevels : Nat) (r : RSt) : Sub (gcR numLevels r).st.store r.st.store := by
  unfold gcR
  exact gcLevels_ind (P := fun r' => Sub r'.st.store r.st.store)
    (fun l r' i h => (gcSlot_sub l r' i).trans h) _ _ (Sub.refl _)

theorem gcR_size (numLevels : Nat) (r : RSt) :
    (gcR numLevels r).st.store.nodes.size = r.st.store.nodes.size := by
  unfold gcR
  exact gcLevels_ind (P := fun r' => r'.st.store.nodes.size = r.st.store.nodes.size)
    (fun l r' i h => (gcSlot_size l r' i).trans h) _ _ rfl

/-! ## soundness: reachable nodes survive, denotations are kept -/

theorem gcR_keeps_reach {r : RSt} {ext : List ZEdge} (numLevels : Nat) (h : RcInv r ext) {i : Nat}
    (hr : Reach r.st.store ext i) :
    ∃ n, r.st.store.get? i = some n ∧ (gcR numLevels r).st.store.get? i = some n := by
  have hF := (gcR_rc numLevels h).1
  have hsub := gcR_sub numLevels r
  induction hr with
  | root hm =>
    obtain ⟨n, hn⟩ := hF.ext_ok _ hm
    exact ⟨n, hsub _ _ hn, hn⟩
  | @kid p i n _ hp hc ih =>
    obtain ⟨n', hn', hfn'⟩ := ih
    rw [hp] at hn'; cases hn'
    have hk := hF.kids_ok p n hfn'
    have : has (gcR numLevels r).st.store (.inner i) := by
      rcases hc with hc | hc
      · rw [← hc]; exact hk.1
      · rw [← hc]; exact hk.2
    obtain ⟨m, hm⟩ := this
    exact ⟨m, hsub _ _ hm, hm⟩

theorem gcR_denotes {r : RSt} {ext : List ZEdge} (numLevels : Nat) (h : RcInv r ext) {x : ZEdge}
    {T : ZDD} (hd : DenotesZ r.st.store x T)
    (hx : ∀ i, x = .inner i → Reach r.st.store ext i) :
    DenotesZ (gcR numLevels r).st.store x T := by
  induction hd with
  | empty => exact .empty
  | base => exact .base
  | @inner i l t e tt te hi _ _ iht ihe =>
    have hri := hx i rfl
    obtain ⟨n, hn, hfn⟩ := gcR_keeps_reach numLevels h hri
    rw [hi] at hn; cases hn
    refine .inner hfn (iht ?_) (ihe ?_)
    · intro j hj; exact .kid hri hi (.inl hj)
    · intro j hj; exact .kid hri hi (.inr hj)

/-! ## completeness under orderedness: survivors are reachable -/

/-- the nodes of the levels already visited (levels `< l`, and level `l` up to slot `j`) are all
referenced from outside the table -/
def Visited (l j : Nat) (r : RSt) : Prop :=
  ∀ i n, r.st.store.get? i = some n → (n.level < l ∨ (n.level = l ∧ i < j)) → rcGet r.rc i ≠ 1

theorem gcSlot_visited {l j : Nat} {r : RSt} (ho : SOrdered r.st.store) (hv : Visited l j r) :
    Visited l (j + 1) (gcSlot l r j) := by
  rw [gcSlot_eq]
  cases hj : r.st.store.get? j with
  | none =>
    intro i n hi hc
    apply hv i n hi
    rcases hc with hc | ⟨h1, h2⟩
    · exact .inl hc
    · by_cases hij : i = j
      · subst hij; rw [hj] at hi; cases hi
      · exact .inr ⟨h1, by omega⟩
  | some nj =>
    simp only
    split
    · -- removed
      rename_i hcond
      intro i n hi hc
      rw [freeSlot_store, get?_free] at hi
      split at hi
      · cases hi
      · rename_i hij
        rw [freeSlot_rc]
        -- `i` is not a child of the removed node: it is not below level `l`
        have hnt : nj.hi ≠ .inner i := fun ht => by
          have := ho j nj i n hj (.inl ht) hi
          rcases hc with hc | ⟨hc, _⟩ <;> omega
        have hne : nj.lo ≠ .inner i := fun he => by
          have := ho j nj i n hj (.inr he) hi
          rcases hc with hc | ⟨hc, _⟩ <;> omega
        simp only [cnt, hnt, hne, if_false, Nat.sub_zero]
        apply hv i n hi
        rcases hc with hc | ⟨h1, h2⟩
        · exact .inl hc
        · exact .inr ⟨h1, by omega⟩
    · rename_i hcond
      intro i n hi hc
      by_cases hij : i = j
      · subst hij
        rw [hj] at hi; cases hi
        rcases hc with hc | ⟨h1, _⟩
        · exact hv i nj hj (.inl hc)
        · intro h1'; exact hcond ⟨h1, h1'⟩
      · apply hv i n hi
        rcases hc with hc | ⟨h1, h2⟩
        · exact .inl hc
        · exact .inr ⟨h1, by omega⟩

theorem foldl_range_visited (l : Nat) : ∀ (k : Nat) (r : RSt), SOrdered r.st.store → Visited l 0 r →
    SOrdered ((List.range k).foldl (gcSlot l) r).st.store ∧
    Sub ((List.range k).foldl (gcSlot l) r).st.store r.st.store ∧
    Visited l k ((List.range k).foldl (gcSlot l) r) := by
  intro k
  induction k with
  | zero => intro r ho hv; exact ⟨ho, Sub.refl _, hv⟩
  | succ k ih =>
    intro r ho hv
    rw [List.range_succ, List.foldl_append]
    obtain ⟨ho', hs', hv'⟩ := ih r ho hv
    simp only [List.foldl_cons, List.foldl_nil]
    exact ⟨sordered_sub ho' (gcSlot_sub _ _ _), (gcSlot_sub _ _ _).trans hs', gcSlot_visited ho' hv'⟩

theorem gcLevel_visited {l : Nat} {r : RSt} (ho : SOrdered r.st.store) (hv : Visited l 0 r) :
    SOrdered (gcLevel r l).st.store ∧ Sub (gcLevel r l).st.store r.st.store ∧
    Visited (l + 1) 0 (gcLevel r l) := by
  obtain ⟨ho', hs', hv'⟩ := foldl_range_visited l r.st.store.nodes.size r ho hv
  refine ⟨ho', hs', ?_⟩
  intro i n hi hc
  apply hv' i n hi
  have hlt : i < r.st.store.nodes.size := by
    have := hs' i n hi
    by_cases hlt : i < r.st.store.nodes.size
    · exact hlt
    · simp [Store.get?, hlt] at this
  rcases hc with hc | ⟨_, h2⟩
  · by_cases hl : n.level < l
    · exact .inl hl
    · exact .inr ⟨by omega, hlt⟩
  · omega

theorem gcLevels_visited : ∀ (k : Nat) (r : RSt), SOrdered r.st.store →
    SOrdered ((List.range k).foldl gcLevel r).st.store ∧
    Visited k 0 ((List.range k).foldl gcLevel r) := by
  intro k
  induction k with
  | zero =>
    intro r ho
    refine ⟨ho, ?_⟩
    intro i n _ hc
    rcases hc with hc | ⟨_, hc⟩ <;> omega
  | succ k ih =>
    intro r ho
    rw [List.range_succ, List.foldl_append]
    obtain ⟨ho', hv'⟩ := ih r ho
    simp only [List.foldl_cons, List.foldl_nil]
    obtain ⟨a, _, c⟩ := gcLevel_visited ho' hv'
    exact ⟨a, c⟩

/-- **every survivor of the single top-down pass is reachable from an external edge** -/
theorem gcR_complete {r : RSt} {ext : List ZEdge} (numLevels : Nat) (h : RcInv r ext)
    (ho : SOrdered r.st.store) (hl : ∀ i n, r.st.store.get? i = some n → n.level < numLevels)
    {i : Nat} {n : ZNode} (hi : (gcR numLevels r).st.store.get? i = some n) :
    Reach r.st.store ext i := by
  have hF := (gcR_rc numLevels h).1
  have hsub := gcR_sub numLevels r
  have hoF : SOrdered (gcR numLevels r).st.store := sordered_sub ho hsub
  have hV : Visited numLevels 0 (gcR numLevels r) := by
    unfold gcR
    exact (gcLevels_visited numLevels { r with st := { r.st with cache := [] } } ho).2
  apply Reach.sub hsub
  -- strong induction on the level
  suffices H : ∀ (L : Nat) (i : Nat) (n : ZNode), (gcR numLevels r).st.store.get? i = some n →
      n.level ≤ L → Reach (gcR numLevels r).st.store ext i from H n.level i n hi (Nat.le_refl _)
  intro L
  induction L with
  | zero =>
    intro i n hi hle
    have hne := hV i n hi (.inl (hl i n (hsub i n hi)))
    have heq := hF.rc_eq i n hi
    by_cases hc : 0 < ext.count (.inner i)
    · exact .root (List.count_pos_iff.mp hc)
    · have hp : 0 < parents (gcR numLevels r).st.store i := by omega
      obtain ⟨k, m, hk, hch⟩ := parents_pos hp
      have := hoF k m i n hk hch hi
      omega
  | succ L ih =>
    intro i n hi hle
    have hne := hV i n hi (.inl (hl i n (hsub i n hi)))
    have heq := hF.rc_eq i n hi
    by_cases hc : 0 < ext.count (.inner i)
    · exact .root (List.count_pos_iff.mp hc)
    · have hp : 0 < parents (gcR numLevels r).st.store i := by omega
      obtain ⟨k, m, hk, hch⟩ := parents_pos hp
      have hlt := hoF k m i n hk hch hi
      exact .kid (ih k m hk (by omega)) hk hch

end OxiddModel.Zbdd.Rc
