import OxiddModel.Zbdd.RcS

/-!
# The reference-count invariant (with internal roots) and its preservation by the primitives

`RcInv r ext`: for every stored node `rc = 1 + #(occurrences in ext) + #(stored parent edges)`
(the `1` is the unique table's own reference — `ref_count()` reports `rc - 1`), where `ext` is the
multiset (a list, used only through `List.count` / membership) of the **externally owned** edges:
the handles of the user, the entries of the tautology chain (`ZBDDCache::tautologies`, the
*internal roots*: at history level `ext = chain ++ handles`), and the temporaries the running
algorithm currently owns. It also contains the closedness facts the counters rely on: external
edges, child edges and cached results point to stored nodes.

`cloneEdge_rc`, `dropEdge_rc`, `insertR_rc` (`get_or_insert`: hit, allocation, OutOfMemory),
`mkNodeR_rc` (`reduce`), `mkNodeBR_rc` (`reduce_borrowed`).
-/
namespace OxiddModel.Zbdd.Rc
open OxiddModel.Zbdd OxiddModel.Zbdd.ZDD OxiddModel.Zbdd.Refine
open OxiddModel.Bdd.Refine (Policy OpTag Key Cache)

/-! ## the counter array -/

theorem rcGet_rcSet (m : Array Nat) (i v j : Nat) :
    rcGet (rcSet m i v) j = if j = i then v else rcGet m j := by
  have key : ∀ (a : Array Nat), i < a.size →
      (a.set! i v).getD j 0 = if j = i then v else a.getD j 0 := by
    intro a hi
    by_cases hj : j = i
    · subst hj; simp [Array.getD, hi]
    · simp only [hj, if_false]
      simp only [Array.getD_eq_getD_getElem?, Array.set!_eq_setIfInBounds,
        Array.getElem?_setIfInBounds]
      simp [Ne.symm hj]
  unfold rcGet rcSet
  by_cases hi : i < m.size
  · simp only [hi, if_true]
    exact key m hi
  · simp only [hi, if_false]
    rw [key _ (by simp; omega)]
    by_cases hj : j = i
    · simp [hj]
    · simp only [hj, if_false]
      simp only [Array.getD_eq_getD_getElem?]
      rw [Array.getElem?_append]
      by_cases hjm : j < m.size
      · simp [hjm]
      · simp only [hjm, if_false]
        have : m[j]? = none := by simp; omega
        rw [this]
        by_cases hji : j - m.size < i + 1 - m.size
        · simp [hji]
        · simp [hji]

/-! ## the counters do not influence anything else -/

@[simp] theorem cloneEdge_st (r : RSt) (e : ZEdge) : (cloneEdge r e).st = r.st := by
  cases e <;> rfl

@[simp] theorem dropEdge_st (r : RSt) (e : ZEdge) : (dropEdge r e).st = r.st := by
  cases e <;> rfl

@[simp] theorem tickd_st (r : RSt) : r.tickd.st = r.st.tickd := rfl
@[simp] theorem tickd_rc (r : RSt) : r.tickd.rc = r.rc := rfl

@[simp] theorem dropEdge_empty (r : RSt) : dropEdge r .empty = r := rfl
@[simp] theorem dropEdge_base (r : RSt) : dropEdge r .base = r := rfl
@[simp] theorem cloneEdge_empty (r : RSt) : cloneEdge r .empty = r := rfl
@[simp] theorem cloneEdge_base (r : RSt) : cloneEdge r .base = r := rfl

/-! ## stored parent edges -/

/-- 1 if the edge points to slot `i` -/
def cnt (e : ZEdge) (i : Nat) : Nat := if e = .inner i then 1 else 0

/-- number of child edges of a slot's content that point to slot `i` -/
def refsOpt (i : Nat) : Option ZNode → Nat
  | none => 0
  | some n => cnt n.hi i + cnt n.lo i

/-- number of stored parent edges of slot `i` (parents that are garbage included) -/
def parents (s : Store) (i : Nat) : Nat := (s.nodes.toList.map (refsOpt i)).sum

/-- the edge points to a terminal or to an occupied slot -/
def has (s : Store) : ZEdge → Prop
  | .inner i => ∃ n, s.get? i = some n
  | _ => True

/-- **the reference-count invariant** -/
structure RcInv (r : RSt) (ext : List ZEdge) : Prop where
  /-- every externally owned edge (handle, chain entry, temporary) points to a stored node -/
  ext_ok : ∀ e ∈ ext, has r.st.store e
  /-- the children of stored nodes are stored -/
  kids_ok : ∀ i n, r.st.store.get? i = some n → has r.st.store n.hi ∧ has r.st.store n.lo
  /-- cached results point to stored nodes (entries are not counted; the cache is cleared
  before anything is removed) -/
  cache_ok : ∀ k v, (k, v) ∈ r.st.cache → has r.st.store (decE v)
  /-- counter = table's reference + external references + stored parent edges -/
  rc_eq : ∀ i n, r.st.store.get? i = some n →
    rcGet r.rc i = 1 + ext.count (.inner i) + parents r.st.store i

theorem has.mono {s s' : Store} (hle : s.Le s') {e : ZEdge} (h : has s e) : has s' e := by
  cases e with
  | inner i => obtain ⟨n, hn⟩ := h; exact ⟨n, hle i n hn⟩
  | empty => trivial
  | base => trivial

/-- `ext` matters only as a multiset -/
theorem RcInv.congr {r : RSt} {ext ext' : List ZEdge} (h : RcInv r ext)
    (hc : ∀ e, ext.count e = ext'.count e) : RcInv r ext' where
  ext_ok e he := by
    apply h.ext_ok
    have : 0 < ext'.count e := List.count_pos_iff.mpr he
    rw [← hc] at this
    exact List.count_pos_iff.mp this
  kids_ok := h.kids_ok
  cache_ok := h.cache_ok
  rc_eq i n hi := by rw [h.rc_eq i n hi, hc]

theorem RcInv.swap {r : RSt} {a b : ZEdge} {ext : List ZEdge} (h : RcInv r (a :: b :: ext)) :
    RcInv r (b :: a :: ext) :=
  h.congr (fun e => by simp only [List.count_cons]; omega)

/-- `xs ++ y :: zs` and `y :: xs ++ zs` are the same multiset -/
theorem RcInv.mid {r : RSt} {xs zs : List ZEdge} {y : ZEdge} (h : RcInv r (xs ++ y :: zs)) :
    RcInv r (y :: (xs ++ zs)) :=
  h.congr (fun e => by simp only [List.count_append, List.count_cons]; omega)

theorem RcInv.unmid {r : RSt} {xs zs : List ZEdge} {y : ZEdge} (h : RcInv r (y :: (xs ++ zs))) :
    RcInv r (xs ++ y :: zs) :=
  h.congr (fun e => by simp only [List.count_append, List.count_cons]; omega)

/-- the counters are not looked at by the other components -/
theorem RcInv.tickd {r : RSt} {ext : List ZEdge} (h : RcInv r ext) : RcInv r.tickd ext :=
  ⟨h.ext_ok, h.kids_ok, h.cache_ok, h.rc_eq⟩

/-- state with the same store, cache membership and counters -/
theorem RcInv.of_eq {r r' : RSt} {ext : List ZEdge} (h : RcInv r ext)
    (hs : r'.st.store = r.st.store) (hc : r'.st.cache = r.st.cache) (hr : r'.rc = r.rc) :
    RcInv r' ext := by
  refine ⟨?_, ?_, ?_, ?_⟩
  · rw [hs]; exact h.ext_ok
  · rw [hs]; exact h.kids_ok
  · rw [hs, hc]; exact h.cache_ok
  · rw [hs, hr]; exact h.rc_eq

/-! ## `clone_edge` / `drop_edge` -/

theorem count_inner_cons (x : ZEdge) (ext : List ZEdge) (i : Nat) :
    (x :: ext).count (.inner i) = ext.count (.inner i) + cnt x i := by
  simp only [List.count_cons, cnt]
  by_cases h : x = .inner i
  · simp [h]
  · simp [h]

/-- cloning an edge to a stored node adds one external reference -/
theorem cloneEdge_rc {r : RSt} {ext : List ZEdge} {x : ZEdge} (h : RcInv r ext)
    (hx : has r.st.store x) : RcInv (cloneEdge r x) (x :: ext) := by
  refine ⟨?_, ?_, ?_, ?_⟩
  · intro e he
    rw [cloneEdge_st]
    rcases List.mem_cons.mp he with rfl | he
    · exact hx
    · exact h.ext_ok e he
  · rw [cloneEdge_st]; exact h.kids_ok
  · rw [cloneEdge_st]; exact h.cache_ok
  · intro i n hi
    rw [cloneEdge_st] at hi ⊢
    rw [count_inner_cons, ← Nat.add_assoc, Nat.add_right_comm, ← h.rc_eq i n hi]
    cases x with
    | empty => simp [cloneEdge, cnt]
    | base => simp [cloneEdge, cnt]
    | inner j =>
      simp only [cloneEdge, rcGet_rcSet, cnt]
      by_cases hij : i = j
      · subst hij; simp
      · have : ZEdge.inner j ≠ ZEdge.inner i := fun e => hij (by cases e; rfl)
        simp [hij, this]

/-- dropping an externally owned edge removes one external reference -/
theorem dropEdge_rc {r : RSt} {ext : List ZEdge} {x : ZEdge} (h : RcInv r (x :: ext)) :
    RcInv (dropEdge r x) ext := by
  refine ⟨?_, ?_, ?_, ?_⟩
  · intro e he
    rw [dropEdge_st]
    exact h.ext_ok e (List.mem_cons_of_mem _ he)
  · rw [dropEdge_st]; exact h.kids_ok
  · rw [dropEdge_st]; exact h.cache_ok
  · intro i n hi
    rw [dropEdge_st] at hi ⊢
    have := h.rc_eq i n hi
    rw [count_inner_cons] at this
    cases x with
    | empty => simpa [dropEdge, cnt] using this
    | base => simpa [dropEdge, cnt] using this
    | inner j =>
      simp only [dropEdge, rcGet_rcSet]
      simp only [cnt] at this
      by_cases hij : i = j
      · subst hij; simp at this ⊢; omega
      · have hne : ZEdge.inner j ≠ ZEdge.inner i := fun e => hij (by cases e; rfl)
        simp only [hne, if_false] at this
        simp [hij, this]

/-- a dropped edge was really counted: no underflow, the node keeps the table's reference -/
theorem dropEdge_no_underflow {r : RSt} {ext : List ZEdge} {j : Nat}
    (h : RcInv r (.inner j :: ext)) : 2 ≤ rcGet r.rc j := by
  obtain ⟨n, hn⟩ := h.ext_ok (.inner j) List.mem_cons_self
  have := h.rc_eq j n hn
  simp only [List.count_cons_self] at this
  omega

/-- a terminal among the external edges carries no information -/
theorem RcInv.drop_empty {r : RSt} {ext : List ZEdge} (h : RcInv r (.empty :: ext)) : RcInv r ext :=
  dropEdge_rc (x := .empty) h

theorem RcInv.add_empty {r : RSt} {ext : List ZEdge} (h : RcInv r ext) : RcInv r (.empty :: ext) :=
  cloneEdge_rc (x := .empty) h trivial

theorem RcInv.add_base {r : RSt} {ext : List ZEdge} (h : RcInv r ext) : RcInv r (.base :: ext) :=
  cloneEdge_rc (x := .base) h trivial

/-! ## list sums -/

theorem sum_map_set {α} (f : α → Nat) : ∀ (l : List α) (k : Nat) (x : α) (hk : k < l.length),
    ((l.set k x).map f).sum + f l[k] = (l.map f).sum + f x := by
  intro l
  induction l with
  | nil => intro k x hk; simp at hk
  | cons a as ih =>
    intro k x hk
    cases k with
    | zero => simp; omega
    | succ k =>
      simp only [List.set_cons_succ, List.map_cons, List.sum_cons, List.getElem_cons_succ]
      have := ih k x (by simpa using hk)
      omega

theorem sum_map_zero {α} (f : α → Nat) (l : List α) (h : ∀ a ∈ l, f a = 0) : (l.map f).sum = 0 := by
  induction l with
  | nil => rfl
  | cons a as ih =>
    simp only [List.map_cons, List.sum_cons]
    rw [h a List.mem_cons_self, ih (fun b hb => h b (List.mem_cons_of_mem _ hb))]

/-! ## parents under allocation and freeing -/

theorem mem_nodes_get? {s : Store} {n : ZNode} (h : some n ∈ s.nodes.toList) :
    ∃ k, s.get? k = some n := by
  obtain ⟨k, hk, hkn⟩ := List.mem_iff_getElem.mp h
  refine ⟨k, ?_⟩
  have hk' : k < s.nodes.size := by simpa using hk
  have : s.nodes[k] = some n := by simpa using hkn
  simp [Store.get?, hk', this]

/-- no stored node points to `j` ⇒ no parent edges -/
theorem parents_zero {s : Store} {j : Nat}
    (h : ∀ k n, s.get? k = some n → n.hi ≠ .inner j ∧ n.lo ≠ .inner j) : parents s j = 0 := by
  apply sum_map_zero
  intro o ho
  cases o with
  | none => rfl
  | some n =>
    obtain ⟨k, hk⟩ := mem_nodes_get? ho
    obtain ⟨h1, h2⟩ := h k n hk
    simp [refsOpt, cnt, h1, h2]

theorem parents_alloc (s : Store) (n : ZNode) (i : Nat) :
    parents (s.alloc n).1 i = parents s i + (cnt n.hi i + cnt n.lo i) := by
  unfold Store.alloc parents
  split
  · rename_i k hk
    obtain ⟨hlt, heq⟩ := Array.findIdx?_eq_some_iff_findIdx_eq.mp hk
    have hnone := Array.findIdx_getElem (xs := s.nodes) (p := (· == none)) (w := by rw [heq]; exact hlt)
    simp only [heq] at hnone
    have hn : s.nodes[k] = none := beq_iff_eq.mp hnone
    have hl : k < s.nodes.toList.length := by simpa using hlt
    have := sum_map_set (refsOpt i) s.nodes.toList k (some n) hl
    have hk0 : refsOpt i s.nodes.toList[k] = 0 := by
      have : s.nodes.toList[k] = none := by simpa using hn
      rw [this]; rfl
    rw [hk0] at this
    simp only [Array.set!_eq_setIfInBounds, Array.toList_setIfInBounds]
    simpa [refsOpt] using this
  · simp [refsOpt]

theorem get?_free (s : Store) (k j : Nat) :
    (⟨s.nodes.set! k none⟩ : Store).get? j = if j = k then none else s.get? j := by
  simp only [Store.get?, Array.set!_eq_setIfInBounds, Array.getElem?_setIfInBounds]
  by_cases hj : j = k
  · subst hj
    by_cases hlt : j < s.nodes.size
    · simp [hlt]
    · simp [hlt]
  · simp [hj, Ne.symm hj]

theorem parents_free (s : Store) (k : Nat) (n : ZNode) (i : Nat) (h : s.get? k = some n) :
    parents ⟨s.nodes.set! k none⟩ i + (cnt n.hi i + cnt n.lo i) = parents s i := by
  unfold parents
  have hlt : k < s.nodes.size := by
    by_cases hlt : k < s.nodes.size
    · exact hlt
    · simp [Store.get?, hlt] at h
  have hn : s.nodes[k] = some n := by
    simpa [Store.get?, hlt] using h
  have hl : k < s.nodes.toList.length := by simpa using hlt
  have := sum_map_set (refsOpt i) s.nodes.toList k none hl
  have hk0 : refsOpt i s.nodes.toList[k] = cnt n.hi i + cnt n.lo i := by
    have : s.nodes.toList[k] = some n := by simpa using hn
    rw [this]; rfl
  rw [hk0] at this
  simp only [Array.set!_eq_setIfInBounds, Array.toList_setIfInBounds]
  simpa [refsOpt] using this

/-! ## `get_or_insert`, `reduce`, `reduce_borrowed` -/

theorem has_of_find {s : Store} {n : ZNode} {i : Nat} (h : s.find? n = some i) : has s (.inner i) :=
  ⟨n, find?_some h⟩

/-- **`insertR_rc`**: `get_or_insert` consumes the two owned children; on success the caller owns
the result instead, on OutOfMemory it owns nothing more — in every branch the counters are exact. -/
theorem insertR_rc {cap : Nat} {r : RSt} {l : Nat} {t e : ZEdge} {ext : List ZEdge}
    (h : RcInv r (t :: e :: ext)) :
    match insertR cap r l t e with
    | (some x, r') => RcInv r' (x :: ext)
    | (none, r') => RcInv r' ext := by
  unfold insertR
  cases hf : r.st.store.find? ⟨l, t, e⟩ with
  | some i =>
    simp only
    have h2 : RcInv (dropEdge (dropEdge r t) e) ext := dropEdge_rc (dropEdge_rc h)
    refine cloneEdge_rc h2 ?_
    simp only [dropEdge_st]
    exact has_of_find hf
  | none =>
    simp only
    by_cases hc : count r.st.store < cap
    · simp only [hc, if_true]
      -- allocation
      have hle := alloc_le r.st.store ⟨l, t, e⟩
      have hfresh := alloc_fresh r.st.store ⟨l, t, e⟩
      generalize hj : (r.st.store.alloc ⟨l, t, e⟩).2 = j at hfresh
      have hget := get?_alloc r.st.store ⟨l, t, e⟩
      rw [hj] at hget
      have hnot : ∀ x : ZEdge, has r.st.store x → x ≠ .inner j := by
        intro x hx hxe
        subst hxe
        obtain ⟨n, hn⟩ := hx
        rw [hfresh] at hn; cases hn
      have ht := h.ext_ok t List.mem_cons_self
      have he := h.ext_ok e (List.mem_cons_of_mem _ List.mem_cons_self)
      refine ⟨?_, ?_, ?_, ?_⟩
      · intro x hx
        rcases List.mem_cons.mp hx with rfl | hx
        · exact ⟨⟨l, t, e⟩, by simp [hget]⟩
        · exact (h.ext_ok x (List.mem_cons_of_mem _ (List.mem_cons_of_mem _ hx))).mono hle
      · intro i n hi
        simp only [hget] at hi
        split at hi
        · cases hi; exact ⟨ht.mono hle, he.mono hle⟩
        · obtain ⟨h1, h2⟩ := h.kids_ok i n hi
          exact ⟨h1.mono hle, h2.mono hle⟩
      · intro k v hkv
        exact (h.cache_ok k v hkv).mono hle
      · intro i n hi
        simp only [hget] at hi
        simp only [rcGet_rcSet, parents_alloc]
        split at hi
        · rename_i hij
          subst hij
          cases hi
          simp only [if_true, List.count_cons_self]
          have hz : parents r.st.store i = 0 := parents_zero (fun k n hk =>
            ⟨hnot _ (h.kids_ok k n hk).1, hnot _ (h.kids_ok k n hk).2⟩)
          have hce : ext.count (.inner i) = 0 := by
            apply List.count_eq_zero.mpr
            intro hm
            exact hnot _ (h.ext_ok _ (List.mem_cons_of_mem _ (List.mem_cons_of_mem _ hm))) rfl
          simp [hz, hce, cnt, hnot t ht, hnot e he]
        · rename_i hij
          have := h.rc_eq i n hi
          simp only [count_inner_cons] at this
          have hne : ZEdge.inner j ≠ ZEdge.inner i := fun e => hij (by cases e; rfl)
          simp only [hij, if_false, count_inner_cons, cnt, hne]
          simp only [cnt] at this
          omega
    · simp only [hc, if_false]
      exact dropEdge_rc (dropEdge_rc h)

/-- **`mkNodeR_rc`** (`reduce` with owned children): zero suppression (`hi = Empty`: `lo` is the
result), unique-table hit, allocation, OutOfMemory -/
theorem mkNodeR_rc {cap : Nat} {r : RSt} {l : Nat} {t e : ZEdge} {ext : List ZEdge}
    (h : RcInv r (t :: e :: ext)) :
    match mkNodeR cap r l t e with
    | (some x, r') => RcInv r' (x :: ext)
    | (none, r') => RcInv r' ext := by
  unfold mkNodeR
  by_cases ht : t = .empty
  · subst ht
    simp only [if_true]
    exact h.drop_empty
  · simp only [ht, if_false]
    exact insertR_rc h

/-- **`mkNodeBR_rc`** (`reduce_borrowed`: `hi` borrowed and stored, `lo` owned) -/
theorem mkNodeBR_rc {cap : Nat} {r : RSt} {l : Nat} {t e : ZEdge} {ext : List ZEdge}
    (h : RcInv r (e :: ext)) (ht : has r.st.store t) :
    match mkNodeBR cap r l t e with
    | (some x, r') => RcInv r' (x :: ext)
    | (none, r') => RcInv r' ext := by
  unfold mkNodeBR
  by_cases hte : t = .empty
  · simp only [hte, if_true]
    exact h
  · simp only [hte, if_false]
    exact insertR_rc (cloneEdge_rc h ht)

end OxiddModel.Zbdd.Rc
