import OxiddModel.Zbdd.RcSHistory

/-!
# The ZBDD algorithms keep the store ordered (what `gcR_exact` assumes)

`OrdInv N r`: children of stored nodes are on strictly larger levels (`SOrdered`), all levels are
`< N`, and every cache entry maps operands that are all at level `≥ L` to a result at level
`≥ L` (for a `subset0/subset1/change` entry with variable `v`: `≥ min L v`) — `CacheLv`; this is
what makes a cache hit as good as a recomputation for the level argument.

`setOpR_ord`, `subsetR_ord` (identity order: the level of variable `v` is `v`), `varR_ord`,
`singletonR_ord`: the result is at level `≥ L` (resp. `min L v`, `0`) and `OrdInv` is kept — on
success and on failure. `buildChainR_ord`: the rebuilt chain keeps the store ordered and
`tautology(l)` is at level `≥ l` (`ChainLv`). `Cmd.run_ord`, `runAll_ord`: along every history.
-/
namespace OxiddModel.Zbdd.Rc
open OxiddModel.Zbdd OxiddModel.Zbdd.ZDD OxiddModel.Zbdd.Refine
open OxiddModel.Bdd.Refine (Policy OpTag Key Cache)

/-- the edge points to a terminal or to a stored node at level `≥ L` -/
def Above (s : Store) (L : Nat) : ZEdge → Prop
  | .inner i => ∃ n, s.get? i = some n ∧ L ≤ n.level
  | _ => True

theorem Above.mono {s s' : Store} {L : Nat} {e : ZEdge} (hle : s.Le s') (h : Above s L e) :
    Above s' L e := by
  cases e with
  | inner i => obtain ⟨n, hn, hl⟩ := h; exact ⟨n, hle i n hn, hl⟩
  | empty => trivial
  | base => trivial

theorem Above.weaken {s : Store} {L L' : Nat} {e : ZEdge} (hL : L' ≤ L) (h : Above s L e) :
    Above s L' e := by
  cases e with
  | inner i => obtain ⟨n, hn, hl⟩ := h; exact ⟨n, hn, by omega⟩
  | empty => trivial
  | base => trivial

theorem Above.toHas {s : Store} {L : Nat} {e : ZEdge} (h : Above s L e) : has s e := by
  cases e with
  | inner i => obtain ⟨n, hn, _⟩ := h; exact ⟨n, hn⟩
  | empty => trivial
  | base => trivial

theorem Above.of_le_has {s s' : Store} {L : Nat} {e : ZEdge} (hle : s.Le s') (hh : has s e)
    (h : Above s' L e) : Above s L e := by
  cases e with
  | inner i =>
    obtain ⟨n, hn⟩ := hh
    obtain ⟨n', hn', hl⟩ := h
    have := hle i n hn
    rw [this] at hn'; cases hn'
    exact ⟨n, hn, hl⟩
  | empty => trivial
  | base => trivial

theorem Above.level_le {s : Store} {L i : Nat} {n : ZNode} (h : Above s L (.inner i))
    (hn : s.get? i = some n) : L ≤ n.level := by
  obtain ⟨n', hn', hl⟩ := h
  rw [hn] at hn'; cases hn'; exact hl

theorem has_above_zero {s : Store} {e : ZEdge} (h : has s e) : Above s 0 e := by
  cases e with
  | inner i => obtain ⟨n, hn⟩ := h; exact ⟨n, hn, Nat.zero_le _⟩
  | empty => trivial
  | base => trivial

/-- the level bound a key promises for its result: a `subset` key carries the variable -/
def keyBound (zk : ZKey) (L : Nat) : Nat :=
  match zk.nums with
  | [v] => min L v
  | _ => L

/-- cache entries respect levels -/
def CacheLv (s : Store) (c : Cache) : Prop :=
  ∀ k v, (k, v) ∈ c → ∃ zk, k = encKey zk ∧ (∀ o ∈ zk.operands, has s o) ∧
    ∀ L, (∀ o ∈ zk.operands, Above s L o) → Above s (keyBound zk L) (decE v)

theorem CacheLv.mono {s s' : Store} {c : Cache} (h : CacheLv s c) (hle : s.Le s') : CacheLv s' c := by
  intro k v hkv
  obtain ⟨zk, hk, h1, h2⟩ := h k v hkv
  refine ⟨zk, hk, fun o ho => (h1 o ho).mono hle, fun L hL => ?_⟩
  exact (h2 L (fun o ho => Above.of_le_has hle (h1 o ho) (hL o ho))).mono hle

/-- what a hit gives -/
theorem CacheLv.hit {s : Store} {c : Cache} (h : CacheLv s c) {zk : ZKey} {v : Bdd.Refine.Edge}
    (hm : (encKey zk, v) ∈ c) {L : Nat} (hL : ∀ o ∈ zk.operands, Above s L o) :
    Above s (keyBound zk L) (decE v) := by
  obtain ⟨zk', hk, _, h2⟩ := h _ _ hm
  have := encKey_inj hk
  subst this
  exact h2 L hL

structure OrdInv (N : Nat) (r : RSt) : Prop where
  ord : SOrdered r.st.store
  bound : ∀ i n, r.st.store.get? i = some n → n.level < N
  cache : CacheLv r.st.store r.st.cache

theorem OrdInv.tickd {N : Nat} {r : RSt} (h : OrdInv N r) : OrdInv N r.tickd := ⟨h.ord, h.bound, h.cache⟩

theorem OrdInv.of_st {N : Nat} {r r' : RSt} (h : OrdInv N r) (hs : r'.st = r.st) : OrdInv N r' := by
  refine ⟨?_, ?_, ?_⟩
  · rw [hs]; exact h.ord
  · rw [hs]; exact h.bound
  · rw [hs]; exact h.cache

theorem OrdInv.more {N N' : Nat} {r : RSt} (h : OrdInv N r) (hN : N ≤ N') : OrdInv N' r :=
  ⟨h.ord, fun i n hi => Nat.lt_of_lt_of_le (h.bound i n hi) hN, h.cache⟩

/-- postcondition: invariant kept, a result is at level `≥ L` -/
def OrdPost (N L : Nat) (R : Option ZEdge × RSt) : Prop :=
  OrdInv N R.2 ∧ ∀ x, R.1 = some x → Above R.2.st.store L x

theorem OrdPost.weaken {N L L' : Nat} {R : Option ZEdge × RSt} (hL : L' ≤ L) (h : OrdPost N L R) :
    OrdPost N L' R := ⟨h.1, fun x hx => (h.2 x hx).weaken hL⟩

theorem OrdPost.clone {N L : Nat} {r : RSt} {x : ZEdge} (h : OrdInv N r) (hx : Above r.st.store L x) :
    OrdPost N L (some x, cloneEdge r x) := by
  refine ⟨h.of_st (cloneEdge_st r x), ?_⟩
  intro y hy
  cases hy
  simp only [cloneEdge_st]
  exact hx

theorem OrdPost.clone_tickd {N L : Nat} {r : RSt} {x : ZEdge} (h : OrdInv N r)
    (hx : Above r.st.store L x) : OrdPost N L (some x, cloneEdge r.tickd x) :=
  OrdPost.clone (r := r.tickd) h.tickd hx

/-- children are strictly below their parent -/
theorem child_above {r : RSt} {ext : List ZEdge} {N : Nat} (hrc : RcInv r ext) (ho : OrdInv N r)
    {i : Nat} {n : ZNode} (hi : r.st.store.get? i = some n) :
    Above r.st.store (n.level + 1) n.hi ∧ Above r.st.store (n.level + 1) n.lo := by
  obtain ⟨h1, h2⟩ := hrc.kids_ok i n hi
  constructor
  · cases ht : n.hi with
    | inner j =>
      rw [ht] at h1
      obtain ⟨m, hm⟩ := h1
      exact ⟨m, hm, ho.ord i n j m hi (.inl ht) hm⟩
    | empty => trivial
    | base => trivial
  · cases he : n.lo with
    | inner j =>
      rw [he] at h2
      obtain ⟨m, hm⟩ := h2
      exact ⟨m, hm, ho.ord i n j m hi (.inr he) hm⟩
    | empty => trivial
    | base => trivial

theorem node?_child_above {r : RSt} {ext : List ZEdge} {N : Nat} (hrc : RcInv r ext)
    (ho : OrdInv N r) {f : ZEdge} {n : ZNode} (hn : r.st.store.node? f = some n) :
    Above r.st.store (n.level + 1) n.hi ∧ Above r.st.store (n.level + 1) n.lo := by
  obtain ⟨i, _, hi⟩ := node?_some hn
  exact child_above hrc ho hi

theorem node?_above_le {s : Store} {f : ZEdge} {n : ZNode} {L : Nat} (hn : s.node? f = some n)
    (h : Above s L f) : L ≤ n.level := by
  obtain ⟨i, rfl, hi⟩ := node?_some hn
  exact h.level_le hi

theorem node?_above_self {s : Store} {f : ZEdge} {n : ZNode} (hn : s.node? f = some n) :
    Above s n.level f := by
  obtain ⟨i, rfl, hi⟩ := node?_some hn
  exact ⟨n, hi, Nat.le_refl _⟩

theorem node?_bound {N : Nat} {r : RSt} (ho : OrdInv N r) {f : ZEdge} {n : ZNode}
    (hn : r.st.store.node? f = some n) : n.level < N := by
  obtain ⟨i, _, hi⟩ := node?_some hn
  exact ho.bound i n hi

/-- a terminal or a node strictly below -/
theorem above_of_node?_none {s : Store} {f : ZEdge} (hf : has s f) (hn : s.node? f = none)
    (L : Nat) : Above s L f := by
  cases f with
  | inner i => obtain ⟨n, hi⟩ := hf; simp only [Store.node?] at hn; rw [hi] at hn; cases hn
  | empty => trivial
  | base => trivial

/-! ## `get_or_insert`, `reduce`, `reduce_borrowed` -/

theorem insertR_ord {N cap : Nat} {r : RSt} {l : Nat} {t e : ZEdge} {ext : List ZEdge}
    (hrc : RcInv r (t :: e :: ext)) (ho : OrdInv N r) (hl : l < N)
    (ht : Above r.st.store (l + 1) t) (he : Above r.st.store (l + 1) e) :
    OrdPost N l (insertR cap r l t e) := by
  unfold insertR
  cases hf : r.st.store.find? ⟨l, t, e⟩ with
  | some i =>
    simp only
    refine ⟨ho.of_st (by simp), ?_⟩
    intro x hx; cases hx
    simp only [cloneEdge_st, dropEdge_st]
    exact ⟨_, find?_some hf, Nat.le_refl _⟩
  | none =>
    simp only
    by_cases hc : count r.st.store < cap
    · simp only [hc, if_true]
      have hle := alloc_le r.st.store ⟨l, t, e⟩
      have hfresh := alloc_fresh r.st.store ⟨l, t, e⟩
      generalize hj : (r.st.store.alloc ⟨l, t, e⟩).2 = j at hfresh
      have hget := get?_alloc r.st.store ⟨l, t, e⟩
      rw [hj] at hget
      have hnot : ∀ x : ZEdge, Rc.has r.st.store x → x ≠ .inner j := by
        intro x hx hxe
        subst hxe
        obtain ⟨n, hn⟩ := hx
        rw [hfresh] at hn; cases hn
      refine ⟨⟨?_, ?_, ?_⟩, ?_⟩
      · intro i n k m hi hch hk
        simp only [hget] at hi hk
        split at hi
        · cases hi
          have hkj : k ≠ j := by
            intro hkj; subst hkj
            rcases hch with hch | hch
            · exact hnot t ht.toHas hch
            · exact hnot e he.toHas hch
          simp only [hkj, if_false] at hk
          rcases hch with hch | hch
          · simp only at hch; rw [hch] at ht
            have := ht.level_le hk; simp only; omega
          · simp only at hch; rw [hch] at he
            have := he.level_le hk; simp only; omega
        · have hk' := hrc.kids_ok i n hi
          have hkj : k ≠ j := by
            intro hkj; subst hkj
            rcases hch with hch | hch
            · exact hnot _ hk'.1 hch
            · exact hnot _ hk'.2 hch
          simp only [hkj, if_false] at hk
          exact ho.ord i n k m hi hch hk
      · intro i n hi
        simp only [hget] at hi
        split at hi
        · cases hi; exact hl
        · exact ho.bound i n hi
      · exact ho.cache.mono hle
      · intro x hx; cases hx
        exact ⟨⟨l, t, e⟩, by simp [hget], Nat.le_refl _⟩
    · simp only [hc, if_false]
      refine ⟨ho.of_st (by simp), ?_⟩
      intro x hx; cases hx

theorem mkNodeR_ord {N cap : Nat} {r : RSt} {l : Nat} {t e : ZEdge} {ext : List ZEdge}
    (hrc : RcInv r (t :: e :: ext)) (ho : OrdInv N r) (hl : l < N)
    (ht : Above r.st.store (l + 1) t) (he : Above r.st.store (l + 1) e) :
    OrdPost N l (mkNodeR cap r l t e) := by
  unfold mkNodeR
  by_cases hte : t = .empty
  · simp only [hte, if_true]
    exact ⟨ho, fun x hx => by cases hx; exact he.weaken (by omega)⟩
  · simp only [hte, if_false]
    exact insertR_ord hrc ho hl ht he

theorem mkNodeBR_ord {N cap : Nat} {r : RSt} {l : Nat} {t e : ZEdge} {ext : List ZEdge}
    (hrc : RcInv r (e :: ext)) (ho : OrdInv N r) (hl : l < N)
    (ht : Above r.st.store (l + 1) t) (he : Above r.st.store (l + 1) e) :
    OrdPost N l (mkNodeBR cap r l t e) := by
  unfold mkNodeBR
  by_cases hte : t = .empty
  · simp only [hte, if_true]
    exact ⟨ho, fun x hx => by cases hx; exact he.weaken (by omega)⟩
  · simp only [hte, if_false]
    exact insertR_ord (cloneEdge_rc hrc ht.toHas) (ho.of_st (cloneEdge_st r t)) hl
      (by rw [cloneEdge_st]; exact ht) (by rw [cloneEdge_st]; exact he)

/-! ## control flow -/

/-- `?` + cache add; the key's operands bound the promised level from above -/
theorem finishAdd_ord {p : Policy} (pok : p.OK) {N l : Nat} {key : ZKey}
    {R : Option ZEdge × RSt} (h : OrdPost N l R)
    (hkey : ∀ o ∈ key.operands, has R.2.st.store o)
    (hlev : ∀ L, (∀ o ∈ key.operands, Above R.2.st.store L o) → keyBound key L ≤ l) :
    OrdPost N l (finishAdd p key R) := by
  obtain ⟨o, r'⟩ := R
  cases o with
  | none => exact h
  | some x =>
    have hx := h.2 x rfl
    simp only at hx hkey hlev
    refine ⟨⟨h.1.ord, h.1.bound, ?_⟩, ?_⟩
    · intro k v hkv
      rcases pok.add_sub _ _ _ _ _ hkv with hold | hnew
      · exact h.1.cache k v hold
      · cases hnew
        refine ⟨key, rfl, hkey, fun L hL => ?_⟩
        rw [decE_encE]
        exact hx.weaken (hlev L hL)
    · intro y hy; cases hy; exact hx

/-- the key facts transported along a store extension -/
theorem key_transfer {s s' : Store} (hle : s.Le s') {ops : List ZEdge} {b : Nat → Nat} {l : Nat}
    (hkey : ∀ o ∈ ops, has s o) (hlev : ∀ L, (∀ o ∈ ops, Above s L o) → b L ≤ l) :
    (∀ o ∈ ops, has s' o) ∧ ∀ L, (∀ o ∈ ops, Above s' L o) → b L ≤ l :=
  ⟨fun o ho => (hkey o ho).mono hle,
   fun L hL => hlev L (fun o ho => Above.of_le_has hle (hkey o ho) (hL o ho))⟩

theorem bindR_ord {N L1 L : Nat} {c : RSt → Option ZEdge × RSt}
    {k : RSt → ZEdge → Option ZEdge × RSt} {r : RSt} {ext : List ZEdge}
    (h1 : RcPost r ext (c r)) (h1o : OrdPost N L1 (c r))
    (hk : ∀ x r1, RcInv r1 (x :: ext) → r.st.store.Le r1.st.store → OrdInv N r1 →
      Above r1.st.store L1 x → OrdPost N L (k r1 x)) :
    OrdPost N L (bindR c k r) := by
  unfold bindR
  cases hc : c r with
  | mk o r1 =>
    rw [hc] at h1 h1o
    cases o with
    | none => exact ⟨h1o.1, fun x hx => by cases hx⟩
    | some x => exact hk x r1 h1.2 h1.1 h1o.1 (h1o.2 x rfl)

theorem forkR_ord {N L1 L : Nat} {c1 c0 : RSt → Option ZEdge × RSt}
    {k : RSt → ZEdge → ZEdge → Option ZEdge × RSt} {r : RSt} {ext : List ZEdge}
    (h1 : RcPost r ext (c1 r)) (h1o : OrdPost N L1 (c1 r))
    (h0 : ∀ t r1, RcInv r1 (t :: ext) → r.st.store.Le r1.st.store → OrdInv N r1 →
      RcPost r1 (t :: ext) (c0 r1) ∧ OrdPost N L1 (c0 r1))
    (hk : ∀ hi lo r0, RcInv r0 (hi :: lo :: ext) → r.st.store.Le r0.st.store → OrdInv N r0 →
      Above r0.st.store L1 hi → Above r0.st.store L1 lo → OrdPost N L (k r0 hi lo)) :
    OrdPost N L (forkR c1 c0 k r) := by
  unfold forkR
  cases hc1 : c1 r with
  | mk o1 r1 =>
    rw [hc1] at h1 h1o
    cases o1 with
    | none => exact ⟨h1o.1, fun x hx => by cases hx⟩
    | some t =>
      obtain ⟨le1, i1⟩ := h1
      simp only at i1 le1 ⊢
      have ht1 := h1o.2 t rfl
      simp only at ht1
      obtain ⟨h0r, h0o⟩ := h0 t r1 i1 le1 h1o.1
      cases hc0 : c0 r1 with
      | mk o0 r0 =>
        rw [hc0] at h0r h0o
        obtain ⟨le0, i0⟩ := h0r
        cases o0 with
        | none =>
          simp only
          exact ⟨h0o.1.of_st (dropEdge_st r0 t), fun x hx => by cases hx⟩
        | some e =>
          simp only at i0 le0 ⊢
          exact hk t e r0 i0.swap (le1.trans le0) h0o.1 (ht1.mono le0) (h0o.2 e rfl)

/-! ## level comparison -/

theorem cmpLevels_lt_above {s : Store} {f g : ZEdge} {nf : ZNode} (hg : has s g)
    (h : s.cmpLevels f g = .lt nf) : Above s (nf.level + 1) g := by
  unfold Store.cmpLevels at h
  cases hf : s.node? f with
  | none => rw [hf] at h; cases hgn : s.node? g <;> rw [hgn] at h <;> cases h
  | some n =>
    rw [hf] at h
    cases hgn : s.node? g with
    | none => exact above_of_node?_none hg hgn _
    | some m =>
      rw [hgn] at h
      simp only at h
      split at h
      · rename_i hlt
        cases h
        obtain ⟨j, rfl, hj⟩ := node?_some hgn
        exact ⟨m, hj, hlt⟩
      · split at h <;> cases h

theorem cmpLevels_gt_above {s : Store} {f g : ZEdge} {ng : ZNode} (hf : has s f)
    (h : s.cmpLevels f g = .gt ng) : Above s (ng.level + 1) f := by
  unfold Store.cmpLevels at h
  cases hfn : s.node? f with
  | none => exact above_of_node?_none hf hfn _
  | some n =>
    rw [hfn] at h
    cases hgn : s.node? g with
    | none => rw [hgn] at h; cases h
    | some m =>
      rw [hgn] at h
      simp only at h
      split at h
      · cases h
      · split at h
        · cases h
        · rename_i h1 h2
          cases h
          obtain ⟨i, rfl, hi⟩ := node?_some hfn
          exact ⟨n, hi, by omega⟩

/-! ## the set operations -/

theorem keyBound_nil (op : ZOp) (ops : List ZEdge) (L : Nat) : keyBound ⟨op, ops, []⟩ L = L := rfl

theorem setBodyR_ord {p : Policy} (pok : p.OK) (N cap : Nat) (op : SetOp)
    (rec : RSt → ZEdge → ZEdge → Option ZEdge × RSt)
    (hrecRc : ∀ (r : RSt) (f g : ZEdge) (ext : List ZEdge), RcInv r ext → has r.st.store f →
      has r.st.store g → RcPost r ext (rec r f g))
    (hrec : ∀ (r : RSt) (f g : ZEdge) (ext : List ZEdge) (L : Nat), RcInv r ext → OrdInv N r →
      Above r.st.store L f → Above r.st.store L g →
      RcPost r ext (rec r f g) ∧ OrdPost N L (rec r f g))
    (r : RSt) (f g : ZEdge) (ext : List ZEdge) (L : Nat) (hrc : RcInv r ext) (ho : OrdInv N r)
    (hf : Above r.st.store L f) (hg : Above r.st.store L g) :
    OrdPost N L (setBodyR cap p op rec r f g) := by
  unfold setBodyR
  have hkeyAll : ∀ o ∈ [f, g], Above r.st.store L o := by
    intro o ho'
    simp only [List.mem_cons, List.mem_nil_iff, or_false] at ho'
    rcases ho' with rfl | rfl <;> assumption
  cases hget : p.get r.st.tick r.st.cache (encKey ⟨setTag op, [f, g], []⟩) with
  | some x =>
    exact OrdPost.clone_tickd ho (ho.cache.hit (pok.get_mem _ _ _ _ hget) hkeyAll)
  | none =>
    simp only
    have hkey0 : ∀ o ∈ [f, g], has r.st.store o := fun o ho' => (hkeyAll o ho').toHas
    cases hcmp : r.st.store.cmpLevels f g with
    | lt nf =>
      simp only
      have hnf := cmpLevels_lt hcmp
      have hca := node?_child_above hrc ho hnf
      have hga := cmpLevels_lt_above hg.toHas hcmp
      have hLl := node?_above_le hnf hf
      have hlN := node?_bound ho hnf
      have hlev0 : ∀ L', (∀ o ∈ [f, g], Above r.st.store L' o) → L' ≤ nf.level :=
        fun L' hL' => node?_above_le hnf (hL' f (by simp))
      obtain ⟨hr, hro⟩ := hrec r.tickd nf.lo g ext (nf.level + 1) hrc.tickd ho.tickd hca.2 hga
      refine OrdPost.weaken hLl ?_
      split
      · have hb : OrdPost N nf.level (bindR (fun s => rec s nf.lo g)
            (fun s lo => mkNodeBR cap s nf.level nf.hi lo) r.tickd) := by
          refine bindR_ord (r := r.tickd) hr hro ?_
          intro x r1 i1 le1 o1 hx
          exact mkNodeBR_ord i1 o1 hlN (hca.1.mono le1) hx
        have hle : r.st.store.Le (bindR (fun s => rec s nf.lo g)
            (fun s lo => mkNodeBR cap s nf.level nf.hi lo) r.tickd).2.st.store :=
          (bindR_post (r := r.tickd) hr (fun x r1 i1 le1 => mkNodeBR_post i1 ((hca.1.toHas).mono le1))).1
        obtain ⟨k1, k2⟩ := key_transfer (b := fun L => L) hle hkey0 hlev0
        exact finishAdd_ord pok hb k1 k2
      · have hle : r.st.store.Le (rec r.tickd nf.lo g).2.st.store := hr.1
        obtain ⟨k1, k2⟩ := key_transfer (b := fun L => L) hle hkey0 hlev0
        exact finishAdd_ord pok (hro.weaken (Nat.le_succ _)) k1 k2
    | eq nf ng =>
      simp only
      obtain ⟨hnf, hng, hleq⟩ := cmpLevels_eq hcmp
      have hcf := node?_child_above hrc ho hnf
      have hcg := node?_child_above hrc ho hng
      rw [← hleq] at hcg
      have hLl := node?_above_le hnf hf
      have hlN := node?_bound ho hnf
      have hlev0 : ∀ L', (∀ o ∈ [f, g], Above r.st.store L' o) → L' ≤ nf.level :=
        fun L' hL' => node?_above_le hnf (hL' f (by simp))
      obtain ⟨hr1, hro1⟩ := hrec r.tickd nf.hi ng.hi ext (nf.level + 1) hrc.tickd ho.tickd hcf.1 hcg.1
      refine OrdPost.weaken hLl ?_
      have hb : OrdPost N nf.level (forkR (fun s => rec s nf.hi ng.hi) (fun s => rec s nf.lo ng.lo)
          (fun s hi lo => mkNodeR cap s nf.level hi lo) r.tickd) := by
        refine forkR_ord (r := r.tickd) hr1 hro1 ?_ ?_
        · intro t r1 i1 le1 o1
          exact hrec r1 nf.lo ng.lo _ _ i1 o1 (hcf.2.mono le1) (hcg.2.mono le1)
        · intro hi lo r0 i0 _ o0 hhi hlo
          exact mkNodeR_ord i0 o0 hlN hhi hlo
      have hle : r.st.store.Le (forkR (fun s => rec s nf.hi ng.hi) (fun s => rec s nf.lo ng.lo)
          (fun s hi lo => mkNodeR cap s nf.level hi lo) r.tickd).2.st.store :=
        (forkR_post (r := r.tickd) hr1
          (fun t r1 i1 le1 => hrecRc r1 nf.lo ng.lo _ i1
            (hcf.2.toHas.mono le1) (hcg.2.toHas.mono le1)) ?_).1
      · obtain ⟨k1, k2⟩ := key_transfer (b := fun L => L) hle hkey0 hlev0
        exact finishAdd_ord pok hb k1 k2
      · intro hi lo r0 i0 _
        exact mkNodeR_post i0
    | gt ng =>
      simp only
      have hng := cmpLevels_gt hcmp
      have hca := node?_child_above hrc ho hng
      have hfa := cmpLevels_gt_above hf.toHas hcmp
      have hLl := node?_above_le hng hg
      have hlN := node?_bound ho hng
      have hlev0 : ∀ L', (∀ o ∈ [f, g], Above r.st.store L' o) → L' ≤ ng.level :=
        fun L' hL' => node?_above_le hng (hL' g (by simp))
      obtain ⟨hr, hro⟩ := hrec r.tickd f ng.lo ext (ng.level + 1) hrc.tickd ho.tickd hfa hca.2
      refine OrdPost.weaken hLl ?_
      split
      · have hb : OrdPost N ng.level (bindR (fun s => rec s f ng.lo)
            (fun s lo => mkNodeBR cap s ng.level ng.hi lo) r.tickd) := by
          refine bindR_ord (r := r.tickd) hr hro ?_
          intro x r1 i1 le1 o1 hx
          exact mkNodeBR_ord i1 o1 hlN (hca.1.mono le1) hx
        have hle : r.st.store.Le (bindR (fun s => rec s f ng.lo)
            (fun s lo => mkNodeBR cap s ng.level ng.hi lo) r.tickd).2.st.store :=
          (bindR_post (r := r.tickd) hr (fun x r1 i1 le1 => mkNodeBR_post i1 ((hca.1.toHas).mono le1))).1
        obtain ⟨k1, k2⟩ := key_transfer (b := fun L => L) hle hkey0 hlev0
        exact finishAdd_ord pok hb k1 k2
      · have hle : r.st.store.Le (rec r.tickd f ng.lo).2.st.store := hr.1
        obtain ⟨k1, k2⟩ := key_transfer (b := fun L => L) hle hkey0 hlev0
        exact finishAdd_ord pok (hro.weaken (Nat.le_succ _)) k1 k2
    | none => exact OrdPost.clone_tickd ho hf

/-- **the set operations keep the store ordered; the result is not above the operands** -/
theorem setOpR_ord {p : Policy} (pok : p.OK) (N cap : Nat) (op : SetOp) (fuel : Nat) :
    ∀ (r : RSt) (f g : ZEdge) (ext : List ZEdge) (L : Nat), RcInv r ext → OrdInv N r →
      Above r.st.store L f → Above r.st.store L g →
      RcPost r ext (setOpR cap p op fuel r f g) ∧ OrdPost N L (setOpR cap p op fuel r f g) := by
  induction fuel with
  | zero =>
    intro r f g ext L hrc ho hf _
    exact ⟨RcPost.clone hrc hf.toHas, OrdPost.clone ho hf⟩
  | succ fuel ih =>
    intro r f g ext L hrc ho hf hg
    refine ⟨setOpR_rc pok cap op (fuel + 1) r f g ext hrc hf.toHas hg.toHas, ?_⟩
    simp only [setOpR]
    cases hT : terminalS op f g with
    | some x =>
      refine OrdPost.clone ho ?_
      rcases terminalS_shape hT with rfl | rfl | rfl
      · exact hf
      · exact hg
      · trivial
    | none =>
      simp only
      split
      · exact setBodyR_ord pok N cap op _ (setOpR_rc pok cap op fuel) ih r g f ext L hrc ho hg hf
      · exact setBodyR_ord pok N cap op _ (setOpR_rc pok cap op fuel) ih r f g ext L hrc ho hf hg

/-! ## `subset::<VAL>` (identity order: `var_level = var`) -/

theorem subsetBelowR_ord {N cap : Nat} (op : SubsetOp) (v : Nat) (r : RSt) (f : ZEdge)
    (ext : List ZEdge) (L : Nat) (hrc : RcInv r ext) (ho : OrdInv N r) (hv : v < N)
    (hf : Above r.st.store L f) (hfv : Above r.st.store (v + 1) f) :
    OrdPost N (min L v) (subsetBelowR cap op v r f) := by
  cases op <;> simp only [subsetBelowR]
  · exact OrdPost.clone ho (hf.weaken (Nat.min_le_left _ _))
  · exact ⟨ho, fun x hx => by cases hx; trivial⟩
  · have h2 : RcInv (cloneEdge r f) (f :: .empty :: ext) :=
      cloneEdge_rc hrc.add_empty hf.toHas
    refine OrdPost.weaken (Nat.min_le_right _ _) ?_
    exact mkNodeR_ord h2 (ho.of_st (cloneEdge_st r f)) hv
      (by rw [cloneEdge_st]; exact hfv) trivial

theorem keyBound_one (op : ZOp) (ops : List ZEdge) (v L : Nat) :
    keyBound ⟨op, ops, [v]⟩ L = min L v := rfl

/-- **`subset0 / subset1 / change` keep the store ordered**; the result is at level
`≥ min L v` -/
theorem subsetR_ord {p : Policy} (pok : p.OK) (N cap : Nat) (op : SubsetOp) (v : Nat) (hv : v < N)
    (fuel : Nat) : ∀ (r : RSt) (f : ZEdge) (ext : List ZEdge) (L : Nat), RcInv r ext → OrdInv N r →
      Above r.st.store L f →
      RcPost r ext (subsetR cap p op v v fuel r f) ∧
      OrdPost N (min L v) (subsetR cap p op v v fuel r f) := by
  induction fuel with
  | zero =>
    intro r f ext L hrc ho hf
    exact ⟨RcPost.clone hrc hf.toHas, OrdPost.clone ho (hf.weaken (Nat.min_le_left _ _))⟩
  | succ fuel ih =>
    intro r f ext L hrc ho hf
    refine ⟨subsetR_rc pok cap op v v (fuel + 1) r f ext hrc hf.toHas, ?_⟩
    simp only [subsetR]
    cases hn : r.st.store.node? f with
    | none => exact subsetBelowR_ord op v r f ext L hrc ho hv hf (above_of_node?_none hf.toHas hn _)
    | some n =>
      simp only
      have hca := node?_child_above hrc ho hn
      have hLl := node?_above_le hn hf
      have hlN := node?_bound ho hn
      split
      · rename_i hlt
        have hkeyAll : ∀ o ∈ [f], Above r.st.store L o := by
          intro o ho'; simp only [List.mem_singleton] at ho'; subst ho'; exact hf
        cases hget : p.get r.st.tick r.st.cache (encKey ⟨subsetTag op, [f], [v]⟩) with
        | some x => exact OrdPost.clone_tickd ho (ho.cache.hit (pok.get_mem _ _ _ _ hget) hkeyAll)
        | none =>
          simp only
          have hmin : min (n.level + 1) v = n.level + 1 := by omega
          obtain ⟨hr1, hro1⟩ := ih r.tickd n.hi ext (n.level + 1) hrc.tickd ho.tickd hca.1
          rw [hmin] at hro1
          refine OrdPost.weaken (show min L v ≤ n.level by omega) ?_
          have hb : OrdPost N n.level (forkR (fun s => subsetR cap p op v v fuel s n.hi)
              (fun s => subsetR cap p op v v fuel s n.lo)
              (fun s hi lo => mkNodeR cap s n.level hi lo) r.tickd) := by
            refine forkR_ord (r := r.tickd) hr1 hro1 ?_ ?_
            · intro t r1 i1 le1 o1
              have := ih r1 n.lo _ (n.level + 1) i1 o1 (hca.2.mono le1)
              rw [hmin] at this
              exact this
            · intro hi lo r0 i0 _ o0 hhi hlo
              exact mkNodeR_ord i0 o0 hlN hhi hlo
          have hle : r.st.store.Le (forkR (fun s => subsetR cap p op v v fuel s n.hi)
              (fun s => subsetR cap p op v v fuel s n.lo)
              (fun s hi lo => mkNodeR cap s n.level hi lo) r.tickd).2.st.store :=
            (forkR_post (r := r.tickd) hr1
              (fun t r1 i1 le1 => subsetR_rc pok cap op v v fuel r1 n.lo _ i1
                (hca.2.toHas.mono le1))
              (fun hi lo r0 i0 _ => mkNodeR_post i0)).1
          have hkey0 : ∀ o ∈ [f], has r.st.store o := fun o ho' => (hkeyAll o ho').toHas
          have hlev0 : ∀ L', (∀ o ∈ [f], Above r.st.store L' o) → min L' v ≤ n.level :=
            fun L' hL' => by
              have := node?_above_le hn (hL' f (by simp))
              omega
          obtain ⟨k1, k2⟩ := key_transfer (b := fun L => min L v) hle hkey0 hlev0
          exact finishAdd_ord pok hb k1 k2
      · split
        · rename_i hnl heq
          refine OrdPost.weaken (show min L v ≤ n.level by omega) ?_
          cases op <;> simp only
          · exact OrdPost.clone ho (hca.2.weaken (Nat.le_succ _))
          · exact OrdPost.clone ho (hca.1.weaken (Nat.le_succ _))
          · exact mkNodeBR_ord (cloneEdge_rc hrc hca.1.toHas) (ho.of_st (cloneEdge_st r n.hi)) hlN
              (by rw [cloneEdge_st]; exact hca.2) (by rw [cloneEdge_st]; exact hca.1)
        · rename_i hnl hne
          exact subsetBelowR_ord op v r f ext L hrc ho hv hf
            ((node?_above_self hn).weaken (by omega))

end OxiddModel.Zbdd.Rc
