import OxiddModel.Zbdd.RcSLemmasOrd

/-!
# Orderedness along histories: the chain, `var_edge`, `add_vars`, `gc`

* `ChainLv s chain`: `tautology(l)` is a terminal or a stored node at level `≥ l`;
* `varR_ord`, `singletonR_ord`, `buildChainR_ord`, `addVarsR_ord`, `reorderNopR_ord`, `gcR_ord`;
* `HOrd h`: the store of a history state is ordered with all levels below `h.n`, the cache
  respects levels, the chain is level-correct (`ChainLv`) and closed under children
  (`ChainClosed`); `Cmd.run_ord`, `runAll_ord`, `init_ord`.
-/
namespace OxiddModel.Zbdd.Rc
open OxiddModel.Zbdd OxiddModel.Zbdd.ZDD OxiddModel.Zbdd.Refine
open OxiddModel.Bdd.Refine (Policy OpTag Key Cache)

/-- `tautology(l)` lies at level `≥ l` -/
def ChainLv (s : Store) (chain : List ZEdge) : Prop := ∀ l, Above s l (tautologyS chain l)

theorem ChainLv.mono {s s' : Store} {chain : List ZEdge} (h : ChainLv s chain) (hle : s.Le s') :
    ChainLv s' chain := fun l => (h l).mono hle

/-! ## `var_edge`, `singleton_edge` -/

theorem varLoopR_ord {N cap : Nat} : ∀ (l : Nat) (r : RSt) (e : ZEdge) (ext : List ZEdge),
    RcInv r (e :: ext) → OrdInv N r → l ≤ N → Above r.st.store l e →
    OrdPost N 0 (varLoopR cap l r e) := by
  intro l
  induction l with
  | zero => intro r e ext _ ho _ he; exact ⟨ho, fun x hx => by cases hx; exact he⟩
  | succ l ih =>
    intro r e ext hrc ho hl he
    simp only [varLoopR]
    have h2 : RcInv (cloneEdge r e) (e :: e :: ext) :=
      cloneEdge_rc hrc (hrc.ext_ok e List.mem_cons_self)
    have hp := insertR_post (cap := cap) (l := l) h2
    have hq := insertR_ord (cap := cap) (l := l) h2 (ho.of_st (cloneEdge_st r e)) (by omega)
      (by rw [cloneEdge_st]; exact he) (by rw [cloneEdge_st]; exact he)
    cases hR : insertR cap (cloneEdge r e) l e e with
    | mk o r' =>
      rw [hR] at hp hq
      cases o with
      | none => exact ⟨hq.1, fun x hx => by cases hx⟩
      | some e' => exact ih r' e' ext hp.2 hq.1 (by omega) (hq.2 e' rfl)

theorem varR_ord {N cap : Nat} (chain : List ZEdge) (r : RSt) (level : Nat) (ext : List ZEdge)
    (hrc : RcInv r ext) (_hch : ∀ e ∈ chain, e ∈ ext) (ho : OrdInv N r)
    (hcl : ChainLv r.st.store chain) (hl : level < N) : OrdPost N 0 (varR cap chain r level) := by
  unfold varR
  have ht := hcl (level + 1)
  have h2 : RcInv (cloneEdge r (tautologyS chain (level + 1)))
      (tautologyS chain (level + 1) :: .empty :: ext) :=
    cloneEdge_rc hrc.add_empty ht.toHas
  have hp := insertR_post (cap := cap) (l := level) h2
  have hq := insertR_ord (cap := cap) (l := level) h2 (ho.of_st (cloneEdge_st r _)) hl
    (by rw [cloneEdge_st]; exact ht) trivial
  cases hR : insertR cap (cloneEdge r (tautologyS chain (level + 1))) level
      (tautologyS chain (level + 1)) .empty with
  | mk o r' =>
    rw [hR] at hp hq
    cases o with
    | none => exact ⟨hq.1, fun x hx => by cases hx⟩
    | some e => exact varLoopR_ord level r' e ext hp.2 hq.1 (by omega) (hq.2 e rfl)

theorem singletonR_ord {N cap : Nat} (r : RSt) (level : Nat) (ext : List ZEdge)
    (hrc : RcInv r ext) (ho : OrdInv N r) (hl : level < N) :
    OrdPost N 0 (singletonR cap r level) :=
  (insertR_ord hrc.add_empty.add_base ho hl trivial trivial).weaken (Nat.zero_le _)

/-! ## `post_reorder_mut` -/

theorem headD_eq_getD (ch : List ZEdge) : ch.headD .base = ch.getD 0 .base := by
  cases ch <;> rfl

theorem buildChainR_ord (cap n : Nat) : ∀ (j : Nat) (r : RSt) (ext : List ZEdge), RcInv r ext →
    OrdInv n r → j ≤ n →
    OrdInv n (buildChainR cap n j r).2 ∧
    ∀ ch, (buildChainR cap n j r).1 = some ch →
      (∀ i, Above (buildChainR cap n j r).2.st.store (n - j + i) (ch.getD i .base)) ∧
      ch.getD j .base = .base := by
  intro j
  induction j with
  | zero =>
    intro r ext _ ho _
    refine ⟨ho, fun ch hch => ?_⟩
    simp only [buildChainR] at hch ⊢
    cases hch
    refine ⟨fun i => ?_, rfl⟩
    cases i with
    | zero => trivial
    | succ i => simp only [List.getD_cons_succ, List.getD_nil]; trivial
  | succ j ih =>
    intro r ext hrc ho hj
    obtain ⟨o1, c1⟩ := ih r ext hrc ho (by omega)
    have sp := (buildChainR_spec cap n j r ext hrc).2.2
    simp only [buildChainR]
    cases hB : buildChainR cap n j r with
    | mk o r' =>
      rw [hB] at o1 c1 sp
      cases o with
      | none => exact ⟨o1, fun ch hch => by cases hch⟩
      | some ch =>
        obtain ⟨inv1, hb, _, _⟩ := sp
        obtain ⟨ca, cb⟩ := c1 ch rfl
        simp only at o1 ca ⊢
        have hlast : Above r'.st.store (n - (j + 1) + 1) (ch.headD .base) := by
          have := ca 0
          rw [headD_eq_getD]
          have e : n - (j + 1) + 1 = n - j + 0 := by omega
          rw [e]; exact this
        have h2 : RcInv (cloneEdge (cloneEdge r' (ch.headD .base)) (ch.headD .base))
            (ch.headD .base :: ch.headD .base :: (ch ++ ext)) :=
          cloneEdge_rc (cloneEdge_rc inv1 hlast.toHas) (by rw [cloneEdge_st]; exact hlast.toHas)
        have hp := insertR_post (cap := cap) (l := n - (j + 1)) h2
        have hq := insertR_ord (N := n) (cap := cap) (l := n - (j + 1)) h2
          (o1.of_st (by simp)) (by omega)
          (by simp only [cloneEdge_st]; exact hlast) (by simp only [cloneEdge_st]; exact hlast)
        cases hR : insertR cap (cloneEdge (cloneEdge r' (ch.headD .base)) (ch.headD .base))
            (n - (j + 1)) (ch.headD .base) (ch.headD .base) with
        | mk o2 r'' =>
          rw [hR] at hp hq
          have le2 : r'.st.store.Le r''.st.store := by
            have := hp.1; simp only [cloneEdge_st] at this; exact this
          cases o2 with
          | none => exact ⟨hq.1, fun ch' hch' => by cases hch'⟩
          | some e =>
            refine ⟨hq.1, fun ch' hch' => ?_⟩
            simp only at hch' ⊢
            cases hch'
            refine ⟨fun i => ?_, ?_⟩
            · cases i with
              | zero => simpa using hq.2 e rfl
              | succ i =>
                simp only [List.getD_cons_succ]
                have := (ca i).mono le2
                have e' : n - (j + 1) + (i + 1) = n - j + i := by omega
                rw [e']; exact this
            · simpa using cb

/-- the rebuilt chain is level-correct -/
theorem chainLv_of_build {s : Store} {n : Nat} {ch : List ZEdge} (hlen : ch.length = n + 1)
    (ha : ∀ i, Above s (n - n + i) (ch.getD i .base)) (hb : ch.getD n .base = .base) :
    ChainLv s ch := by
  intro l
  unfold tautologyS
  rw [hlen]
  by_cases hl : l ≤ n
  · have : min (n + 1 - 1) l = l := by omega
    rw [this]
    have := ha l
    simpa using this
  · have : min (n + 1 - 1) l = n := by omega
    rw [this, hb]
    trivial

/-! ## `pre_reorder_mut`, `add_vars`, empty `reorder`, `gc` -/

theorem ordInv_sub_nil {N : Nat} {r r' : RSt} (ho : OrdInv N r) (hs : Sub r'.st.store r.st.store)
    (hc : r'.st.cache = []) : OrdInv N r' := by
  refine ⟨sordered_sub ho.ord hs, fun i n hi => ho.bound i n (hs i n hi), ?_⟩
  rw [hc]
  intro k v hkv; cases hkv

theorem addVarsR_ord {cap n k : Nat} {chain : List ZEdge} {r : RSt} {ext : List ZEdge}
    (hrc : RcInv r (chain ++ ext)) (ho : OrdInv n r) :
    OrdInv (n + k) (addVarsR cap n k chain r).2 ∧
    ∀ ch, (addVarsR cap n k chain r).1 = some ch → ChainLv (addVarsR cap n k chain r).2.st.store ch := by
  have sp := (addVarsR_rc (cap := cap) (n := n) (k := k) hrc).2.2
  unfold addVarsR at sp ⊢
  have h1 := tearDownR_rc (prepared := false) chain r ext hrc (fun hp => by cases hp)
  have hst := tearDownR_false_st chain r
  have ho1 : OrdInv (n + k) (tearDownR (tryRemoveNodeR false) chain r) :=
    (ho.more (Nat.le_add_right _ _)).of_st hst
  obtain ⟨a, b⟩ := buildChainR_ord cap (n + k) (n + k) _ ext h1 ho1 (Nat.le_refl _)
  refine ⟨a, fun ch hch => ?_⟩
  obtain ⟨ca, cb⟩ := b ch hch
  cases hR : buildChainR cap (n + k) (n + k) (tearDownR (tryRemoveNodeR false) chain r) with
  | mk o r' =>
    rw [hR] at sp hch ca
    simp only at hch
    subst hch
    exact chainLv_of_build sp.2.2.2 ca cb

theorem reorderNopR_ord {cap n : Nat} {chain : List ZEdge} {r : RSt} {ext : List ZEdge}
    (hrc : RcInv r (chain ++ ext)) (ho : OrdInv n r) :
    OrdInv n (reorderNopR cap n chain r).2 ∧
    ∀ ch, (reorderNopR cap n chain r).1 = some ch → ChainLv (reorderNopR cap n chain r).2.st.store ch := by
  have sp := (reorderNopR_rc (cap := cap) (n := n) hrc).2
  unfold reorderNopR at sp ⊢
  have h0 : RcInv { r with st := { r.st with cache := [] } } (chain ++ ext) :=
    ⟨hrc.ext_ok, hrc.kids_ok, fun _ _ hm => (by cases hm), hrc.rc_eq⟩
  have h1 := tearDownR_rc (prepared := true) chain _ ext h0 (fun _ => rfl)
  obtain ⟨hs, hc⟩ := tearDownR_sub (prepared := true) chain { r with st := { r.st with cache := [] } }
  have ho1 : OrdInv n (tearDownR (tryRemoveNodeR true) chain { r with st := { r.st with cache := [] } }) :=
    ordInv_sub_nil ho hs hc
  obtain ⟨a, b⟩ := buildChainR_ord cap n n _ ext h1 ho1 (Nat.le_refl _)
  refine ⟨a, fun ch hch => ?_⟩
  obtain ⟨ca, cb⟩ := b ch hch
  cases hR : buildChainR cap n n
      (tearDownR (tryRemoveNodeR true) chain { r with st := { r.st with cache := [] } }) with
  | mk o r' =>
    rw [hR] at sp hch ca
    simp only at hch
    subst hch
    exact chainLv_of_build sp.2.2.2 ca cb

theorem gcR_ord {N : Nat} {r : RSt} {ext : List ZEdge} (n : Nat) (hrc : RcInv r ext)
    (ho : OrdInv N r) : OrdInv N (gcR n r) :=
  ordInv_sub_nil ho (gcR_sub n r) (gcR_rc n hrc).2

/-! ## histories -/

/-- what a history state satisfies besides exact counters -/
structure HOrd (h : HSt) : Prop where
  ord : OrdInv h.n h.r
  lv : ChainLv h.r.st.store h.chain
  closed : ChainClosed h.r.st.store h.chain

theorem ChainClosed.mono {s s' : Store} {ch : List ZEdge} (h : ChainClosed s ch)
    (hh : ∀ e ∈ ch, has s e) (hle : s.Le s') : ChainClosed s' ch := by
  intro i n hm hi
  have hx : has s (.inner i) := hh _ hm
  obtain ⟨n0, hn0⟩ := hx
  have hr := h i n0 hm hn0
  have := hle i n0 hn0
  rw [this] at hi; cases hi
  exact hr

theorem ChainClosed.sub {s s' : Store} {ch : List ZEdge} (h : ChainClosed s ch) (hs : Sub s' s) :
    ChainClosed s' ch := fun i n hm hi => h i n hm (hs i n hi)

theorem pushRes_ord {h : HSt} {L : Nat} {res : Option ZEdge × RSt} (hi : HInv h) (ho : HOrd h)
    (hp : RcPost h.r (h.chain ++ h.hs) res) (hq : OrdPost h.n L res) : HOrd (pushRes h res) := by
  have hle := hp.1
  have hh : ∀ e ∈ h.chain, has h.r.st.store e := fun e he => hi.ext_ok e (List.mem_append_left _ he)
  obtain ⟨o, r'⟩ := res
  cases o <;> exact ⟨hq.1, ho.lv.mono hle, ho.closed.mono hh hle⟩

theorem HOrd.of_st {h h' : HSt} (ho : HOrd h) (hs : h'.r.st = h.r.st) (hc : h'.chain = h.chain)
    (hn : h'.n = h.n) : HOrd h' := by
  refine ⟨?_, ?_, ?_⟩
  · rw [hn]; exact ho.ord.of_st hs
  · rw [hs, hc]; exact ho.lv
  · rw [hs, hc]; exact ho.closed

theorem Cmd.run_ord {p : Policy} (pok : p.OK) (c : Cmd) (h : HSt) (hi : HInv h) (ho : HOrd h) :
    HOrd (c.run p h) := by
  have hh : ∀ e ∈ h.chain, has h.r.st.store e := fun e he => hi.ext_ok e (List.mem_append_left _ he)
  cases c with
  | const b => exact ho.of_st rfl rfl rfl
  | t =>
    refine pushRes_ord (L := 0) hi ho (tR_rc h.chain h.r _ hi (chain_sub h)) ?_
    exact OrdPost.clone ho.ord (ho.lv 0)
  | var cap level =>
    simp only [Cmd.run]
    split
    · rename_i hl
      exact pushRes_ord hi ho (varR_rc cap h.chain h.r level _ hi (chain_sub h))
        (varR_ord h.chain h.r level _ hi (chain_sub h) ho.ord ho.lv hl)
    · exact ho
  | singleton cap level =>
    simp only [Cmd.run]
    split
    · rename_i hl
      exact pushRes_ord hi ho (singletonR_rc cap h.r level _ hi) (singletonR_ord h.r level _ hi ho.ord hl)
    · exact ho
  | setop cap fuel op a b =>
    simp only [Cmd.run]
    cases ha : h.hs[a]? with
    | none => exact ho
    | some f =>
      cases hb : h.hs[b]? with
      | none => exact ho
      | some g =>
        obtain ⟨x, y⟩ := setOpR_ord pok h.n cap op fuel h.r f g _ 0 hi ho.ord
          (has_above_zero (hs_has hi ha)) (has_above_zero (hs_has hi hb))
        exact pushRes_ord hi ho x y
  | not cap fuel a =>
    simp only [Cmd.run]
    cases ha : h.hs[a]? with
    | none => exact ho
    | some f =>
      obtain ⟨x, y⟩ := setOpR_ord pok h.n cap .diff fuel h.r (tautologyS h.chain 0) f _ 0 hi ho.ord
        (ho.lv 0) (has_above_zero (hs_has hi ha))
      exact pushRes_ord hi ho x y
  | subset cap fuel op v a =>
    simp only [Cmd.run]
    cases ha : h.hs[a]? with
    | none => exact ho
    | some f =>
      simp only
      split
      · rename_i hv
        obtain ⟨x, y⟩ := subsetR_ord pok h.n cap op v hv fuel h.r f _ 0 hi ho.ord
          (has_above_zero (hs_has hi ha))
        exact pushRes_ord hi ho x y
      · exact ho
  | clone a =>
    simp only [Cmd.run]
    cases ha : h.hs[a]? with
    | none => exact ho
    | some f => exact ho.of_st (cloneEdge_st _ _) rfl rfl
  | drop a =>
    simp only [Cmd.run]
    cases ha : h.hs[a]? with
    | none => exact ho
    | some f => exact ho.of_st (dropEdge_st _ _) rfl rfl
  | gc =>
    simp only [Cmd.run]
    refine ⟨gcR_ord h.n hi ho.ord, ?_, ho.closed.sub (gcR_sub h.n h.r)⟩
    intro l
    have hl := ho.lv l
    rcases tautologyS_mem h.chain l with hm | hb
    · cases ht : tautologyS h.chain l with
      | inner i =>
        rw [ht] at hm hl
        obtain ⟨n, hn, hlv⟩ := hl
        obtain ⟨n', hn', hk⟩ := gcR_keeps_reach h.n hi (.root (List.mem_append_left _ hm))
        rw [hn] at hn'; cases hn'
        exact ⟨n, hk, hlv⟩
      | empty => trivial
      | base => trivial
    · rw [hb]; trivial
  | addVars cap k =>
    simp only [Cmd.run]
    have sp := (addVarsR_rc (cap := cap) (n := h.n) (k := k) hi).2.2
    obtain ⟨a, b⟩ := addVarsR_ord (cap := cap) (k := k) hi ho.ord
    cases hR : addVarsR cap h.n k h.chain h.r with
    | mk o r' =>
      rw [hR] at sp a b
      cases o with
      | none => exact ho
      | some ch => exact ⟨a, b ch rfl, sp.2.2.1⟩
  | reorderNop cap =>
    simp only [Cmd.run]
    have sp := (reorderNopR_rc (cap := cap) (n := h.n) hi).2
    obtain ⟨a, b⟩ := reorderNopR_ord (cap := cap) hi ho.ord
    cases hR : reorderNopR cap h.n h.chain h.r with
    | mk o r' =>
      rw [hR] at sp a b
      cases o with
      | none => exact ho
      | some ch => exact ⟨a, b ch rfl, sp.2.2.1⟩

theorem runAll_ord {p : Policy} (pok : p.OK) : ∀ (cmds : List Cmd) (h : HSt), HInv h → HOrd h →
    HInv (runAll p cmds h) ∧ HOrd (runAll p cmds h) := by
  intro cmds
  induction cmds with
  | nil => intro h hi ho; exact ⟨hi, ho⟩
  | cons c cs ih =>
    intro h hi ho
    exact ih _ (Cmd.run_rc pok c h hi) (Cmd.run_ord pok c h hi ho)

theorem ordinv_empty (N : Nat) : OrdInv N RSt.empty where
  ord i n j m h := by simp [RSt.empty, Store.get?] at h
  bound i n h := by simp [RSt.empty, Store.get?] at h
  cache _ _ h := by cases h

theorem init_ord {cap n : Nat} {h : HSt} (hh : HSt.init cap n = some h) : HOrd h := by
  unfold HSt.init at hh
  have h0 : RcInv RSt.empty ([ZEdge.base] ++ []) := RcInv.add_base rcinv_empty
  have sp := (addVarsR_rc (cap := cap) (n := 0) (k := n) h0).2.2
  obtain ⟨a, b⟩ := addVarsR_ord (cap := cap) (n := 0) (k := n) h0 (ordinv_empty 0)
  cases hR : addVarsR cap 0 n [.base] RSt.empty with
  | mk o r' =>
    rw [hR] at sp hh a b
    cases o with
    | none => cases hh
    | some ch =>
      cases hh
      refine ⟨?_, b ch rfl, sp.2.2.1⟩
      simpa using a

end OxiddModel.Zbdd.Rc
