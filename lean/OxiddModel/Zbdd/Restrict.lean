import OxiddModel.Zbdd.Ite

/-! `restrict(f, cube)`: the result is `f` with the cube's literals substituted, as a Boolean
function over the `n` variables of the manager. -/
namespace OxiddModel.Zbdd
open ZDD

/-- a ZBDD that is a satisfiable conjunction of literals: a node is a positive literal (`lo = ∅`)
or a don't care (`hi = lo`); a skipped level is a negative literal -/
inductive IsCube : ZDD → Prop
  | base : IsCube .base
  | pos {l : Nat} {a : ZDD} : IsCube a → IsCube (.node l a .empty)
  | dc {l : Nat} {a : ZDD} : IsCube a → IsCube (.node l a a)

theorem IsCube.ne_empty {c : ZDD} (h : IsCube c) : c ≠ .empty := by
  cases h <;> simp

/-- the literal of level `v` in the cube (`none`: the cube does not mention the variable) -/
def litOf : ZDD → Nat → Option Bool
  | .node cl chi clo, v =>
    if v < cl then some false else if v = cl then (if chi = clo then none else some true) else litOf chi v
  | _, _ => some false

/-- `σ` with the cube's literals substituted -/
def over (σ : Nat → Bool) (c : ZDD) : Nat → Bool := fun v => (litOf c v).getD (σ v)

theorem over_lt (σ : Nat → Bool) {cl v : Nat} (chi clo : ZDD) (h : v < cl) : over σ (.node cl chi clo) v = false := by
  simp [over, litOf, h]

theorem over_gt (σ : Nat → Bool) {cl v : Nat} (chi clo : ZDD) (h : cl < v) :
    over σ (.node cl chi clo) v = over σ chi v := by
  have h1 : ¬ v < cl := by omega
  have h2 : v ≠ cl := by omega
  simp [over, litOf, h1, h2]

theorem over_dc (σ : Nat → Bool) (cl : Nat) (chi : ZDD) : over σ (.node cl chi chi) cl = σ cl := by
  simp [over, litOf]

theorem over_pos (σ : Nat → Bool) (cl : Nat) {chi clo : ZDD} (h : chi ≠ clo) : over σ (.node cl chi clo) cl = true := by
  simp [over, litOf, h]

theorem over_terminal (σ : Nat → Bool) {c : ZDD} (h : ∀ l a b, c = .node l a b → False) (v : Nat) :
    over σ c v = false := by
  cases c with
  | node l a b => exact (h l a b rfl).elim
  | _ => rfl

/-- below a level that the cube skips (or if the cube is a terminal) the literal is negative -/
theorem over_skip (σ : Nat → Bool) {n k : Nat} {c : ZDD} (hc : Ordered n k c) {v : Nat} (h : v < c.level) :
    over σ c v = false := by
  cases hc with
  | node _ _ _ _ => exact over_lt σ _ _ h
  | empty => rfl
  | base => rfl

/-! ## don't-care chains -/

/-- the chain of don't-care nodes `restrict_base` builds for the negative literals on `[k, k+m)` -/
def dcRange (k m : Nat) (r : ZDD) : ZDD := (List.range' k m).foldr (fun l r => .node l r r) r

theorem dcRange_succ (k m : Nat) (r : ZDD) : dcRange k (m+1) r = .node k (dcRange (k+1) m r) (dcRange (k+1) m r) := by
  simp [dcRange, List.range'_succ]

theorem dcRange_eval (n : Nat) (σ : Nat → Bool) (k m : Nat) (r : ZDD) :
    eval n σ k (dcRange k m r) = eval n σ (k+m) r := by
  induction m generalizing k with
  | zero => rfl
  | succ m ih =>
    rw [dcRange_succ]
    simp only [eval, allFalse_self, Bool.true_and]
    rw [ih (k+1)]
    have : k + 1 + m = k + (m + 1) := by omega
    rw [this]; cases σ k <;> rfl

theorem dcRange_ordered (n k m : Nat) (r : ZDD) (h : k + m ≤ n) (hr : Ordered n (k+m) r) :
    Ordered n k (dcRange k m r) := by
  induction m generalizing k with
  | zero => exact hr
  | succ m ih =>
    rw [dcRange_succ]
    have : k + 1 + m = k + (m + 1) := by omega
    exact .node (Nat.le_refl _) (by omega) (ih (k+1) (by omega) (this ▸ hr)) (ih (k+1) (by omega) (this ▸ hr))

theorem dcRange_ne_empty (k m : Nat) (r : ZDD) (hr : r ≠ .empty) : dcRange k m r ≠ .empty := by
  cases m with
  | zero => exact hr
  | succ m => rw [dcRange_succ]; simp

theorem dcRange_reduced (k m : Nat) (r : ZDD) (hne : r ≠ .empty) (hr : Reduced r) : Reduced (dcRange k m r) := by
  induction m generalizing k with
  | zero => exact hr
  | succ m ih =>
    rw [dcRange_succ]
    exact ⟨dcRange_ne_empty _ _ _ hne, ih (k+1), ih (k+1)⟩

/-! ## `restrict_base` -/

theorem restrictBase_node_dc (n cl : Nat) (chi : ZDD) (level : Nat) :
    restrictBase n (.node cl chi chi) level =
      if cl > level ∧ restrictBase n chi (cl+1) ≠ .empty then dcRange level (cl - level) (restrictBase n chi (cl+1))
      else restrictBase n chi (cl+1) := by
  rw [restrictBase]
  simp [dcRange]

theorem restrictBase_reduced (n : Nat) (c : ZDD) (k : Nat) : Reduced (restrictBase n c k) := by
  fun_induction restrictBase n c k with
  | case1 => trivial
  | case2 level a a1 a2 h res hc ih => exact dcRange_reduced _ _ _ hc.2 ih
  | case3 level a a1 a2 h res hc ih => exact ih
  | case4 t level h => exact taut_reduced _ _

theorem restrictBase_spec (n : Nat) (c : ZDD) (k : Nat) (hc : Ordered n k c) (hcube : IsCube c) (hk : k ≤ n) :
    Ordered n k (restrictBase n c k) ∧
    ∀ σ, eval n σ k (restrictBase n c k) = allFalse (over σ c) k n := by
  induction hcube generalizing k with
  | base =>
    refine ⟨by simpa [restrictBase] using taut_ordered n k, fun σ => ?_⟩
    simp only [restrictBase, taut_eval]
    exact (allFalse_iff.mpr (fun v _ _ => rfl)).symm
  | @pos l a ha ih =>
    cases hc with | node h1 h2 oh ol =>
    have hne : a ≠ .empty := ha.ne_empty
    refine ⟨by simp [restrictBase, hne]; exact .empty, fun σ => ?_⟩
    simp only [restrictBase, ne_eq, hne, not_false_eq_true, if_true, eval]
    exact (allFalse_false_of_true h1 h2 (over_pos σ l hne)).symm
  | @dc l a ha ih =>
    cases hc with | node h1 h2 oh ol =>
    obtain ⟨o, e⟩ := ih (l+1) oh (by omega)
    rw [restrictBase_node_dc]
    have hover : ∀ σ, allFalse (over σ (.node l a a)) k n = (!σ l && allFalse (over σ a) (l+1) n) := by
      intro σ
      rw [allFalse_split _ h1 (Nat.le_of_lt h2),
        allFalse_split (k := l) (m := l+1) _ (by omega) (by omega)]
      have p1 : allFalse (over σ (.node l a a)) k l = true :=
        allFalse_iff.mpr (fun v _ hv => over_lt σ _ _ hv)
      have p2 : allFalse (over σ (.node l a a)) l (l+1) = !σ l := by
        rw [allFalse_succ _ (Nat.le_refl l), allFalse_self, over_dc]; simp
      have p3 : allFalse (over σ (.node l a a)) (l+1) n = allFalse (over σ a) (l+1) n :=
        allFalse_congr (fun v hv _ => over_gt σ _ _ (by omega))
      rw [p1, p2, p3]; simp
    split
    · have hkl : k + (l - k) = l := by omega
      refine ⟨dcRange_ordered n k (l-k) _ (by omega) (by rw [hkl]; exact o.mono (by omega)), fun σ => ?_⟩
      rw [dcRange_eval, hkl, eval_below σ o (Nat.le_refl l) h2, allFalse_self, e σ, hover]; simp
    · rename_i hw
      refine ⟨o.mono (by omega), fun σ => ?_⟩
      rw [hover, eval_below σ o h1 h2]
      by_cases hkl : l > k
      · have : restrictBase n a (l+1) = .empty := by
          apply Classical.byContradiction
          intro hne; exact hw ⟨hkl, hne⟩
        rw [← e σ, this]; simp [eval]
      · have : l = k := by omega
        subst this; rw [allFalse_self, e σ]; simp

/-! ## `restrict` -/

theorem IsCube.child {l : Nat} {a b : ZDD} (h : IsCube (.node l a b)) : IsCube a := by
  cases h <;> assumption

theorem IsCube.lo_of_ne {l : Nat} {a b : ZDD} (h : IsCube (.node l a b)) (hne : a ≠ b) : b = .empty := by
  cases h with
  | pos _ => rfl
  | dc _ => exact absurd rfl hne

theorem restrict_reduced (n : Nat) (f c : ZDD) (k : Nat) (hf : Reduced f) : Reduced (restrict n f c k) := by
  fun_induction restrict n f c k with
  | case1 => trivial
  | case2 vars level => exact restrictBase_reduced _ _ _
  | case3 => exact hf
  | case4 vars level a a1 a2 _ _ ih =>
    simp only [dite_eq_ite] at ih
    exact mk1_reduced (ih (by split; exact hf.2.2; exact hf))
  | case5 => trivial
  | case6 level a a1 a2 _ a3 a4 a5 _ _ _ ih => exact mk1_reduced (ih hf.2.1)
  | case7 level a a1 a2 _ a3 a4 a5 _ _ _ ih => exact ih hf
  | case8 level a a1 a2 _ a3 a4 a5 _ _ _ ih1 ih2 => exact mk_reduced (ih1 hf.2.1) (ih2 hf.2.2)
  | case9 => trivial

theorem restrict_spec (n : Nat) (f c : ZDD) (k : Nat) (hn : n ≤ maxLevel) (hk : k ≤ n)
    (hf : Ordered n k f) (hc : Ordered n k c) (hcube : IsCube c) :
    Ordered n k (restrict n f c k) ∧
    ∀ σ, eval n σ k (restrict n f c k) = eval n (over σ c) k f := by
  fun_induction restrict n f c k with
  | case1 => exact ⟨.empty, fun σ => rfl⟩
  | case2 vars level => exact restrictBase_spec n vars level hc hcube hk
  | case3 vars level a a1 a2 hlt => cases hf with | node h1 _ _ _ => omega
  | case4 vars level a a1 a2 _ hne ih =>
    simp only [dite_eq_ite] at ih
    cases hf with | node h1 h2 oh ol =>
    have hlv : level < vars.level := by
      rcases hc.level_cases with ⟨c1, _⟩ | ⟨c1, _⟩
      · omega
      · have : maxLevel = 4294967295 := rfl
        omega
    have osel : Ordered n (level+1) (if a = level then a2 else .node a a1 a2) := by
      split
      · rename_i h; subst h; exact ol
      · exact .node (by omega) h2 oh ol
    obtain ⟨o, e⟩ := ih (by omega) osel (hc.raise (by omega)) hcube
    refine ⟨mk1_ordered (Nat.le_refl _) (by omega) o, fun σ => ?_⟩
    rw [mk1_eval, allFalse_self, Bool.true_and, e σ]
    have hov : over σ vars level = false := over_skip σ hc hlv
    split
    · rename_i h; subst h
      simp [eval, allFalse_self, hov]
    · rw [eval_below (over σ vars) (.node (by omega) h2 oh ol) (Nat.le_refl level) (by omega), allFalse_self, hov]
      simp
  | case5 level a a1 a2 _ a3 a4 a5 hne hal hlev =>
    cases hf with | node h1 h2 oh ol =>
    simp only [ZDD.level, ne_eq, Decidable.not_not] at hlev
    subst hlev
    refine ⟨.empty, fun σ => ?_⟩
    rw [eval_below (over σ _) (.node (by omega) h2 oh ol) (Nat.le_refl a3) (by omega), over_pos σ a3 hne]
    simp [eval]
  | case6 level a a1 a2 _ a3 a4 a5 hne hal hlev ih =>
    cases hf with | node h1 h2 oh ol =>
    cases hc with | node c1 c2 coh col =>
    simp only [ZDD.level, ne_eq, Decidable.not_not] at hlev hal
    subst hlev; subst hal
    obtain ⟨o, e⟩ := ih (by omega) oh coh hcube.child
    refine ⟨mk1_ordered (Nat.le_refl _) h2 o, fun σ => ?_⟩
    rw [mk1_eval, allFalse_self, Bool.true_and, e σ]
    simp only [eval, allFalse_self, Bool.true_and, over_pos σ a hne, if_true]
    exact eval_indep oh _ _ (fun v hv => (over_gt σ _ _ (by omega)).symm)
  | case7 level a a1 a2 _ a3 a4 a5 heq hal hlev ih =>
    cases hf with | node h1 h2 oh ol =>
    cases hc with | node c1 c2 coh col =>
    simp only [ZDD.level, ne_eq, Decidable.not_not] at hlev heq
    subst hlev; subst heq
    have of : Ordered n (a3+1) (.node a a1 a2) := .node (by omega) h2 oh ol
    obtain ⟨o, e⟩ := ih (by omega) of coh hcube.child
    refine ⟨o.mono (by omega), fun σ => ?_⟩
    rw [eval_below σ o (Nat.le_refl a3) c2, allFalse_self, e σ,
      eval_below (over σ _) of (Nat.le_refl a3) c2, allFalse_self, over_dc]
    congr 1
    exact eval_indep of _ _ (fun v hv => (over_gt σ _ _ (by omega)).symm)
  | case8 level a a1 a2 _ a3 a4 a5 heq hal hlev ih1 ih2 =>
    cases hf with | node h1 h2 oh ol =>
    cases hc with | node c1 c2 coh col =>
    simp only [ZDD.level, ne_eq, Decidable.not_not] at hlev heq hal
    subst hlev; subst heq; subst hal
    obtain ⟨o1, e1⟩ := ih1 (by omega) oh coh hcube.child
    obtain ⟨o2, e2⟩ := ih2 (by omega) ol coh hcube.child
    refine ⟨mk_ordered (Nat.le_refl _) h2 o1 o2, fun σ => ?_⟩
    rw [mk_eval σ _ _ (Nat.le_refl _) h2 o2, e1 σ, e2 σ]
    simp only [eval, over_dc]
    rw [eval_indep oh (over σ a4) (over σ (.node a a4 a4)) (fun v hv => (over_gt σ _ _ (by omega)).symm),
      eval_indep ol (over σ a4) (over σ (.node a a4 a4)) (fun v hv => (over_gt σ _ _ (by omega)).symm),
      allFalse_self, allFalse_self]
  | case9 vars level a a1 a2 _ hlev hnn =>
    exfalso
    cases hf with | node h1 h2 oh ol =>
    have := level_terminal hnn
    have : maxLevel = 4294967295 := rfl
    simp only [ne_eq, Decidable.not_not] at hlev
    omega

end OxiddModel.Zbdd
