import OxiddModel.Zbdd.ChainS

/-!
# `restrict` on the store, with the apply cache keyed by the number of levels

`restrictS` follows `restrict` of `crates/oxidd-rules-zbdd/src/apply_rec.rs` (including the local
`restrict_base`, `reduce1`, the don't-care loop `for l in (level..node_level).rev()` and the
`debug_assert!(flevel >= level)` guard as modelled in `Model.lean`). The apply cache is consulted
only when `f` and `vars` both have a node at `level` and the node of `vars` is a don't care; the key
is `(Restrict, [f, vars], [num_levels])`.

* `restrictBaseS_spec`, `restrictS_spec`: the result denotes `restrictBase n …` / `restrict n …`,
  the store is only extended, `Unique ∧ CacheOK` are kept and store and result are the canonical
  ones — for every sound cache, **including caches filled under other numbers of levels**.
  The recursion of `restrict` is not bounded by the operand sizes alone (the level runs down to the
  top level of `f`), so the fuel bound is stated existentially: for all operand trees there is a
  fuel bound, independent of store, cache and policy, from which on the specification holds.
* `restrictS_cache_keys`: every entry created by `restrictS … n …` is keyed by
  `(Restrict, [·, ·], [n])`.
-/
namespace OxiddModel.Zbdd.Refine
open OxiddModel.Zbdd OxiddModel.Zbdd.ZDD
open OxiddModel.Bdd.Refine (Policy OpTag Key Cache)

/-! ## helpers: `Node::level()`, `get_or_insert` of a don't-care node, `reduce1` -/

/-- `manager.get_node(&e).level()`: `LevelNo::MAX` for terminals -/
def Store.levelZ (s : Store) (e : ZEdge) : Nat :=
  match s.node? e with
  | some n => n.level
  | none => maxLevel

theorem levelZ_denotes {s : Store} {e : ZEdge} {a : ZDD} (h : DenotesZ s e a) :
    s.levelZ e = a.level := by
  cases h with
  | empty => rfl
  | base => rfl
  | inner hi _ _ => simp [Store.levelZ, Store.node?, hi, ZDD.level]

/-- `get_or_insert(InnerNode::new(l, [e, e]))` -/
def dupS (st : St) (l : Nat) (e : ZEdge) : St × ZEdge :=
  let m := st.store.getOrInsert ⟨l, e, e⟩
  (⟨m.1, st.cache, st.tick⟩, m.2)

/-- `reduce1(manager, level, child, op)` -/
def mk1S (st : St) (l : Nat) (e : ZEdge) : St × ZEdge :=
  if e = .empty then (st, e) else dupS st l e

theorem post_dupS {env : Env} {s : Store} {R : St × ZEdge} {T : ZDD} (h : Post env s T R)
    (hT : T ≠ .empty) (l : Nat) : Post env s (.node l T T) (dupS R.1 l R.2) := by
  have hne : R.2 ≠ .empty := fun e => hT (h.den.empty_iff.mp e)
  have lem := getOrInsert_le R.1.store ⟨l, R.2, R.2⟩
  refine ⟨⟨getOrInsert_unique _ _ h.inv.1, h.inv.2.mono lem⟩, h.le.trans lem,
    getOrInsert_denotes _ l _ _ _ _ h.den h.den, ?_⟩
  intro hr
  have c := h.canon hr
  have hr1 := h.nored hr
  have e1s : R.1.store = (intern s T).1 := congrArg Prod.fst c
  have e1e : R.2 = (intern s T).2 := congrArg Prod.snd c
  have hi := intern_of_denotes h.inv.1 hr1 h.den
  show (R.1.store.getOrInsert ⟨l, R.2, R.2⟩) = intern s (.node l T T)
  simp only [intern]
  rw [← e1s, ← e1e, hi]
  simp only [Store.mkNodeZ, hne, if_false]

theorem post_mk1S {env : Env} {s : Store} {R : St × ZEdge} {T : ZDD} (h : Post env s T R)
    (l : Nat) : Post env s (mk1 l T) (mk1S R.1 l R.2) := by
  unfold mk1 mk1S
  by_cases hT : T = .empty
  · have : R.2 = .empty := h.den.empty_iff.mpr hT
    simp only [hT, this, if_true]
    subst hT
    exact ⟨h.inv, h.le, by rw [← this]; exact h.den, fun hr => by rw [← this]; exact h.canon hr⟩
  · have : R.2 ≠ .empty := fun e => hT (h.den.empty_iff.mp e)
    simp only [hT, this, if_false]
    exact post_dupS h hT l

/-- `for l in (level..level+m).rev() { res = get_or_insert(InnerNode::new(l, [res, res])) }` -/
def dcLoopS (level : Nat) : Nat → St → ZEdge → St × ZEdge
  | 0, st, e => (st, e)
  | m+1, st, e =>
    let r := dupS st (level + m) e
    dcLoopS level m r.1 r.2

theorem dcRange_snoc (k m : Nat) (r : ZDD) :
    dcRange k (m+1) r = dcRange k m (.node (k+m) r r) := by
  unfold dcRange
  rw [List.range'_1_concat, List.foldr_append]
  rfl

theorem dcLoopS_post {env : Env} {s : Store} (level : Nat) : ∀ (m : Nat) {R : St × ZEdge} {T : ZDD},
    Post env s T R → T ≠ .empty → Post env s (dcRange level m T) (dcLoopS level m R.1 R.2) := by
  intro m
  induction m with
  | zero => intro R T h _; exact h
  | succ m ih =>
    intro R T h hT
    rw [dcRange_snoc]
    simp only [dcLoopS]
    exact ih (post_dupS h hT (level + m)) (by simp)

/-! ## `restrict_base` -/

/-- `restrict_base(manager, vars, level)` -/
def restrictBaseS (chain : List ZEdge) : Nat → St → ZEdge → Nat → St × ZEdge
  | 0, st, vars, _ => (st, vars)
  | fuel+1, st, vars, level =>
    match st.store.node? vars with
    | some vn =>
      if vn.hi ≠ vn.lo then
        -- positive literal: select the (zero-suppressed) HI branch of Base
        (st, .empty)
      else
        let r := restrictBaseS chain fuel st vn.hi (vn.level + 1)
        if vn.level > level ∧ r.2 ≠ .empty then dcLoopS level (vn.level - level) r.1 r.2 else r
    | none => (st, tautologyS chain level)

theorem restrictBaseS_spec (env : Env) (chain : List ZEdge) (fuel : Nat) :
    ∀ (st : St) (vars : ZEdge) (c : ZDD) (level : Nat), Inv env st →
    ChainOK env.numLevels st.store chain → DenotesZ st.store vars c → c.size ≤ fuel →
    Post env st.store (restrictBase env.numLevels c level) (restrictBaseS chain fuel st vars level) := by
  induction fuel with
  | zero => intro st vars c level _ _ _ hsz; have := size_pos c; omega
  | succ fuel ih =>
    intro st vars c level hinv hch hv hsz
    cases hv with
    | empty =>
      simp only [restrictBaseS, Store.node?, restrictBase]
      exact Post.done hinv (tautologyS_denotes hch level)
    | base =>
      simp only [restrictBaseS, Store.node?, restrictBase]
      exact Post.done hinv (tautologyS_denotes hch level)
    | @inner i vl eh el vhi vlo hi hh hl =>
      simp only [restrictBaseS, Store.node?, hi, restrictBase]
      have eqv : eh = el ↔ vhi = vlo := denotes_eq_iff hinv.1 hh hl
      by_cases hne : vhi = vlo
      · have hne' : eh = el := eqv.mpr hne
        subst hne hne'
        simp only [ne_eq, not_true_eq_false, if_false]
        simp only [ZDD.size] at hsz
        have p1 := ih st eh vhi (vl + 1) hinv hch hh (by omega)
        have e2 : (restrictBaseS chain fuel st eh (vl + 1)).2 = .empty ↔
            restrictBase env.numLevels vhi (vl + 1) = .empty := p1.den.empty_iff
        by_cases hcond : vl > level ∧ ¬ restrictBase env.numLevels vhi (vl + 1) = .empty
        · have hcond' : vl > level ∧ ¬ (restrictBaseS chain fuel st eh (vl + 1)).2 = .empty :=
            ⟨hcond.1, fun e => hcond.2 (e2.mp e)⟩
          rw [if_pos hcond, if_pos hcond']
          exact dcLoopS_post level (vl - level) p1 hcond.2
        · have hcond' : ¬ (vl > level ∧ ¬ (restrictBaseS chain fuel st eh (vl + 1)).2 = .empty) :=
            fun h => hcond ⟨h.1, fun e => h.2 (e2.mpr e)⟩
          rw [if_neg hcond, if_neg hcond']
          exact p1
      · have hne' : ¬ eh = el := fun e => hne (eqv.mp e)
        simp only [ne_eq, hne, hne', not_false_eq_true, if_true]
        exact Post.done hinv .empty

/-! ## `restrict` -/

/-- `restrict(manager, rec, f, vars, level)` in a manager with `n` levels -/
def restrictS (p : Policy) (chain : List ZEdge) (n : Nat) :
    Nat → St → ZEdge → ZEdge → Nat → St × ZEdge
  | 0, st, f, _, _ => (st, f)
  | fuel+1, st, f, vars, level =>
    match f with
    | .empty => (st, f)
    | .base => restrictBaseS chain fuel st vars level
    | .inner i =>
      match st.store.get? i with
      | none => (st, f) -- dangling edge (excluded by `DenotesZ`)
      | some fn =>
        if fn.level < level then (st, f) else -- excluded by `debug_assert!(flevel >= level)`
        if st.store.levelZ vars ≠ level then
          -- select LO branch
          let r := restrictS p chain n fuel st (if fn.level = level then fn.lo else f) vars (level + 1)
          mk1S r.1 level r.2
        else
          match st.store.node? vars with
          | none => (st, .empty) -- unreachable: `vlevel == level` only for inner nodes
          | some vn =>
            if vn.hi ≠ vn.lo then
              -- select HI branch
              if fn.level ≠ level then (st, .empty)
              else
                let r := restrictS p chain n fuel st fn.hi vn.hi (level + 1)
                mk1S r.1 level r.2
            else if fn.level ≠ level then restrictS p chain n fuel st f vn.hi (level + 1)
            else
              -- query apply cache; the number of levels is part of the key
              match p.get st.tick st.cache (encKey ⟨.restrict, [f, vars], [n]⟩) with
              | some h => (st.tickd, decE h)
              | none =>
                let r1 := restrictS p chain n fuel st.tickd fn.hi vn.hi (level + 1)
                let r0 := restrictS p chain n fuel r1.1 fn.lo vn.hi (level + 1)
                finishZ p r0.1 ⟨.restrict, [f, vars], [n]⟩ level r1.2 r0.2

/-- `restrict_edge`: start at level 0 -/
def restrictTopS (p : Policy) (chain : List ZEdge) (n fuel : Nat) (st : St) (f vars : ZEdge) :
    St × ZEdge := restrictS p chain n fuel st f vars 0

/-- the statement proved by induction along the recursion of the tree-level `restrict` -/
def RestrictOK (p : Policy) (env : Env) (chain : List ZEdge) (a c : ZDD) (level : Nat) : Prop :=
  ∃ N, ∀ fuel, N ≤ fuel → ∀ (st : St) (f vars : ZEdge), Inv env st →
    ChainOK env.numLevels st.store chain → DenotesZ st.store f a → DenotesZ st.store vars c →
    Post env st.store (restrict env.numLevels a c level)
      (restrictS p chain env.numLevels fuel st f vars level)

theorem restrict_node_lo {n fl level : Nat} {fhi flo vars : ZDD} (h1 : ¬ fl < level)
    (h2 : vars.level ≠ level) :
    restrict n (.node fl fhi flo) vars level =
      mk1 level (restrict n (if fl = level then flo else .node fl fhi flo) vars (level + 1)) := by
  rw [restrict.eq_def]
  simp only [h1, if_false, h2, ne_eq, not_false_eq_true, if_true]

theorem restrict_node_pos {n fl level vl : Nat} {fhi flo vhi vlo : ZDD} (h1 : ¬ fl < level)
    (h2 : vl = level) (h3 : vhi ≠ vlo) :
    restrict n (.node fl fhi flo) (.node vl vhi vlo) level =
      if fl ≠ level then .empty else mk1 level (restrict n fhi vhi (level + 1)) := by
  rw [restrict.eq_def]
  simp only [h1, if_false, ZDD.level, h2, ne_eq, not_true_eq_false, h3, not_false_eq_true, if_true]

theorem restrict_node_dc {n fl level vl : Nat} {fhi flo vhi vlo : ZDD} (h1 : ¬ fl < level)
    (h2 : vl = level) (h3 : vhi = vlo) :
    restrict n (.node fl fhi flo) (.node vl vhi vlo) level =
      if fl ≠ level then restrict n (.node fl fhi flo) vhi (level + 1)
      else mk level (restrict n fhi vhi (level + 1)) (restrict n flo vhi (level + 1)) := by
  rw [restrict.eq_def]
  simp only [h1, if_false, ZDD.level, h2, ne_eq, not_true_eq_false, h3]

theorem restrictS_ok {p : Policy} (pok : p.OK) (env : Env) (chain : List ZEdge) (a c : ZDD)
    (level : Nat) : RestrictOK p env chain a c level := by
  induction a, c, level using restrict.induct with
  | case1 vars level =>
    refine ⟨1, fun fuel hN st f v hinv _ hf _ => ?_⟩
    obtain ⟨fuel, rfl⟩ : ∃ k, fuel = k + 1 := ⟨fuel - 1, by omega⟩
    cases hf
    simp only [restrictS, restrict]
    exact Post.done hinv .empty
  | case2 vars level =>
    refine ⟨vars.size + 1, fun fuel hN st f v hinv hch hf hv => ?_⟩
    obtain ⟨fuel, rfl⟩ : ∃ k, fuel = k + 1 := ⟨fuel - 1, by omega⟩
    cases hf
    simp only [restrictS, restrict]
    exact restrictBaseS_spec env chain fuel st v vars level hinv hch hv (by omega)
  | case3 vars level fl fhi flo hlt =>
    refine ⟨1, fun fuel hN st f v hinv _ hf _ => ?_⟩
    obtain ⟨fuel, rfl⟩ : ∃ k, fuel = k + 1 := ⟨fuel - 1, by omega⟩
    have hf' := hf
    cases hf with
    | inner hi hh hl =>
      rw [restrict.eq_def]
      simp only [restrictS, hi, hlt, if_true]
      exact Post.done hinv hf'
  | case4 vars level fl fhi flo h1 h2 ih =>
    obtain ⟨N, ih⟩ := ih
    refine ⟨N + 1, fun fuel hN st f v hinv hch hf hv => ?_⟩
    obtain ⟨fuel, rfl⟩ : ∃ k, fuel = k + 1 := ⟨fuel - 1, by omega⟩
    have hf' := hf
    cases hf with
    | @inner i _ eh el _ _ hi hh hl =>
      rw [restrict_node_lo h1 h2]
      simp only [restrictS, hi, h1, if_false, levelZ_denotes hv, h2, ne_eq, not_false_eq_true, if_true]
      simp only [dite_eq_ite] at ih
      have hsel : DenotesZ st.store (if fl = level then el else .inner i)
          (if fl = level then flo else .node fl fhi flo) := by
        split
        · exact hl
        · exact hf'
      exact post_mk1S (ih fuel (by omega) st _ v hinv hch hsel hv) level
  | case5 level fl fhi flo h1 vl vhi vlo h3 h4 h2 =>
    refine ⟨1, fun fuel hN st f v hinv _ hf hv => ?_⟩
    obtain ⟨fuel, rfl⟩ : ∃ k, fuel = k + 1 := ⟨fuel - 1, by omega⟩
    simp only [ZDD.level, ne_eq, Decidable.not_not] at h2
    subst h2
    have hlv := levelZ_denotes hv
    cases hf with
    | @inner i _ eh el _ _ hi hh hl =>
    cases hv with
    | @inner j _ vh vlo' _ _ hj hvh hvl =>
      have eqv : vh = vlo' ↔ vhi = vlo := denotes_eq_iff hinv.1 hvh hvl
      have hne' : ¬ vh = vlo' := fun e => h3 (eqv.mp e)
      rw [restrict_node_pos h1 rfl h3]
      simp only [restrictS, hi, h1, if_false, hlv, ZDD.level, ne_eq, not_true_eq_false,
        Store.node?, hj, hne', not_false_eq_true, if_true, h4]
      exact Post.done hinv .empty
  | case6 level fl fhi flo h1 vl vhi vlo h3 h4 h2 ih =>
    obtain ⟨N, ih⟩ := ih
    refine ⟨N + 1, fun fuel hN st f v hinv hch hf hv => ?_⟩
    obtain ⟨fuel, rfl⟩ : ∃ k, fuel = k + 1 := ⟨fuel - 1, by omega⟩
    simp only [ZDD.level, ne_eq, Decidable.not_not] at h2 h4
    subst h2 h4
    have hlv := levelZ_denotes hv
    cases hf with
    | @inner i _ eh el _ _ hi hh hl =>
    cases hv with
    | @inner j _ vh vlo' _ _ hj hvh hvl =>
      have eqv : vh = vlo' ↔ vhi = vlo := denotes_eq_iff hinv.1 hvh hvl
      have hne' : ¬ vh = vlo' := fun e => h3 (eqv.mp e)
      rw [restrict_node_pos h1 rfl h3]
      simp only [restrictS, hi, h1, if_false, hlv, ZDD.level, ne_eq, not_true_eq_false,
        Store.node?, hj, hne', not_false_eq_true, if_true]
      exact post_mk1S (ih fuel (by omega) st _ _ hinv hch hh hvh) _
  | case7 level fl fhi flo h1 vl vhi vlo h3 h4 h2 ih =>
    obtain ⟨N, ih⟩ := ih
    refine ⟨N + 1, fun fuel hN st f v hinv hch hf hv => ?_⟩
    obtain ⟨fuel, rfl⟩ : ∃ k, fuel = k + 1 := ⟨fuel - 1, by omega⟩
    simp only [ZDD.level, ne_eq, Decidable.not_not] at h2 h3
    subst h2 h3
    have hlv := levelZ_denotes hv
    have hf' := hf
    cases hf with
    | @inner i _ eh el _ _ hi hh hl =>
    cases hv with
    | @inner j _ vh vlo' _ _ hj hvh hvl =>
      have hne' : vh = vlo' := (denotes_eq_iff hinv.1 hvh hvl).mpr rfl
      subst hne'
      rw [restrict_node_dc h1 rfl rfl]
      simp only [restrictS, hi, h1, if_false, hlv, ZDD.level, ne_eq, not_true_eq_false,
        Store.node?, hj, h4, not_false_eq_true, if_true]
      exact ih fuel (by omega) st _ _ hinv hch hf' hvh
  | case8 level fl fhi flo h1 vl vhi vlo h3 h4 h2 ih1 ih0 =>
    obtain ⟨N1, ih1⟩ := ih1
    obtain ⟨N0, ih0⟩ := ih0
    refine ⟨max N1 N0 + 1, fun fuel hN st f v hinv hch hf hv => ?_⟩
    obtain ⟨fuel, rfl⟩ : ∃ k, fuel = k + 1 := ⟨fuel - 1, by omega⟩
    simp only [ZDD.level, ne_eq, Decidable.not_not] at h2 h3 h4
    subst h2 h3 h4
    have hlv := levelZ_denotes hv
    have hf' := hf
    have hv' := hv
    cases hf with
    | @inner i _ eh el _ _ hi hh hl =>
    cases hv with
    | @inner j _ vh vlo' _ _ hj hvh hvl =>
      have hne' : vh = vlo' := (denotes_eq_iff hinv.1 hvh hvl).mpr rfl
      subst hne'
      have hspec : specZ env .restrict [.node fl fhi flo, .node fl vhi vhi] [env.numLevels] =
          some (restrict env.numLevels (.node fl fhi flo) (.node fl vhi vhi) fl) := by
        simp only [specZ, ZDD.level]
      simp only [restrictS, hi, Nat.lt_irrefl, if_false, hlv, ZDD.level, ne_eq, not_true_eq_false,
        Store.node?, hj]
      split
      · -- cache hit
        rename_i r hr
        have hent := hinv.2 _ _ (pok.get_mem _ _ _ _ hr)
        exact Post.done (st := st.tickd) hinv.tickd
          (hent.hit (zk := ⟨.restrict, [.inner i, .inner j], [env.numLevels]⟩)
            (DenotesLZ.two hf' hv') hspec)
      · -- cache miss
        have p1 := ih1 fuel (by omega) st.tickd _ _ hinv.tickd hch hh hvh
        have p0 := ih0 fuel (by omega) _ _ _ p1.inv (hch.mono p1.le) (hl.mono p1.le)
          (hvh.mono p1.le)
        rw [restrict_node_dc h1 rfl rfl] at hspec ⊢
        simp only [ne_eq, not_true_eq_false, if_false] at hspec ⊢
        exact post_finishZ pok p1 p0 ⟨.restrict, [.inner i, .inner j], [env.numLevels]⟩ _
          ⟨_, DenotesLZ.two hf' hv', hspec, fun h => by cases h⟩
  | case9 vars level fl fhi flo h1 h2 h3 =>
    refine ⟨1, fun fuel hN st f v hinv _ hf hv => ?_⟩
    obtain ⟨fuel, rfl⟩ : ∃ k, fuel = k + 1 := ⟨fuel - 1, by omega⟩
    simp only [ne_eq, Decidable.not_not] at h2
    have hlv := levelZ_denotes hv
    cases hf with
    | @inner i _ eh el _ _ hi hh hl =>
      have hnode : st.store.node? v = none := by
        cases hv with
        | empty => rfl
        | base => rfl
        | inner hj _ _ => exact (h3 _ _ _ rfl).elim
      rw [restrict.eq_def]
      simp only [restrictS, hi, h1, if_false, hlv, h2, ne_eq, not_true_eq_false, hnode]
      exact Post.done hinv .empty

/-- **`restrict` with cache refines the tree-level `restrict n`** in a manager with `n` levels
whose chain is in place: for all operand trees and every start level there is a fuel bound — not
depending on store, cache or policy — from which on the returned edge denotes
`restrict n a c level`, the store is only extended, the invariant is kept, and store and result are
the canonical ones. The cache may contain `Restrict` entries for *any* number of levels. -/
theorem restrictS_spec {p : Policy} (pok : p.OK) (env : Env) (chain : List ZEdge) (a c : ZDD)
    (level : Nat) : ∃ N, ∀ fuel, N ≤ fuel → ∀ (st : St) (f vars : ZEdge), Inv env st →
    ChainOK env.numLevels st.store chain → DenotesZ st.store f a → DenotesZ st.store vars c →
    Post env st.store (restrict env.numLevels a c level)
      (restrictS p chain env.numLevels fuel st f vars level) :=
  restrictS_ok pok env chain a c level

/-! ## which entries `restrict` creates -/

theorem dcLoopS_cache (level : Nat) : ∀ (m : Nat) (st : St) (e : ZEdge),
    (dcLoopS level m st e).1.cache = st.cache := by
  intro m
  induction m with
  | zero => intro st e; rfl
  | succ m ih => intro st e; simp only [dcLoopS]; rw [ih]; rfl

theorem restrictBaseS_cache (chain : List ZEdge) (fuel : Nat) : ∀ (st : St) (vars : ZEdge)
    (level : Nat), (restrictBaseS chain fuel st vars level).1.cache = st.cache := by
  induction fuel with
  | zero => intro st vars level; rfl
  | succ fuel ih =>
    intro st vars level
    simp only [restrictBaseS]
    split
    · split
      · rfl
      · split
        · rw [dcLoopS_cache, ih]
        · rw [ih]
    · rfl

theorem mk1S_cache (st : St) (l : Nat) (e : ZEdge) : (mk1S st l e).1.cache = st.cache := by
  unfold mk1S; split <;> rfl

/-- every entry in the cache after `restrict` in a manager with `n` levels was there before or is
keyed by `(Restrict, [x, y], [n])` -/
theorem restrictS_cache_keys {p : Policy} (pok : p.OK) (chain : List ZEdge) (n : Nat) (fuel : Nat) :
    ∀ (st : St) (f vars : ZEdge) (level : Nat) (x : Key × Bdd.Refine.Edge),
      x ∈ (restrictS p chain n fuel st f vars level).1.cache →
      x ∈ st.cache ∨ ∃ a b, x.1 = encKey ⟨.restrict, [a, b], [n]⟩ := by
  induction fuel with
  | zero => intro st f vars level x hx; exact .inl hx
  | succ fuel ih =>
    intro st f vars level x hx
    simp only [restrictS] at hx
    split at hx
    · exact .inl hx
    · rw [restrictBaseS_cache] at hx; exact .inl hx
    · split at hx
      · exact .inl hx
      · split at hx
        · exact .inl hx
        · split at hx
          · rw [mk1S_cache] at hx; exact ih _ _ _ _ _ hx
          · split at hx
            · exact .inl hx
            · split at hx
              · split at hx
                · exact .inl hx
                · rw [mk1S_cache] at hx; exact ih _ _ _ _ _ hx
              · split at hx
                · exact ih _ _ _ _ _ hx
                · split at hx
                  · exact .inl hx
                  · simp only [finishZ, addZ, mkS] at hx
                    rcases pok.add_sub _ _ _ _ _ hx with h | h
                    · rcases ih _ _ _ _ _ h with h' | h'
                      · rcases ih _ _ _ _ _ h' with h'' | h''
                        · exact .inl h''
                        · exact .inr h''
                      · exact .inr h'
                    · right; rw [h]; exact ⟨_, _, rfl⟩

end OxiddModel.Zbdd.Refine
