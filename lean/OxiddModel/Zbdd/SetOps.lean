import OxiddModel.Zbdd.Lemmas

/-! `apply_union`, `apply_intsec`, `apply_diff`, `apply_symm_diff`: set semantics and normal-form
preservation, for all operand pairs. -/
namespace OxiddModel.Zbdd
open ZDD

theorem not_node_cases {g : ZDD} (h : ∀ gl ghi glo, g = .node gl ghi glo → False) :
    g = .empty ∨ g = .base := by
  cases g with
  | empty => exact .inl rfl
  | base => exact .inr rfl
  | node l a b => exact (h l a b rfl).elim

theorem not_node_ordered {g : ZDD} (h : ∀ gl ghi glo, g = .node gl ghi glo → False) (n k : Nat) :
    Ordered n k g := by
  rcases not_node_cases h with rfl | rfl
  · exact .empty
  · exact .base

theorem not_node_reduced {g : ZDD} (h : ∀ gl ghi glo, g = .node gl ghi glo → False) : Reduced g := by
  rcases not_node_cases h with rfl | rfl <;> trivial

/-- a terminal read from level `k ≤ m ≤ n` -/
theorem not_node_shift {g : ZDD} (h : ∀ gl ghi glo, g = .node gl ghi glo → False) (σ : Nat → Bool)
    {n m k : Nat} (hkm : k ≤ m) (hmn : m ≤ n) : eval n σ k g = (allFalse σ k m && eval n σ m g) :=
  eval_shift σ (not_node_ordered h n m) hkm hmn

/-! ## union -/

theorem union_ordered (f g : ZDD) (n k : Nat) (hf : Ordered n k f) (hg : Ordered n k g) :
    Ordered n k (union f g) := by
  fun_induction union f g generalizing k with
  | case1 f g _ => exact hf
  | case2 g _ => exact hg
  | case3 fl fhi flo gl ghi glo hlt _ _ ih =>
    cases hf with | node a1 a2 ah al =>
    cases hg with | node b1 b2 bh bl =>
    exact mk_ordered a1 a2 ah (ih _ al (.node (by omega) b2 bh bl))
  | case4 fhi flo gl ghi glo _ _ _ ih1 ih2 =>
    cases hf with | node a1 a2 ah al =>
    cases hg with | node b1 b2 bh bl =>
    exact mk_ordered a1 a2 (ih1 _ ah bh) (ih2 _ al bl)
  | case5 fl fhi flo gl ghi glo h1 h2 _ _ ih =>
    cases hf with | node a1 a2 ah al =>
    cases hg with | node b1 b2 bh bl =>
    exact mk_ordered b1 b2 bh (ih _ (.node (by omega) a2 ah al) bl)
  | case6 fl fhi flo g hg' _ _ ih =>
    cases hf with | node a1 a2 ah al =>
    exact mk_ordered a1 a2 ah (ih _ al (not_node_ordered hg' _ _))
  | case7 f gl ghi glo hf' _ _ ih =>
    cases hg with | node b1 b2 bh bl =>
    exact mk_ordered b1 b2 bh (ih _ (not_node_ordered hf' _ _) bl)
  | case8 g f _ _ _ _ _ => exact hf

theorem union_reduced (f g : ZDD) (hf : Reduced f) (hg : Reduced g) : Reduced (union f g) := by
  fun_induction union f g with
  | case1 f g _ => exact hf
  | case2 g _ => exact hg
  | case3 fl fhi flo gl ghi glo hlt _ _ ih => exact mk_reduced hf.2.1 (ih hf.2.2 hg)
  | case4 fhi flo gl ghi glo _ _ _ ih1 ih2 => exact mk_reduced (ih1 hf.2.1 hg.2.1) (ih2 hf.2.2 hg.2.2)
  | case5 fl fhi flo gl ghi glo h1 h2 _ _ ih => exact mk_reduced hg.2.1 (ih hf hg.2.2)
  | case6 fl fhi flo g hg' _ _ ih => exact mk_reduced hf.2.1 (ih hf.2.2 hg)
  | case7 f gl ghi glo hf' _ _ ih => exact mk_reduced hg.2.1 (ih hf hg.2.2)
  | case8 g f _ _ _ _ _ => exact hf

theorem union_eval (f g : ZDD) (n k : Nat) (σ : Nat → Bool) (hf : Ordered n k f) (hg : Ordered n k g) :
    eval n σ k (union f g) = (eval n σ k f || eval n σ k g) := by
  fun_induction union f g generalizing k with
  | case1 f g h =>
    rcases h with rfl | rfl
    · simp
    · simp [eval]
  | case2 g _ => simp [eval]
  | case3 fl fhi flo gl ghi glo hlt _ _ ih =>
    cases hf with | node a1 a2 ah al =>
    cases hg with | node b1 b2 bh bl =>
    have hg' : Ordered n (fl+1) (.node gl ghi glo) := .node (by omega) b2 bh bl
    rw [mk_eval σ _ _ a1 a2 (union_ordered _ _ _ _ al hg'), ih _ al hg',
      eval_shift σ hg' (by omega : k ≤ fl+1) (by omega), allFalse_succ σ a1]
    simp only [eval]
    cases allFalse σ k fl <;> cases σ fl <;> simp
  | case4 fhi flo gl ghi glo _ _ _ ih1 ih2 =>
    cases hf with | node a1 a2 ah al =>
    cases hg with | node b1 b2 bh bl =>
    rw [mk_eval σ _ _ a1 a2 (union_ordered _ _ _ _ al bl), ih1 _ ah bh, ih2 _ al bl]
    simp only [eval]
    cases allFalse σ k gl <;> cases σ gl <;> simp
  | case5 fl fhi flo gl ghi glo h1 h2 _ _ ih =>
    cases hf with | node a1 a2 ah al =>
    cases hg with | node b1 b2 bh bl =>
    have hf' : Ordered n (gl+1) (.node fl fhi flo) := .node (by omega) a2 ah al
    rw [mk_eval σ _ _ b1 b2 (union_ordered _ _ _ _ hf' bl), ih _ hf' bl,
      eval_shift σ hf' (by omega : k ≤ gl+1) (by omega), allFalse_succ σ b1]
    simp only [eval]
    cases allFalse σ k gl <;> cases σ gl <;> simp
  | case6 fl fhi flo g hg' _ _ ih =>
    cases hf with | node a1 a2 ah al =>
    have hg2 := not_node_ordered hg' n (fl+1)
    rw [mk_eval σ _ _ a1 a2 (union_ordered _ _ _ _ al hg2), ih _ al hg2,
      not_node_shift hg' σ (by omega : k ≤ fl+1) (by omega), allFalse_succ σ a1]
    simp only [eval]
    cases allFalse σ k fl <;> cases σ fl <;> simp
  | case7 f gl ghi glo hf' _ _ ih =>
    cases hg with | node b1 b2 bh bl =>
    have hf2 := not_node_ordered hf' n (gl+1)
    rw [mk_eval σ _ _ b1 b2 (union_ordered _ _ _ _ hf2 bl), ih _ hf2 bl,
      not_node_shift hf' σ (by omega : k ≤ gl+1) (by omega), allFalse_succ σ b1]
    simp only [eval]
    cases allFalse σ k gl <;> cases σ gl <;> simp
  | case8 g f hf' _ hg' hne hfe =>
    exfalso
    rcases not_node_cases hf' with rfl | rfl
    · exact hfe rfl
    · rcases not_node_cases hg' with rfl | rfl
      · exact hne (.inr rfl)
      · exact hne (.inl rfl)

/-! ## intsec -/

theorem intsec_ordered (f g : ZDD) (n k : Nat) (hf : Ordered n k f) (hg : Ordered n k g) :
    Ordered n k (intsec f g) := by
  fun_induction intsec f g generalizing k with
  | case1 g => exact hf
  | case2 f g _ _ => exact .empty
  | case3 fl fhi flo gl ghi glo hlt _ _ ih =>
    cases hf with | node a1 a2 ah al =>
    cases hg with | node b1 b2 bh bl =>
    exact (ih _ al (.node (by omega) b2 bh bl)).mono (by omega)
  | case4 fhi flo gl ghi glo _ _ _ ih1 ih2 =>
    cases hf with | node a1 a2 ah al =>
    cases hg with | node b1 b2 bh bl =>
    exact mk_ordered a1 a2 (ih1 _ ah bh) (ih2 _ al bl)
  | case5 fl fhi flo gl ghi glo h1 h2 _ _ ih =>
    cases hf with | node a1 a2 ah al =>
    cases hg with | node b1 b2 bh bl =>
    exact (ih _ (.node (by omega) a2 ah al) bl).mono (by omega)
  | case6 fl fhi flo g hg' _ _ ih =>
    cases hf with | node a1 a2 ah al =>
    exact (ih _ al (not_node_ordered hg' _ _)).mono (by omega)
  | case7 f gl ghi glo hf' _ _ ih =>
    cases hg with | node b1 b2 bh bl =>
    exact (ih _ (not_node_ordered hf' _ _) bl).mono (by omega)
  | case8 g f _ _ _ _ _ => exact hf

theorem intsec_reduced (f g : ZDD) (hf : Reduced f) (hg : Reduced g) : Reduced (intsec f g) := by
  fun_induction intsec f g with
  | case1 g => exact hf
  | case2 f g _ _ => trivial
  | case3 fl fhi flo gl ghi glo hlt _ _ ih => exact ih hf.2.2 hg
  | case4 fhi flo gl ghi glo _ _ _ ih1 ih2 => exact mk_reduced (ih1 hf.2.1 hg.2.1) (ih2 hf.2.2 hg.2.2)
  | case5 fl fhi flo gl ghi glo h1 h2 _ _ ih => exact ih hf hg.2.2
  | case6 fl fhi flo g hg' _ _ ih => exact ih hf.2.2 hg
  | case7 f gl ghi glo hf' _ _ ih => exact ih hf hg.2.2
  | case8 g f _ _ _ _ _ => exact hf

theorem intsec_eval (f g : ZDD) (n k : Nat) (σ : Nat → Bool) (hf : Ordered n k f) (hg : Ordered n k g) :
    eval n σ k (intsec f g) = (eval n σ k f && eval n σ k g) := by
  fun_induction intsec f g generalizing k with
  | case1 g => simp
  | case2 f g _ h =>
    rcases h with rfl | rfl <;> simp [eval]
  | case3 fl fhi flo gl ghi glo hlt _ _ ih =>
    cases hf with | node a1 a2 ah al =>
    cases hg with | node b1 b2 bh bl =>
    have hg' : Ordered n (fl+1) (.node gl ghi glo) := .node (by omega) b2 bh bl
    rw [eval_shift σ (intsec_ordered _ _ _ _ al hg') (by omega : k ≤ fl+1) (by omega), ih _ al hg',
      eval_shift σ hg' (by omega : k ≤ fl+1) (by omega), allFalse_succ σ a1]
    simp only [eval]
    cases allFalse σ k fl <;> cases σ fl <;> simp
  | case4 fhi flo gl ghi glo _ _ _ ih1 ih2 =>
    cases hf with | node a1 a2 ah al =>
    cases hg with | node b1 b2 bh bl =>
    rw [mk_eval σ _ _ a1 a2 (intsec_ordered _ _ _ _ al bl), ih1 _ ah bh, ih2 _ al bl]
    simp only [eval]
    cases allFalse σ k gl <;> cases σ gl <;> simp
  | case5 fl fhi flo gl ghi glo h1 h2 _ _ ih =>
    cases hf with | node a1 a2 ah al =>
    cases hg with | node b1 b2 bh bl =>
    have hf' : Ordered n (gl+1) (.node fl fhi flo) := .node (by omega) a2 ah al
    rw [eval_shift σ (intsec_ordered _ _ _ _ hf' bl) (by omega : k ≤ gl+1) (by omega), ih _ hf' bl,
      eval_shift σ hf' (by omega : k ≤ gl+1) (by omega), allFalse_succ σ b1]
    simp only [eval]
    cases allFalse σ k gl <;> cases σ gl <;> simp
  | case6 fl fhi flo g hg' _ _ ih =>
    cases hf with | node a1 a2 ah al =>
    have hg2 := not_node_ordered hg' n (fl+1)
    rw [eval_shift σ (intsec_ordered _ _ _ _ al hg2) (by omega : k ≤ fl+1) (by omega), ih _ al hg2,
      not_node_shift hg' σ (by omega : k ≤ fl+1) (by omega), allFalse_succ σ a1]
    simp only [eval]
    cases allFalse σ k fl <;> cases σ fl <;> simp
  | case7 f gl ghi glo hf' _ _ ih =>
    cases hg with | node b1 b2 bh bl =>
    have hf2 := not_node_ordered hf' n (gl+1)
    rw [eval_shift σ (intsec_ordered _ _ _ _ hf2 bl) (by omega : k ≤ gl+1) (by omega), ih _ hf2 bl,
      not_node_shift hf' σ (by omega : k ≤ gl+1) (by omega), allFalse_succ σ b1]
    simp only [eval]
    cases allFalse σ k gl <;> cases σ gl <;> simp
  | case8 g f hf' _ hg' hne hfe =>
    exfalso
    rcases not_node_cases hf' with rfl | rfl
    · exact hfe (.inl rfl)
    · rcases not_node_cases hg' with rfl | rfl
      · exact hfe (.inr rfl)
      · exact hne rfl

/-! ## diff -/

theorem diff_ordered (f g : ZDD) (n k : Nat) (hf : Ordered n k f) (hg : Ordered n k g) :
    Ordered n k (diff f g) := by
  fun_induction diff f g generalizing k with
  | case1 f g _ => exact .empty
  | case2 f _ => exact hf
  | case3 fl fhi flo gl ghi glo hlt _ _ ih =>
    cases hf with | node a1 a2 ah al =>
    cases hg with | node b1 b2 bh bl =>
    exact mk_ordered a1 a2 ah (ih _ al (.node (by omega) b2 bh bl))
  | case4 fhi flo gl ghi glo _ _ _ ih1 ih2 =>
    cases hf with | node a1 a2 ah al =>
    cases hg with | node b1 b2 bh bl =>
    exact mk_ordered a1 a2 (ih1 _ ah bh) (ih2 _ al bl)
  | case5 fl fhi flo gl ghi glo h1 h2 _ _ ih =>
    cases hf with | node a1 a2 ah al =>
    cases hg with | node b1 b2 bh bl =>
    exact (ih _ (.node (by omega) a2 ah al) bl).mono (by omega)
  | case6 fl fhi flo g hg' _ _ ih =>
    cases hf with | node a1 a2 ah al =>
    exact mk_ordered a1 a2 ah (ih _ al (not_node_ordered hg' _ _))
  | case7 f gl ghi glo hf' _ _ ih =>
    cases hg with | node b1 b2 bh bl =>
    exact (ih _ (not_node_ordered hf' _ _) bl).mono (by omega)
  | case8 g _ f _ _ _ _ => exact hf

theorem diff_reduced (f g : ZDD) (hf : Reduced f) (hg : Reduced g) : Reduced (diff f g) := by
  fun_induction diff f g with
  | case1 f g _ => trivial
  | case2 f _ => exact hf
  | case3 fl fhi flo gl ghi glo hlt _ _ ih => exact mk_reduced hf.2.1 (ih hf.2.2 hg)
  | case4 fhi flo gl ghi glo _ _ _ ih1 ih2 => exact mk_reduced (ih1 hf.2.1 hg.2.1) (ih2 hf.2.2 hg.2.2)
  | case5 fl fhi flo gl ghi glo h1 h2 _ _ ih => exact ih hf hg.2.2
  | case6 fl fhi flo g hg' _ _ ih => exact mk_reduced hf.2.1 (ih hf.2.2 hg)
  | case7 f gl ghi glo hf' _ _ ih => exact ih hf hg.2.2
  | case8 g _ f _ _ _ _ => exact hf

theorem diff_eval (f g : ZDD) (n k : Nat) (σ : Nat → Bool) (hf : Ordered n k f) (hg : Ordered n k g) :
    eval n σ k (diff f g) = (eval n σ k f && !eval n σ k g) := by
  fun_induction diff f g generalizing k with
  | case1 f g h =>
    rcases h with rfl | rfl <;> simp [eval]
  | case2 f _ => simp [eval]
  | case3 fl fhi flo gl ghi glo hlt _ _ ih =>
    cases hf with | node a1 a2 ah al =>
    cases hg with | node b1 b2 bh bl =>
    have hg' : Ordered n (fl+1) (.node gl ghi glo) := .node (by omega) b2 bh bl
    rw [mk_eval σ _ _ a1 a2 (diff_ordered _ _ _ _ al hg'), ih _ al hg',
      eval_shift σ hg' (by omega : k ≤ fl+1) (by omega), allFalse_succ σ a1]
    simp only [eval]
    cases allFalse σ k fl <;> cases σ fl <;> simp
  | case4 fhi flo gl ghi glo _ _ _ ih1 ih2 =>
    cases hf with | node a1 a2 ah al =>
    cases hg with | node b1 b2 bh bl =>
    rw [mk_eval σ _ _ a1 a2 (diff_ordered _ _ _ _ al bl), ih1 _ ah bh, ih2 _ al bl]
    simp only [eval]
    cases allFalse σ k gl <;> cases σ gl <;> simp
  | case5 fl fhi flo gl ghi glo h1 h2 _ _ ih =>
    cases hf with | node a1 a2 ah al =>
    cases hg with | node b1 b2 bh bl =>
    have hf' : Ordered n (gl+1) (.node fl fhi flo) := .node (by omega) a2 ah al
    rw [eval_shift σ (diff_ordered _ _ _ _ hf' bl) (by omega : k ≤ gl+1) (by omega), ih _ hf' bl,
      eval_shift σ hf' (by omega : k ≤ gl+1) (by omega), allFalse_succ σ b1]
    simp only [eval]
    cases allFalse σ k gl <;> cases σ gl <;> simp
  | case6 fl fhi flo g hg' _ _ ih =>
    cases hf with | node a1 a2 ah al =>
    have hg2 := not_node_ordered hg' n (fl+1)
    rw [mk_eval σ _ _ a1 a2 (diff_ordered _ _ _ _ al hg2), ih _ al hg2,
      not_node_shift hg' σ (by omega : k ≤ fl+1) (by omega), allFalse_succ σ a1]
    simp only [eval]
    cases allFalse σ k fl <;> cases σ fl <;> simp
  | case7 f gl ghi glo hf' _ _ ih =>
    cases hg with | node b1 b2 bh bl =>
    have hf2 := not_node_ordered hf' n (gl+1)
    rw [eval_shift σ (diff_ordered _ _ _ _ hf2 bl) (by omega : k ≤ gl+1) (by omega), ih _ hf2 bl,
      not_node_shift hf' σ (by omega : k ≤ gl+1) (by omega), allFalse_succ σ b1]
    simp only [eval]
    cases allFalse σ k gl <;> cases σ gl <;> simp
  | case8 g hge f hf' _ hg' hne =>
    exfalso
    rcases not_node_cases hf' with rfl | rfl
    · exact hne (.inr rfl)
    · rcases not_node_cases hg' with rfl | rfl
      · exact hge rfl
      · exact hne (.inl rfl)

/-! ## symmetric difference -/

theorem symmDiff_ordered (f g : ZDD) (n k : Nat) (hf : Ordered n k f) (hg : Ordered n k g) :
    Ordered n k (symmDiff f g) := by
  fun_induction symmDiff f g generalizing k with
  | case1 g => exact .empty
  | case2 g _ => exact hg
  | case3 f _ _ => exact hf
  | case4 fl fhi flo gl ghi glo hlt _ _ _ ih =>
    cases hf with | node a1 a2 ah al =>
    cases hg with | node b1 b2 bh bl =>
    exact mk_ordered a1 a2 ah (ih _ al (.node (by omega) b2 bh bl))
  | case5 fhi flo gl ghi glo _ _ _ _ ih1 ih2 =>
    cases hf with | node a1 a2 ah al =>
    cases hg with | node b1 b2 bh bl =>
    exact mk_ordered a1 a2 (ih1 _ ah bh) (ih2 _ al bl)
  | case6 fl fhi flo gl ghi glo h1 h2 _ _ _ ih =>
    cases hf with | node a1 a2 ah al =>
    cases hg with | node b1 b2 bh bl =>
    exact mk_ordered b1 b2 bh (ih _ (.node (by omega) a2 ah al) bl)
  | case7 fl fhi flo g hg' _ _ _ ih =>
    cases hf with | node a1 a2 ah al =>
    exact mk_ordered a1 a2 ah (ih _ al (not_node_ordered hg' _ _))
  | case8 f gl ghi glo hf' _ _ _ ih =>
    cases hg with | node b1 b2 bh bl =>
    exact mk_ordered b1 b2 bh (ih _ (not_node_ordered hf' _ _) bl)
  | case9 g _ f _ _ _ _ _ => exact hf

theorem symmDiff_reduced (f g : ZDD) (hf : Reduced f) (hg : Reduced g) : Reduced (symmDiff f g) := by
  fun_induction symmDiff f g with
  | case1 g => trivial
  | case2 g _ => exact hg
  | case3 f _ _ => exact hf
  | case4 fl fhi flo gl ghi glo hlt _ _ _ ih => exact mk_reduced hf.2.1 (ih hf.2.2 hg)
  | case5 fhi flo gl ghi glo _ _ _ _ ih1 ih2 => exact mk_reduced (ih1 hf.2.1 hg.2.1) (ih2 hf.2.2 hg.2.2)
  | case6 fl fhi flo gl ghi glo h1 h2 _ _ _ ih => exact mk_reduced hg.2.1 (ih hf hg.2.2)
  | case7 fl fhi flo g hg' _ _ _ ih => exact mk_reduced hf.2.1 (ih hf.2.2 hg)
  | case8 f gl ghi glo hf' _ _ _ ih => exact mk_reduced hg.2.1 (ih hf hg.2.2)
  | case9 g _ f _ _ _ _ _ => exact hf

theorem symmDiff_eval (f g : ZDD) (n k : Nat) (σ : Nat → Bool) (hf : Ordered n k f) (hg : Ordered n k g) :
    eval n σ k (symmDiff f g) = (eval n σ k f != eval n σ k g) := by
  fun_induction symmDiff f g generalizing k with
  | case1 g => simp [eval]
  | case2 g _ => simp [eval]
  | case3 f _ _ => simp [eval]
  | case4 fl fhi flo gl ghi glo hlt _ _ _ ih =>
    cases hf with | node a1 a2 ah al =>
    cases hg with | node b1 b2 bh bl =>
    have hg' : Ordered n (fl+1) (.node gl ghi glo) := .node (by omega) b2 bh bl
    rw [mk_eval σ _ _ a1 a2 (symmDiff_ordered _ _ _ _ al hg'), ih _ al hg',
      eval_shift σ hg' (by omega : k ≤ fl+1) (by omega), allFalse_succ σ a1]
    simp only [eval]
    cases allFalse σ k fl <;> cases σ fl <;> simp
  | case5 fhi flo gl ghi glo _ _ _ _ ih1 ih2 =>
    cases hf with | node a1 a2 ah al =>
    cases hg with | node b1 b2 bh bl =>
    rw [mk_eval σ _ _ a1 a2 (symmDiff_ordered _ _ _ _ al bl), ih1 _ ah bh, ih2 _ al bl]
    simp only [eval]
    cases allFalse σ k gl <;> cases σ gl <;> simp
  | case6 fl fhi flo gl ghi glo h1 h2 _ _ _ ih =>
    cases hf with | node a1 a2 ah al =>
    cases hg with | node b1 b2 bh bl =>
    have hf' : Ordered n (gl+1) (.node fl fhi flo) := .node (by omega) a2 ah al
    rw [mk_eval σ _ _ b1 b2 (symmDiff_ordered _ _ _ _ hf' bl), ih _ hf' bl,
      eval_shift σ hf' (by omega : k ≤ gl+1) (by omega), allFalse_succ σ b1]
    simp only [eval]
    cases allFalse σ k gl <;> cases σ gl <;> simp
  | case7 fl fhi flo g hg' _ _ _ ih =>
    cases hf with | node a1 a2 ah al =>
    have hg2 := not_node_ordered hg' n (fl+1)
    rw [mk_eval σ _ _ a1 a2 (symmDiff_ordered _ _ _ _ al hg2), ih _ al hg2,
      not_node_shift hg' σ (by omega : k ≤ fl+1) (by omega), allFalse_succ σ a1]
    simp only [eval]
    cases allFalse σ k fl <;> cases σ fl <;> simp
  | case8 f gl ghi glo hf' _ _ _ ih =>
    cases hg with | node b1 b2 bh bl =>
    have hf2 := not_node_ordered hf' n (gl+1)
    rw [mk_eval σ _ _ b1 b2 (symmDiff_ordered _ _ _ _ hf2 bl), ih _ hf2 bl,
      not_node_shift hf' σ (by omega : k ≤ gl+1) (by omega), allFalse_succ σ b1]
    simp only [eval]
    cases allFalse σ k gl <;> cases σ gl <;> simp
  | case9 g hge f hf' _ hg' hne hfe =>
    exfalso
    rcases not_node_cases hf' with rfl | rfl
    · exact hfe rfl
    · rcases not_node_cases hg' with rfl | rfl
      · exact hge rfl
      · exact hne rfl

end OxiddModel.Zbdd
