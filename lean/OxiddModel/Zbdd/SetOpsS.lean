import OxiddModel.Zbdd.StoreRefine
import OxiddModel.Bdd.CacheS

/-!
# `apply_union`, `apply_intsec`, `apply_diff`, `apply_symm_diff`, `subset::<VAL>` on the store, with
the apply cache

The algorithms follow `crates/oxidd-rules-zbdd/src/apply_rec.rs` step by step: terminal cases
(including `f == g` on edges) → operand swap `f > g` for the commutative operators → cache query
with the **full key** `(operator, operand edges, numeric operands)` → cofactor selection by level
comparison (a terminal has level `LevelNo::MAX`, i.e. is below every inner node; an operand below
the current level contributes `(∅, itself)` as `(hi, lo)`) → recursion, `hi` first → `reduce`
(`Store.mkNodeZ`) → cache add. Recursion is by fuel; the specifications hold whenever the fuel is at
least the sum of the operand sizes.

The cache machinery (`Policy`, `Policy.OK`, `Policy.exact/none/dm`, `Key`, `Cache`) is the
kind-independent one of `Bdd/CacheS.lean`. A ZBDD cache key `ZKey = (op, operands, nums)` — as
passed to `ApplyCache::get_extended` / `add_extended` — enters it through the injective encoding
`encKey` (`encKey_inj`): the operator by its discriminant, the number of edge operands, the edge
operands as machine words, then the numeric operands.

* `specZ env`: the tree-level function a key stands for. `subset0/subset1/change` are keyed by
  `(op, [f], [var])` and mean `subset op (var_to_level var) f`; `Restrict` is keyed by
  `(Restrict, [f, vars], [num_levels])` and means `restrict num_levels f vars (level of f)`,
  whatever the *current* number of levels is.
* `CacheOK env s c`: every entry maps its key to an edge denoting the specified result (and the
  operands of an `Ite` entry are in normal form, which is what lets it survive `add_vars`).
* `setOpS p op` (`unionS`, `intsecS`, `diffS`, `symmDiffS`), `subsetS p op var var_level`.
* `Post env s T R`: invariant kept, store only extended, result denotes `T`, and store and result
  are exactly `intern s T` (independent of cache and policy).
* `setOpS_spec`, `subsetS_spec`.
-/
namespace OxiddModel.Zbdd.Refine
open OxiddModel.Zbdd OxiddModel.Zbdd.ZDD
open OxiddModel.Bdd.Refine (Policy OpTag Key Cache)

/-! ## tree level: the four set operators uniformly -/

/-- the four binary set operators with a common recursion skeleton -/
inductive SetOp where
  | union | intsec | diff | symmDiff
deriving DecidableEq, Repr, Inhabited

/-- the operators for which the code makes the operand set unique (`if f > g { (g, f) }`) -/
def SetOp.comm : SetOp → Bool
  | .diff => false
  | _ => true

/-- `f` above `g` (`Ordering::Less`): is a node `⟨flevel, fhi, rec(flo, g)⟩` built (`true`) or is
the result just `rec(flo, g)` (`false`, intersection) -/
def SetOp.keepLt : SetOp → Bool
  | .intsec => false
  | _ => true

/-- `g` above `f` (`Ordering::Greater`): node `⟨glevel, ghi, rec(f, glo)⟩` (`true`) or `rec(f, glo)` -/
def SetOp.keepGt : SetOp → Bool
  | .union | .symmDiff => true
  | _ => false

def setOp : SetOp → ZDD → ZDD → ZDD
  | .union => union
  | .intsec => intsec
  | .diff => diff
  | .symmDiff => symmDiff

/-- the terminal cases of the four algorithms, in the order of the code -/
def terminalT : SetOp → ZDD → ZDD → Option ZDD
  | .union, f, g => if f = g ∨ g = .empty then some f else if f = .empty then some g else none
  | .intsec, f, g => if f = g then some f else if f = .empty ∨ g = .empty then some .empty else none
  | .diff, f, g => if f = g ∨ f = .empty then some .empty else if g = .empty then some f else none
  | .symmDiff, f, g =>
    if f = g then some .empty else if f = .empty then some g else if g = .empty then some f else none

theorem terminalT_none {op : SetOp} {a b : ZDD} (h : terminalT op a b = none) :
    a ≠ b ∧ a ≠ .empty ∧ b ≠ .empty := by
  cases op <;> simp only [terminalT] at h <;> (repeat (split at h <;> try cases h)) <;> simp_all

theorem terminalT_none_of {op : SetOp} {a b : ZDD} (h1 : a ≠ b) (h2 : a ≠ .empty) (h3 : b ≠ .empty) :
    terminalT op a b = none := by
  cases op <;> simp [terminalT, h1, h2, h3]

theorem setOp_terminal {op : SetOp} {a b r : ZDD} (h : terminalT op a b = some r) :
    setOp op a b = r := by
  cases op <;> simp only [terminalT] at h <;> simp only [setOp]
  · rw [union.eq_def]; split at h
    · rename_i c1; cases h; rw [if_pos c1]
    · rename_i c1; split at h
      · rename_i c2; cases h; rw [if_neg c1, if_pos c2]
      · cases h
  · rw [intsec.eq_def]; split at h
    · rename_i c1; cases h; rw [if_pos c1]
    · rename_i c1; split at h
      · rename_i c2; cases h; rw [if_neg c1, if_pos c2]
      · cases h
  · rw [diff.eq_def]; split at h
    · rename_i c1; cases h; rw [if_pos c1]
    · rename_i c1; split at h
      · rename_i c2; cases h; rw [if_neg c1, if_pos c2]
      · cases h
  · rw [symmDiff.eq_def]; split at h
    · rename_i c1; cases h; rw [if_pos c1]
    · rename_i c1; split at h
      · rename_i c2; cases h; rw [if_neg c1, if_pos c2]
      · rename_i c2; split at h
        · rename_i c3; cases h; rw [if_neg c1, if_neg c2, if_pos c3]
        · cases h

/-! ### unfolding equations (operands distinct and non-empty) -/

theorem setOp_nn_lt (op : SetOp) {fl gl : Nat} (fhi flo ghi glo : ZDD) (h : fl < gl) :
    setOp op (.node fl fhi flo) (.node gl ghi glo) =
      if op.keepLt then mk fl fhi (setOp op flo (.node gl ghi glo))
      else setOp op flo (.node gl ghi glo) := by
  have hne : fl ≠ gl := by omega
  cases op <;> simp only [setOp, SetOp.keepLt, if_true, Bool.false_eq_true, if_false]
  · rw [union.eq_def]; simp [hne, h]
  · rw [intsec.eq_def]; simp [hne, h]
  · rw [diff.eq_def]; simp [hne, h]
  · rw [symmDiff.eq_def]; simp [hne, h]

theorem setOp_nn_eq (op : SetOp) {l : Nat} {fhi flo ghi glo : ZDD}
    (hne : ZDD.node l fhi flo ≠ .node l ghi glo) :
    setOp op (.node l fhi flo) (.node l ghi glo) =
      mk l (setOp op fhi ghi) (setOp op flo glo) := by
  simp only [ne_eq, ZDD.node.injEq, true_and] at hne
  cases op <;> simp only [setOp]
  · rw [union.eq_def]; simp [hne]
  · rw [intsec.eq_def]; simp [hne]
  · rw [diff.eq_def]; simp [hne]
  · rw [symmDiff.eq_def]; simp [hne]

theorem setOp_nn_gt (op : SetOp) {fl gl : Nat} (fhi flo ghi glo : ZDD) (h : gl < fl) :
    setOp op (.node fl fhi flo) (.node gl ghi glo) =
      if op.keepGt then mk gl ghi (setOp op (.node fl fhi flo) glo)
      else setOp op (.node fl fhi flo) glo := by
  have h1 : fl ≠ gl := by omega
  have h2 : ¬ fl < gl := by omega
  cases op <;> simp only [setOp, SetOp.keepGt, if_true, Bool.false_eq_true, if_false]
  · rw [union.eq_def]; simp [h1, h2]
  · rw [intsec.eq_def]; simp [h1, h2]
  · rw [diff.eq_def]; simp [h1, h2]
  · rw [symmDiff.eq_def]; simp [h1, h2]

/-- inner node against `Base` (level `MAX`): the `Less` case -/
theorem setOp_nb (op : SetOp) (fl : Nat) (fhi flo : ZDD) :
    setOp op (.node fl fhi flo) .base =
      if op.keepLt then mk fl fhi (setOp op flo .base) else setOp op flo .base := by
  cases op <;> simp only [setOp, SetOp.keepLt, if_true, Bool.false_eq_true, if_false]
  · rw [union.eq_def]; simp
  · rw [intsec.eq_def]; simp
  · rw [diff.eq_def]; simp
  · rw [symmDiff.eq_def]; simp

/-- `Base` against an inner node: the `Greater` case -/
theorem setOp_bn (op : SetOp) (gl : Nat) (ghi glo : ZDD) :
    setOp op .base (.node gl ghi glo) =
      if op.keepGt then mk gl ghi (setOp op .base glo) else setOp op .base glo := by
  cases op <;> simp only [setOp, SetOp.keepGt, if_true, Bool.false_eq_true, if_false]
  · rw [union.eq_def]; simp
  · rw [intsec.eq_def]; simp
  · rw [diff.eq_def]; simp
  · rw [symmDiff.eq_def]; simp

/-! ### commutativity on all trees (what makes the normalised key `{f, g}` sound) -/

/-- the shape analysis shared by the commutativity proofs: operands distinct and non-empty are
two inner nodes, or an inner node and `Base` -/
theorem shape_cases {a b : ZDD} (h1 : a ≠ b) (h2 : a ≠ .empty) (h3 : b ≠ .empty) :
    (∃ fl fhi flo gl ghi glo, a = .node fl fhi flo ∧ b = .node gl ghi glo) ∨
    (∃ fl fhi flo, a = .node fl fhi flo ∧ b = .base) ∨
    (∃ gl ghi glo, a = .base ∧ b = .node gl ghi glo) := by
  cases a with
  | empty => exact absurd rfl h2
  | base =>
    cases b with
    | empty => exact absurd rfl h3
    | base => exact absurd rfl h1
    | node gl ghi glo => exact .inr (.inr ⟨_, _, _, rfl, rfl⟩)
  | node fl fhi flo =>
    cases b with
    | empty => exact absurd rfl h3
    | base => exact .inr (.inl ⟨_, _, _, rfl, rfl⟩)
    | node gl ghi glo => exact .inl ⟨_, _, _, _, _, _, rfl, rfl⟩

theorem terminalT_comm (op : SetOp) (hc : op.comm = true) (a b : ZDD) :
    terminalT op b a = terminalT op a b := by
  by_cases hab : a = b
  · subst hab; rfl
  · have hba : ¬ b = a := fun e => hab e.symm
    cases op <;> simp only [SetOp.comm] at hc <;> (try cases hc) <;>
      simp only [terminalT, hab, hba, false_or, if_false] <;>
      by_cases ha : a = .empty <;> by_cases hb : b = .empty <;> simp_all

theorem setOp_comm (op : SetOp) (hc : op.comm = true) :
    ∀ (m : Nat) (a b : ZDD), a.size + b.size ≤ m → setOp op b a = setOp op a b := by
  intro m
  induction m with
  | zero => intro a b h; have := size_pos a; omega
  | succ m ih =>
    intro a b hsz
    cases hT : terminalT op a b with
    | some r =>
      rw [setOp_terminal hT, setOp_terminal (by rw [terminalT_comm op hc]; exact hT)]
    | none =>
      obtain ⟨h1, h2, h3⟩ := terminalT_none hT
      have kk : op.keepGt = op.keepLt := by
        cases op <;> simp_all [SetOp.comm, SetOp.keepGt, SetOp.keepLt]
      rcases shape_cases h1 h2 h3 with ⟨fl, fhi, flo, gl, ghi, glo, rfl, rfl⟩ |
        ⟨fl, fhi, flo, rfl, rfl⟩ | ⟨gl, ghi, glo, rfl, rfl⟩
      · simp only [ZDD.size] at hsz
        rcases Nat.lt_trichotomy fl gl with h | h | h
        · rw [setOp_nn_lt op _ _ _ _ h, setOp_nn_gt op _ _ _ _ h, kk,
            ih flo (.node gl ghi glo) (by simp only [ZDD.size]; omega)]
        · subst h
          rw [setOp_nn_eq op h1, setOp_nn_eq op (Ne.symm h1), ih fhi ghi (by omega),
            ih flo glo (by omega)]
        · rw [setOp_nn_gt op _ _ _ _ h, setOp_nn_lt op _ _ _ _ h, kk,
            ih (.node fl fhi flo) glo (by simp only [ZDD.size]; omega)]
      · simp only [ZDD.size] at hsz
        rw [setOp_nb, setOp_bn, kk, ih flo .base (by simp only [ZDD.size]; omega)]
      · simp only [ZDD.size] at hsz
        rw [setOp_nb, setOp_bn, kk, ih .base glo (by simp only [ZDD.size]; omega)]

/-- **union, intersection and symmetric difference are commutative on all trees** -/
theorem setOp_comm' (op : SetOp) (hc : op.comm = true) (a b : ZDD) : setOp op b a = setOp op a b :=
  setOp_comm op hc _ a b (Nat.le_refl _)

/-! ## keys -/

/-- `ZBDDOp` (lib.rs), in declaration order -/
inductive ZOp where
  | subset0 | subset1 | change | restrict | union | intsec | diff | symmDiff | ite | mkNode
deriving DecidableEq, Repr, Inhabited

/-- a cache key as passed to `get_extended`/`add_extended`: operator, edge operands, numeric
operands -/
structure ZKey where
  op : ZOp
  operands : List ZEdge
  nums : List Nat
deriving DecidableEq, Repr

/-- an edge as stored in an apply-cache entry -/
def encE : ZEdge → Bdd.Refine.Edge
  | .empty => .term false
  | .base => .term true
  | .inner i => .inner i

def decE : Bdd.Refine.Edge → ZEdge
  | .term false => .empty
  | .term true => .base
  | .inner i => .inner i

@[simp] theorem decE_encE (x : ZEdge) : decE (encE x) = x := by cases x <;> rfl
@[simp] theorem encE_decE (x : Bdd.Refine.Edge) : encE (decE x) = x := by
  cases x with
  | term b => cases b <;> rfl
  | inner i => rfl

theorem encE_inj {x y : ZEdge} (h : encE x = encE y) : x = y := by
  rw [← decE_encE x, ← decE_encE y, h]

theorem map_encE_inj {xs ys : List ZEdge} (h : xs.map encE = ys.map encE) : xs = ys := by
  have := congrArg (List.map decE) h
  simpa [List.map_map, Function.comp_def] using this

/-- the operator as the discriminant of the generic cache (`ZBDDOp as u8`): the k-th variant of
`ZBDDOp` is sent to the k-th tag of the generic tag type -/
def tagEnc : ZOp → OpTag
  | .subset0 => .not
  | .subset1 => .and
  | .change => .or
  | .restrict => .nand
  | .union => .nor
  | .intsec => .xor
  | .diff => .equiv
  | .symmDiff => .imp
  | .ite => .impStrict
  | .mkNode => .ite

theorem tagEnc_inj {a b : ZOp} (h : tagEnc a = tagEnc b) : a = b := by
  cases a <;> cases b <;> first | rfl | cases h

/-- the full key as one key of the generic cache: operator, number of edge operands, the edge
operands, the numeric operands -/
def encKey (k : ZKey) : Key :=
  (tagEnc k.op, .inner k.operands.length :: (k.operands.map encE ++ k.nums.map .inner))

/-- **the encoding is injective**: two keys are equal as cache keys only if operator, every edge
operand and every numeric operand (and their counts) agree -/
theorem encKey_inj {k k' : ZKey} (h : encKey k = encKey k') : k = k' := by
  obtain ⟨op, es, ns⟩ := k
  obtain ⟨op', es', ns'⟩ := k'
  simp only [encKey, Prod.mk.injEq, List.cons.injEq, Bdd.Refine.Edge.inner.injEq] at h
  obtain ⟨h1, h2, h3⟩ := h
  have e1 := tagEnc_inj h1
  subst e1
  have hl : (es.map encE).length = (es'.map encE).length := by simpa using h2
  obtain ⟨h4, h5⟩ := List.append_inj h3 hl
  have e2 := map_encE_inj h4
  subst e2
  have e3 : ns = ns' := by
    have := congrArg (List.map (fun e => match e with
      | Bdd.Refine.Edge.inner i => i | Bdd.Refine.Edge.term _ => 0)) h5
    simpa [List.map_map, Function.comp_def] using this
  subst e3
  rfl

/-! ## what a cache entry must mean -/

/-- what the manager knows besides the store: the number of levels and `var_to_level` -/
structure Env where
  numLevels : Nat
  levelOf : Nat → Nat

def subsetTag : SubsetOp → ZOp
  | .subset0 => .subset0
  | .subset1 => .subset1
  | .change => .change

def setTag : SetOp → ZOp
  | .union => .union
  | .intsec => .intsec
  | .diff => .diff
  | .symmDiff => .symmDiff

theorem subsetTag_inj {a b : SubsetOp} (h : subsetTag a = subsetTag b) : a = b := by
  cases a <;> cases b <;> first | rfl | cases h

theorem setTag_inj {a b : SetOp} (h : setTag a = setTag b) : a = b := by
  cases a <;> cases b <;> first | rfl | cases h

/-- the tree-level function a key `(op, operands, nums)` stands for (`none`: wrong operand
counts, or an operator that is never memoised). Only `Ite` refers to the current number of
levels; a `Restrict` entry carries the number of levels it was computed for in its key. -/
def specZ (env : Env) : ZOp → List ZDD → List Nat → Option ZDD
  | .union, [a, b], [] => some (union a b)
  | .intsec, [a, b], [] => some (intsec a b)
  | .diff, [a, b], [] => some (diff a b)
  | .symmDiff, [a, b], [] => some (symmDiff a b)
  | .subset0, [a], [v] => some (subset .subset0 (env.levelOf v) a)
  | .subset1, [a], [v] => some (subset .subset1 (env.levelOf v) a)
  | .change, [a], [v] => some (subset .change (env.levelOf v) a)
  | .restrict, [a, c], [m] => some (restrict m a c a.level)
  | .ite, [a, b, c], [] => some (applyIte env.numLevels a b c)
  | _, _, _ => none

theorem specZ_setTag (env : Env) (op : SetOp) (a b : ZDD) :
    specZ env (setTag op) [a, b] [] = some (setOp op a b) := by
  cases op <;> rfl

theorem specZ_subsetTag (env : Env) (op : SubsetOp) (a : ZDD) (v : Nat) :
    specZ env (subsetTag op) [a] [v] = some (subset op (env.levelOf v) a) := by
  cases op <;> rfl

inductive DenotesLZ (s : Store) : List ZEdge → List ZDD → Prop
  | nil : DenotesLZ s [] []
  | cons {e : ZEdge} {es : List ZEdge} {t : ZDD} {ts : List ZDD} :
      DenotesZ s e t → DenotesLZ s es ts → DenotesLZ s (e :: es) (t :: ts)

theorem DenotesLZ.functional {s : Store} {es : List ZEdge} {ts ts' : List ZDD}
    (h : DenotesLZ s es ts) (h' : DenotesLZ s es ts') : ts = ts' := by
  induction h generalizing ts' with
  | nil => cases h'; rfl
  | cons hd _ ih =>
    cases h' with
    | cons hd' htl' => rw [DenotesZ.functional hd hd', ih htl']

theorem DenotesLZ.mono {s s' : Store} (hle : s.Le s') {es : List ZEdge} {ts : List ZDD}
    (h : DenotesLZ s es ts) : DenotesLZ s' es ts := by
  induction h with
  | nil => exact .nil
  | cons hd _ ih => exact .cons (hd.mono hle) ih

theorem DenotesLZ.one {s : Store} {e : ZEdge} {t : ZDD} (h : DenotesZ s e t) :
    DenotesLZ s [e] [t] := .cons h .nil
theorem DenotesLZ.two {s : Store} {e1 e2 : ZEdge} {t1 t2 : ZDD} (h1 : DenotesZ s e1 t1)
    (h2 : DenotesZ s e2 t2) : DenotesLZ s [e1, e2] [t1, t2] := .cons h1 (.cons h2 .nil)
theorem DenotesLZ.three {s : Store} {e1 e2 e3 : ZEdge} {t1 t2 t3 : ZDD} (h1 : DenotesZ s e1 t1)
    (h2 : DenotesZ s e2 t2) (h3 : DenotesZ s e3 t3) : DenotesLZ s [e1, e2, e3] [t1, t2, t3] :=
  .cons h1 (.cons h2 (.cons h3 .nil))

/-- the entry `k ↦ r` is sound in store `s`: `k` is the encoding of a key whose edge operands
denote trees, and `r` is an edge denoting the result of the operator on them (and on the numeric
operands). For an `Ite` entry — the only kind whose meaning refers to the current number of
levels — the operands are moreover diagrams in normal form for that number of levels (what every
handle of the real manager is); this is what makes such an entry survive `add_vars`. -/
def EntryOK (env : Env) (s : Store) (k : Key) (r : Bdd.Refine.Edge) : Prop :=
  ∃ zk ts T, k = encKey zk ∧ DenotesLZ s zk.operands ts ∧
    specZ env zk.op ts zk.nums = some T ∧ DenotesZ s (decE r) T ∧
    (zk.op = .ite → ∀ t, t ∈ ts → NF env.numLevels 0 t)

def CacheOK (env : Env) (s : Store) (c : Cache) : Prop := ∀ k r, (k, r) ∈ c → EntryOK env s k r

theorem EntryOK.mono {env : Env} {s s' : Store} {k : Key} {r : Bdd.Refine.Edge}
    (h : EntryOK env s k r) (hle : s.Le s') : EntryOK env s' k r := by
  obtain ⟨zk, ts, T, h0, h1, h2, h3, h4⟩ := h
  exact ⟨zk, ts, T, h0, h1.mono hle, h2, h3.mono hle, h4⟩

theorem CacheOK.mono {env : Env} {s s' : Store} {c : Cache} (h : CacheOK env s c)
    (hle : s.Le s') : CacheOK env s' c := fun k r hm => (h k r hm).mono hle

/-- what a hit means: the returned word is an edge denoting the specified result for the queried
operands -/
theorem EntryOK.hit {env : Env} {s : Store} {zk : ZKey} {r : Bdd.Refine.Edge} {ts : List ZDD}
    {T : ZDD} (h : EntryOK env s (encKey zk) r) (hd : DenotesLZ s zk.operands ts)
    (hs : specZ env zk.op ts zk.nums = some T) : DenotesZ s (decE r) T := by
  obtain ⟨zk', ts', T', h0, h1, h2, h3, _⟩ := h
  have := encKey_inj h0
  subst this
  have := DenotesLZ.functional h1 hd
  subst this
  rw [hs] at h2; cases h2
  exact h3

theorem CacheOK.nil (env : Env) (s : Store) : CacheOK env s [] := fun _ _ h => by cases h

/-- evicting entries keeps the cache sound -/
theorem CacheOK.sub {env : Env} {s : Store} {c c' : Cache} (h : CacheOK env s c)
    (hs : ∀ x, x ∈ c' → x ∈ c) : CacheOK env s c' := fun k r hm => h k r (hs _ hm)

/-- adding through any admissible policy keeps the cache sound if the new entry is sound -/
theorem CacheOK.add {p : Policy} (pok : p.OK) {env : Env} {s : Store} {c : Cache}
    (h : CacheOK env s c) {k : Key} {r : Bdd.Refine.Edge} (he : EntryOK env s k r) (n : Nat) :
    CacheOK env s (p.add n c k r) := by
  intro k' r' hm
  rcases pok.add_sub n c k r _ hm with h' | h'
  · exact h k' r' h'
  · cases h'; exact he

/-! ## state, reading nodes -/

structure St where
  store : Store
  cache : Cache
  tick : Nat

/-- the state after one cache access -/
def St.tickd (st : St) : St := { st with tick := st.tick + 1 }

@[simp] theorem St.tickd_store (st : St) : st.tickd.store = st.store := rfl
@[simp] theorem St.tickd_cache (st : St) : st.tickd.cache = st.cache := rfl

/-- the invariant: hash consing + sound cache -/
def Inv (env : Env) (st : St) : Prop := st.store.Unique ∧ CacheOK env st.store st.cache

theorem Inv.tickd {env : Env} {st : St} (h : Inv env st) : Inv env st.tickd := h

/-- `manager.get_node(&f)`: the inner node, `none` for terminals -/
def Store.node? (s : Store) : ZEdge → Option ZNode
  | .inner i => s.get? i
  | _ => none

/-- the outcome of `flevel.cmp(&glevel)` together with the nodes that may be unwrapped: a
terminal reports level `LevelNo::MAX` and is therefore below every inner node -/
inductive LevelCmp where
  | lt (nf : ZNode) : LevelCmp
  | eq (nf ng : ZNode) : LevelCmp
  | gt (ng : ZNode) : LevelCmp
  | none : LevelCmp

def Store.cmpLevels (s : Store) (f g : ZEdge) : LevelCmp :=
  match s.node? f, s.node? g with
  | some nf, some ng =>
    if nf.level < ng.level then .lt nf else if nf.level = ng.level then .eq nf ng else .gt ng
  | some nf, Option.none => .lt nf
  | Option.none, some ng => .gt ng
  | Option.none, Option.none => .none

/-- the order used for `f > g`: by id; terminals below inner nodes, `Empty` below `Base` -/
def ZEdge.gt : ZEdge → ZEdge → Bool
  | .inner i, .inner j => decide (j < i)
  | .inner _, _ => true
  | .base, .empty => true
  | _, _ => false

/-! ## the common tails of the algorithms -/

/-- `reduce(manager, level, hi, lo, op)` -/
def mkS (st : St) (l : Nat) (hi lo : ZEdge) : St × ZEdge :=
  let m := st.store.mkNodeZ l hi lo
  (⟨m.1, st.cache, st.tick⟩, m.2)

/-- `apply_cache().add(..)` / `add_extended(..)` -/
def addZ (p : Policy) (st : St) (key : ZKey) (r : ZEdge) : St × ZEdge :=
  (⟨st.store, p.add st.tick st.cache (encKey key) (encE r), st.tick + 1⟩, r)

/-- `reduce`, then cache add -/
def finishZ (p : Policy) (st : St) (key : ZKey) (l : Nat) (hi lo : ZEdge) : St × ZEdge :=
  let m := mkS st l hi lo
  addZ p m.1 key m.2

/-! ## the postcondition -/

/-- what every operation guarantees when started in store `s` to compute the tree `T` -/
structure Post (env : Env) (s : Store) (T : ZDD) (R : St × ZEdge) : Prop where
  /-- hash consing and cache soundness hold afterwards -/
  inv : Inv env R.1
  /-- the store is only extended -/
  le : s.Le R.1.store
  /-- the result edge denotes the specified tree -/
  den : DenotesZ R.1.store R.2 T
  /-- store and result are the canonical ones, whatever the cache did -/
  canon : s.NoRed → (R.1.store, R.2) = intern s T

theorem Post.done {env : Env} {st : St} {e : ZEdge} {T : ZDD} (hinv : Inv env st)
    (hd : DenotesZ st.store e T) : Post env st.store T (st, e) where
  inv := hinv
  le := Store.Le.refl _
  den := hd
  canon hr := (intern_of_denotes hinv.1 hr hd).symm

theorem Post.nored {env : Env} {s : Store} {T : ZDD} {R : St × ZEdge} (h : Post env s T R)
    (hr : s.NoRed) : R.1.store.NoRed := by
  have := h.canon hr
  have h1 : R.1.store = (intern s T).1 := congrArg Prod.fst this
  rw [h1]; exact intern_nored s T hr

/-- the two sub-results are combined by `reduce` -/
theorem post_mkS {env : Env} {s : Store} {R1 R0 : St × ZEdge} {T1 T0 : ZDD}
    (h1 : Post env s T1 R1) (h0 : Post env R1.1.store T0 R0) (l : Nat) :
    Post env s (mk l T1 T0) (mkS R0.1 l R1.2 R0.2) := by
  have denm := mkNodeZ_denotes R0.1.store l R1.2 R0.2 T1 T0 (h1.den.mono h0.le) h0.den
  have lem := mkNodeZ_le R0.1.store l R1.2 R0.2
  have hle : s.Le (R0.1.store.mkNodeZ l R1.2 R0.2).1 := h1.le.trans (h0.le.trans lem)
  refine ⟨⟨mkNodeZ_unique _ _ _ _ h0.inv.1, h0.inv.2.mono lem⟩, hle, denm, ?_⟩
  intro hr
  have c1 := h1.canon hr
  have hr1 := h1.nored hr
  have c0 := h0.canon hr1
  show ((R0.1.store.mkNodeZ l R1.2 R0.2).1, (R0.1.store.mkNodeZ l R1.2 R0.2).2) = intern s (mk l T1 T0)
  have e1s : R1.1.store = (intern s T1).1 := congrArg Prod.fst c1
  have e1e : R1.2 = (intern s T1).2 := congrArg Prod.snd c1
  have e0s : R0.1.store = (intern R1.1.store T0).1 := congrArg Prod.fst c0
  have e0e : R0.2 = (intern R1.1.store T0).2 := congrArg Prod.snd c0
  unfold mk
  by_cases hT : T1 = .empty
  · subst hT
    simp only [if_true]
    simp only [intern] at e1s e1e
    rw [e1s] at e0s e0e
    rw [e1e]
    simp only [Store.mkNodeZ, if_true]
    rw [e0s, e0e]
  · simp only [hT, if_false, intern]
    rw [← e1s, ← e1e, ← e0s, ← e0e]

/-- the key `key` means the tree `T` in store `s` (and, for `Ite`, its operands are in normal
form) -/
def KeyMeans (env : Env) (s : Store) (key : ZKey) (T : ZDD) : Prop :=
  ∃ ts, DenotesLZ s key.operands ts ∧ specZ env key.op ts key.nums = some T ∧
    (key.op = .ite → ∀ t, t ∈ ts → NF env.numLevels 0 t)

/-- the result is entered into the cache under a key that means it -/
theorem post_addZ {p : Policy} (pok : p.OK) {env : Env} {s : Store} {R : St × ZEdge} {T : ZDD}
    (h : Post env s T R) (key : ZKey) (hkey : KeyMeans env s key T) :
    Post env s T (addZ p R.1 key R.2) := by
  refine ⟨⟨h.inv.1, ?_⟩, h.le, h.den, h.canon⟩
  obtain ⟨ts, hd, hs, hnf⟩ := hkey
  exact CacheOK.add pok h.inv.2
    ⟨key, ts, T, rfl, hd.mono h.le, hs, by rw [decE_encE]; exact h.den, hnf⟩ _

theorem post_finishZ {p : Policy} (pok : p.OK) {env : Env} {s : Store} {R1 R0 : St × ZEdge}
    {T1 T0 : ZDD} (h1 : Post env s T1 R1) (h0 : Post env R1.1.store T0 R0) (key : ZKey) (l : Nat)
    (hkey : KeyMeans env s key (mk l T1 T0)) :
    Post env s (mk l T1 T0) (finishZ p R0.1 key l R1.2 R0.2) :=
  post_addZ pok (post_mkS h1 h0 l) key hkey

/-! ## `apply_union` / `apply_intsec` / `apply_diff` / `apply_symm_diff` -/

/-- the terminal cases on edges, in the order of the code -/
def terminalS : SetOp → ZEdge → ZEdge → Option ZEdge
  | .union, f, g => if f = g ∨ g = .empty then some f else if f = .empty then some g else none
  | .intsec, f, g => if f = g then some f else if f = .empty ∨ g = .empty then some .empty else none
  | .diff, f, g => if f = g ∨ f = .empty then some .empty else if g = .empty then some f else none
  | .symmDiff, f, g =>
    if f = g then some .empty else if f = .empty then some g else if g = .empty then some f else none

/-- everything after the terminal cases and the operand swap: cache query, level comparison,
recursion (`rec`), `reduce`, cache add -/
def setBody (p : Policy) (op : SetOp) (rec : St → ZEdge → ZEdge → St × ZEdge) (st : St)
    (f g : ZEdge) : St × ZEdge :=
  -- query apply cache
  match p.get st.tick st.cache (encKey ⟨setTag op, [f, g], []⟩) with
  | some h => (st.tickd, decE h)
  | none =>
    match st.store.cmpLevels f g with
    | .lt nf =>
      -- f above g: g contributes (∅, g)
      let r0 := rec st.tickd nf.lo g
      if op.keepLt then finishZ p r0.1 ⟨setTag op, [f, g], []⟩ nf.level nf.hi r0.2
      else addZ p r0.1 ⟨setTag op, [f, g], []⟩ r0.2
    | .eq nf ng =>
      let r1 := rec st.tickd nf.hi ng.hi
      let r0 := rec r1.1 nf.lo ng.lo
      finishZ p r0.1 ⟨setTag op, [f, g], []⟩ nf.level r1.2 r0.2
    | .gt ng =>
      -- g above f: f contributes (∅, f)
      let r0 := rec st.tickd f ng.lo
      if op.keepGt then finishZ p r0.1 ⟨setTag op, [f, g], []⟩ ng.level ng.hi r0.2
      else addZ p r0.1 ⟨setTag op, [f, g], []⟩ r0.2
    | .none => (st.tickd, f) -- two terminals or a dangling edge (excluded by `DenotesZ`)

/-- `apply_union`, `apply_intsec`, `apply_diff`, `apply_symm_diff` -/
def setOpS (p : Policy) (op : SetOp) : Nat → St → ZEdge → ZEdge → St × ZEdge
  | 0, st, f, _ => (st, f)
  | fuel+1, st, f, g =>
    match terminalS op f g with
    | some r => (st, r)
    | none =>
      -- commutative operators: make the set `{f, g}` unique
      if op.comm && f.gt g then setBody p op (setOpS p op fuel) st g f
      else setBody p op (setOpS p op fuel) st f g

def unionS (p : Policy) := setOpS p .union
def intsecS (p : Policy) := setOpS p .intsec
def diffS (p : Policy) := setOpS p .diff
def symmDiffS (p : Policy) := setOpS p .symmDiff

/-- the terminal cases on edges agree with those on trees in every hash-consed store -/
theorem terminalS_corr (op : SetOp) {s : Store} (hu : s.Unique) {f g : ZEdge} {a b : ZDD}
    (hf : DenotesZ s f a) (hg : DenotesZ s g b) :
    match terminalS op f g, terminalT op a b with
    | some e, some t => DenotesZ s e t
    | none, none => True
    | _, _ => False := by
  by_cases hfg : f = g
  · subst hfg
    have := DenotesZ.functional hf hg
    subst this
    cases op <;> simp only [terminalS, terminalT, true_or, if_true] <;>
      first | exact hf | exact .empty
  · have hab : ¬ a = b := fun e => hfg ((denotes_eq_iff hu hf hg).mpr e)
    cases hf with
    | empty =>
      cases hg with
      | empty => exact absurd rfl hfg
      | base => cases op <;> simp [terminalS, terminalT] <;> first | exact .base | exact .empty
      | inner hj hgh hgl =>
        have hg' := DenotesZ.inner hj hgh hgl
        cases op <;> simp [terminalS, terminalT] <;> first | exact hg' | exact .empty
    | base =>
      cases hg with
      | empty => cases op <;> simp [terminalS, terminalT] <;> first | exact .base | exact .empty
      | base => exact absurd rfl hfg
      | inner hj hgh hgl => cases op <;> simp [terminalS, terminalT]
    | inner hi hfh hfl =>
      have hf' := DenotesZ.inner hi hfh hfl
      cases hg with
      | empty => cases op <;> simp [terminalS, terminalT] <;> first | exact hf' | exact .empty
      | base => cases op <;> simp [terminalS, terminalT]
      | inner hj hgh hgl => cases op <;> simp [terminalS, terminalT, hfg, hab]

/-- what `setBody` does, given that `rec` is correct on smaller operands -/
theorem setBody_post {p : Policy} (pok : p.OK) (env : Env) (op : SetOp) (fuel : Nat)
    (rec : St → ZEdge → ZEdge → St × ZEdge)
    (hrec : ∀ (st : St) (f g : ZEdge) (a b : ZDD), Inv env st → DenotesZ st.store f a →
      DenotesZ st.store g b → a.size + b.size ≤ fuel →
      Post env st.store (setOp op a b) (rec st f g))
    (st : St) (f g : ZEdge) (a b : ZDD) (hinv : Inv env st) (hf : DenotesZ st.store f a)
    (hg : DenotesZ st.store g b) (hsz : a.size + b.size ≤ fuel + 1)
    (hnt : terminalT op a b = none) :
    Post env st.store (setOp op a b) (setBody p op rec st f g) := by
  obtain ⟨hab, ha, hb⟩ := terminalT_none hnt
  have hkd : KeyMeans env st.store ⟨setTag op, [f, g], []⟩ (setOp op a b) :=
    ⟨_, DenotesLZ.two hf hg, specZ_setTag env op a b, fun h => by cases op <;> cases h⟩
  unfold setBody
  split
  · -- cache hit
    rename_i r hr
    have hent := hinv.2 _ _ (pok.get_mem _ _ _ _ hr)
    exact Post.done (st := st.tickd) hinv.tickd (hent.hit (DenotesLZ.two hf hg) (specZ_setTag env op a b))
  · -- cache miss
    cases hf with
    | empty => exact absurd rfl ha
    | base =>
      cases hg with
      | empty => exact absurd rfl hb
      | base => exact absurd rfl hab
      | @inner j gl gh glo' ghi glo hj hgh hgl =>
        -- `Base` against an inner node: `Greater`
        simp only [Store.cmpLevels, Store.node?, hj]
        simp only [ZDD.size] at hsz
        have p0 := hrec st.tickd .base glo' .base glo hinv.tickd .base hgl
          (by simp only [ZDD.size]; omega)
        rw [setOp_bn] at hkd ⊢
        split
        · rename_i hk
          rw [if_pos hk] at hkd
          exact post_finishZ pok (Post.done (st := st.tickd) hinv.tickd hgh) p0 _ _ hkd
        · rename_i hk
          rw [if_neg hk] at hkd
          exact post_addZ pok p0 _ hkd
    | @inner i fl fh flo' fhi flo hi hfh hfl =>
      cases hg with
      | empty => exact absurd rfl hb
      | base =>
        -- inner node against `Base`: `Less`
        simp only [Store.cmpLevels, Store.node?, hi]
        simp only [ZDD.size] at hsz
        have p0 := hrec st.tickd flo' .base flo .base hinv.tickd hfl .base
          (by simp only [ZDD.size]; omega)
        rw [setOp_nb] at hkd ⊢
        split
        · rename_i hk
          rw [if_pos hk] at hkd
          exact post_finishZ pok (Post.done (st := st.tickd) hinv.tickd hfh) p0 _ _ hkd
        · rename_i hk
          rw [if_neg hk] at hkd
          exact post_addZ pok p0 _ hkd
      | @inner j gl gh glo' ghi glo hj hgh hgl =>
        have hdg : DenotesZ st.store (.inner j) (.node gl ghi glo) := .inner hj hgh hgl
        have hdf : DenotesZ st.store (.inner i) (.node fl fhi flo) := .inner hi hfh hfl
        simp only [Store.cmpLevels, Store.node?, hi, hj]
        simp only [ZDD.size] at hsz
        rcases Nat.lt_trichotomy fl gl with h | h | h
        · simp only [h, if_true]
          have p0 := hrec st.tickd flo' (.inner j) flo _ hinv.tickd hfl hdg
            (by simp only [ZDD.size]; omega)
          rw [setOp_nn_lt op _ _ _ _ h] at hkd ⊢
          split
          · rename_i hk
            rw [if_pos hk] at hkd
            exact post_finishZ pok (Post.done (st := st.tickd) hinv.tickd hfh) p0 _ _ hkd
          · rename_i hk
            rw [if_neg hk] at hkd
            exact post_addZ pok p0 _ hkd
        · subst h
          simp only [Nat.lt_irrefl, if_false, if_true]
          have p1 := hrec st.tickd fh gh fhi ghi hinv.tickd hfh hgh (by omega)
          have p0 := hrec _ flo' glo' flo glo p1.inv (hfl.mono p1.le) (hgl.mono p1.le) (by omega)
          rw [setOp_nn_eq op hab] at hkd ⊢
          exact post_finishZ pok p1 p0 _ _ hkd
        · have h1 : ¬ fl < gl := by omega
          have h2 : ¬ fl = gl := by omega
          simp only [h1, h2, if_false]
          have p0 := hrec st.tickd (.inner i) glo' _ glo hinv.tickd hdf hgl
            (by simp only [ZDD.size]; omega)
          rw [setOp_nn_gt op _ _ _ _ h] at hkd ⊢
          split
          · rename_i hk
            rw [if_pos hk] at hkd
            exact post_finishZ pok (Post.done (st := st.tickd) hinv.tickd hgh) p0 _ _ hkd
          · rename_i hk
            rw [if_neg hk] at hkd
            exact post_addZ pok p0 _ hkd

/-- **`apply_union/intsec/diff/symm_diff` with cache refine `union/intsec/diff/symmDiff`** -/
theorem setOpS_spec {p : Policy} (pok : p.OK) (env : Env) (op : SetOp) (fuel : Nat) :
    ∀ (st : St) (f g : ZEdge) (a b : ZDD),
    Inv env st → DenotesZ st.store f a → DenotesZ st.store g b → a.size + b.size ≤ fuel →
    Post env st.store (setOp op a b) (setOpS p op fuel st f g) := by
  induction fuel with
  | zero =>
    intro st f g a b _ _ _ hsz
    have := size_pos a
    omega
  | succ fuel ih =>
    intro st f g a b hinv hf hg hsz
    have hc := terminalS_corr op hinv.1 hf hg
    simp only [setOpS]
    cases hS : terminalS op f g with
    | some e =>
      cases hT : terminalT op a b with
      | some t =>
        rw [hS, hT] at hc
        rw [setOp_terminal hT]
        exact Post.done hinv hc
      | none => rw [hS, hT] at hc; exact hc.elim
    | none =>
      cases hT : terminalT op a b with
      | some t => rw [hS, hT] at hc; exact hc.elim
      | none =>
        simp only
        split
        · -- operands swapped
          rename_i hsw
          have hcm : op.comm = true := by
            simp only [Bool.and_eq_true] at hsw; exact hsw.1
          obtain ⟨h1, h2, h3⟩ := terminalT_none hT
          rw [setOp_comm' op hcm b a]
          exact setBody_post pok env op fuel _ ih st g f b a hinv hg hf (by omega)
            (terminalT_none_of (Ne.symm h1) h3 h2)
        · exact setBody_post pok env op fuel _ ih st f g a b hinv hf hg hsz hT


/-! ### which entries the set operators create -/

/-- the key of a set operator `op`: its own tag, two edge operands, no numeric operand -/
def IsSetKey (op : SetOp) (k : Key) : Prop := ∃ x y, k = encKey ⟨setTag op, [x, y], []⟩

theorem setBody_cache_keys {p : Policy} (pok : p.OK) (op : SetOp)
    (rec : St → ZEdge → ZEdge → St × ZEdge)
    (hrec : ∀ (st : St) (f g : ZEdge) (x : Key × Bdd.Refine.Edge),
      x ∈ (rec st f g).1.cache → x ∈ st.cache ∨ IsSetKey op x.1)
    (st : St) (f g : ZEdge) (x : Key × Bdd.Refine.Edge)
    (hx : x ∈ (setBody p op rec st f g).1.cache) : x ∈ st.cache ∨ IsSetKey op x.1 := by
  have hadd : ∀ (c' : Cache) (t : Nat) (r : Bdd.Refine.Edge),
      (∀ y, y ∈ c' → y ∈ st.cache ∨ IsSetKey op y.1) →
      x ∈ p.add t c' (encKey ⟨setTag op, [f, g], []⟩) r → x ∈ st.cache ∨ IsSetKey op x.1 := by
    intro c' t r h' hx
    rcases pok.add_sub _ _ _ _ _ hx with h | h
    · exact h' _ h
    · right; rw [h]; exact ⟨f, g, rfl⟩
  have hrec' : ∀ (st' : St) (f' g' : ZEdge), (∀ y, y ∈ st'.cache → y ∈ st.cache ∨ IsSetKey op y.1) →
      ∀ y, y ∈ (rec st' f' g').1.cache → y ∈ st.cache ∨ IsSetKey op y.1 := by
    intro st' f' g' h' y hy
    rcases hrec st' f' g' y hy with h | h
    · exact h' _ h
    · exact .inr h
  unfold setBody at hx
  split at hx
  · exact .inl hx
  · split at hx
    · split at hx <;> simp only [finishZ, addZ, mkS] at hx <;>
        exact hadd _ _ _ (hrec' st.tickd _ _ (fun _ h => .inl h)) hx
    · simp only [finishZ, addZ, mkS] at hx
      exact hadd _ _ _ (hrec' _ _ _ (hrec' st.tickd _ _ (fun _ h => .inl h))) hx
    · split at hx <;> simp only [finishZ, addZ, mkS] at hx <;>
        exact hadd _ _ _ (hrec' st.tickd _ _ (fun _ h => .inl h)) hx
    · exact .inl hx

/-- every entry in the cache after `apply_<op>` was there before or is keyed by the tag of `op`,
two edge operands and no numeric operand -/
theorem setOpS_cache_keys {p : Policy} (pok : p.OK) (op : SetOp) (fuel : Nat) :
    ∀ (st : St) (f g : ZEdge) (x : Key × Bdd.Refine.Edge),
      x ∈ (setOpS p op fuel st f g).1.cache → x ∈ st.cache ∨ IsSetKey op x.1 := by
  induction fuel with
  | zero => intro st f g x hx; exact .inl hx
  | succ fuel ih =>
    intro st f g x hx
    simp only [setOpS] at hx
    split at hx
    · exact .inl hx
    · split at hx
      · exact setBody_cache_keys pok op _ ih st g f x hx
      · exact setBody_cache_keys pok op _ ih st f g x hx

/-! ## `subset::<VAL>` -/

/-- `var_level` above `level` (or `f` terminal): the third arm of the `match` in `subset` -/
def subsetBelowS (op : SubsetOp) (vl : Nat) (st : St) (f : ZEdge) : St × ZEdge :=
  match op with
  | .subset0 => (st, f)
  | .subset1 => (st, .empty)
  | .change => mkS st vl f .empty

/-- `subset::<VAL>(f, var, var_level)`; `var` is the *numeric* operand of the cache key -/
def subsetS (p : Policy) (op : SubsetOp) (var vl : Nat) : Nat → St → ZEdge → St × ZEdge
  | 0, st, f => (st, f)
  | fuel+1, st, f =>
    match st.store.node? f with
    | some n =>
      if n.level < vl then
        -- level above var_level: query apply cache with key `(op, [f], [var])`
        match p.get st.tick st.cache (encKey ⟨subsetTag op, [f], [var]⟩) with
        | some h => (st.tickd, decE h)
        | none =>
          let r1 := subsetS p op var vl fuel st.tickd n.hi
          let r0 := subsetS p op var vl fuel r1.1 n.lo
          finishZ p r0.1 ⟨subsetTag op, [f], [var]⟩ n.level r1.2 r0.2
      else if n.level = vl then
        match op with
        | .change => mkS st n.level n.lo n.hi -- the swap of `hi` and `lo` is intentional
        | .subset0 => (st, n.lo)
        | .subset1 => (st, n.hi)
      else subsetBelowS op vl st f
    | none => subsetBelowS op vl st f

theorem subsetBelowS_post (env : Env) (op : SubsetOp) (vl : Nat) (st : St) (f : ZEdge) (a : ZDD)
    (hinv : Inv env st) (hf : DenotesZ st.store f a) :
    Post env st.store (match op with
      | .subset0 => a
      | .subset1 => .empty
      | .change => mk vl a .empty) (subsetBelowS op vl st f) := by
  cases op <;> simp only [subsetBelowS]
  · exact Post.done hinv hf
  · exact Post.done hinv .empty
  · exact post_mkS (Post.done hinv hf) (Post.done hinv .empty) vl

/-- **`subset::<VAL>` with cache refines `subset op`**, provided the level passed along is the
level of the variable in the key (`var_level = manager.var_to_level(var)`) -/
theorem subsetS_spec {p : Policy} (pok : p.OK) (env : Env) (op : SubsetOp) (var : Nat)
    (fuel : Nat) : ∀ (st : St) (f : ZEdge) (a : ZDD),
    Inv env st → DenotesZ st.store f a → a.size ≤ fuel →
    Post env st.store (subset op (env.levelOf var) a)
      (subsetS p op var (env.levelOf var) fuel st f) := by
  induction fuel with
  | zero =>
    intro st f a _ _ hsz
    have := size_pos a
    omega
  | succ fuel ih =>
    intro st f a hinv hf hsz
    cases hf with
    | empty =>
      simp only [subsetS, Store.node?, subset]
      exact subsetBelowS_post env op _ st .empty .empty hinv .empty
    | base =>
      simp only [subsetS, Store.node?, subset]
      exact subsetBelowS_post env op _ st .base .base hinv .base
    | @inner i l eh el th tl hi hh hl =>
      have hdf : DenotesZ st.store (.inner i) (.node l th tl) := .inner hi hh hl
      simp only [subsetS, Store.node?, hi, subset]
      simp only [ZDD.size] at hsz
      split
      · -- level above var_level
        split
        · rename_i r hr
          have hent := hinv.2 _ _ (pok.get_mem _ _ _ _ hr)
          exact Post.done (st := st.tickd) hinv.tickd
            (hent.hit (DenotesLZ.one hdf) (by
              rw [specZ_subsetTag]; simp only [subset, *, if_true]))
        · have p1 := ih st.tickd eh th hinv.tickd hh (by omega)
          have p0 := ih _ el tl p1.inv (hl.mono p1.le) (by omega)
          refine post_finishZ pok p1 p0 _ l ⟨_, DenotesLZ.one hdf, ?_, fun h => by cases op <;> cases h⟩
          rw [specZ_subsetTag]; simp only [subset, *, if_true]
      · split
        · cases op <;> simp only
          · exact Post.done hinv hl
          · exact Post.done hinv hh
          · exact post_mkS (Post.done hinv hl) (Post.done hinv hh) l
        · exact subsetBelowS_post env op _ st _ _ hinv hdf

/-- every entry in the cache after `subset::<VAL>(f, var, ·)` was there before or is keyed by the
tag of this `VAL`, one edge operand and **this `var`** as numeric operand -/
theorem subsetS_cache_keys {p : Policy} (pok : p.OK) (op : SubsetOp) (var vl : Nat) (fuel : Nat) :
    ∀ (st : St) (f : ZEdge) (x : Key × Bdd.Refine.Edge),
      x ∈ (subsetS p op var vl fuel st f).1.cache →
      x ∈ st.cache ∨ ∃ e, x.1 = encKey ⟨subsetTag op, [e], [var]⟩ := by
  induction fuel with
  | zero => intro st f x hx; exact .inl hx
  | succ fuel ih =>
    intro st f x hx
    have hbelow : ∀ (st' : St) (e : ZEdge), (subsetBelowS op vl st' e).1.cache = st'.cache := by
      intro st' e; cases op <;> rfl
    simp only [subsetS] at hx
    split at hx
    · split at hx
      · split at hx
        · exact .inl hx
        · simp only [finishZ, addZ, mkS] at hx
          rcases pok.add_sub _ _ _ _ _ hx with h | h
          · rcases ih _ _ _ h with h' | h'
            · rcases ih _ _ _ h' with h'' | h''
              · exact .inl h''
              · exact .inr h''
            · exact .inr h'
          · right; rw [h]; exact ⟨f, rfl⟩
      · split at hx
        · cases op <;> exact .inl hx
        · rw [hbelow] at hx; exact .inl hx
    · rw [hbelow] at hx; exact .inl hx

end OxiddModel.Zbdd.Refine
