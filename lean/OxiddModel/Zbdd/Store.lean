import OxiddModel.Zbdd.Model

/-!
# The ZBDD node store as a set of (hash-consed) trees: reference counts

As for BDDs (`OxiddModel/Bdd/Store.lean`) the unique table is modelled as a duplicate-free list of
inner-node trees closed under taking children. The reference count of a node is the number of live
handles pointing to it plus the number of stored parent edges plus — specific to ZBDDs — one for
every entry of the manager's tautology chain (`ZBDDCache::tautologies`) that is this node: the
manager itself holds one reference per level.
-/
namespace OxiddModel.Zbdd
open ZDD

def kids : ZDD → List ZDD
  | .node _ hi lo => [hi, lo]
  | _ => []

/-- the inner nodes of the tautology chain of a manager with `n` levels (`tautologies[1..]`) -/
def chainNodes (n : Nat) : List ZDD := (List.range n).map fun l => taut n l

/-- reference count of `n`: live handles pointing to it + stored parent edges + chain entries -/
def rc (numLevels : Nat) (hs S : List ZDD) (n : ZDD) : Nat :=
  hs.count n + (S.map fun p => (kids p).count n).sum + (chainNodes numLevels).count n

/-- all inner nodes reachable from the handles and from the tautology chain (executable): the
store right after a garbage collection -/
def reachList (numLevels : Nat) (hs : List ZDD) : List ZDD :=
  ((taut numLevels 0 :: hs).foldl (fun acc t => subtrees t acc) []).filter (fun t => !t.isTerminal)

end OxiddModel.Zbdd
