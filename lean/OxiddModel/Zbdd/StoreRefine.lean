import OxiddModel.Zbdd.Ite
import OxiddModel.Zbdd.Restrict

/-!
# The ZBDD node store: hash-consed nodes with ids, and what an edge denotes

The *store level* below the tree model of `Zbdd/Model.lean`, for the zero-suppressed rules
(`crates/oxidd-rules-zbdd/src/lib.rs`):

* an edge `ZEdge` is one of the two terminals (`ZBDDTerminal::{Empty, Base}`) or the id of a slot,
* a stored node `ZNode` is `⟨level, hi, lo⟩` (`InnerNode::new(level, [hi, lo])`),
* `Store.getOrInsert` is `LevelView::get_or_insert` (unique-table lookup, else allocate a slot),
* `Store.mkNodeZ` is `reduce` / `reduce_borrowed`: the zero-suppression rule
  (`hi` is the terminal `Empty` ⇒ return `lo`), then `get_or_insert`;
  `Store.mkNode1Z` is `reduce1` (both children equal, unless the child is `Empty`).

`DenotesZ s e t` relates an edge of store `s` to the tree-level `ZDD` it unfolds to.

* `DenotesZ.functional`, `DenotesZ.mono` (store extension `Store.Le`),
* `Store.Unique` (no two slots hold the same node: hash consing) ⇒ `inj_of_unique`: edge equality
  ⇔ tree equality, which justifies `Model.lean`'s use of `=` on trees for `f == g` on edges,
* `getOrInsert_*`, `mkNodeZ_le`, `mkNodeZ_unique`, `mkNodeZ_denotes` (`mkNodeZ` refines `mk`; no
  injectivity is needed: the rule only inspects whether `hi` is the terminal `Empty`),
* `Store.NoRed` (no stored node has `hi = Empty`: zero suppression as a store invariant) and
  `intern`, the canonical way to enter a tree into a store (`intern_of_denotes`: idempotent on
  what is present). It is used to show that the *store* after an operation, not only the result,
  is independent of the apply cache.

Everything lives in `OxiddModel.Zbdd.Refine`.
-/
namespace OxiddModel.Zbdd.Refine
open OxiddModel.Zbdd OxiddModel.Zbdd.ZDD

/-! ## store level -/

/-- an edge: one of the two terminals or the id of an inner node -/
inductive ZEdge where
  | empty : ZEdge
  | base : ZEdge
  | inner : Nat → ZEdge
deriving DecidableEq, Repr, Inhabited

/-- `InnerNode::new(level, [hi, lo])` -/
structure ZNode where
  level : Nat
  hi : ZEdge
  lo : ZEdge
deriving DecidableEq, Repr

structure Store where
  nodes : Array (Option ZNode)
deriving Repr

def Store.get? (s : Store) (i : Nat) : Option ZNode := (s.nodes[i]?).join

/-- unique-table lookup -/
def Store.find? (s : Store) (n : ZNode) : Option Nat :=
  s.nodes.findIdx? (· == some n)

/-- slot allocation: first free slot, else grow -/
def Store.alloc (s : Store) (n : ZNode) : Store × Nat :=
  match s.nodes.findIdx? (· == none) with
  | some i => (⟨s.nodes.set! i (some n)⟩, i)
  | none => (⟨s.nodes.push (some n)⟩, s.nodes.size)

/-- `LevelView::get_or_insert`: no reduction rule, only hash consing -/
def Store.getOrInsert (s : Store) (n : ZNode) : Store × ZEdge :=
  match s.find? n with
  | some i => (s, .inner i)
  | none => let r := s.alloc n; (r.1, .inner r.2)

/-- `reduce` / `reduce_borrowed` (lib.rs): `if hi is Empty { return lo }`, else `get_or_insert` -/
def Store.mkNodeZ (s : Store) (level : Nat) (hi lo : ZEdge) : Store × ZEdge :=
  if hi = .empty then (s, lo) else s.getOrInsert ⟨level, hi, lo⟩

/-- `reduce1` (lib.rs): `if child is Empty { return child }`, else `get_or_insert` of the node with
two equal children -/
def Store.mkNode1Z (s : Store) (level : Nat) (c : ZEdge) : Store × ZEdge :=
  if c = .empty then (s, c) else s.getOrInsert ⟨level, c, c⟩

/-- the tree an edge unfolds to -/
inductive DenotesZ (s : Store) : ZEdge → ZDD → Prop
  | empty : DenotesZ s .empty .empty
  | base : DenotesZ s .base .base
  | inner {i l : Nat} {eh el : ZEdge} {th tl : ZDD} :
      s.get? i = some ⟨l, eh, el⟩ → DenotesZ s eh th → DenotesZ s el tl →
      DenotesZ s (.inner i) (.node l th tl)

theorem DenotesZ.functional {s : Store} {x : ZEdge} {a b : ZDD}
    (ha : DenotesZ s x a) (hb : DenotesZ s x b) : a = b := by
  induction ha generalizing b with
  | empty => cases hb; rfl
  | base => cases hb; rfl
  | inner hi _ _ ihh ihl =>
    cases hb with
    | inner hi' hh' hl' =>
      rw [hi] at hi'; cases hi'
      rw [ihh hh', ihl hl']

/-- an edge denotes `∅` iff it is the terminal `Empty` -/
theorem DenotesZ.empty_iff {s : Store} {x : ZEdge} {a : ZDD} (h : DenotesZ s x a) :
    x = .empty ↔ a = .empty := by
  cases h <;> simp

/-- an edge denotes `{∅}` iff it is the terminal `Base` -/
theorem DenotesZ.base_iff {s : Store} {x : ZEdge} {a : ZDD} (h : DenotesZ s x a) :
    x = .base ↔ a = .base := by
  cases h <;> simp

/-- store extension: every occupied slot keeps its content -/
def Store.Le (s s' : Store) : Prop := ∀ i n, s.get? i = some n → s'.get? i = some n

theorem Store.Le.refl (s : Store) : s.Le s := fun _ _ h => h
theorem Store.Le.trans {a b c : Store} (h1 : a.Le b) (h2 : b.Le c) : a.Le c :=
  fun i n h => h2 i n (h1 i n h)

theorem DenotesZ.mono {s s' : Store} (h : s.Le s') {x : ZEdge} {a : ZDD}
    (ha : DenotesZ s x a) : DenotesZ s' x a := by
  induction ha with
  | empty => exact .empty
  | base => exact .base
  | inner hi _ _ ihh ihl => exact .inner (h _ _ hi) ihh ihl

theorem get?_alloc (s : Store) (n : ZNode) (j : Nat) :
    (s.alloc n).1.get? j = if j = (s.alloc n).2 then some n else s.get? j := by
  unfold Store.alloc
  split
  · rename_i i hi
    have hlt : i < s.nodes.size := (Array.findIdx?_eq_some_iff_findIdx_eq.mp hi).1
    simp only [Store.get?]
    by_cases hj : j = i
    · subst hj; simp [Array.set!, hlt]
    · simp [Array.set!, hj, Ne.symm hj]
  · simp only [Store.get?]
    by_cases hj : j = s.nodes.size
    · subst hj; simp
    · simp [Array.getElem?_push, hj]

theorem find?_some {s : Store} {n : ZNode} {i : Nat} (h : s.find? n = some i) :
    s.get? i = some n := by
  unfold Store.find? at h
  obtain ⟨hlt, heq⟩ := Array.findIdx?_eq_some_iff_findIdx_eq.mp h
  have := Array.findIdx_getElem (xs := s.nodes) (p := (· == some n)) (w := by rw [heq]; exact hlt)
  simp only [heq] at this
  simp [Store.get?, hlt, beq_iff_eq.mp this]

theorem find?_none {s : Store} {n : ZNode} (h : s.find? n = none) : ∀ i, s.get? i ≠ some n := by
  intro i hi
  unfold Store.find? at h
  rw [Array.findIdx?_eq_none_iff] at h
  unfold Store.get? at hi
  cases hx : s.nodes[i]? with
  | none => simp [hx] at hi
  | some x =>
    have hmem : x ∈ s.nodes := Array.mem_of_getElem? hx
    have := h x hmem
    simp [hx] at hi
    subst hi
    simp at this

theorem alloc_fresh (s : Store) (n : ZNode) : s.get? (s.alloc n).2 = none := by
  unfold Store.alloc
  split
  · rename_i i hi
    obtain ⟨hlt, heq⟩ := Array.findIdx?_eq_some_iff_findIdx_eq.mp hi
    have := Array.findIdx_getElem (xs := s.nodes) (p := (· == none)) (w := by rw [heq]; exact hlt)
    simp only [heq] at this
    simp [Store.get?, hlt, beq_iff_eq.mp this]
  · simp [Store.get?]

theorem alloc_le (s : Store) (n : ZNode) : s.Le (s.alloc n).1 := by
  intro i m hi
  rw [get?_alloc]
  split
  · rename_i h; subst h; rw [alloc_fresh] at hi; cases hi
  · exact hi

/-! ## `get_or_insert` -/

theorem getOrInsert_le (s : Store) (n : ZNode) : s.Le (s.getOrInsert n).1 := by
  unfold Store.getOrInsert
  split
  · exact Store.Le.refl _
  · exact alloc_le _ _

/-- the returned edge points to a slot holding exactly the requested node -/
theorem getOrInsert_get (s : Store) (n : ZNode) :
    ∃ i, (s.getOrInsert n).2 = .inner i ∧ (s.getOrInsert n).1.get? i = some n := by
  unfold Store.getOrInsert
  split
  · rename_i i hi
    exact ⟨i, rfl, find?_some hi⟩
  · exact ⟨_, rfl, by rw [get?_alloc]; simp⟩

theorem getOrInsert_denotes (s : Store) (l : Nat) (h lo : ZEdge) (th tl : ZDD)
    (hh : DenotesZ s h th) (hl : DenotesZ s lo tl) :
    DenotesZ (s.getOrInsert ⟨l, h, lo⟩).1 (s.getOrInsert ⟨l, h, lo⟩).2 (.node l th tl) := by
  obtain ⟨i, he, hg⟩ := getOrInsert_get s ⟨l, h, lo⟩
  have hle := getOrInsert_le s ⟨l, h, lo⟩
  rw [he]
  exact .inner hg (hh.mono hle) (hl.mono hle)

/-- no two slots hold the same node -/
def Store.Unique (s : Store) : Prop :=
  ∀ i j n, s.get? i = some n → s.get? j = some n → i = j

theorem getOrInsert_unique (s : Store) (n : ZNode) (hu : s.Unique) : (s.getOrInsert n).1.Unique := by
  unfold Store.getOrInsert
  split
  · exact hu
  · rename_i hnone
    intro i j m hi hj
    simp only [get?_alloc] at hi hj
    split at hi <;> split at hj
    · omega
    · cases hi; exact absurd hj (find?_none hnone j)
    · cases hj; exact absurd hi (find?_none hnone i)
    · exact hu i j m hi hj

/-- a node that is present is found: nothing is allocated -/
theorem getOrInsert_present {s : Store} (hu : s.Unique) {i : Nat} {n : ZNode}
    (hi : s.get? i = some n) : s.getOrInsert n = (s, .inner i) := by
  unfold Store.getOrInsert
  cases hf : s.find? n with
  | none => exact absurd hi (find?_none hf i)
  | some j => rw [hu j i _ (find?_some hf) hi]

/-! ## `reduce` -/

theorem mkNodeZ_le (s : Store) (l : Nat) (h lo : ZEdge) : s.Le (s.mkNodeZ l h lo).1 := by
  unfold Store.mkNodeZ
  split
  · exact Store.Le.refl _
  · exact getOrInsert_le _ _

/-- **`reduce` refines `mk`** -/
theorem mkNodeZ_denotes (s : Store) (l : Nat) (h lo : ZEdge) (th tl : ZDD)
    (hh : DenotesZ s h th) (hl : DenotesZ s lo tl) :
    DenotesZ (s.mkNodeZ l h lo).1 (s.mkNodeZ l h lo).2 (mk l th tl) := by
  unfold Store.mkNodeZ mk
  by_cases he : h = .empty
  · have : th = .empty := hh.empty_iff.mp he
    simp only [he, this, if_true]; exact hl
  · have : th ≠ .empty := fun e => he (hh.empty_iff.mpr e)
    simp only [he, this, if_false]
    exact getOrInsert_denotes s l h lo th tl hh hl

theorem mkNodeZ_unique (s : Store) (l : Nat) (h lo : ZEdge) (hu : s.Unique) :
    (s.mkNodeZ l h lo).1.Unique := by
  unfold Store.mkNodeZ
  split
  · exact hu
  · exact getOrInsert_unique _ _ hu

theorem mkNode1Z_le (s : Store) (l : Nat) (c : ZEdge) : s.Le (s.mkNode1Z l c).1 := by
  unfold Store.mkNode1Z
  split
  · exact Store.Le.refl _
  · exact getOrInsert_le _ _

/-- **`reduce1` refines `mk1`** -/
theorem mkNode1Z_denotes (s : Store) (l : Nat) (c : ZEdge) (tc : ZDD) (hc : DenotesZ s c tc) :
    DenotesZ (s.mkNode1Z l c).1 (s.mkNode1Z l c).2 (mk1 l tc) := by
  unfold Store.mkNode1Z mk1
  by_cases he : c = .empty
  · have : tc = .empty := hc.empty_iff.mp he
    simp only [he, this, if_true]; exact .empty
  · have : tc ≠ .empty := fun e => he (hc.empty_iff.mpr e)
    simp only [he, this, if_false]
    exact getOrInsert_denotes s l c c tc tc hc hc

theorem mkNode1Z_unique (s : Store) (l : Nat) (c : ZEdge) (hu : s.Unique) :
    (s.mkNode1Z l c).1.Unique := by
  unfold Store.mkNode1Z
  split
  · exact hu
  · exact getOrInsert_unique _ _ hu

/-! ## injectivity of the denotation -/

/-- denotation is injective: the hash-consing invariant at the semantic level -/
def Store.Inj (s : Store) : Prop := ∀ x y a, DenotesZ s x a → DenotesZ s y a → x = y

theorem inj_of_unique {s : Store} (hu : s.Unique) : s.Inj := by
  intro x y a hx hy
  induction hx generalizing y with
  | empty => cases hy; rfl
  | base => cases hy; rfl
  | @inner i l h lo th tl hi _ _ ihh ihl =>
    cases hy with
    | @inner j _ h' lo' _ _ hj hh' hl' =>
      have h1 := ihh _ hh'
      have h2 := ihl _ hl'
      subst h1 h2
      rw [hu i j _ hi hj]

/-- in a hash-consed store two edges are equal iff the trees they denote are equal -/
theorem denotes_eq_iff {s : Store} (hu : s.Unique) {x y : ZEdge} {a b : ZDD}
    (hx : DenotesZ s x a) (hy : DenotesZ s y b) : x = y ↔ a = b :=
  ⟨fun e => DenotesZ.functional hx (e ▸ hy), fun e => inj_of_unique hu _ _ _ hx (e ▸ hy)⟩

/-! ## zero suppression as a store invariant, canonical interning -/

/-- no stored node has the terminal `Empty` as `hi` child -/
def Store.NoRed (s : Store) : Prop := ∀ i n, s.get? i = some n → n.hi ≠ .empty

theorem getOrInsert_nored (s : Store) (n : ZNode) (hn : n.hi ≠ .empty) (hr : s.NoRed) :
    (s.getOrInsert n).1.NoRed := by
  unfold Store.getOrInsert
  split
  · exact hr
  · intro i m hi
    simp only [get?_alloc] at hi
    split at hi
    · cases hi; exact hn
    · exact hr i m hi

theorem mkNodeZ_nored (s : Store) (l : Nat) (h lo : ZEdge) (hr : s.NoRed) :
    (s.mkNodeZ l h lo).1.NoRed := by
  unfold Store.mkNodeZ
  split
  · exact hr
  · rename_i hne
    exact getOrInsert_nored _ _ hne hr

theorem mkNode1Z_nored (s : Store) (l : Nat) (c : ZEdge) (hr : s.NoRed) :
    (s.mkNode1Z l c).1.NoRed := by
  unfold Store.mkNode1Z
  split
  · exact hr
  · rename_i hne
    exact getOrInsert_nored _ _ hne hr

/-- in a zero-suppressed store every edge denotes a zero-suppressed tree -/
theorem reduced_of_nored {s : Store} (hr : s.NoRed) {x : ZEdge} {a : ZDD} (h : DenotesZ s x a) :
    Reduced a := by
  induction h with
  | empty => trivial
  | base => trivial
  | @inner i l h lo th tl hi hh _ ihh ihl =>
    exact ⟨fun e => hr i _ hi (hh.empty_iff.mpr e), ihh, ihl⟩

/-- enter a tree into the store bottom-up, `hi` child first (the order in which the recursive
apply algorithms create nodes) -/
def intern (s : Store) : ZDD → Store × ZEdge
  | .empty => (s, .empty)
  | .base => (s, .base)
  | .node l hi lo =>
    let r1 := intern s hi
    let r0 := intern r1.1 lo
    r0.1.mkNodeZ l r1.2 r0.2

theorem intern_le (s : Store) (a : ZDD) : s.Le (intern s a).1 := by
  induction a generalizing s with
  | empty => exact Store.Le.refl _
  | base => exact Store.Le.refl _
  | node l hi lo ihh ihl =>
    simp only [intern]
    exact (ihh s).trans ((ihl _).trans (mkNodeZ_le _ _ _ _))

theorem intern_unique (s : Store) (a : ZDD) (hu : s.Unique) : (intern s a).1.Unique := by
  induction a generalizing s with
  | empty => exact hu
  | base => exact hu
  | node l hi lo ihh ihl =>
    simp only [intern]
    exact mkNodeZ_unique _ _ _ _ (ihl _ (ihh s hu))

theorem intern_nored (s : Store) (a : ZDD) (hr : s.NoRed) : (intern s a).1.NoRed := by
  induction a generalizing s with
  | empty => exact hr
  | base => exact hr
  | node l hi lo ihh ihl =>
    simp only [intern]
    exact mkNodeZ_nored _ _ _ _ (ihl _ (ihh s hr))

/-- a tree that is already present is found again: nothing is allocated and the very same edge is
returned -/
theorem intern_of_denotes {s : Store} (hu : s.Unique) (hr : s.NoRed) {x : ZEdge} {a : ZDD}
    (h : DenotesZ s x a) : intern s a = (s, x) := by
  induction h with
  | empty => rfl
  | base => rfl
  | @inner i l h lo th tl hi _ _ ihh ihl =>
    simp only [intern, ihh, ihl]
    have hne : h ≠ .empty := hr i _ hi
    unfold Store.mkNodeZ
    simp only [hne, if_false]
    exact getOrInsert_present hu hi

/-- interning denotes `mk`-normalisation of the tree; for a zero-suppressed tree the tree itself -/
theorem intern_denotes (s : Store) (a : ZDD) (ha : Reduced a) :
    DenotesZ (intern s a).1 (intern s a).2 a := by
  induction a generalizing s with
  | empty => exact .empty
  | base => exact .base
  | node l hi lo ihh ihl =>
    simp only [intern]
    have h1 := ihh s ha.2.1
    have h0 := ihl (intern s hi).1 ha.2.2
    have := mkNodeZ_denotes _ l _ _ _ _ (h1.mono (intern_le _ lo)) h0
    simpa [mk, ha.1] using this

theorem empty_unique : (⟨#[]⟩ : Store).Unique := by
  intro i j n hi; simp [Store.get?] at hi
theorem empty_nored : (⟨#[]⟩ : Store).NoRed := by
  intro i n hi; simp [Store.get?] at hi

end OxiddModel.Zbdd.Refine
