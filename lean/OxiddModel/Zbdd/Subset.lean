import OxiddModel.Zbdd.SetOps

/-! `subset0`, `subset1`, `change`, `singleton`, `make_node`: set semantics and normal form. -/
namespace OxiddModel.Zbdd
open ZDD

/-- `σ` with level `v` set to `b` -/
def upd (σ : Nat → Bool) (v : Nat) (b : Bool) : Nat → Bool := fun w => if w = v then b else σ w

/-- `σ` with level `v` flipped (the set `s Δ {v}`) -/
def flipAt (σ : Nat → Bool) (v : Nat) : Nat → Bool := fun w => if w = v then !σ v else σ w

@[simp] theorem upd_same (σ : Nat → Bool) (v : Nat) (b : Bool) : upd σ v b v = b := by simp [upd]
theorem upd_ne (σ : Nat → Bool) {v w : Nat} (b : Bool) (h : w ≠ v) : upd σ v b w = σ w := by simp [upd, h]
@[simp] theorem flipAt_same (σ : Nat → Bool) (v : Nat) : flipAt σ v v = !σ v := by simp [flipAt]
theorem flipAt_ne (σ : Nat → Bool) {v w : Nat} (h : w ≠ v) : flipAt σ v w = σ w := by simp [flipAt, h]

theorem allFalse_false_of_true {σ : Nat → Bool} {k l v : Nat} (h1 : k ≤ v) (h2 : v < l) (hσ : σ v = true) :
    allFalse σ k l = false := by
  rw [Bool.eq_false_iff]; intro hh
  rw [allFalse_iff] at hh
  have := hh v h1 h2; rw [hσ] at this; cases this

/-- a diagram below level `v`, read from `k ≤ v`, needs variable `v` to be 0 -/
theorem eval_below (σ : Nat → Bool) {n k v : Nat} {f : ZDD} (hf : Ordered n (v+1) f) (hk : k ≤ v) (hv : v < n) :
    eval n σ k f = (allFalse σ k v && !σ v && eval n σ (v+1) f) := by
  rw [eval_shift σ hf (by omega : k ≤ v+1) (by omega), allFalse_succ σ hk]

/-! ## ordered / reduced -/

theorem subset_ordered (op : SubsetOp) (vl : Nat) (f : ZDD) (n k : Nat) (hf : Ordered n k f)
    (hk : k ≤ vl) (hv : vl < n) : Ordered n k (subset op vl f) := by
  induction hf with
  | empty => cases op <;> simp only [subset, mk] <;> exact .empty
  | base =>
    cases op <;> simp only [subset, mk]
    · exact .base
    · exact .empty
    · simp; exact .node hk hv .base .empty
  | @node k l hi lo h1 h2 oh ol ihh ihl =>
    simp only [subset]
    split
    · exact mk_ordered h1 h2 (ihh (by omega)) (ihl (by omega))
    · split
      · cases op <;> simp only
        · exact ol.mono (by omega)
        · exact oh.mono (by omega)
        · exact mk_ordered h1 h2 ol oh
      · cases op <;> simp only
        · exact .node h1 h2 oh ol
        · exact .empty
        · exact mk_ordered hk hv (.node (by omega) h2 oh ol) .empty

theorem subset_reduced (op : SubsetOp) (vl : Nat) (f : ZDD) (hf : Reduced f) : Reduced (subset op vl f) := by
  induction f with
  | empty => cases op <;> simp only [subset, mk] <;> trivial
  | base =>
    cases op <;> simp only [subset, mk]
    · trivial
    · trivial
    · simp [Reduced]
  | node l hi lo ihh ihl =>
    simp only [subset]
    split
    · exact mk_reduced (ihh hf.2.1) (ihl hf.2.2)
    · split
      · cases op <;> simp only
        · exact hf.2.2
        · exact hf.2.1
        · exact mk_reduced hf.2.2 hf.2.1
      · cases op <;> simp only
        · exact hf
        · trivial
        · exact mk_reduced hf trivial

/-! ## semantics -/

/-- `subset0`: `{s ∈ F | v ∉ s}` -/
theorem subset0_eval (vl : Nat) (f : ZDD) (n k : Nat) (σ : Nat → Bool) (hf : Ordered n k f)
    (hk : k ≤ vl) (hv : vl < n) :
    eval n σ k (subset .subset0 vl f) = (!σ vl && eval n σ k f) := by
  induction hf with
  | empty => simp [subset, eval]
  | @base k =>
    simp only [subset, eval]
    cases hσ : σ vl
    · simp
    · simp [allFalse_false_of_true hk hv hσ]
  | @node k l hi lo h1 h2 oh ol ihh ihl =>
    simp only [subset]
    split
    · rename_i hlt
      rw [mk_eval σ _ _ h1 h2 (subset_ordered _ _ _ _ _ ol (by omega) hv), ihh (by omega), ihl (by omega)]
      simp only [eval]
      cases allFalse σ k l <;> cases σ l <;> simp
    · split
      · rename_i _ heq; subst heq
        rw [eval_below σ ol h1 h2]
        simp only [eval]
        cases allFalse σ k l <;> cases σ l <;> simp
      · cases hσ : σ vl
        · simp
        · simp only [eval]
          simp [allFalse_false_of_true (σ := σ) (k := k) (l := l) hk (by omega) hσ]

/-- `subset1`: `{s ∖ {v} | s ∈ F, v ∈ s}` -/
theorem subset1_eval (vl : Nat) (f : ZDD) (n k : Nat) (σ : Nat → Bool) (hf : Ordered n k f)
    (hk : k ≤ vl) (hv : vl < n) :
    eval n σ k (subset .subset1 vl f) = (!σ vl && eval n (upd σ vl true) k f) := by
  induction hf with
  | empty => simp [subset, eval]
  | @base k =>
    simp only [subset, eval]
    simp [allFalse_false_of_true (σ := upd σ vl true) hk hv (upd_same _ _ _)]
  | @node k l hi lo h1 h2 oh ol ihh ihl =>
    simp only [subset]
    split
    · rename_i hlt
      rw [mk_eval σ _ _ h1 h2 (subset_ordered _ _ _ _ _ ol (by omega) hv), ihh (by omega), ihl (by omega)]
      simp only [eval]
      rw [allFalse_congr (σ := upd σ vl true) (τ := σ) (fun w _ hw => upd_ne σ true (by omega)),
        upd_ne σ true (by omega : l ≠ vl)]
      cases allFalse σ k l <;> cases σ l <;> simp
    · split
      · rename_i _ heq; subst heq
        rw [eval_below σ oh h1 h2]
        simp only [eval, upd_same, if_true]
        rw [allFalse_congr (σ := upd σ l true) (τ := σ) (fun w _ hw => upd_ne σ true (by omega)),
          eval_indep oh (upd σ l true) σ (fun w hw => upd_ne σ true (by omega))]
        cases allFalse σ k l <;> cases σ l <;> simp
      · simp only [eval]
        simp [allFalse_false_of_true (σ := upd σ vl true) (k := k) (l := l) hk (by omega) (upd_same _ _ _)]

/-- `change`: `{s Δ {v} | s ∈ F}` -/
theorem change_eval (vl : Nat) (f : ZDD) (n k : Nat) (σ : Nat → Bool) (hf : Ordered n k f)
    (hk : k ≤ vl) (hv : vl < n) :
    eval n σ k (subset .change vl f) = eval n (flipAt σ vl) k f := by
  -- the case of a diagram that lies completely below `vl`
  have below : ∀ (g : ZDD) (k : Nat), k ≤ vl → Ordered n (vl+1) g →
      eval n σ k (mk vl g .empty) = eval n (flipAt σ vl) k g := by
    intro g k hk og
    rw [mk_eval σ _ _ hk hv .empty, eval_below (flipAt σ vl) og hk hv]
    rw [allFalse_congr (σ := flipAt σ vl) (τ := σ) (fun w _ hw => flipAt_ne σ (by omega)),
      eval_indep og (flipAt σ vl) σ (fun w hw => flipAt_ne σ (by omega))]
    simp only [eval, flipAt_same]
    cases allFalse σ k vl <;> cases σ vl <;> simp
  induction hf with
  | @empty k => simpa [subset] using below .empty k hk .empty
  | @base k => simpa [subset] using below .base k hk .base
  | @node k l hi lo h1 h2 oh ol ihh ihl =>
    simp only [subset]
    split
    · rename_i hlt
      rw [mk_eval σ _ _ h1 h2 (subset_ordered _ _ _ _ _ ol (by omega) hv), ihh (by omega), ihl (by omega)]
      simp only [eval]
      rw [allFalse_congr (σ := flipAt σ vl) (τ := σ) (fun w _ hw => flipAt_ne σ (by omega)),
        flipAt_ne σ (by omega : l ≠ vl)]
    · split
      · rename_i _ heq; subst heq
        rw [mk_eval σ _ _ h1 h2 oh]
        simp only [eval, flipAt_same]
        rw [allFalse_congr (σ := flipAt σ l) (τ := σ) (fun w _ hw => flipAt_ne σ (by omega)),
          eval_indep oh (flipAt σ l) σ (fun w hw => flipAt_ne σ (by omega)),
          eval_indep ol (flipAt σ l) σ (fun w hw => flipAt_ne σ (by omega))]
        cases allFalse σ k l <;> cases σ l <;> simp
      · exact below _ k hk (.node (by omega) h2 oh ol)

/-! ## `singleton`, `make_node` -/

theorem singleton_nf (n l : Nat) (h : l < n) : NF n 0 (singleton l) :=
  ⟨.node (Nat.zero_le _) h .base .empty, by simp [singleton, Reduced]⟩

/-- `singleton v` is the family `{{v}}` -/
theorem singleton_eval (n l : Nat) (σ : Nat → Bool) :
    eval n σ 0 (singleton l) = (allFalse σ 0 l && σ l && allFalse σ (l+1) n) := by
  simp only [singleton, eval]
  cases allFalse σ 0 l <;> cases σ l <;> simp

/-- `make_node(var, hi, lo)` is `lo ∪ {x ∪ {var} | x ∈ hi}` whenever `hi` and `lo` lie below the level of `var` -/
theorem makeNode_eval (n k vl : Nat) (hi lo : ZDD) (σ : Nat → Bool) (hk : k ≤ vl) (hv : vl < n)
    (hhi : Ordered n (vl+1) hi) (hlo : Ordered n (vl+1) lo) :
    eval n σ k (makeNode vl hi lo) = (eval n σ k lo || (σ vl && eval n (upd σ vl false) k hi)) := by
  unfold makeNode
  rw [mk_eval σ _ _ hk hv hlo, eval_below σ hlo hk hv, eval_below (upd σ vl false) hhi hk hv]
  rw [allFalse_congr (σ := upd σ vl false) (τ := σ) (fun w _ hw => upd_ne σ false (by omega)),
    eval_indep hhi (upd σ vl false) σ (fun w hw => upd_ne σ false (by omega))]
  simp only [upd_same]
  cases allFalse σ k vl <;> cases σ vl <;> simp

theorem makeNode_nf (n k vl : Nat) (hi lo : ZDD) (hk : k ≤ vl) (hv : vl < n)
    (hhi : NF n (vl+1) hi) (hlo : NF n (vl+1) lo) : NF n k (makeNode vl hi lo) :=
  mk_nf hk hv hhi hlo

end OxiddModel.Zbdd
