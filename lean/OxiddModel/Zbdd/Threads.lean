import OxiddModel.Zbdd.SetOpsS

/-!
# An interleaving machine for the ZBDD set operations `apply_union/intsec/diff/symm_diff`

Counterpart of `Bdd/Threads.lean` / `Bcdd/Threads.lean` for
`crates/oxidd-rules-zbdd/src/apply_rec.rs` (`apply_union`, `apply_intsec`, `apply_diff`,
`apply_symm_diff` with the `ParallelRecursor` / `SequentialRecursor` of
`crates/oxidd-rules-zbdd/src/recursor.rs`) on the ZBDD store model `Store` of
`Zbdd/StoreRefine.lean` (reduction rule "`hi` is the terminal `Empty` ⇒ `lo`") and the state `St`
(unique table + apply cache + time stamp) of `Zbdd/SetOpsS.lean`.

Which operations fork in the code: all four set operators call `rec.binary(apply_<op>, ..)` in the
`Ordering::Equal` arm (both operands at the same level) and recurse *on one side only*, with the
**same** recursor (same remaining depth), in the `Less`/`Greater` arms. (`apply_ite`, `subset`,
`restrict` also take a `Recursor`; they are not in this machine.)

## control state of a running operation: `Task`

* `call d c` — at the entry of the recursive call `c = (op, f, g)` with remaining split depth `d`
  (`0` = `SequentialRecursor` / `should_switch_to_sequential`);
* `miss d c` — the cache query missed; `c` holds the operands *after* the swap `if f > g` of the
  commutative operators, i.e. the pair the key `(op, [f, g], [])` is built from;
* `one key keep t0` — one-sided recursion (`Less`/`Greater`): the `lo` call `t0` is running;
  `keep = some (level, hi)` if a node `⟨level, hi, result⟩` is to be built (`reduce_borrowed`),
  `none` if the result of the call is the result (`apply_intsec`, `apply_diff` in `Greater`);
* `seq1 fr c0 t1` — sequential recursor: `hi` call `t1` running, `lo` call `c0` pending;
* `seq0 fr r1 t0` — `hi` result `r1` held (`EdgeDropGuard`), `lo` call `t0` running;
* `par fr t1 t0` — parallel recursor (`join`): both calls running;
* `made key r` — result known (after `reduce`), before `apply_cache().add`;
* `ret r` — finished with result edge `r`.

One step of a task performs exactly one atomic action `Act` on the shared state, or a
thread-local transition:

* `Act.cacheGet` — the cache query, under the bucket lock;
* `Act.mk l hi lo` — `reduce` / `reduce_borrowed`: the zero-suppression rule
  `if hi is Empty {return lo}`, then `get_or_insert` under the level's mutex (`Store.mkNodeZ`);
* `Act.cacheAdd key r` — `apply_cache().add`, under the bucket lock.

Reading level and children of operand nodes (`Store.cmpLevels`) is local: stored nodes are
immutable. The program text is that of `setOpS`/`setBody` (`SetOpsS.lean`).

**Assumptions of the model (not proved here):** the three actions are atomic; sequentially
consistent memory; no collection and no reordering runs while an operation is in progress (the
manager's shared lock; C07 lock model), so no node is freed.
-/
namespace OxiddModel.Zbdd.Threads
open OxiddModel.Zbdd OxiddModel.Zbdd.ZDD OxiddModel.Zbdd.Refine
open OxiddModel.Bdd.Refine (Policy OpTag Key Cache)

/-- a (recursive) call of `apply_<op>` -/
structure Call where
  op : SetOp
  f : ZEdge
  g : ZEdge
deriving DecidableEq, Repr

/-- the cache key of a call: `(op, [f, g], [])` -/
def Call.key (c : Call) : ZKey := ⟨setTag c.op, [c.f, c.g], []⟩

/-- what a frame keeps across its recursive calls: the cache key and the level of the new node -/
structure Frame where
  key : ZKey
  lvl : Nat
deriving DecidableEq, Repr

inductive Task where
  | call (d : Nat) (c : Call)
  | miss (d : Nat) (c : Call)
  | one (key : ZKey) (keep : Option (Nat × ZEdge)) (t0 : Task)
  | seq1 (fr : Frame) (c0 : Call) (t1 : Task)
  | seq0 (fr : Frame) (r1 : ZEdge) (t0 : Task)
  | par (fr : Frame) (t1 t0 : Task)
  | made (key : ZKey) (r : ZEdge)
  | ret (r : ZEdge)
deriving DecidableEq, Repr

def Task.ret? : Task → Option ZEdge
  | .ret r => some r
  | _ => none

/-- the atomic actions on the shared state -/
inductive Act where
  | cacheGet
  | mk (l : Nat) (hi lo : ZEdge)
  | cacheAdd (key : ZKey) (r : ZEdge)
deriving DecidableEq, Repr

/-- effect of an action on the shared state; compare `setBody`/`mkS`/`addZ` -/
def Act.run (p : Policy) : Act → St → St
  | .cacheGet, st => st.tickd
  | .mk l hi lo, st => (mkS st l hi lo).1
  | .cacheAdd key r, st => (addZ p st key r).1

def runOpt (p : Policy) : Option Act → St → St
  | some a, st => a.run p st
  | none, st => st

abbrev Out := Option Act × Task

/-- the operand swap of the commutative operators: `let (f, g) = if f > g {(g, f)} else {(f, g)}` -/
def Call.norm (c : Call) : Call :=
  if c.op.comm && c.f.gt c.g then ⟨c.op, c.g, c.f⟩ else c

/-- entry of a call: terminal cases (thread-local: they compare edges), operand swap, cache query
on the swapped pair -/
def Call.entry (p : Policy) (st : St) (d : Nat) (c : Call) : Out :=
  match terminalS c.op c.f c.g with
  | some r => (none, .ret r)
  | none =>
    match p.get st.tick st.cache (encKey c.norm.key) with
    | some h => (some .cacheGet, .ret (decE h))
    | none => (some .cacheGet, .miss d c.norm)

/-- `Recursor::binary`: the sequential recursor (`d = 0`) runs the `hi` call first, the parallel
recursor forks both calls with `remaining_depth - 1` -/
def fork (d : Nat) (fr : Frame) (c1 c0 : Call) : Task :=
  match d with
  | 0 => .seq1 fr c0 (.call 0 c1)
  | d + 1 => .par fr (.call d c1) (.call d c0)

/-- after a miss: `flevel.cmp(&glevel)` (a terminal has level `MAX`), read the children, start the
recursive call(s); the one-sided arms pass the recursor on unchanged -/
def Call.expand (s : Store) (d : Nat) (c : Call) : Task :=
  match s.cmpLevels c.f c.g with
  | .lt nf =>
    .one c.key (if c.op.keepLt then some (nf.level, nf.hi) else none) (.call d ⟨c.op, nf.lo, c.g⟩)
  | .eq nf ng => fork d ⟨c.key, nf.level⟩ ⟨c.op, nf.hi, ng.hi⟩ ⟨c.op, nf.lo, ng.lo⟩
  | .gt ng =>
    .one c.key (if c.op.keepGt then some (ng.level, ng.hi) else none) (.call d ⟨c.op, c.f, ng.lo⟩)
  | .none => .ret c.f

/-- `reduce` as one atomic action; the task remembers the edge it got back -/
def reduceOut (st : St) (key : ZKey) (l : Nat) (hi lo : ZEdge) : Out :=
  (some (.mk l hi lo), .made key (st.store.mkNodeZ l hi lo).2)

def pickLeft (path : List Bool) (t1 t0 : Task) : Bool :=
  match t1.ret?, t0.ret? with
  | some _, _ => false
  | none, some _ => true
  | none, none => path.headD true

/-- **one step of a task** in shared state `st`. A finished task stutters. -/
def Task.step (p : Policy) (st : St) : Task → List Bool → Out
  | .ret r, _ => (none, .ret r)
  | .call d c, _ => c.entry p st d
  | .miss d c, _ => (none, c.expand st.store d)
  | .one key keep t0, path =>
    match t0.ret? with
    | some r0 =>
      match keep with
      | some (l, hi) => reduceOut st key l hi r0
      | none => (none, .made key r0)
    | none => let o := t0.step p st path; (o.1, .one key keep o.2)
  | .seq1 fr c0 t1, path =>
    match t1.ret? with
    | some r1 => (none, .seq0 fr r1 (.call 0 c0))
    | none => let o := t1.step p st path; (o.1, .seq1 fr c0 o.2)
  | .seq0 fr r1 t0, path =>
    match t0.ret? with
    | some r0 => reduceOut st fr.key fr.lvl r1 r0
    | none => let o := t0.step p st path; (o.1, .seq0 fr r1 o.2)
  | .par fr t1 t0, path =>
    match t1.ret?, t0.ret? with
    | some r1, some r0 => reduceOut st fr.key fr.lvl r1 r0
    | _, _ =>
      if pickLeft path t1 t0 then
        let o := t1.step p st path.tail; (o.1, .par fr o.2 t0)
      else
        let o := t0.step p st path.tail; (o.1, .par fr t1 o.2)
  | .made key r, _ => (some (.cacheAdd key r), .ret r)

/-! ## the machine -/

structure Cfg where
  st : St
  tasks : List Task

structure Sel where
  tid : Nat
  path : List Bool
deriving DecidableEq, Repr

def Cfg.enabled (c : Cfg) (s : Sel) : Bool :=
  match c.tasks[s.tid]? with
  | some t => t.ret?.isNone
  | none => false

/-- **one step of the machine**; a selection that is not enabled does nothing -/
def Cfg.step (p : Policy) (c : Cfg) (s : Sel) : Cfg :=
  match c.tasks[s.tid]? with
  | none => c
  | some t =>
    match t.ret? with
    | some _ => c
    | none =>
      let o := t.step p c.st s.path
      ⟨runOpt p o.1 c.st, c.tasks.set s.tid o.2⟩

def Cfg.run (p : Policy) (c : Cfg) : List Sel → Cfg
  | [] => c
  | s :: ss => (c.step p s).run p ss

def Cfg.allDone (c : Cfg) : Bool := c.tasks.all (fun t => t.ret?.isSome)

def Cfg.allEnabled (p : Policy) (c : Cfg) : List Sel → Bool
  | [] => true
  | s :: ss => c.enabled s && (c.step p s).allEnabled p ss

/-- the `made` frames of a task: the cache entries it is about to insert -/
def Task.mades : Task → List (ZKey × ZEdge)
  | .call _ _ => []
  | .miss _ _ => []
  | .one _ _ t0 => t0.mades
  | .seq1 _ _ t1 => t1.mades
  | .seq0 _ _ t0 => t0.mades
  | .par _ t1 t0 => t1.mades ++ t0.mades
  | .made key r => [(key, r)]
  | .ret _ => []

/-- number of `par` frames (forks in progress) -/
def Task.forks : Task → Nat
  | .one _ _ t0 => t0.forks
  | .seq1 _ _ t1 => t1.forks
  | .seq0 _ _ t0 => t0.forks
  | .par _ t1 t0 => 1 + t1.forks + t0.forks
  | _ => 0

end OxiddModel.Zbdd.Threads
