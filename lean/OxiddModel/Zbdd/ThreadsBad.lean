import OxiddModel.Zbdd.PropertiesC07T

/-!
# Why the ZBDD machine's atomicity assumption is needed (negative witness)

`split_reduce_breaks_unique` — `reduce`'s `get_or_insert` must be **one** atomic action (the level
mutex): if the lookup and the insertion were separate actions, two tasks computing the same
sub-problem (in the example: operations 0 and 1 of `PropertiesC07T.exJobs`, both about to build the
node `⟨1, #5, #5⟩` of `F ∪ G`) could both miss and both insert; the store then holds the same node
twice, `Unique` (hash consing) is lost and with it "edge equality = equality of the families of
sets". The same store with two *atomic* `get_or_insert`s stays hash-consed and both tasks get the
same slot.
-/
namespace OxiddModel.Zbdd.Threads
open OxiddModel.Zbdd OxiddModel.Zbdd.ZDD OxiddModel.Zbdd.Refine

/-- the node `⟨1, #5, #5⟩` that two tasks are about to create in `exStore` -/
def exNew : ZNode := ⟨1, .inner 5, .inner 5⟩

/-- **`get_or_insert` must be atomic.** Both tasks looked the node up (miss), then both insert. -/
theorem split_reduce_breaks_unique :
    exStore.Unique ∧ exStore.NoRed ∧ exStore.find? exNew = none ∧
    ¬ ((exStore.alloc exNew).1.alloc exNew).1.Unique ∧
    -- whereas two *atomic* `reduce`s keep hash consing and return the same slot
    ((exStore.mkNodeZ 1 (.inner 5) (.inner 5)).1.mkNodeZ 1 (.inner 5) (.inner 5)).1.Unique ∧
    ((exStore.mkNodeZ 1 (.inner 5) (.inner 5)).1.mkNodeZ 1 (.inner 5) (.inner 5)).2 =
      (exStore.mkNodeZ 1 (.inner 5) (.inner 5)).2 := by
  refine ⟨exStore_unique, exStore_nored, by decide +kernel, ?_, ?_, by decide +kernel⟩
  · intro h
    have := h 8 9 exNew (by decide +kernel) (by decide +kernel)
    omega
  · exact mkNodeZ_unique _ _ _ _ (mkNodeZ_unique _ _ _ _ exStore_unique)

end OxiddModel.Zbdd.Threads
