import OxiddModel.Zbdd.PropertiesC07R

/-!
# Negative witnesses for the counter operations of the ZBDD machine

* `no_free_ownership` — every owned edge has to be paid for by a `retain`: from exact counters, a
  task that starts owning an edge to a stored node *without* a counter increment (a cache hit or a
  terminal case that returns the borrowed operand instead of `clone_edge`; a `reduce_borrowed`
  that forgets to clone `hi`) makes the counters inexact, for every state and every edge.
* `double_release_breaks` — dually, releasing an edge that is not owned breaks exactness.
-/
namespace OxiddModel.Zbdd.Threads
open OxiddModel.Zbdd OxiddModel.Zbdd.ZDD OxiddModel.Zbdd.Refine OxiddModel.Zbdd.Rc

theorem no_free_ownership {r : RSt} {ext : List ZEdge} (h : RcInv r ext) (k : Nat)
    (n : ZNode) (hk : r.st.store.get? k = some n) : ¬ RcInv r (.inner k :: ext) := by
  intro h'
  have e1 := h.rc_eq k n hk
  have e2 := h'.rc_eq k n hk
  rw [List.count_cons_self] at e2
  omega

theorem double_release_breaks {r : RSt} {ext : List ZEdge} (h : RcInv r ext) (k : Nat)
    (n : ZNode) (hk : r.st.store.get? k = some n) : ¬ RcInv (dropEdge r (.inner k)) ext := by
  intro h'
  have e1 := h.rc_eq k n hk
  have hk' : (dropEdge r (.inner k)).st.store.get? k = some n := by rw [dropEdge_st]; exact hk
  have e2 := h'.rc_eq k n hk'
  rw [dropEdge_st] at e2
  have e3 : rcGet (dropEdge r (.inner k)).rc k = rcGet r.rc k - 1 := by
    simp only [dropEdge]
    rw [rcGet_rcSet]; simp
  omega

example := no_free_ownership exR_rc 3 _ (by decide +kernel :
  exR.st.store.get? 3 = some ⟨0, .inner 1, .inner 2⟩)
example := double_release_breaks exR_rc 3 _ (by decide +kernel :
  exR.st.store.get? 3 = some ⟨0, .inner 1, .inner 2⟩)

end OxiddModel.Zbdd.Threads
