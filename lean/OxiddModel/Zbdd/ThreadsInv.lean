import OxiddModel.Zbdd.Threads

/-!
# The invariant of the ZBDD interleaving machine and its preservation by every step

`TaskOK env s t T n`: in store `s` the task `t` is *computing the tree `T`* (a `ZDD`) and needs at
most `n` more steps of its own. Monotone in the store (`TaskOK.mono`), so steps of other tasks —
which only extend the store — do not disturb it; `Task.step_ok`: a step of the task itself keeps
the shared-state invariant (`Inv env` = hash consing + sound cache; and `NoRed` = no stored node
with `hi = Empty`), extends the store, keeps `TaskOK` for the same `T`, decreases the bound.
-/
namespace OxiddModel.Zbdd.Threads
open OxiddModel.Zbdd OxiddModel.Zbdd.ZDD OxiddModel.Zbdd.Refine
open OxiddModel.Bdd.Refine (Policy OpTag Key Cache)

/-- bound on the number of own steps of a call whose operand trees have total size `≤ k` -/
def W : Nat → Nat
  | 0 => 1
  | k + 1 => 2 * W k + 8

theorem W_pos (k : Nat) : 1 ≤ W k := by
  cases k <;> simp only [W] <;> omega

theorem W_mono {k k' : Nat} (h : k ≤ k') : W k ≤ W k' := by
  induction h with
  | refl => exact Nat.le_refl _
  | step _ ih => simp only [W]; omega

theorem keyMeans_mono {env : Env} {s s' : Store} (hle : s.Le s') {key : ZKey} {T : ZDD}
    (h : KeyMeans env s key T) : KeyMeans env s' key T := by
  obtain ⟨ts, h1, h2, h3⟩ := h
  exact ⟨ts, h1.mono hle, h2, h3⟩

theorem keyMeans_call (env : Env) {s : Store} {op : SetOp} {f g : ZEdge} {a b : ZDD}
    (hf : DenotesZ s f a) (hg : DenotesZ s g b) :
    KeyMeans env s (Call.key ⟨op, f, g⟩) (setOp op a b) :=
  ⟨_, DenotesLZ.two hf hg, specZ_setTag env op a b, fun h => by cases op <;> cases h⟩

/-- the call computes `T`; its operand trees have total size `≤ k` -/
def CallSpec (s : Store) (c : Call) (T : ZDD) (k : Nat) : Prop :=
  ∃ a b, DenotesZ s c.f a ∧ DenotesZ s c.g b ∧ T = setOp c.op a b ∧ a.size + b.size ≤ k

theorem CallSpec.mono {s s' : Store} (hle : s.Le s') {c : Call} {T : ZDD} {k : Nat}
    (h : CallSpec s c T k) : CallSpec s' c T k := by
  obtain ⟨a, b, h1, h2, h3, h4⟩ := h
  exact ⟨a, b, h1.mono hle, h2.mono hle, h3, h4⟩

/-- after the miss: no terminal case applies; the operands are the (swapped) pair of the key -/
def MissSpec (s : Store) (c : Call) (T : ZDD) (k : Nat) : Prop :=
  ∃ a b, DenotesZ s c.f a ∧ DenotesZ s c.g b ∧ terminalT c.op a b = none ∧ T = setOp c.op a b ∧
    a.size + b.size ≤ k + 1

theorem MissSpec.mono {s s' : Store} (hle : s.Le s') {c : Call} {T : ZDD} {k : Nat}
    (h : MissSpec s c T k) : MissSpec s' c T k := by
  obtain ⟨a, b, h1, h2, h3, h4, h5⟩ := h
  exact ⟨a, b, h1.mono hle, h2.mono hle, h3, h4, h5⟩

inductive TaskOK (env : Env) (s : Store) : Task → ZDD → Nat → Prop
  | ret {r T n} : DenotesZ s r T → TaskOK env s (.ret r) T n
  | call {d c T k n} : CallSpec s c T k → W k ≤ n → TaskOK env s (.call d c) T n
  | miss {d c T k n} : MissSpec s c T k → 2 * W k + 7 ≤ n → TaskOK env s (.miss d c) T n
  | oneK {key l hi t0 T Thi T0 n0 n} : T = mk l Thi T0 → KeyMeans env s key T → DenotesZ s hi Thi →
      TaskOK env s t0 T0 n0 → n0 + 3 ≤ n → TaskOK env s (.one key (some (l, hi)) t0) T n
  | oneN {key t0 T n0 n} : KeyMeans env s key T → TaskOK env s t0 T n0 → n0 + 3 ≤ n →
      TaskOK env s (.one key none t0) T n
  | seq1 {fr c0 t1 T T1 T0 k0 n1 n} : T = mk fr.lvl T1 T0 → KeyMeans env s fr.key T →
      CallSpec s c0 T0 k0 → TaskOK env s t1 T1 n1 → n1 + W k0 + 4 ≤ n →
      TaskOK env s (.seq1 fr c0 t1) T n
  | seq0 {fr r1 t0 T T1 T0 n0 n} : T = mk fr.lvl T1 T0 → KeyMeans env s fr.key T →
      DenotesZ s r1 T1 → TaskOK env s t0 T0 n0 → n0 + 3 ≤ n → TaskOK env s (.seq0 fr r1 t0) T n
  | par {fr t1 t0 T T1 T0 n1 n0 n} : T = mk fr.lvl T1 T0 → KeyMeans env s fr.key T →
      TaskOK env s t1 T1 n1 → TaskOK env s t0 T0 n0 → n1 + n0 + 3 ≤ n →
      TaskOK env s (.par fr t1 t0) T n
  | made {key r T n} : KeyMeans env s key T → DenotesZ s r T → 1 ≤ n →
      TaskOK env s (.made key r) T n

theorem TaskOK.mono {env : Env} {s s' : Store} (hle : s.Le s') {t : Task} {T : ZDD} {n : Nat}
    (h : TaskOK env s t T n) : TaskOK env s' t T n := by
  induction h with
  | ret h => exact .ret (h.mono hle)
  | call h hn => exact .call (h.mono hle) hn
  | miss h hn => exact .miss (h.mono hle) hn
  | oneK hT hk hhi _ hn ih => exact .oneK hT (keyMeans_mono hle hk) (hhi.mono hle) ih hn
  | oneN hk _ hn ih => exact .oneN (keyMeans_mono hle hk) ih hn
  | seq1 hT hk hc _ hn ih => exact .seq1 hT (keyMeans_mono hle hk) (hc.mono hle) ih hn
  | seq0 hT hk hr _ hn ih => exact .seq0 hT (keyMeans_mono hle hk) (hr.mono hle) ih hn
  | par hT hk _ _ hn ih1 ih0 => exact .par hT (keyMeans_mono hle hk) ih1 ih0 hn
  | made hk hr hn => exact .made (keyMeans_mono hle hk) (hr.mono hle) hn

theorem TaskOK.weaken {env : Env} {s : Store} {t : Task} {T : ZDD} {n n' : Nat}
    (h : TaskOK env s t T n) (hn : n ≤ n') : TaskOK env s t T n' := by
  cases h with
  | ret h => exact .ret h
  | call h h' => exact .call h (by omega)
  | miss h h' => exact .miss h (by omega)
  | oneK hT hk hhi h0 h' => exact .oneK hT hk hhi h0 (by omega)
  | oneN hk h0 h' => exact .oneN hk h0 (by omega)
  | seq1 hT hk hc h1 h' => exact .seq1 hT hk hc h1 (by omega)
  | seq0 hT hk hr h0 h' => exact .seq0 hT hk hr h0 (by omega)
  | par hT hk h1 h0 h' => exact .par hT hk h1 h0 (by omega)
  | made hk hr h' => exact .made hk hr (by omega)

/-- a finished task holds the edge of its tree -/
theorem TaskOK.ret_den {env : Env} {s : Store} {t : Task} {T : ZDD} {n : Nat} {r : ZEdge}
    (h : TaskOK env s t T n) (hr : t.ret? = some r) : DenotesZ s r T := by
  cases h <;> simp only [Task.ret?] at hr <;> (try cases hr)
  assumption

/-! ## the actions keep the shared-state invariant -/

structure StOK (env : Env) (st st' : St) : Prop where
  inv : Inv env st'
  le : st.store.Le st'.store
  nored : st.store.NoRed → st'.store.NoRed

theorem StOK.refl {env : Env} {st : St} (h : Inv env st) : StOK env st st :=
  ⟨h, Store.Le.refl _, id⟩

theorem StOK.tickd {env : Env} {st : St} (h : Inv env st) : StOK env st st.tickd :=
  ⟨h.tickd, Store.Le.refl _, id⟩

theorem StOK.mkNode {env : Env} {st : St} (h : Inv env st) (l : Nat) (hi lo : ZEdge) (p : Policy) :
    StOK env st ((Act.mk l hi lo).run p st) :=
  ⟨⟨mkNodeZ_unique _ _ _ _ h.1, h.2.mono (mkNodeZ_le _ _ _ _)⟩, mkNodeZ_le _ _ _ _,
    fun hr => mkNodeZ_nored _ _ _ _ hr⟩

theorem StOK.add {p : Policy} (pok : p.OK) {env : Env} {st : St} (h : Inv env st) {key : ZKey}
    {r : ZEdge} {T : ZDD} (hk : KeyMeans env st.store key T) (hr : DenotesZ st.store r T) :
    StOK env st ((Act.cacheAdd key r).run p st) := by
  refine ⟨⟨h.1, ?_⟩, Store.Le.refl _, id⟩
  obtain ⟨ts, hd, hs, hnf⟩ := hk
  exact CacheOK.add pok h.2 ⟨key, ts, T, rfl, hd, hs, by rw [decE_encE]; exact hr, hnf⟩ _

/-! ## entry and expansion of a call -/

/-- the result of a step: new shared state fine, task still computing `T`, bound decreased -/
def StepOK (env : Env) (p : Policy) (st : St) (o : Out) (T : ZDD) (n : Nat) : Prop :=
  StOK env st (runOpt p o.1 st) ∧ ∃ n', n' < n ∧ TaskOK env (runOpt p o.1 st).store o.2 T n'

theorem entry_ok {p : Policy} (pok : p.OK) {env : Env} {st : St} (hinv : Inv env st) {c : Call}
    {T : ZDD} {k n : Nat} (d : Nat) (hc : CallSpec st.store c T k) (hn : W k ≤ n) :
    StepOK env p st (c.entry p st d) T n := by
  obtain ⟨op, f, g⟩ := c
  obtain ⟨a, b, hf, hg, hT, hsz⟩ := hc
  simp only at hf hg hT
  subst hT
  have hcorr := terminalS_corr op hinv.1 hf hg
  have hW := W_pos k
  simp only [Call.entry]
  cases hS : terminalS op f g with
  | some e =>
    cases hT : terminalT op a b with
    | some t =>
      rw [hS, hT] at hcorr
      rw [setOp_terminal hT]
      exact ⟨StOK.refl hinv, 0, by omega, .ret hcorr⟩
    | none => rw [hS, hT] at hcorr; exact hcorr.elim
  | none =>
    cases hT : terminalT op a b with
    | some t => rw [hS, hT] at hcorr; exact hcorr.elim
    | none =>
      have hk : ∃ f' g' a' b', Call.norm ⟨op, f, g⟩ = ⟨op, f', g'⟩ ∧ DenotesZ st.store f' a' ∧
          DenotesZ st.store g' b' ∧ setOp op a b = setOp op a' b' ∧
          terminalT op a' b' = none ∧ a'.size + b'.size ≤ k := by
        unfold Call.norm
        split
        · rename_i hsw
          have hcm : op.comm = true := by
            simp only [Bool.and_eq_true] at hsw; exact hsw.1
          obtain ⟨h1, h2, h3⟩ := terminalT_none hT
          exact ⟨g, f, b, a, rfl, hg, hf, (setOp_comm' op hcm a b).symm,
            terminalT_none_of (Ne.symm h1) h3 h2, by omega⟩
        · exact ⟨f, g, a, b, rfl, hf, hg, rfl, hT, hsz⟩
      obtain ⟨f', g', a', b', hc', hk1, hk2, hab, hT', hsz'⟩ := hk
      rw [hc', hab]
      simp only
      split
      · rename_i r hr
        have hent := hinv.2 _ _ (pok.get_mem _ _ _ _ hr)
        refine ⟨StOK.tickd hinv, 0, by omega, .ret ?_⟩
        exact EntryOK.hit (zk := Call.key ⟨op, f', g'⟩) hent (DenotesLZ.two hk1 hk2)
          (specZ_setTag env op a' b')
      · refine ⟨StOK.tickd hinv, ?_⟩
        have hpa := size_pos a'
        have hpb := size_pos b'
        cases k with
        | zero => omega
        | succ k' =>
          refine ⟨2 * W k' + 7, by simp only [W] at hn; omega, ?_⟩
          exact .miss ⟨a', b', hk1, hk2, hT', rfl, by omega⟩ (Nat.le_refl _)

theorem fork_ok {env : Env} {s : Store} {d : Nat} {fr : Frame} {c1 c0 : Call} {T T1 T0 : ZDD}
    {k : Nat} (hT : T = mk fr.lvl T1 T0) (hk : KeyMeans env s fr.key T) (h1 : CallSpec s c1 T1 k)
    (h0 : CallSpec s c0 T0 k) : TaskOK env s (fork d fr c1 c0) T (2 * W k + 4) := by
  cases d with
  | zero => exact .seq1 hT hk h0 (.call h1 (Nat.le_refl _)) (by omega)
  | succ d => exact .par hT hk (.call h1 (Nat.le_refl _)) (.call h0 (Nat.le_refl _)) (by omega)

/-- the one-sided arms (`Less` / `Greater`) -/
theorem one_ok {env : Env} {s : Store} {op : SetOp} {key : ZKey} (keepB : Bool) {l : Nat}
    {hi : ZEdge} {Thi : ZDD} {x y : ZEdge} {X Y T : ZDD} {k : Nat} (d : Nat)
    (hT : T = if keepB then mk l Thi (setOp op X Y) else setOp op X Y)
    (hk : KeyMeans env s key T) (hhi : DenotesZ s hi Thi) (hx : DenotesZ s x X)
    (hy : DenotesZ s y Y) (hsz : X.size + Y.size ≤ k) :
    TaskOK env s (.one key (if keepB then some (l, hi) else none) (.call d ⟨op, x, y⟩)) T
      (2 * W k + 4) := by
  have hW := W_pos k
  have hcall : TaskOK env s (.call d ⟨op, x, y⟩) (setOp op X Y) (W k) :=
    .call ⟨X, Y, hx, hy, rfl, hsz⟩ (Nat.le_refl _)
  cases keepB with
  | true =>
    simp only [if_true] at hT ⊢
    exact .oneK hT hk hhi hcall (by omega)
  | false =>
    simp only [Bool.false_eq_true, if_false] at hT ⊢
    subst hT
    exact .oneN hk hcall (by omega)

theorem expand_ok {env : Env} {s : Store} {c : Call} {T : ZDD} {k : Nat} (d : Nat)
    (hm : MissSpec s c T k) : TaskOK env s (c.expand s d) T (2 * W k + 4) := by
  obtain ⟨op, f, g⟩ := c
  obtain ⟨a, b, hf, hg, hnt, hT, hsz⟩ := hm
  simp only at hf hg hnt hT
  subst hT
  obtain ⟨hab, ha, hb⟩ := terminalT_none hnt
  have hkd := keyMeans_call env (op := op) hf hg
  cases hf with
  | empty => exact absurd rfl ha
  | base =>
    cases hg with
    | empty => exact absurd rfl hb
    | base => exact absurd rfl hab
    | @inner j gl gh glo' ghi glo hj hgh hgl =>
      simp only [Call.expand, Store.cmpLevels, Store.node?, hj]
      simp only [ZDD.size] at hsz
      exact one_ok op.keepGt d (setOp_bn op gl ghi glo) hkd hgh .base hgl
        (by simp only [ZDD.size]; omega)
  | @inner i fl fh flo' fhi flo hi hfh hfl =>
    cases hg with
    | empty => exact absurd rfl hb
    | base =>
      simp only [Call.expand, Store.cmpLevels, Store.node?, hi]
      simp only [ZDD.size] at hsz
      exact one_ok op.keepLt d (setOp_nb op fl fhi flo) hkd hfh hfl .base
        (by simp only [ZDD.size]; omega)
    | @inner j gl gh glo' ghi glo hj hgh hgl =>
      have hdg : DenotesZ s (.inner j) (.node gl ghi glo) := .inner hj hgh hgl
      have hdf : DenotesZ s (.inner i) (.node fl fhi flo) := .inner hi hfh hfl
      simp only [Call.expand, Store.cmpLevels, Store.node?, hi, hj]
      simp only [ZDD.size] at hsz
      rcases Nat.lt_trichotomy fl gl with h | h | h
      · simp only [h, if_true]
        exact one_ok op.keepLt d (setOp_nn_lt op _ _ _ _ h) hkd hfh hfl hdg
          (by simp only [ZDD.size]; omega)
      · subst h
        simp only [Nat.lt_irrefl, if_false, if_true]
        refine fork_ok (T1 := setOp op fhi ghi) (T0 := setOp op flo glo) ?_ hkd ?_ ?_
        · exact setOp_nn_eq op hab
        · exact ⟨_, _, hfh, hgh, rfl, by omega⟩
        · exact ⟨_, _, hfl, hgl, rfl, by omega⟩
      · have h1 : ¬ fl < gl := by omega
        have h2 : ¬ fl = gl := by omega
        simp only [h1, h2, if_false]
        exact one_ok op.keepGt d (setOp_nn_gt op _ _ _ _ h) hkd hgh hdf hgl
          (by simp only [ZDD.size]; omega)

theorem reduce_ok {env : Env} {p : Policy} {st : St} (hinv : Inv env st) {key : ZKey} {l : Nat}
    {r1 r0 : ZEdge} {T T1 T0 : ZDD} {n : Nat} (hT : T = mk l T1 T0)
    (hk : KeyMeans env st.store key T) (h1 : DenotesZ st.store r1 T1)
    (h0 : DenotesZ st.store r0 T0) (hn : 2 ≤ n) :
    StepOK env p st (reduceOut st key l r1 r0) T n := by
  refine ⟨StOK.mkNode hinv _ _ _ p, 1, by omega, ?_⟩
  subst hT
  exact .made (keyMeans_mono (mkNodeZ_le _ _ _ _) hk)
    (mkNodeZ_denotes st.store l r1 r0 T1 T0 h1 h0) (Nat.le_refl _)

/-! ## every step of a task keeps everything -/

theorem pickLeft_true {path : List Bool} {t1 t0 : Task} (h : pickLeft path t1 t0 = true) :
    t1.ret? = none := by
  unfold pickLeft at h
  split at h <;> simp_all

theorem pickLeft_false {path : List Bool} {t1 t0 : Task} (h : pickLeft path t1 t0 = false)
    (hb : ¬ (∃ r1 r0, t1.ret? = some r1 ∧ t0.ret? = some r0)) : t0.ret? = none := by
  unfold pickLeft at h
  split at h
  · rename_i r1 h1
    cases h0 : t0.ret? with
    | none => rfl
    | some r0 => exact absurd ⟨_, _, h1, h0⟩ hb
  · cases h
  · assumption

theorem Task.step_ok {p : Policy} (pok : p.OK) {env : Env} {st : St} (hinv : Inv env st) {t : Task}
    {T : ZDD} {n : Nat} (h : TaskOK env st.store t T n) :
    ∀ (path : List Bool), t.ret? = none → StepOK env p st (t.step p st path) T n := by
  induction h with
  | ret h => intro _ hr; simp [Task.ret?] at hr
  | call hc hn => intro path _; exact entry_ok pok hinv _ hc hn
  | @miss d c T k n hm hn =>
    intro path _
    exact ⟨StOK.refl hinv, 2 * W k + 4, by omega, expand_ok d hm⟩
  | @oneK key l hi t0 T Thi T0 n0 n hT hk hhi h0 hn ih =>
    intro path _
    simp only [Task.step]
    cases hr : t0.ret? with
    | some r0 =>
      simp only
      exact reduce_ok hinv hT hk hhi (h0.ret_den hr) (by omega)
    | none =>
      simp only
      obtain ⟨hst, n', hlt, hok⟩ := ih path hr
      exact ⟨hst, n' + 3, by omega,
        .oneK hT (keyMeans_mono hst.le hk) (hhi.mono hst.le) hok (Nat.le_refl _)⟩
  | @oneN key t0 T n0 n hk h0 hn ih =>
    intro path _
    simp only [Task.step]
    cases hr : t0.ret? with
    | some r0 =>
      simp only
      exact ⟨StOK.refl hinv, 1, by omega, .made hk (h0.ret_den hr) (Nat.le_refl _)⟩
    | none =>
      simp only
      obtain ⟨hst, n', hlt, hok⟩ := ih path hr
      exact ⟨hst, n' + 3, by omega, .oneN (keyMeans_mono hst.le hk) hok (Nat.le_refl _)⟩
  | @seq1 fr c0 t1 T T1 T0 k0 n1 n hT hk hc h1 hn ih =>
    intro path _
    simp only [Task.step]
    cases hr : t1.ret? with
    | some r1 =>
      simp only
      refine ⟨StOK.refl hinv, W k0 + 3, by omega, ?_⟩
      exact .seq0 hT hk (h1.ret_den hr) (.call hc (Nat.le_refl _)) (Nat.le_refl _)
    | none =>
      simp only
      obtain ⟨hst, n', hlt, hok⟩ := ih path hr
      exact ⟨hst, n' + W k0 + 4, by omega,
        .seq1 hT (keyMeans_mono hst.le hk) (hc.mono hst.le) hok (Nat.le_refl _)⟩
  | @seq0 fr r1 t0 T T1 T0 n0 n hT hk hr1 h0 hn ih =>
    intro path _
    simp only [Task.step]
    cases hr : t0.ret? with
    | some r0 =>
      simp only
      exact reduce_ok hinv hT hk hr1 (h0.ret_den hr) (by omega)
    | none =>
      simp only
      obtain ⟨hst, n', hlt, hok⟩ := ih path hr
      exact ⟨hst, n' + 3, by omega,
        .seq0 hT (keyMeans_mono hst.le hk) (hr1.mono hst.le) hok (Nat.le_refl _)⟩
  | @par fr t1 t0 T T1 T0 n1 n0 n hT hk h1 h0 hn ih1 ih0 =>
    intro path _
    by_cases hb : ∃ r1 r0, t1.ret? = some r1 ∧ t0.ret? = some r0
    · obtain ⟨r1, r0, e1, e0⟩ := hb
      simp only [Task.step, e1, e0]
      exact reduce_ok hinv hT hk (h1.ret_den e1) (h0.ret_den e0) (by omega)
    · have hstep : Task.step p st (.par fr t1 t0) path =
          if pickLeft path t1 t0 then
            ((t1.step p st path.tail).1, .par fr (t1.step p st path.tail).2 t0)
          else ((t0.step p st path.tail).1, .par fr t1 (t0.step p st path.tail).2) := by
        simp only [Task.step]
        split
        · rename_i r1 r0 e1 e0; exact absurd ⟨_, _, e1, e0⟩ hb
        · rfl
      rw [hstep]
      cases hp : pickLeft path t1 t0 with
      | true =>
        simp only [if_true]
        obtain ⟨hst, n', hlt, hok⟩ := ih1 path.tail (pickLeft_true hp)
        exact ⟨hst, n' + n0 + 3, by omega,
          .par hT (keyMeans_mono hst.le hk) hok (h0.mono hst.le) (Nat.le_refl _)⟩
      | false =>
        simp only [Bool.false_eq_true, if_false]
        obtain ⟨hst, n', hlt, hok⟩ := ih0 path.tail (pickLeft_false hp hb)
        exact ⟨hst, n1 + n' + 3, by omega,
          .par hT (keyMeans_mono hst.le hk) (h1.mono hst.le) hok (Nat.le_refl _)⟩
  | @made key r T n hk hr hn =>
    intro path _
    simp only [Task.step]
    exact ⟨StOK.add pok hinv hk hr, 0, by omega, .ret hr⟩

end OxiddModel.Zbdd.Threads
