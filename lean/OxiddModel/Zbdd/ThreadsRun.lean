import OxiddModel.Zbdd.ThreadsInv

/-!
# The ZBDD interleaving machine: the invariant along every schedule

`GoodFrom env s0 c Ts N`: the configuration `c` is reachable-like from a start store `s0`: hash consing
and cache soundness hold, the store extends `s0` (and has no redundant node if `s0` had none), task
`i` is computing the tree `Ts[i]`, and all tasks together need at most `N` more steps.
`Cfg.step_good`: every selection keeps it, an enabled one with a strictly smaller `N`;
`Cfg.run_good`: so does every schedule, and a schedule of enabled selections is no longer than `N`.
-/
namespace OxiddModel.Zbdd.Threads
open OxiddModel.Zbdd OxiddModel.Zbdd.ZDD OxiddModel.Zbdd.Refine
open OxiddModel.Bdd.Refine (Policy OpTag Key Cache)

inductive TasksOK (env : Env) (s : Store) : List Task → List ZDD → Nat → Prop
  | nil : TasksOK env s [] [] 0
  | cons {t T n ts Ts N} : TaskOK env s t T n → TasksOK env s ts Ts N →
      TasksOK env s (t :: ts) (T :: Ts) (n + N)

theorem TasksOK.mono {env : Env} {s s' : Store} (hle : s.Le s') {ts : List Task} {Ts : List ZDD} {N : Nat}
    (h : TasksOK env s ts Ts N) : TasksOK env s' ts Ts N := by
  induction h with
  | nil => exact .nil
  | cons h _ ih => exact .cons (h.mono hle) ih

theorem TasksOK.get {env : Env} {s : Store} {ts : List Task} {Ts : List ZDD} {N : Nat}
    (h : TasksOK env s ts Ts N) : ∀ {i : Nat} {t : Task}, ts[i]? = some t →
      ∃ T n, Ts[i]? = some T ∧ TaskOK env s t T n := by
  induction h with
  | nil => intro i t hi; simp at hi
  | @cons t' T n ts Ts N h _ ih =>
    intro i t hi
    cases i with
    | zero => simp at hi; subst hi; exact ⟨T, n, rfl, h⟩
    | succ i => simp at hi; simpa using ih hi

theorem TasksOK.get' {env : Env} {s : Store} {ts : List Task} {Ts : List ZDD} {N : Nat}
    (h : TasksOK env s ts Ts N) : ∀ {i : Nat} {T : ZDD}, Ts[i]? = some T →
      ∃ t n, ts[i]? = some t ∧ TaskOK env s t T n := by
  induction h with
  | nil => intro i t hi; simp at hi
  | @cons t' T n ts Ts N h _ ih =>
    intro i t hi
    cases i with
    | zero => simp at hi; subst hi; exact ⟨t', n, rfl, h⟩
    | succ i => simp at hi; simpa using ih hi

/-- replacing task `i` by a task that computes the same tree with a smaller bound, in a larger
store -/
theorem TasksOK.set {env : Env} {s s' : Store} (hle : s.Le s') {t t' : Task} {ts : List Task} {Ts : List ZDD}
    {N : Nat} (h : TasksOK env s ts Ts N) : ∀ {i : Nat}, ts[i]? = some t →
      (∀ T n, TaskOK env s t T n → ∃ n', n' < n ∧ TaskOK env s' t' T n') →
      ∃ N', N' < N ∧ TasksOK env s' (ts.set i t') Ts N' := by
  induction h with
  | nil => intro i hi; simp at hi
  | @cons t0 T n ts Ts N h htl ih =>
    intro i hi hstep
    cases i with
    | zero =>
      simp at hi; subst hi
      obtain ⟨n', hlt, hok⟩ := hstep T n h
      exact ⟨n' + N, by omega, by simpa using .cons hok (htl.mono hle)⟩
    | succ i =>
      simp at hi
      obtain ⟨N', hlt, hok⟩ := ih hi hstep
      exact ⟨n + N', by omega, by simpa using .cons (h.mono hle) hok⟩

/-- either all tasks are finished or one of them can move -/
theorem done_or_enabled (ts : List Task) :
    (ts.all (fun t => t.ret?.isSome) = true) ∨ ∃ (i : Nat) (t : Task), ts[i]? = some t ∧ t.ret? = none := by
  induction ts with
  | nil => left; rfl
  | cons t ts ih =>
    cases hr : t.ret? with
    | none => right; exact ⟨0, t, rfl, hr⟩
    | some r =>
      rcases ih with h | ⟨i, t', hi, ht'⟩
      · left; simp [hr, h]
      · right; exact ⟨i + 1, t', by simpa using hi, ht'⟩

structure GoodFrom (env : Env) (s0 : Store) (c : Cfg) (Ts : List ZDD) (N : Nat) : Prop where
  inv : Inv env c.st
  le : s0.Le c.st.store
  nored : s0.NoRed → c.st.store.NoRed
  tasks : TasksOK env c.st.store c.tasks Ts N

theorem Cfg.step_of_not_enabled {p : Policy} {c : Cfg} {sel : Sel} (h : c.enabled sel = false) :
    c.step p sel = c := by
  unfold Cfg.enabled at h
  unfold Cfg.step
  split
  · rfl
  · rename_i t ht
    simp only [ht] at h
    cases hr : t.ret? with
    | none => simp [hr] at h
    | some r => rfl

theorem Cfg.step_good {p : Policy} (pok : p.OK) {env : Env} {s0 : Store} {c : Cfg} {Ts : List ZDD} {N : Nat}
    (h : GoodFrom env s0 c Ts N) (sel : Sel) :
    ∃ N', GoodFrom env s0 (c.step p sel) Ts N' ∧ N' ≤ N ∧ (c.enabled sel = true → N' < N) := by
  cases he : c.enabled sel with
  | false => rw [Cfg.step_of_not_enabled he]; exact ⟨N, h, Nat.le_refl _, fun h => by cases h⟩
  | true =>
    unfold Cfg.enabled at he
    unfold Cfg.step
    split
    · rename_i hi; simp [hi] at he
    · rename_i t hi
      simp only [hi] at he
      cases hr : t.ret? with
      | some r => simp [hr] at he
      | none =>
        simp only
        obtain ⟨T, n, _, hok⟩ := h.tasks.get hi
        have hst := (Task.step_ok pok h.inv hok sel.path hr).1
        obtain ⟨N', hlt, htasks⟩ := h.tasks.set hst.le (t' := (t.step p c.st sel.path).2) hi
          (fun T n hT => (Task.step_ok pok h.inv hT sel.path hr).2)
        exact ⟨N', ⟨hst.inv, h.le.trans hst.le, fun hr0 => hst.nored (h.nored hr0), htasks⟩,
          by omega, fun _ => hlt⟩

/-- **every schedule keeps the invariant**; a schedule of enabled selections uses up the bound -/
theorem Cfg.run_good {p : Policy} (pok : p.OK) {env : Env} {s0 : Store} (sched : List Sel) :
    ∀ {c : Cfg} {N : Nat}, GoodFrom env s0 c Ts N →
    ∃ N', GoodFrom env s0 (c.run p sched) Ts N' ∧ N' ≤ N ∧
      (c.allEnabled p sched = true → sched.length + N' ≤ N) := by
  induction sched with
  | nil => intro c N h; exact ⟨N, h, Nat.le_refl _, fun _ => by simp⟩
  | cons sel ss ih =>
    intro c N h
    obtain ⟨N1, h1, hle1, hlt1⟩ := Cfg.step_good pok h sel
    obtain ⟨N2, h2, hle2, hlen2⟩ := ih h1
    refine ⟨N2, h2, by omega, fun hen => ?_⟩
    simp only [Cfg.allEnabled, Bool.and_eq_true] at hen
    have := hlt1 hen.1
    have := hlen2 hen.2
    simp only [List.length_cons]
    omega

theorem Cfg.step_length (p : Policy) (c : Cfg) (sel : Sel) :
    (c.step p sel).tasks.length = c.tasks.length := by
  unfold Cfg.step
  split
  · rfl
  · split
    · rfl
    · simp

theorem Cfg.run_length (p : Policy) (sched : List Sel) : ∀ (c : Cfg),
    (c.run p sched).tasks.length = c.tasks.length := by
  induction sched with
  | nil => intro c; rfl
  | cons s ss ih => intro c; simp only [Cfg.run]; rw [ih, Cfg.step_length]

/-- a complete schedule exists from every good configuration (induction on the bound) -/
theorem Cfg.complete_exists {p : Policy} (pok : p.OK) {env : Env} {s0 : Store} {Ts : List ZDD} :
    ∀ (N : Nat) {c : Cfg}, GoodFrom env s0 c Ts N →
      ∃ sched, c.allEnabled p sched = true ∧ (c.run p sched).allDone = true := by
  intro N
  induction N using Nat.strongRecOn with
  | _ N ih =>
    intro c h
    rcases done_or_enabled c.tasks with hd | ⟨i, t, hi, hr⟩
    · exact ⟨[], rfl, hd⟩
    · have hen : c.enabled ⟨i, []⟩ = true := by simp [Cfg.enabled, hi, hr]
      obtain ⟨N1, h1, _, hlt⟩ := Cfg.step_good (p := p) pok h ⟨i, []⟩
      obtain ⟨ss, hen', hdone⟩ := ih N1 (hlt hen) h1
      exact ⟨⟨i, []⟩ :: ss, by simp [Cfg.allEnabled, hen, hen'], hdone⟩

theorem Cfg.allDone_iff_none_enabled (c : Cfg) :
    c.allDone = true ↔ ∀ sel, c.enabled sel = false := by
  constructor
  · intro h sel
    unfold Cfg.enabled
    split
    · rename_i t ht
      have := List.all_eq_true.mp h t (List.mem_of_getElem? ht)
      cases hr : t.ret? with
      | none => simp [hr] at this
      | some r => rfl
    · rfl
  · intro h
    apply List.all_eq_true.mpr
    intro t ht
    obtain ⟨i, hi, hget⟩ := List.getElem_of_mem ht
    have := h ⟨i, []⟩
    have hi' : c.tasks[i]? = some t := by rw [List.getElem?_eq_getElem hi, hget]
    simp only [Cfg.enabled, hi'] at this
    cases hr : t.ret? with
    | none => simp [hr] at this
    | some r => rfl

/-! ## cache entries about to be inserted -/

theorem keyMeans_functional {env : Env} {s : Store} {key : ZKey} {T T' : ZDD}
    (h : KeyMeans env s key T) (h' : KeyMeans env s key T') : T = T' := by
  obtain ⟨ts, h1, h2, _⟩ := h
  obtain ⟨ts', h1', h2', _⟩ := h'
  have := DenotesLZ.functional h1 h1'
  subst this
  rw [h2] at h2'; cases h2'; rfl

theorem TaskOK.mades_ok {env : Env} {s : Store} {t : Task} {T : ZDD} {n : Nat}
    (h : TaskOK env s t T n) :
    ∀ key r, (key, r) ∈ t.mades → ∃ T', KeyMeans env s key T' ∧ DenotesZ s r T' := by
  induction h with
  | ret => intro _ _ hm; simp [Task.mades] at hm
  | call => intro _ _ hm; simp [Task.mades] at hm
  | miss => intro _ _ hm; simp [Task.mades] at hm
  | oneK _ _ _ _ _ ih => intro key r hm; exact ih key r hm
  | oneN _ _ _ ih => intro key r hm; exact ih key r hm
  | seq1 _ _ _ _ _ ih => intro key r hm; exact ih key r hm
  | seq0 _ _ _ _ _ ih => intro key r hm; exact ih key r hm
  | par _ _ _ _ _ ih1 ih0 =>
    intro key r hm
    simp only [Task.mades, List.mem_append] at hm
    rcases hm with hm | hm
    · exact ih1 key r hm
    · exact ih0 key r hm
  | @made key' r' T n hk hr _ =>
    intro key r hm
    simp only [Task.mades, List.mem_singleton, Prod.mk.injEq] at hm
    obtain ⟨rfl, rfl⟩ := hm
    exact ⟨T, hk, hr⟩

end OxiddModel.Zbdd.Threads
