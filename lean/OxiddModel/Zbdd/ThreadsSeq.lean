import OxiddModel.Zbdd.ThreadsRun

/-!
# A ZBDD task running alone with the sequential recursor *is* `setOpS`

The program text of the machine (`Zbdd/Threads.lean`) is meant to be that of the store-level model
`setOpS` (`SetOpsS.lean`), which the store-level streams (`zbdd-rcstore`, …) tie to the real code.
This file proves it: a task `call 0 (op, f, g)` that is the only one scheduled goes, step by step,
through the shared states of `setOpS p op fuel st f g` and ends in `ret` of exactly its result
edge — same store (slot for slot), same cache, same time stamp, same edge.
-/
namespace OxiddModel.Zbdd.Threads
open OxiddModel.Zbdd OxiddModel.Zbdd.ZDD OxiddModel.Zbdd.Refine
open OxiddModel.Bdd.Refine (Policy OpTag Key Cache)

/-- one step of a task running alone (all `par` choices: default) -/
def step1 (p : Policy) (x : Task × St) : Task × St :=
  ((x.1.step p x.2 []).2, runOpt p (x.1.step p x.2 []).1 x.2)

/-- finitely many steps of an unfinished task running alone -/
inductive Steps (p : Policy) : Task × St → Task × St → Prop
  | refl (x) : Steps p x x
  | step {x y} : x.1.ret? = none → Steps p (step1 p x) y → Steps p x y

theorem Steps.trans {p : Policy} {x y z : Task × St} (h1 : Steps p x y) (h2 : Steps p y z) :
    Steps p x z := by
  induction h1 with
  | refl => exact h2
  | step hr _ ih => exact .step hr (ih h2)

theorem Steps.one {p : Policy} {x : Task × St} (hr : x.1.ret? = none) : Steps p x (step1 p x) :=
  .step hr (.refl _)

theorem Steps.seq1 {p : Policy} (fr : Frame) (c0 : Call) {x y : Task × St} (h : Steps p x y) :
    Steps p (.seq1 fr c0 x.1, x.2) (.seq1 fr c0 y.1, y.2) := by
  induction h with
  | refl => exact .refl _
  | @step x y hr _ ih =>
    refine .step rfl ?_
    have : step1 p (.seq1 fr c0 x.1, x.2) = (.seq1 fr c0 (step1 p x).1, (step1 p x).2) := by
      simp only [step1, Task.step, hr]
    rw [this]; exact ih

theorem Steps.seq0 {p : Policy} (fr : Frame) (r1 : ZEdge) {x y : Task × St} (h : Steps p x y) :
    Steps p (.seq0 fr r1 x.1, x.2) (.seq0 fr r1 y.1, y.2) := by
  induction h with
  | refl => exact .refl _
  | @step x y hr _ ih =>
    refine .step rfl ?_
    have : step1 p (.seq0 fr r1 x.1, x.2) = (.seq0 fr r1 (step1 p x).1, (step1 p x).2) := by
      simp only [step1, Task.step, hr]
    rw [this]; exact ih

theorem Steps.oneF {p : Policy} (key : ZKey) (keep : Option (Nat × ZEdge)) {x y : Task × St}
    (h : Steps p x y) : Steps p (.one key keep x.1, x.2) (.one key keep y.1, y.2) := by
  induction h with
  | refl => exact .refl _
  | @step x y hr _ ih =>
    refine .step rfl ?_
    have : step1 p (.one key keep x.1, x.2) = (.one key keep (step1 p x).1, (step1 p x).2) := by
      simp only [step1, Task.step, hr]
    rw [this]; exact ih

/-- `reduce` then cache add, from a `made`-producing frame: the tail `finishZ` -/
theorem steps_made {p : Policy} (key : ZKey) (r : ZEdge) (s : St) :
    Steps p (.made key r, s) (.ret (addZ p s key r).2, (addZ p s key r).1) := by
  have : step1 p (.made key r, s) = (.ret (addZ p s key r).2, (addZ p s key r).1) := by
    simp only [step1, Task.step, runOpt, Act.run, addZ]
  rw [← this]; exact Steps.one rfl

/-- the one-sided frame after its call has been run to completion -/
theorem steps_one_arm {p : Policy} (key : ZKey) (keepB : Bool) (l : Nat) (hi : ZEdge) {c : Call}
    {s : St} {R0 : St × ZEdge} (s0 : Steps p (.call 0 c, s) (.ret R0.2, R0.1)) :
    Steps p (.one key (if keepB then some (l, hi) else none) (.call 0 c), s)
      (.ret (if keepB then finishZ p R0.1 key l hi R0.2 else addZ p R0.1 key R0.2).2,
       (if keepB then finishZ p R0.1 key l hi R0.2 else addZ p R0.1 key R0.2).1) := by
  refine (Steps.oneF _ _ s0).trans ?_
  cases keepB with
  | true =>
    simp only [if_true]
    refine .step rfl ?_
    have e5 : step1 p (.one key (some (l, hi)) (.ret R0.2), R0.1) =
        (.made key (mkS R0.1 l hi R0.2).2, (mkS R0.1 l hi R0.2).1) := by
      simp only [step1, Task.step, Task.ret?, reduceOut, runOpt, Act.run, mkS]
    rw [e5]
    exact steps_made key _ _
  | false =>
    simp only [Bool.false_eq_true, if_false]
    refine .step rfl ?_
    have e5 : step1 p (.one key none (.ret R0.2), R0.1) = (.made key R0.2, R0.1) := by
      simp only [step1, Task.step, Task.ret?, runOpt]
    rw [e5]
    exact steps_made key _ _

/-- a one-sided arm (`Less` / `Greater`) of `setBody`, from the miss -/
theorem steps_arm_one {p : Policy} {op : SetOp} {fuel : Nat} {st : St} {f g : ZEdge}
    (keepB : Bool) (l : Nat) (hi x y : ZEdge)
    (hexp : Call.expand st.store 0 ⟨op, f, g⟩ =
      .one (Call.key ⟨op, f, g⟩) (if keepB then some (l, hi) else none) (.call 0 ⟨op, x, y⟩))
    (hbody : setBody p op (setOpS p op fuel) st f g =
      if keepB then finishZ p (setOpS p op fuel st.tickd x y).1 (Call.key ⟨op, f, g⟩) l hi
          (setOpS p op fuel st.tickd x y).2
      else addZ p (setOpS p op fuel st.tickd x y).1 (Call.key ⟨op, f, g⟩)
          (setOpS p op fuel st.tickd x y).2)
    (s0 : Steps p (.call 0 ⟨op, x, y⟩, st.tickd)
      (.ret (setOpS p op fuel st.tickd x y).2, (setOpS p op fuel st.tickd x y).1)) :
    Steps p (.miss 0 ⟨op, f, g⟩, st.tickd)
      (.ret (setBody p op (setOpS p op fuel) st f g).2,
       (setBody p op (setOpS p op fuel) st f g).1) := by
  refine .step rfl ?_
  have e3 : step1 p (.miss 0 ⟨op, f, g⟩, st.tickd) = (Call.expand st.store 0 ⟨op, f, g⟩, st.tickd) := by
    simp only [step1, Task.step, St.tickd_store, runOpt]
  rw [e3, hexp, hbody]
  exact steps_one_arm _ keepB l hi s0

/-- **the machine's sequential instance is `setOpS`** -/
theorem steps_setOpS {p : Policy} (pok : p.OK) (env : Env) (op : SetOp) (fuel : Nat) :
    ∀ (st : St) (f g : ZEdge) (a b : ZDD),
    Inv env st → DenotesZ st.store f a → DenotesZ st.store g b → a.size + b.size ≤ fuel →
    Steps p (.call 0 ⟨op, f, g⟩, st)
      (.ret (setOpS p op fuel st f g).2, (setOpS p op fuel st f g).1) := by
  induction fuel with
  | zero =>
    intro st f g a b _ _ _ hsz
    have := size_pos a
    omega
  | succ fuel ih =>
    intro st f g a b hinv hf hg hsz
    have hc := terminalS_corr op hinv.1 hf hg
    cases hS : terminalS op f g with
    | some e =>
      have e1 : step1 p (.call 0 ⟨op, f, g⟩, st) = (.ret e, st) := by
        simp only [step1, Task.step, Call.entry, hS, runOpt]
      have e2 : setOpS p op (fuel + 1) st f g = (st, e) := by simp only [setOpS, hS]
      rw [e2, ← e1]; exact Steps.one rfl
    | none =>
      cases hT : terminalT op a b with
      | some t => rw [hS, hT] at hc; exact hc.elim
      | none =>
        have hk : ∃ f' g' a' b', Call.norm ⟨op, f, g⟩ = ⟨op, f', g'⟩ ∧
            setOpS p op (fuel + 1) st f g = setBody p op (setOpS p op fuel) st f' g' ∧
            DenotesZ st.store f' a' ∧ DenotesZ st.store g' b' ∧
            terminalT op a' b' = none ∧ a'.size + b'.size ≤ fuel + 1 := by
          obtain ⟨h1, h2, h3⟩ := terminalT_none hT
          by_cases hsw : (op.comm && f.gt g) = true
          · exact ⟨g, f, b, a, by rw [Call.norm, if_pos hsw], by simp only [setOpS, hS, hsw, if_true],
              hg, hf, terminalT_none_of (Ne.symm h1) h3 h2, by omega⟩
          · exact ⟨f, g, a, b, by rw [Call.norm, if_neg hsw], by simp only [setOpS, hS, hsw]; rfl,
              hf, hg, hT, hsz⟩
        obtain ⟨f', g', a', b', hnorm, e2', hf', hg', hnt, hsz'⟩ := hk
        rw [e2']
        cases hget : p.get st.tick st.cache (encKey ⟨setTag op, [f', g'], []⟩) with
        | some r =>
          have e1 : step1 p (.call 0 ⟨op, f, g⟩, st) = (.ret (decE r), st.tickd) := by
            simp only [step1, Task.step, Call.entry, hS, hnorm, Call.key, hget, runOpt, Act.run]
          have e2 : setBody p op (setOpS p op fuel) st f' g' = (st.tickd, decE r) := by
            simp only [setBody, hget]
          rw [e2, ← e1]; exact Steps.one rfl
        | none =>
          have e1 : step1 p (.call 0 ⟨op, f, g⟩, st) = (.miss 0 ⟨op, f', g'⟩, st.tickd) := by
            simp only [step1, Task.step, Call.entry, hS, hnorm, Call.key, hget, runOpt, Act.run]
          refine .step rfl ?_
          rw [e1]
          obtain ⟨hab, ha, hb⟩ := terminalT_none hnt
          cases hf' with
          | empty => exact absurd rfl ha
          | base =>
            cases hg' with
            | empty => exact absurd rfl hb
            | base => exact absurd rfl hab
            | @inner j gl gh glo' ghi glo hj hgh hgl =>
              simp only [ZDD.size] at hsz'
              refine steps_arm_one op.keepGt gl gh .base glo' ?_ ?_
                (ih st.tickd .base glo' .base glo hinv.tickd .base hgl
                  (by simp only [ZDD.size]; omega))
              · simp only [Call.expand, Store.cmpLevels, Store.node?, hj]
              · simp only [setBody, hget, Store.cmpLevels, Store.node?, hj, Call.key]
          | @inner i fl fh flo' fhi flo hi hfh hfl =>
            cases hg' with
            | empty => exact absurd rfl hb
            | base =>
              simp only [ZDD.size] at hsz'
              refine steps_arm_one op.keepLt fl fh flo' .base ?_ ?_
                (ih st.tickd flo' .base flo .base hinv.tickd hfl .base
                  (by simp only [ZDD.size]; omega))
              · simp only [Call.expand, Store.cmpLevels, Store.node?, hi]
              · simp only [setBody, hget, Store.cmpLevels, Store.node?, hi, Call.key]
            | @inner j gl gh glo' ghi glo hj hgh hgl =>
              have hdg : DenotesZ st.store (.inner j) (.node gl ghi glo) := .inner hj hgh hgl
              have hdf : DenotesZ st.store (.inner i) (.node fl fhi flo) := .inner hi hfh hfl
              simp only [ZDD.size] at hsz'
              rcases Nat.lt_trichotomy fl gl with h | h | h
              · refine steps_arm_one op.keepLt fl fh flo' (.inner j) ?_ ?_
                  (ih st.tickd flo' (.inner j) flo _ hinv.tickd hfl hdg
                    (by simp only [ZDD.size]; omega))
                · simp only [Call.expand, Store.cmpLevels, Store.node?, hi, hj, h, if_true]
                · simp only [setBody, hget, Store.cmpLevels, Store.node?, hi, hj, h, if_true,
                    Call.key]
              · subst h
                have p1 := setOpS_spec pok env op fuel st.tickd fh gh fhi ghi hinv.tickd hfh hgh
                  (by omega)
                have s1 := ih st.tickd fh gh fhi ghi hinv.tickd hfh hgh (by omega)
                have s0 := ih _ flo' glo' flo glo p1.inv (hfl.mono p1.le) (hgl.mono p1.le)
                  (by omega)
                have e2 : setBody p op (setOpS p op fuel) st (.inner i) (.inner j) =
                    finishZ p (setOpS p op fuel (setOpS p op fuel st.tickd fh gh).1 flo' glo').1
                      ⟨setTag op, [.inner i, .inner j], []⟩ fl (setOpS p op fuel st.tickd fh gh).2
                      (setOpS p op fuel (setOpS p op fuel st.tickd fh gh).1 flo' glo').2 := by
                  simp only [setBody, hget, Store.cmpLevels, Store.node?, hi, hj, Nat.lt_irrefl,
                    if_false, if_true]
                rw [e2]
                generalize setOpS p op fuel st.tickd fh gh = R1 at s1 s0 ⊢
                generalize setOpS p op fuel R1.1 flo' glo' = R0 at s0 ⊢
                have e3 : step1 p (.miss 0 ⟨op, .inner i, .inner j⟩, st.tickd) =
                    (.seq1 ⟨⟨setTag op, [.inner i, .inner j], []⟩, fl⟩ ⟨op, flo', glo'⟩
                      (.call 0 ⟨op, fh, gh⟩), st.tickd) := by
                  simp only [step1, Task.step, Call.expand, St.tickd_store, Store.cmpLevels,
                    Store.node?, hi, hj, Nat.lt_irrefl, if_false, if_true, fork, runOpt, Call.key]
                refine .step rfl ?_
                rw [e3]
                refine (Steps.seq1 _ _ s1).trans ?_
                refine .step rfl ?_
                have e4 : step1 p (.seq1 ⟨⟨setTag op, [.inner i, .inner j], []⟩, fl⟩ ⟨op, flo', glo'⟩
                      (.ret R1.2), R1.1) =
                    (.seq0 ⟨⟨setTag op, [.inner i, .inner j], []⟩, fl⟩ R1.2
                      (.call 0 ⟨op, flo', glo'⟩), R1.1) := by
                  simp only [step1, Task.step, Task.ret?, runOpt]
                rw [e4]
                refine (Steps.seq0 _ _ s0).trans ?_
                refine .step rfl ?_
                have e5 : step1 p (.seq0 ⟨⟨setTag op, [.inner i, .inner j], []⟩, fl⟩ R1.2
                      (.ret R0.2), R0.1) =
                    (.made ⟨setTag op, [.inner i, .inner j], []⟩ (mkS R0.1 fl R1.2 R0.2).2,
                     (mkS R0.1 fl R1.2 R0.2).1) := by
                  simp only [step1, Task.step, Task.ret?, reduceOut, runOpt, Act.run, mkS]
                rw [e5]
                exact steps_made _ _ _
              · have h1 : ¬ fl < gl := by omega
                have h2 : ¬ fl = gl := by omega
                refine steps_arm_one op.keepGt gl gh (.inner i) glo' ?_ ?_
                  (ih st.tickd (.inner i) glo' _ glo hinv.tickd hdf hgl
                    (by simp only [ZDD.size]; omega))
                · simp only [Call.expand, Store.cmpLevels, Store.node?, hi, hj, h1, h2, if_false]
                · simp only [setBody, hget, Store.cmpLevels, Store.node?, hi, hj, h1, h2, if_false,
                    Call.key]

/-- the number of steps of a `Steps` derivation, as a schedule of the one-task machine -/
theorem Steps.run {p : Policy} {x y : Task × St} (h : Steps p x y) :
    ∃ n, (Cfg.run p ⟨x.2, [x.1]⟩ (List.replicate n ⟨0, []⟩)) = ⟨y.2, [y.1]⟩ ∧
      Cfg.allEnabled p ⟨x.2, [x.1]⟩ (List.replicate n ⟨0, []⟩) = true := by
  induction h with
  | refl x => exact ⟨0, rfl, rfl⟩
  | @step x y hr _ ih =>
    obtain ⟨n, h1, h2⟩ := ih
    have hs : Cfg.step p ⟨x.2, [x.1]⟩ ⟨0, []⟩ = ⟨(step1 p x).2, [(step1 p x).1]⟩ := by
      simp [Cfg.step, hr, step1]
    refine ⟨n + 1, ?_, ?_⟩
    · simp only [List.replicate_succ, Cfg.run]; rw [hs]; exact h1
    · simp only [List.replicate_succ, Cfg.allEnabled, Bool.and_eq_true]
      refine ⟨by simp [Cfg.enabled, hr], ?_⟩
      rw [hs]; exact h2

end OxiddModel.Zbdd.Threads
