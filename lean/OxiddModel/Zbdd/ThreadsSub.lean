import OxiddModel.Zbdd.ThreadsRun

/-!
# The interleaving machine for the ZBDD `subset::<VAL>` (`subset0`, `subset1`, `change`)

`subset::<VAL>` of `crates/oxidd-rules-zbdd/src/apply_rec.rs` is the other family of ZBDD
operations that forks through the `Recursor` (`rec.subset(..)` in the arm "level above
`var_level`"; `ParallelRecursor::subset` = `join` with `remaining_depth - 1`). This file is the
machine of `Zbdd/Threads.lean` for it, on the same shared state and with the same atomic actions
(`Threads.Act`: cache query, `reduce` = `Store.mkNodeZ`, cache add); program text = `subsetS` of
`SetOpsS.lean`:

* entry of a call on `f` (operator, `var`, `var_level` are fixed for the whole operation: `Par`):
  `level < var_level` → cache query under the key `(op, [f], [var])` (hit → `ret`, miss → `miss`);
  `level = var_level` → `subset0`: `lo`, `subset1`: `hi` (thread-local), `change`:
  `reduce_borrowed(level, lo, hi)` (one atomic `mk`, the swap is intentional) and return — no cache
  access; `var_level` above `level` (or `f` terminal): `f` / `Empty` / `reduce(var_level, f, Empty)`;
* after a miss: read the children, fork (`seq1` for split depth 0, `par` otherwise);
* `reduce`, `made`, cache add, `ret` as in `Threads.lean`.
-/
namespace OxiddModel.Zbdd.ThreadsSub
open OxiddModel.Zbdd OxiddModel.Zbdd.ZDD OxiddModel.Zbdd.Refine
open OxiddModel.Bdd.Refine (Policy OpTag Key Cache)
open OxiddModel.Zbdd.Threads (Act runOpt Frame Sel W W_pos W_mono StOK keyMeans_mono keyMeans_functional)

/-- what is fixed during one `subset` operation -/
structure Par where
  op : SubsetOp
  var : Nat
  vl : Nat
deriving DecidableEq, Repr

def Par.key (pr : Par) (f : ZEdge) : ZKey := ⟨subsetTag pr.op, [f], [pr.var]⟩

inductive Task where
  | call (d : Nat) (f : ZEdge)
  | miss (d : Nat) (f : ZEdge)
  | seq1 (fr : Frame) (f0 : ZEdge) (t1 : Task)
  | seq0 (fr : Frame) (r1 : ZEdge) (t0 : Task)
  | par (fr : Frame) (t1 t0 : Task)
  | made (key : ZKey) (r : ZEdge)
  | ret (r : ZEdge)
deriving DecidableEq, Repr

def Task.ret? : Task → Option ZEdge
  | .ret r => some r
  | _ => none

abbrev Out := Option Act × Task

/-- `var_level` above `level`, or `f` terminal -/
def below (pr : Par) (st : St) (f : ZEdge) : Out :=
  match pr.op with
  | .subset0 => (none, .ret f)
  | .subset1 => (none, .ret .empty)
  | .change => (some (.mk pr.vl f .empty), .ret (st.store.mkNodeZ pr.vl f .empty).2)

def entry (pr : Par) (p : Policy) (st : St) (d : Nat) (f : ZEdge) : Out :=
  match st.store.node? f with
  | some n =>
    if n.level < pr.vl then
      match p.get st.tick st.cache (encKey (pr.key f)) with
      | some h => (some .cacheGet, .ret (decE h))
      | none => (some .cacheGet, .miss d f)
    else if n.level = pr.vl then
      match pr.op with
      | .change => (some (.mk n.level n.lo n.hi), .ret (st.store.mkNodeZ n.level n.lo n.hi).2)
      | .subset0 => (none, .ret n.lo)
      | .subset1 => (none, .ret n.hi)
    else below pr st f
  | none => below pr st f

def fork (d : Nat) (fr : Frame) (f1 f0 : ZEdge) : Task :=
  match d with
  | 0 => .seq1 fr f0 (.call 0 f1)
  | d + 1 => .par fr (.call d f1) (.call d f0)

def expand (pr : Par) (s : Store) (d : Nat) (f : ZEdge) : Task :=
  match s.node? f with
  | some n => fork d ⟨pr.key f, n.level⟩ n.hi n.lo
  | none => .ret f

def reduceOut (st : St) (fr : Frame) (hi lo : ZEdge) : Out :=
  (some (.mk fr.lvl hi lo), .made fr.key (st.store.mkNodeZ fr.lvl hi lo).2)

def pickLeft (path : List Bool) (t1 t0 : Task) : Bool :=
  match t1.ret?, t0.ret? with
  | some _, _ => false
  | none, some _ => true
  | none, none => path.headD true

def Task.step (pr : Par) (p : Policy) (st : St) : Task → List Bool → Out
  | .ret r, _ => (none, .ret r)
  | .call d f, _ => entry pr p st d f
  | .miss d f, _ => (none, expand pr st.store d f)
  | .seq1 fr f0 t1, path =>
    match t1.ret? with
    | some r1 => (none, .seq0 fr r1 (.call 0 f0))
    | none => let o := t1.step pr p st path; (o.1, .seq1 fr f0 o.2)
  | .seq0 fr r1 t0, path =>
    match t0.ret? with
    | some r0 => reduceOut st fr r1 r0
    | none => let o := t0.step pr p st path; (o.1, .seq0 fr r1 o.2)
  | .par fr t1 t0, path =>
    match t1.ret?, t0.ret? with
    | some r1, some r0 => reduceOut st fr r1 r0
    | _, _ =>
      if pickLeft path t1 t0 then
        let o := t1.step pr p st path.tail; (o.1, .par fr o.2 t0)
      else
        let o := t0.step pr p st path.tail; (o.1, .par fr t1 o.2)
  | .made key r, _ => (some (.cacheAdd key r), .ret r)

/-- a running operation: its parameters and its task tree -/
structure Op where
  pr : Par
  t : Task

structure Cfg where
  st : St
  ops : List Op

def Cfg.enabled (c : Cfg) (s : Sel) : Bool :=
  match c.ops[s.tid]? with
  | some o => o.t.ret?.isNone
  | none => false

def Cfg.step (p : Policy) (c : Cfg) (s : Sel) : Cfg :=
  match c.ops[s.tid]? with
  | none => c
  | some o =>
    match o.t.ret? with
    | some _ => c
    | none =>
      let out := o.t.step o.pr p c.st s.path
      ⟨runOpt p out.1 c.st, c.ops.set s.tid ⟨o.pr, out.2⟩⟩

def Cfg.run (p : Policy) (c : Cfg) : List Sel → Cfg
  | [] => c
  | s :: ss => (c.step p s).run p ss

def Cfg.allDone (c : Cfg) : Bool := c.ops.all (fun o => o.t.ret?.isSome)

def Cfg.allEnabled (p : Policy) (c : Cfg) : List Sel → Bool
  | [] => true
  | s :: ss => c.enabled s && (c.step p s).allEnabled p ss

def Task.mades : Task → List (ZKey × ZEdge)
  | .seq1 _ _ t1 => t1.mades
  | .seq0 _ _ t0 => t0.mades
  | .par _ t1 t0 => t1.mades ++ t0.mades
  | .made key r => [(key, r)]
  | _ => []

def Task.forks : Task → Nat
  | .seq1 _ _ t1 => t1.forks
  | .seq0 _ _ t0 => t0.forks
  | .par _ t1 t0 => 1 + t1.forks + t0.forks
  | _ => 0

/-! ## invariant -/

def CallSpec (pr : Par) (s : Store) (f : ZEdge) (T : ZDD) (k : Nat) : Prop :=
  ∃ a, DenotesZ s f a ∧ T = subset pr.op pr.vl a ∧ a.size ≤ k

theorem CallSpec.mono {pr : Par} {s s' : Store} (hle : s.Le s') {f : ZEdge} {T : ZDD} {k : Nat}
    (h : CallSpec pr s f T k) : CallSpec pr s' f T k := by
  obtain ⟨a, h1, h2, h3⟩ := h
  exact ⟨a, h1.mono hle, h2, h3⟩

/-- after the miss: `f` is an inner node above `var_level` -/
def MissSpec (pr : Par) (s : Store) (f : ZEdge) (T : ZDD) (k : Nat) : Prop :=
  ∃ i l eh el th tl, f = .inner i ∧ s.get? i = some ⟨l, eh, el⟩ ∧ DenotesZ s eh th ∧
    DenotesZ s el tl ∧ l < pr.vl ∧ T = subset pr.op pr.vl (.node l th tl) ∧
    th.size + tl.size ≤ k

theorem MissSpec.mono {pr : Par} {s s' : Store} (hle : s.Le s') {f : ZEdge} {T : ZDD} {k : Nat}
    (h : MissSpec pr s f T k) : MissSpec pr s' f T k := by
  obtain ⟨i, l, eh, el, th, tl, h1, h2, h3, h4, h5⟩ := h
  exact ⟨i, l, eh, el, th, tl, h1, hle _ _ h2, h3.mono hle, h4.mono hle, h5⟩

inductive TaskOK (pr : Par) (env : Env) (s : Store) : Task → ZDD → Nat → Prop
  | ret {r T n} : DenotesZ s r T → TaskOK pr env s (.ret r) T n
  | call {d f T k n} : CallSpec pr s f T k → W k ≤ n → TaskOK pr env s (.call d f) T n
  | miss {d f T k n} : MissSpec pr s f T k → 2 * W k + 7 ≤ n → TaskOK pr env s (.miss d f) T n
  | seq1 {fr f0 t1 T T1 T0 k0 n1 n} : T = mk fr.lvl T1 T0 → KeyMeans env s fr.key T →
      CallSpec pr s f0 T0 k0 → TaskOK pr env s t1 T1 n1 → n1 + W k0 + 4 ≤ n →
      TaskOK pr env s (.seq1 fr f0 t1) T n
  | seq0 {fr r1 t0 T T1 T0 n0 n} : T = mk fr.lvl T1 T0 → KeyMeans env s fr.key T →
      DenotesZ s r1 T1 → TaskOK pr env s t0 T0 n0 → n0 + 3 ≤ n →
      TaskOK pr env s (.seq0 fr r1 t0) T n
  | par {fr t1 t0 T T1 T0 n1 n0 n} : T = mk fr.lvl T1 T0 → KeyMeans env s fr.key T →
      TaskOK pr env s t1 T1 n1 → TaskOK pr env s t0 T0 n0 → n1 + n0 + 3 ≤ n →
      TaskOK pr env s (.par fr t1 t0) T n
  | made {key r T n} : KeyMeans env s key T → DenotesZ s r T → 1 ≤ n →
      TaskOK pr env s (.made key r) T n

theorem TaskOK.mono {pr : Par} {env : Env} {s s' : Store} (hle : s.Le s') {t : Task} {T : ZDD}
    {n : Nat} (h : TaskOK pr env s t T n) : TaskOK pr env s' t T n := by
  induction h with
  | ret h => exact .ret (h.mono hle)
  | call h hn => exact .call (h.mono hle) hn
  | miss h hn => exact .miss (h.mono hle) hn
  | seq1 hT hk hc _ hn ih => exact .seq1 hT (keyMeans_mono hle hk) (hc.mono hle) ih hn
  | seq0 hT hk hr _ hn ih => exact .seq0 hT (keyMeans_mono hle hk) (hr.mono hle) ih hn
  | par hT hk _ _ hn ih1 ih0 => exact .par hT (keyMeans_mono hle hk) ih1 ih0 hn
  | made hk hr hn => exact .made (keyMeans_mono hle hk) (hr.mono hle) hn

theorem TaskOK.ret_den {pr : Par} {env : Env} {s : Store} {t : Task} {T : ZDD} {n : Nat}
    {r : ZEdge} (h : TaskOK pr env s t T n) (hr : t.ret? = some r) : DenotesZ s r T := by
  cases h <;> simp only [Task.ret?] at hr <;> (try cases hr)
  assumption

def StepOK (pr : Par) (env : Env) (p : Policy) (st : St) (o : Out) (T : ZDD) (n : Nat) : Prop :=
  StOK env st (runOpt p o.1 st) ∧ ∃ n', n' < n ∧ TaskOK pr env (runOpt p o.1 st).store o.2 T n'

/-- the parameters are consistent with the manager: `var_level = var_to_level(var)` -/
def Par.OK (pr : Par) (env : Env) : Prop := pr.vl = env.levelOf pr.var

theorem keyMeans_sub {pr : Par} {env : Env} (hp : pr.OK env) {s : Store} {f : ZEdge} {a : ZDD}
    (hf : DenotesZ s f a) : KeyMeans env s (pr.key f) (subset pr.op pr.vl a) := by
  refine ⟨[a], DenotesLZ.one hf, ?_, fun h => by cases hop : pr.op <;> simp [Par.key, subsetTag, hop] at h⟩
  show specZ env (subsetTag pr.op) [a] [pr.var] = _
  rw [specZ_subsetTag, ← hp]

theorem below_ok {pr : Par} {env : Env} {p : Policy} {st : St} (hinv : Inv env st) {f : ZEdge}
    {a : ZDD} (hf : DenotesZ st.store f a) {n : Nat} (hn : 1 ≤ n) :
    StepOK pr env p st (below pr st f)
      (match pr.op with
        | .subset0 => a
        | .subset1 => .empty
        | .change => mk pr.vl a .empty) n := by
  unfold below
  cases pr.op with
  | subset0 => exact ⟨StOK.refl hinv, 0, by omega, .ret hf⟩
  | subset1 => exact ⟨StOK.refl hinv, 0, by omega, .ret .empty⟩
  | change =>
    exact ⟨StOK.mkNode hinv _ _ _ p, 0, by omega,
      .ret (mkNodeZ_denotes st.store pr.vl f .empty a .empty hf .empty)⟩

theorem entry_ok {pr : Par} {p : Policy} (pok : p.OK) {env : Env} (hp : pr.OK env) {st : St}
    (hinv : Inv env st) {f : ZEdge} {T : ZDD} {k n : Nat} (d : Nat)
    (hc : CallSpec pr st.store f T k) (hn : W k ≤ n) :
    StepOK pr env p st (entry pr p st d f) T n := by
  obtain ⟨a, hf, hT, hsz⟩ := hc
  subst hT
  have hW := W_pos k
  cases hf with
  | empty =>
    simp only [entry, Store.node?, subset]
    exact below_ok hinv .empty (by omega)
  | base =>
    simp only [entry, Store.node?, subset]
    exact below_ok hinv .base (by omega)
  | @inner i l eh el th tl hi hh hl =>
    have hdf : DenotesZ st.store (.inner i) (.node l th tl) := .inner hi hh hl
    simp only [entry, Store.node?, hi, subset]
    simp only [ZDD.size] at hsz
    by_cases h1 : l < pr.vl
    · simp only [h1, if_true]
      have hkm := keyMeans_sub hp (pr := pr) hdf
      split
      · rename_i r hr
        have hent := hinv.2 _ _ (pok.get_mem _ _ _ _ hr)
        obtain ⟨ts, hd, hs, _⟩ := hkm
        refine ⟨StOK.tickd hinv, 0, by omega, .ret ?_⟩
        have := hent.hit hd hs
        simp only [subset, h1, if_true] at this
        exact this
      · refine ⟨StOK.tickd hinv, ?_⟩
        cases k with
        | zero => omega
        | succ k' =>
          refine ⟨2 * W k' + 7, by simp only [W] at hn; omega, ?_⟩
          exact .miss ⟨i, l, eh, el, th, tl, rfl, hi, hh, hl, h1,
            by simp only [subset, h1, if_true], by omega⟩ (Nat.le_refl _)
    · simp only [h1, if_false]
      by_cases h2 : l = pr.vl
      · simp only [h2, if_true]
        cases pr.op with
        | change =>
          exact ⟨StOK.mkNode hinv _ _ _ p, 0, by omega,
            .ret (mkNodeZ_denotes st.store pr.vl el eh tl th hl hh)⟩
        | subset0 => exact ⟨StOK.refl hinv, 0, by omega, .ret hl⟩
        | subset1 => exact ⟨StOK.refl hinv, 0, by omega, .ret hh⟩
      · simp only [h2, if_false]
        exact below_ok hinv hdf (by omega)

theorem expand_ok {pr : Par} {env : Env} (hp : pr.OK env) {s : Store} {f : ZEdge} {T : ZDD}
    {k : Nat} (d : Nat) (hm : MissSpec pr s f T k) :
    TaskOK pr env s (expand pr s d f) T (2 * W k + 4) := by
  obtain ⟨i, l, eh, el, th, tl, rfl, hi, hh, hl, hlt, hT, hsz⟩ := hm
  have hkm := keyMeans_sub hp (pr := pr) (DenotesZ.inner hi hh hl)
  simp only [expand, Store.node?, hi]
  have hT' : T = mk l (subset pr.op pr.vl th) (subset pr.op pr.vl tl) := by
    rw [hT]; simp only [subset, hlt, if_true]
  rw [← hT] at hkm
  have c1 : CallSpec pr s eh (subset pr.op pr.vl th) k := ⟨th, hh, rfl, by omega⟩
  have c0 : CallSpec pr s el (subset pr.op pr.vl tl) k := ⟨tl, hl, rfl, by omega⟩
  cases d with
  | zero => exact .seq1 hT' hkm c0 (.call c1 (Nat.le_refl _)) (by omega)
  | succ d => exact .par hT' hkm (.call c1 (Nat.le_refl _)) (.call c0 (Nat.le_refl _)) (by omega)

theorem reduce_ok {pr : Par} {env : Env} {p : Policy} {st : St} (hinv : Inv env st) {fr : Frame}
    {r1 r0 : ZEdge} {T T1 T0 : ZDD} {n : Nat} (hT : T = mk fr.lvl T1 T0)
    (hk : KeyMeans env st.store fr.key T) (h1 : DenotesZ st.store r1 T1)
    (h0 : DenotesZ st.store r0 T0) (hn : 2 ≤ n) :
    StepOK pr env p st (reduceOut st fr r1 r0) T n := by
  refine ⟨StOK.mkNode hinv _ _ _ p, 1, by omega, ?_⟩
  subst hT
  exact .made (keyMeans_mono (mkNodeZ_le _ _ _ _) hk)
    (mkNodeZ_denotes st.store fr.lvl r1 r0 T1 T0 h1 h0) (Nat.le_refl _)

theorem pickLeft_true {path : List Bool} {t1 t0 : Task} (h : pickLeft path t1 t0 = true) :
    t1.ret? = none := by
  unfold pickLeft at h
  split at h <;> simp_all

theorem pickLeft_false {path : List Bool} {t1 t0 : Task} (h : pickLeft path t1 t0 = false)
    (hb : ¬ (∃ r1 r0, t1.ret? = some r1 ∧ t0.ret? = some r0)) : t0.ret? = none := by
  unfold pickLeft at h
  split at h
  · rename_i r1 h1
    cases h0 : t0.ret? with
    | none => rfl
    | some r0 => exact absurd ⟨_, _, h1, h0⟩ hb
  · cases h
  · assumption

/-- **every step of a `subset` task keeps everything** -/
theorem Task.step_ok {pr : Par} {p : Policy} (pok : p.OK) {env : Env} (hp : pr.OK env) {st : St}
    (hinv : Inv env st) {t : Task} {T : ZDD} {n : Nat} (h : TaskOK pr env st.store t T n) :
    ∀ (path : List Bool), t.ret? = none → StepOK pr env p st (t.step pr p st path) T n := by
  induction h with
  | ret h => intro _ hr; simp [Task.ret?] at hr
  | call hc hn => intro path _; exact entry_ok pok hp hinv _ hc hn
  | @miss d f T k n hm hn =>
    intro path _
    exact ⟨StOK.refl hinv, 2 * W k + 4, by omega, expand_ok hp d hm⟩
  | @seq1 fr f0 t1 T T1 T0 k0 n1 n hT hk hc h1 hn ih =>
    intro path _
    simp only [Task.step]
    cases hr : t1.ret? with
    | some r1 =>
      simp only
      refine ⟨StOK.refl hinv, W k0 + 3, by omega, ?_⟩
      exact .seq0 hT hk (h1.ret_den hr) (.call hc (Nat.le_refl _)) (Nat.le_refl _)
    | none =>
      simp only
      obtain ⟨hst, n', hlt, hok⟩ := ih path hr
      exact ⟨hst, n' + W k0 + 4, by omega,
        .seq1 hT (keyMeans_mono hst.le hk) (hc.mono hst.le) hok (Nat.le_refl _)⟩
  | @seq0 fr r1 t0 T T1 T0 n0 n hT hk hr1 h0 hn ih =>
    intro path _
    simp only [Task.step]
    cases hr : t0.ret? with
    | some r0 =>
      simp only
      exact reduce_ok hinv hT hk hr1 (h0.ret_den hr) (by omega)
    | none =>
      simp only
      obtain ⟨hst, n', hlt, hok⟩ := ih path hr
      exact ⟨hst, n' + 3, by omega,
        .seq0 hT (keyMeans_mono hst.le hk) (hr1.mono hst.le) hok (Nat.le_refl _)⟩
  | @par fr t1 t0 T T1 T0 n1 n0 n hT hk h1 h0 hn ih1 ih0 =>
    intro path _
    by_cases hb : ∃ r1 r0, t1.ret? = some r1 ∧ t0.ret? = some r0
    · obtain ⟨r1, r0, e1, e0⟩ := hb
      simp only [Task.step, e1, e0]
      exact reduce_ok hinv hT hk (h1.ret_den e1) (h0.ret_den e0) (by omega)
    · have hstep : Task.step pr p st (.par fr t1 t0) path =
          if pickLeft path t1 t0 then
            ((t1.step pr p st path.tail).1, .par fr (t1.step pr p st path.tail).2 t0)
          else ((t0.step pr p st path.tail).1, .par fr t1 (t0.step pr p st path.tail).2) := by
        simp only [Task.step]
        split
        · rename_i r1 r0 e1 e0; exact absurd ⟨_, _, e1, e0⟩ hb
        · rfl
      rw [hstep]
      cases hpk : pickLeft path t1 t0 with
      | true =>
        simp only [if_true]
        obtain ⟨hst, n', hlt, hok⟩ := ih1 path.tail (pickLeft_true hpk)
        exact ⟨hst, n' + n0 + 3, by omega,
          .par hT (keyMeans_mono hst.le hk) hok (h0.mono hst.le) (Nat.le_refl _)⟩
      | false =>
        simp only [Bool.false_eq_true, if_false]
        obtain ⟨hst, n', hlt, hok⟩ := ih0 path.tail (pickLeft_false hpk hb)
        exact ⟨hst, n1 + n' + 3, by omega,
          .par hT (keyMeans_mono hst.le hk) (h1.mono hst.le) hok (Nat.le_refl _)⟩
  | @made key r T n hk hr hn =>
    intro path _
    simp only [Task.step]
    exact ⟨StOK.add pok hinv hk hr, 0, by omega, .ret hr⟩

end OxiddModel.Zbdd.ThreadsSub
