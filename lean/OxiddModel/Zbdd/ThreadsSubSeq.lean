import OxiddModel.Zbdd.PropertiesC07TSub

/-!
# A ZBDD `subset` task running alone with the sequential recursor *is* `subsetS`

Counterpart of `Zbdd/ThreadsSeq.lean` for the machine of `Zbdd/ThreadsSub.lean`: a task `call 0 f`
that is the only one scheduled goes through exactly the shared states of
`subsetS p op var var_level fuel st f` (`SetOpsS.lean`) and ends in `ret` of exactly its edge.
-/
namespace OxiddModel.Zbdd.ThreadsSub
open OxiddModel.Zbdd OxiddModel.Zbdd.ZDD OxiddModel.Zbdd.Refine
open OxiddModel.Bdd.Refine (Policy OpTag Key Cache)
open OxiddModel.Zbdd.Threads (Act runOpt Frame Sel)

def step1 (pr : Par) (p : Policy) (x : Task × St) : Task × St :=
  ((x.1.step pr p x.2 []).2, runOpt p (x.1.step pr p x.2 []).1 x.2)

inductive Steps (pr : Par) (p : Policy) : Task × St → Task × St → Prop
  | refl (x) : Steps pr p x x
  | step {x y} : x.1.ret? = none → Steps pr p (step1 pr p x) y → Steps pr p x y

theorem Steps.trans {pr : Par} {p : Policy} {x y z : Task × St} (h1 : Steps pr p x y)
    (h2 : Steps pr p y z) : Steps pr p x z := by
  induction h1 with
  | refl => exact h2
  | step hr _ ih => exact .step hr (ih h2)

theorem Steps.one {pr : Par} {p : Policy} {x : Task × St} (hr : x.1.ret? = none) :
    Steps pr p x (step1 pr p x) := .step hr (.refl _)

theorem Steps.seq1 {pr : Par} {p : Policy} (fr : Frame) (f0 : ZEdge) {x y : Task × St}
    (h : Steps pr p x y) : Steps pr p (.seq1 fr f0 x.1, x.2) (.seq1 fr f0 y.1, y.2) := by
  induction h with
  | refl => exact .refl _
  | @step x y hr _ ih =>
    refine .step rfl ?_
    have : step1 pr p (.seq1 fr f0 x.1, x.2) = (.seq1 fr f0 (step1 pr p x).1, (step1 pr p x).2) := by
      simp only [step1, Task.step, hr]
    rw [this]; exact ih

theorem Steps.seq0 {pr : Par} {p : Policy} (fr : Frame) (r1 : ZEdge) {x y : Task × St}
    (h : Steps pr p x y) : Steps pr p (.seq0 fr r1 x.1, x.2) (.seq0 fr r1 y.1, y.2) := by
  induction h with
  | refl => exact .refl _
  | @step x y hr _ ih =>
    refine .step rfl ?_
    have : step1 pr p (.seq0 fr r1 x.1, x.2) = (.seq0 fr r1 (step1 pr p x).1, (step1 pr p x).2) := by
      simp only [step1, Task.step, hr]
    rw [this]; exact ih

/-- the arm "`var_level` above `level`" in one step -/
theorem step1_below (pr : Par) (p : Policy) (st : St) (f : ZEdge)
    (h : entry pr p st 0 f = below pr st f) :
    step1 pr p (.call 0 f, st) =
      (.ret (subsetBelowS pr.op pr.vl st f).2, (subsetBelowS pr.op pr.vl st f).1) := by
  simp only [step1, Task.step, h, below, subsetBelowS]
  cases pr.op <;> simp only [runOpt, Act.run, mkS]

/-- **the machine's sequential instance is `subsetS`** -/
theorem steps_subsetS {p : Policy} (pok : p.OK) (env : Env) (pr : Par) (hp : pr.OK env)
    (fuel : Nat) : ∀ (st : St) (f : ZEdge) (a : ZDD),
    Inv env st → DenotesZ st.store f a → a.size ≤ fuel →
    Steps pr p (.call 0 f, st)
      (.ret (subsetS p pr.op pr.var pr.vl fuel st f).2,
       (subsetS p pr.op pr.var pr.vl fuel st f).1) := by
  induction fuel with
  | zero =>
    intro st f a _ _ hsz
    have := size_pos a
    omega
  | succ fuel ih =>
    intro st f a hinv hf hsz
    cases hf with
    | empty =>
      have e2 : subsetS p pr.op pr.var pr.vl (fuel + 1) st .empty = subsetBelowS pr.op pr.vl st .empty := by
        simp only [subsetS, Store.node?]
      rw [e2, ← step1_below pr p st .empty (by simp only [entry, Store.node?])]
      exact Steps.one rfl
    | base =>
      have e2 : subsetS p pr.op pr.var pr.vl (fuel + 1) st .base = subsetBelowS pr.op pr.vl st .base := by
        simp only [subsetS, Store.node?]
      rw [e2, ← step1_below pr p st .base (by simp only [entry, Store.node?])]
      exact Steps.one rfl
    | @inner i l eh el th tl hi hh hl =>
      simp only [ZDD.size] at hsz
      by_cases h1 : l < pr.vl
      · cases hget : p.get st.tick st.cache (encKey ⟨subsetTag pr.op, [.inner i], [pr.var]⟩) with
        | some r =>
          have e1 : step1 pr p (.call 0 (.inner i), st) = (.ret (decE r), st.tickd) := by
            simp only [step1, Task.step, entry, Store.node?, hi, h1, if_true, Par.key, hget,
              runOpt, Act.run]
          have e2 : subsetS p pr.op pr.var pr.vl (fuel + 1) st (.inner i) = (st.tickd, decE r) := by
            simp only [subsetS, Store.node?, hi, h1, if_true, hget]
          rw [e2, ← e1]; exact Steps.one rfl
        | none =>
          have hp' := hp
          unfold Par.OK at hp'
          have p1 := subsetS_spec pok env pr.op pr.var fuel st.tickd eh th hinv.tickd hh (by omega)
          rw [← hp'] at p1
          have s1 := ih st.tickd eh th hinv.tickd hh (by omega)
          have s0 := ih _ el tl p1.inv (hl.mono p1.le) (by omega)
          have e2 : subsetS p pr.op pr.var pr.vl (fuel + 1) st (.inner i) =
              finishZ p (subsetS p pr.op pr.var pr.vl fuel
                  (subsetS p pr.op pr.var pr.vl fuel st.tickd eh).1 el).1
                ⟨subsetTag pr.op, [.inner i], [pr.var]⟩ l
                (subsetS p pr.op pr.var pr.vl fuel st.tickd eh).2
                (subsetS p pr.op pr.var pr.vl fuel
                  (subsetS p pr.op pr.var pr.vl fuel st.tickd eh).1 el).2 := by
            simp only [subsetS, Store.node?, hi, h1, if_true, hget]
          rw [e2]
          generalize subsetS p pr.op pr.var pr.vl fuel st.tickd eh = R1 at s1 s0 ⊢
          generalize subsetS p pr.op pr.var pr.vl fuel R1.1 el = R0 at s0 ⊢
          have e1 : step1 pr p (.call 0 (.inner i), st) = (.miss 0 (.inner i), st.tickd) := by
            simp only [step1, Task.step, entry, Store.node?, hi, h1, if_true, Par.key, hget,
              runOpt, Act.run]
          refine .step rfl ?_
          rw [e1]
          have e3 : step1 pr p (.miss 0 (.inner i), st.tickd) =
              (.seq1 ⟨⟨subsetTag pr.op, [.inner i], [pr.var]⟩, l⟩ el (.call 0 eh), st.tickd) := by
            simp only [step1, Task.step, expand, St.tickd_store, Store.node?, hi, fork, runOpt,
              Par.key]
          refine .step rfl ?_
          rw [e3]
          refine (Steps.seq1 _ _ s1).trans ?_
          refine .step rfl ?_
          have e4 : step1 pr p (.seq1 ⟨⟨subsetTag pr.op, [.inner i], [pr.var]⟩, l⟩ el (.ret R1.2), R1.1) =
              (.seq0 ⟨⟨subsetTag pr.op, [.inner i], [pr.var]⟩, l⟩ R1.2 (.call 0 el), R1.1) := by
            simp only [step1, Task.step, Task.ret?, runOpt]
          rw [e4]
          refine (Steps.seq0 _ _ s0).trans ?_
          refine .step rfl ?_
          have e5 : step1 pr p (.seq0 ⟨⟨subsetTag pr.op, [.inner i], [pr.var]⟩, l⟩ R1.2 (.ret R0.2), R0.1) =
              (.made ⟨subsetTag pr.op, [.inner i], [pr.var]⟩ (mkS R0.1 l R1.2 R0.2).2,
               (mkS R0.1 l R1.2 R0.2).1) := by
            simp only [step1, Task.step, Task.ret?, reduceOut, runOpt, Act.run, mkS]
          rw [e5]
          refine .step rfl ?_
          have e6 : step1 pr p (.made ⟨subsetTag pr.op, [.inner i], [pr.var]⟩ (mkS R0.1 l R1.2 R0.2).2,
               (mkS R0.1 l R1.2 R0.2).1) =
              (.ret (finishZ p R0.1 ⟨subsetTag pr.op, [.inner i], [pr.var]⟩ l R1.2 R0.2).2,
               (finishZ p R0.1 ⟨subsetTag pr.op, [.inner i], [pr.var]⟩ l R1.2 R0.2).1) := by
            simp only [step1, Task.step, runOpt, Act.run, finishZ, addZ]
          rw [e6]
          exact .refl _
      · by_cases h2 : l = pr.vl
        · subst h2
          cases hop : pr.op with
          | change =>
            have e1 : step1 pr p (.call 0 (.inner i), st) =
                (.ret (mkS st pr.vl el eh).2, (mkS st pr.vl el eh).1) := by
              simp only [step1, Task.step, entry, Store.node?, hi, Nat.lt_irrefl, if_true, if_false,
                hop, runOpt, Act.run, mkS]
            have e2 : subsetS p .change pr.var pr.vl (fuel + 1) st (.inner i) =
                mkS st pr.vl el eh := by
              simp only [subsetS, Store.node?, hi, Nat.lt_irrefl, if_true, if_false]
            rw [e2, ← e1]; exact Steps.one rfl
          | subset0 =>
            have e1 : step1 pr p (.call 0 (.inner i), st) = (.ret el, st) := by
              simp only [step1, Task.step, entry, Store.node?, hi, Nat.lt_irrefl, if_true, if_false,
                hop, runOpt]
            have e2 : subsetS p .subset0 pr.var pr.vl (fuel + 1) st (.inner i) = (st, el) := by
              simp only [subsetS, Store.node?, hi, Nat.lt_irrefl, if_true, if_false]
            rw [e2, ← e1]; exact Steps.one rfl
          | subset1 =>
            have e1 : step1 pr p (.call 0 (.inner i), st) = (.ret eh, st) := by
              simp only [step1, Task.step, entry, Store.node?, hi, Nat.lt_irrefl, if_true, if_false,
                hop, runOpt]
            have e2 : subsetS p .subset1 pr.var pr.vl (fuel + 1) st (.inner i) = (st, eh) := by
              simp only [subsetS, Store.node?, hi, Nat.lt_irrefl, if_true, if_false]
            rw [e2, ← e1]; exact Steps.one rfl
        · have e2 : subsetS p pr.op pr.var pr.vl (fuel + 1) st (.inner i) =
              subsetBelowS pr.op pr.vl st (.inner i) := by
            simp only [subsetS, Store.node?, hi, h1, h2, if_false]
          rw [e2, ← step1_below pr p st (.inner i)
            (by simp only [entry, Store.node?, hi, h1, h2, if_false])]
          exact Steps.one rfl

theorem Steps.run {pr : Par} {p : Policy} {x y : Task × St} (h : Steps pr p x y) :
    ∃ n, (Cfg.run p ⟨x.2, [⟨pr, x.1⟩]⟩ (List.replicate n ⟨0, []⟩)) = ⟨y.2, [⟨pr, y.1⟩]⟩ ∧
      Cfg.allEnabled p ⟨x.2, [⟨pr, x.1⟩]⟩ (List.replicate n ⟨0, []⟩) = true := by
  induction h with
  | refl x => exact ⟨0, rfl, rfl⟩
  | @step x y hr _ ih =>
    obtain ⟨n, h1, h2⟩ := ih
    have hs : Cfg.step p ⟨x.2, [⟨pr, x.1⟩]⟩ ⟨0, []⟩ = ⟨(step1 pr p x).2, [⟨pr, (step1 pr p x).1⟩]⟩ := by
      simp [Cfg.step, hr, step1]
    refine ⟨n + 1, ?_, ?_⟩
    · simp only [List.replicate_succ, Cfg.run]; rw [hs]; exact h1
    · simp only [List.replicate_succ, Cfg.allEnabled, Bool.and_eq_true]
      refine ⟨by simp [Cfg.enabled, hr], ?_⟩
      rw [hs]; exact h2

/-- **The `subset` machine's sequential instance is the model**: one operation with split depth 0,
selected `n` times (all enabled), ends in exactly `subsetS`'s store (slot for slot), cache, time
stamp and edge. -/
theorem sequential_schedule_is_model {p : Policy} (pok : p.OK) (env : Env) (st : St) (j : Job)
    (hd : j.d = 0) (hp : j.pr.OK env) (hinv : Inv env st) (a : ZDD) (ha : DenotesZ st.store j.f a)
    (fuel : Nat) (hfuel : a.size ≤ fuel) :
    ∃ n, (Cfg.init st [j]).run p (List.replicate n ⟨0, []⟩) =
        ⟨(j.seq p fuel st).1, [⟨j.pr, .ret (j.seq p fuel st).2⟩]⟩ ∧
      (Cfg.init st [j]).allEnabled p (List.replicate n ⟨0, []⟩) = true := by
  obtain ⟨d, pr, f⟩ := j
  simp only at hd hp ha
  subst hd
  exact (steps_subsetS pok env pr hp fuel st f a hinv ha hfuel).run

open OxiddModel.Zbdd.Threads (exEnv exSt exSt_inv exPol_ok exG eG exStore_G) in
example := sequential_schedule_is_model exPol_ok exEnv exSt ⟨0, ⟨.change, 1, 1⟩, eG⟩ rfl rfl
  exSt_inv exG exStore_G 12 (by decide)

end OxiddModel.Zbdd.ThreadsSub
