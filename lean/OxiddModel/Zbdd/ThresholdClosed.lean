import OxiddModel.Zbdd.PropertiesC14T
import OxiddModel.Zbdd.PropertiesC06

/-!
# C14 for ZBDDs: `needed` in closed form — a function of the store and the result tree only

`PropertiesC14T.lean` defines `needed` as the growth of the capacity-free run *with the same cache
policy, cache content and fuel*. For the set operations and `subset0/subset1/change` the final
store of that run is `intern s T` for the specified result family `T` (`Post.canon` of
`SetOpsS.lean`: every node an inner call creates is a sub-diagram of its caller's result — no
intermediate garbage). Hence, from a hash-consed (`Unique`), zero-suppressed (`NoRed`) store with a
sound cache and sufficient fuel,

  `needed = fresh s T` := number of nodes of the result diagram that `s` does not hold yet,

which depends on **neither the cache policy nor the cache content nor the fuel**. Combined with
the structural threshold theorem: OutOfMemory iff `0 < fresh ∧ cap < count + fresh`.
-/
namespace OxiddModel.Zbdd.C14T
open OxiddModel.Zbdd OxiddModel.Zbdd.ZDD OxiddModel.Zbdd.Refine OxiddModel.Zbdd.Rc
open OxiddModel.Bdd.Refine (Policy OpTag Key Cache)

/-- number of nodes that entering the tree `T` into store `s` allocates -/
def fresh (s : Store) (T : ZDD) : Nat := count (intern s T).1 - count s

theorem growth_eq_fresh {env : Env} {s : Store} {T : ZDD} {R : St × ZEdge} (h : Post env s T R)
    (hr : s.NoRed) : growth s R = fresh s T := by
  have := congrArg Prod.fst (h.canon hr)
  simp only at this
  unfold growth fresh
  rw [this]

/-- **`needed` of the set operations does not depend on the cache policy, the cache content or
the fuel**: it is the number of nodes of `setOp op a b` that are not stored. -/
theorem neededSetOp_eq_fresh {p : Policy} (pok : p.OK) (env : Env) (op : SetOp) (fuel : Nat)
    (st : St) (f g : ZEdge) (a b : ZDD) (hu : st.store.Unique) (hr : st.store.NoRed)
    (hc : CacheOK env st.store st.cache) (hf : DenotesZ st.store f a) (hg : DenotesZ st.store g b)
    (hfuel : a.size + b.size ≤ fuel) :
    neededSetOp p op fuel st f g = fresh st.store (setOp op a b) :=
  growth_eq_fresh (setOpS_spec pok env op fuel st f g a b ⟨hu, hc⟩ hf hg hfuel) hr

theorem neededSubset_eq_fresh {p : Policy} (pok : p.OK) (env : Env) (op : SubsetOp) (var : Nat)
    (fuel : Nat) (st : St) (f : ZEdge) (a : ZDD) (hu : st.store.Unique) (hr : st.store.NoRed)
    (hc : CacheOK env st.store st.cache) (hf : DenotesZ st.store f a) (hfuel : a.size ≤ fuel) :
    neededSubset p op var (env.levelOf var) fuel st f = fresh st.store (subset op (env.levelOf var) a) :=
  growth_eq_fresh (subsetS_spec pok env op var fuel st f a ⟨hu, hc⟩ hf hfuel) hr

/-- **the threshold in closed form**: `apply_union/…` reports OutOfMemory iff the result diagram
has nodes that are not stored and the capacity is below `count + (number of those nodes)` — for
every admissible cache policy, every sound cache, every sufficient fuel, every counter array. -/
theorem setop_oom_iff_fresh {p : Policy} (pok : p.OK) (env : Env) (cap : Nat) (op : SetOp)
    (fuel : Nat) (r : RSt) (f g : ZEdge) (a b : ZDD) (hu : r.st.store.Unique)
    (hr : r.st.store.NoRed) (hc : CacheOK env r.st.store r.st.cache)
    (hf : DenotesZ r.st.store f a) (hg : DenotesZ r.st.store g b) (hfuel : a.size + b.size ≤ fuel) :
    (setOpR cap p op fuel r f g).1 = none ↔
      0 < fresh r.st.store (setOp op a b) ∧ cap < count r.st.store + fresh r.st.store (setOp op a b) := by
  rw [setop_oom_iff_needed, neededSetOp_eq_fresh pok env op fuel r.st f g a b hu hr hc hf hg hfuel]

theorem subset_oom_iff_fresh {p : Policy} (pok : p.OK) (env : Env) (cap : Nat) (op : SubsetOp)
    (var fuel : Nat) (r : RSt) (f : ZEdge) (a : ZDD) (hu : r.st.store.Unique)
    (hr : r.st.store.NoRed) (hc : CacheOK env r.st.store r.st.cache)
    (hf : DenotesZ r.st.store f a) (hfuel : a.size ≤ fuel) :
    (subsetR cap p op var (env.levelOf var) fuel r f).1 = none ↔
      0 < fresh r.st.store (subset op (env.levelOf var) a) ∧
      cap < count r.st.store + fresh r.st.store (subset op (env.levelOf var) a) := by
  rw [subset_oom_iff_needed, neededSubset_eq_fresh pok env op var fuel r.st f a hu hr hc hf hfuel]

/-- a result that is already stored costs nothing: the operation succeeds in a full store -/
theorem fresh_of_denotes {s : Store} (hu : s.Unique) (hr : s.NoRed) {x : ZEdge} {T : ZDD}
    (h : DenotesZ s x T) : fresh s T = 0 := by
  unfold fresh
  rw [intern_of_denotes hu hr h]
  exact Nat.sub_self _

/-- non-vacuity (`C06.exStore` holds the families `exA`, `exB`): the union needs the same number
of nodes with an exact cache, a warm cache and no cache at all -/
example : neededSetOp Policy.exact .union 10 ⟨C06.exStore, [], 0⟩ (.inner 1) (.inner 2) =
      neededSetOp Policy.none .union 10 ⟨C06.exStore, [], 7⟩ (.inner 1) (.inner 2) ∧
    neededSetOp Policy.exact .union 10 ⟨C06.exStore, [], 0⟩ (.inner 1) (.inner 2) =
      fresh C06.exStore (setOp .union C06.exA C06.exB) := by
  decide +kernel

end OxiddModel.Zbdd.C14T
