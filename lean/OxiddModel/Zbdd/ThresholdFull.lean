import OxiddModel.Zbdd.PropertiesC14T

/-!
# After a failed ZBDD operation the store is exactly full; the capacity is never exceeded

Complement of `ThresholdS.lean` on the capped side alone (no reference to the capacity-free run):
every run of `setOpR / subsetR / notR` under capacity `cap`

* never removes a node (`mono`),
* stays within the capacity if it started within it (`bound`),
* and when it reports OutOfMemory at least `cap` nodes are stored (`err`) — the error is never
  spurious.

Together: after a failure from a store within its capacity exactly `cap` nodes are stored; after a
success exactly `count + needed` (`C14T.setop_final_count`, …). Structural: all stores, counters,
caches, policies, fuels, operands, capacities.
-/
namespace OxiddModel.Zbdd.Rc
open OxiddModel.Zbdd OxiddModel.Zbdd.ZDD OxiddModel.Zbdd.Refine
open OxiddModel.Bdd.Refine (Policy OpTag Key Cache)

structure Full (cap : Nat) (s : Store) (R : Option ZEdge × RSt) : Prop where
  mono : count s ≤ count R.2.st.store
  bound : count s ≤ cap → count R.2.st.store ≤ cap
  err : R.1 = none → cap ≤ count R.2.st.store

theorem Full.pure {cap : Nat} {s : Store} {x : ZEdge} {r : RSt} (h : r.st.store = s) :
    Full cap s (some x, r) :=
  ⟨by show count s ≤ count r.st.store; rw [h]; exact Nat.le_refl _,
   fun hc => by show count r.st.store ≤ cap; rw [h]; exact hc, fun h => by cases h⟩

/-- a run continued from an intermediate state `r1` that was reached without leaving the bounds -/
theorem Full.seq {cap : Nat} {s : Store} {r1 : RSt} {R : Option ZEdge × RSt}
    (m1 : count s ≤ count r1.st.store) (b1 : count s ≤ cap → count r1.st.store ≤ cap)
    (h : Full cap r1.st.store R) : Full cap s R :=
  ⟨Nat.le_trans m1 h.mono, fun hc => h.bound (b1 hc), h.err⟩

/-- a failure passed on (`?`), possibly after dropping edges -/
theorem Full.fail {cap : Nat} {s : Store} {r1 r' : RSt} (h1 : Full cap s (none, r1))
    (hs : r'.st.store = r1.st.store) : Full cap s (none, r') :=
  ⟨by show count s ≤ count r'.st.store; rw [hs]; exact h1.mono,
   fun hc => by show count r'.st.store ≤ cap; rw [hs]; exact h1.bound hc,
   fun _ => by show cap ≤ count r'.st.store; rw [hs]; exact h1.err rfl⟩

theorem insertR_full (cap : Nat) (r : RSt) (l : Nat) (t e : ZEdge) :
    Full cap r.st.store (insertR cap r l t e) := by
  unfold insertR
  cases hf : r.st.store.find? ⟨l, t, e⟩ with
  | some i => exact Full.pure (by simp)
  | none =>
    simp only
    by_cases hc : count r.st.store < cap
    · simp only [hc, if_true]
      refine ⟨?_, fun _ => ?_, fun h => by cases h⟩
      · show count r.st.store ≤ count (r.st.store.alloc ⟨l, t, e⟩).1
        rw [count_alloc]; omega
      · show count (r.st.store.alloc ⟨l, t, e⟩).1 ≤ cap
        rw [count_alloc]; omega
    · simp only [hc, if_false]
      refine ⟨?_, fun h => ?_, fun _ => ?_⟩ <;>
        simp only [dropEdge_st] <;> omega

theorem mkNodeR_full (cap : Nat) (r : RSt) (l : Nat) (t e : ZEdge) :
    Full cap r.st.store (mkNodeR cap r l t e) := by
  unfold mkNodeR
  split
  · exact Full.pure rfl
  · exact insertR_full cap r l t e

theorem mkNodeBR_full (cap : Nat) (r : RSt) (l : Nat) (t e : ZEdge) :
    Full cap r.st.store (mkNodeBR cap r l t e) := by
  unfold mkNodeBR
  split
  · exact Full.pure rfl
  · have := insertR_full cap (cloneEdge r t) l t e
    simp only [cloneEdge_st] at this
    exact this

theorem finishAdd_full {cap : Nat} {s : Store} {p : Policy} {key : ZKey}
    {R : Option ZEdge × RSt} (h : Full cap s R) : Full cap s (finishAdd p key R) := by
  obtain ⟨o, r⟩ := R
  cases o with
  | none => exact h
  | some x => exact ⟨h.mono, h.bound, fun e => by cases e⟩

theorem bindR_full {cap : Nat} {c : RSt → Option ZEdge × RSt}
    {k : RSt → ZEdge → Option ZEdge × RSt} (hc : ∀ r, Full cap r.st.store (c r))
    (hk : ∀ r x, Full cap r.st.store (k r x)) (r : RSt) : Full cap r.st.store (bindR c k r) := by
  unfold bindR
  have h := hc r
  cases hcr : c r with
  | mk o r1 =>
    rw [hcr] at h
    cases o with
    | none => exact h
    | some x => exact Full.seq h.mono h.bound (hk r1 x)

theorem forkR_full {cap : Nat} {c1 c0 : RSt → Option ZEdge × RSt}
    {k : RSt → ZEdge → ZEdge → Option ZEdge × RSt} (h1 : ∀ r, Full cap r.st.store (c1 r))
    (h0 : ∀ r, Full cap r.st.store (c0 r)) (hk : ∀ r hi lo, Full cap r.st.store (k r hi lo))
    (r : RSt) : Full cap r.st.store (forkR c1 c0 k r) := by
  unfold forkR
  have a := h1 r
  cases hc1 : c1 r with
  | mk o1 r1 =>
    rw [hc1] at a
    cases o1 with
    | none => exact a
    | some hi =>
      simp only
      have b := h0 r1
      cases hc0 : c0 r1 with
      | mk o0 r0 =>
        rw [hc0] at b
        cases o0 with
        | none => exact Full.seq a.mono a.bound (Full.fail b (dropEdge_st r0 hi ▸ rfl))
        | some lo => exact Full.seq a.mono a.bound (Full.seq b.mono b.bound (hk r0 hi lo))

theorem setBodyR_full (cap : Nat) (p : Policy) (op : SetOp)
    (recR : RSt → ZEdge → ZEdge → Option ZEdge × RSt)
    (hrec : ∀ r f g, Full cap r.st.store (recR r f g)) (r : RSt) (f g : ZEdge) :
    Full cap r.st.store (setBodyR cap p op recR r f g) := by
  unfold setBodyR
  cases hget : p.get r.st.tick r.st.cache (encKey ⟨setTag op, [f, g], []⟩) with
  | some x => exact Full.pure (by simp)
  | none =>
    simp only
    cases hcmp : r.st.store.cmpLevels f g with
    | lt nf =>
      simp only
      split
      · exact finishAdd_full (bindR_full (fun s => hrec s _ _) (fun s x => mkNodeBR_full cap s _ _ _) r.tickd)
      · exact finishAdd_full (hrec r.tickd _ _)
    | eq nf ng =>
      exact finishAdd_full (forkR_full (fun s => hrec s _ _) (fun s => hrec s _ _)
        (fun s hi lo => mkNodeR_full cap s _ _ _) r.tickd)
    | gt ng =>
      simp only
      split
      · exact finishAdd_full (bindR_full (fun s => hrec s _ _) (fun s x => mkNodeBR_full cap s _ _ _) r.tickd)
      · exact finishAdd_full (hrec r.tickd _ _)
    | none => exact Full.pure (by simp)

/-- **`setOpR` never exceeds the capacity and fails only in a full store** -/
theorem setOpR_full (cap : Nat) (p : Policy) (op : SetOp) (fuel : Nat) :
    ∀ (r : RSt) (f g : ZEdge), Full cap r.st.store (setOpR cap p op fuel r f g) := by
  induction fuel with
  | zero => intro r f g; simp only [setOpR]; exact Full.pure (by simp)
  | succ fuel ih =>
    intro r f g
    simp only [setOpR]
    cases hT : terminalS op f g with
    | some x => exact Full.pure (by simp)
    | none =>
      simp only
      split
      · exact setBodyR_full cap p op _ ih r g f
      · exact setBodyR_full cap p op _ ih r f g

theorem subsetBelowR_full (cap : Nat) (op : SubsetOp) (vl : Nat) (r : RSt) (f : ZEdge) :
    Full cap r.st.store (subsetBelowR cap op vl r f) := by
  cases op <;> simp only [subsetBelowR]
  · exact Full.pure (by simp)
  · exact Full.pure rfl
  · have := mkNodeR_full cap (cloneEdge r f) vl f .empty
    simp only [cloneEdge_st] at this
    exact this

/-- **`subsetR` never exceeds the capacity and fails only in a full store** -/
theorem subsetR_full (cap : Nat) (p : Policy) (op : SubsetOp) (var vl : Nat) (fuel : Nat) :
    ∀ (r : RSt) (f : ZEdge), Full cap r.st.store (subsetR cap p op var vl fuel r f) := by
  induction fuel with
  | zero => intro r f; simp only [subsetR]; exact Full.pure (by simp)
  | succ fuel ih =>
    intro r f
    simp only [subsetR]
    cases hn : r.st.store.node? f with
    | none => exact subsetBelowR_full cap op vl r f
    | some n =>
      simp only
      by_cases h1 : n.level < vl
      · simp only [h1, if_true]
        cases hget : p.get r.st.tick r.st.cache (encKey ⟨subsetTag op, [f], [var]⟩) with
        | some x => exact Full.pure (by simp)
        | none =>
          exact finishAdd_full (forkR_full (fun s => ih s _) (fun s => ih s _)
            (fun s hi lo => mkNodeR_full cap s _ _ _) r.tickd)
      · simp only [h1, if_false]
        by_cases h2 : n.level = vl
        · simp only [h2, if_true]
          cases op <;> simp only
          · exact Full.pure (by simp)
          · exact Full.pure (by simp)
          · have := mkNodeBR_full cap (cloneEdge r n.hi) vl n.lo n.hi
            simp only [cloneEdge_st] at this
            rw [← h2] at this ⊢
            exact this
        · simp only [h2, if_false]
          exact subsetBelowR_full cap op vl r f

end OxiddModel.Zbdd.Rc

namespace OxiddModel.Zbdd.C14T
open OxiddModel.Zbdd OxiddModel.Zbdd.ZDD OxiddModel.Zbdd.Refine OxiddModel.Zbdd.Rc
open OxiddModel.Bdd.Refine (Policy OpTag Key Cache)

theorem final_count_of {cap : Nat} {s : Store} {R : Option ZEdge × RSt} {S : St × ZEdge}
    (h : Full cap s R) (e : Erases R S) (hc : count s ≤ cap) :
    count R.2.st.store = if R.1 = none then cap else count s + growth s S := by
  split
  · rename_i hn
    exact Nat.le_antisymm (h.bound hc) (h.err hn)
  · rename_i hs
    cases hR : R.1 with
    | none => exact absurd hR hs
    | some x =>
      have := e x hR
      have m := h.mono
      unfold growth
      rw [this]
      simp only
      omega

/-- **after a failed set operation exactly `cap` nodes are stored, after a successful one exactly
`count + needed`; the capacity is never exceeded** (started within the capacity) -/
theorem setop_final_count (cap : Nat) (p : Policy) (op : SetOp) (fuel : Nat) (r : RSt)
    (f g : ZEdge) (hc : count r.st.store ≤ cap) :
    count (setOpR cap p op fuel r f g).2.st.store =
      if (setOpR cap p op fuel r f g).1 = none then cap
      else count r.st.store + neededSetOp p op fuel r.st f g :=
  final_count_of (setOpR_full cap p op fuel r f g) (setOpR_erase' cap p op fuel r f g) hc

theorem subset_final_count (cap : Nat) (p : Policy) (op : SubsetOp) (var vl fuel : Nat) (r : RSt)
    (f : ZEdge) (hc : count r.st.store ≤ cap) :
    count (subsetR cap p op var vl fuel r f).2.st.store =
      if (subsetR cap p op var vl fuel r f).1 = none then cap
      else count r.st.store + neededSubset p op var vl fuel r.st f :=
  final_count_of (subsetR_full cap p op var vl fuel r f) (subsetR_erase' cap p op var vl fuel r f) hc

theorem not_final_count (cap : Nat) (p : Policy) (chain : List ZEdge) (fuel : Nat) (r : RSt)
    (f : ZEdge) (hc : count r.st.store ≤ cap) :
    count (notR cap p chain fuel r f).2.st.store =
      if (notR cap p chain fuel r f).1 = none then cap
      else count r.st.store + neededNot p chain fuel r.st f :=
  setop_final_count cap p .diff fuel r (tautologyS chain 0) f hc

/-- the capacity is respected by every run, successful or not -/
theorem setop_capacity_respected (cap : Nat) (p : Policy) (op : SetOp) (fuel : Nat) (r : RSt)
    (f g : ZEdge) (hc : count r.st.store ≤ cap) :
    count (setOpR cap p op fuel r f g).2.st.store ≤ cap :=
  (setOpR_full cap p op fuel r f g).bound hc

open OxiddModel.Zbdd.C05R in
/-- non-vacuity: the symmetric difference of `exCmds` in the six-node store `exRun 6` (`needed = 1`):
under capacity 6 it fails and six nodes are stored, under capacity 7 it succeeds and seven are -/
example : count (setOpR 6 Policy.exact .symmDiff 10 (exRun 6).r (.inner 5) (.inner 3)).2.st.store = 6 ∧
    count (setOpR 7 Policy.exact .symmDiff 10 (exRun 6).r (.inner 5) (.inner 3)).2.st.store = 7 := by
  decide +kernel

end OxiddModel.Zbdd.C14T
