import OxiddModel.Zbdd.RcSLemmas

/-!
# The out-of-memory threshold of the ZBDD set operations and `subset0/subset1/change` — exactly

`RcS.lean` runs `apply_union / apply_intsec / apply_diff / apply_symm_diff`, `apply_not` and
`subset::<VAL>` on the id store with one counter per node **and a node capacity** (`insertR`:
`add_node` fails when `count = cap` and a fresh slot is needed). `RcSLemmas.lean` proves that a
*successful* capped run is the capacity-free run of `SetOpsS.lean` (`Erases`). This file proves
the converse direction, which turns the relation into a *prediction*:

  the capped run succeeds **iff** the capacity-free run `Fits` the capacity

(`Thr`), where `Fits cap s s'` says that the final node count of the capacity-free run is within
the capacity, or that the run allocates nothing at all. Since the capacity-free run only adds
nodes (`setOpS_mono`, `subsetS_mono`), with

  `needed := count (capacity-free run).store − count store`

(it does not mention the capacity) the capped run reports OutOfMemory iff
`0 < needed ∧ cap < count + needed`. Everything here is structural: it holds for every store
(hash-consed or not), every counter array, every cache policy and cache content, all operands, all
capacities and every fuel.
-/
namespace OxiddModel.Zbdd.Rc
open OxiddModel.Zbdd OxiddModel.Zbdd.ZDD OxiddModel.Zbdd.Refine
open OxiddModel.Bdd.Refine (Policy OpTag Key Cache)

/-! ## counting -/

theorem count_alloc (s : Store) (n : ZNode) : count (s.alloc n).1 = count s + 1 := by
  unfold Store.alloc
  split
  · rename_i i hi
    obtain ⟨hlt, heq⟩ := Array.findIdx?_eq_some_iff_findIdx_eq.mp hi
    have hnone := Array.findIdx_getElem (xs := s.nodes) (p := (· == none)) (w := by rw [heq]; exact hlt)
    simp only [heq] at hnone
    have hn : s.nodes[i] = none := beq_iff_eq.mp hnone
    simp only [count, Array.set!_eq_setIfInBounds, Array.setIfInBounds_def, hlt, dite_true]
    rw [Array.countP_set]
    simp [hn]
  · simp [count]

theorem count_getOrInsert (s : Store) (n : ZNode) :
    count (s.getOrInsert n).1 = if s.find? n = none then count s + 1 else count s := by
  unfold Store.getOrInsert
  cases h : s.find? n with
  | some i => simp
  | none => simp [count_alloc]

/-- the run from `s` to `s'` fits into capacity `cap`: the final count is within the capacity, or
nothing was allocated at all -/
def Fits (cap : Nat) (s s' : Store) : Prop := count s' ≤ cap ∨ count s' = count s

theorem Fits.refl (cap : Nat) (s : Store) : Fits cap s s := .inr rfl

theorem Fits.trans {cap : Nat} {a b c : Store} (h1 : Fits cap a b) (h2 : Fits cap b c) :
    Fits cap a c := by
  unfold Fits at *; omega

theorem Fits.split {cap : Nat} {a b c : Store} (h : Fits cap a c) (h1 : count a ≤ count b)
    (h2 : count b ≤ count c) : Fits cap a b ∧ Fits cap b c := by
  unfold Fits at *; omega

theorem Fits.mono {c c' : Nat} {a b : Store} (h : Fits c a b) (hc : c ≤ c') : Fits c' a b := by
  unfold Fits at *; omega

theorem Fits.of_eq {cap : Nat} {a b : Store} (h : b = a) : Fits cap a b := by
  subst h; exact Fits.refl _ _

/-! ## the capacity-free algorithms only add nodes -/

theorem count_mkS_ge (st : St) (l : Nat) (hi lo : ZEdge) :
    count st.store ≤ count (mkS st l hi lo).1.store := by
  show count st.store ≤ count (st.store.mkNodeZ l hi lo).1
  unfold Store.mkNodeZ
  split
  · exact Nat.le_refl _
  · rw [count_getOrInsert]; split <;> omega

theorem count_finishZ_ge (p : Policy) (st : St) (key : ZKey) (l : Nat) (hi lo : ZEdge) :
    count st.store ≤ count (finishZ p st key l hi lo).1.store :=
  count_mkS_ge st l hi lo

theorem setBody_mono (p : Policy) (op : SetOp) (recS : St → ZEdge → ZEdge → St × ZEdge)
    (hrec : ∀ st f g, count st.store ≤ count (recS st f g).1.store) (st : St) (f g : ZEdge) :
    count st.store ≤ count (setBody p op recS st f g).1.store := by
  unfold setBody
  split
  · exact Nat.le_refl _
  · split
    · simp only
      split
      · exact Nat.le_trans (hrec st.tickd _ _) (count_finishZ_ge _ _ _ _ _ _)
      · exact hrec st.tickd _ _
    · simp only
      exact Nat.le_trans (hrec st.tickd _ _)
        (Nat.le_trans (hrec _ _ _) (count_finishZ_ge _ _ _ _ _ _))
    · simp only
      split
      · exact Nat.le_trans (hrec st.tickd _ _) (count_finishZ_ge _ _ _ _ _ _)
      · exact hrec st.tickd _ _
    · exact Nat.le_refl _

/-- **the capacity-free set operations never remove a node** -/
theorem setOpS_mono (p : Policy) (op : SetOp) (fuel : Nat) :
    ∀ (st : St) (f g : ZEdge), count st.store ≤ count (setOpS p op fuel st f g).1.store := by
  induction fuel with
  | zero => intro st f g; exact Nat.le_refl _
  | succ fuel ih =>
    intro st f g
    simp only [setOpS]
    split
    · exact Nat.le_refl _
    · split
      · exact setBody_mono p op _ ih st g f
      · exact setBody_mono p op _ ih st f g

theorem subsetBelowS_mono (op : SubsetOp) (vl : Nat) (st : St) (f : ZEdge) :
    count st.store ≤ count (subsetBelowS op vl st f).1.store := by
  cases op <;> simp only [subsetBelowS]
  · exact Nat.le_refl _
  · exact Nat.le_refl _
  · exact count_mkS_ge _ _ _ _

theorem subsetS_mono (p : Policy) (op : SubsetOp) (var vl : Nat) (fuel : Nat) :
    ∀ (st : St) (f : ZEdge), count st.store ≤ count (subsetS p op var vl fuel st f).1.store := by
  induction fuel with
  | zero => intro st f; exact Nat.le_refl _
  | succ fuel ih =>
    intro st f
    simp only [subsetS]
    split
    · split
      · split
        · exact Nat.le_refl _
        · exact Nat.le_trans (ih st.tickd _)
            (Nat.le_trans (ih _ _) (count_finishZ_ge _ _ _ _ _ _))
      · split
        · cases op <;> first | exact Nat.le_refl _ | exact count_mkS_ge _ _ _ _
        · exact subsetBelowS_mono op vl st f
    · exact subsetBelowS_mono op vl st f

/-! ## `get_or_insert`, `reduce`, `reduce_borrowed`: success iff the slot is there -/

theorem insertR_isSome (cap : Nat) (r : RSt) (l : Nat) (t e : ZEdge) :
    (insertR cap r l t e).1.isSome = true ↔
      Fits cap r.st.store (r.st.store.getOrInsert ⟨l, t, e⟩).1 := by
  unfold insertR Store.getOrInsert Fits
  cases hf : r.st.store.find? ⟨l, t, e⟩ with
  | some i => simp
  | none =>
    simp only
    by_cases hc : count r.st.store < cap
    · simp only [hc, if_true, Option.isSome_some, count_alloc, true_iff]; omega
    · simp only [hc, if_false, Option.isSome_none, count_alloc, Bool.false_eq_true, false_iff]; omega

theorem mkNodeR_isSome (cap : Nat) (r : RSt) (l : Nat) (t e : ZEdge) :
    (mkNodeR cap r l t e).1.isSome = true ↔ Fits cap r.st.store (mkS r.st l t e).1.store := by
  show _ ↔ Fits cap r.st.store (r.st.store.mkNodeZ l t e).1
  unfold mkNodeR Store.mkNodeZ
  by_cases ht : t = .empty
  · simp only [ht, if_true, Option.isSome_some, true_iff]; exact Fits.refl _ _
  · simp only [ht, if_false]; exact insertR_isSome cap r l t e

theorem mkNodeBR_isSome (cap : Nat) (r : RSt) (l : Nat) (t e : ZEdge) :
    (mkNodeBR cap r l t e).1.isSome = true ↔ Fits cap r.st.store (mkS r.st l t e).1.store := by
  show _ ↔ Fits cap r.st.store (r.st.store.mkNodeZ l t e).1
  unfold mkNodeBR Store.mkNodeZ
  by_cases ht : t = .empty
  · simp only [ht, if_true, Option.isSome_some, true_iff]; exact Fits.refl _ _
  · simp only [ht, if_false]
    have := insertR_isSome cap (cloneEdge r t) l t e
    simp only [cloneEdge_st] at this
    exact this

/-! ## the threshold relation and the control-flow combinators -/

/-- the capped run `R` started in store `s` succeeds **iff** the capacity-free run `S` fits -/
def Thr (cap : Nat) (s : Store) (R : Option ZEdge × RSt) (S : St × ZEdge) : Prop :=
  R.1.isSome = true ↔ Fits cap s S.1.store

theorem Thr.pure {cap : Nat} {s : Store} {x : ZEdge} {r : RSt} {S : St × ZEdge}
    (h : S.1.store = s) : Thr cap s (some x, r) S := by
  unfold Thr
  simp only [Option.isSome_some, true_iff]
  exact Fits.of_eq h

theorem finishAdd_isSome (p : Policy) (key : ZKey) (R : Option ZEdge × RSt) :
    (finishAdd p key R).1.isSome = R.1.isSome := by
  obtain ⟨o, r⟩ := R
  cases o <;> rfl

/-- `let h = c()?; add(key, h); Ok(h)` against `addZ` -/
theorem Thr.pass {cap : Nat} {s : Store} {p : Policy} {key : ZKey} {R : Option ZEdge × RSt}
    {S : St × ZEdge} (h : Thr cap s R S) :
    Thr cap s (finishAdd p key R) (addZ p S.1 key S.2) := by
  unfold Thr at *
  rw [finishAdd_isSome]
  exact h

/-- `let lo = c()?; reduce_borrowed(level, hi, lo)?; add` against `finishZ` -/
theorem Thr.bind {cap : Nat} {p : Policy} {key : ZKey} {lvl : Nat} {hi : ZEdge}
    {c : RSt → Option ZEdge × RSt} {r : RSt} {S0 : St × ZEdge}
    (h0 : Thr cap r.st.store (c r) S0) (e0 : Erases (c r) S0)
    (m0 : count r.st.store ≤ count S0.1.store) :
    Thr cap r.st.store (finishAdd p key (bindR c (fun s lo => mkNodeBR cap s lvl hi lo) r))
      (finishZ p S0.1 key lvl hi S0.2) := by
  unfold Thr at *
  rw [finishAdd_isSome]
  show _ ↔ Fits cap r.st.store (mkS S0.1 lvl hi S0.2).1.store
  cases hc : c r with
  | mk o r0 =>
    rw [hc] at h0 e0
    cases o with
    | none =>
      simp only [bindR, hc, Option.isSome_none, Bool.false_eq_true, false_iff]
      intro hf
      have := (hf.split m0 (count_mkS_ge _ _ _ _)).1
      have := h0.mpr this
      cases this
    | some lo =>
      have hS := e0 lo rfl
      simp only at hS
      subst hS
      simp only [bindR, hc]
      rw [mkNodeBR_isSome]
      have hf0 : Fits cap r.st.store r0.st.store := h0.mp rfl
      constructor
      · intro h; exact hf0.trans h
      · intro h; exact (h.split m0 (count_mkS_ge _ _ _ _)).2

/-- `let (hi, lo) = rec.binary(..)?; reduce(level, hi, lo)?; add` against `finishZ` -/
theorem Thr.fork {cap : Nat} {p : Policy} {key : ZKey} {lvl : Nat}
    {c1 c0 : RSt → Option ZEdge × RSt} {r : RSt} {S1 S0 : St × ZEdge}
    (h1 : Thr cap r.st.store (c1 r) S1) (e1 : Erases (c1 r) S1)
    (m1 : count r.st.store ≤ count S1.1.store)
    (h0 : ∀ r1, r1.st = S1.1 → Thr cap S1.1.store (c0 r1) S0 ∧ Erases (c0 r1) S0)
    (m0 : count S1.1.store ≤ count S0.1.store) :
    Thr cap r.st.store
      (finishAdd p key (forkR c1 c0 (fun s hi lo => mkNodeR cap s lvl hi lo) r))
      (finishZ p S0.1 key lvl S1.2 S0.2) := by
  unfold Thr at h1 ⊢
  rw [finishAdd_isSome]
  show _ ↔ Fits cap r.st.store (mkS S0.1 lvl S1.2 S0.2).1.store
  have mk := count_mkS_ge S0.1 lvl S1.2 S0.2
  cases hc1 : c1 r with
  | mk o1 r1 =>
    rw [hc1] at h1 e1
    cases o1 with
    | none =>
      simp only [forkR, hc1, Option.isSome_none, Bool.false_eq_true, false_iff]
      intro hf
      have := (hf.split m1 (Nat.le_trans m0 mk)).1
      have := h1.mpr this
      cases this
    | some hi =>
      have hS1 := e1 hi rfl
      simp only at hS1
      subst hS1
      have hf1 : Fits cap r.st.store r1.st.store := h1.mp rfl
      obtain ⟨h0', e0'⟩ := h0 r1 rfl
      unfold Thr at h0'
      cases hc0 : c0 r1 with
      | mk o0 r0 =>
        rw [hc0] at h0' e0'
        cases o0 with
        | none =>
          simp only [forkR, hc1, hc0, Option.isSome_none, Bool.false_eq_true, false_iff]
          intro hf
          have := ((hf.split m1 (Nat.le_trans m0 mk)).2.split m0 mk).1
          have := h0'.mpr this
          cases this
        | some lo =>
          have hS0 := e0' lo rfl
          simp only at hS0
          subst hS0
          simp only [forkR, hc1, hc0]
          rw [mkNodeR_isSome]
          have hf0 : Fits cap r1.st.store r0.st.store := h0'.mp rfl
          constructor
          · intro h; exact (hf1.trans hf0).trans h
          · intro h; exact ((h.split m1 (Nat.le_trans m0 mk)).2.split m0 mk).2

/-! ## the set operations -/

theorem setBodyR_thr (cap : Nat) (p : Policy) (op : SetOp)
    (recR : RSt → ZEdge → ZEdge → Option ZEdge × RSt) (recS : St → ZEdge → ZEdge → St × ZEdge)
    (hthr : ∀ r f g, Thr cap r.st.store (recR r f g) (recS r.st f g))
    (hrec : ∀ r f g, Erases (recR r f g) (recS r.st f g))
    (hmono : ∀ st f g, count st.store ≤ count (recS st f g).1.store) (r : RSt) (f g : ZEdge) :
    Thr cap r.st.store (setBodyR cap p op recR r f g) (setBody p op recS r.st f g) := by
  unfold setBodyR setBody
  cases hget : p.get r.st.tick r.st.cache (encKey ⟨setTag op, [f, g], []⟩) with
  | some x => exact Thr.pure rfl
  | none =>
    simp only
    cases hcmp : r.st.store.cmpLevels f g with
    | lt nf =>
      simp only
      by_cases hk : op.keepLt = true
      · simp only [hk, if_true]
        exact Thr.bind (r := r.tickd) (hthr r.tickd nf.lo g) (hrec r.tickd nf.lo g) (hmono _ _ _)
      · have hk' : op.keepLt = false := by simpa using hk
        simp only [hk', Bool.false_eq_true, if_false]
        exact Thr.pass (hthr r.tickd nf.lo g)
    | eq nf ng =>
      simp only
      exact Thr.fork (r := r.tickd) (hthr r.tickd nf.hi ng.hi) (hrec r.tickd nf.hi ng.hi)
        (hmono _ _ _)
        (fun r1 h1 => by
          have a := hthr r1 nf.lo ng.lo
          have b := hrec r1 nf.lo ng.lo
          rw [h1] at a b
          exact ⟨a, b⟩)
        (hmono _ _ _)
    | gt ng =>
      simp only
      by_cases hk : op.keepGt = true
      · simp only [hk, if_true]
        exact Thr.bind (r := r.tickd) (hthr r.tickd f ng.lo) (hrec r.tickd f ng.lo) (hmono _ _ _)
      · have hk' : op.keepGt = false := by simpa using hk
        simp only [hk', Bool.false_eq_true, if_false]
        exact Thr.pass (hthr r.tickd f ng.lo)
    | none => exact Thr.pure rfl

/-- **`setOpR cap` succeeds iff `setOpS` fits `cap`** — for every store, counter array, cache,
policy, fuel and all operands -/
theorem setOpR_thr (cap : Nat) (p : Policy) (op : SetOp) (fuel : Nat) :
    ∀ (r : RSt) (f g : ZEdge),
      Thr cap r.st.store (setOpR cap p op fuel r f g) (setOpS p op fuel r.st f g) := by
  induction fuel with
  | zero => intro r f g; simp only [setOpR, setOpS]; exact Thr.pure rfl
  | succ fuel ih =>
    intro r f g
    simp only [setOpR, setOpS]
    cases hT : terminalS op f g with
    | some x => exact Thr.pure rfl
    | none =>
      simp only
      split
      · exact setBodyR_thr cap p op _ _ ih (setOpR_erase' cap p op fuel) (setOpS_mono p op fuel) r g f
      · exact setBodyR_thr cap p op _ _ ih (setOpR_erase' cap p op fuel) (setOpS_mono p op fuel) r f g

/-! ## `subset::<VAL>` -/

theorem subsetBelowR_thr (cap : Nat) (op : SubsetOp) (vl : Nat) (r : RSt) (f : ZEdge) :
    Thr cap r.st.store (subsetBelowR cap op vl r f) (subsetBelowS op vl r.st f) := by
  cases op <;> simp only [subsetBelowR, subsetBelowS]
  · exact Thr.pure rfl
  · exact Thr.pure rfl
  · have := mkNodeR_isSome cap (cloneEdge r f) vl f .empty
    simp only [cloneEdge_st] at this
    exact this

/-- **`subsetR cap` succeeds iff `subsetS` fits `cap`** -/
theorem subsetR_thr (cap : Nat) (p : Policy) (op : SubsetOp) (var vl : Nat) (fuel : Nat) :
    ∀ (r : RSt) (f : ZEdge),
      Thr cap r.st.store (subsetR cap p op var vl fuel r f) (subsetS p op var vl fuel r.st f) := by
  induction fuel with
  | zero => intro r f; simp only [subsetR, subsetS]; exact Thr.pure rfl
  | succ fuel ih =>
    intro r f
    simp only [subsetR, subsetS]
    cases hn : r.st.store.node? f with
    | none => exact subsetBelowR_thr cap op vl r f
    | some n =>
      simp only
      by_cases h1 : n.level < vl
      · simp only [h1, if_true]
        cases hget : p.get r.st.tick r.st.cache (encKey ⟨subsetTag op, [f], [var]⟩) with
        | some x => exact Thr.pure rfl
        | none =>
          simp only
          exact Thr.fork (r := r.tickd) (ih r.tickd n.hi)
            (subsetR_erase' cap p op var vl fuel r.tickd n.hi) (subsetS_mono p op var vl fuel _ _)
            (fun r1 h1 => by
              have a := ih r1 n.lo
              have b := subsetR_erase' cap p op var vl fuel r1 n.lo
              rw [h1] at a b
              exact ⟨a, b⟩)
            (subsetS_mono p op var vl fuel _ _)
      · simp only [h1, if_false]
        by_cases h2 : n.level = vl
        · simp only [h2, if_true]
          cases op <;> simp only
          · exact Thr.pure rfl
          · exact Thr.pure rfl
          · have := mkNodeBR_isSome cap (cloneEdge r n.hi) vl n.lo n.hi
            simp only [cloneEdge_st] at this
            rw [← h2] at this ⊢
            exact this
        · simp only [h2, if_false]
          exact subsetBelowR_thr cap op vl r f

end OxiddModel.Zbdd.Rc
