import OxiddModel.Zbdd.ThresholdS
import OxiddModel.Zbdd.RcSLemmasChain
import OxiddModel.Zbdd.PropertiesQueriesS

/-!
# The out-of-memory threshold of ZBDD `var_edge`, `singleton_edge` and `add_vars` — exactly

`Zbdd/ThresholdS.lean` proves `Thr` (the capped run succeeds **iff** the capacity-free run `Fits`)
for the set operations and `subset0/subset1/change`. This file adds the three remaining operations
of `Zbdd/RcS.lean` that allocate:

* `singletonR` (`singleton_edge`: one `get_or_insert`),
* `varR` (`var_edge`: the node on `tautology(level+1)` and the don't-care chain above it, `level+1`
  calls of `get_or_insert`, each `?`),
* `buildChainR` / `addVarsR` (`post_reorder_mut` inside `Manager::add_vars`: `n+k` calls of
  `get_or_insert`; the real code **aborts the process** when a slot is missing —
  `KF-zbdd-addvars-oom`; the model's `none` stands for that abort, not for an error value).

The capacity-free sides are the store-level functions that exist already: `Store.getOrInsert`,
`varAt` / `varLoopS` (`Zbdd/QueriesS.lean`, `PropertiesQueriesS.lean`) and `buildChain` /
`rebuildChain` (`Zbdd/ChainS.lean`). As in `ThresholdS.lean` everything is structural: no
hypothesis on the store, the counters, the chain or the cache.
-/
namespace OxiddModel.Zbdd.Rc
open OxiddModel.Zbdd OxiddModel.Zbdd.ZDD OxiddModel.Zbdd.Refine
open OxiddModel.Bdd.Refine (Policy OpTag Key Cache)
open OxiddModel.Zbdd.QueriesS (varLoopS varAt singletonS)
open OxiddModel.OrderS (Order)

/-- a store-level result as a result over `St`: the apply cache and the time stamp are untouched
(`var_edge`, `singleton_edge` do not use the apply cache) -/
def liftS (st : St) (R : Store × ZEdge) : St × ZEdge := (⟨R.1, st.cache, st.tick⟩, R.2)

theorem liftS_store (st : St) (R : Store × ZEdge) : (liftS st R).1.store = R.1 := rfl

theorem count_getOrInsert_ge (s : Store) (n : ZNode) : count s ≤ count (s.getOrInsert n).1 := by
  rw [count_getOrInsert]; split <;> omega

theorem count_getOrInsert_le (s : Store) (n : ZNode) : count (s.getOrInsert n).1 ≤ count s + 1 := by
  rw [count_getOrInsert]; split <;> omega

theorem count_varLoopS_ge : ∀ (l : Nat) (s : Store) (e : ZEdge), count s ≤ count (varLoopS l s e).1 := by
  intro l
  induction l with
  | zero => intro s e; exact Nat.le_refl _
  | succ l ih =>
    intro s e
    simp only [varLoopS]
    exact Nat.le_trans (count_getOrInsert_ge _ _) (ih _ _)

theorem count_varLoopS_le : ∀ (l : Nat) (s : Store) (e : ZEdge),
    count (varLoopS l s e).1 ≤ count s + l := by
  intro l
  induction l with
  | zero => intro s e; exact Nat.le_refl _
  | succ l ih =>
    intro s e
    simp only [varLoopS]
    have := ih (s.getOrInsert ⟨l, e, e⟩).1 (s.getOrInsert ⟨l, e, e⟩).2
    have := count_getOrInsert_le s ⟨l, e, e⟩
    omega

/-! ## one `get_or_insert(..)?` followed by a continuation -/

/-- `let x = get_or_insert(level, [t, e])?; k(x)` against `getOrInsert` followed by `kS`: threshold
and erasure together (the continuation may be anything that satisfies both and only adds nodes) -/
theorem insert_then {cap : Nat} {r : RSt} {l : Nat} {t e : ZEdge}
    {k : RSt → ZEdge → Option ZEdge × RSt} {kS : Store → ZEdge → Store × ZEdge}
    (hk : ∀ r' x, Thr cap r'.st.store (k r' x) (liftS r'.st (kS r'.st.store x)) ∧
      Erases (k r' x) (liftS r'.st (kS r'.st.store x)))
    (hm : ∀ s x, count s ≤ count (kS s x).1) :
    Thr cap r.st.store (bindR (fun s => insertR cap s l t e) k r)
      (liftS r.st (kS (r.st.store.getOrInsert ⟨l, t, e⟩).1 (r.st.store.getOrInsert ⟨l, t, e⟩).2)) ∧
    Erases (bindR (fun s => insertR cap s l t e) k r)
      (liftS r.st (kS (r.st.store.getOrInsert ⟨l, t, e⟩).1 (r.st.store.getOrInsert ⟨l, t, e⟩).2)) := by
  have hi := insertR_isSome cap r l t e
  have hg := count_getOrInsert_ge r.st.store ⟨l, t, e⟩
  have hmk := hm (r.st.store.getOrInsert ⟨l, t, e⟩).1 (r.st.store.getOrInsert ⟨l, t, e⟩).2
  cases hR : insertR cap r l t e with
  | mk o r' =>
    cases o with
    | none =>
      rw [hR] at hi
      simp only [Option.isSome_none, Bool.false_eq_true, false_iff] at hi
      have hb : bindR (fun s => insertR cap s l t e) k r = (none, r') := by simp [bindR, hR]
      rw [hb]
      refine ⟨?_, fun x hx => by cases hx⟩
      unfold Thr
      simp only [Option.isSome_none, Bool.false_eq_true, false_iff, liftS_store]
      intro hf
      exact hi (hf.split hg hmk).1
    | some x =>
      have he := insertR_erase (cap := cap) (r := r) (l := l) (t := t) (e := e) (x := x) (by rw [hR])
      rw [hR] at hi he
      simp only [Option.isSome_some, true_iff] at hi
      obtain ⟨h1, h2, h3⟩ := he
      simp only at h1 h2 h3
      have hb : bindR (fun s => insertR cap s l t e) k r = k r' x := by simp [bindR, hR]
      rw [hb, h1]
      simp only
      obtain ⟨kt, ke⟩ := hk r' x
      rw [h1] at hi hmk
      simp only at hi hmk
      have hl : liftS r.st (kS r'.st.store x) = liftS r'.st (kS r'.st.store x) := by
        unfold liftS; rw [h2, h3]
      rw [hl]
      refine ⟨?_, ke⟩
      unfold Thr at kt ⊢
      simp only [liftS_store] at kt ⊢
      rw [kt]
      rw [h1] at hg
      simp only at hg
      constructor
      · intro h; exact hi.trans h
      · intro h; exact (h.split hg hmk).2

/-! ## `singleton_edge` -/

/-- the capacity-free `singleton_edge` at a level (`singletonS o s v` of `QueriesS.lean` is this at
`o.lvl v`) -/
def singletonAt (s : Store) (level : Nat) : Store × ZEdge := s.getOrInsert ⟨level, .base, .empty⟩

theorem singletonAt_eq (o : Order) (s : Store) (v : Nat) :
    singletonS o s v = singletonAt s (o.lvl v) := rfl

theorem singletonR_thr (cap : Nat) (r : RSt) (level : Nat) :
    Thr cap r.st.store (singletonR cap r level) (liftS r.st (singletonAt r.st.store level)) := by
  unfold Thr singletonR singletonAt
  rw [liftS_store]
  exact insertR_isSome cap r level .base .empty

theorem singletonR_erase (cap : Nat) (r : RSt) (level : Nat) :
    Erases (singletonR cap r level) (liftS r.st (singletonAt r.st.store level)) := by
  intro x hx
  obtain ⟨h1, h2, h3⟩ := insertR_erase (cap := cap) (r := r) (l := level) (t := .base) (e := .empty) hx
  unfold liftS singletonAt
  rw [h1]
  simp only [singletonR]
  rw [← h2, ← h3]

/-! ## `var_edge` -/

theorem varLoopR_succ (cap l : Nat) (r : RSt) (e : ZEdge) :
    varLoopR cap (l + 1) r e =
      bindR (fun s => insertR cap s l e e) (fun r' x => varLoopR cap l r' x) (cloneEdge r e) := by
  simp only [varLoopR, bindR]

/-- **the loop of `var_edge` succeeds iff `varLoopS` fits**, and is `varLoopS` when it succeeds -/
theorem varLoopR_thr (cap : Nat) : ∀ (l : Nat) (r : RSt) (e : ZEdge),
    Thr cap r.st.store (varLoopR cap l r e) (liftS r.st (varLoopS l r.st.store e)) ∧
    Erases (varLoopR cap l r e) (liftS r.st (varLoopS l r.st.store e)) := by
  intro l
  induction l with
  | zero =>
    intro r e
    refine ⟨Thr.pure rfl, ?_⟩
    intro x hx
    simp only [varLoopR] at hx ⊢
    cases hx
    rfl
  | succ l ih =>
    intro r e
    rw [varLoopR_succ]
    have := insert_then (cap := cap) (r := cloneEdge r e) (l := l) (t := e) (e := e)
      (k := fun r' x => varLoopR cap l r' x) (kS := fun s x => varLoopS l s x)
      (fun r' x => ih r' x) (fun s x => count_varLoopS_ge l s x)
    simp only [cloneEdge_st] at this
    exact this

theorem varR_eq (cap : Nat) (chain : List ZEdge) (r : RSt) (level : Nat) :
    varR cap chain r level =
      bindR (fun s => insertR cap s level (tautologyS chain (level + 1)) .empty)
        (fun r' x => varLoopR cap level r' x) (cloneEdge r (tautologyS chain (level + 1))) := by
  simp only [varR, bindR]

/-- **`var_edge` under capacity `cap` succeeds iff the capacity-free `varAt` fits `cap`**, and is
`varAt` when it succeeds — for every store, counter array, chain, level -/
theorem varR_thr (cap : Nat) (chain : List ZEdge) (r : RSt) (level : Nat) :
    Thr cap r.st.store (varR cap chain r level) (liftS r.st (varAt chain r.st.store level)) ∧
    Erases (varR cap chain r level) (liftS r.st (varAt chain r.st.store level)) := by
  rw [varR_eq]
  have := insert_then (cap := cap) (r := cloneEdge r (tautologyS chain (level + 1))) (l := level)
    (t := tautologyS chain (level + 1)) (e := .empty)
    (k := fun r' x => varLoopR cap level r' x) (kS := fun s x => varLoopS level s x)
    (fun r' x => varLoopR_thr cap level r' x) (fun s x => count_varLoopS_ge level s x)
  simp only [cloneEdge_st] at this
  exact this

theorem count_varAt_ge (chain : List ZEdge) (s : Store) (level : Nat) :
    count s ≤ count (varAt chain s level).1 :=
  Nat.le_trans (count_getOrInsert_ge _ _) (count_varLoopS_ge _ _ _)

/-- `var_edge` at level `l` allocates at most `l + 1` nodes -/
theorem count_varAt_le (chain : List ZEdge) (s : Store) (level : Nat) :
    count (varAt chain s level).1 ≤ count s + (level + 1) := by
  unfold varAt
  have := count_varLoopS_le level
    (s.getOrInsert ⟨level, tautologyS chain (level + 1), .empty⟩).1
    (s.getOrInsert ⟨level, tautologyS chain (level + 1), .empty⟩).2
  have := count_getOrInsert_le s ⟨level, tautologyS chain (level + 1), .empty⟩
  simp only at *
  omega

/-! ## `post_reorder_mut`, `add_vars` -/

theorem count_buildChain_ge (n : Nat) : ∀ (j : Nat) (s : Store), count s ≤ count (buildChain n j s).1 := by
  intro j
  induction j with
  | zero => intro s; exact Nat.le_refl _
  | succ j ih =>
    intro s
    simp only [buildChain]
    exact Nat.le_trans (ih s) (count_getOrInsert_ge _ _)

theorem count_buildChain_le (n : Nat) : ∀ (j : Nat) (s : Store),
    count (buildChain n j s).1 ≤ count s + j := by
  intro j
  induction j with
  | zero => intro s; exact Nat.le_refl _
  | succ j ih =>
    intro s
    simp only [buildChain]
    have := ih s
    have := count_getOrInsert_le (buildChain n j s).1
      ⟨n - (j + 1), (buildChain n j s).2.headD .base, (buildChain n j s).2.headD .base⟩
    omega

/-- **`post_reorder_mut` completes iff the capacity-free `buildChain` fits** (otherwise the real
code aborts the process) -/
theorem buildChainR_thr (cap n : Nat) : ∀ (j : Nat) (r : RSt),
    (buildChainR cap n j r).1.isSome = true ↔ Fits cap r.st.store (buildChain n j r.st.store).1 := by
  intro j
  induction j with
  | zero =>
    intro r
    simp only [buildChainR, buildChain, Option.isSome_some, true_iff]
    exact Fits.refl _ _
  | succ j ih =>
    intro r
    have ihr := ih r
    have hm0 := count_buildChain_ge n j r.st.store
    have hm1 := count_getOrInsert_ge (buildChain n j r.st.store).1
      ⟨n - (j + 1), (buildChain n j r.st.store).2.headD .base, (buildChain n j r.st.store).2.headD .base⟩
    simp only [buildChainR, buildChain]
    cases hB : buildChainR cap n j r with
    | mk o r' =>
      cases o with
      | none =>
        rw [hB] at ihr
        simp only [Option.isSome_none, Bool.false_eq_true, false_iff] at ihr ⊢
        intro hf
        exact ihr (hf.split hm0 hm1).1
      | some ch0 =>
        have e0 := buildChainR_erase cap n j r ch0 (by rw [hB])
        rw [hB] at ihr e0
        simp only [Option.isSome_some, true_iff] at ihr
        simp only at e0
        rw [e0] at hm0 hm1 ⊢ ihr
        simp only at hm0 hm1 ihr ⊢
        have hi := insertR_isSome cap (cloneEdge (cloneEdge r' (ch0.headD .base)) (ch0.headD .base))
          (n - (j + 1)) (ch0.headD .base) (ch0.headD .base)
        simp only [cloneEdge_st] at hi
        cases hR : insertR cap (cloneEdge (cloneEdge r' (ch0.headD .base)) (ch0.headD .base))
            (n - (j + 1)) (ch0.headD .base) (ch0.headD .base) with
        | mk o2 r'' =>
          rw [hR] at hi
          cases o2 with
          | none =>
            simp only [Option.isSome_none, Bool.false_eq_true, false_iff] at hi ⊢
            intro hf
            exact hi (hf.split hm0 hm1).2
          | some x =>
            simp only [Option.isSome_some, true_iff] at hi ⊢
            exact ihr.trans hi

/-- **`add_vars(k)` completes iff rebuilding the chain for `n+k` levels fits the capacity** — the
old chain is only released, never freed (`try_remove_node` outside a reordering), so the store
the new chain is built in is the store before the call -/
theorem addVarsR_thr (cap n k : Nat) (chain : List ZEdge) (r : RSt) :
    (addVarsR cap n k chain r).1.isSome = true ↔
      Fits cap r.st.store (rebuildChain (n + k) r.st.store).1 := by
  unfold addVarsR rebuildChain
  have := buildChainR_thr cap (n + k) (n + k) (tearDownR (tryRemoveNodeR false) chain r)
  rw [tearDownR_false_st] at this
  exact this

end OxiddModel.Zbdd.Rc
