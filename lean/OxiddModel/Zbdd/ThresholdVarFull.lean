import OxiddModel.Zbdd.PropertiesC14TV
import OxiddModel.Zbdd.ThresholdFull

/-!
# ZBDD `var_edge`, `singleton_edge`: the capacity is never exceeded, a failure means a full store;
# the chain rebuild of an empty reordering

Complement of `PropertiesC14TV.lean` in the style of `ThresholdFull.lean`: every run of `varR` /
`singletonR` under capacity `cap` never removes a node, stays within the capacity if it started
within it, and reports OutOfMemory only with at least `cap` nodes stored. Hence, started within
the capacity, after a failure **exactly `cap`** nodes are stored (for `var_edge` this includes the
part of the don't-care chain built before the failing `get_or_insert`: garbage until the next
collection) and after a success exactly `count + needed`.

Also: `Manager::reorder(|_| ())` for ZBDDs (`reorderNopR`: the chain is torn down — its nodes are
freed where nothing else references them — and rebuilt) completes iff the rebuilt chain fits
*the store after the tear-down*; below that the real code aborts as in `add_vars`.
-/
namespace OxiddModel.Zbdd.Rc
open OxiddModel.Zbdd OxiddModel.Zbdd.ZDD OxiddModel.Zbdd.Refine
open OxiddModel.Bdd.Refine (Policy OpTag Key Cache)

theorem varLoopR_full (cap : Nat) : ∀ (l : Nat) (r : RSt) (e : ZEdge),
    Full cap r.st.store (varLoopR cap l r e) := by
  intro l
  induction l with
  | zero => intro r e; exact Full.pure rfl
  | succ l ih =>
    intro r e
    rw [varLoopR_succ]
    have := bindR_full (cap := cap) (c := fun s => insertR cap s l e e)
      (k := fun r' x => varLoopR cap l r' x) (fun s => insertR_full cap s l e e)
      (fun r' x => ih r' x) (cloneEdge r e)
    simp only [cloneEdge_st] at this
    exact this

theorem varR_full (cap : Nat) (chain : List ZEdge) (r : RSt) (level : Nat) :
    Full cap r.st.store (varR cap chain r level) := by
  rw [varR_eq]
  have := bindR_full (cap := cap)
    (c := fun s => insertR cap s level (tautologyS chain (level + 1)) .empty)
    (k := fun r' x => varLoopR cap level r' x)
    (fun s => insertR_full cap s level _ _) (fun r' x => varLoopR_full cap level r' x)
    (cloneEdge r (tautologyS chain (level + 1)))
  simp only [cloneEdge_st] at this
  exact this

theorem singletonR_full (cap : Nat) (r : RSt) (level : Nat) :
    Full cap r.st.store (singletonR cap r level) :=
  insertR_full cap r level .base .empty

/-- **an empty reordering completes iff the chain rebuilt after the tear-down fits** (`none` =
the process aborts in `post_reorder_mut`) -/
theorem reorderNopR_thr (cap n : Nat) (chain : List ZEdge) (r : RSt) :
    (reorderNopR cap n chain r).1.isSome = true ↔
      Fits cap (tearDownR (tryRemoveNodeR true) chain
          { r with st := { r.st with cache := [] } }).st.store
        (buildChain n n (tearDownR (tryRemoveNodeR true) chain
          { r with st := { r.st with cache := [] } }).st.store).1 :=
  buildChainR_thr cap n n _

end OxiddModel.Zbdd.Rc

namespace OxiddModel.Zbdd.C14T
open OxiddModel.Zbdd OxiddModel.Zbdd.ZDD OxiddModel.Zbdd.Refine OxiddModel.Zbdd.Rc
open OxiddModel.Zbdd.QueriesS (varAt)

/-- **after a failed `var_edge` exactly `cap` nodes are stored, after a successful one exactly
`count + needed`** (started within the capacity) -/
theorem var_final_count (cap : Nat) (chain : List ZEdge) (r : RSt) (level : Nat)
    (hc : count r.st.store ≤ cap) :
    count (varR cap chain r level).2.st.store =
      if (varR cap chain r level).1 = none then cap
      else count r.st.store + neededVar chain r.st.store level :=
  final_count_of (varR_full cap chain r level) (varR_thr cap chain r level).2 hc

theorem singleton_final_count (cap : Nat) (r : RSt) (level : Nat) (hc : count r.st.store ≤ cap) :
    count (singletonR cap r level).2.st.store =
      if (singletonR cap r level).1 = none then cap
      else count r.st.store + neededSingleton r.st.store level :=
  final_count_of (singletonR_full cap r level) (singletonR_erase cap r level) hc

/-- the capacity is respected by `var_edge`, successful or not -/
theorem var_capacity_respected (cap : Nat) (chain : List ZEdge) (r : RSt) (level : Nat)
    (hc : count r.st.store ≤ cap) : count (varR cap chain r level).2.st.store ≤ cap :=
  (varR_full cap chain r level).bound hc

open OxiddModel.Zbdd.C05R in
/-- non-vacuity: `var_edge(1)` in the initial two-variable manager under capacity 3 fails after
one node was created: exactly 3 nodes are stored; under capacity 4 it succeeds with `2 + 2` -/
example : count (varR 3 (exRun 0).chain (exRun 0).r 1).2.st.store = 3 ∧
    count (varR 4 (exRun 0).chain (exRun 0).r 1).2.st.store = 4 := by
  constructor
  · rw [var_final_count 3 _ _ 1 (by decide +kernel), if_pos (by decide +kernel)]
  · rw [var_final_count 4 _ _ 1 (by decide +kernel), if_neg (by decide +kernel)]
    decide +kernel

open OxiddModel.Zbdd.C05R in
/-- an empty reordering of `exRun 3` (five nodes, two of them the chain, referenced by nothing
else): the tear-down frees both chain nodes (three nodes left), the rebuild needs two slots:
capacities 0..4 abort, 5 completes — `reorderNopR_thr` instantiated on both sides -/
example : count (tearDownR (tryRemoveNodeR true) (exRun 3).chain
      { (exRun 3).r with st := { (exRun 3).r.st with cache := [] } }).st.store = 3 ∧
    (List.range 5).all (fun c => (reorderNopR c 2 (exRun 3).chain (exRun 3).r).1.isSome == false) = true ∧
    (reorderNopR 5 2 (exRun 3).chain (exRun 3).r).1.isSome = true := by decide +kernel

end OxiddModel.Zbdd.C14T
