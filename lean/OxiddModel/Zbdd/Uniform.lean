import OxiddModel.Zbdd.Pick
import OxiddModel.Zbdd.Count
import OxiddModel.Bdd.Uniform

/-!
# Uniform cube picking on ZBDDs — lemmas for C13

`pick_cube_uniform_edge` (`oxidd-core/src/function.rs`) on a ZBDD: `cofactors_node` returns the stored
children `(hi, lo)` (the ZBDD rules have no edge tags), `sat_count_edge(child, vars = num_levels)` is
the number of sets of the child's family (`pathCount`, shifted by `vars - num_levels = 0`).
`pick_cube_edge::inner` (`oxidd-rules-zbdd/src/apply_rec.rs`): at a node with `hi == lo` the variable
is a don't care and the walk continues in `hi` **without** consulting the closure; otherwise, if
`lo` is `∅` the variable is forced to true; otherwise the closure decides. Variables of levels the
path skips (zero-suppressed) and of levels above the root are **false** in the returned vector, not
don't care (`cube` is initialised with `OptBool::False`).

The random source, `Frac`, `takeThen`, `fracSum` etc. are shared with `OxiddModel.Bdd.Uniform`.
-/
namespace OxiddModel.Zbdd
open ZDD
open OxiddModel.Bdd (Frac takeThen fracAdd fracSum natSum natSum_append fracSum_weights)

/-! ## vocabulary -/

/-- `pick_cube_edge::inner` with the closure of `pick_cube_uniform_edge`; `n` is the number of levels
of the manager (`vars = num_levels`) -/
def uniformPath (n : Nat) : List Frac → ZDD → List (Nat × Option Bool)
  | rs, .node l hi lo =>
    if hi = lo then (l, none) :: uniformPath n rs hi
    else if lo = .empty then (l, some true) :: uniformPath n rs hi
    else if takeThen (rs.headD ⟨0, 1⟩) (satCount n n hi) (satCount n n lo)
      then (l, some true) :: uniformPath n rs.tail hi
      else (l, some false) :: uniformPath n rs.tail lo
  | _, _ => []

/-- `pick_cube_uniform_edge`: `None` for `∅`, the all-false vector for `Base` -/
def pickUniform (n : Nat) (rs : List Frac) (f : ZDD) : Option (List (Nat × Option Bool)) :=
  match f with
  | .empty => none
  | _ => some (uniformPath n rs f)

/-- the pairs `(t_count, e_count)` the closure computes, in the order in which it is consulted -/
def uniformCounts (n : Nat) : List Frac → ZDD → List (Nat × Nat)
  | rs, .node _ hi lo =>
    if hi = lo then uniformCounts n rs hi
    else if lo = .empty then uniformCounts n rs hi
    else
      (satCount n n hi, satCount n n lo) ::
        (if takeThen (rs.headD ⟨0, 1⟩) (satCount n n hi) (satCount n n lo)
          then uniformCounts n rs.tail hi else uniformCounts n rs.tail lo)
  | _, _ => []

/-- probability with which the sampler records value `v` at a node with children `hi`, `lo` -/
def stepProb (hi lo : ZDD) (v : Option Bool) : Nat × Nat :=
  if hi = lo then (if v = none then (1, 1) else (0, 1))
  else if lo = .empty then (if v = some true then (1, 1) else (0, 1))
  else match v with
    | some true => (pathCount hi, pathCount hi + pathCount lo)
    | some false => (pathCount lo, pathCount hi + pathCount lo)
    | none => (0, 1)

/-- the child the walk continues in after recording `v` -/
def next (hi lo : ZDD) : Option Bool → ZDD
  | some false => lo
  | _ => hi

/-- `(numerator, denominator)` of the probability that the sampler returns the decision list `c` -/
def cubeProb : ZDD → List (Nat × Option Bool) → Nat × Nat
  | .base, [] => (1, 1)
  | .node l hi lo, (l', v) :: p =>
    if l' = l then
      let r := match v with
        | some false => cubeProb lo p
        | _ => cubeProb hi p
      ((stepProb hi lo v).1 * r.1, (stepProb hi lo v).2 * r.2)
    else (0, 1)
  | _, _ => (0, 1)

/-- `c` is a decision list the sampler can produce: a path from the root to `Base` on which a node
with `hi = lo` is recorded as don't care (and continued in `hi`), and every other node with its
value -/
def RootPath : ZDD → List (Nat × Option Bool) → Prop
  | .base, [] => True
  | .node l hi lo, (l', v) :: p =>
    l' = l ∧
    (match v with
      | none => hi = lo ∧ RootPath hi p
      | some true => hi ≠ lo ∧ RootPath hi p
      | some false => hi ≠ lo ∧ RootPath lo p)
  | _, _ => False

/-- number of don't-care entries -/
def dontCares : List (Nat × Option Bool) → Nat
  | [] => 0
  | (_, none) :: p => dontCares p + 1
  | (_, some _) :: p => dontCares p

/-- the decision list of the returnable cube an assignment lies in -/
def pathOf (σ : Nat → Bool) : ZDD → List (Nat × Option Bool)
  | .node l hi lo =>
    if hi = lo then (l, none) :: pathOf σ hi
    else (l, some (σ l)) :: (if σ l then pathOf σ hi else pathOf σ lo)
  | _ => []

/-- probability of the total assignment `σ`: the cube it lies in, times `1/2` per don't care -/
def modelProb (f : ZDD) (σ : Nat → Bool) : Nat × Nat :=
  ((cubeProb f (pathOf σ f)).1, (cubeProb f (pathOf σ f)).2 * 2 ^ dontCares (pathOf σ f))

/-- all returnable decision lists -/
def rootPaths : ZDD → List (List (Nat × Option Bool))
  | .empty => []
  | .base => [[]]
  | .node l hi lo =>
    if hi = lo then (rootPaths hi).map ((l, none) :: ·)
    else (rootPaths hi).map ((l, some true) :: ·) ++ (rootPaths lo).map ((l, some false) :: ·)

/-- the semantic probability of `σ`: `0` unless `σ` lies in the cube of the path it follows (a
variable of a skipped level that is true in `σ` excludes it) -/
def modelProbZ (n : Nat) (f : ZDD) (σ : Nat → Bool) : Nat × Nat :=
  if pathEval n σ 0 (pathOf σ f) then modelProb f σ else (0, 1)

/-! ## counts -/

theorem satCount_self (n : Nat) (f : ZDD) : satCount n n f = pathCount f := by
  simp [satCount]

/-- a zero-suppressed diagram other than `∅` denotes a non-empty family -/
theorem pathCount_pos {f : ZDD} (hr : Reduced f) (hs : f ≠ .empty) : 0 < pathCount f := by
  induction f with
  | empty => exact absurd rfl hs
  | base => simp [pathCount]
  | node l hi lo ihh _ =>
    have := ihh hr.2.1 hr.1
    simp only [pathCount]; omega

theorem uniformCounts_pos (n : Nat) {f : ZDD} (hr : Reduced f) (rs : List Frac) :
    ∀ p ∈ uniformCounts n rs f, 0 < p.1 ∧ 0 < p.2 := by
  induction f generalizing rs with
  | empty => simp [uniformCounts]
  | base => simp [uniformCounts]
  | node l hi lo ihh ihl =>
    simp only [uniformCounts]
    split
    · exact ihh hr.2.1 rs
    · split
      · exact ihh hr.2.1 rs
      · rename_i h1 h2
        intro p hp
        rcases List.mem_cons.mp hp with rfl | hp
        · simp only [satCount_self]
          exact ⟨pathCount_pos hr.2.1 hr.1, pathCount_pos hr.2.2 h2⟩
        · split at hp
          · exact ihh hr.2.1 _ p hp
          · exact ihl hr.2.2 _ p hp

/-! ## the sampler is `pick_cube` with some choice function -/

theorem pickPath_congr {n k : Nat} {f : ZDD} (ho : Ordered n k f) (c1 c2 : Nat → Bool)
    (h : ∀ l, k ≤ l → c1 l = c2 l) : pickPath c1 f = pickPath c2 f := by
  induction ho with
  | empty => rfl
  | base => rfl
  | @node k l hi lo hl _ _ _ ihh ihl =>
    rw [pickPath_node, pickPath_node, h _ hl, ihh (fun l hl' => h l (by omega)),
      ihl (fun l hl' => h l (by omega))]

theorem uniformPath_as_choice {n k : Nat} {f : ZDD} (ho : Ordered n k f) (rs : List Frac) :
    ∃ choice : Nat → Bool, uniformPath n rs f = pickPath choice f := by
  induction ho generalizing rs with
  | empty => exact ⟨fun _ => false, rfl⟩
  | base => exact ⟨fun _ => false, rfl⟩
  | @node k l hi lo hl _ oh ol ihh ihl =>
    simp only [uniformPath]
    by_cases h1 : hi = lo
    · obtain ⟨ch, hch⟩ := ihh rs
      exact ⟨ch, by rw [pickPath_node]; simp only [h1, if_true] at hch ⊢; rw [← h1] at hch ⊢; rw [hch]⟩
    · by_cases h2 : lo = .empty
      · obtain ⟨ch, hch⟩ := ihh rs
        exact ⟨ch, by rw [pickPath_node]; simp only [h2, if_true, true_or, hch]⟩
      · generalize takeThen (rs.headD ⟨0, 1⟩) (satCount n n hi) (satCount n n lo) = c0
        obtain ⟨ch, hch⟩ := ihh rs.tail
        obtain ⟨cl, hcl⟩ := ihl rs.tail
        cases c0
        · refine ⟨fun x => if x = l then false else cl x, ?_⟩
          rw [pickPath_node]
          simp only [h1, if_false, h2, Bool.false_eq_true, if_true, or_self, hcl]
          rw [pickPath_congr ol cl (fun x => if x = l then false else cl x) (fun x hx => by simp; omega)]
        · refine ⟨fun x => if x = l then true else ch x, ?_⟩
          rw [pickPath_node]
          simp only [h1, if_false, h2, if_true, or_true, hch]
          rw [pickPath_congr oh ch (fun x => if x = l then true else ch x) (fun x hx => by simp; omega)]

/-! ## paths -/

theorem rootPath_ne_empty {f : ZDD} {c : List (Nat × Option Bool)} (h : RootPath f c) : f ≠ .empty := by
  intro hf; subst hf; cases c <;> simp [RootPath] at h

theorem uniformPath_rootPath (n : Nat) (rs : List Frac) {f : ZDD} (hr : Reduced f) (hs : f ≠ .empty) :
    RootPath f (uniformPath n rs f) := by
  induction f generalizing rs with
  | empty => exact absurd rfl hs
  | base => simp [uniformPath, RootPath]
  | node l hi lo ihh ihl =>
    simp only [uniformPath]
    by_cases h1 : hi = lo
    · simp only [h1, if_true, RootPath, true_and]
      rw [← h1]; exact ihh rs hr.2.1 hr.1
    · by_cases h2 : lo = .empty
      · subst h2
        simp only [h1, if_false, if_true, RootPath, true_and, ne_eq]
        exact ⟨fun h => h, ihh rs hr.2.1 hr.1⟩
      · simp only [h1, if_false, h2]
        split
        · simp only [RootPath, true_and, ne_eq]
          exact ⟨h1, ihh _ hr.2.1 hr.1⟩
        · simp only [RootPath, true_and, ne_eq]
          exact ⟨h1, ihl _ hr.2.2 h2⟩

/-! ## the telescoping product -/

/-- along a returnable decision list the product of the branch probabilities times the number of
sets of the root is `2^(don't cares)` (the count of `Base` is `1`; at a don't-care node the count
doubles, at every other node it is the sum of the children's counts) -/
theorem cubeProb_telescope {f : ZDD} (hr : Reduced f) {c : List (Nat × Option Bool)}
    (hw : RootPath f c) :
    (cubeProb f c).1 * pathCount f = 2 ^ dontCares c * (cubeProb f c).2 ∧ 0 < (cubeProb f c).2 := by
  induction f generalizing c with
  | empty => exact absurd rfl (rootPath_ne_empty hw)
  | base =>
    cases c with
    | nil => simp [cubeProb, pathCount, dontCares]
    | cons q p => simp [RootPath] at hw
  | node l hi lo ihh ihl =>
    cases c with
    | nil => simp [RootPath] at hw
    | cons q p =>
      obtain ⟨l', v⟩ := q
      simp only [RootPath] at hw
      obtain ⟨rfl, hw⟩ := hw
      have hhi := pathCount_pos hr.2.1 hr.1
      match v, hw with
      | none, ⟨heq, hp⟩ =>
        subst heq
        obtain ⟨ih1, ih2⟩ := ihh hr.2.1 hp
        simp only [cubeProb, if_true, stepProb, dontCares, pathCount, Nat.one_mul]
        refine ⟨?_, ih2⟩
        generalize (cubeProb hi p).1 = rn at ih1 ⊢
        generalize (cubeProb hi p).2 = rd at ih1 ⊢
        generalize pathCount hi = a at ih1 ⊢
        calc rn * (a + a) = 2 * (rn * a) := by rw [Nat.mul_add]; omega
          _ = 2 * (2 ^ dontCares p * rd) := by rw [ih1]
          _ = 2 ^ (dontCares p + 1) * rd := by rw [Nat.pow_succ]; ac_rfl
      | some true, ⟨hne, hp⟩ =>
        obtain ⟨ih1, ih2⟩ := ihh hr.2.1 hp
        by_cases h2 : lo = .empty
        · subst h2
          simp only [cubeProb, if_true, stepProb, if_neg hne, dontCares, pathCount, Nat.one_mul,
            Nat.add_zero]
          exact ⟨ih1, ih2⟩
        · simp only [cubeProb, if_true, stepProb, if_neg hne, if_neg h2, dontCares, pathCount]
          refine ⟨?_, Nat.mul_pos (by omega) ih2⟩
          generalize (cubeProb hi p).1 = rn at ih1 ⊢
          generalize (cubeProb hi p).2 = rd at ih1 ⊢
          generalize pathCount hi = a at ih1 ⊢
          generalize pathCount lo = b
          calc a * rn * (a + b) = (a + b) * (rn * a) := by ac_rfl
            _ = (a + b) * (2 ^ dontCares p * rd) := by rw [ih1]
            _ = 2 ^ dontCares p * ((a + b) * rd) := by ac_rfl
      | some false, ⟨hne, hp⟩ =>
        have h2 : lo ≠ .empty := rootPath_ne_empty hp
        obtain ⟨ih1, ih2⟩ := ihl hr.2.2 hp
        simp only [cubeProb, if_true, stepProb, if_neg hne, if_neg h2, dontCares, pathCount]
        refine ⟨?_, Nat.mul_pos (by omega) ih2⟩
        generalize (cubeProb lo p).1 = rn at ih1 ⊢
        generalize (cubeProb lo p).2 = rd at ih1 ⊢
        generalize pathCount lo = b at ih1 ⊢
        generalize pathCount hi = a
        calc b * rn * (a + b) = (a + b) * (rn * b) := by ac_rfl
          _ = (a + b) * (2 ^ dontCares p * rd) := by rw [ih1]
          _ = 2 ^ dontCares p * ((a + b) * rd) := by ac_rfl

/-! ## models and their cubes (Boolean view) -/

/-- a returnable cube implies the function -/
theorem rootPath_eval {n : Nat} {f : ZDD} {c : List (Nat × Option Bool)} (hw : RootPath f c)
    (σ : Nat → Bool) (k : Nat) (h : pathEval n σ k c = true) : eval n σ k f = true := by
  induction f generalizing c k with
  | empty => exact absurd rfl (rootPath_ne_empty hw)
  | base =>
    cases c with
    | nil => exact h
    | cons q p => simp [RootPath] at hw
  | node l hi lo ihh ihl =>
    cases c with
    | nil => simp [RootPath] at hw
    | cons q p =>
      obtain ⟨l', v⟩ := q
      simp only [RootPath] at hw
      obtain ⟨rfl, hw⟩ := hw
      simp only [pathEval, Bool.and_eq_true] at h
      obtain ⟨⟨hA, hv⟩, hrest⟩ := h
      simp only [eval, hA, Bool.true_and]
      match v, hw, hv with
      | none, ⟨heq, hp⟩, _ =>
        subst heq
        have := ihh hp (l'+1) hrest
        cases σ l' <;> simpa
      | some true, ⟨_, hp⟩, hv =>
        have hσ : σ l' = true := by simpa using hv
        simp only [hσ, if_true]; exact ihh hp (l'+1) hrest
      | some false, ⟨_, hp⟩, hv =>
        have hσ : σ l' = false := by simpa using hv
        simp only [hσ, Bool.false_eq_true, if_false]; exact ihl hp (l'+1) hrest

/-- a model lies in the cube of the path it follows, which is returnable -/
theorem pathOf_spec {n : Nat} (σ : Nat → Bool) (f : ZDD) (k : Nat) (h : eval n σ k f = true) :
    RootPath f (pathOf σ f) ∧ pathEval n σ k (pathOf σ f) = true := by
  induction f generalizing k with
  | empty => simp [eval] at h
  | base => exact ⟨trivial, h⟩
  | node l hi lo ihh ihl =>
    simp only [eval, Bool.and_eq_true] at h
    obtain ⟨hA, hX⟩ := h
    simp only [pathOf]
    by_cases h1 : hi = lo
    · subst h1
      have hX' : eval n σ (l+1) hi = true := by cases hσ : σ l <;> simp [hσ] at hX <;> exact hX
      obtain ⟨i1, i2⟩ := ihh (l+1) hX'
      simp only [if_true, RootPath, true_and, pathEval, hA, i2, Bool.and_self]
      exact ⟨i1, trivial⟩
    · simp only [h1, if_false]
      cases hσ : σ l
      · simp only [hσ, Bool.false_eq_true, if_false] at hX ⊢
        obtain ⟨i1, i2⟩ := ihl (l+1) hX
        simp only [RootPath, true_and, ne_eq, pathEval, hA, hσ, i2, beq_self_eq_true, Bool.and_self]
        exact ⟨⟨h1, i1⟩, trivial⟩
      · simp only [hσ, if_true] at hX ⊢
        obtain ⟨i1, i2⟩ := ihh (l+1) hX
        simp only [RootPath, true_and, ne_eq, pathEval, hA, hσ, i2, beq_self_eq_true, Bool.and_self]
        exact ⟨⟨h1, i1⟩, trivial⟩

/-- the returnable cubes are pairwise disjoint: the only one an assignment can lie in is the path
it follows -/
theorem rootPath_unique {n : Nat} {f : ZDD} {c : List (Nat × Option Bool)} (hw : RootPath f c)
    (σ : Nat → Bool) (k : Nat) (h : pathEval n σ k c = true) : c = pathOf σ f := by
  induction f generalizing c k with
  | empty => exact absurd rfl (rootPath_ne_empty hw)
  | base =>
    cases c with
    | nil => rfl
    | cons q p => simp [RootPath] at hw
  | node l hi lo ihh ihl =>
    cases c with
    | nil => simp [RootPath] at hw
    | cons q p =>
      obtain ⟨l', v⟩ := q
      simp only [RootPath] at hw
      obtain ⟨rfl, hw⟩ := hw
      simp only [pathEval, Bool.and_eq_true] at h
      obtain ⟨⟨hA, hv⟩, hrest⟩ := h
      simp only [pathOf]
      match v, hw, hv with
      | none, ⟨heq, hp⟩, _ =>
        subst heq
        simp only [if_true]
        rw [ihh hp (l'+1) hrest]
      | some true, ⟨hne, hp⟩, hv =>
        have hσ : σ l' = true := by simpa using hv
        simp only [if_neg hne, hσ, if_true]
        rw [ihh hp (l'+1) hrest]
      | some false, ⟨hne, hp⟩, hv =>
        have hσ : σ l' = false := by simpa using hv
        simp only [if_neg hne, hσ, Bool.false_eq_true, if_false]
        rw [ihl hp (l'+1) hrest]

/-- a list that is not returnable has probability `0` -/
theorem cubeProb_zero_of_not_rootPath {f : ZDD} {c : List (Nat × Option Bool)} (h : ¬ RootPath f c) :
    (cubeProb f c).1 = 0 := by
  induction f generalizing c with
  | empty => cases c <;> simp [cubeProb]
  | base =>
    cases c with
    | nil => exact absurd trivial h
    | cons q p => simp [cubeProb]
  | node l hi lo ihh ihl =>
    cases c with
    | nil => simp [cubeProb]
    | cons q p =>
      obtain ⟨l', v⟩ := q
      by_cases hl : l' = l
      · subst hl
        simp only [RootPath, true_and] at h
        simp only [cubeProb, if_true]
        match v, h with
        | none, h =>
          by_cases h1 : hi = lo
          · have := ihh (c := p) (fun hp => h ⟨h1, hp⟩)
            simp [this]
          · by_cases h2 : lo = .empty
            · subst h2; simp [stepProb, h1]
            · simp [stepProb, h1, h2]
        | some true, h =>
          by_cases h1 : hi = lo
          · simp [stepProb, h1]
          · have := ihh (c := p) (fun hp => h ⟨h1, hp⟩)
            simp [this]
        | some false, h =>
          by_cases h1 : hi = lo
          · simp [stepProb, h1]
          · have := ihl (c := p) (fun hp => h ⟨h1, hp⟩)
            simp [this]
      · simp [cubeProb, hl]

/-! ## every returnable list can be returned -/

def drawsFor (n : Nat) : ZDD → List (Nat × Option Bool) → List Frac
  | .node _ hi lo, (_, v) :: p =>
    if hi = lo ∨ lo = .empty then drawsFor n hi p
    else match v with
      | some false => Bdd.drawFor (satCount n n hi) (satCount n n lo) false :: drawsFor n lo p
      | _ => Bdd.drawFor (satCount n n hi) (satCount n n lo) true :: drawsFor n hi p
  | _, _ => []

theorem drawsFor_spec (n : Nat) {f : ZDD} (hr : Reduced f) {c : List (Nat × Option Bool)}
    (hw : RootPath f c) :
    uniformPath n (drawsFor n f c) f = c ∧ ∀ r ∈ drawsFor n f c, r.num < r.den := by
  induction f generalizing c with
  | empty => exact absurd rfl (rootPath_ne_empty hw)
  | base =>
    cases c with
    | nil => simp [uniformPath, drawsFor]
    | cons q p => simp [RootPath] at hw
  | node l hi lo ihh ihl =>
    cases c with
    | nil => simp [RootPath] at hw
    | cons q p =>
      obtain ⟨l', v⟩ := q
      simp only [RootPath] at hw
      obtain ⟨rfl, hw⟩ := hw
      have hhi := pathCount_pos hr.2.1 hr.1
      match v, hw with
      | none, ⟨heq, hp⟩ =>
        subst heq
        obtain ⟨i1, i2⟩ := ihh hr.2.1 hp
        simp only [uniformPath, drawsFor, true_or, if_true]
        exact ⟨by rw [i1], i2⟩
      | some true, ⟨hne, hp⟩ =>
        obtain ⟨i1, i2⟩ := ihh hr.2.1 hp
        have hct : 0 < satCount n n hi := by rw [satCount_self]; exact hhi
        by_cases h2 : lo = .empty
        · subst h2
          simp only [uniformPath, drawsFor, if_neg hne, or_true, if_true]
          exact ⟨by rw [i1], i2⟩
        · have hce : 0 < satCount n n lo := by rw [satCount_self]; exact pathCount_pos hr.2.2 h2
          have hor : ¬(hi = lo ∨ lo = .empty) := by simp [hne, h2]
          simp only [uniformPath, drawsFor, if_neg hne, if_neg h2, if_neg hor,
            List.headD_cons, List.tail_cons, Bdd.takeThen_drawFor hct true, if_true]
          refine ⟨by rw [i1], ?_⟩
          intro r hr'
          rcases List.mem_cons.mp hr' with rfl | hr'
          · exact Bdd.drawFor_lt hce true
          · exact i2 r hr'
      | some false, ⟨hne, hp⟩ =>
        have h2 : lo ≠ .empty := rootPath_ne_empty hp
        have hct : 0 < satCount n n hi := by rw [satCount_self]; exact hhi
        have hce : 0 < satCount n n lo := by rw [satCount_self]; exact pathCount_pos hr.2.2 h2
        have hor : ¬(hi = lo ∨ lo = .empty) := by simp [hne, h2]
        obtain ⟨i1, i2⟩ := ihl hr.2.2 hp
        simp only [uniformPath, drawsFor, if_neg hne, if_neg h2, if_neg hor,
          List.headD_cons, List.tail_cons, Bdd.takeThen_drawFor hct false, Bool.false_eq_true,
          if_false]
        refine ⟨by rw [i1], ?_⟩
        intro r hr'
        rcases List.mem_cons.mp hr' with rfl | hr'
        · exact Bdd.drawFor_lt hce false
        · exact i2 r hr'

/-! ## enumeration and total probability -/

theorem mem_rootPaths {f : ZDD} {c : List (Nat × Option Bool)} : c ∈ rootPaths f ↔ RootPath f c := by
  induction f generalizing c with
  | empty => cases c <;> simp [rootPaths, RootPath]
  | base => cases c <;> simp [rootPaths, RootPath]
  | node l hi lo ihh ihl =>
    cases c with
    | nil => by_cases h1 : hi = lo <;> simp [rootPaths, RootPath, h1]
    | cons q p =>
      obtain ⟨l', v⟩ := q
      by_cases h1 : hi = lo
      · subst h1
        simp only [rootPaths, if_true, List.mem_map, List.cons.injEq, Prod.mk.injEq, RootPath]
        constructor
        · rintro ⟨a, ha, ⟨rfl, rfl⟩, rfl⟩
          first
            | exact ⟨rfl, rfl, ihh.mp ha⟩
            | exact ⟨trivial, rfl, ihh.mp ha⟩
            | exact ⟨trivial, trivial, ihh.mp ha⟩
            | exact ⟨rfl, trivial, ihh.mp ha⟩
        · rintro ⟨rfl, h⟩
          match v, h with
          | none, ⟨_, hp⟩ => exact ⟨p, ihh.mpr hp, ⟨rfl, rfl⟩, rfl⟩
          | some true, ⟨hne, _⟩ => exact absurd rfl hne
          | some false, ⟨hne, _⟩ => exact absurd rfl hne
      · simp only [rootPaths, if_neg h1, List.mem_append, List.mem_map, List.cons.injEq,
          Prod.mk.injEq, RootPath]
        constructor
        · rintro (⟨a, ha, ⟨rfl, rfl⟩, rfl⟩ | ⟨a, ha, ⟨rfl, rfl⟩, rfl⟩)
          · exact ⟨rfl, h1, ihh.mp ha⟩
          · exact ⟨rfl, h1, ihl.mp ha⟩
        · rintro ⟨rfl, h⟩
          match v, h with
          | none, ⟨heq, _⟩ => exact absurd heq h1
          | some true, ⟨_, hp⟩ => exact .inl ⟨p, ihh.mpr hp, ⟨rfl, rfl⟩, rfl⟩
          | some false, ⟨_, hp⟩ => exact .inr ⟨p, ihl.mpr hp, ⟨rfl, rfl⟩, rfl⟩

theorem rootPaths_nodup (f : ZDD) : (rootPaths f).Nodup := by
  induction f with
  | empty => simp [rootPaths]
  | base => simp [rootPaths]
  | node l hi lo ihh ihl =>
    simp only [rootPaths]
    split
    · exact List.Pairwise.map _ (fun a b h => by simpa using h) ihh
    · rw [List.nodup_append]
      refine ⟨?_, ?_, ?_⟩
      · exact List.Pairwise.map _ (fun a b h => by simpa using h) ihh
      · exact List.Pairwise.map _ (fun a b h => by simpa using h) ihl
      · intro a ha b hb
        simp only [List.mem_map] at ha hb
        obtain ⟨_, _, rfl⟩ := ha
        obtain ⟨_, _, rfl⟩ := hb
        simp

def cubeWeight (c : List (Nat × Option Bool)) : Nat := 2 ^ dontCares c

theorem natSum_map_cons_some (l : Nat) (b : Bool) (ps : List (List (Nat × Option Bool))) :
    natSum ((ps.map ((l, some b) :: ·)).map cubeWeight) = natSum (ps.map cubeWeight) := by
  induction ps with
  | nil => rfl
  | cons p ps ih =>
    simp only [List.map_cons, natSum, List.foldr_cons, cubeWeight, dontCares] at ih ⊢
    rw [ih]

theorem natSum_map_cons_none (l : Nat) (ps : List (List (Nat × Option Bool))) :
    natSum ((ps.map ((l, none) :: ·)).map cubeWeight) = 2 * natSum (ps.map cubeWeight) := by
  induction ps with
  | nil => rfl
  | cons p ps ih =>
    simp only [List.map_cons, natSum, List.foldr_cons, cubeWeight, dontCares] at ih ⊢
    rw [ih, Nat.pow_succ]; omega

/-- the returnable cubes partition the family: their weights `2^(don't cares)` sum to the number of
sets -/
theorem rootPaths_weight (f : ZDD) : natSum ((rootPaths f).map cubeWeight) = pathCount f := by
  induction f with
  | empty => rfl
  | base => rfl
  | node l hi lo ihh ihl =>
    simp only [rootPaths]
    split
    · rename_i h; subst h
      rw [natSum_map_cons_none, ihh]; simp only [pathCount]; omega
    · rw [List.map_append, natSum_append, natSum_map_cons_some, natSum_map_cons_some, ihh, ihl]
      rfl

end OxiddModel.Zbdd
