import OxiddModel.Zbdd.Ite

/-! The Boolean view of a family: `eval_edge` (walk with the `ones` counter) agrees with the
node-by-node interpretation `eval`, and the effect of `add_vars`. -/
namespace OxiddModel.Zbdd
open ZDD

/-! ## `add_vars` -/

/-- `add_vars m`: the family (a set of sets of levels) of an existing handle is unchanged; its
Boolean view over the `n + m` variables gains the conjuncts `¬x_new` -/
theorem eval_add_vars {n k : Nat} {t : ZDD} (m : Nat) (σ : Nat → Bool) (ht : Ordered n k t) (hk : k ≤ n) :
    eval (n + m) σ k t = (eval n σ k t && allFalse σ n (n + m)) := by
  induction ht with
  | empty => simp [eval]
  | base => simp only [eval]; exact allFalse_split σ hk (by omega)
  | @node k l hi lo h1 h2 _ _ ihh ihl =>
    simp only [eval]
    rw [ihh (by omega), ihl (by omega)]
    cases allFalse σ k l <;> cases σ l <;> simp

/-! ## `eval_edge` -/

theorem countOnes_zero_iff (σ : Nat → Bool) (c k : Nat) : countOnes σ c k = 0 ↔ allFalseAux σ c k = true := by
  induction c generalizing k with
  | zero => simp [countOnes, allFalseAux]
  | succ c ih =>
    simp only [countOnes, allFalseAux, Bool.and_eq_true, ← ih]
    cases σ k <;> simp <;> omega

theorem countOnes_split (σ : Nat → Bool) (a b k : Nat) :
    countOnes σ (a + b) k = countOnes σ a k + countOnes σ b (k + a) := by
  induction a generalizing k with
  | zero => simp [countOnes]
  | succ a ih =>
    have : a + 1 + b = (a + b) + 1 := by omega
    rw [this]
    simp only [countOnes]
    rw [ih (k+1)]
    have : k + 1 + a = k + (a + 1) := by omega
    rw [this]; omega

/-- number of true variables on the levels `[k, n)` -/
def ones (σ : Nat → Bool) (k n : Nat) : Nat := countOnes σ (n - k) k

theorem ones_zero_iff (σ : Nat → Bool) (k n : Nat) : ones σ k n = 0 ↔ allFalse σ k n = true :=
  countOnes_zero_iff σ _ _

theorem ones_split (σ : Nat → Bool) {k l n : Nat} (h1 : k ≤ l) (h2 : l ≤ n) :
    ones σ k n = ones σ k l + ones σ l n := by
  unfold ones
  have : n - k = (l - k) + (n - l) := by omega
  rw [this, countOnes_split]
  have : k + (l - k) = l := by omega
  rw [this]

theorem ones_step (σ : Nat → Bool) {l n : Nat} (h : l < n) :
    ones σ l n = (if σ l then 1 else 0) + ones σ (l+1) n := by
  unfold ones
  have : n - l = (n - (l+1)) + 1 := by omega
  rw [this]; rfl

/-- with more ones left than there are true variables below, the walk fails -/
theorem walk_too_many {n k : Nat} {t : ZDD} (σ : Nat → Bool) (ht : Ordered n k t) (c : Nat)
    (hc : ones σ k n < c) : walk σ t c = false := by
  induction ht generalizing c with
  | empty => rfl
  | base => simp only [walk]; cases c with
    | zero => omega
    | succ c => rfl
  | @node k l hi lo h1 h2 _ _ ihh ihl =>
    simp only [walk]
    have e1 := ones_split σ h1 (Nat.le_of_lt h2)
    have e2 := ones_step σ h2
    cases hσ : σ l
    · simp only [hσ, Bool.false_eq_true, if_false] at e2 ⊢
      exact ihl c (by omega)
    · simp only [hσ, if_true] at e2 ⊢
      exact ihh (c - 1) (by omega)

/-- `eval_edge::inner` started with the number of true variables on `[k, n)` computes `eval` -/
theorem walk_eq_eval {n k : Nat} {t : ZDD} (σ : Nat → Bool) (ht : Ordered n k t) :
    walk σ t (ones σ k n) = eval n σ k t := by
  induction ht with
  | empty => rfl
  | @base k =>
    simp only [walk, eval]
    rw [Bool.eq_iff_iff, ← ones_zero_iff]; simp
  | @node k l hi lo h1 h2 oh ol ihh ihl =>
    simp only [walk, eval]
    have e1 := ones_split σ h1 (Nat.le_of_lt h2)
    have e2 := ones_step σ h2
    by_cases hp : ones σ k l = 0
    · have hA := (ones_zero_iff σ k l).mp hp
      rw [hA, Bool.true_and]
      cases hσ : σ l
      · simp only [hσ, Bool.false_eq_true, if_false] at e2 ⊢
        rw [← ihl]; congr 1; omega
      · simp only [hσ, if_true] at e2 ⊢
        rw [← ihh]; congr 1; omega
    · have hA : allFalse σ k l = false := by
        rw [Bool.eq_false_iff]; intro h; exact hp ((ones_zero_iff σ k l).mpr h)
      rw [hA, Bool.false_and]
      cases hσ : σ l
      · simp only [hσ, Bool.false_eq_true, if_false] at e2 ⊢
        exact walk_too_many σ ol _ (by omega)
      · simp only [hσ, if_true] at e2 ⊢
        exact walk_too_many σ oh _ (by omega)

/-- `eval_edge` agrees with the node-by-node interpretation -/
theorem evalEdge_eq (n : Nat) (σ : Nat → Bool) (t : ZDD) (ht : Ordered n 0 t) :
    evalEdge n σ t = eval n σ 0 t := by
  unfold evalEdge
  exact walk_eq_eval σ ht

end OxiddModel.Zbdd
