#!/bin/bash
# Build the framework from files on disk only (offline).
set -e
cd "$(dirname "$0")"
export CARGO_NET_OFFLINE=true
(cd lean && lake build)
(cd harness && RUSTFLAGS="--cfg oxidd_verif" cargo build --release --offline --bins)
