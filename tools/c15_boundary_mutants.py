#!/usr/bin/env python3
"""C15 boundary families: one-at-a-time mutations of a scratch copy of
crates/oxidd-dump/src/dddmp/import.rs (never /repo), each run through
  * the quick `dddmp` stream without the boundary cases ("old", model-compared),
  * the quick `dddmp_fuzz` stream (oracle only),
  * the `boundary-*` cases (model-compared + verdict oracle).

usage: c15_boundary_mutants.py --root /tmp/<scratch> --oxdriver <path to oxdriver> [Mxx ...]

`--root` must contain `crates/` (copy of /repo/crates, with /repo/Cargo.toml and Cargo.lock beside it) and
`harness/` (copy of /verif/harness whose Cargo.toml path dependencies point at <root>/crates, with
the delivered c15_dddmp.rs). Prints one JSON line per mutant and a last line for the unchanged code.
"""
import subprocess, sys, json, os, shutil, argparse
SRC='/repo/crates/oxidd-dump/src/dddmp/import.rs'
M=[
 # id, line, old, new, note
 ('M01',784,'vid >= suppvar_level_map.len()','vid > suppvar_level_map.len()','named in the task'),
 ('M02',670,'if child < 0','if child <= 0','named in the task'),
 ('M03',87,'&line[p + 1..]','&line[p + 0..]','named in the task'),
 ('M04',172,'nsuppvars > header.nvars','nsuppvars >= header.nvars',''),
 ('M05',199,'|a, b| a < b','|a, b| a <= b','.ids strictly ascending'),
 ('M06',202,'>= header.nvars','> header.nvars','.ids last < nvars'),
 ('M07',334,'id.unsigned_abs() > header.nnodes','id.unsigned_abs() >= header.nnodes',''),
 ('M08',334,'id.unsigned_abs() > header.nnodes','id.unsigned_abs() > header.nnodes + 1',''),
 ('M09',331,'if id == 0','if id == 1',''),
 ('M10',599,'node_id_lineno != node_id','node_id_lineno > node_id',''),
 ('M11',656,'suppvar_level_map.get(var_id as usize)','suppvar_level_map.get((var_id as usize).saturating_sub(1))','ascii variable index off by one at the top end only'),
 ('M12',664,'child_id >= node_id','child_id > node_id',''),
 ('M13',681,'level >= child_level','level > child_level',''),
 ('M14',737,'id >= node_id','id > node_id',''),
 ('M15',734,'if id == 0','if id == 1',''),
 ('M16',805,'level >= t_level ||','level > t_level ||',''),
 ('M17',805,'|| level >= e_level','|| level > e_level',''),
 ('M18',805,'level >= t_level || level >= e_level','level >= t_level && level >= e_level',''),
 ('M19',587,'1..=header.nnodes','1..header.nnodes','ascii loop'),
 ('M20',744,'1..=header.nnodes','1..header.nnodes','binary loop'),
 ('M21',630,'children.len() != M::InnerNode::ARITY','children.len() < M::InnerNode::ARITY',''),
 ('M22',179,'header.ids.len() != nsuppvars as usize','header.ids.len() < nsuppvars as usize',''),
 ('M23',185,'header.permids.len() != nsuppvars as usize','header.permids.len() > nsuppvars as usize',''),
 ('M24',191,'header.auxids.len() != nsuppvars as usize','header.auxids.len() < nsuppvars as usize',''),
 ('M25',324,'header.rootids.len() != nroots','header.rootids.len() > nroots',''),
 ('M26',341,'header.rootnames.len() != nroots','header.rootnames.len() < nroots',''),
 ('M27',570,'buf[expected.len()..]','buf[expected.len() + 1..]',''),
 ('M28',789,'std::cmp::min(t_level, e_level)','std::cmp::max(t_level, e_level)',''),
 ('M29',795,'child_min_suppvar.checked_sub(vid)','child_min_suppvar.checked_sub(vid.saturating_sub(1))',''),
 ('M30',82,"Some(b'\\n' | b'\\r') = line.last()","Some(b'\\n') = line.last()",'header CR'),
 ('M31',86,"memchr::memchr2(b' ', b'\\t', &line)","memchr::memchr2(b' ', b' ', &line)",'header tab'),
 ('M32',609,'&rest[pos + 1..]','&rest[pos + 0..]',''),
 ('M33',621,'(&rest[pos + 1..], &rest[..pos])','(&rest[pos + 0..], &rest[..pos])',''),
 ('M34',558,'if root > 0','if root >= 0',''),
 ('M35',890,'capacity.min(MAX_PREALLOC)','capacity.max(MAX_PREALLOC)','parse_str_list'),
 ('M36',151,'nroots.min(MAX_PREALLOC)','nroots.max(MAX_PREALLOC)',''),
 ('M37',839,'Some(Ok(0x03)) => Ok(0x1a)','Some(Ok(0x03)) => Ok(0x1b)',''),
 ('M38',237,'orderedvarnames.len() != header.nvars as usize','orderedvarnames.len() < header.nvars as usize',''),
 ('M39',244,'suppvarnames.len() != nsuppvars as usize','suppvarnames.len() > nsuppvars as usize',''),
 ('M40',281,'header.varnames.len() != header.nvars as usize','header.varnames.len() < header.nvars as usize',''),
 ('M41',218,'if *count != 0','if *count > 1','duplicate level'),
 ('M43',728,'node_id.checked_sub(decode_7bit(input)?)','(node_id + 1).checked_sub(decode_7bit(input)?)',''),
 ('M44',621,'(&rest[pos + 1..], &rest[..pos])','(&rest[pos + 1..], &rest[..pos + 1])',''),
 ('M45',894,'if pos != start','if pos >= start','parse_str_list: skip empty strings'),
 ('M46',897,'start = pos + 1','start = pos + 0','parse_str_list'),
 ('M47',1064,'if neg {','if false {','parse_edge_list: second minus sign'),
 ('M48',1067,'if num {','if false {','parse_edge_list: minus sign after digits'),
 ('M49',746,'(node_code >> 5) & 0b11','(node_code >> 5) & 0b111','bit 7 of the node code'),
 ('M50',584,'header.nnodes.min(MAX_PREALLOC)','header.nnodes.max(MAX_PREALLOC)','ascii prealloc'),
 ('M51',743,'header.nnodes.min(MAX_PREALLOC)','header.nnodes.max(MAX_PREALLOC)','binary prealloc'),
 ('M52',997,'capacity.min(MAX_PREALLOC)','capacity.max(MAX_PREALLOC)','parse_u32_list prealloc'),
 ('M53',1016,'if num {','if true {','parse_u32_list: repeated blanks'),
 ('M54',1073,'if num {','if true {','parse_edge_list: repeated blanks'),
 ('M55',931,"b' ' | b'\\t' if num => break","b' ' if num => break",'parse_unsigned: tab ends the number'),
 ('M56',867,"[b' ' | b'\\t', rest @ ..]","[b' ', rest @ ..]",'trim_start: tab'),
 ('M57',875,"[rest @ .., b' ' | b'\\t']","[rest @ .., b' ']",'trim_end: tab'),
 ('M58',212,'level_count.get_mut(level as usize)','level_count.get_mut((level as usize).saturating_sub(1))','permids range'),
]
ap=argparse.ArgumentParser(); ap.add_argument('--root',required=True); ap.add_argument('--oxdriver',required=True); ap.add_argument('ids',nargs='*')
A=ap.parse_args()
ROOT=A.root; DST=ROOT+'/crates/oxidd-dump/src/dddmp/import.rs'; B=ROOT+'/harness/target/release/'
def sh(cmd):
    return subprocess.run(cmd, shell=True, cwd=ROOT, capture_output=True, text=True)
def apply(m):
    lines=open(SRC).read().split('\n')
    mid,ln,old,new,_=m
    l=lines[ln-1]
    assert l.count(old)==1, (mid, ln, l)
    lines[ln-1]=l.replace(old,new)
    open(DST,'w').write('\n'.join(lines))
def build():
    r=sh('cd harness && CARGO_NET_OFFLINE=true RUSTFLAGS="--cfg oxidd_verif" cargo build --release --offline --bin c15_dddmp --bin c15_dddmp_fuzz 2>&1 | tail -3')
    return 'Finished' in r.stdout, r.stdout
def run(binname, ops, tag, lean=None):
    r=sh(f'{B}{binname} run --oracle-out run/{tag}.oracle --stats run/{tag}.stats --hang-secs 120 < run/{ops} > run/{tag}.rust 2>run/{tag}.err; echo EXIT $?')
    ex=r.stdout.strip().split()[-1]
    fails=[json.loads(l) for l in open(f'{ROOT}/run/{tag}.oracle') if l.strip()]
    fails=[f for f in fails if f['sig']!='binary-export-loses-constant']   # the known finding of C15
    diffs=None
    if lean:
        a=open(f'{ROOT}/run/{tag}.rust').read().split('\n'); b=open(f'{ROOT}/run/{lean}').read().split('\n')
        diffs=sum(1 for x,y in zip(a,b) if x!=y)+abs(len(a)-len(b))
    return ex,fails,diffs
def prepare():
    os.makedirs(ROOT+'/run',exist_ok=True)
    shutil.copy(SRC,DST)
    ok,log=build(); assert ok, log
    sh(f'{B}c15_dddmp gen --tier quick --seed 1 --scale 3 > run/full.ops')
    lines=open(ROOT+'/run/full.ops').read().split('\n')
    n=next(i for i,l in enumerate(lines) if l.startswith('case') and l.endswith('boundary-bases'))
    open(ROOT+'/run/old.ops','w').write('\n'.join(lines[:n])+'\n'); open(ROOT+'/run/new.ops','w').write('\n'.join(lines[n:]))
    sh(f'{B}c15_dddmp_fuzz gen --tier quick --seed 1 --scale 2 > run/fuzz.ops')
    sh(f'{A.oxdriver} dddmp < run/old.ops > run/base.lean'); sh(f'{A.oxdriver} dddmp < run/new.ops > run/new.lean')
def three(tag):
    eo,fo,do=run('c15_dddmp','old.ops',tag+'_old','base.lean')
    ef,ff,_=run('c15_dddmp_fuzz','fuzz.ops',tag+'_fuzz')
    en,fn,dn=run('c15_dddmp','new.ops',tag+'_new','new.lean')
    return dict(old_stream=dict(exit=eo,fail=len(fo),diff=do),fuzz=dict(exit=ef,fail=len(ff)),
                boundary=dict(exit=en,fail=len(fn),diff=dn,sigs=sorted({f['sig'] for f in fn}),first=[f['msg'].split('`')[1] for f in fn if '`' in f['msg']][:3]))
def main():
    prepare()
    for m in M:
        if A.ids and m[0] not in A.ids: continue
        apply(m)
        ok,log=build()
        if not ok:
            print(json.dumps(dict(id=m[0],build='failed',log=log))); continue
        print(json.dumps(dict(id=m[0],line=m[1],old=m[2],new=m[3],note=m[4],**three('m')))); sys.stdout.flush()
    shutil.copy(SRC,DST)
    ok,log=build(); assert ok, log
    print(json.dumps(dict(id='ORIG',**three('o'))))
main()
