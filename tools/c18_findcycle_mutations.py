import subprocess, shutil, os, sys
SRC='/tmp/ext-c18-findcycle/mut/repo/crates/oxidd-parser/src/lib.rs'
ORIG=open('/repo/crates/oxidd-parser/src/lib.rs').read()
i=ORIG.index('pub fn find_cycle'); j=ORIG.index('/// Simplify the circuit such that')
body=ORIG[i:j]
muts=[
 ("M1 finished mark never set", "            visited.insert(index * 2 + 1); // finished\n", "            // (mutation) visited.insert(index * 2 + 1);\n"),
 ("M2 discovered tested before finished", "            if visited.contains(index * 2 + 1) {\n                return false; // finished\n            }\n            if visited.contains(index * 2) {\n                return true; // discovered -> cycle\n            }\n", "            if visited.contains(index * 2) {\n                return true; // discovered -> cycle\n            }\n            if visited.contains(index * 2 + 1) {\n                return false; // finished\n            }\n"),
 ("M3 outer loop starts at 1", "for index in 0..self.gates.len() {", "for index in 1..self.gates.len() {"),
 ("M4 negated gate inputs ignored", "if l.is_gate() && inner(", "if l.is_gate() && !l.is_negative() && inner("),
 ("M5 only first input followed", "            for &l in gates.get(index).unwrap().1 {\n                if l.is_gate() && inner", "            for &l in gates.get(index).unwrap().1.iter().take(1) {\n                if l.is_gate() && inner"),
 ("M6 reports last index instead of outer index", "return Some(Literal::from_gate(false, index));", "return Some(Literal::from_gate(false, self.gates.len() - 1));"),
]
env=dict(os.environ, CARGO_TARGET_DIR='/tmp/ext-c18-findcycle/target-mut', CARGO_NET_OFFLINE='true', RUSTFLAGS='--cfg oxidd_verif')
for name,old,new in muts:
    assert body.count(old)==1,(name,body.count(old))
    open(SRC,'w').write(ORIG[:i]+body.replace(old,new)+ORIG[j:])
    r=subprocess.run(['cargo','build','--release','--offline','--bin','c18_findcycle'],cwd='/tmp/ext-c18-findcycle/mut/harness',env=env,capture_output=True,text=True)
    if r.returncode!=0:
        print(name,'BUILD FAILED',r.stderr[-800:]); continue
    ops=open('/tmp/ext-c18-findcycle/quick.ops','rb').read()
    r=subprocess.run(['/tmp/ext-c18-findcycle/target-mut/release/c18_findcycle','run','--oracle-out','/tmp/ext-c18-findcycle/mut/oracle.jsonl'],input=ops,capture_output=True)
    out=r.stdout.decode().splitlines(); ref=open('/tmp/ext-c18-findcycle/quick.lean').read().splitlines()
    diff=sum(1 for a,b in zip(out,ref) if a!=b)+abs(len(out)-len(ref))
    fails=open('/tmp/ext-c18-findcycle/mut/oracle.jsonl').read().splitlines()
    import json,collections
    sigs=collections.Counter(json.loads(f)['sig'] for f in fails)
    first=next(((k,a,b) for k,(a,b) in enumerate(zip(out,ref)) if a!=b),None)
    print(f"{name}: stream lines differing {diff}; oracle failures {len(fails)} {dict(sigs)}; first diff {first}")
open(SRC,'w').write(ORIG)
