#!/usr/bin/env python3
"""Import every theorem module registered in checks/*.json into ONE Lean file: reports declaration
name clashes between independently built areas (which would break an axiom audit as soon as one
check imports both). Run after integrating a delivery: python3 tools/clash_check.py"""
import glob, json, os, subprocess, sys
ROOT = os.path.dirname(os.path.dirname(os.path.abspath(__file__)))
mods = []
for f in sorted(glob.glob(os.path.join(ROOT, "checks", "C*.json"))):
    for m in json.load(open(f))["lean_modules"]:
        if m not in mods:
            mods.append(m)
d = os.path.join(ROOT, "lean", ".lake")
os.makedirs(d, exist_ok=True)
p = os.path.join(d, "audit_all.lean")
open(p, "w").write("".join(f"import {m}\n" for m in mods))
r = subprocess.run(["lake", "build"] + mods, cwd=os.path.join(ROOT, "lean"), stdout=subprocess.PIPE, stderr=subprocess.STDOUT)
if r.returncode != 0:
    print(r.stdout.decode()[-2000:])
    sys.exit(1)
r = subprocess.run(["lake", "env", "lean", p], cwd=os.path.join(ROOT, "lean"), stdout=subprocess.PIPE, stderr=subprocess.STDOUT)
out = r.stdout.decode().strip()
print(f"{len(mods)} modules imported together:", out or "no clash")
sys.exit(1 if out else 0)
