#!/usr/bin/env python3
"""Assemble /verif/seeded/<id>/ from the seeding agents' deliverables, the confirmation runs
(/tmp/seedconf/<name>.json) and the check evaluations (/tmp/seedrun/<eval>.result.json)."""
import json, os, re, shutil
ROOT = os.path.dirname(os.path.dirname(os.path.abspath(__file__)))
S = "/tmp/seed"
# id, property, out dir, patch, demo, conf name, eval names, needs
T = [
 ("C01-retain-wraparound", "C01", "C01-out", "patch.diff", "seeded_C01.rs", "C01a", ["c01a"], "gc removing a dead node from the last slot of a level's table while a probe chain wraps to slot 0; then re-deriving a surviving function"),
 ("C01-bcdd-reduce-tag", "C01", "C01-out", "patch2.diff", "demo2_seeded_C01_reorder.rs", "C01b", ["c01b"], "reordering a BCDD so that a swap creates a node of shape x ? ¬g : g; then deriving the function again"),
 ("C02-zbdd-var-level-confusion", "C02", "C02-out", "patch.diff", "seeded_C02.rs", "C02a", ["c02a"], "ZBDD var and eval both use level_to_var for var_to_level: only visible under a 3-cycle variable order and to an oracle independent of eval"),
 ("C02-bdd-notvar-level", "C02", "C02-out", "patch2.diff", "seeded_C02_2.rs", "C02b", ["c02b"], "not_var under a variable order that is not an involution (3-cycle)"),
 ("C04-bcdd-restrict-tag", "C04", "C04-out", "patch.diff", "seeded_C04.rs", "C04a", ["c04a"], "BCDD restrict with a negative literal and an unrestricted variable of f strictly between cube levels (>= 3 levels)"),
 ("C04-quant-cache-key", "C04", "C04-out", "patch2.diff", "demo2_seeded_C04_2.rs", "C04b", ["c04b", "c04b2"], "quantification over a superset, then over a subset of the variables on the same node, no gc in between"),
 ("C05-free-slot-double-publish", "C05", "C05-out", "patch.diff", "seeded_C05.rs", "C05a", ["c05a", "c05a2"], "one collection freeing >= 65536 nodes followed by more allocations than were freed"),
 ("C05-oom-leaks-children", "C05", "C05-out", "patch2.diff", "seeded_C05_2.rs", "C05b", ["c05b"], "an operation failing with OutOfMemory; the children of the rejected node keep a reference forever"),
 ("C06-mtbdd-max-min-tag", "C06", "C06-out", "patch.diff", "seeded_C06.rs", "C06a", ["c06a", "c10a"], "min and max on the same operand pair in one manager, max called with operands in descending edge order"),
 ("C06-zbdd-restrict-numlevels", "C06", "C06-out", "patch2.diff", "seeded_C06_2.rs", "C06b", ["c06b", "c06b2"], "ZBDD restrict, add_vars, the same restrict on the same handles, no gc in between"),
 ("C08-levelswap-lookup", "C08", "C08-out", "patch.diff", "seeded_C08.rs", "C08a", ["c08a"], "a swapped cofactor coinciding with a live, not yet visited node of the old upper level"),
 ("C08-partial-order-early-return", "C08", "C08-out", "patch2.diff", "seeded_C08_2.rs", "C08b", ["c08b", "c08b2"], "partial order whose number of named variables equals the number of non-empty levels while an empty level has to move"),
 ("C10-max-min-tag", "C10", "C10-out", "patch.diff", "seeded_C10.rs", "C10a", ["c10a"], "as C06-mtbdd-max-min-tag (found independently)"),
 ("C10-sub-overflow-sign", "C10", "C10-out", "patch2.diff", "seeded_C10_2.rs", "C10b", ["c10b"], "the scalar pair 0 - i64::MIN (or a function taking the value i64::MIN subtracted from 0)"),
 ("C12-reorder-gc-count", "C12", "C12-out", "patch.diff", "seeded_C12.rs", "C12a", ["c12a", "c12a2"], "sat_count cache reused across a reordering that recycles node ids"),
 ("C12-natural-add-gap", "C12", "C12-out", "patch2.diff", "seeded_C12_2.rs", "C12b", ["c12b"], "Natural addition of operands at least 128 bits apart"),
 ("C13-literal-set-pop", "C13", "C13-out", "patch.diff", "seeded_C13.rs", "C13a", ["c13a"], "pick_cube_dd_set with a negative literal on a level the function skips and a positive request below (>= 3 variables)"),
 ("C13-uniform-ignores-tag", "C13", "C13-out", "patch2.diff", "seeded_C13_2.rs", "C13b", ["c13b"], "pick_cube_uniform on a BCDD reaching a free choice through a complemented edge (biased sampling)"),
 ("C17-retain-tombstone-slot0", "C17", "C17-out", "patch.diff", "demo_seeded_C17.rs", "C17a", ["c17a"], "retain with a probe cluster wrapping around the array end, slot 0 a tombstone, the last slot removed, >= slots/4 survivors"),
 ("C17-clear-free-overcount", "C17", "C17-out", "patch2.diff", "demo2_seeded_C17_2.rs", "C17b", ["c17b"], "clear with tombstones behind the last element, then insertions into the really free slots: lookups of absent keys never terminate"),
 ("C09-subset-cache-key", "C09", "C09-out", "patch.diff", "seeded_C09.rs", "C09a", ["c09a"], "the same subset/change operation on a shared node with two different variables, no gc in between"),
 ("C09-change-level-var", "C09", "C09-out", "patch2.diff", "demo2_seeded_C09_2.rs", "C09b", ["c09b"], "change under a non-identity variable order with the multi-threading feature"),
 ("C11-ite-unknown-condition", "C11", "C11-out", "patch.diff", "seeded_C11.rs", "C11a", ["c11a"], "ite whose condition reaches the terminal U with one constant and one non-constant branch"),
 ("C11-xor-equiv-tag", "C11", "C11-out", "patch2.diff", "demo2_seeded_C11_b.rs", "C11b", ["c11b"], "xor with the larger edge as left operand and equiv of the same pair in one manager"),
 ("C14-parallel-recursor-guard", "C14", "C14-out", "patch.diff", "seeded_C14.rs", "C14a", ["c14a"], ">= 2 worker threads, out of memory in the then-branch only of a parallel binary step"),
 ("C16-unname-keeps-key", "C16", "C16-out", "patch.diff", "seeded_C16.rs", "C16a", ["c16a"], "name a variable, clear the name with set_var_name(v, \"\"), then look up or reuse the old name"),
 ("C16-frommap-fast-path", "C16", "C16-out", "patch2.diff", "seeded_C16_2.rs", "C16b", ["c16b"], "add_named_vars_from_map on a manager that has variables but none of them named"),
 ("C07-cache-unlocked-during-gc", "C07", "C07-out", "patch.diff", "seeded_C07.rs", "C07a", ["c07a", "c07a2", "c07a3"], "a collection issued by one thread overlapping an apply operation on another that adds a cache entry whose result dies in the same collection; the same key looked up again later"),
 ("C07-parallel-recursor-guard", "C07", "C07-out", "patch2.diff", "seeded_C07_2.rs", "C07b", ["c07b"], "as C14-parallel-recursor-guard (found independently)"),
 ("C14-terminal-free-list", "C14", "C14-out", "patch2.diff", "seeded_C14_2.rs", "C14b", ["c14b"], "more distinct MTBDD terminals over the manager's lifetime than the terminal capacity, with a gc in between"),
 ("C18-simplify-stale-bitset", "C18", "C18-out", "patch.diff", "seeded_C18.rs", "C18a", ["c18a"], "a gate with a complementary pair followed by a slow-path gate over the same variable in one simplify call"),
 ("C18-aiger-symbol-bound", "C18", "C18-out", "patch2.diff", "seeded_C18_2.rs", "C18b", ["c18b"], "AIGER symbol-table index exactly one past the end"),
 ("C03-levelswap-level-number", "C03", "C03-out", "patch.diff", "seeded_C03.rs", "C03a", ["c03a"], ">= 5 non-empty levels and an order where a level returns to its position after being overtaken twice"),
 ("C03-retain-last-is-free", "C03", "C03-out", "patch2.diff", "seeded_C03_2.rs", "C03b", ["c03b"], "as C01-retain-wraparound (found independently, different initialisation)"),
 ("C15-export-ids-levels", "C15", "C15-out", "patch.diff", "seeded_C15.rs", "C15a", ["c15a"], "non-identity order and a variable outside the support such that support levels differ from support variables"),
 ("C15-ascii-child-level", "C15", "C15-out", "patch2.diff", "seeded_C15_2.rs", "C15b", ["c15b"], "malformed ASCII file where a node has the same variable as an inner child"),
 ("C19-zbdd-makenode-lo-invalid-leak", "C19", "C19-out", "patch.diff", "demo1_zbdd_make_node.c", "C19a", ["C19-a"], "oxidd_zbdd_make_node with valid var and hi but an INVALID lo (e.g. the result of a failed operation): hi's reference is lost"),
 ("C19-bcdd-substitution-id-from-address", "C19", "C19-out", "patch2.diff", "demo2_bcdd_substitution.c", "C19b", ["C19-b"], "BCDD substitution ids derived from the object's address: free a substitution, create another one (allocator reuses the block), apply it to the same function with no gc in between"),
 ("C20-pointer-varlevelmap", "C20", "C20-out", "patch.diff", "seeded_C20.rs", "C20a", ["c20a"], "pointer-based manager only: a reordering that swaps a level whose variable number differs from its level number"),
 ("C20-nomt-apply-unique-swap", "C20", "C20-out", "patch2.diff", "demo2_seeded_C20_2.rs", "C20b", ["c20b"], "build without multi-threading only: apply_unique with Imp/ImpStrict on simple BDDs"),
 # ---- second round (different code sites and mechanisms; /tmp/seed2) ----
 ("R2-C01-zbdd-restrict-unreduced-empty", "C01", "/tmp/seed2/C01-out", "patch.diff", "seeded_C01.rs", "r2-C01a", ["r2-C01a"], "ZBDD restrict, >= 3 variables, f reaching Base, cube with a negative literal, an unmentioned variable and a positive literal below it: result is an unreduced node (l; Empty, Empty) instead of the Empty terminal"),
 ("R2-C01-f64-mul-unnormalised", "C01", "/tmp/seed2/C01-out", "patch2.diff", "seeded_C01_2.rs", "r2-C01b", ["r2-C01b"], "MTBDD over F64: negative x 0 or inf x 0 creates a second zero / NaN terminal (F64::mul skips the normalisation): equal value tables, different handles"),
 ("R2-C02-zbdd-not-cache-fastpath", "C02", "/tmp/seed2/C02-out", "patch.diff", "seeded_C02.rs", "r2-C02a", ["r2-C02a", "r2-C02a2"], "ZBDD negation-based connective, then add_vars, then the same operand again with no gc in between: complement w.r.t. the old domain is served from the cache"),
 ("R2-C02-bcdd-eval-repeated-var", "C02", "/tmp/seed2/C02-out", "patch2.diff", "demo2_seeded_C02_2.rs", "r2-C02b", ["r2-C02b"], "BCDD eval with a variable listed twice, first false then true (documented: the last value counts)"),
 ("R2-C03-bcdd-ite-level", "C03", "/tmp/seed2/C03-out", "patch.diff", "seeded_C03.rs", "r2-C03a", ["r2-C03a"], "BCDD ite whose else operand is the only one with the top-most variable (>= 3 levels, general case): node with a child on a higher level"),
 ("R2-C03-dddmp-ascii-same-level-child", "C03", "/tmp/seed2/C03-out", "patch2.diff", "seeded_C03_2.rs", "r2-C03b", ["r2-C03b"], "malformed ASCII DDDMP file in which a node and its child carry the same variable is accepted (level check > instead of >=)"),
 ("R2-C04-subst-resize-truncates", "C04", "/tmp/seed2/C04-out", "patch.diff", "seeded_C04.rs", "r2-C04a", ["r2-C04a"], "BDD substitution whose variables are listed with non-ascending levels (e.g. [2, 0], or ascending under a non-identity order): deeper replacements are dropped"),
 ("R2-C04-subst-id-check-then-act", "C04", "/tmp/seed2/C04-out", "patch2.diff", "seeded_C04_2.rs", "r2-C04b", ["r2-C04b"], "two substitution objects created at the same instant on different threads get the same identifier (load + store instead of fetch_add) and share cache entries"),
 ("R2-C05-zbdd-addvars-frees-node", "C05", "/tmp/seed2/C05-out", "patch.diff", "seeded_C05.rs", "r2-C05a", ["r2-C05a", "r2-C05a2"], "ZBDD: a cached operation whose result is the top tautology node with no other reference, then add_vars (node freed outside a pre_gc/post_gc bracket, slot reused), then the same operation"),
 ("R2-C05-levelswap-forget-node", "C05", "/tmp/seed2/C05-out", "patch2.diff", "seeded_C05_2.rs", "r2-C05b", ["r2-C05b"], "level_swap finding the new cofactor node among the old upper-level nodes: the candidate node is forgotten instead of dropped, one reference per grandchild leaks (function values stay right)"),
 ("R2-C06-pregc-keeps-live-entries", "C06", "/tmp/seed2/C06-out", "patch.diff", "seeded_C06.rs", "r2-C06a", ["r2-C06a"], "apply cache keeps entries whose nodes have a non-zero count at pre_gc: nodes referenced only by dead parents are freed in the same sweep, the slot is reused, the stale entry is served"),
 ("R2-C06-subst-id-check-then-act", "C06", "/tmp/seed2/C06-out", "patch2.diff", "seeded_C06_demo2.rs", "r2-C06b", ["r2-C06b"], "substitution identifiers (numeric part of the substitute cache key) not unique when created concurrently"),
 ("R2-C07-gcthread-stale-freelist-head", "C07", "/tmp/seed2/C07-out", "patch.diff", "seeded_C07.rs", "r2-C07a", ["r2-C07a", "r2-C07a2"], "the background gc thread must collect at least twice (store filled to 95 %, below 90 %, filled again): it keeps the free-list head it already handed over, live nodes get overwritten"),
 ("R2-C07-subst-id-check-then-act", "C07", "/tmp/seed2/C07-out", "patch2.diff", "demo2_seeded_C07_2.rs", "r2-C07b", ["r2-C07b", "r2-C07b2"], "two threads inside Subst::new at the same moment get the same identifier; substitute then returns the other substitution's cached result"),
 ("R2-C08-reorder-gccount-only-if-shrunk", "C08", "/tmp/seed2/C08-out", "patch.diff", "seeded_C08.rs", "r2-C08a", ["r2-C08a", "r2-C08a2"], "a reordering that frees and re-issues node ids without shrinking the diagram while a SatCountCache is kept across it (gc_count not advanced)"),
 ("R2-C08-concurrent-sort-blocked-check", "C08", "/tmp/seed2/C08-out", "patch2.diff", "seeded_C08_2.rs", "r2-C08b", ["r2-C08b", "r2-C08b-s"], "concurrent bubble sort (>= 2 workers, >= 65536 nodes, >= 4 levels to move): two swaps touching a common level run at the same time"),
 ("R2-C09-tryremove-outside-reorder", "C09", "/tmp/seed2/C09-out", "patch.diff", "seeded_C09.rs", "r2-C09a", ["r2-C09a"], "ZBDD: an operation whose operand or result is the full power set, no live handle on it, add_vars without gc: the tautology chain is freed and its slots reused while cache entries alias them"),
 ("R2-C09-zbdd-eval-repeated-var", "C09", "/tmp/seed2/C09-out", "patch2.diff", "seeded_C09_2.rs", "r2-C09b", ["r2-C09b"], "ZBDD eval with a variable listed twice, first true then false"),
 ("R2-C10-f64-div-negative-zero", "C10", "/tmp/seed2/C10-out", "patch.diff", "seeded_C10.rs", "r2-C10a", ["r2-C10a"], "MTBDD over F64: a zero quotient of negative sign (0 / -1, finite / -inf) keeps -0.0 as a leaf"),
 ("R2-C10-restrict-negative-literal-skipped-level", "C10", "/tmp/seed2/C10-out", "patch2.diff", "seeded_C10_demo2.rs", "r2-C10b", ["r2-C10b"], "MTBDD restrict with a negative literal on a level the function skips and at least one more literal below it"),
 ("R2-C11-var-level-confusion", "C11", "/tmp/seed2/C11-out", "patch.diff", "seeded_C11.rs", "r2-C11a", ["r2-C11a"], "TDD var() called after a reordering (variable number used as level)"),
 ("R2-C11-eval-shift-precedence", "C11", "/tmp/seed2/C11-out", "patch2.diff", "demo2_seeded_C11_2.rs", "r2-C11b", ["r2-C11b"], "TDD eval in a manager with at least 9 variables: nodes at levels l with l % 16 >= 8 read the choice of the variable 8 levels above"),
 ("R2-C12-saturating-shl-boundary", "C12", "/tmp/seed2/C12-out", "patch.diff", "seeded_C12.rs", "r2-C12a", ["r2-C12a"], "sat_count into u64 / u128 with exactly 63 / 127 variables (1 << 63 reported as the saturation marker)"),
 ("R2-C12-natural-to-u128-spare-digit", "C12", "/tmp/seed2/C12-out", "patch2.diff", "seeded_C12_2.rs", "r2-C12b", ["r2-C12b"], "TryFrom<&Natural> for u128 of an odd value in [2^127, 2^128) that came out of an addition (spare leading zero digit)"),
 ("R2-C13-bdd-pickcube-var-level", "C13", "/tmp/seed2/C13-out", "patch.diff", "seeded_C13.rs", "r2-C13a", ["r2-C13a"], "BDD pick_cube under a variable order that is not its own inverse (3-cycle)"),
 ("R2-C13-zbdd-pickcubedd-dontcare", "C13", "/tmp/seed2/C13-out", "patch2.diff", "seeded_C13_b.rs", "r2-C13b", ["r2-C13b"], "ZBDD pick_cube_dd whose path passes a hi == lo node whose child is not already a cube (>= 3 variables)"),
 ("R2-C14-localstate-freelist-lost", "C14", "/tmp/seed2/C14-out", "patch.diff", "seeded_C14.rs", "r2-C14a", ["r2-C14a"], "a session that pops a k-slot free list and allocates exactly one node (delta 0) loses k-1 slots: after drop + gc the retried operation still reports out of memory"),
 ("R2-C14-bcdd-subst-prepare-late-guard", "C14", "/tmp/seed2/C14-out", "patch2.diff", "seeded_C14_2.rs", "r2-C14b", ["r2-C14b", "r2-C14b2", "r2-C14b3"], "BCDD substitution: out of memory while creating the variable node of an unsubstituted upper level after at least one entry was pushed (preparation phase, before the recursion)"),
 ("R2-C15-export-bin-relative-level", "C15", "/tmp/seed2/C15-out", "patch.diff", "seeded_C15.rs", "r2-C15a", ["r2-C15a"], "binary export of a BCDD node whose children are both inner nodes with the else child above the then child and >= 6 support variables (relative variable code)"),
 ("R2-C15-export-generated-name-underscores", "C15", "/tmp/seed2/C15-out", "patch2.diff", "seeded_C15_2.rs", "r2-C15b", ["r2-C15b"], "a generated variable name that equals an existing name (one underscore too few)"),
 ("R2-C16-addnamed-empty-name-counter", "C16", "/tmp/seed2/C16-out", "patch.diff", "seeded_C16.rs", "r2-C16a", ["r2-C16a"], "one add_named_vars call with an empty name in front of a non-empty one"),
 ("R2-C16-addnamed-rejected-call-grows-names", "C16", "/tmp/seed2/C16-out", "patch2.diff", "seeded_C16_2.rs", "r2-C16b", ["r2-C16b"], "a rejected add_named_vars call (duplicate after fresh entries) leaves the name map longer than the level table"),
 ("R2-C17-remove-tombstone-successor", "C17", "/tmp/seed2/C17-out", "patch.diff", "demo1_seeded_C17.rs", "r2-C17a", ["r2-C17a"], "collision cluster a b c: remove b, then a (successor is a tombstone): the slot is freed and c becomes unreachable"),
 ("R2-C17-clone-drops-tombstones", "C17", "/tmp/seed2/C17-out", "patch2.diff", "demo2_seeded_C17_2.rs", "r2-C17b", ["r2-C17b"], "clone() of a table with a tombstone inside a cluster: the clone has a free slot there"),
 ("R2-C18-simplify-xor-polarity-in-unique-table", "C18", "/tmp/seed2/C18-out", "patch.diff", "seeded_C18.rs", "r2-C18a", ["r2-C18a"], "two XOR gates normalising to the same input set in one simplify call, the first one of odd parity"),
 ("R2-C18-aiger-binary-latch-reset-base", "C18", "/tmp/seed2/C18-out", "patch2.diff", "seeded_C18_2.rs", "r2-C18b", ["r2-C18b"], "binary AIGER with an uninitialised latch (explicit reset literal) and at least one input"),
 ("R2-C19-addnode-oom-forgets-children", "C19", "/tmp/seed2/C19-out", "patch.diff", "seeded_C19.rs", "r2-C19a", ["r2-C19a"], "out of memory at a node whose children are inner nodes (small-capacity manager through the C API): after unref of everything and gc nodes remain"),
 ("R2-C19-bdd-setvarorder-len2", "C19", "/tmp/seed2/C19-out", "patch2.diff", "demo2_capi.c", "r2-C19b", ["r2-C19b"], "oxidd_bdd_manager_set_var_order with exactly two variables that are currently inverted is ignored (len <= 2 shortcut)"),
 ("R2-C20-zbdd-subset-cache-key-level", "C20", "/tmp/seed2/C20-out", "patch.diff", "seeded_C20.rs", "r2-C20a", ["r2-C20a"], "apply cache compiled in only: ZBDD subset0/subset1/change under a non-identity order, the same node first with variable w then with v where level(w) == v"),
 ("R2-C20-parallel-ternary-late-guard", "C20", "/tmp/seed2/C20-out", "patch2.diff", "seeded_C20_2.rs", "r2-C20b", ["r2-C20b", "r2-C20b2", "r2-C20b3"], "multi-threading with >= 2 workers only: ite / apply-quantify whose first joined branch fails with out of memory while the second succeeds (its edge is never released)"),
 # ---- third round (/tmp/seed3) ----
 ("R3-C01-levelswap-lookup-lower", "C01", "/tmp/seed3/C01-out", "patch.diff", "seeded_C01.rs", "r3-C01a", ["r3-C01a"], "level_swap looks a new cofactor node up in the new lower table instead of the taken old-upper one: a rewritten node before a still-live equal node gives a duplicate"),
 ("R3-C01-pool-slice-skips-last", "C01", "/tmp/seed3/C01-out", "patch2.diff", "seeded_C01_2.rs", "r3-C01b", ["r3-C01b", "r3-C01b2"], "WorkerPool::slice_for_each skips the last element: only the parallel write-back of level numbers of set_var_order (>= 2 workers, approximate node count >= 65536) is affected"),
 ("R3-C03-zbdd-restrict-unreduced-empty", "C03", "/tmp/seed3/C03-out", "patch.diff", "seeded_C03.rs", "r3-C03a", ["r3-C03a"], "as R2-C01-zbdd-restrict-unreduced-empty (found independently)"),
 ("R3-C03-remove-tombstone-successor", "C03", "/tmp/seed3/C03-out", "patch2.diff", "demo2_seeded_C03_reorder.rs", "r3-C03b", ["r3-C03b"], "as R2-C17-remove-tombstone-successor (found independently): reached through LevelView::remove during reordering"),
 ("R3-C05-terminal-iterator-unretained", "C05", "/tmp/seed3/C05-out", "patch.diff", "seeded_C05.rs", "r3-C05a", ["r3-C05a"], "MTBDD: enumerating the terminals (Manager::terminals, DOT export) hands out un-counted edges; a terminal referenced once is freed by the next gc and its slot reused"),
 ("R3-C05-edgehashmap-insert-leak", "C05", "/tmp/seed3/C05-out", "patch2.diff", "seeded_C05_2.rs", "r3-C05b", ["r3-C05b", "r3-C05b2"], "DDDMP export of a diagram with a shared node: EdgeHashMap::insert clones the key although it is present; reference counts one too high afterwards, function values right"),
 ("R3-C06-terminal-store-inline-gc", "C06", "/tmp/seed3/C06-out", "patch.diff", "seeded_C06.rs", "r3-C06a", ["r3-C06a", "r3-C06a2"], "MTBDD terminal store exactly full when a new value is requested: the terminal manager collects inline (outside pre_gc/post_gc), the apply cache keeps an edge to a freed terminal whose slot is reused"),
 ("R3-C06-tryremove-unconditional", "C06", "/tmp/seed3/C06-out", "patch2.diff", "seeded_C06_2.rs", "r3-C06b", ["r3-C06b"], "as R2-C05-zbdd-addvars-frees-node (found independently)"),
 ("R3-C07-terminal-getedge-unlock-before-retain", "C07", "/tmp/seed3/C07-out", "patch.diff", "seeded_C07.rs", "r3-C07a", ["r3-C07a"], "MTBDD: get_edge of a present terminal drops the state mutex before incrementing the count; a collection on another thread frees the terminal in the gap"),
 ("R3-C07-gccount-after-collection", "C07", "/tmp/seed3/C07-out", "patch2.diff", "seeded_C07_2.rs", "r3-C07b", ["r3-C07b", "r3-C07b2", "r3-C07b3"], "gc_count advanced at the end of a collection: during a collection freeing >= 65536 nodes (slots handed back early) another thread reuses node ids while a SatCountCache that memoises every node still holds the old epoch"),
 ("R3-C08-updatelevels-old-level-numbers", "C08", "/tmp/seed3/C08-out", "patch.diff", "seeded_C08.rs", "r3-C08a", ["r3-C08a", "r3-C08a2"], "concurrent set_var_order (>= 2 workers, >= 65536 nodes by the approximate count) moving a non-empty level into the position of an empty one: the parallel write-back uses the old level numbers"),
 ("R3-C08-pointer-reorder-no-pregc", "C08", "/tmp/seed3/C08-out", "patch2.diff", "seeded_C08b.rs", "r3-C08b", ["r3-C08b"], "pointer backend only: reorder without pre_gc/post_gc; a cached result without live handle is deleted by a swap, its slot reused, the operation repeated before a gc"),
 ("R3-C09-pointer-leveliter-nextback", "C09", "/tmp/seed3/C09-out", "patch.diff", "seeded_C09.rs", "r3-C09a", ["r3-C09a"], "pointer backend and ZBDD only: level views obtained from the back report a level number one too high (tautology chain mislabelled)"),
 ("R3-C09-zbdd-diff-swapped-nomt", "C09", "/tmp/seed3/C09-out", "patch2.diff", "seeded_C09_demo2.rs", "r3-C09b", ["r3-C09b"], "builds without multi-threading only: ZBDD diff(f, g) returns g minus f"),
 ("R3-C14-notedgeowned-no-guard", "C14", "/tmp/seed3/C14-out", "patch.diff", "seeded_C14.rs", "r3-C14a", ["r3-C14a"], "default BooleanFunction::not_edge_owned (simple BDD, ZBDD) leaks its operand when the negation runs out of memory; reachable through edge-level calls and DDDMP import of a file with complemented arcs"),
 ("R3-C14-import-terminal-unwrap", "C14", "/tmp/seed3/C14-out", "patch2.diff", "demo2_seeded_C14_2.rs", "r3-C14b", ["r3-C14b", "r3-C14b2"], "DDDMP ASCII import into an MTBDD manager whose terminal capacity is exhausted by a value not yet present: panic instead of the out-of-memory error"),
 ("R3-C19-bdd-substitute-empty-borrowed", "C19", "/tmp/seed3/C19-out", "patch.diff", "seeded_C19.c", "r3-C19a", ["r3-C19a", "r3-C19a2"], "oxidd_bdd_substitute with a substitution without pairs returns the argument handle itself (borrowed instead of owned)"),
 ("R3-C19-bcdd-vartolevel-inverse", "C19", "/tmp/seed3/C19-out", "patch2.diff", "seeded_C19_2.c", "r3-C19b", ["r3-C19b", "r3-C19b2"], "oxidd_bcdd_manager_var_to_level returns level_to_var: wrong under an order that is not its own inverse (>= 3 variables, rotation)"),
 ("R3-C20-pointer-nodeset-pageoffset", "C20", "/tmp/seed3/C20-out", "patch.diff", "seeded_C20.rs", "r3-C20a", ["r3-C20a", "r3-C20a2"], "pointer backend only: NodeSet drops an address bit, two nodes exactly 1 MiB apart in one page count as one: node_count() of a function with more than 32768 nodes spread over the store is too small"),
 ("R3-C20-pointer-reorder-flag-stuck", "C20", "/tmp/seed3/C20-out", "patch2.diff", "seeded_C20_2.rs", "r3-C20b", ["r3-C20b"], "pointer backend with apply cache only: reorder_gc_prepared is not reset, every gc after the first reordering skips clearing the cache"),

 ("R3-C02-bcdd-impstrict-nomt", "C02", "/tmp/seed3/C02-out", "patch.diff", "seeded_C02.rs", "r3-C02a", ["r3-C02a"], "builds without multi-threading only: BCDD imp_strict computes rhs < lhs (the sequential front end has its own copy)"),
 ("R3-C02-pointer-frommap-hook-order", "C02", "/tmp/seed3/C02-out", "patch2.diff", "demo2_seeded_C02b.rs", "r3-C02b", ["r3-C02b", "r3-C02b2"], "pointer backend, ZBDD, variables created through add_named_vars_from_map on an empty manager: the post-reorder hooks run before the level tables are resized, the tautology chain holds only the Base terminal (t, var, not, nand ... wrong, no panic)"),
 ("R3-C04-zbdd-restrict-mt-handover-level", "C04", "/tmp/seed3/C04-out", "patch.diff", "seeded_C04.rs", "r3-C04a", ["r3-C04a", "r3-C04a2"], "ZBDD restrict on a manager with >= 2 workers: the hand-over from the parallel to the sequential recursor restarts at level 0 (needs the recursion to reach the split depth)"),
 ("R3-C04-bdd-applyexists-swapped-nomt", "C04", "/tmp/seed3/C04-out", "patch2.diff", "seeded_C04_2.rs", "r3-C04b", ["r3-C04b"], "builds without multi-threading only: BDD apply_exists with swapped operands (visible for imp / imp_strict)"),
 ("R3-C10-mtbdd-var-level", "C10", "/tmp/seed3/C10-out", "patch.diff", "seeded_C10.rs", "r3-C10a", ["r3-C10a"], "MTBDD var() requested after a reordering (variable number used as level)"),
 ("R3-C10-terminal-iterator-unretained", "C10", "/tmp/seed3/C10-out", "patch2.diff", "demo2_seeded_C10_2.rs", "r3-C10b", ["r3-C10b"], "as R3-C05-terminal-iterator-unretained (found independently)"),
 ("R3-C11-pointer-static-terminal-decode", "C11", "/tmp/seed3/C11-out", "patch.diff", "seeded_C11.rs", "r3-C11a", ["r3-C11a"], "pointer backend only: static terminal decoding masks with the largest value (right only for power-of-two terminal counts): the TDD terminal Unknown decodes as False"),
 ("R3-C11-eval-leveltovar", "C11", "/tmp/seed3/C11-out", "patch2.diff", "seeded_C11_2.rs", "r3-C11b", ["r3-C11b"], "TDD eval records its arguments at level_to_var(var): wrong under an order that is not its own inverse (>= 3 variables)"),
 ("R3-C12-natural-cmp-mask", "C12", "/tmp/seed3/C12-out", "patch.diff", "seeded_C12.rs", "r3-C12a", ["r3-C12a"], "Natural::partial_cmp of two numbers of equal bit width, >= 2 digits each, identical top 64 bits and trailing-zero counts differing mod 64"),
 ("R3-C12-countcache-vars-not-updated", "C12", "/tmp/seed3/C12-out", "patch2.diff", "seeded_C12_2.rs", "r3-C12b", ["r3-C12b"], "one count cache: sat_count(A vars), gc, sat_count(B vars), sat_count(A vars) again without gc"),
 ("R3-C13-pointer-varlevelmap-extend", "C13", "/tmp/seed3/C13-out", "patch.diff", "seeded_C13.rs", "r3-C13a", ["r3-C13a"], "pointer backend, variables created in two or more batches: level_to_var of later batches maps back to 0..k; only the vector-returning pick functions use it"),
 ("R3-C13-bcdd-f64-count-1021", "C13", "/tmp/seed3/C13-out", "patch2.diff", "seeded_C13_2.rs", "r3-C13b", ["r3-C13b", "r3-C13b2"], "BCDD model count in f64 with exactly 1021 variables overflows to inf (pick_cube_uniform then always takes the else branch)"),
 ("R3-C15-escape-0d", "C15", "/tmp/seed3/C15-out", "patch.diff", "seeded_C15.rs", "r3-C15a", ["r3-C15a", "r3-C15a2"], "binary export writes the escape of byte 0x0d as that of 0x0a: needs a child id / id distance in 768..895, i.e. a BCDD with more than ~1536 nodes in binary mode"),
 ("R3-C15-import-table-sized-by-nvars", "C15", "/tmp/seed3/C15-out", "patch2.diff", "seeded_C15_2.rs", "r3-C15b", ["r3-C15b"], "binary import into a manager with more variables than the file's .nvars and a support variable at a level >= .nvars"),
 ("R3-C16-pointer-addnamed-zero-vars", "C16", "/tmp/seed3/C16-out", "patch.diff", "seeded_C16.rs", "r3-C16a", ["r3-C16a", "r3-C16a2"], "pointer backend, ZBDD: an add_named_vars call that adds no variable (duplicate first, empty list) skips the post-reorder hooks, the tautology chain stays torn down"),
 ("R3-C16-varnamemap-clone-index", "C16", "/tmp/seed3/C16-out", "patch2.diff", "seeded_C16_2.rs", "r3-C16b", ["r3-C16b"], "a cloned VarNameMap with an unnamed variable before a named one, taken wholesale by add_named_vars_from_map on an empty manager"),
 ("R3-C17-rehash-mod-mask", "C17", "/tmp/seed3/C17-out", "patch.diff", "demo/crates/linear-hashtbl/tests/seeded_C17.rs", "r3-C17a", ["r3-C17a"], "rehash (growth, shrink, tombstone cleanup) places elements with `% new_mask`: an element colliding at one of the last two slots is stored behind a free slot"),
 ("R3-C17-reserve-counts-tombstones-free", "C17", "/tmp/seed3/C17-out", "patch2.diff", "demo2/crates/linear-hashtbl/tests/seeded_C17_2.rs", "r3-C17b", ["r3-C17b"], "reserve treats tombstones as free: a low element count with tombstones over >= 16 home slots leaves no free slot, lookups of absent keys never terminate"),
 ("R3-C18-aiger-ascii-fairness-spans", "C18", "/tmp/seed3/C18-out", "patch.diff", "seeded_C18.rs", "r3-C18a", ["r3-C18a", "r3-C18a2"], "ASCII AIGER 1.9 file with more fairness constraints than justice literals: the surplus fairness literals stay untranslated"),
 ("R3-C18-nnf-literal-min-i64", "C18", "/tmp/seed3/C18-out", "patch2.diff", "seeded_C18_2.rs", "r3-C18b", ["r3-C18b", "r3-C18b2"], "NNF token `L -9223372036854775808`: abs overflow panic instead of a diagnostic (builds with overflow checks)"),

 # round 4 (session 3): ten properties with intricate mechanisms; agents were given the list of mechanisms used before
 ("R4-C01-find-stops-at-tombstone", "C01", "/tmp/seed4/C01/out", "patch.diff", "seeded_C01.rs", "r4-C01", ["r4-C01"], "RawTable::find (used only by LevelView::get/remove, i.e. reordering) stops at a tombstone: build, drop, gc (tombstones), swap a level whose new cofactor equals a live node behind a tombstone, derive again: duplicate node, different handle"),
 ("R4-C03-levelswap-skips-dead-node", "C03", "/tmp/seed4/C03/out", "patch.diff", "seeded_C03.rs", "r4-C03", ["r4-C03"], "level_swap skips unreferenced nodes of the old upper level instead of re-inserting them; one that is needed again as a new child is revived through the taken table's lookup but listed in no level (dropped-but-uncollected node, then a swap that needs it, visited before its user)"),
 ("R4-C05-gc-skips-terminals-when-no-inner", "C05", "/tmp/seed4/C05/out", "patch.diff", "seeded_C05.rs", "r4-C05", ["r4-C05"], "MTBDD: a collection that removes no inner node skips the terminal manager's gc; unreferenced terminals survive, terminal capacity is not restored"),
 ("R4-C06-bdd-quant-cache-key-shadowed", "C06", "/tmp/seed4/C06/out", "patch.diff", "seeded_C06.rs", "r4-C06", ["r4-C06"], "BDD quant memoises under (f, vars minus top variable) but looks up under the full popped set: exists over {x0,x1} then over {x1} on the same node, no gc in between (the opposite order is correct)"),
 ("R4-C07-terminal-retain-load-store", "C07", "/tmp/seed4/C07/out", "patch.diff", "seeded_C07.rs", "r4-C07", ["r4-C07", "r4-C07b"], "MTBDD terminal reference-count increment is load + store instead of fetch_add: two threads cloning/dropping handles of one terminal at the same moment lose updates (count too low: freed while handles alive; too high: never collected)"),
 ("R4-C08-remove-last-slot-free", "C08", "/tmp/seed4/C08/out", "patch.diff", "seeded_C08.rs", "r4-C08", ["r4-C08"], "RawTable::remove_at_slot of the LAST slot treats 'no next element' as free although the probe chain wraps to slot 0 (only reachable through LevelView::remove during reordering): wrapped entries become unreachable, duplicates after the reorder"),
 ("R4-C12-bdd-f64-scale-1021", "C12", "/tmp/seed4/C12/out", "patch.diff", "seeded_C12.rs", "r4-C12", ["r4-C12"], "simple BDD sat_count into F64 with exactly 1021 variables: terminal value not scaled down (`>` for `>=`) while the result is scaled up"),
 ("R4-C14-applyquant-collapsed-operand-leak", "C14", "/tmp/seed4/C14/out", "patch.diff", "seeded_C14.rs", "r4-C14", ["r4-C14"], "BDD apply_exists/forall/unique whose operator collapses to one operand (f and T, f xor T, f and f) and whose remaining quantification runs out of memory: the collapsed operand is never released"),
 ("R4-C15-ids-duplicates-accepted", "C15", "/tmp/seed4/C15/out", "patch.diff", "seeded_C15.rs", "r4-C15", ["r4-C15"], "DDDMP header with a repeated support variable in .ids (`.ids 1 1`): accepted (is_sorted instead of strictly sorted); with 2.0-style names the name reconstruction panics"),
 ("R4-C20-tryremove-and-or", "C20", "/tmp/seed4/C20/out", "patch.diff", "seeded_C20.rs", "r4-C20", ["r4-C20"], "index manager + apply cache + ZBDD only: try_remove_node frees a node outside a prepared gc/reorder (`||` became `&&`); operation on the power-set node, drop, add_vars, same operation: stale cache entry on a recycled slot"),
]
summary = []
for sid, prop, out, patch, demo, conf, evals, needs in T:
    src = os.path.join(S, out)
    if not os.path.exists(os.path.join(src, patch)):
        continue
    if (sid.startswith("R2-") or sid.startswith("R3-")) and os.path.exists(os.path.join(ROOT, "seeded", sid, "meta.json")) and not os.path.exists(os.path.join(src, patch)):
        continue
    cj = f"/tmp/seedconf/{conf}.json"
    conf_res = json.load(open(cj)) if os.path.exists(cj) else None
    ev = {}
    for e in evals:
        rj = f"/tmp/seedrun/{e}.result.json"
        if os.path.exists(rj):
            for p, r in json.load(open(rj)).items():
                ev.setdefault(p, []).append({"run": e, "exit": r["rc"], "violation_lines": len(r["violations"]), "no_failing_input_found": any("no-failing-input-found" in v for v in r["violations"]), "summary": r["summary"][:300]})
    d = os.path.join(ROOT, "seeded", sid)
    os.makedirs(d, exist_ok=True)
    shutil.copy(os.path.join(src, patch), os.path.join(d, "patch.diff"))
    shutil.copy(os.path.join(src, demo), os.path.join(d, os.path.basename(demo)))
    for extra in ("notes.md", "RUN.md"):
        if os.path.exists(os.path.join(src, extra)):
            shutil.copy(os.path.join(src, extra), os.path.join(d, "agent_" + extra))
    caught = sorted(p for p, rs in ev.items() if any(r["exit"] == 1 for r in rs))
    caught_last = sorted(p for p, rs in ev.items() if rs[-1]["exit"] == 1)
    meta = {
        "id": sid, "breaks_property": prop, "needs_to_manifest": needs,
        "source": "independent sub-agent given only the property text and a scratch worktree",
        "confirmed_by_integrator": conf_res,
        "what_was_run": [
            "tools/confirm_seed.py: fresh worktree of /repo HEAD, patch applied, `cargo test --workspace --no-fail-fast --offline` (must pass), demonstration test with the change (must fail) and without it (must pass)",
            "tools/seed_eval.py: patch applied in an isolated copy of /repo and /verif, `python3 check.py <property> --tier quick` (equivalent to `git -C /repo apply`, run, `git -C /repo checkout -- .`)"],
        "checks_evaluated": ev,
        "caught_by_checks": caught_last,
        "caught_only_after_strengthening": sorted(p for p in caught_last if ev[p][0]["exit"] == 0),
    }
    json.dump(meta, open(os.path.join(d, "meta.json"), "w"), indent=1, ensure_ascii=False)
    summary.append((sid, prop, bool(conf_res and conf_res.get("confirmed")), caught_last, meta["caught_only_after_strengthening"], sorted(p for p, rs in ev.items() if rs[-1]["exit"] == 0)))
for s in summary:
    print(s)
json.dump(summary, open(os.path.join(ROOT, "seeded", "SUMMARY.json"), "w"), indent=1)
