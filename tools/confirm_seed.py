#!/usr/bin/env python3
"""Confirm a seeded change in a scratch worktree of /repo's HEAD:
  (a) compiles, (b) existing suite passes with the change, (c) the demonstration fails with the
  change and passes without it. Writes /tmp/seedconf/<name>.json; removes the worktree afterwards.
usage: confirm_seed.py <name> <patch> <demo src> <demo dst relative to repo> <crate> <test name> [--release]
"""
import json, os, shutil, subprocess, sys, time
name, patch, demo, dst, crate, test = sys.argv[1:7]
release = "--release" in sys.argv
extra = []
if "--cargo-args" in sys.argv:
    extra = sys.argv[sys.argv.index("--cargo-args") + 1].split()
base = f"/tmp/seedconf/{name}"
os.makedirs("/tmp/seedconf", exist_ok=True)
subprocess.run(["git", "-C", "/repo", "worktree", "remove", "--force", base], stderr=subprocess.DEVNULL)
shutil.rmtree(base, ignore_errors=True)
subprocess.run(["git", "-C", "/repo", "worktree", "add", "--detach", base, "HEAD", "-q"], check=True)
env = dict(os.environ, CARGO_NET_OFFLINE="true")
res = {"name": name, "patch": patch, "demo": demo, "repo_head": subprocess.check_output(["git", "-C", "/repo", "rev-parse", "--short", "HEAD"]).decode().strip()}
def run(cmd, timeout=1800):
    t = time.time()
    try:
        p = subprocess.run(cmd, cwd=base, env=env, stdout=subprocess.PIPE, stderr=subprocess.STDOUT, timeout=timeout)
        return p.returncode, p.stdout.decode(errors="replace")[-1500:], round(time.time() - t, 1)
    except subprocess.TimeoutExpired:
        return -9, "timeout", round(time.time() - t, 1)
try:
    p = subprocess.run(["git", "-C", base, "apply", "--whitespace=nowarn", patch], stderr=subprocess.PIPE)
    if p.returncode != 0:
        p = subprocess.run(["git", "-C", base, "apply", "--3way", "--whitespace=nowarn", patch], stderr=subprocess.PIPE)
    res["applies"] = p.returncode == 0
    if res["applies"]:
        rc, out, t = run(["cargo", "test", "--workspace", "--no-fail-fast", "--offline"])
        res["suite_with_change"] = {"cmd": "cargo test --workspace --no-fail-fast --offline", "rc": rc, "wall_s": t, "tail": out[-300:] if rc else ""}
        os.makedirs(os.path.dirname(os.path.join(base, dst)), exist_ok=True)
        shutil.copy(demo, os.path.join(base, dst))
        cmd = ["cargo", "test", "--offline", "-p", crate, "--test", test] + (["--release"] if release else []) + extra + ["--", "--test-threads=1"]
        rc, out, t = run(cmd, timeout=900)
        res["demo_with_change"] = {"cmd": " ".join(cmd), "rc": rc, "wall_s": t, "tail": out[-600:]}
        subprocess.run(["git", "-C", base, "apply", "-R", "--whitespace=nowarn", patch], check=False)
        # 3-way applied patches are in the index: restore source files from HEAD (keep the untracked demo)
        subprocess.run(["git", "-C", base, "checkout", "HEAD", "--", "crates"], check=False)
        shutil.copy(demo, os.path.join(base, dst))
        rc, out, t = run(cmd, timeout=900)
        res["demo_without_change"] = {"cmd": " ".join(cmd), "rc": rc, "wall_s": t, "tail": out[-300:] if rc else ""}
        res["confirmed"] = res["suite_with_change"]["rc"] == 0 and res["demo_with_change"]["rc"] != 0 and res["demo_without_change"]["rc"] == 0
    else:
        res["confirmed"] = False
        res["apply_error"] = p.stderr.decode()[-400:]
finally:
    subprocess.run(["git", "-C", "/repo", "worktree", "remove", "--force", base], stderr=subprocess.DEVNULL)
    shutil.rmtree(base, ignore_errors=True)
json.dump(res, open(f"/tmp/seedconf/{name}.json", "w"), indent=1)
print(name, "confirmed" if res.get("confirmed") else "NOT CONFIRMED", json.dumps({k: (v.get("rc") if isinstance(v, dict) else v) for k, v in res.items() if k in ("applies", "suite_with_change", "demo_with_change", "demo_without_change")}))
