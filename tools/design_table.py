#!/usr/bin/env python3
"""(Re)write section 0.8 of DESIGN.md: per-property table generated from checks/*.json"""
import glob, json, os
ROOT = os.path.dirname(os.path.dirname(os.path.abspath(__file__)))
rows = []
for f in sorted(glob.glob(os.path.join(ROOT, "checks", "C*.json"))):
    c = json.load(open(f))
    if c.get("disabled"):
        continue
    mods = ", ".join(m.replace("OxiddModel.", "") for m in c.get("lean_modules", []))
    st = []
    for s in c.get("streams", []):
        tag = "model+oracles" if s.get("proto") else "oracles only"
        if s.get("same_as"):
            tag += ", must equal `" + s["same_as"] + "`"
        st.append(f"`{s['name']}` ({tag})")
    if len(st) > 8:
        st = st[:8] + [f"… {len(c['streams'])} streams in total"]
    rows.append((c["property"], mods, len(c.get("theorems", [])), "; ".join(st)))
kf = json.load(open(os.path.join(ROOT, "known_findings.json")))
out = ["### 0.8 Per-property summary as registered (generated from `checks/*.json` by `tools/design_table.py`)", "",
       "| property | Lean theorem modules (under `OxiddModel.`) | headline theorems audited | correspondence / oracle streams |", "|---|---|---|---|"]
for r in rows:
    out.append(f"| {r[0]} | {r[1]} | {r[2]} | {r[3]} |")
out += ["", "Open known findings: " + "; ".join(f"`{f['id']}` ({', '.join(f['properties'])})" for f in kf["findings"] if f.get("status") == "open") + ".", ""]
text = "\n".join(out) + "\n"
p = os.path.join(ROOT, "DESIGN.md")
s = open(p).read()
start = s.find("### 0.8 Per-property summary")
if start >= 0:
    end = s.index("Contents", start)
    s = s[:start] + text + "\n" + s[end:]
else:
    i = s.index("Contents")
    s = s[:i] + text + "\n" + s[i:]
open(p, "w").write(s)
print(len(rows), "rows")
