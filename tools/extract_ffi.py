#!/usr/bin/env python3
"""Translator for the C wrapper layer (property C19): crates/oxidd-ffi-c/src/{bdd,bcdd,zbdd}.rs and
util/*.rs  ->  lean/OxiddModel/Generated/SrcFfi.lean.

For EVERY `extern "C"` function of the crate one row `FfiW.Fn`:

  kind, name (without `oxidd_<kind>_`), parameters with their C types (ownership-relevant
  classification `FfiW.Ty`), return type, the helper the body consists of (`op1 / op2 / op2_var / op3 /
  op3_combined`, or none), the Rust API items the body calls (plumbing such as `get`, `into`,
  `with_manager_shared` removed), the order in which the parameters are passed on, every *use* of a
  handle-typed parameter (`p.get()` = borrow, argument of a helper, `p._p.is_null()`, raw parts
  inside `from_raw(..)`, returned unchanged, passed to a crate-local function, anything else),
  the ownership-relevant constructs of the body (counts of `from_raw` outside / inside
  `ManuallyDrop::new`, `ManuallyDrop::into_inner|take|drop`, `drop(`, `forget(`, `.clone()`,
  `.into()` / `into_raw()`, `INVALID`), the `static` / `thread_local!` / `lazy_static!` / `OnceLock` …
  items it declares or refers to, and whether it carries `#[unsafe(no_mangle)]`.

The generic helper functions of `util/mod.rs` and `util/dddmp.rs` that receive handles
(`op1 … op3_combined`, `dump_all_dot_path*`, `export*`, `visualize*`, `import_into`, the provided
methods of `CManagerRef`) are rows of `ffiUtilFns` (same facts), the `CFunction::get` /
`CManagerRef::get` / `From<…>` conversions of the three files rows of `ffiConvs`.

`ffiStatics` lists every `static` item, `thread_local!`, `lazy_static!`, `OnceLock/OnceCell/
LazyLock/LazyCell/Lazy` mention of the crate (file, construct, name).  `ffiUnparsed` lists whatever
the extractor could not classify (an unknown way of mentioning a handle type in a signature, a
helper called with a closure instead of a path `XFunction::method`, a use of a handle parameter
outside the vocabulary, an `extern "C"` item it could not delimit) — the obligation is `= []`,
nothing is skipped silently.

The hand-written `Generated/RulesFfi.lean` (types, the call classes of `Ffi/Model.lean`, their
ownership discipline, the expected operation tables) and `Generated/ObFfi.lean` (theorems
`ffi_classes_total`, `ffi_class_sound`, `ffi_stateless`, `ffi_forwarding_table`, …) are rebuilt
after every regeneration.

Source root: `--src-root DIR`, else $OXIDD_SRC_ROOT, else $OXIDD_REPO, else /repo.
Output directory: `--out-dir DIR`, else $OXIDD_GEN_OUT, else <this tree>/lean/OxiddModel/Generated.
"""
import os
import re
import sys


def _arg(flag):
    return sys.argv[sys.argv.index(flag) + 1] if flag in sys.argv and sys.argv.index(flag) + 1 < len(sys.argv) else None


REPO = _arg("--src-root") or os.environ.get("OXIDD_SRC_ROOT") or os.environ.get("OXIDD_REPO", "/repo")
ROOT = os.path.dirname(os.path.dirname(os.path.abspath(__file__)))
GEN_DIR = _arg("--out-dir") or os.environ.get("OXIDD_GEN_OUT") or os.path.join(ROOT, "lean", "OxiddModel", "Generated")
OUT = os.path.join(GEN_DIR, "SrcFfi.lean")
CRATE = "crates/oxidd-ffi-c/src"
KIND_FILES = [("bdd", "bdd.rs"), ("bcdd", "bcdd.rs"), ("zbdd", "zbdd.rs")]
UTIL_FILES = ["util/mod.rs", "util/interop.rs", "util/dddmp.rs", "util/num.rs", "lib.rs"]
HELPERS = ["op1", "op2", "op2_var", "op3", "op3_combined"]
FUNC_TY = {"bdd": "BDDFunction", "bcdd": "BCDDFunction", "zbdd": "ZBDDFunction"}

UNPARSED = []


def die(msg):
    print("extract_ffi: " + msg)
    sys.exit(1)


def read(rel):
    p = os.path.join(REPO, CRATE, rel)
    if not os.path.exists(p):
        die(f"{p} not found")
    return open(p, encoding="utf-8").read()


# ------------------------------------------------------------------------------------------------
# lexer

TOK = re.compile(r'''
    //[^\n]*
  | /\*.*?\*/
  | b?"(?:\\.|[^"\\])*"
  | b?'(?:\\.|[^'\\])'
  | '[A-Za-z_][A-Za-z0-9_]*
  | [A-Za-z_][A-Za-z0-9_]*!?
  | \d[\d_a-zA-Z.]*
  | ::|->|=>|&&|\|\||\.\.=?|[<>=!+\-*/%^&|]=
  | [{}()\[\];,.:<>=!+\-*/%^&|\#?@~$]
  | \s+
  | .
''', re.X | re.S)


def lex(src):
    out = []
    for m in TOK.finditer(src):
        t = m.group(0)
        if t.isspace() or t.startswith("//") or t.startswith("/*"):
            continue
        # `x!=y` must not lex `x!` as a macro name
        if t.endswith("!") and len(t) > 1 and m.end() < len(src) and src[m.end()] == "=":
            out.append(t[:-1])
            out.append("!")
            continue
        out.append(t)
    return out


OPEN = {"(": ")", "[": "]", "{": "}"}
CLOSE = {")", "]", "}"}


def match_close(toks, i):
    """index of the token closing the bracket opened at i"""
    depth = 0
    for j in range(i, len(toks)):
        if toks[j] in OPEN:
            depth += 1
        elif toks[j] in CLOSE:
            depth -= 1
            if depth == 0:
                return j
    return None


def split_top(toks, sep=","):
    """split at top-level separators; `<`/`>` of generics are respected in type position"""
    parts, cur, depth, angle = [], [], 0, 0
    for k, t in enumerate(toks):
        if t in OPEN:
            depth += 1
        elif t in CLOSE:
            depth -= 1
        elif t == "<" and depth == 0:
            angle += 1
        elif t == ">" and depth == 0 and angle > 0:
            angle -= 1
        if t == sep and depth == 0 and angle == 0:
            parts.append(cur)
            cur = []
        else:
            cur.append(t)
    if cur:
        parts.append(cur)
    return parts


def strip_unsafe(toks):
    """`unsafe { X }` -> X (the braces are dropped), `unsafe` before `fn`/`impl`/`extern` dropped"""
    out = []
    skip_close = set()
    i = 0
    while i < len(toks):
        t = toks[i]
        if t == "unsafe" and i + 1 < len(toks) and toks[i + 1] == "{":
            j = match_close(toks, i + 1)
            if j is None:
                out.append(t)
                i += 1
                continue
            skip_close.add(j)
            i += 2
            continue
        if i in skip_close:
            i += 1
            continue
        out.append(t)
        i += 1
    return out


# ------------------------------------------------------------------------------------------------
# types

def classify_ty(ts, kind):
    """ownership-relevant classification of a C type (token list)"""
    s = "".join(ts)
    s = s.replace("util::", "").replace("crate::", "").replace("super::", "")
    ks = [kind] if kind else ["bdd", "bcdd", "zbdd"]
    for k in ks:
        f, m, p, sub = f"{k}_t", f"{k}_manager_t", f"{k}_pair_t", f"{k}_substitution_t"
        table = {
            f: "func", m: "mgr", p: "pair",
            f"*const{f}": "funcArr", f"*mut{f}": "funcOut",
            f"iter<{f}>": "funcIter", f"iter<named<{f}>>": "namedIter",
            f"*const{sub}": "substC", f"*mut{sub}": "substM",
        }
        if s in table:
            return table[s]
    # the generic helpers of util
    gen = {"CF": "func", "CF::CManagerRef": "mgr", "*constCF": "funcArr", "*mutCF": "funcOut",
           "iter<CF>": "funcIter", "iter<named<CF>>": "namedIter"}
    if not kind and s in gen:
        return gen[s]
    if s == "":
        return "unit"
    # any other mention of a handle type is outside the vocabulary
    if re.search(r"\b(bdd|bcdd|zbdd)(_manager|_pair|_substitution)?_t\b", s) or (not kind and re.search(r"\bCF\b(?!::Function)", s)):
        UNPARSED.append(f"type `{s}` mentions a handle type in an unknown way")
    return ("plain", s)


HANDLE_TYS = {"func", "mgr", "funcArr", "funcOut", "funcIter", "namedIter", "substC", "substM"}

# ------------------------------------------------------------------------------------------------
# body analysis

PLUMBING = {
    "get", "into", "and_then", "map", "expect", "unwrap", "unwrap_or", "unwrap_or_default", "ok", "is_some",
    "is_none", "is_null", "with_manager_shared", "with_manager_exclusive", "clone", "forget", "drop",
    "from_raw", "into_raw", "new", "into_inner", "iter", "into_iter", "copied", "zip", "filter_map",
    "enumerate", "cast", "as_ptr", "as_mut_ptr", "len", "write", "add", "shrink_to_fit", "push",
    "with_capacity", "from_raw_parts", "as_slice", "is_empty", "to_string_lossy", "to_str_lossy", "to_string",
    "default", "map_err", "create", "Some", "None", "Ok", "Err", "assert", "format", "read",
    # string / slice conversions of util/interop.rs, callbacks
    "c_char_array_to_os_str", "c_char_array_to_str", "c_char_to_str", "to_c_str", "slice_from_raw_parts",
    "null_mut", "null", "callback", "handle_err", "handle_err_or_init",
}


def shadow_mask(toks, p):
    """mask[i] = the identifier `p` at token i refers to a *rebinding* of the parameter (a borrowed
    ManuallyDrop, a closure parameter …), not to the C parameter itself"""
    n = len(toks)
    mask = [False] * n
    binders = []  # (start, end) ranges in which p is shadowed

    def enclosing_end(i):
        """index of the bracket closing the innermost group containing i (or n)"""
        depth = 0
        for j in range(i, n):
            if toks[j] in OPEN:
                depth += 1
            elif toks[j] in CLOSE:
                if depth == 0:
                    return j
                depth -= 1
        return n

    i = 0
    while i < n:
        t = toks[i]
        if t == "let":
            # pattern up to `=` at depth 0
            depth, j = 0, i + 1
            while j < n and not (toks[j] == "=" and depth == 0):
                if toks[j] in OPEN:
                    depth += 1
                elif toks[j] in CLOSE:
                    depth -= 1
                j += 1
            pat = toks[i + 1:j]
            is_cond = i > 0 and toks[i - 1] in ("if", "&&", "while")
            if p in pat:
                for k in range(i + 1, j):
                    if toks[k] == p:
                        mask[k] = True  # binding occurrence
                # end of the initialiser
                depth, k = 0, j + 1
                while k < n:
                    if toks[k] in OPEN:
                        if is_cond and toks[k] == "{" and depth == 0:
                            break
                        depth += 1
                    elif toks[k] in CLOSE:
                        if depth == 0:
                            break
                        depth -= 1
                    elif depth == 0 and ((not is_cond and toks[k] == ";") or (is_cond and toks[k] == "&&")):
                        break
                    k += 1
                if is_cond:
                    # in scope for the following conditions and the then-block
                    b = k
                    while b < n and toks[b] != "{":
                        b += 1
                    e = match_close(toks, b) if b < n else n
                    binders.append((k, e if e is not None else n))
                else:
                    binders.append((k, enclosing_end(k)))
            i = j
            continue
        if t == "|" and (i == 0 or toks[i - 1] in ("(", ",", "=", "move", "{", ";")):
            # closure parameters
            j = i + 1
            while j < n and toks[j] != "|":
                j += 1
            if p in toks[i + 1:j]:
                for k in range(i + 1, j):
                    if toks[k] == p:
                        mask[k] = True
                binders.append((j, enclosing_end(j)))
            i = j + 1
            continue
        if t in ("Ok", "Some", "Err") and i + 3 < n and toks[i + 1] == "(":
            j = match_close(toks, i + 1)
            if j is not None and j + 1 < n and toks[j + 1] == "=>" and p in toks[i + 2:j]:
                for k in range(i + 2, j):
                    if toks[k] == p:
                        mask[k] = True
                binders.append((j + 1, enclosing_end(j + 1)))
        i += 1
    for (a, b) in binders:
        for k in range(a, min(b, n)):
            mask[k] = True
    return mask


def callee_before(toks, i):
    """toks[i] == '(' : the name called (last path segment / method name), or None"""
    if i == 0:
        return None
    t = toks[i - 1]
    if re.match(r"[A-Za-z_][A-Za-z0-9_]*!?$", t):
        return t
    if t == ">":  # turbofish `f::<A, B>(`
        depth, j = 0, i - 1
        while j >= 0:
            if toks[j] == ">":
                depth += 1
            elif toks[j] == "<":
                depth -= 1
                if depth == 0:
                    break
            j -= 1
        if j >= 2 and toks[j - 1] == "::":
            return toks[j - 2]
    return None


def enclosing_call(toks, i):
    """the call whose argument list directly contains token i: (callee, index of '(') or None"""
    depth = 0
    for j in range(i - 1, -1, -1):
        if toks[j] in CLOSE:
            depth += 1
        elif toks[j] in OPEN:
            if depth == 0:
                if toks[j] == "(":
                    return callee_before(toks, j), j
                return None
            depth -= 1
    return None


def analyse_body(name, params, body, kind, static_names):
    """generic facts of one function body (token list without the outer braces)"""
    toks = strip_unsafe(body)
    n = len(toks)
    facts = {}
    short = re.sub(r"^oxidd_(bdd|bcdd|zbdd)_", "", name)
    pnames = [p for p, _ in params]
    # -- helper shape: the body is exactly `opN(args…, XFunction::method)`
    helper, fwd_args = "none", []
    if n >= 4 and toks[0] in HELPERS and toks[1] == "(" and match_close(toks, 1) == n - 1:
        args = split_top(toks[2:n - 1])
        last = args[-1] if args else []
        if len(last) == 3 and last[1] == "::" and (not kind or last[0] == FUNC_TY[kind]) and all(len(a) == 1 for a in args[:-1]):
            helper = toks[0]
            fwd_args = [a[0] for a in args[:-1]]
            fwd_method = last[2]
        else:
            UNPARSED.append(f"{name}: helper `{toks[0]}` is not called with plain parameters and a path `{FUNC_TY.get(kind, 'XFunction')}::method` ({' '.join(last)})")
    facts["helper"] = helper
    # -- API items called
    api = []
    for i, t in enumerate(toks):
        if t == "(":
            c = callee_before(toks, i)
            if c and c not in PLUMBING and c not in HELPERS and not c.endswith("!") and c not in ("if", "match", "while", "return", "move", "let", "in", "for", "else", "as"):
                # tuple struct patterns / enum constructors are in PLUMBING; type names start upper case
                if c[0].isupper():
                    continue
                api.append(c)
    if helper != "none":
        api = [fwd_method]
    facts["api"] = api
    # -- order in which the parameters are first mentioned
    order = []
    for t in toks:
        if t in [p for p, _ in params] and t not in order:
            order.append(t)
    facts["order"] = fwd_args if helper != "none" else order
    # the innermost call of the API item of the same name: order of the parameters inside it
    # (`make_node(manager, var, hi.into_edge(..), lo.into_edge(..))`)
    inner = []
    for i, t in enumerate(toks):
        if t == "(" and callee_before(toks, i) == short and helper == "none":
            j = match_close(toks, i)
            for a in split_top(toks[i + 1:j]):
                ids = [x for x in a if x in [p for p, _ in params]]
                if ids:
                    inner.append(ids[0])
    facts["inner"] = inner
    # -- uses of the handle-typed parameters
    uses = []
    for p, ty in params:
        if ty not in HANDLE_TYS:
            continue
        mask = shadow_mask(toks, p)
        for i, t in enumerate(toks):
            if t != p or mask[i]:
                continue
            if i > 0 and toks[i - 1] in (".", "::"):
                continue  # a field / method of the same name
            nxt = toks[i + 1:i + 6]
            prev = toks[i - 1] if i > 0 else ""
            enc = enclosing_call(toks, i)
            if nxt[:4] == [".", "get", "(", ")"]:
                uses.append((p, "get", ""))
            elif nxt[:3] == [".", "func", "."] and toks[i + 3:i + 6] == ["get", "(", ")"]:
                uses.append((p, "get", ""))
            elif nxt[:5] == [".", "_p", ".", "is_null", "("] or nxt[:3] == [".", "is_null", "("]:
                uses.append((p, "rawNull", ""))
            elif nxt[:2] in ([".", "_p"], [".", "_i"]):
                if enc and enc[0] == "from_raw":
                    uses.append((p, "rawFrom", ""))
                else:
                    uses.append((p, "other", "raw field " + "".join(nxt[:2])))
            elif prev == "*" and i >= 2 and toks[i - 2] in ("&", "mut"):
                uses.append((p, "deref", ""))
            elif nxt[:1] == ["."] and len(nxt) >= 3 and nxt[2] == "(":
                # method call on the parameter itself: iterator adaptors, provided trait methods
                m = nxt[1]
                if m in ("into_iter", "iter", "map", "write", "add", "is_null"):
                    uses.append((p, "iter", m))
                else:
                    uses.append((p, "call", m))
            elif enc and prev in ("(", ",") and (nxt[:1] in ([","], [")"])):
                c = enc[0]
                if c in HELPERS:
                    uses.append((p, "helper", c))
                elif c == "from_raw":
                    uses.append((p, "rawFrom", ""))
                elif c in ("from_raw_parts", "slice_from_raw_parts"):
                    uses.append((p, "iter", "slice"))  # a borrowed slice over the caller's array
                elif c is None:
                    uses.append((p, "other", "argument of an unnamed call"))
                else:
                    uses.append((p, "call", c))
            elif nxt[:1] == ["="]:
                uses.append((p, "iter", "assign"))
            elif i == n - 1 and prev in (";", "}"):
                uses.append((p, "ret", ""))
            elif prev == "=" and nxt[:1] == [";"] and i >= 3 and toks[i - 3] == "let" and toks[i - 2] != p:
                uses.append((p, "other", "moved into `" + toks[i - 2] + "`"))
            else:
                uses.append((p, "other", " ".join(toks[max(0, i - 2):i + 4])))
    facts["uses"] = uses
    for (p, u, d) in uses:
        if u == "other":
            UNPARSED.append(f"{name}: parameter `{p}` used outside the vocabulary ({d})")
    # -- ownership constructs
    fro, frb, inner_n = 0, 0, 0
    for i, t in enumerate(toks):
        if t == "from_raw" and i + 1 < n and toks[i + 1] == "(":
            enc = enclosing_call(toks, i)
            # `ManuallyDrop::new(X::from_raw(..))`
            if enc and enc[0] == "new" and enc[1] >= 3 and toks[enc[1] - 3:enc[1]] == ["ManuallyDrop", "::", "new"]:
                frb += 1
            else:
                fro += 1
        if t in ("into_inner", "take") and i >= 2 and toks[i - 2:i] == ["ManuallyDrop", "::"]:
            inner_n += 1
        if t == "drop" and i >= 2 and toks[i - 2:i] == ["ManuallyDrop", "::"]:
            inner_n += 1
        if t in ("drop_in_place", "read", "read_unaligned", "transmute", "transmute_copy", "assume_init_read") and i + 1 < n and toks[i + 1] == "(" and i >= 1 and toks[i - 1] in ("::", "."):
            inner_n += 1
    facts["fromRawOwned"], facts["fromRawBorrowed"], facts["intoInner"] = fro, frb, inner_n
    # parameters taken over: those whose raw parts are given to an owning `from_raw`, and those in
    # the statement of a `ManuallyDrop::into_inner|take|drop`
    consumed = []
    for i, t in enumerate(toks):
        owning = False
        if t == "from_raw" and i + 1 < n and toks[i + 1] == "(":
            enc = enclosing_call(toks, i)
            if not (enc and enc[0] == "new" and enc[1] >= 3 and toks[enc[1] - 3:enc[1]] == ["ManuallyDrop", "::", "new"]):
                j = match_close(toks, i + 1)
                for x in toks[i + 2:j]:
                    if x in pnames:
                        consumed.append(x)
                        break
                else:
                    consumed.append("?")
        if t in ("into_inner", "take", "drop") and i >= 2 and toks[i - 2:i] == ["ManuallyDrop", "::"]:
            a = i
            while a > 0 and toks[a - 1] not in (";", "{"):
                a -= 1
            b = i
            while b < n and toks[b] != ";":
                b += 1
            hit = [x for x in toks[a:b] if x in pnames]
            # `let hi = hi.get().map(ManuallyDrop::into_inner);` mentions the name twice
            consumed.append(hit[-1] if hit else "?")
    facts["consumed"] = consumed
    facts["drops"] = sum(1 for i, t in enumerate(toks) if t == "drop" and i + 1 < n and toks[i + 1] == "(" and not (i >= 2 and toks[i - 2:i] == ["ManuallyDrop", "::"]))
    # `forget(..)` of a handle (a parameter, a clone); forgetting a plain `Vec` handed out as raw parts
    # (`pick_cube`) is not counted
    hnames = [p for p, ty in params if ty in HANDLE_TYS]
    fg = 0
    for i, t in enumerate(toks):
        if t == "forget" and i + 1 < n and toks[i + 1] == "(":
            j = match_close(toks, i + 1)
            inner_t = toks[i + 2:j]
            if "clone" in inner_t or "get" in inner_t or "from_raw" in inner_t or any(x in hnames for x in inner_t):
                fg += 1
    facts["forgets"] = fg
    facts["clones"] = sum(1 for i, t in enumerate(toks) if t == "clone" and i >= 1 and toks[i - 1] == "." and i + 1 < n and toks[i + 1] == "(")
    facts["intos"] = sum(1 for i, t in enumerate(toks) if t in ("into", "into_raw") and i >= 1 and toks[i - 1] == "." and i + 1 < n and toks[i + 1] == "(")
    facts["invalids"] = sum(1 for i, t in enumerate(toks) if t == "INVALID" and i >= 1 and toks[i - 1] == "::")
    facts["exclusive"] = "with_manager_exclusive" in toks
    # -- shared state
    st = []
    for i, t in enumerate(toks):
        if t == "static" or t in ("thread_local!", "lazy_static!") or t in ("OnceLock", "OnceCell", "LazyLock", "LazyCell", "Lazy"):
            st.append(t)
        elif t in static_names:
            st.append(t)
    facts["statics"] = st
    return facts


# ------------------------------------------------------------------------------------------------
# items

def find_fns(toks, extern_only):
    """[(name, noMangle, isExtern, params tokens, ret tokens, body tokens)] of the function items at any
    nesting level (impl / trait blocks included)"""
    out = []
    n = len(toks)
    i = 0
    while i < n:
        if toks[i] == "fn" and i + 2 < n and re.match(r"[A-Za-z_]\w*$", toks[i + 1]):
            # `extern "C" fn(..) -> ..` types have no name: excluded by the regex on toks[i+1] == '('
            is_extern = i >= 2 and toks[i - 2] == "extern" and toks[i - 1] == '"C"'
            name = toks[i + 1]
            j = i + 2
            if toks[j] == "<":  # generics
                depth = 0
                while j < n:
                    if toks[j] == "<":
                        depth += 1
                    elif toks[j] == ">":
                        depth -= 1
                        if depth == 0:
                            break
                    elif toks[j] == "->":  # `Fn(..) -> X` inside generics
                        pass
                    j += 1
                j += 1
            if j >= n or toks[j] != "(":
                i += 1
                continue
            pe = match_close(toks, j)
            if pe is None:
                UNPARSED.append(f"{name}: unbalanced parameter list")
                i += 1
                continue
            params = toks[j + 1:pe]
            k = pe + 1
            ret = []
            if k < n and toks[k] == "->":
                k += 1
                while k < n and toks[k] not in ("{", ";", "where"):
                    ret.append(toks[k])
                    k += 1
            if k < n and toks[k] == "where":
                while k < n and toks[k] not in ("{", ";"):
                    # `for<'id> …: Trait<..>` bounds contain no braces
                    k += 1
            if k >= n or toks[k] == ";":
                i = k + 1
                continue  # declaration without body (trait method)
            be = match_close(toks, k)
            if be is None:
                UNPARSED.append(f"{name}: unbalanced body")
                i += 1
                continue
            body = toks[k + 1:be]
            # attributes before the item
            a = i - 1
            while a >= 0 and toks[a] in ("pub", "unsafe", "extern", '"C"', "const", "async", "(", ")", "crate"):
                a -= 1
            no_mangle = False
            while a >= 0 and toks[a] == "]":
                depth, b = 0, a
                while b >= 0:
                    if toks[b] == "]":
                        depth += 1
                    elif toks[b] == "[":
                        depth -= 1
                        if depth == 0:
                            break
                    b -= 1
                if "no_mangle" in toks[b:a]:
                    no_mangle = True
                a = b - 2 if b >= 1 and toks[b - 1] == "#" else b - 1
            if is_extern or not extern_only:
                out.append((name, no_mangle, is_extern, params, ret, body, enclosing_header(toks, i)))
            i = k + 1  # nested fns inside the body are found as well
            continue
        i += 1
    return out


def enclosing_header(toks, i):
    """tokens of the header (`impl X for Y`, `trait T: …`) of the block directly containing token i"""
    depth = 0
    for j in range(i - 1, -1, -1):
        if toks[j] == "}":
            depth += 1
        elif toks[j] == "{":
            if depth == 0:
                k = j - 1
                while k >= 0 and toks[k] not in (";", "}", "{"):
                    k -= 1
                return toks[k + 1:j]
            depth -= 1
    return []


def self_is_handle(header):
    """`self` is a C handle in the blocks of the traits `CManagerRef` / `CFunction`"""
    return ("trait" in header or "impl" in header) and ("CManagerRef" in header or "CFunction" in header)


def parse_params(ptoks, kind, header=()):
    ps = []
    for part in split_top(ptoks):
        if not part:
            continue
        if part[-1] == "self" and ":" not in part:
            if self_is_handle(header):
                ps.append(("self", "func" if "CFunction" in header else "mgr"))
            else:
                ps.append(("self", ("plain", "self")))
            continue
        if ":" not in part:
            UNPARSED.append("parameter without type: " + " ".join(part))
            continue
        c = part.index(":")
        nm = [t for t in part[:c] if t != "mut"]
        if len(nm) != 1:
            UNPARSED.append("parameter pattern: " + " ".join(part[:c]))
            continue
        ps.append((nm[0], classify_ty(part[c + 1:], kind)))
    return ps


def collect_statics(rel, toks):
    out = []
    for i, t in enumerate(toks):
        if t == "static":
            j = i + 1
            if j < len(toks) and toks[j] == "mut":
                j += 1
            out.append((rel, "static mut" if toks[i + 1] == "mut" else "static", toks[j] if j < len(toks) else "?"))
        elif t in ("thread_local!", "lazy_static!"):
            out.append((rel, t, "?"))
        elif t in ("OnceLock", "OnceCell", "LazyLock", "LazyCell", "Lazy"):
            out.append((rel, t, "?"))
    return out


# ------------------------------------------------------------------------------------------------
# Lean output

def lstr(s):
    return '"' + s.replace("\\", "\\\\").replace('"', '\\"') + '"'


def lty(t):
    if isinstance(t, tuple):
        return f"(.plain {lstr(t[1])})"
    return "." + t


def llist(xs):
    return "[" + ", ".join(xs) + "]"


def luse(u):
    p, k, d = u
    if k in ("helper", "call", "iter", "other"):
        return f"({lstr(p)}, .{k} {lstr(d)})"
    return f"({lstr(p)}, .{k})"


def row(kind, name, no_mangle, params, ret, f):
    return ("  { kind := ." + kind + ", name := " + lstr(name)
            + ",\n      args := " + llist([f"({lstr(p)}, {lty(t)})" for p, t in params])
            + ", ret := " + lty(ret)
            + ",\n      helper := ." + {"none": "none", "op1": "op1", "op2": "op2", "op2_var": "op2Var", "op3": "op3", "op3_combined": "op3Combined"}[f["helper"]]
            + ", api := " + llist([lstr(a) for a in f["api"]])
            + ", order := " + llist([lstr(a) for a in f["order"]])
            + ", inner := " + llist([lstr(a) for a in f["inner"]])
            + ", consumed := " + llist([lstr(a) for a in f["consumed"]])
            + ",\n      uses := " + llist([luse(u) for u in f["uses"]])
            + f",\n      fromRawOwned := {f['fromRawOwned']}, fromRawBorrowed := {f['fromRawBorrowed']}, intoInner := {f['intoInner']}, drops := {f['drops']}, forgets := {f['forgets']}, clones := {f['clones']}, intos := {f['intos']}, invalids := {f['invalids']}"
            + f", exclusive := {'true' if f['exclusive'] else 'false'}"
            + ", statics := " + llist([lstr(a) for a in f["statics"]])
            + f", noMangle := {'true' if no_mangle else 'false'} }}")


def main():
    srcs = {}
    for _, rel in KIND_FILES:
        srcs[rel] = lex(read(rel))
    for rel in UTIL_FILES:
        srcs[rel] = lex(read(rel))
    # any other file of the crate is reported: the list of files is part of the obligation
    files = []
    for dp, _, fs in os.walk(os.path.join(REPO, CRATE)):
        for f in fs:
            files.append(os.path.relpath(os.path.join(dp, f), os.path.join(REPO, CRATE)))
    files.sort()
    for f in files:
        if f not in srcs:
            UNPARSED.append(f"source file {f} of the crate is not known to the extractor")
    statics = []
    for rel, toks in srcs.items():
        statics += collect_statics(rel, toks)
    static_names = {s[2] for s in statics if s[2] != "?"}

    kind_rows, util_extern_rows, util_rows, conv_rows = [], [], [], []
    for kind, rel in KIND_FILES:
        toks = srcs[rel]
        seen = 0
        for (name, nm, is_ext, ptoks, rtoks, body, header) in find_fns(toks, extern_only=False):
            if is_ext:
                seen += 1
                pre = f"oxidd_{kind}_"
                if not name.startswith(pre):
                    UNPARSED.append(f"{rel}: exported function {name} does not carry the prefix {pre}")
                    continue
                params = parse_params(ptoks, kind)
                ret = classify_ty(rtoks, kind)
                f = analyse_body(name, params, body, kind, static_names)
                kind_rows.append(row(kind, name[len(pre):], nm, params, ret, f))
            else:
                # conversions: `get`, `from`
                params = parse_params(ptoks, None, header) if name != "from" else [(p, ("plain", "".join(t))) for p, t in [(x[0], x[2:]) for x in split_top(ptoks) if x]]
                f = analyse_body(f"{rel}:{name}", params, body, None, static_names)
                conv_rows.append(row(kind, name, nm, [(p, ("plain", t[1]) if isinstance(t, tuple) else t) for p, t in params],
                                     ("plain", "".join(rtoks)), f))
        # every `extern "C"` occurrence followed by `fn <name>` must have been delimited
        cnt = sum(1 for i, t in enumerate(toks) if t == "extern" and toks[i + 1:i + 3] == ['"C"', "fn"] and i + 3 < len(toks) and toks[i + 3] != "(")
        if cnt != seen:
            UNPARSED.append(f"{rel}: {cnt} `extern \"C\" fn` items, {seen} delimited")
    for rel in UTIL_FILES:
        toks = srcs[rel]
        seen = 0
        for (name, nm, is_ext, ptoks, rtoks, body, header) in find_fns(toks, extern_only=False):
            params = parse_params(ptoks, None, header)
            ret = classify_ty(rtoks, None)
            f = analyse_body(f"{rel}:{name}", params, body, None, static_names)
            if is_ext:
                seen += 1
                util_extern_rows.append(row("util", name, nm, params, ret, f))
            elif any(t in HANDLE_TYS for _, t in params):
                util_rows.append(row("util", name, nm, params, ret, f))
        cnt = sum(1 for i, t in enumerate(toks) if t == "extern" and toks[i + 1:i + 3] == ['"C"', "fn"] and i + 3 < len(toks) and toks[i + 3] != "(")
        if cnt != seen:
            UNPARSED.append(f"{rel}: {cnt} `extern \"C\" fn` items, {seen} delimited")

    def block(name, doc, rows, ty="FfiW.Fn"):
        return f"/-- {doc} -/\ndef {name} : List {ty} :=\n  [" + (",\n".join(rows)).lstrip() + "]\n"

    by_kind = {k: [r for r in kind_rows if r.startswith("  { kind := ." + k + ",")] for k, _ in KIND_FILES}
    out = ["import OxiddModel.Generated.RulesFfi",
           "/-! GENERATED by tools/extract_ffi.py from /repo's current source — do not edit. -/",
           "namespace OxiddModel.Generated", ""]
    for k, rel in KIND_FILES:
        out.append(block(f"ffiFns_{k}", f"every `extern \"C\"` function of `crates/oxidd-ffi-c/src/{rel}`", by_kind[k]))
    out.append(block("ffiUtilExtern", "the `extern \"C\"` functions of `util/*.rs` (errors, strings, numbers, assignments, DDDMP files): none takes a handle", util_extern_rows))
    out.append(block("ffiUtilFns", "the generic functions of `util/*.rs` that receive handles (`op1 … op3_combined`, exports, `import_into`, provided methods of `CManagerRef`)", util_rows))
    out.append(block("ffiConvs", "the conversions of the three files: `CManagerRef::get`, `CFunction::get`, `From<XFunction>`, `From<AllocResult<XFunction>>`, `From<Option<XFunction>>`", conv_rows))
    out.append("/-- every `static`, `thread_local!`, `lazy_static!`, `OnceLock` … of the crate: (file, construct, name) -/\ndef ffiStatics : List (String × String × String) :=\n  "
               + llist([f"({lstr(a)}, {lstr(b)}, {lstr(c)})" for a, b, c in statics]) + "\n")
    out.append("/-- the source files of the crate -/\ndef ffiFiles : List String :=\n  " + llist([lstr(f) for f in files]) + "\n")
    out.append("/-- what the extractor could not classify -/\ndef ffiUnparsed : List String :=\n  " + llist([lstr(u) for u in UNPARSED]) + "\n")
    out.append("end OxiddModel.Generated")
    os.makedirs(GEN_DIR, exist_ok=True)
    new = "\n".join(out) + "\n"
    old = open(OUT, encoding="utf-8").read() if os.path.exists(OUT) else None
    if old != new:
        with open(OUT, "w", encoding="utf-8") as h:
            h.write(new)
    print(f"extract_ffi: {len(kind_rows)} exported wrappers ({', '.join(str(len(by_kind[k])) for k, _ in KIND_FILES)}), "
          f"{len(util_extern_rows)} util exports, {len(util_rows)} util helpers, {len(conv_rows)} conversions, "
          f"{len(statics)} statics, {len(UNPARSED)} unparsed -> {OUT}" + ("" if old != new else " (unchanged)"))
    for u in UNPARSED:
        print("  unparsed: " + u)


if __name__ == "__main__":
    main()
