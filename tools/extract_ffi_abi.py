#!/usr/bin/env python3
"""Second translator for the C wrapper layer (property C19): the C-visible SIGNATURES and LAYOUTS.

  crates/oxidd-ffi-c/src/{bdd,bcdd,zbdd}.rs, util/*.rs   (and crates/oxidd-core/src/lib.rs for the
  aliases `VarNo`, `LevelNo`)                            ->  lean/OxiddModel/Generated/SrcFfiAbi.lean
  harness/src/bin/{c19_capi,c19_capi_multi,c19_abi}.rs   (hand-written `extern "C"` declarations and
  `#[repr(C)]` mirrors)                                  ->  the same file

Extracted, as plain Lean data (vocabulary: the hand-written `Generated/RulesFfiAbi.lean`):

* `abiFns_<k>` / `abiUtilFns`: every `pub (unsafe) extern "C" fn` item: file, symbol, name without the
  family prefix, parameters (name, canonical type) in order, return type, `#[unsafe(no_mangle)]`;
* `abiStructs`: every `#[repr(C)]` struct/union: file, name, generic parameter, fields (name, type) in
  order; `abiEnums`: every `#[repr(<int>)]` enum: name, repr, variants with their discriminants;
* `abiOpaque`: the structs of the crate without `#[repr(..)]` (only ever behind a pointer);
* `abiFamilies`: per family the prefix and the handle types (`impl CFunction for X`,
  `impl CManagerRef for X`, the pair type, the substitution type), and the field initialisers of
  `const INVALID`;
* `abiAliases`: `VarNo`, `LevelNo` as declared in oxidd-core;
* `abiHeader`: whether a generated C header is checked in (cbindgen.toml only: the header is produced
  at build time, nothing to extract); `abiCbindgen`: the settings of cbindgen.toml that decide how the
  Rust items appear in that header (prefix, renaming of types / fields / arguments / variants);
* from each harness file: `hMirrors_<file>` (its `#[repr(C)]` structs), `hDecls_<file>` (one row per
  symbol it loads: symbol suffix, required/optional, parameter types, return type, resolved through the
  file's `type F1 = …` aliases), and from c19_abi.rs the table `mirrors! { "c name" => Mirror {fields} }`
  (`abiMirrorTable`) from which the name correspondence source type -> mirror (`abiMirrorOf`) is derived.

Types are canonicalised to the ABI (`Abi.Ty`): `&T`, `&mut T`, `Option<&T>`, `Box<T>`, `Option<Box<T>>`
are pointers, `MaybeUninit<T>` is `T`, `Option<extern "C" fn …>` a nullable function pointer, `c_void`
and every non-`repr(C)` struct are opaque (legal only behind a pointer), `#[repr(u8)]` enums are
`named` (their size comes from `abiEnums`), aliases are resolved.

The translator FAILS (exit 1 with a message) whenever a pattern it relies on is missing: an empty table,
a type it cannot canonicalise, an `extern "C" fn` it cannot delimit, a family without handle types, a
harness field without a symbol or a symbol without a field type.  Nothing is skipped silently.

Source root: `--src-root DIR`, else $OXIDD_SRC_ROOT, else $OXIDD_REPO, else /repo.
Crate directory override (for mutation experiments): `--crate-dir DIR` (default <root>/crates/oxidd-ffi-c).
Harness directory: `--harness-dir DIR`, else <this tree>/harness.
Output directory: `--out-dir DIR`, else $OXIDD_GEN_OUT, else <this tree>/lean/OxiddModel/Generated.
"""
import os
import re
import sys


def _arg(flag):
    return sys.argv[sys.argv.index(flag) + 1] if flag in sys.argv and sys.argv.index(flag) + 1 < len(sys.argv) else None


REPO = _arg("--src-root") or os.environ.get("OXIDD_SRC_ROOT") or os.environ.get("OXIDD_REPO", "/repo")
ROOT = os.path.dirname(os.path.dirname(os.path.abspath(__file__)))
GEN_DIR = _arg("--out-dir") or os.environ.get("OXIDD_GEN_OUT") or os.path.join(ROOT, "lean", "OxiddModel", "Generated")
CRATE_DIR = _arg("--crate-dir") or os.path.join(REPO, "crates", "oxidd-ffi-c")
HARNESS = _arg("--harness-dir") or os.path.join(ROOT, "harness")
OUT = os.path.join(GEN_DIR, "SrcFfiAbi.lean")
KIND_FILES = [("bdd", "bdd.rs"), ("bcdd", "bcdd.rs"), ("zbdd", "zbdd.rs")]
UTIL_FILES = ["util/mod.rs", "util/interop.rs", "util/dddmp.rs", "util/num.rs", "lib.rs"]
HARNESS_FILES = [("capi", "c19_capi.rs"), ("multi", "c19_capi_multi.rs"), ("abi", "c19_abi.rs")]
PRIMS = ["u8", "u16", "u32", "u64", "usize", "i8", "i16", "i32", "i64", "isize", "bool", "f32", "f64"]


def die(msg):
    print("extract_ffi_abi: ERROR: " + msg)
    sys.exit(1)


def read(path):
    if not os.path.exists(path):
        die(f"{path} not found")
    return open(path, encoding="utf-8").read()


# ------------------------------------------------------------------------------------------------
# lexer (comments dropped)

TOK = re.compile(r'''
    //[^\n]*
  | /\*.*?\*/
  | b?"(?:\\.|[^"\\])*"
  | b?'(?:\\.|[^'\\])'
  | '[A-Za-z_][A-Za-z0-9_]*
  | [A-Za-z_][A-Za-z0-9_]*
  | \d[\d_a-zA-Z.]*
  | ::|->|=>|&&|\|\||\.\.=?|[<>=!+\-*/%^&|]=
  | [{}()\[\];,.:<>=!+\-*/%^&|\#?@~$]
  | \s+
  | .
''', re.X | re.S)


def lex(src):
    out = []
    for m in TOK.finditer(src):
        t = m.group(0)
        if t.isspace() or t.startswith("//") or t.startswith("/*"):
            continue
        out.append(t)
    return out


OPEN = {"(": ")", "[": "]", "{": "}"}
CLOSE = {")", "]", "}"}


def match_close(toks, i, where):
    depth = 0
    for j in range(i, len(toks)):
        if toks[j] in OPEN:
            depth += 1
        elif toks[j] in CLOSE:
            depth -= 1
            if depth == 0:
                return j
    die(f"{where}: unbalanced bracket")


def split_top(toks, sep=","):
    """split at top-level separators; `<`/`>` of generics respected (`->` is one token)"""
    parts, cur, depth, angle = [], [], 0, 0
    for t in toks:
        if t in OPEN:
            depth += 1
        elif t in CLOSE:
            depth -= 1
        elif t == "<" and depth == 0:
            angle += 1
        elif t == ">" and depth == 0 and angle > 0:
            angle -= 1
        if t == sep and depth == 0 and angle == 0:
            parts.append(cur)
            cur = []
        else:
            cur.append(t)
    if cur:
        parts.append(cur)
    return parts


# ------------------------------------------------------------------------------------------------
# canonical types: python tuples mirroring `Abi.Ty`

class Env:
    """what an identifier in type position means"""

    def __init__(self, where, structs, enums, opaque, aliases, tparams=(), fnaliases=None):
        self.where, self.structs, self.enums, self.opaque = where, structs, enums, opaque
        self.aliases, self.tparams, self.fnaliases = aliases, tparams, fnaliases or {}


def strip_path(toks, where):
    """`std::ffi::c_void` -> `c_void`, `util::iter<..>` -> `iter<..>`, `crate::util::x` -> `x`"""
    out = []
    i = 0
    while i < len(toks):
        if i + 1 < len(toks) and toks[i + 1] == "::" and re.match(r"[A-Za-z_]", toks[i]):
            i += 2
            continue
        out.append(toks[i])
        i += 1
    return out


def parse_ty(toks, env):
    toks = strip_path(list(toks), env.where)
    if not toks:
        die(f"{env.where}: empty type")
    t0 = toks[0]
    if t0 == "*":
        if len(toks) < 3 or toks[1] not in ("const", "mut"):
            die(f"{env.where}: raw pointer type {' '.join(toks)}")
        return ("ptr", toks[1] == "mut", parse_pointee(toks[2:], env))
    if t0 == "&":
        rest = toks[1:]
        if rest and rest[0].startswith("'"):
            rest = rest[1:]
        mut = bool(rest) and rest[0] == "mut"
        if mut:
            rest = rest[1:]
        return ("ptr", mut, parse_pointee(rest, env))
    if t0 in ("unsafe", "extern"):
        return parse_fnptr(toks, env, False)
    if t0 == "(" and toks == ["(", ")"]:
        return ("unit",)
    if not re.match(r"[A-Za-z_]", t0):
        die(f"{env.where}: cannot canonicalise type `{' '.join(toks)}`")
    # generic application?
    if len(toks) > 1:
        if toks[1] != "<" or toks[-1] != ">":
            die(f"{env.where}: cannot canonicalise type `{' '.join(toks)}`")
        args = split_top(toks[2:-1])
        if len(args) != 1:
            die(f"{env.where}: generic type with {len(args)} arguments `{' '.join(toks)}`")
        a = args[0]
        if t0 == "MaybeUninit":
            return parse_ty(a, env)
        if t0 == "Option":
            a = strip_path(a, env.where)
            if a and a[0] in ("unsafe", "extern"):
                return parse_fnptr(a, env, True)
            if a and a[0] == "&":
                return parse_ty(a, env)
            if a and a[0] == "Box":
                return parse_ty(a, env)
            die(f"{env.where}: `Option<{' '.join(a)}>` has no C representation known to the translator")
        if t0 == "Box":
            return ("ptr", True, parse_pointee(a, env))
        if t0 in env.structs:
            if not env.structs[t0]["generic"]:
                die(f"{env.where}: `{t0}` is not generic")
            return ("app", t0, parse_ty(a, env))
        die(f"{env.where}: unknown generic type `{' '.join(toks)}`")
    if t0 in env.fnaliases:
        return env.fnaliases[t0]
    seen = set()
    while t0 in env.aliases:
        if t0 in seen:
            die(f"{env.where}: alias cycle at {t0}")
        seen.add(t0)
        t0 = env.aliases[t0]
    if t0 in PRIMS:
        return ("prim", t0)
    if t0 == "c_char":
        return ("prim", "char")
    if t0 in env.tparams:
        return ("param",)
    if t0 in env.structs:
        if env.structs[t0]["generic"]:
            die(f"{env.where}: generic `{t0}` used without argument")
        return ("named", t0)
    if t0 in env.enums:
        return ("named", t0)
    if t0 == "c_void" or t0 in env.opaque:
        die(f"{env.where}: opaque type `{t0}` passed by value")
    die(f"{env.where}: unknown type `{t0}`")


def parse_pointee(toks, env):
    toks = strip_path(list(toks), env.where)
    if len(toks) == 1 and toks[0] == "c_void":
        return ("opaque", "void")
    if len(toks) == 1 and toks[0] in env.opaque:
        return ("opaque", toks[0])
    return parse_ty(toks, env)


def parse_fnptr(toks, env, nullable):
    i = 0
    if toks[i] == "unsafe":
        i += 1
    if toks[i:i + 3] != ["extern", '"C"', "fn"] or toks[i + 3] != "(":
        die(f"{env.where}: function pointer type `{' '.join(toks)}`")
    j = match_close(toks, i + 3, env.where)
    args = [parse_param_ty(a, env) for a in split_top(toks[i + 4:j])]
    rest = toks[j + 1:]
    ret = ("unit",)
    if rest:
        if rest[0] != "->":
            die(f"{env.where}: function pointer type `{' '.join(toks)}`")
        ret = parse_ty(rest[1:], env)
    enc = ("anil",)
    for a in reversed(args):
        enc = ("acons", a, enc)
    return ("fnptr", nullable, enc, ret)


def parse_param_ty(toks, env):
    """a parameter of a function pointer type: `T` or `name: T`"""
    if len(toks) >= 2 and toks[1] == ":" and re.match(r"[A-Za-z_]", toks[0]):
        toks = toks[2:]
    return parse_ty(toks, env)


def lstr(s):
    return '"' + s.replace("\\", "\\\\").replace('"', '\\"') + '"'


def lbool(b):
    return "true" if b else "false"


def lty(t):
    k = t[0]
    if k == "prim":
        return f"(.prim .{t[1]})"
    if k == "unit":
        return ".unit"
    if k == "ptr":
        return f"(.ptr {lbool(t[1])} {lty(t[2])})"
    if k == "opaque":
        return f"(.opq {lstr(t[1])})"
    if k == "fnptr":
        return f"(.fnptr {lbool(t[1])} {lty(t[2])} {lty(t[3])})"
    if k == "anil":
        return ".anil"
    if k == "acons":
        return f"(.acons {lty(t[1])} {lty(t[2])})"
    if k == "named":
        return f"(.named {lstr(t[1])})"
    if k == "app":
        return f"(.app {lstr(t[1])} {lty(t[2])})"
    if k == "param":
        return ".param"
    die(f"internal: type {t}")


def llist(items, indent="   "):
    if not items:
        return "[]"
    return "[" + (",\n" + indent).join(items) + "]"


# ------------------------------------------------------------------------------------------------
# items of a Rust file

def attrs_before(toks, i):
    """the attributes directly in front of the item whose first token (`pub`/`struct`/…) is at i:
    list of token lists (inside `#[ … ]`)"""
    out = []
    j = i
    while j >= 2 and toks[j - 1] == "]":
        # find the matching `[`
        depth = 0
        k = j - 1
        while k >= 0:
            if toks[k] == "]":
                depth += 1
            elif toks[k] == "[":
                depth -= 1
                if depth == 0:
                    break
            k -= 1
        if k < 1 or toks[k - 1] != "#":
            break
        out.append(toks[k + 1:j - 1])
        j = k - 1
    return out


def find_types(rel, toks):
    """every `struct` / `union` / `enum` item of a file: dicts"""
    items = []
    i = 0
    while i < len(toks):
        t = toks[i]
        if t in ("struct", "union", "enum") and i + 1 < len(toks) and re.match(r"[A-Za-z_]", toks[i + 1]) \
                and (i == 0 or toks[i - 1] in ("pub", "]", ")", "}", ";")):
            start = i - 1 if i > 0 and toks[i - 1] == "pub" else i
            if start > 0 and toks[start - 1] == ")":  # pub(crate)
                k = start - 1
                while toks[k] != "(":
                    k -= 1
                start = k - 1
            name = toks[i + 1]
            where = f"{rel}: {t} {name}"
            attrs = attrs_before(toks, start)
            j = i + 2
            tparams = []
            if toks[j] == "<":
                depth = 0
                k = j
                while True:
                    if toks[k] == "<":
                        depth += 1
                    elif toks[k] == ">":
                        depth -= 1
                        if depth == 0:
                            break
                    k += 1
                for part in split_top(toks[j + 1:k]):
                    if part and not part[0].startswith("'"):
                        tparams.append(part[0])
                j = k + 1
            if toks[j] == "where":
                while toks[j] not in ("{", ";", "("):
                    j += 1
            repr_ = None
            derives = []
            for a in attrs:
                if a and a[0] == "repr":
                    repr_ = "".join(a[2:-1])
                if a and a[0] == "derive":
                    derives += [x for x in a[2:-1] if x != ","]
            body = None
            if toks[j] == "{":
                e = match_close(toks, j, where)
                body = toks[j + 1:e]
                i = e
            elif toks[j] == "(":
                e = match_close(toks, j, where)
                body = None  # tuple struct: not a C type
                i = e
            elif toks[j] == ";":
                body = []
                i = j
            else:
                die(f"{where}: cannot delimit the item")
            items.append({"file": rel, "kw": t, "name": name, "tparams": tparams, "generic": bool(tparams),
                          "repr": repr_, "derives": sorted(derives), "body": body, "tuple": body is None})
        i += 1
    return items


def parse_fields(item):
    """[(name, type tokens)] of a braced struct/union body (attributes and `pub` dropped)"""
    out = []
    for part in split_top(item["body"]):
        p = list(part)
        # drop attributes
        while p and p[0] == "#":
            e = match_close(p, 1, item["name"])
            p = p[e + 1:]
        if p and p[0] == "pub":
            p = p[1:]
            if p and p[0] == "(":
                e = match_close(p, 0, item["name"])
                p = p[e + 1:]
        if not p:
            continue
        if len(p) < 3 or p[1] != ":":
            die(f"{item['file']}: struct {item['name']}: cannot read field `{' '.join(p)}`")
        out.append((p[0], p[2:]))
    return out


def parse_variants(item):
    out = []
    nxt = 0
    for part in split_top(item["body"]):
        p = list(part)
        while p and p[0] == "#":
            e = match_close(p, 1, item["name"])
            p = p[e + 1:]
        if not p:
            continue
        name = p[0]
        if len(p) == 1:
            val = nxt
        elif p[1] == "=":
            txt = "".join(p[2:])
            try:
                val = int(txt.replace("_", ""), 0)
            except ValueError:
                die(f"{item['file']}: enum {item['name']}: discriminant `{txt}` of {name}")
        else:
            die(f"{item['file']}: enum {item['name']}: variant `{' '.join(p)}` carries data (no C representation)")
        out.append((name, val))
        nxt = val + 1
    return out


def find_extern_fns(rel, toks):
    """every `extern "C" fn <name>` item with a body: (name, is_pub, is_unsafe, no_mangle, param tokens,
    return tokens).  Every occurrence of `extern "C" fn <ident>` must be delimited."""
    out = []
    i = 0
    while i + 3 < len(toks):
        if toks[i] == "extern" and toks[i + 1] == '"C"' and toks[i + 2] == "fn" and re.match(r"[A-Za-z_]", toks[i + 3]):
            name = toks[i + 3]
            where = f"{rel}: fn {name}"
            start = i
            is_unsafe = False
            if start > 0 and toks[start - 1] == "unsafe":
                is_unsafe = True
                start -= 1
            is_pub = start > 0 and toks[start - 1] == "pub"
            if is_pub:
                start -= 1
            attrs = attrs_before(toks, start)
            no_mangle = any(a == ["no_mangle"] or a == ["unsafe", "(", "no_mangle", ")"] for a in attrs)
            j = i + 4
            if toks[j] == "<":
                die(f"{where}: generic extern \"C\" function")
            if toks[j] != "(":
                die(f"{where}: parameter list not found")
            e = match_close(toks, j, where)
            ptoks = toks[j + 1:e]
            k = e + 1
            rtoks = []
            if toks[k] == "->":
                k += 1
                while toks[k] not in ("{", ";", "where"):
                    rtoks.append(toks[k])
                    k += 1
            if toks[k] != "{":
                die(f"{where}: body not found")
            out.append((name, is_pub, is_unsafe, no_mangle, ptoks, rtoks))
            i = match_close(toks, k, where)
        i += 1
    return out


def parse_params(ptoks, env):
    out = []
    for part in split_top(ptoks):
        p = list(part)
        while p and p[0] == "#":
            e = match_close(p, 1, env.where)
            p = p[e + 1:]
        if p and p[0] == "mut":
            p = p[1:]
        if len(p) < 3 or p[1] != ":":
            die(f"{env.where}: cannot read parameter `{' '.join(p)}`")
        out.append((p[0], parse_ty(p[2:], env)))
    return out


# ------------------------------------------------------------------------------------------------
# source side

def source_tables():
    srcdir = os.path.join(CRATE_DIR, "src")
    files = {}
    for _, rel in KIND_FILES:
        files[rel] = lex(read(os.path.join(srcdir, rel)))
    for rel in UTIL_FILES:
        files[rel] = lex(read(os.path.join(srcdir, rel)))
    listed = sorted(os.path.relpath(os.path.join(d, f), srcdir) for d, _, fs in os.walk(srcdir) for f in fs if f.endswith(".rs"))
    if listed != sorted(files):
        die(f"the crate's source files are {listed}, the translator reads {sorted(files)}")

    # aliases VarNo / LevelNo from oxidd-core
    core = read(os.path.join(REPO, "crates", "oxidd-core", "src", "lib.rs"))
    aliases = {}
    for nm in ("VarNo", "LevelNo"):
        m = re.search(r"^pub type " + nm + r"\s*=\s*([A-Za-z0-9_]+)\s*;", core, re.M)
        if not m:
            die(f"`pub type {nm} = …;` not found in oxidd-core/src/lib.rs")
        aliases[nm] = m.group(1)

    # type items
    items = []
    for rel, toks in files.items():
        items += find_types(rel, toks)
    # the one enum of another crate that crosses the boundary by value
    ext = [it for it in find_types("oxidd-core/src/function.rs", lex(read(os.path.join(REPO, "crates", "oxidd-core", "src", "function.rs"))))
           if it["name"] == "BooleanOperator"]
    if len(ext) != 1 or ext[0]["kw"] != "enum" or ext[0]["repr"] is None:
        die("`#[repr(u8)] pub enum BooleanOperator` not found in oxidd-core/src/function.rs")
    items += ext
    structs, enums, opaque = {}, {}, {}
    for it in items:
        if it["kw"] in ("struct", "union") and it["repr"] == "C":
            if it["tuple"]:
                die(f"{it['file']}: #[repr(C)] tuple struct {it['name']}")
            if len(it["tparams"]) > 1:
                die(f"{it['file']}: {it['name']} has {len(it['tparams'])} type parameters")
            structs[it["name"]] = it
        elif it["kw"] == "enum" and it["repr"] in ("u8", "i8", "u16", "i16", "u32", "i32", "u64", "i64"):
            enums[it["name"]] = it
        elif it["repr"] is None:
            opaque[it["name"]] = it
        else:
            die(f"{it['file']}: {it['kw']} {it['name']} has #[repr({it['repr']})], unknown to the translator")
    if not structs:
        die("no #[repr(C)] struct found in the crate")
    if not enums:
        die("no #[repr(<int>)] enum found in the crate")

    def env(where, tparams=()):
        return Env(where, structs, enums, opaque, aliases, tparams)

    struct_rows = []
    for name, it in structs.items():
        flds = parse_fields(it)
        if not flds:
            die(f"{it['file']}: #[repr(C)] {it['kw']} {name} has no fields")
        it["fields"] = [(f, parse_ty(t, env(f"{it['file']}: {name}.{f}", tuple(it["tparams"])))) for f, t in flds]
        struct_rows.append(it)
    enum_rows = []
    for name, it in enums.items():
        it["variants"] = parse_variants(it)
        if not it["variants"]:
            die(f"{it['file']}: enum {name} has no variants")
        enum_rows.append(it)

    # functions
    fam_fns = {}
    for kind, rel in KIND_FILES:
        rows = []
        pref = f"oxidd_{kind}_"
        for (name, is_pub, is_unsafe, nm, ptoks, rtoks) in find_extern_fns(rel, files[rel]):
            where = f"{rel}: fn {name}"
            short = name[len(pref):] if name.startswith(pref) else name
            rows.append({"file": rel, "symbol": name, "name": short, "prefixed": name.startswith(pref),
                         "params": parse_params(ptoks, env(where)),
                         "ret": parse_ty(rtoks, env(where)) if rtoks else ("unit",),
                         "noMangle": nm, "unsafe": is_unsafe, "pub": is_pub})
        if not rows:
            die(f"{rel}: no `extern \"C\" fn` found")
        fam_fns[kind] = rows
    util_fns = []
    for rel in UTIL_FILES:
        for (name, is_pub, is_unsafe, nm, ptoks, rtoks) in find_extern_fns(rel, files[rel]):
            where = f"{rel}: fn {name}"
            short = name[len("oxidd_"):] if name.startswith("oxidd_") else name
            util_fns.append({"file": rel, "symbol": name, "name": short, "prefixed": name.startswith("oxidd_"),
                             "params": parse_params(ptoks, env(where)),
                             "ret": parse_ty(rtoks, env(where)) if rtoks else ("unit",),
                             "noMangle": nm, "unsafe": is_unsafe, "pub": is_pub})
    if not util_fns:
        die("util/*.rs: no `extern \"C\" fn` found")

    # families: handle types
    fams = []
    for kind, rel in KIND_FILES:
        toks = files[rel]

        def impl_for(trait):
            found = [toks[i + 3] for i in range(len(toks) - 3) if toks[i] == "impl" and toks[i + 1] == trait and toks[i + 2] == "for"]
            if len(found) != 1:
                die(f"{rel}: expected exactly one `impl {trait} for X`, found {found}")
            return found[0]
        func_ty, mgr_ty = impl_for("CFunction"), impl_for("CManagerRef")
        pair_ty = f"{kind}_pair_t"
        if pair_ty not in structs or structs[pair_ty]["file"] != rel:
            die(f"{rel}: pair type {pair_ty} not found")
        subst = [n for n, it in opaque.items() if it["file"] == rel and n.endswith("_substitution_t")]
        if len(subst) > 1:
            die(f"{rel}: several substitution types {subst}")
        # const INVALID: Self = Self { _p: …, _i: … };
        inv = None
        for i in range(len(toks) - 6):
            if toks[i] == "const" and toks[i + 1] == "INVALID" and toks[i + 2] == ":" and toks[i + 4] == "=":
                if toks[i + 5] not in ("Self", func_ty) or toks[i + 6] != "{":
                    die(f"{rel}: `const INVALID` is not a struct literal")
                e = match_close(toks, i + 6, f"{rel}: INVALID")
                inv = []
                for part in split_top(toks[i + 7:e]):
                    if len(part) < 3 or part[1] != ":":
                        die(f"{rel}: INVALID initialiser `{' '.join(part)}`")
                    txt = "".join(strip_path(part[2:], rel))
                    if txt in ("null()", "null_mut()"):
                        val = 0
                    else:
                        try:
                            val = int(txt.replace("_", ""), 0)
                        except ValueError:
                            die(f"{rel}: INVALID initialiser `{txt}` is neither null() nor an integer literal")
                    inv.append((part[0], val))
        if not inv:
            die(f"{rel}: `const INVALID: Self = Self {{ … }}` not found")
        fams.append({"kind": kind, "file": rel, "prefix": f"oxidd_{kind}_", "funcTy": func_ty, "mgrTy": mgr_ty,
                     "pairTy": pair_ty, "substTy": subst[0] if subst else "", "invalid": inv})

    header = sorted(os.path.relpath(os.path.join(d, f), REPO) for d, _, fs in os.walk(REPO)
                    for f in fs if f in ("oxidd.h", "capi.h") and "/target" not in d)
    cb_path = os.path.join(CRATE_DIR, "cbindgen.toml")
    if not os.path.exists(cb_path):
        die("cbindgen.toml not found in the crate (how is the header produced?)")
    try:
        import tomllib
        with open(cb_path, "rb") as fh:
            cb = tomllib.load(fh)
    except Exception as e:  # noqa: BLE001
        die(f"cbindgen.toml cannot be read: {e}")

    def cbget(path):
        cur = cb
        for k in path.split("."):
            if not isinstance(cur, dict) or k not in cur:
                die(f"cbindgen.toml: key `{path}` not found")
            cur = cur[k]
        if isinstance(cur, bool):
            return "true" if cur else "false"
        if isinstance(cur, list):
            return ",".join(str(x) for x in cur)
        return str(cur)
    # the settings that decide how the Rust items appear in the generated header
    cbind = [(k, cbget(k)) for k in ("language", "usize_is_size_t", "export.prefix", "export.renaming_overrides_prefixing",
                                     "export.mangle.rename_types", "fn.rename_args", "fn.sort_by", "struct.rename_fields",
                                     "enum.rename_variants", "enum.prefix_with_name", "parse.parse_deps", "parse.include")]
    if not isinstance(cb.get("export", {}).get("rename"), dict):
        die("cbindgen.toml: table [export.rename] not found")
    cbind += [("export.rename." + k, str(v)) for k, v in sorted(cb["export"]["rename"].items())]
    return {"files": sorted(files), "aliases": aliases, "structs": struct_rows, "enums": enum_rows,
            "opaque": sorted(opaque), "fam_fns": fam_fns, "util_fns": util_fns, "fams": fams, "header": header, "cbind": cbind}


# ------------------------------------------------------------------------------------------------
# harness side

def harness_tables(tag, fname):
    path = os.path.join(HARNESS, "src", "bin", fname)
    toks = lex(read(path))
    items = [it for it in find_types(fname, toks) if it["repr"] == "C"]
    structs = {it["name"]: it for it in items}
    if not structs:
        die(f"{fname}: no #[repr(C)] mirror struct found")
    env0 = Env(fname, structs, {}, {}, {})
    for name, it in structs.items():
        if it["tuple"] or len(it["tparams"]) > 1:
            die(f"{fname}: mirror {name}: unsupported shape")
        it["fields"] = [(f, parse_ty(t, Env(f"{fname}: {name}.{f}", structs, {}, {}, {}, tuple(it["tparams"]))))
                        for f, t in parse_fields(it)]
        if not it["fields"]:
            die(f"{fname}: mirror {name} has no fields")
    # type aliases of function pointer types
    fnaliases = {}
    i = 0
    while i + 3 < len(toks):
        if toks[i] == "type" and toks[i + 2] == "=" and toks[i + 3] in ("unsafe", "extern"):
            j = i + 3
            while toks[j] != ";":
                j += 1
            fnaliases[toks[i + 1]] = parse_fnptr(toks[i + 3:j], Env(f"{fname}: type {toks[i + 1]}", structs, {}, {}, {}), False)
            i = j
        i += 1
    env = Env(fname, structs, {}, {}, {}, (), fnaliases)

    def struct_fields(sname):
        """[(field, kind, type)] of a plain Rust struct of function pointers; kind: req / opt / arr"""
        for i in range(len(toks) - 2):
            if toks[i] == "struct" and toks[i + 1] == sname and toks[i + 2] == "{":
                e = match_close(toks, i + 2, f"{fname}: struct {sname}")
                out = []
                for part in split_top(toks[i + 3:e]):
                    p = list(part)
                    while p and p[0] == "#":
                        ee = match_close(p, 1, sname)
                        p = p[ee + 1:]
                    if not p:
                        continue
                    if len(p) < 3 or p[1] != ":":
                        die(f"{fname}: struct {sname}: field `{' '.join(p)}`")
                    out.append((p[0], p[2:]))
                return out
        return None

    def fn_body(fn):
        for i in range(len(toks) - 2):
            if toks[i] == "fn" and toks[i + 1] == fn and toks[i + 2] == "(":
                e = match_close(toks, i + 2, f"{fname}: fn {fn}")
                k = e + 1
                while toks[k] != "{":
                    k += 1
                return toks[k + 1:match_close(toks, k, f"{fname}: fn {fn}")]
        return None

    decls = []

    def collect(sname, fn, lit):
        flds = struct_fields(sname)
        body = fn_body(fn)
        if flds is None and body is None:
            return False
        if flds is None or body is None:
            die(f"{fname}: struct {sname} and fn {fn} must both exist")
        # the struct literal `Api { field: req!("sym"), … }` / `Common { … }`
        pos = [i for i in range(len(body) - 1) if body[i] == lit and body[i + 1] == "{"]
        if len(pos) != 1:
            die(f"{fname}: fn {fn}: expected exactly one struct literal `{lit} {{ … }}`")
        e = match_close(body, pos[0] + 1, f"{fname}: fn {fn}")
        inits = {}
        for part in split_top(body[pos[0] + 2:e]):
            if len(part) == 1:
                inits[part[0]] = None  # shorthand (`kind`)
                continue
            if len(part) < 3 or part[1] != ":":
                die(f"{fname}: fn {fn}: initialiser `{' '.join(part)}`")
            inits[part[0]] = part[2:]
        for f, tt in flds:
            if f not in inits:
                die(f"{fname}: {sname}.{f} is not initialised in {fn}")
            init = inits[f]
            is_fn = any(t in ("extern",) for t in tt) or any(t in fnaliases for t in tt)
            if not is_fn:
                continue  # `kind: &'static str`, `_lib`
            where = f"{fname}: {sname}.{f}"

            def sym_of(mtoks):
                # req ! ( "name" )  /  opt ! ( "name" )
                if len(mtoks) != 5 or mtoks[0] not in ("req", "opt") or mtoks[1] != "!" or mtoks[2] != "(" or not mtoks[3].startswith('"'):
                    die(f"{where}: initialiser `{' '.join(mtoks)}` is not req!(\"…\") / opt!(\"…\")")
                return mtoks[0], mtoks[3][1:-1]
            if tt[0] == "[":
                # [(&'static str, F2); 8]  with  [("and", req!("and")), …]
                inner = tt[1:-1]
                semi = split_top(inner, ";")
                tup = semi[0]
                if tup[0] != "(":
                    die(f"{where}: array field type")
                elems = split_top(tup[1:-1])
                fty = parse_ty(elems[-1], Env(where, structs, {}, {}, {}, (), fnaliases))
                if init[0] != "[":
                    die(f"{where}: array initialiser")
                n = 0
                for el in split_top(init[1:-1]):
                    parts = split_top(el[1:-1])
                    m, sym = sym_of(parts[-1])
                    decls.append((f"{f}[{n}]", sym, m == "opt", fty))
                    n += 1
                if str(n) != "".join(semi[1]):
                    die(f"{where}: array length {''.join(semi[1])} but {n} initialisers")
                continue
            optional = False
            t2 = tt
            if tt[0] == "Option" and tt[1] == "<" and (tt[2] in ("unsafe", "extern") or tt[2] in fnaliases):
                optional = True
                t2 = tt[2:-1]
            fty = parse_ty(t2, Env(where, structs, {}, {}, {}, (), fnaliases))
            if fty[0] != "fnptr":
                die(f"{where}: not a function pointer type")
            m, sym = sym_of(init)
            if (m == "opt") != optional:
                die(f"{where}: `{m}!` does not fit the field type")
            decls.append((f, sym, optional, fty))
        return True

    has_api = collect("Api", "load_api", "Api")
    n_api = len(decls)
    has_common = collect("Common", "load", "Common")
    return {"tag": tag, "file": fname, "mirrors": list(structs.values()), "decls": decls, "n_api": n_api,
            "has_api": has_api, "has_common": has_common, "toks": toks, "structs": structs}


def mirror_table(h):
    """`mirrors! { "c type" => Mirror { f1, f2 }, … }` of c19_abi.rs"""
    toks = h["toks"]
    pos = [i for i in range(len(toks) - 2) if toks[i] == "mirrors" and toks[i + 1] == "!" and toks[i + 2] == "{"]
    # the first occurrence is `macro_rules! mirrors {`, the invocation is `mirrors! {`
    if len(pos) != 1:
        die(f"{h['file']}: expected exactly one invocation `mirrors! {{ … }}`, found {len(pos)}")
    e = match_close(toks, pos[0] + 2, "mirrors!")
    rows = []
    for part in split_top(toks[pos[0] + 3:e]):
        if len(part) < 5 or not part[0].startswith('"') or part[1] != "=>":
            die(f"{h['file']}: mirrors! entry `{' '.join(part)}`")
        cname = part[0][1:-1]
        b = part.index("{")
        mty = parse_ty(part[2:b], Env(f"{h['file']}: mirrors! {cname}", h["structs"], {}, {}, {}))
        fields = [x for x in part[b + 1:-1] if x != ","]
        rows.append((cname, mty, fields))
    if not rows:
        die(f"{h['file']}: mirrors! table is empty")
    return rows


def unify(cty, mty, out, where):
    """derive the name correspondence source type -> mirror from one table entry"""
    if cty[0] == "named" and mty[0] == "named":
        if out.setdefault(cty[1], mty[1]) != mty[1]:
            die(f"{where}: {cty[1]} is mirrored by {out[cty[1]]} and by {mty[1]}")
    elif cty[0] == "app" and mty[0] == "app":
        if out.setdefault(cty[1], mty[1]) != mty[1]:
            die(f"{where}: {cty[1]} is mirrored by {out[cty[1]]} and by {mty[1]}")
        unify(cty[2], mty[2], out, where)
    elif cty[0] == "app" and mty[0] == "named":
        # a monomorphic mirror of one instance (`named<bdd_t>` ~ CNamed): the argument is baked in
        if out.setdefault(cty[1], mty[1]) != mty[1]:
            die(f"{where}: {cty[1]} is mirrored by {out[cty[1]]} and by {mty[1]}")
    elif cty[0] == "prim" and mty == cty:
        pass
    elif cty[0] == "named" and mty[0] == "prim":
        pass  # an enum mirrored by its integer type: checked through the layout
    else:
        die(f"{where}: shapes of the C type and the mirror type differ")


# ------------------------------------------------------------------------------------------------

TRAILER = """/-! fixed trailer: accessors of the tables above -/

def famOf (k : String) : Family :=
  (abiFamilies.find? (·.kind = k)).getD ⟨"", "", "", "", "", "", "", []⟩

def famBdd : Family := famOf "bdd"
def famBcdd : Family := famOf "bcdd"
def famZbdd : Family := famOf "zbdd"

/-- the functions of the three families, each with its family -/
def abiFamFns : List (Family × List Abi.Fn) :=
  [(famBdd, abiFns_bdd), (famBcdd, abiFns_bcdd), (famZbdd, abiFns_zbdd)]

def abiAllFns : List Abi.Fn := abiFns_bdd ++ abiFns_bcdd ++ abiFns_zbdd ++ abiUtilFns
"""


def main():
    S = source_tables()
    H = [harness_tables(tag, f) for tag, f in HARNESS_FILES]
    for h in H[:2]:
        if not (h["has_api"] and h["has_common"]) or not h["decls"]:
            die(f"{h['file']}: the tables `struct Api` / `fn load_api` / `struct Common` / `fn load` were not found")
    habi = H[2]
    mrows = mirror_table(habi)
    # parse the C names of the mirror table with the SOURCE environment
    senv_structs = {it["name"]: it for it in S["structs"]}
    senv_enums = {it["name"]: it for it in S["enums"]}
    mirror_of = {}
    mtab = []
    for cname, mty, fields in mrows:
        cty = parse_ty(lex(cname), Env(f"mirrors! {cname}", senv_structs, senv_enums, {}, S["aliases"]))
        unify(cty, mty, mirror_of, f"mirrors! {cname}")
        mtab.append((cname, cty, mty, fields))

    def fn_row(r):
        ps = ", ".join(f"({lstr(p)}, {lty(t)})" for p, t in r["params"])
        return (f"{{ file := {lstr(r['file'])}, symbol := {lstr(r['symbol'])}, name := {lstr(r['name'])}, prefixed := {lbool(r['prefixed'])},\n"
                f"      params := [{ps}],\n      ret := {lty(r['ret'])}, noMangle := {lbool(r['noMangle'])}, isUnsafe := {lbool(r['unsafe'])}, isPub := {lbool(r['pub'])} }}")

    def struct_row(it):
        fs = ", ".join(f"({lstr(f)}, {lty(t)})" for f, t in it["fields"])
        return (f"{{ file := {lstr(it['file'])}, name := {lstr(it['name'])}, isUnion := {lbool(it['kw'] == 'union')}, generic := {lbool(it['generic'])},\n"
                f"      fields := [{fs}], derives := [{', '.join(lstr(d) for d in it['derives'])}] }}")

    out = ["import OxiddModel.Generated.RulesFfiAbi",
           "/-! GENERATED by tools/extract_ffi_abi.py from /repo's current source and the harness — do not edit. -/",
           "namespace OxiddModel.Generated", "open Abi", ""]

    def block(name, doc, ty, rows):
        return f"/-- {doc} -/\ndef {name} : List {ty} :=\n  " + llist(rows) + "\n"
    for k, rel in KIND_FILES:
        out.append(block(f"abiFns_{k}", f"every `pub (unsafe) extern \"C\" fn` of `crates/oxidd-ffi-c/src/{rel}`", "Abi.Fn",
                         [fn_row(r) for r in S["fam_fns"][k]]))
    out.append(block("abiUtilFns", "every `extern \"C\" fn` item of `util/*.rs` (the `oxidd_natural_*` ones are exported through `#[no_mangle]` without `pub`)", "Abi.Fn", [fn_row(r) for r in S["util_fns"]]))
    out.append(block("abiStructs", "every `#[repr(C)]` struct / union of the crate", "Abi.Struct", [struct_row(it) for it in S["structs"]]))
    out.append(block("abiEnums", "every `#[repr(<int>)]` enum of the crate", "Abi.Enum",
                     [f"{{ file := {lstr(it['file'])}, name := {lstr(it['name'])}, repr := .{it['repr']}, "
                      f"variants := [{', '.join(f'({lstr(n)}, ({v} : Int))' for n, v in it['variants'])}] }}" for it in S["enums"]]))
    out.append(block("abiOpaque", "the structs of the crate without `#[repr(..)]`: legal only behind a pointer", "String", [lstr(o) for o in S["opaque"]]))
    out.append(block("abiFamilies", "the three families: prefix, handle types, the field initialisers of `const INVALID`", "Abi.Family",
                     [f"{{ kind := {lstr(f['kind'])}, file := {lstr(f['file'])}, pfx := {lstr(f['prefix'])}, funcTy := {lstr(f['funcTy'])}, "
                      f"mgrTy := {lstr(f['mgrTy'])}, pairTy := {lstr(f['pairTy'])}, substTy := {lstr(f['substTy'])},\n"
                      f"      invalid := [{', '.join(f'({lstr(n)}, {v})' for n, v in f['invalid'])}] }}" for f in S["fams"]]))
    out.append(block("abiAliases", "`pub type VarNo / LevelNo` of oxidd-core (resolved in the tables above)", "(String × String)",
                     [f"({lstr(a)}, {lstr(b)})" for a, b in sorted(S["aliases"].items())]))
    out.append(block("abiFiles", "the source files of the crate", "String", [lstr(f) for f in S["files"]]))
    out.append(block("abiHeader", "checked-in generated C headers (`oxidd.h` / `capi.h`) found under the source root; the crate has a "
                     "`cbindgen.toml`, the header is produced at build time", "String", [lstr(f) for f in S["header"]]))
    out.append(block("abiCbindgen", "the settings of `cbindgen.toml` that decide how the items appear in the generated header "
                     "(names, prefix, field / argument / variant renaming, which crates are parsed)", "(String × String)",
                     [f"({lstr(a)}, {lstr(b)})" for a, b in S["cbind"]]))
    for h in H:
        out.append(block(f"hMirrors_{h['tag']}", f"the `#[repr(C)]` mirror structs of `harness/src/bin/{h['file']}`", "Abi.Struct",
                         [struct_row(it) for it in h["mirrors"]]))
        if h["decls"]:
            out.append(block(f"hDecls_{h['tag']}", f"the `extern \"C\"` declarations of `harness/src/bin/{h['file']}`: Api/Common field, "
                             "symbol (suffix for the per-family table, full name for the common one), optional, type", "Abi.HDecl",
                             [f"{{ field := {lstr(f)}, symbol := {lstr(sym)}, perFamily := {lbool(n < h['n_api'])}, optional := {lbool(o)},\n"
                              f"      ty := {lty(t)} }}" for n, (f, sym, o, t) in enumerate(h["decls"])]))
    out.append(block("abiMirrorTable", "the table `mirrors! { \"c type\" => Mirror { fields } }` of c19_abi.rs: C type as written, parsed "
                     "against the source tables, the mirror type, the mirror's fields as listed for `offset_of!`", "Abi.MirrorRow",
                     [f"{{ cname := {lstr(c)}, cty := {lty(ct)}, mirror := {lty(mt)}, fields := {llist([lstr(x) for x in fl])} }}"
                      for c, ct, mt, fl in mtab]))
    out.append(block("abiMirrorOf", "name correspondence source type -> harness mirror derived from `abiMirrorTable`", "(String × String)",
                     [f"({lstr(a)}, {lstr(b)})" for a, b in sorted(mirror_of.items())]))
    out.append(TRAILER)
    out.append("end OxiddModel.Generated")
    os.makedirs(GEN_DIR, exist_ok=True)
    new = "\n".join(out) + "\n"
    old = open(OUT, encoding="utf-8").read() if os.path.exists(OUT) else None
    if old != new:
        with open(OUT, "w", encoding="utf-8") as fh:
            fh.write(new)
    print(f"extract_ffi_abi: {', '.join(str(len(S['fam_fns'][k])) for k, _ in KIND_FILES)} family functions, {len(S['util_fns'])} util functions, "
          f"{len(S['structs'])} repr(C) structs, {len(S['enums'])} enums, {len(S['opaque'])} opaque; harness: "
          + ", ".join(f"{h['file']} {len(h['mirrors'])} mirrors/{len(h['decls'])} decls" for h in H)
          + f"; {len(mtab)} mirror rows -> {OUT}" + ("" if old != new else " (unchanged)"))


if __name__ == "__main__":
    main()
