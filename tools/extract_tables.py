#!/usr/bin/env python3
"""Translator: regenerate the tables under lean/OxiddModel/Generated/ from /repo's current source.

Purpose-built extraction (regular expressions + bracket matching; no general Rust front end) of the
places where a hand-written model can drift silently because they are *tables*.

Part 1 -> `SrcFacts.lean` (unchanged, byte-identical to what it always produced):

  * the operator enums (variant lists, in order),
  * for each `terminal_bin` (BDD, MTBDD, TDD): per `OP == <Enum>::<X>` block the operator tags that
    appear in its `Binary(<Enum>::<Y>, ..)` results (the apply-cache tag each operator is memoised
    under); for BDD and TDD the complete decision lists,
  * the BCDD dispatch tables `apply_quant_dispatch` / `apply_quant_unique_dispatch`
    (operator -> quantifier swapped?, inner kernel, negate f, negate g, negate result),
  * constants of the hash table (RATIO_N, RATIO_D, MIN_CAP), the GC water marks, memory orderings.
  A construct of part 1 that cannot be parsed is an error (exit 1).

Part 2 -> one file per kind/concern (data of the types in the hand-written `Rules*.lean`):

  * `SrcMtbdd.lean`       MTBDD `terminal_bin`: the decision list of every operator block,
  * `SrcI64.lean`         `terminal/i64.rs`: the match arms of `add/sub/mul/div/partial_cmp`, `signum`,
                          the `NumberBase` constants,
  * `SrcBcddKernels.lean` `terminal_and`/`terminal_xor` as decision lists, the `apply_bin` dispatch,
                          the derivation of the eight `<op>_edge` functions (both impls), the tag algebra,
  * `SrcZbddApply.lean`   `apply_union/intsec/diff/symm_diff`: terminal cases, operand sorting, cache
                          tags, the three arms of the level comparison,
  * `SrcReduce.lean`      `DiagramRules::reduce` and the free `reduce…` functions of all five kinds.
  Part 2 never exits with an error and never skips: a construct that is not recognised is listed in
  an `…Unparsed` definition of the generated file, which the obligation module proves empty.

Part 3 (same rules as part 2) -> one file per concern:

  * `SrcAtomicity.lean`   every atomic operation on a reference counter (field `rc`) of the node and
                          terminal-manager modules of both managers and of `arcslab`, initial values,
                          what `DynamicTerminalManager::get_edge` does with the counter,
  * `SrcIte.lean`         `apply_ite` of the simple BDDs and of the BCDDs: the shortcut chain before the
                          cache lookup, cache tag/key, level, cofactors, recursion, node,
  * `SrcEpoch.lean`       where `Manager::gc` / `reorder` of both managers advance `gc_count`, and the
                          condition/actions of `SatCountCache::clear_if_invalid`,
  * `SrcKeys.lean`        every apply-cache access of `simple/apply_rec.rs` (operator, edge operands,
                          numeric operands, value), `quant`'s operator table, `BDDOp::from_apply_quant`,
  * `SrcF64.lean`         every construction of an `F64` in `terminal/f64.rs` and the normalisation.

The hand-written `Generated/Ob*.lean` prove (mostly by `decide`) that these facts satisfy what the
models assume; the check rebuilds them after every regeneration.

Source root: `--src-root DIR`, else $OXIDD_SRC_ROOT, else $OXIDD_REPO, else /repo.
Output directory: `--out-dir DIR`, else $OXIDD_GEN_OUT, else <this tree>/lean/OxiddModel/Generated.
"""
import os
import re
import sys

# source root: `--src-root DIR`, else $OXIDD_SRC_ROOT, else $OXIDD_REPO (used by check.py's callers), else /repo
# output directory: `--out-dir DIR`, else $OXIDD_GEN_OUT, else <this tree>/lean/OxiddModel/Generated
def _arg(flag):
    return sys.argv[sys.argv.index(flag) + 1] if flag in sys.argv and sys.argv.index(flag) + 1 < len(sys.argv) else None


REPO = _arg("--src-root") or os.environ.get("OXIDD_SRC_ROOT") or os.environ.get("OXIDD_REPO", "/repo")
ROOT = os.path.dirname(os.path.dirname(os.path.abspath(__file__)))
GEN_DIR = _arg("--out-dir") or os.environ.get("OXIDD_GEN_OUT") or os.path.join(ROOT, "lean", "OxiddModel", "Generated")
OUT = os.path.join(GEN_DIR, "SrcFacts.lean")


def read(rel):
    return open(os.path.join(REPO, rel), encoding="utf-8").read()


def die(msg):
    print("extract_tables: " + msg)
    sys.exit(1)


def strip_comments(src):
    src = re.sub(r"//[^\n]*", "", src)
    return re.sub(r"/\*.*?\*/", "", src, flags=re.S)


def block_after(src, start):
    """text of the {...} block whose opening brace is the first '{' at or after `start`"""
    i = src.index("{", start)
    depth = 0
    for j in range(i, len(src)):
        if src[j] == "{":
            depth += 1
        elif src[j] == "}":
            depth -= 1
            if depth == 0:
                return src[i + 1:j], j + 1
    die("unbalanced braces")


def enum_variants(src, name):
    m = re.search(r"pub enum " + name + r"\b", src)
    if not m:
        die(f"enum {name} not found")
    body, _ = block_after(src, m.end())
    body = strip_comments(body)
    body = re.sub(r"#\[[^\]]*\]", "", body)
    vs = [v.strip() for v in body.split(",")]
    vs = [re.match(r"[A-Za-z0-9_]+", v).group(0) for v in vs if v and re.match(r"[A-Za-z0-9_]+", v)]
    if not vs:
        die(f"enum {name}: no variants")
    return vs


def memo_tags(src, enum, fn="terminal_bin"):
    """[(operator, [tags in Binary(..) results])] for the `if OP == Enum::X as u8 { .. }` chain"""
    src = strip_comments(src)
    m = re.search(r"fn " + fn + r"\b", src)
    if not m:
        die(f"{fn} not found for {enum}")
    body, _ = block_after(src, m.end())
    out = []
    pos = 0
    while True:
        mm = re.search(r"OP == " + enum + r"::([A-Za-z0-9_]+) as u8\s*", body[pos:])
        if not mm:
            break
        op = mm.group(1)
        blk, end = block_after(body, pos + mm.end())
        tags = re.findall(r"Binary\(\s*" + enum + r"::([A-Za-z0-9_]+)", blk)
        out.append((op, tags))
        pos = end
    if not out:
        die(f"{fn}: no operator blocks for {enum}")
    return out


def dispatch_rows(src, fn, kernels):
    """rows of a BCDD dispatch `match op { X => ... }`"""
    src = strip_comments(src)
    m = re.search(r"fn " + fn + r"\b", src)
    if not m:
        die(f"{fn} not found")
    # skip the signature: the body is the block after the `where` clause
    w = src.index("where", m.end())
    body, _ = block_after(src, w)
    mm = re.search(r"match op\s*", body)
    if not mm:
        die(f"{fn}: no `match op`")
    arms, _ = block_after(body, mm.end())
    rows = []
    # split the arms at top level on `Name =>`
    idx = [(a.start(), a.group(1)) for a in re.finditer(r"(?m)^\s*([A-Z][A-Za-z]+) =>", arms)]
    for k, (st, name) in enumerate(idx):
        en = idx[k + 1][0] if k + 1 < len(idx) else len(arms)
        arm = arms[st:en]
        call = re.search(r"apply_quant::<M, R, (\w+), (\w+)>\(manager, rec, ([^;]*?), vars\)", arm, flags=re.S)
        if not call:
            die(f"{fn}: cannot parse arm {name}")
        q, kern, args = call.group(1), call.group(2), call.group(3)
        parts = [a.strip() for a in args.split(",")]
        if len(parts) != 2:
            # `not(&f), not(&g)` contains no extra commas; anything else is unexpected
            die(f"{fn}: arm {name}: operands `{args}`")
        negf = parts[0].startswith("not(")
        negg = parts[1].startswith("not(")
        negres = "not_owned(tmp)" in arm
        if kern not in kernels:
            die(f"{fn}: arm {name}: unknown kernel {kern}")
        rows.append((name, q, kernels[kern], negf, negg, negres))
    if len(rows) != 8:
        die(f"{fn}: expected 8 arms, found {len(rows)}")
    return rows


def split_arms(body):
    """split the body of a `match` into (pattern, result) pairs at top level"""
    arms = []
    i, n = 0, len(body)
    while i < n:
        # pattern up to `=>` at depth 0
        depth = 0
        j = i
        while j < n:
            c = body[j]
            if c in "([{":
                depth += 1
            elif c in ")]}":
                depth -= 1
            elif c == "=" and depth == 0 and body[j:j + 2] == "=>":
                break
            j += 1
        if j >= n:
            break
        pat = " ".join(body[i:j].split())
        k = j + 2
        while k < n and body[k].isspace():
            k += 1
        if k < n and body[k] == "{":
            blk, end = block_after(body, k)
            res = " ".join(blk.split())
            k = end
            while k < n and (body[k].isspace() or body[k] == ","):
                k += 1
        else:
            depth = 0
            e = k
            while e < n:
                c = body[e]
                if c in "([{":
                    depth += 1
                elif c in ")]}":
                    depth -= 1
                elif c == "," and depth == 0:
                    break
                e += 1
            res = " ".join(body[k:e].split())
            k = e + 1
        if pat:
            arms.append((pat, res))
        i = k
    return arms


def classify_result(res, enum):
    res = res.strip().rstrip(";").strip()
    res = re.sub(r"^return\s+", "", res)
    m = re.fullmatch(r"Done\(m\.clone_edge\((f|g)\)\)", res)
    if m:
        return ("clone", m.group(1), "", "")
    m = re.fullmatch(r"Done\(m\.get_terminal\((\w+)\)\.unwrap\(\)\)", res)
    if m:
        return ("const", m.group(1), "", "")
    m = re.fullmatch(r"Not\((f|g)\.borrowed\(\)\)", res)
    if m:
        return ("not", m.group(1), "", "")
    m = re.fullmatch(r"Binary\(" + enum + r"::(\w+), (f|g)\.borrowed\(\), (f|g)\.borrowed\(\)\)", res)
    if m:
        return ("bin", m.group(1), m.group(2), m.group(3))
    return None


def classify_pattern(pat):
    table = [
        (r"\(Terminal\(t\), _\) \| \(_, Terminal\(t\)\) if \*t\.borrow\(\) == (\w+)", "either"),
        (r"\(Terminal\(t\), _\) if \*t\.borrow\(\) == (\w+)", "f"),
        (r"\(_, Terminal\(t\)\) if \*t\.borrow\(\) == (\w+)", "g"),
        (r"\(Terminal\(_\), _\)", "fterm"),
        (r"\(_, Terminal\(_\)\)", "gterm"),
        (r"\(Inner\(_\), Inner\(_\)\) if f > g", "inner_gt"),
        (r"\(Inner\(_\), Inner\(_\)\)", "inner"),
        (r"_ if f > g", "any_gt"),
        (r"_", "any"),
    ]
    for rx, name in table:
        m = re.fullmatch(rx, pat)
        if m:
            return (name, m.group(1) if m.groups() else "")
    return None


def terminal_rules(src, enum, fn="terminal_bin"):
    """the decision list of every operator block of `terminal_bin`:
    [(operator, [(pattern, constant, result kind, x, a, b)])]; operators whose block uses a
    construct outside the recognised shapes are returned in the second list (not an error: the
    correspondence streams still cover them)"""
    src = strip_comments(src)
    m = re.search(r"fn " + fn + r"\b", src)
    if not m:
        die(f"{fn} not found for {enum}")
    body, _ = block_after(src, m.end())
    out, unparsed = [], []
    pos = 0
    while True:
        mm = re.search(r"OP == " + enum + r"::([A-Za-z0-9_]+) as u8\s*", body[pos:])
        if not mm:
            break
        op = mm.group(1)
        blk, end = block_after(body, pos + mm.end())
        pos = end
        rules = []
        ok = True
        rest = blk
        me = re.match(r"\s*if f == g \{(.*?)\}", rest, flags=re.S)
        if me:
            r = classify_result(" ".join(me.group(1).split()), enum)
            if r is None:
                ok = False
            else:
                rules.append(("eq", "") + r)
            rest = rest[me.end():]
        mt = re.match(r"\s*match \(m\.get_node\(f\), m\.get_node\(g\)\)\s*", rest)
        if not mt:
            ok = False
        else:
            arms_body, e2 = block_after(rest, mt.end() - 1)
            if rest[e2:].strip():
                ok = False
            for pat, res in split_arms(arms_body):
                pc, rc = classify_pattern(pat), classify_result(res, enum)
                if pc is None or rc is None:
                    ok = False
                    break
                rules.append(pc + rc)
        if ok and rules:
            out.append((op, rules))
        else:
            unparsed.append(op)
    return out, unparsed


def const_usize(src, name):
    m = re.search(r"const " + name + r"\s*:\s*\w+\s*=\s*(\d+)\s*;", src)
    if not m:
        die(f"const {name} not found")
    return int(m.group(1))


def fn_bodies(src, name):
    """bodies of all `fn <name>` definitions (comments stripped)"""
    src = strip_comments(src)
    out = []
    for m in re.finditer(r"fn " + name + r"\b[^;{]*", src):
        # skip declarations without body (trait methods ending in `;`)
        j = m.end()
        if j < len(src) and src[j] == "{":
            body, _ = block_after(src, m.start())
            out.append(body)
    return out


def enclosing_fn(src, pos):
    ms = list(re.finditer(r"fn ([A-Za-z0-9_]+)", src[:pos]))
    return ms[-1].group(1) if ms else "?"


ORD = r"(?:Ordering::)?(Relaxed|Release|Acquire|AcqRel|SeqCst)"


def orderings(tag, src):
    """memory orderings of the reference-count protocol and of the hand-written locks in one file"""
    src = strip_comments(src)
    # drop debug assertions (they do not license anything)
    src = re.sub(r"debug_assert(?:_eq|_ne)?!\s*\((?:[^()]|\([^()]*\))*\)\s*;", "", src)
    rel = [(tag, enclosing_fn(src, m.start()), m.group(1)) for m in re.finditer(r"\brc\s*\.\s*fetch_sub\(\s*1\s*,\s*" + ORD + r"\s*\)", src)]
    lic = [(tag, enclosing_fn(src, m.start()), m.group(1)) for m in re.finditer(r"load_rc\(\s*" + ORD + r"\s*\)\s*(?:!=|==)\s*1", src)]
    lic += [(tag, enclosing_fn(src, m.start()), m.group(1)) for m in re.finditer(r"\brc\s*\.\s*load\(\s*" + ORD + r"\s*\)\s*(?:!=|==)\s*1", src)]
    # `let rc = node.load_rc(X); ... if rc != 1`
    lic += [(tag, enclosing_fn(src, m.start()), m.group(1)) for m in re.finditer(r"let rc = [a-z_.]*load_rc\(\s*" + ORD + r"\s*\)\s*;", src)]
    fen = [(tag, enclosing_fn(src, m.start()), m.group(1)) for m in re.finditer(r"fence\(\s*" + ORD + r"\s*\)", src)]
    lk = [(tag, enclosing_fn(src, m.start()), m.group(1)) for m in re.finditer(r"\.swap\(\s*true\s*,\s*" + ORD + r"\s*\)", src)]
    ul = [(tag, enclosing_fn(src, m.start()), m.group(1)) for m in re.finditer(r"\.store\(\s*false\s*,\s*" + ORD + r"\s*\)", src)]
    return rel, lic, fen, lk, ul


# ---------------------------------------------------------------------------------------------
# Part 2: decision lists / tables emitted into their own files (one per kind/concern), so that a
# change to one table cannot break an unrelated obligation.  Nothing here calls `die()`: a construct
# that is not recognised is *reported* in an `…Unparsed` list of the generated file, and the
# obligation module proves that list empty — the check then names it instead of skipping it.
# ---------------------------------------------------------------------------------------------

GEN_HEADER = "/-! GENERATED by tools/extract_tables.py from /repo's current source — do not edit. -/"


def compact(s):
    return re.sub(r"\s+", "", s)


def desc(where, text):
    """description string of an unparsed construct (safe inside a Lean string literal)"""
    t = " ".join(text.split())
    t = t.replace("\\", "/").replace('"', "'")
    return (where + ": " + t)[:110]


def lean_strs(xs):
    return lean_list(['"' + x + '"' for x in xs])


def split_top(s, sep):
    """split `s` at top-level occurrences of the string `sep` (not inside brackets)"""
    out, depth, i, last = [], 0, 0, 0
    while i < len(s):
        c = s[i]
        if c in "([{":
            depth += 1
        elif c in ")]}":
            depth -= 1
        elif depth == 0 and s.startswith(sep, i):
            # `|` must not split `||`; `=>`/`==` never used as separators here
            if sep == "|" and (s.startswith("||", i) or (i > 0 and s[i - 1] == "|")):
                i += 1
                continue
            out.append(s[last:i])
            i += len(sep)
            last = i
            continue
        i += 1
    out.append(s[last:])
    return out


def strip_outer(s, open_="(", close=")"):
    """remove redundant outer brackets: `((x))` -> `x`"""
    s = s.strip()
    while s.startswith(open_) and s.endswith(close):
        depth = 0
        ok = True
        for i, c in enumerate(s):
            if c == open_:
                depth += 1
            elif c == close:
                depth -= 1
                if depth == 0 and i != len(s) - 1:
                    ok = False
                    break
        if not ok:
            break
        s = s[1:-1].strip()
    return s


def strip_result(res):
    """`{ return Ok(x); }` / `return x;` / `x` -> `x` (what the arm evaluates to)"""
    r = res.strip()
    r = strip_outer(r, "{", "}")
    r = r.rstrip(";").strip()
    r = re.sub(r"^return\b\s*", "", r)
    m = re.fullmatch(r"Ok\((.*)\)", r, flags=re.S)
    if m and strip_outer("(" + m.group(1) + ")") == m.group(1).strip():
        r = m.group(1).strip()
    return r


def op_blocks(src, enum, fn):
    """[(operator, text of its block)] of the chain `if OP == Enum::X as u8 { .. } else if ..` in `fn`"""
    src = strip_comments(src)
    m = re.search(r"fn " + fn + r"\b", src)
    if not m:
        return None
    body, _ = block_after(src, m.end())
    out, pos = [], 0
    while True:
        mm = re.search(r"OP\s*==\s*" + enum + r"::([A-Za-z0-9_]+)\s+as\s+u8\s*", body[pos:])
        if not mm:
            break
        blk, end = block_after(body, pos + mm.end())
        out.append((mm.group(1), blk))
        pos = end
    return out


# ---- MTBDD `terminal_bin` -------------------------------------------------------------------

MT_OPS = {"Add": "add", "Sub": "sub", "Mul": "mul", "Div": "div", "Min": "min", "Max": "max"}


def mt_pattern(pat):
    """-> (Lean term of type Mt.Pat, binder names of a `tt` pattern) or None"""
    parts = re.split(r"\bif\b", pat, maxsplit=1)
    alts = [compact(a) for a in split_top(parts[0], "|")]
    guard = compact(parts[1]) if len(parts) > 1 else ""
    kinds, binders = [], []
    for a in alts:
        m = re.fullmatch(r"\((?:Node::)?Terminal\((\w+)\),(?:Node::)?Terminal\((\w+)\)\)", a)
        if m:
            kinds.append("tt")
            binders += [m.group(1), m.group(2)]
            continue
        m = re.fullmatch(r"\((?:Node::)?Terminal\((\w+)\),_\)", a)
        if m:
            kinds.append("f")
            binders.append(m.group(1))
            continue
        m = re.fullmatch(r"\(_,(?:Node::)?Terminal\((\w+)\)\)", a)
        if m:
            kinds.append("g")
            binders.append(m.group(1))
            continue
        if a in ("_", "(_,_)"):
            kinds.append("any")
            continue
        return None
    ks = sorted(set(kinds))
    if ks == ["tt"] and len(kinds) == 1 and not guard:
        return (".tt", binders)
    if ks == ["any"] and len(kinds) == 1:
        if not guard:
            return (".any", [])
        if guard in ("f>g", "g<f"):
            return (".anyGt", [])
        return None
    if ks in (["f"], ["g"], ["f", "g"]) and len(kinds) == len(ks) and len(set(binders)) == 1:
        b = binders[0]
        m = re.fullmatch(r"\(?\*?" + b + r"(?:\.borrow\(\))?\)?\.is_(zero|one|nan)\(\)", guard)
        if not m:  # `*t.borrow() == T::zero()` is what `is_zero()` is defined as
            m = re.fullmatch(r"\*" + b + r"(?:\.borrow\(\))?==T::(zero|one|nan)\(\)", guard) or \
                re.fullmatch(r"T::(zero|one|nan)\(\)==\*" + b + r"(?:\.borrow\(\))?", guard)
        if not m:
            return None
        c = {"f": ".fIs", "g": ".gIs", "fg": ".eitherIs"}["".join(ks)]
        return (f"({c} .{m.group(1)})", [])
    return None


def mt_select(arms_body):
    """arms of `match tf.partial_cmp(tg) { .. }` -> (lt, eq, gt, un) as Lean `Mt.Sel` terms, or None"""
    tab = {}
    for pat, res in split_arms(arms_body):
        r = compact(strip_result(res))
        m = re.fullmatch(r"m\.clone_edge\(&?(f|g)\)", r)
        if m:
            v = "." + m.group(1)
        elif re.fullmatch(r"m\.get_terminal\(T::nan\(\)\)\?", r):
            v = ".nan"
        else:
            return None
        for alt in split_top(pat, "|"):
            a = compact(alt)
            if a == "None":
                keys = ["None"]
            elif a == "_":
                keys = [k for k in ("Less", "Equal", "Greater", "None") if k not in tab]
            else:
                m = re.fullmatch(r"Some\((.*)\)", a)
                if not m:
                    return None
                keys = [re.sub(r"^(?:std::cmp::|cmp::)?Ordering::", "", k) for k in m.group(1).split("|")]
            for k in keys:
                if k not in ("Less", "Equal", "Greater", "None") or k in tab:
                    return None
                tab[k] = v
    if len(tab) != 4:
        return None
    return tuple(tab[k] for k in ("Less", "Equal", "Greater", "None"))


def mt_result(res, binders):
    """-> Lean term of type Mt.Res, or None.  `binders`: the names bound by the arm's `tt` pattern"""
    raw = strip_result(res)
    # Done(match tf.partial_cmp(tg) { .. })
    m = re.match(r"Done\(\s*match\s+(\w+)(?:\.borrow\(\))?\s*\.partial_cmp\(\s*&?(\w+)(?:\.borrow\(\))?\s*\)\s*", raw)
    if m and len(binders) == 2 and [m.group(1), m.group(2)] == binders:
        arms, end = block_after(raw, m.end() - 1)
        if compact(raw[end:]) != ")":
            return None
        t = mt_select(arms)
        return None if t is None else "(.select " + " ".join(t) + ")"
    r = compact(raw)
    m = re.fullmatch(r"Done\(m\.clone_edge\(&?(f|g)\)\)", r)
    if m:
        return f"(.clone .{m.group(1)})"
    if re.fullmatch(r"Done\(m\.get_terminal\(T::nan\(\)\)\?\)", r):
        return ".nan"
    m = re.fullmatch(r"Binary\(MTBDDOp::(\w+),(f|g)\.borrowed\(\),(f|g)\.borrowed\(\)\)", r)
    if m and m.group(1) in MT_OPS:
        return f"(.bin .{MT_OPS[m.group(1)]} .{m.group(2)} .{m.group(3)})"
    # let val = tf.borrow().add(tg.borrow()); Done(m.get_terminal(val)?)      (or inlined)
    call = r"(\w+)(?:\.borrow\(\))?\.(add|sub|mul|div)\(&?(\w+)(?:\.borrow\(\))?\)"
    m = re.fullmatch(r"let(\w+)=" + call + r";Done\(m\.get_terminal\((\w+)\)\?\)", r)
    if m and m.group(1) == m.group(5):
        a, meth, b = m.group(2), m.group(3), m.group(4)
    else:
        m = re.fullmatch(r"Done\(m\.get_terminal\(" + call + r"\)\?\)", r)
        if not m:
            return None
        a, meth, b = m.group(1), m.group(2), m.group(3)
    if len(binders) == 2 and [a, b] == binders:
        return f"(.compute .{meth})"
    return None


def mt_terminal_rules(src):
    """MTBDD `terminal_bin` -> ([(operator, [Lean MRule terms])], [descriptions of unparsed constructs])"""
    out, unparsed = [], []
    blocks = op_blocks(src, "MTBDDOp", "terminal_bin")
    if not blocks:
        return [], ["fn terminal_bin (MTBDD): not found or no operator blocks"]
    for op, blk in blocks:
        where = "terminal_bin/" + op
        if op not in MT_OPS:
            unparsed.append(desc(where, "operator unknown to the model"))
            continue
        rules, rest = [], blk
        me = re.match(r"\s*if\s+f\s*==\s*g\s*", rest)
        if me:
            body, end = block_after(rest, me.end())
            r = mt_result(body, [])
            if r is None:
                unparsed.append(desc(where + " if f == g", body))
            else:
                rules.append(f"⟨.eq, {r}⟩")
            rest = rest[end:]
        mt = re.match(r"\s*match\s*\(\s*m\.get_node\(&?f\)\s*,\s*m\.get_node\(&?g\)\s*,?\s*\)\s*", rest)
        if not mt:
            unparsed.append(desc(where, rest))
            continue
        arms_body, e2 = block_after(rest, mt.end() - 1)
        if rest[e2:].strip():
            unparsed.append(desc(where + " after match", rest[e2:]))
        for pat, res in split_arms(arms_body):
            pc = mt_pattern(pat)
            if pc is None:
                unparsed.append(desc(where + " pattern", pat))
                continue
            rc = mt_result(res, pc[1])
            if rc is None:
                unparsed.append(desc(where + " arm " + pat, res))
                continue
            rules.append(f"⟨{pc[0]}, {rc}⟩")
        out.append((op, rules))
    return out, unparsed


def gen_mtbdd(read_):
    try:
        rules, unparsed = mt_terminal_rules(read_("crates/oxidd-rules-mtbdd/src/lib.rs"))
    except Exception as e:  # never crash, never skip: report
        rules, unparsed = [], [desc("extractor exception", repr(e))]
    L = ["import OxiddModel.Generated.RulesMtbdd", GEN_HEADER, "namespace OxiddModel.Generated\n"]
    items = [f"(.{MT_OPS[op]}, {lean_list(rs)})" for op, rs in rules]
    L.append("/-- `terminal_bin` (mtbdd, `crates/oxidd-rules-mtbdd/src/lib.rs`): operator ↦ decision list, in source order -/")
    L.append("def termRules_mtbdd : List (Mt.MOp × List Mt.MRule) :=\n  [" + ",\n   ".join(items) + "]")
    L.append("/-- constructs of `terminal_bin` (mtbdd) that the extractor does not recognise -/")
    L.append(f"def termRulesUnparsed_mtbdd : List String := {lean_strs(unparsed)}")
    L.append("\nend OxiddModel.Generated")
    return {"SrcMtbdd.lean": "\n".join(L) + "\n"}


# ---- `I64` terminal arithmetic (`terminal/i64.rs`) --------------------------------------------

I6_CLS = {"NaN": ".nan", "MinusInf": ".ninf", "PlusInf": ".pinf"}


class Unparsed(Exception):
    pass


def lean_int(k):
    return str(k) if k >= 0 else f"({k})"


def i6_int(tok):
    t = compact(tok).replace("_", "")
    t = re.sub(r"(?:i64|i32|isize)$", "", t)
    if t in ("i64::MIN", "std::i64::MIN"):
        return -(2 ** 63)
    if t in ("i64::MAX", "std::i64::MAX"):
        return 2 ** 63 - 1
    if re.fullmatch(r"-?\d+", t):
        return int(t)
    raise Unparsed("constant " + tok)


def i6_operand_pat(p, side, binders):
    """one operand pattern -> list of Lean CPat terms (alternatives); records `Num(x)` binders"""
    out = []
    for a in split_top(p, "|"):
        a = re.sub(r"^(?:I64|Self)::", "", compact(a))
        a = re.sub(r"^&", "", a)
        if a == "_":
            out.append(".any")
        elif a in I6_CLS:
            out.append(f"(.is {I6_CLS[a]})")
        else:
            m = re.fullmatch(r"Num\((\w+)\)", a)
            if not m:
                raise Unparsed("operand pattern " + p)
            if m.group(1) != "_":
                if binders.get(m.group(1), side) != side:
                    raise Unparsed("binder used on both sides " + p)
                binders[m.group(1)] = side
            out.append("(.is .num)")
    return out


def i6_pattern(pat):
    """`(P, Q) | (P', Q') [if guard]` -> ([Lean pair terms], guard text or None, binders name->lhs|rhs)"""
    parts = re.split(r"\bif\b", pat, maxsplit=1)
    binders, pairs = {}, []
    for alt in split_top(parts[0], "|"):
        a = alt.strip()
        if a == "_":
            pairs.append("(.any, .any)")
            continue
        if not (a.startswith("(") and a.endswith(")")):
            raise Unparsed("pattern " + pat)
        comps = split_top(a[1:-1], ",")
        comps = [c for c in comps if c.strip()]
        if len(comps) != 2:
            raise Unparsed("pattern " + pat)
        for l in i6_operand_pat(comps[0], "lhs", binders):
            for r in i6_operand_pat(comps[1], "rhs", binders):
                pairs.append(f"({l}, {r})")
    return pairs, (parts[1].strip() if len(parts) > 1 else None), binders


I6_REL = {"<": "lt", "<=": "le", ">": "gt", ">=": "ge", "==": "eq", "!=": "ne"}
I6_FLIP = {"lt": "gt", "le": "ge", "gt": "lt", "ge": "le", "eq": "eq", "ne": "ne"}


def i6_cond(txt, binders):
    """Rust Boolean expression over the payloads -> Lean term of type I6.Cond"""
    t = strip_outer(txt)
    ors = split_top(t, "||")
    if len(ors) > 1:
        r = i6_cond(ors[0], binders)
        for o in ors[1:]:
            r = f"(.or {r} {i6_cond(o, binders)})"
        return r
    ands = split_top(t, "&&")
    if len(ands) > 1:
        r = i6_cond(ands[0], binders)
        for o in ands[1:]:
            r = f"(.and {r} {i6_cond(o, binders)})"
        return r
    t = t.strip()
    if t.startswith("!"):
        return f"(.not {i6_cond(t[1:], binders)})"
    m = re.fullmatch(r"(.+?)\s*(<=|>=|==|!=|<|>)\s*(.+)", t, flags=re.S)
    if not m:
        raise Unparsed("condition " + txt)
    a, rel, b = compact(m.group(1)).lstrip("*"), I6_REL[m.group(2)], compact(m.group(3)).lstrip("*")
    if a in binders:
        return f"(.cmp .{binders[a]} .{rel} {lean_int(i6_int(b))})"
    if b in binders:
        return f"(.cmp .{binders[b]} .{I6_FLIP[rel]} {lean_int(i6_int(a))})"
    raise Unparsed("condition " + txt)


def i6_match_head(t, rx):
    """`match <rx> { arms }` covering all of `t` -> (regex match, arms) or None"""
    m = re.match(r"match\s+" + rx + r"\s*(?=\{)", t, flags=re.S)
    if not m:
        return None
    arms, end = block_after(t, m.end())
    if t[end:].strip():
        return None
    return m, split_arms(arms)


def i6_expr(txt, binders):
    """result expression of an arm -> Lean term of type I6.Expr"""
    t = strip_result(txt)
    t = strip_outer(t, "{", "}").strip()
    c = re.sub(r"^(?:I64|Self)::", "", compact(t))
    if c in I6_CLS:
        return I6_CLS[c]
    m = re.fullmatch(r"Num\((.*)\)", c)
    if m:
        d = re.fullmatch(r"(\w+)/(\w+)", m.group(1))
        if d:
            if binders.get(d.group(1)) == "lhs" and binders.get(d.group(2)) == "rhs":
                return ".tdiv"
            raise Unparsed("division operands " + t)
        return f"(.numLit {lean_int(i6_int(m.group(1)))})"
    # if c { a } else { b }   /   else if
    m = re.match(r"if\b", t)
    if m:
        i = t.index("{")  # conditions contain no braces
        cond = t[m.end():i]
        then, end = block_after(t, i)
        rest = t[end:].strip()
        if not rest.startswith("else"):
            raise Unparsed("if without else " + t)
        rest = rest[4:].strip()
        return f"(.ite {i6_cond(cond, binders)} {i6_expr(then, binders)} {i6_expr(rest, binders)})"
    # match lhs.checked_add(rhs) { Some(n) => Num(n), None => e }
    h = i6_match_head(t, r"(\w+)\s*\.\s*checked_(add|sub|mul)\(\s*(\w+)\s*\)")
    if h:
        m, arms = h
        if binders.get(m.group(1)) != "lhs" or binders.get(m.group(3)) != "rhs":
            raise Unparsed("checked operands " + t)
        some, none = None, None
        for p, r in arms:
            pc = compact(p)
            ms = re.fullmatch(r"Some\((\w+)\)", pc)
            if ms and re.fullmatch(r"(?:I64::|Self::)?Num\(" + ms.group(1) + r"\)", compact(strip_result(r))):
                some = True
            elif pc in ("None", "_"):
                none = i6_expr(r, binders)
            else:
                raise Unparsed("checked arm " + p + " => " + r)
        if not some or none is None:
            raise Unparsed("checked arms " + t)
        return f"(.checked .{m.group(2)} {none})"
    # match lhs.cmp(&0) { Less => .., Equal => .., Greater => .. }
    h = i6_match_head(t, r"(\w+)\s*\.\s*cmp\(\s*&?\s*([^)]+?)\s*\)")
    if h:
        m, arms = h
        if m.group(1) not in binders:
            raise Unparsed("cmp operand " + t)
        tab = {}
        for p, r in arms:
            for alt in split_top(p, "|"):
                k = re.sub(r"^(?:std::cmp::|cmp::)?Ordering::", "", compact(alt))
                if k not in ("Less", "Equal", "Greater") or k in tab:
                    raise Unparsed("cmp arm " + p)
                tab[k] = i6_expr(r, binders)
        if len(tab) != 3:
            raise Unparsed("cmp arms " + t)
        return f"(.cmp3 .{binders[m.group(1)]} {lean_int(i6_int(m.group(2)))} {tab['Less']} {tab['Equal']} {tab['Greater']})"
    # match self.signum().unwrap() * rhs.signum().unwrap() { 1 => .., -1 => .., _ => .. }
    h = i6_match_head(t, r"self\.signum\(\)\.unwrap\(\)\s*\*\s*rhs\.signum\(\)\.unwrap\(\)")
    if h:
        _, arms = h
        tab = {}
        for p, r in arms:
            k = compact(p)
            if k not in ("1", "-1", "_") or k in tab:
                raise Unparsed("signum arm " + p)
            tab[k] = i6_expr(r, binders)
        if len(tab) != 3:
            raise Unparsed("signum arms " + t)
        return f"(.signProd {tab['1']} {tab['-1']} {tab['_']})"
    raise Unparsed("expression " + t)


def i6_impl_fn(src, trait, fn):
    """body of `fn <fn>` inside `impl <trait> for I64 { .. }`"""
    m = re.search(r"impl\s+" + trait + r"\s+for\s+I64\b", src)
    if not m:
        raise Unparsed(f"impl {trait} for I64 not found")
    blk, _ = block_after(src, m.end())
    bodies = fn_bodies(blk, fn)
    if len(bodies) != 1:
        raise Unparsed(f"fn {fn} in impl {trait} for I64 not found")
    return bodies[0]


def i6_match_arms(body, scrut):
    """arms of the `match (self, rhs) { .. }` that makes up `body` (after optional `use ..;`)"""
    b = re.sub(r"^\s*(?:use\s+[^;]*;\s*)*", "", body)
    m = re.match(r"match\s*\(\s*self\s*,\s*" + scrut + r"\s*\)\s*(?=\{)", b)
    if not m:
        raise Unparsed("not a single `match (self, " + scrut + ")`: " + b)
    arms, end = block_after(b, m.end())
    if b[end:].strip():
        raise Unparsed("code after the match: " + b[end:])
    return split_arms(arms)


def gen_i64(read_):
    unparsed = []
    tables = {}
    try:
        src = strip_comments(read_("crates/oxidd-rules-mtbdd/src/terminal/i64.rs"))
    except Exception as e:
        src, unparsed = "", [desc("i64.rs", repr(e))]
    for trait, fn in (("Add", "add"), ("Sub", "sub"), ("Mul", "mul"), ("Div", "div")):
        rows = []
        try:
            for pat, res in i6_match_arms(i6_impl_fn(src, trait, fn), "rhs"):
                try:
                    pairs, guard, binders = i6_pattern(pat)
                    g = "none" if guard is None else f"(some {i6_cond(guard, binders)})"
                    rows.append(f"⟨{lean_list(pairs)}, {g}, {i6_expr(res, binders)}⟩")
                except Unparsed as e:
                    unparsed.append(desc(f"I64::{fn} arm `{pat}`", str(e)))
        except Exception as e:
            unparsed.append(desc(f"I64::{fn}", str(e) if isinstance(e, Unparsed) else repr(e)))
        tables[fn] = rows
    crows = []
    try:
        for pat, res in i6_match_arms(i6_impl_fn(src, "PartialOrd", "partial_cmp"), "other"):
            try:
                pairs, guard, binders = i6_pattern(pat)
                r = compact(strip_result(res))
                r = re.sub(r"(?:std::cmp::|cmp::)?Ordering::", "", r)
                m = re.fullmatch(r"Some\((\w+)\.cmp\(&?(\w+)\)\)", r)
                if guard is not None:
                    raise Unparsed("guard " + guard)
                if m and binders.get(m.group(1)) == "lhs" and binders.get(m.group(2)) == "rhs":
                    v = ".numCmp"
                elif r in ("Some(Less)", "Some(Equal)", "Some(Greater)"):
                    v = "." + r[5:-1].lower()
                elif r == "None":
                    v = ".unordered"
                else:
                    raise Unparsed("result " + res)
                crows.append(f"⟨{lean_list(pairs)}, {v}⟩")
            except Unparsed as e:
                unparsed.append(desc(f"I64::partial_cmp arm `{pat}`", str(e)))
    except Exception as e:
        unparsed.append(desc("I64::partial_cmp", str(e) if isinstance(e, Unparsed) else repr(e)))
    # signum
    sig = {}
    try:
        bodies = [b for b in fn_bodies(src, "signum") if "match self" in b]
        if len(bodies) != 1:
            raise Unparsed("fn signum not found")
        b = bodies[0].strip()
        m = re.fullmatch(r"Some\(\s*match\s+self\s*(\{.*\})\s*\)", b, flags=re.S)
        if not m:
            raise Unparsed("signum body " + b)
        arms, _ = block_after(m.group(1), 0)
        for pat, res in split_arms(arms):
            k = re.sub(r"^(?:I64|Self)::", "", compact(pat))
            r = compact(strip_result(res))
            if k in I6_CLS:
                k = I6_CLS[k]
            elif re.fullmatch(r"Num\(\w+\)", k):
                k = ".num"
            else:
                raise Unparsed("signum pattern " + pat)
            if r == "None" and re.match(r"\s*return\b", res):
                v = ".none"
            elif re.fullmatch(r"-?\d+", r):
                v = f"(.lit {lean_int(int(r))})"
            elif re.fullmatch(r"\w+\.signum\(\)(?:asi\d+)?", r):
                v = ".ofNum"
            else:
                raise Unparsed("signum result " + res)
            if k in sig:
                raise Unparsed("signum duplicate arm " + pat)
            sig[k] = v
    except Exception as e:
        unparsed.append(desc("I64::signum", str(e) if isinstance(e, Unparsed) else repr(e)))
    # NumberBase: constants and which operator a method forwards to
    consts, meths = [], []
    try:
        m = re.search(r"impl\s+NumberBase\s+for\s+I64\b", src)
        if not m:
            raise Unparsed("impl NumberBase for I64 not found")
        blk, _ = block_after(src, m.end())
        for name in ("zero", "one", "nan"):
            bs = fn_bodies(blk, name)
            if len(bs) != 1:
                raise Unparsed(f"NumberBase::{name} not found")
            consts.append(f'("{name}", {i6_expr(bs[0], {})})')
        for name in ("add", "sub", "mul", "div"):
            bs = fn_bodies(blk, name)
            mm = re.fullmatch(r"\*?self([-+*/])\*?rhs", compact(strip_result(bs[0]))) if len(bs) == 1 else None
            if not mm:
                raise Unparsed(f"NumberBase::{name}: " + (bs[0] if bs else "not found"))
            meths.append(f'("{name}", "{mm.group(1)}")')
    except Exception as e:
        unparsed.append(desc("NumberBase for I64", str(e) if isinstance(e, Unparsed) else repr(e)))

    L = ["import OxiddModel.Generated.RulesI64", GEN_HEADER, "namespace OxiddModel.Generated\n"]
    for fn in ("add", "sub", "mul", "div"):
        L.append(f"/-- `impl {fn.capitalize()} for I64` (`terminal/i64.rs`): the arms of `match (self, rhs)`, in source order -/")
        L.append(f"def i64Arms_{fn} : List I6.Arm :=\n  [" + ",\n   ".join(tables[fn]) + "]")
    L.append("/-- `impl PartialOrd for I64`: the arms of `match (self, other)` -/")
    L.append("def i64Arms_partialCmp : List I6.CArm :=\n  [" + ",\n   ".join(crows) + "]")
    L.append("/-- `I64::signum` (constructor ↦ result), in the order of the enum -/")
    L.append("def i64Signum : List (I6.Cls × I6.SRes) := " + lean_list([f"({k}, {sig[k]})" for k in (".nan", ".ninf", ".num", ".pinf") if k in sig]))
    L.append("/-- `impl NumberBase for I64`: the constants `zero()`, `one()`, `nan()` -/")
    L.append("def i64Consts : List (String × I6.Expr) := " + lean_list(consts))
    L.append("/-- … and the operator each method forwards to (`self + rhs`, …) -/")
    L.append("def i64Methods : List (String × String) := " + lean_list(meths))
    L.append("/-- constructs of `terminal/i64.rs` that the extractor does not recognise -/")
    L.append(f"def i64Unparsed : List String := {lean_strs(unparsed)}")
    L.append("\nend OxiddModel.Generated")
    return {"SrcI64.lean": "\n".join(L) + "\n"}


# ---- BCDD kernels `terminal_and` / `terminal_xor`, `apply_bin` dispatch, operator derivations ----

def lean_bool(b):
    return "true" if b else "false"


def bc_tagname(t):
    t = re.sub(r"^EdgeTag::", "", compact(t))
    return t if t in ("None", "Complemented") else None


def bc_bexpr(txt, names):
    """Boolean expression over the tags -> Lean Bc.BExpr.  names: {'ft': 'f', 'gt': 'g'}"""
    t = strip_outer(txt)
    for sep, ctor in (("||", ".or"), ("&&", ".and")):
        parts = split_top(t, sep)
        if len(parts) > 1:
            r = bc_bexpr(parts[0], names)
            for o in parts[1:]:
                r = f"({ctor} {r} {bc_bexpr(o, names)})"
            return r
    c = compact(t)
    if c in ("true", "false"):
        return f"(.lit {c})"
    if c.startswith("!"):
        return f"(.not {bc_bexpr(c[1:], names)})"
    m = re.fullmatch(r"(.+?)(==|!=)(.+)", c)
    if m:
        a, rel, b = m.group(1), m.group(2), m.group(3)
        if a in names and b in names and a != b:
            return f"(.tagsEq {lean_bool(rel == '==')})"
        if b in names and bc_tagname(a):
            a, b = b, a
        if a in names and bc_tagname(b):
            return f"(.tagNone .{names[a]} {lean_bool((bc_tagname(b) == 'None') == (rel == '=='))})"
    raise Unparsed("tag expression " + txt)


def bc_unwrap_done(c):
    """`Done(EdgeDropGuard::new(manager, X))` / `Done(X)` -> X (compact text) or None"""
    m = re.fullmatch(r"(?:NodesOrDone::)?Done\((.*)\)", c)
    if not m:
        return None
    x = m.group(1)
    m2 = re.fullmatch(r"EdgeDropGuard::new\(manager,(.*)\)", x)
    return m2.group(1) if m2 else x


def bc_edge_expr(txt, env, names, tagval):
    """symbolic value of an edge-valued expression: ('edge', side, negated) | ('const', Lean BExpr).
    env: variable -> value; tagval: value of `tag` ('None'|'Complemented') or None"""
    t = strip_outer(strip_outer(txt.strip(), "{", "}"))
    c = compact(t)
    m = re.match(r"if\b", t)
    if m:
        i = t.index("{")
        cond = compact(t[m.end():i])
        then, end = block_after(t, i)
        rest = t[end:].strip()
        if not rest.startswith("else"):
            raise Unparsed("if without else " + t)
        els = rest[4:].strip()
        mc = re.fullmatch(r"tag(==|!=)(\S+)", cond) or None
        if mc is None:
            mc2 = re.fullmatch(r"(\S+?)(==|!=)tag", cond)
            if mc2:
                mc = re.fullmatch(r"tag(==|!=)(\S+)", "tag" + mc2.group(2) + mc2.group(1))
        if not mc or bc_tagname(mc.group(2)) is None or tagval is None:
            raise Unparsed("condition " + cond)
        holds = (bc_tagname(mc.group(2)) == tagval) == (mc.group(1) == "==")
        return bc_edge_expr(then if holds else els, env, names, tagval)
    m = re.fullmatch(r"manager\.clone_edge\(&?\*?(\w+)\)", c)
    if m:
        v = env.get(m.group(1))
        if v and v[0] == "edge":
            return v
        raise Unparsed("clone of " + m.group(1))
    m = re.fullmatch(r"not_owned\((.*)\)", c)
    if m:
        v = bc_edge_expr(m.group(1), env, names, tagval)
        if v[0] == "edge":
            return ("edge", v[1], not v[2])
        return ("const", f"(.not {v[1]})")
    m = re.fullmatch(r"get_terminal\(manager,(.*)\)", c)
    if m:
        return ("const", bc_bexpr(m.group(1), names))
    if re.fullmatch(r"\w+", c) and c in env:
        return env[c]
    raise Unparsed("edge expression " + txt)


def bc_res_lean(v):
    if v[0] == "edge":
        return f"(.{'neg' if v[2] else 'clone'} .{v[1]})"
    return f"(.const {v[1]})"


def bc_stmts(body):
    """split a block into top-level statements (text without the trailing `;`)"""
    out, depth, last = [], 0, 0
    for i, ch in enumerate(body):
        if ch in "([{":
            depth += 1
        elif ch in ")]}":
            depth -= 1
            if depth == 0 and ch == "}":
                # a block statement (`if .. { .. }`) ends at its brace unless followed by `else`, `;`, `)` …
                rest = body[i + 1:].lstrip()
                head = body[last:i + 1].lstrip()
                if re.match(r"(if|match)\b", head) and not rest.startswith(("else", ";", ".", "?")):
                    out.append(body[last:i + 1].strip())
                    last = i + 1
        elif ch == ";" and depth == 0:
            out.append(body[last:i].strip())
            last = i + 1
    if body[last:].strip():
        out.append(body[last:].strip())
    return [s for s in out if s]


def bc_run_tail(stmts, env, names, tagval):
    """straight-line tail `let x = e; … Done(..)` (or `return Done(..)`) -> symbolic result"""
    env = dict(env)
    for k, st in enumerate(stmts):
        m = re.fullmatch(r"let\s+(?:mut\s+)?(\w+)\s*=\s*(.*)", st, flags=re.S)
        if m:
            env[m.group(1)] = bc_edge_expr(m.group(2), env, names, tagval)
            continue
        c = compact(re.sub(r"^return\b", "", st.strip()))
        x = bc_unwrap_done(c)
        if x is None or k != len(stmts) - 1:
            raise Unparsed("statement " + st)
        return bc_edge_expr(x, env, names, tagval)
    raise Unparsed("no result")


def bc_kernel(src, fn):
    """`terminal_and` / `terminal_xor` -> [Lean KRow terms]; raises Unparsed"""
    bodies = fn_bodies(src, fn)
    if len(bodies) != 1:
        raise Unparsed(f"fn {fn} not found")
    stmts = [s for s in bc_stmts(bodies[0]) if not re.match(r"use\b", s)]
    names, untag = {}, {}
    env = {"f": ("edge", "f", False), "g": ("edge", "g", False)}
    k = 0
    while k < len(stmts):
        c = compact(stmts[k])
        m = re.fullmatch(r"let(\w+)=(f|g)\.tag\(\)", c)
        if m:
            names[m.group(1)] = m.group(2)
            k += 1
            continue
        m = re.fullmatch(r"let(\w+)=(f|g)\.with_tag\((?:EdgeTag::)?None\)", c)
        if m:
            untag[m.group(1)] = m.group(2)
            k += 1
            continue
        break
    if sorted(names.values()) != ["f", "g"] or sorted(untag.values()) != ["f", "g"]:
        raise Unparsed("tag / untagged-edge bindings " + " ; ".join(stmts[:4]))
    rows = []
    # (a) same-node test
    st = stmts[k]
    m = re.match(r"if\s+\*?(\w+)\s*==\s*\*?(\w+)\s*(?=\{)", st)
    if not m or sorted([untag.get(m.group(1)), untag.get(m.group(2))]) != ["f", "g"]:
        raise Unparsed("same-node test " + st)
    blk, end = block_after(st, m.end())
    if st[end:].strip():
        raise Unparsed("same-node test has an else part " + st[end:])
    inner = bc_stmts(blk)
    mi = re.match(r"if\s+(\w+)\s*(==|!=)\s*(\w+)\s*(?=\{)", inner[0]) if inner else None
    if mi and {mi.group(1), mi.group(3)} == set(names):
        b2, e2 = block_after(inner[0], mi.end())
        rest_else = inner[0][e2:].strip()
        first = bc_run_tail(bc_stmts(b2), env, names, None)
        if rest_else.startswith("else"):
            other = bc_run_tail(bc_stmts(strip_outer(rest_else[4:].strip(), "{", "}")), env, names, None)
            if len(inner) != 1:
                raise Unparsed("same-node block " + blk)
        else:
            other = bc_run_tail(inner[1:], env, names, None)
        eq_first = mi.group(2) == "=="
        rows.append(f"⟨.sameEq, {bc_res_lean(first if eq_first else other)}⟩")
        rows.append(f"⟨.sameNe, {bc_res_lean(other if eq_first else first)}⟩")
    else:
        rows.append(f"⟨.same, {bc_res_lean(bc_run_tail(inner, env, names, None))}⟩")
    k += 1
    # (b) the match on the node kinds
    st = stmts[k]
    m = re.match(r"let\s*\(\s*(\w+)\s*,\s*(\w+)\s*\)\s*=\s*match\s*\(\s*manager\.get_node\(&?(\w+)\)\s*,\s*manager\.get_node\(&?(\w+)\)\s*\)\s*(?=\{)", st)
    if not m or (m.group(3), m.group(4)) != ("f", "g"):
        raise Unparsed("node-kind match " + st)
    hvar, tagvar = m.group(1), m.group(2)
    if tagvar != "tag":
        raise Unparsed("tag variable must be called `tag`: " + tagvar)
    arms, end = block_after(st, m.end())
    if st[end:].strip():
        raise Unparsed("after node-kind match " + st[end:])
    tail = stmts[k + 1:]
    seen = set()
    for pat, res in split_arms(arms):
        pc = re.sub(r"Node::", "", compact(pat))
        mp = re.fullmatch(r"\((Inner|Terminal)\((\w+)\),(Inner|Terminal)\((\w+)\)\)", pc)
        if not mp:
            raise Unparsed("node-kind pattern " + pat)
        kind = (mp.group(1), mp.group(3))
        if kind in seen:
            raise Unparsed("duplicate node-kind pattern " + pat)
        seen.add(kind)
        rc = compact(strip_result(res))
        cond = {("Inner", "Inner"): ".innerInner", ("Terminal", "Terminal"): ".termTerm"}.get(kind)
        mn = re.fullmatch(r"(?:NodesOrDone::)?Nodes\((\w+),(\w+)\)", rc)
        if mn:
            if kind != ("Inner", "Inner") or (mn.group(1), mn.group(2)) != (mp.group(2), mp.group(4)):
                raise Unparsed("Nodes(..) arm " + pat + " => " + res)
            rows.append("⟨.innerInner, .nodes⟩")
            continue
        mt = re.fullmatch(r"\((f|g),(\w+)\)", rc)
        if mt:
            # falls through to the tail with h := side, tag := that operand's tag
            if mt.group(2) not in names:
                raise Unparsed("tag in " + res)
            tag_of = names[mt.group(2)]
            for tv in ("Complemented", "None"):
                e2 = dict(env)
                e2[hvar] = ("edge", mt.group(1), False)
                r = bc_run_tail(tail, e2, names, tv)
                if kind == ("Inner", "Terminal") and tag_of == "g":
                    rows.append(f"⟨.innerTerm {lean_bool(tv == 'Complemented')}, {bc_res_lean(r)}⟩")
                elif kind == ("Terminal", "Inner") and tag_of == "f":
                    rows.append(f"⟨.termInner {lean_bool(tv == 'Complemented')}, {bc_res_lean(r)}⟩")
                else:
                    # e.g. the inner operand's tag is consulted: no row type for that
                    raise Unparsed("tag of the wrong operand in " + pat + " => " + res)
            continue
        # an arm that returns by itself
        r = bc_run_tail(bc_stmts(strip_outer(res.strip(), "{", "}")), env, names, None)
        if cond is None:
            raise Unparsed("direct return in mixed arm " + pat)
        rows.append(f"⟨{cond}, {bc_res_lean(r)}⟩")
    if len(seen) != 4:
        raise Unparsed("node-kind match does not have the four arms")
    return rows


def bc_apply_bin(src):
    """the `match super::terminal_<k>(..)` blocks of `apply_bin` -> [Lean ARow terms], done arms ok?"""
    bodies = fn_bodies(src, "apply_bin")
    if len(bodies) != 1:
        raise Unparsed("fn apply_bin not found")
    body = bodies[0]
    rows, ops = [], []
    for m in re.finditer(r"match\s+(?:super::)?terminal_(and|xor)\(\s*manager\s*,\s*&f\s*,\s*&g\s*\)\s*(?=\{)", body):
        kern = m.group(1)
        # which operator block are we in?  `if OP == BCDDOp::And as u8 {` or `else { assert_eq!(OP, BCDDOp::Xor as u8);`
        before = body[:m.start()]
        mo = list(re.finditer(r"OP\s*==\s*BCDDOp::(\w+)\s+as\s+u8|assert_eq!\(\s*OP\s*,\s*BCDDOp::(\w+)\s+as\s+u8\s*\)", before))
        if not mo:
            raise Unparsed("operator test before terminal_" + kern)
        op = mo[-1].group(1) or mo[-1].group(2)
        ops.append(op)
        arms, _ = block_after(body, m.end())
        done = False
        for pat, res in split_arms(arms):
            pc = compact(pat).replace("NodesOrDone::", "")
            rc = compact(strip_result(res))
            md = re.fullmatch(r"Done\((\w+)\)", pc)
            if md:
                if rc not in (f"Ok({md.group(1)}.into_edge())", f"{md.group(1)}.into_edge()"):
                    raise Unparsed("Done arm " + res)
                done = True
                continue
            mn = re.fullmatch(r"Nodes\((\w+),(\w+)\)(?:if(f<g|g>f))?", pc)
            mr = re.fullmatch(r"\(BCDDOp::(\w+),(f|g)\.borrowed\(\),(\w+),(f|g)\.borrowed\(\),(\w+)\)", rc)
            if not mn or not mr:
                raise Unparsed("apply_bin arm " + pat + " => " + res)
            node_of = {"f": mn.group(1), "g": mn.group(2)}
            paired = (mr.group(2) != mr.group(4) and node_of[mr.group(2)] == mr.group(3) and node_of[mr.group(4)] == mr.group(5))
            rows.append(f'⟨"{op}", .{kern}, {lean_bool(mn.group(3) is not None)}, "{mr.group(1)}", .{mr.group(2)}, {lean_bool(paired)}⟩')
        if not done:
            raise Unparsed("no Done arm for terminal_" + kern)
    if not rows:
        raise Unparsed("no terminal_and/terminal_xor match in apply_bin")
    return rows


def bc_derivations(block, unparsed, where):
    """`<op>_edge` functions of one `impl BooleanFunction` block -> [Lean DRow terms]"""
    fns = {}
    for name in ("and", "or", "nand", "nor", "xor", "equiv", "imp", "imp_strict"):
        bs = fn_bodies(block, name + "_edge")
        if len(bs) == 1:
            fns[name] = bs[0]
        else:
            unparsed.append(desc(where, f"fn {name}_edge not found"))

    def operand(txt, env):
        c = compact(txt)
        m = re.fullmatch(r"not\(&?(\w+)\)", c)
        if m and m.group(1) in env and env[m.group(1)][0] == "edge":
            v = env[m.group(1)]
            return ("edge", v[1], not v[2])
        m = re.fullmatch(r"&?(\w+)(?:\.borrowed\(\))?", c)
        if m and m.group(1) in env and env[m.group(1)][0] == "edge":
            return env[m.group(1)]
        raise Unparsed("operand " + txt)

    def value(txt, env, depth):
        t = strip_outer(txt.strip())
        c = compact(t)
        if c.endswith("?"):
            return value(t.rstrip()[:-1], env, depth)
        m = re.fullmatch(r"Ok\((.*)\)", c)
        if m:
            return value(t[t.index("(") + 1:t.rindex(")")], env, depth)
        m = re.fullmatch(r"not_owned\((.*)\)", c)
        if m:
            v = value(t[t.index("(") + 1:t.rindex(")")], env, depth)
            if v[0] == "res":
                return ("res", v[1], v[2], v[3], not v[4])
            raise Unparsed("not_owned of an operand " + txt)
        m = re.match(r"(?:Self::)?(\w+)_edge\(", c)
        if m and m.group(1) in fns:
            args = split_top(t[t.index("(") + 1:t.rindex(")")], ",")
            args = [a for a in args if a.strip()]
            if len(args) != 3 or depth > 4:
                raise Unparsed("call " + txt)
            a, b = operand(args[1], env), operand(args[2], env)
            return run(m.group(1), a, b, depth + 1)
        m = re.match(r"apply_and\(", c)
        kern = "and" if m else None
        if not m:
            m = re.match(r"apply_bin::<[^>]*BCDDOp::(And|Xor)asu8\}?,?>\(", c)
            kern = m.group(1).lower() if m else None
        if kern:
            args = [a for a in split_top(t[t.index("(", t.index("apply_")) + 1:t.rindex(")")], ",") if a.strip()]
            if len(args) != 4:
                raise Unparsed("kernel call " + txt)
            return ("res", kern, operand(args[2], env), operand(args[3], env), False)
        if re.fullmatch(r"\w+", c) and c in env and env[c][0] == "res":
            return env[c]
        raise Unparsed("expression " + txt)

    def run(name, a, b, depth=0):
        env = {"lhs": a, "rhs": b}
        stmts = bc_stmts(fns[name])
        for k, st in enumerate(stmts):
            m = re.fullmatch(r"let\s+(\w+)\s*=\s*(.*)", st, flags=re.S)
            if m:
                rhs = m.group(2)
                if re.match(r"(SequentialRecursor|ParallelRecursor::new\(manager\))\s*$", rhs.strip()):
                    env[m.group(1)] = ("rec",)
                    continue
                try:
                    env[m.group(1)] = operand(rhs, env)
                except Unparsed:
                    env[m.group(1)] = value(rhs, env, depth)
                continue
            m = re.fullmatch(r"let\s*\(([^)]*)\)\s*=\s*\((.*)\)", st, flags=re.S)
            if m:
                vs = [v.strip() for v in m.group(1).split(",") if v.strip()]
                es = [e for e in split_top(m.group(2), ",") if e.strip()]
                if len(vs) != len(es):
                    raise Unparsed("tuple binding " + st)
                new = [operand(e, env) for e in es]
                for v, e in zip(vs, new):
                    env[v] = e
                continue
            if k != len(stmts) - 1:
                raise Unparsed("statement " + st)
            return value(re.sub(r"^return\b", "", st), env, depth)
        raise Unparsed("no result in " + name + "_edge")

    rows = []
    for name in ("and", "or", "nand", "nor", "xor", "equiv", "imp", "imp_strict"):
        if name not in fns:
            continue
        try:
            v = run(name, ("edge", "f", False), ("edge", "g", False))
            if v[0] != "res" or {v[2][1], v[3][1]} != {"f", "g"}:
                raise Unparsed("result does not apply a kernel to both operands")
            swapped = v[2][1] == "g"
            fa, ga = (v[3], v[2]) if swapped else (v[2], v[3])
            opname = {"and": "And", "or": "Or", "nand": "Nand", "nor": "Nor", "xor": "Xor", "equiv": "Equiv", "imp": "Imp", "imp_strict": "ImpStrict"}[name]
            rows.append(f'⟨"{opname}", .{v[1]}, {lean_bool(fa[2])}, {lean_bool(ga[2])}, {lean_bool(v[4])}, {lean_bool(swapped)}⟩')
        except Unparsed as e:
            unparsed.append(desc(f"{where} {name}_edge", str(e)))
    return rows


def bc_tag_tables(src, unparsed):
    """`impl Not for EdgeTag`, `impl BitXor for EdgeTag`, `get_terminal`, `not`, `not_owned`"""
    nt, bx, gt, nots = [], [], [], []
    try:
        m = re.search(r"impl\s+(?:std::ops::)?Not\s+for\s+EdgeTag\b", src)
        blk, _ = block_after(src, m.end())
        body = fn_bodies(blk, "not")[0]
        mm = re.match(r"\s*match\s+self\s*(?=\{)", body)
        arms, _ = block_after(body, mm.end())
        for pat, res in split_arms(arms):
            a, b = bc_tagname(pat), bc_tagname(strip_result(res))
            if a is None or b is None:
                raise Unparsed("arm " + pat + " => " + res)
            nt.append((a, b))
    except Exception as e:
        unparsed.append(desc("impl Not for EdgeTag", str(e) if isinstance(e, Unparsed) else repr(e)))
    try:
        m = re.search(r"impl\s+(?:std::ops::)?BitXor\s+for\s+EdgeTag\b", src)
        blk, _ = block_after(src, m.end())
        body = re.sub(r"^\s*(?:use\s+[^;]*;\s*)*", "", fn_bodies(blk, "bitxor")[0])
        mm = re.match(r"\s*match\s*\(\s*self\s*,\s*rhs\s*\)\s*(?=\{)", body)
        arms, _ = block_after(body, mm.end())
        for pat, res in split_arms(arms):
            mp = re.fullmatch(r"\((\S+),(\S+)\)", compact(pat))
            vals = (bc_tagname(mp.group(1)), bc_tagname(mp.group(2)), bc_tagname(strip_result(res))) if mp else (None,)
            if None in vals:
                raise Unparsed("arm " + pat + " => " + res)
            bx.append(vals)
    except Exception as e:
        unparsed.append(desc("impl BitXor for EdgeTag", str(e) if isinstance(e, Unparsed) else repr(e)))
    try:
        body = [b for b in fn_bodies(src, "get_terminal") if "val" in b][0]
        c = compact(body)
        m = re.fullmatch(r"let(\w+)=manager\.get_terminal\(BCDDTerminal\)\.unwrap\(\);ifval\{(.*?)\}else\{(.*?)\}", c)
        if not m:
            raise Unparsed(body)
        for val, e in (("true", m.group(2)), ("false", m.group(3))):
            if e == m.group(1):
                gt.append((val, "None"))
            else:
                mt = re.fullmatch(m.group(1) + r"\.with_tag_owned\((?:EdgeTag::)?(None|Complemented)\)", e)
                if not mt:
                    raise Unparsed("branch " + e)
                gt.append((val, mt.group(1)))
    except Exception as e:
        unparsed.append(desc("fn get_terminal", str(e) if isinstance(e, Unparsed) else repr(e)))
    for name, setter in (("not_owned", "with_tag_owned"), ("not", "with_tag")):
        try:
            bs = [b for b in fn_bodies(src, name) if "match self" not in b]
            c = compact(bs[0]) if bs else ""
            m = re.fullmatch(r"let(\w+)=e\.tag\(\);e\." + setter + r"\(!(\w+)\)", c)
            if not m or m.group(1) != m.group(2):
                raise Unparsed(bs[0] if bs else "not found")
            nots.append(name)
        except Exception as e:
            unparsed.append(desc("fn " + name, str(e) if isinstance(e, Unparsed) else repr(e)))
    return nt, bx, gt, nots


def gen_bcdd_kernels(read_):
    unparsed = []
    kern = {"and": [], "xor": []}
    arows, drows, drows_mt = [], [], []
    nt, bx, gt, nots = [], [], [], []
    try:
        mod = strip_comments(read_("crates/oxidd-rules-bdd/src/complement_edge/mod.rs"))
        app = strip_comments(read_("crates/oxidd-rules-bdd/src/complement_edge/apply_rec.rs"))
        for k in ("and", "xor"):
            try:
                kern[k] = bc_kernel(mod, "terminal_" + k)
            except Exception as e:
                unparsed.append(desc("terminal_" + k, str(e) if isinstance(e, Unparsed) else repr(e)))
        try:
            arows = bc_apply_bin(app)
        except Exception as e:
            unparsed.append(desc("apply_bin", str(e) if isinstance(e, Unparsed) else repr(e)))
        impls = [m for m in re.finditer(r"impl\s*<[^{]*?>\s*BooleanFunction\s+for\s+BCDDFunction(MT)?\b", app)]
        seen = set()
        for m in impls:
            blk, _ = block_after(app, m.end())
            if m.group(1):
                drows_mt = bc_derivations(blk, unparsed, "BooleanFunction for BCDDFunctionMT")
            else:
                drows = bc_derivations(blk, unparsed, "BooleanFunction for BCDDFunction")
            seen.add(bool(m.group(1)))
        if seen != {True, False}:
            unparsed.append(desc("apply_rec.rs", "impl BooleanFunction for BCDDFunction / BCDDFunctionMT not both found"))
        nt, bx, gt, nots = bc_tag_tables(mod, unparsed)
    except Exception as e:
        unparsed.append(desc("extractor exception", repr(e)))
    L = ["import OxiddModel.Generated.RulesBcdd", GEN_HEADER, "namespace OxiddModel.Generated\n"]
    for k in ("and", "xor"):
        L.append(f"/-- `terminal_{k}` (`complement_edge/mod.rs`) as a decision list, in the order the code tests the cases -/")
        L.append(f"def kernelRows_{k} : List Bc.KRow :=\n  [" + ",\n   ".join(kern[k]) + "]")
    L.append("/-- the `Nodes(..)` arms of `apply_bin` (`complement_edge/apply_rec.rs`) -/")
    L.append("def applyBinRows : List Bc.ARow :=\n  [" + ",\n   ".join(arows) + "]")
    L.append("/-- `impl BooleanFunction for BCDDFunction`: each `<op>_edge` as `[¬] kernel([¬]lhs, [¬]rhs)` (calls followed) -/")
    L.append("def deriveRows : List Bc.DRow :=\n  [" + ",\n   ".join(drows) + "]")
    L.append("/-- … and for the multi-threaded `BCDDFunctionMT` -/")
    L.append("def deriveRowsMT : List Bc.DRow :=\n  [" + ",\n   ".join(drows_mt) + "]")
    L.append("/-- `impl Not for EdgeTag` -/")
    L.append("def tagNot : List (String × String) := " + lean_list([f'("{a}", "{b}")' for a, b in nt]))
    L.append("/-- `impl BitXor for EdgeTag` -/")
    L.append("def tagXor : List (String × String × String) := " + lean_list([f'("{a}", "{b}", "{c}")' for a, b, c in bx]))
    L.append("/-- `get_terminal(manager, val)`: value ↦ tag of the edge to the single terminal -/")
    L.append("def getTerminalTag : List (Bool × String) := " + lean_list([f'({a}, "{b}")' for a, b in gt]))
    L.append("/-- the functions among `not`, `not_owned` recognised as `e.with_tag(!e.tag())` -/")
    L.append("def tagFlippers : List String := " + lean_strs(nots))
    L.append("/-- constructs of the BCDD kernels / dispatch that the extractor does not recognise -/")
    L.append(f"def bcddKernelsUnparsed : List String := {lean_strs(unparsed)}")
    L.append("\nend OxiddModel.Generated")
    return {"SrcBcddKernels.lean": "\n".join(L) + "\n"}


# ---- ZBDD set operations `apply_union/intsec/diff/symm_diff` -----------------------------------

ZB_FNS = [("union", "apply_union", "Union"), ("intsec", "apply_intsec", "Intsec"), ("diff", "apply_diff", "Diff"), ("symmDiff", "apply_symm_diff", "SymmDiff")]


def zb_atom(txt):
    c = compact(strip_outer(txt))
    for a, b in ((r"\*?f", r"\*?g"), (r"\*?g", r"\*?f")):
        if re.fullmatch(a + "==" + b, c):
            return ".fEqG"
    m = re.fullmatch(r"\*(f|g)==\*empty", c) or re.fullmatch(r"\*empty==\*(f|g)", c)
    if m:
        return ".fEmpty" if m.group(1) == "f" else ".gEmpty"
    raise Unparsed("condition atom " + txt)


def zb_opnd(txt, env):
    c = compact(txt)
    m = re.fullmatch(r"&?(\w+)(?:\.borrowed\(\))?", c)
    if m and m.group(1) in env and env[m.group(1)][0] == "o":
        return env[m.group(1)][1]
    raise Unparsed("operand " + txt)


def zb_arm(block, fname, env0):
    """one arm of `match flevel.cmp(&glevel)` -> Lean RArm term"""
    env = dict(env0)
    stmts = bc_stmts(strip_outer(block.strip(), "{", "}"))

    def rec_call(txt):
        t = txt.strip()
        if t.endswith("?"):
            t = t[:-1].strip()
        m = re.fullmatch(fname + r"\(\s*manager\s*,\s*rec\s*,(.*)\)", t, flags=re.S)
        if not m:
            return None
        args = [a for a in split_top(m.group(1), ",") if a.strip()]
        if len(args) != 2:
            raise Unparsed("recursive call " + txt)
        return (zb_opnd(args[0], env), zb_opnd(args[1], env))

    for k, st in enumerate(stmts):
        m = re.fullmatch(r"let\s*\(\s*(\w+)\s*,\s*(\w+)\s*\)\s*=\s*collect_children\(\s*(f|g)node\.unwrap_inner\(\)\s*\)", st)
        if m:
            env[m.group(1)] = ("o", m.group(3) + "hi")
            env[m.group(2)] = ("o", m.group(3) + "lo")
            continue
        m = re.fullmatch(r"let\s+(\w+)\s*=\s*(f|g)node\.unwrap_inner\(\)\.child\(\s*(LO|HI)\s*\)", st)
        if m:
            env[m.group(1)] = ("o", m.group(2) + m.group(3).lower())
            continue
        m = re.fullmatch(r"let\s*\(\s*(\w+)\s*,\s*(\w+)\s*\)\s*=\s*rec\.binary\(\s*" + fname + r"\s*,\s*manager\s*,\s*\((.*?)\)\s*,\s*\((.*?)\)\s*,?\s*\)\?", st, flags=re.S)
        if m:
            p1 = [a for a in split_top(m.group(3), ",") if a.strip()]
            p2 = [a for a in split_top(m.group(4), ",") if a.strip()]
            if len(p1) != 2 or len(p2) != 2:
                raise Unparsed("rec.binary " + st)
            env[m.group(1)] = ("r", zb_opnd(p1[0], env), zb_opnd(p1[1], env))
            env[m.group(2)] = ("r", zb_opnd(p2[0], env), zb_opnd(p2[1], env))
            continue
        m = re.fullmatch(r"let\s+(\w+)\s*=\s*(.*)", st, flags=re.S)
        if m:
            r = rec_call(m.group(2))
            if r is None:
                raise Unparsed("binding " + st)
            env[m.group(1)] = ("r",) + r
            continue
        if k != len(stmts) - 1:
            raise Unparsed("statement " + st)
        t = re.sub(r"^return\b", "", st).strip()
        r = rec_call(t)
        if r is not None:
            return f"(.direct .{r[0]} .{r[1]})"
        m = re.fullmatch(r"(reduce|reduce_borrowed)\(\s*manager\s*,\s*(f|g)level\s*,(.*)\)", t, flags=re.S)
        if not m:
            raise Unparsed("result " + st)
        args = [a for a in split_top(m.group(3), ",") if a.strip()]
        if len(args) != 3:
            raise Unparsed("reduce arguments " + st)
        ch = []
        for a in args[:2]:
            v = env.get(re.sub(r"\.into_edge\(\)$", "", compact(a)))
            if v is None:
                raise Unparsed("child " + a)
            ch.append(f"(.thru .{v[1]})" if v[0] == "o" else f"(.call .{v[1]} .{v[2]})")
        return f"(.node {lean_bool(m.group(2) == 'f')} {ch[0]} {ch[1]})"
    raise Unparsed("empty arm")


def zb_fn(src, lean_op, fname, tag):
    bodies = fn_bodies(src, fname)
    if len(bodies) != 1:
        raise Unparsed(f"fn {fname} not found")
    stmts = bc_stmts(bodies[0])
    term, swap = [], False
    k = 0
    # prologue up to the cache query
    while k < len(stmts):
        st = stmts[k]
        c = compact(st)
        if re.match(r"if\s+rec\.should_switch_to_sequential\(\)", st) or re.match(r"use\b", st) or re.match(r"stat!", st):
            k += 1
            continue
        if re.fullmatch(r"letempty=EdgeDropGuard::new\(manager,manager\.get_terminal\(ZBDDTerminal::Empty\)\.unwrap\(\)\)", c):
            k += 1
            continue
        m = re.match(r"if\s+(?!let\b)(.*?)\s*(?=\{)", st, flags=re.S)
        if m and "apply_cache" not in st:
            blk, end = block_after(st, m.end())
            if st[end:].strip():
                raise Unparsed("terminal case with else " + st)
            if swap:
                raise Unparsed("terminal case after the operand swap " + st)
            atoms = [zb_atom(a) for a in split_top(m.group(1), "||")]
            r = compact(strip_result(blk))
            res = {"manager.clone_edge(&f)": ".cloneF", "manager.clone_edge(&g)": ".cloneG", "empty.into_edge()": ".empty"}.get(r)
            if res is None or not re.match(r"\s*return\b", blk):
                raise Unparsed("terminal case result " + blk)
            term.append(f"⟨{lean_list(atoms)}, {res}⟩")
            k += 1
            continue
        if re.fullmatch(r"let\(f,g\)=iff>g\{\(g,f\)\}else\{\(f,g\)\}", c) or re.fullmatch(r"let\(f,g\)=ifg<f\{\(g,f\)\}else\{\(f,g\)\}", c) \
                or re.fullmatch(r"let\(f,g\)=iff<g\{\(f,g\)\}else\{\(g,f\)\}", c) or re.fullmatch(r"let\(f,g\)=iff<=g\{\(f,g\)\}else\{\(g,f\)\}", c):
            swap = True
            k += 1
            continue
        break
    rest = stmts[k:]
    text = " ; ".join(rest)
    mg = re.search(r"\.apply_cache\(\)\s*\.get\(\s*manager\s*,\s*(?:ZBDDOp::)?(\w+)\s*,\s*&\[\s*(\w+)\.borrowed\(\)\s*,\s*(\w+)\.borrowed\(\)\s*\]\s*\)", text)
    ma = re.search(r"\.apply_cache\(\)\s*\.add\(\s*manager\s*,\s*(?:ZBDDOp::)?(\w+)\s*,\s*&\[\s*(\w+)(?:\.borrowed\(\))?\s*,\s*(\w+)(?:\.borrowed\(\))?\s*\]\s*,\s*h\.borrowed\(\)\s*,?\s*\)", text)
    if not mg or not ma:
        raise Unparsed("apply cache get/add")
    key_ok = (mg.group(2), mg.group(3)) == ("f", "g") and (ma.group(2), ma.group(3)) == ("f", "g")
    # statements between: fnode/gnode/flevel/glevel bindings, then `let h = match flevel.cmp(&glevel) {..}?`
    expect = {"fnode": "manager.get_node(&f)", "gnode": "manager.get_node(&g)", "flevel": "fnode.level()", "glevel": "gnode.level()"}
    arms = None
    for st in rest:
        c = compact(st)
        m = re.fullmatch(r"let(\w+)=(.*)", c)
        if m and m.group(1) in expect:
            if m.group(2) != expect[m.group(1)]:
                raise Unparsed("binding " + st)
            del expect[m.group(1)]
            continue
        m = re.match(r"let\s+h\s*=\s*match\s+flevel\.cmp\(\s*&glevel\s*\)\s*(?=\{)", st)
        if m:
            body, end = block_after(st, m.end())
            if compact(st[end:]) != "?":
                raise Unparsed("after the level match " + st[end:])
            arms = split_arms(body)
    if expect or arms is None:
        raise Unparsed("node/level bindings or level match missing")
    env0 = {"f": ("o", "f"), "g": ("o", "g")}
    got = {}
    for pat, res in arms:
        key = re.sub(r"^(?:std::cmp::|cmp::)?Ordering::", "", compact(pat))
        if key not in ("Less", "Equal", "Greater") or key in got:
            raise Unparsed("level arm " + pat)
        got[key] = zb_arm(res, fname, env0)
    if len(got) != 3:
        raise Unparsed("level match needs Less/Equal/Greater")
    return (f"⟨.{lean_op}, {lean_list(term)}, {lean_bool(swap)}, \"{mg.group(1)}\", \"{ma.group(1)}\", {lean_bool(key_ok)},\n"
            f"    {got['Less']},\n    {got['Equal']},\n    {got['Greater']}⟩")


def gen_zbdd_apply(read_):
    unparsed, fns = [], []
    try:
        src = strip_comments(read_("crates/oxidd-rules-zbdd/src/apply_rec.rs"))
        for lean_op, fname, tag in ZB_FNS:
            try:
                fns.append(zb_fn(src, lean_op, fname, tag))
            except Exception as e:
                unparsed.append(desc(fname, str(e) if isinstance(e, Unparsed) else repr(e)))
    except Exception as e:
        unparsed.append(desc("extractor exception", repr(e)))
    L = ["import OxiddModel.Generated.RulesZbdd", GEN_HEADER, "namespace OxiddModel.Generated\n"]
    L.append("/-- `apply_union`, `apply_intsec`, `apply_diff`, `apply_symm_diff` (`oxidd-rules-zbdd/src/apply_rec.rs`): terminal cases, operand normalisation, cache tags, and the three arms of `match flevel.cmp(&glevel)` -/")
    L.append("def zbddApplyFns : List Zb.ZFn :=\n  [" + ",\n   ".join(fns) + "]")
    L.append("/-- constructs of these functions that the extractor does not recognise -/")
    L.append(f"def zbddApplyUnparsed : List String := {lean_strs(unparsed)}")
    L.append("\nend OxiddModel.Generated")
    return {"SrcZbddApply.lean": "\n".join(L) + "\n"}


# ---- `reduce` of every kind -----------------------------------------------------------------------

def fn_defs(src, name):
    """[(signature text, body)] of all `fn <name>` definitions with a body (comments stripped by caller)"""
    out = []
    for m in re.finditer(r"fn " + name + r"\b", src):
        depth, j = 0, m.end()
        # the body's `{` is the first one at bracket depth 0 (generics `<..>` contain no braces)
        while j < len(src) and not (src[j] == "{" and depth == 0) and not (src[j] == ";" and depth == 0):
            if src[j] in "([":
                depth += 1
            elif src[j] in ")]":
                depth -= 1
            j += 1
        if j < len(src) and src[j] == "{":
            body, _ = block_after(src, j)
            out.append((src[m.start():j], body))
    return out


def rd_child(txt, names):
    """`t`, `t.into_edge()`, `manager.clone_edge(&hi)` -> position"""
    c = compact(txt)
    m = re.fullmatch(r"(?:manager\.clone_edge\(&(\w+)\)|(\w+)(?:\.into_edge\(\))?)", c)
    v = (m.group(1) or m.group(2)) if m else None
    if v in names:
        return names.index(v)
    raise Unparsed("child " + txt)


def rd_cond(cond, names):
    c = compact(strip_outer(cond))
    m = re.fullmatch(r"manager\.get_node\(&(\w+)\)\.is_terminal\(&ZBDDTerminal::Empty\)", c)
    if m and m.group(1) in names:
        return f"(.isEmpty {names.index(m.group(1))})"
    comp = {n: {n} for n in names}
    used = set()
    for part in split_top(c, "&&"):
        mm = re.fullmatch(r"(\w+)==(\w+)", strip_outer(part))
        if not mm or mm.group(1) not in names or mm.group(2) not in names:
            raise Unparsed("condition " + cond)
        a, b = mm.group(1), mm.group(2)
        merged = comp[a] | comp[b]
        for x in merged:
            comp[x] = merged
        used |= {a, b}
    groups = {frozenset(comp[u]) for u in used}
    if len(groups) != 1:
        raise Unparsed("condition does not connect its operands " + cond)
    idxs = sorted(names.index(x) for x in next(iter(groups)))
    return f"(.allEq {lean_list([str(i) for i in idxs])})"


def rd_names(sig, body):
    names = re.findall(r"let\s+(?:mut\s+)?(\w+)\s*=\s*it\.next\(\)\.unwrap\(\)", body)
    if names:
        return names
    return re.findall(r"(\w+)\s*:\s*(?:Borrowed<\s*)?M::Edge\b", sig)


def rd_plain(kind, label, sig, body, dr_row):
    """a reduce function of a kind without tags -> fields of a RedRow (dict)"""
    names = rd_names(sig, body)
    if not names:
        raise Unparsed("children not found in " + sig)
    m = re.search(r"<\s*\w+\s+as\s+DiagramRules<[^>]*>>::reduce\(\s*manager\s*,\s*level\s*,\s*\[(.*?)\]\s*,?\s*\)", body, flags=re.S)
    if m:
        order = [rd_child(a, names) for a in split_top(m.group(1), ",") if a.strip()]
        if dr_row is None or order != list(range(len(names))) or len(names) != dr_row["arity"]:
            raise Unparsed("delegation to DiagramRules::reduce permutes or drops children")
        return dict(dr_row, fn=label, delegates=True)
    stmts = bc_stmts(body)
    cond = ret = None
    for st in stmts:
        mi = re.match(r"if\s+(?!let\b)(.*?)\s*(?=\{)", st, flags=re.S)
        if not mi:
            continue
        blk, end = block_after(st, mi.end())
        cond = rd_cond(mi.group(1), names)
        mr = re.search(r"(?:ReducedOrNew::Reduced\(|\bOk\()\s*(\w+)(?:\.into_edge\(\))?\s*\)", blk)
        if not mr or mr.group(1) not in names:
            raise Unparsed("reduced result " + blk)
        ret = names.index(mr.group(1))
        break
    if cond is None:
        raise Unparsed("no reduction test")
    news = re.findall(r"(?:\bN|M::InnerNode)::new\(\s*level\s*,\s*\[(.*?)\]\s*,?\s*\)", body, flags=re.S)
    if len(news) != 1:
        raise Unparsed(f"{len(news)} node constructions")
    children = [rd_child(a, names) for a in split_top(news[0], ",") if a.strip()]
    return dict(kind=kind, fn=label, arity=len(names), cond=cond, ret=ret, children=children, delegates=False)


def rd_tagop(txt, names, tagvars):
    """child of a BCDD node -> (position, TagOp)"""
    c = compact(txt)
    m = re.fullmatch(r"(\w+)\.with_tag_owned\((.*)\)", c)
    if not m:
        return (rd_child(txt, names), ".keep")
    if m.group(1) not in names:
        raise Unparsed("child " + txt)
    i, a = names.index(m.group(1)), m.group(2)
    if bc_tagname(a) == "None":
        return (i, ".setNone")
    if bc_tagname(a) == "Complemented":
        return (i, ".setCompl")
    mm = re.fullmatch(r"!(\w+)", a)
    if mm and tagvars.get(mm.group(1)) == m.group(1):
        return (i, ".flip")
    raise Unparsed("tag of child " + txt)


def rd_bcdd(label, sig, body):
    names = rd_names(sig, body)
    if len(names) != 2:
        raise Unparsed("children not found in " + sig)
    stmts = bc_stmts(body)
    eq_ret = None
    tagvars = {m.group(1): m.group(2) for m in re.finditer(r"let\s+(\w+)\s*=\s*(\w+)\.tag\(\)", body)}
    arms = None
    for st in stmts:
        mi = re.match(r"(?:let\s*\(\s*\w+\s*,\s*\w+\s*\)\s*=\s*)?if\s+(.*?)\s*(?=\{)", st, flags=re.S)
        if not mi:
            continue
        blk, end = block_after(st, mi.end())
        c = compact(mi.group(1))
        if eq_ret is None:
            if rd_cond(mi.group(1), names) != "(.allEq [0, 1])":
                raise Unparsed("first test " + mi.group(1))
            mr = re.search(r"(?:ReducedOrNew::Reduced\(|\bOk\()\s*(\w+)\s*\)", blk)
            if not mr or mr.group(1) not in names:
                raise Unparsed("reduced result " + blk)
            eq_ret = names.index(mr.group(1))
            continue
        mt = re.fullmatch(r"(\w+)(==|!=)(\S+)", c)
        if not mt or mt.group(1) not in tagvars:  # constant on the left
            m2 = re.fullmatch(r"(\S+?)(==|!=)(\w+)", c)
            mt = re.fullmatch(r"(\w+)(==|!=)(\S+)", m2.group(3) + m2.group(2) + m2.group(1)) if m2 else None
        if not mt or mt.group(1) not in tagvars or bc_tagname(mt.group(3)) is None:
            raise Unparsed("tag test " + mi.group(1))
        rest = st[end:].strip()
        if not rest.startswith("else"):
            raise Unparsed("tag test without else")
        els, _ = block_after(rest, 4)
        compl_first = (bc_tagname(mt.group(3)) == "Complemented") == (mt.group(2) == "==")
        arms = (names.index(tagvars[mt.group(1)]), blk if compl_first else els, els if compl_first else blk)
    if eq_ret is None or arms is None:
        raise Unparsed("reduction test or tag test missing")

    def arm(txt):
        news = re.findall(r"(?:\bN|M::InnerNode)::new\(\s*level\s*,\s*\[(.*?)\]\s*,?\s*\)", txt, flags=re.S)
        outs = re.findall(r"EdgeTag::(None|Complemented)\s*\)\s*;?\s*$", txt.strip())
        if len(news) != 1 or len(outs) != 1:
            raise Unparsed("arm " + txt)
        ch = [rd_tagop(a, names, tagvars) for a in split_top(news[0], ",") if a.strip()]
        return lean_list([f"({i}, {o})" for i, o in ch]), outs[0]

    cc, co = arm(arms[1])
    pc, po = arm(arms[2])
    return f'⟨"{label}", {eq_ret}, {arms[0]}, {cc}, "{co}", {pc}, "{po}"⟩'


def gen_reduce(read_):
    unparsed, rows, brows = [], [], []
    kinds = [("bdd", "crates/oxidd-rules-bdd/src/simple/mod.rs", ["reduce"]),
             ("zbdd", "crates/oxidd-rules-zbdd/src/lib.rs", ["reduce", "reduce_borrowed", "reduce1"]),
             ("mtbdd", "crates/oxidd-rules-mtbdd/src/lib.rs", ["reduce"]),
             ("tdd", "crates/oxidd-rules-tdd/src/lib.rs", ["reduce"])]
    for kind, path, fns in kinds:
        try:
            src = strip_comments(read_(path))
            defs = fn_defs(src, "reduce")
            dr = [d for d in defs if "children" in d[0] and "IntoIterator" in d[0]]
            free = [d for d in defs if d not in dr]
            dr_row = None
            if len(dr) == 1:
                try:
                    dr_row = rd_plain(kind, "DiagramRules::reduce", dr[0][0], dr[0][1], None)
                    rows.append(dr_row)
                except Exception as e:
                    unparsed.append(desc(f"{kind} DiagramRules::reduce", str(e) if isinstance(e, Unparsed) else repr(e)))
            else:
                unparsed.append(desc(kind, "DiagramRules::reduce not found"))
            for fn in fns:
                ds = free if fn == "reduce" else fn_defs(src, fn)
                if len(ds) != 1:
                    unparsed.append(desc(kind, f"fn {fn} not found"))
                    continue
                try:
                    rows.append(rd_plain(kind, fn, ds[0][0], ds[0][1], dr_row))
                except Exception as e:
                    unparsed.append(desc(f"{kind} {fn}", str(e) if isinstance(e, Unparsed) else repr(e)))
        except Exception as e:
            unparsed.append(desc(kind, repr(e)))
    try:
        src = strip_comments(read_("crates/oxidd-rules-bdd/src/complement_edge/mod.rs"))
        defs = fn_defs(src, "reduce")
        if len(defs) != 2:
            unparsed.append(desc("bcdd", f"{len(defs)} reduce functions"))
        for sig, body in defs:
            label = "DiagramRules::reduce" if "IntoIterator" in sig else "reduce"
            try:
                brows.append(rd_bcdd(label, sig, body))
            except Exception as e:
                unparsed.append(desc("bcdd " + label, str(e) if isinstance(e, Unparsed) else repr(e)))
    except Exception as e:
        unparsed.append(desc("bcdd", repr(e)))
    L = ["import OxiddModel.Generated.RulesReduce", GEN_HEADER, "namespace OxiddModel.Generated\n"]
    items = [f'⟨"{r["kind"]}", "{r["fn"]}", {r["arity"]}, {r["cond"]}, {r["ret"]}, {lean_list([str(c) for c in r["children"]])}, {lean_bool(r["delegates"])}⟩' for r in rows]
    L.append("/-- `DiagramRules::reduce` and the free `reduce…` functions of the kinds without edge tags -/")
    L.append("def reduceRows : List Rd.RedRow :=\n  [" + ",\n   ".join(items) + "]")
    L.append("/-- the two BCDD reduction functions (`complement_edge/mod.rs`) with their tag normalisation -/")
    L.append("def reduceRowsBcdd : List Rd.BcddRed :=\n  [" + ",\n   ".join(brows) + "]")
    L.append("/-- constructs of the reduction functions that the extractor does not recognise -/")
    L.append(f"def reduceUnparsed : List String := {lean_strs(unparsed)}")
    L.append("\nend OxiddModel.Generated")
    return {"SrcReduce.lean": "\n".join(L) + "\n"}


# =============================================================================================
# Part 3 (second extension): atomicity of reference-count updates, `apply_ite` prologues, the
# `gc_count` / count-cache epoch protocol, cache keys of quant / apply_quant / restrict / substitute,
# F64 normalisation.  Same rules as part 2: never exit, never skip; `…Unparsed` lists.
# =============================================================================================

def err_text(e):
    return str(e) if isinstance(e, Unparsed) else repr(e)


def lstr(s):
    """Lean string literal of a short piece of source text"""
    t = " ".join(str(s).split()).replace("\\", "/").replace('"', "'")
    return '"' + t + '"'


def call_args(src, open_paren):
    """(text between the parentheses opened at `open_paren`, index after the closing one)"""
    depth = 0
    for j in range(open_paren, len(src)):
        if src[j] in "([{":
            depth += 1
        elif src[j] in ")]}":
            depth -= 1
            if depth == 0:
                return src[open_paren + 1:j], j + 1
    raise Unparsed("unbalanced parentheses")


def impl_spans(src):
    """[(start, end, owner type, trait or '')] of all `impl` blocks"""
    out = []
    for m in re.finditer(r"(?m)^[ \t]*(?:unsafe[ \t]+)?impl\b", src):
        try:
            i = src.index("{", m.end())
        except ValueError:
            continue
        head = src[m.end():i]
        if ";" in head:
            continue
        head = re.sub(r"\bwhere\b.*", "", head, flags=re.S)
        # drop the generic parameter list directly after `impl`
        h = head.strip()
        if h.startswith("<"):
            depth = 0
            for k, c in enumerate(h):
                if c == "<":
                    depth += 1
                elif c == ">" and (k == 0 or h[k - 1] != "-"):
                    depth -= 1
                    if depth == 0:
                        h = h[k + 1:]
                        break
        parts = re.split(r"\bfor\b", h)
        ty = parts[-1].strip()
        tr = parts[0].strip() if len(parts) > 1 else ""
        name = lambda t: (re.match(r"(?:[\w:]*::)?(\w+)", t.strip()) or [None, "?"])[1]
        try:
            _, end = block_after(src, i)
        except SystemExit:
            continue
        out.append((m.start(), end, name(ty), name(tr) if tr else ""))
    return out


def fn_spans(src):
    """[(start of `fn`, end of body, name, body)] of all functions with a body"""
    out = []
    for m in re.finditer(r"\bfn\s+([A-Za-z0-9_]+)", src):
        depth, j = 0, m.end()
        while j < len(src) and not (src[j] == "{" and depth == 0) and not (src[j] == ";" and depth == 0):
            if src[j] in "([":
                depth += 1
            elif src[j] in ")]":
                depth -= 1
            j += 1
        if j < len(src) and src[j] == "{":
            try:
                body, end = block_after(src, j)
            except SystemExit:
                continue
            out.append((m.start(), end, m.group(1), body))
    return out


_FN_SPANS = {}


def fn_spans_cached(src):
    k = (len(src), hash(src))
    if k not in _FN_SPANS:
        _FN_SPANS[k] = fn_spans(src)
    return _FN_SPANS[k]


def fn_at(spans, pos):
    """innermost function whose body contains `pos`: (name, body) or ('?', '')"""
    best = None
    for st, en, name, body in spans:
        if st <= pos < en and (best is None or st > best[0]):
            best = (st, en, name, body)
    return (best[2], best[3]) if best else ("?", "")


def owner_of(spans, pos):
    best = None
    for st, en, ty, tr in spans:
        if st <= pos < en and (best is None or st > best[0]):
            best = (st, en, ty, tr)
    return best[2] if best else ""


def strip_debug_asserts(src):
    return re.sub(r"debug_assert(?:_eq|_ne)?!\s*\((?:[^()]|\((?:[^()]|\([^()]*\))*\))*\)\s*;", "", src)


AT_DIRS = [("index", "crates/oxidd-manager-index/src", ["node", "terminal_manager"]),
           ("pointer", "crates/oxidd-manager-pointer/src", ["node", "terminal_manager"])]
AT_METHODS = {"fetch_add": ".fetchAdd", "fetch_sub": ".fetchSub", "load": ".load", "store": ".store", "swap": ".swap",
              "compare_exchange": ".cas", "compare_exchange_weak": ".cas", "fetch_update": ".fetchUpdate"}
AT_ORD = r"(?:(?:std::sync::)?(?:atomic::)?Ordering::)?(Relaxed|Release|Acquire|AcqRel|SeqCst)"


def at_ordering(txt):
    m = re.fullmatch(AT_ORD, compact(txt))
    return m.group(1) if m else "param:" + compact(txt)


def at_scan(tag, src, ops, fields, inits, unparsed):
    """all uses of a field / binding called `rc` in one file"""
    src = strip_debug_asserts(strip_comments(src))
    spans = impl_spans(src)
    fspans = fn_spans(src)
    for m in re.finditer(r"\brc\b", src):
        pos, end = m.start(), m.end()
        before = src[:pos].rstrip()
        after = src[end:]
        fn, fbody = fn_at(fspans, pos)
        where = f"{tag} fn {fn}"
        is_field = before.endswith(".")
        mm = re.match(r"\s*\.\s*(\w+)\s*\(", after)
        if mm and (is_field or mm.group(1) in AT_METHODS or mm.group(1).startswith("fetch_")):
            meth = mm.group(1)
            try:
                args, aend = call_args(src, end + mm.end() - 1)
            except Unparsed as e:
                unparsed.append(desc(where, str(e)))
                continue
            parts = [a for a in split_top(args, ",") if a.strip()]
            op = AT_METHODS.get(meth, f'(.other "{meth}")')
            operand, ordering = "", ""
            if meth in ("fetch_add", "fetch_sub", "store", "swap") or (meth.startswith("fetch_") and meth != "fetch_update"):
                if len(parts) != 2:
                    unparsed.append(desc(where, "arguments of " + meth + ": " + args))
                    continue
                operand, ordering = compact(parts[0]), at_ordering(parts[1])
            elif meth == "load":
                if len(parts) != 1:
                    unparsed.append(desc(where, "arguments of load: " + args))
                    continue
                ordering = at_ordering(parts[0])
            elif meth in ("compare_exchange", "compare_exchange_weak"):
                if len(parts) != 4:
                    unparsed.append(desc(where, "arguments of " + meth + ": " + args))
                    continue
                operand = compact(parts[0]) + "->" + compact(parts[1])
                ordering = at_ordering(parts[2]) + "/" + at_ordering(parts[3])
            elif meth == "fetch_update":
                if len(parts) != 3:
                    unparsed.append(desc(where, "arguments of fetch_update: " + args))
                    continue
                operand, ordering = compact(parts[2]), at_ordering(parts[0]) + "/" + at_ordering(parts[1])
            else:
                operand = compact(args)
            aborts = bool(re.search(r"\babort\s*\(\s*\)", fbody))
            ops.append(f'⟨"{tag}", "{owner_of(spans, pos)}", "{fn}", {op}, {lstr(operand)}, "{ordering}", {lean_bool(aborts)}⟩')
            continue
        if is_field:
            unparsed.append(desc(where, "field `rc` used other than by a method call: " + src[max(0, pos - 40):end + 30]))
            continue
        mi = re.match(r"\s*:\s*([\w:]*Atomic\w+)\s*(::\s*new\s*\()?", after)
        if mi:
            ty = mi.group(1).split("::")[-1]
            if mi.group(2):
                try:
                    args, _ = call_args(src, end + mi.end() - 1)
                    inits.append(f'("{tag}", "{owner_of(spans, pos)}", "{fn}", {lstr(compact(args))})')
                except Unparsed as e:
                    unparsed.append(desc(where, str(e)))
            else:
                fields.append(f'("{tag}", "{ty}")')
            continue
        if re.match(r"\s*:", after) and not re.match(r"\s*::", after):
            unparsed.append(desc(where, "`rc:` not followed by an atomic type: " + src[pos:end + 40]))
            continue
        # a local value called `rc` (e.g. `let rc = node.load_rc(Acquire)`): not a counter


def at_get_edge(src, unparsed):
    """`DynamicTerminalManager::get_edge`: what the hit arm and the insert arm do with the counter"""
    src = strip_comments(src)
    rows = []
    bodies = [b for b in fn_bodies(src, "get_edge") if "find_or_find_insert_slot" in b]
    if len(bodies) != 1:
        unparsed.append(desc("dynamic.rs", "fn get_edge with find_or_find_insert_slot not found"))
        return rows
    body = bodies[0]
    m = re.search(r"let\s+id\s*=\s*match\s+state\s*\.\s*unique_table\s*\.\s*find_or_find_insert_slot\s*\(", body)
    if not m:
        unparsed.append(desc("get_edge", "`let id = match state.unique_table.find_or_find_insert_slot(..)` not found"))
        return rows
    _, aend = call_args(body, m.end() - 1)
    arms_body, _ = block_after(body, aend)
    for pat, res in split_arms(arms_body):
        k = re.sub(r"\(.*", "", compact(pat))
        if k not in ("Ok", "Err"):
            unparsed.append(desc("get_edge arm", pat))
            continue
        acts = []
        for mm in re.finditer(r"(?:self\s*\.\s*)?\bretain\s*\(|rc\s*:\s*Atomic\w+::new\(\s*(\w+)\s*\)|\brelease\s*\(", res):
            t = mm.group(0)
            if "Atomic" in t:
                acts.append("init " + mm.group(1))
            elif "retain" in t:
                acts.append("retain")
            else:
                acts.append("release")
        rows.append(f'("{k}", {lean_strs(acts)})')
    return rows


def gen_atomicity(read_):
    ops, fields, inits, unparsed, ge = [], [], [], [], []
    try:
        files = []
        for short, root, subs in AT_DIRS:
            for sub in subs:
                d = os.path.join(REPO, root, sub)
                for name in sorted(os.listdir(d)) if os.path.isdir(d) else []:
                    if name.endswith(".rs"):
                        files.append((f"{short}:{sub}/{name[:-3]}", f"{root}/{sub}/{name}"))
                if not os.path.isdir(d):
                    unparsed.append(desc(short, "directory " + sub + " not found"))
        files.append(("arcslab:lib", "crates/arcslab/src/lib.rs"))
        for tag, path in files:
            try:
                at_scan(tag, read_(path), ops, fields, inits, unparsed)
            except (Exception, SystemExit) as e:
                unparsed.append(desc(tag, err_text(e)))
        try:
            ge = at_get_edge(read_("crates/oxidd-manager-index/src/terminal_manager/dynamic.rs"), unparsed)
        except (Exception, SystemExit) as e:
            unparsed.append(desc("get_edge", err_text(e)))
    except (Exception, SystemExit) as e:  # `die()` of part 1's helpers must not end the run here
        unparsed.append(desc("extractor exception", repr(e)))
    L = ["import OxiddModel.Generated.RulesAtomicity", GEN_HEADER, "namespace OxiddModel.Generated\n"]
    L.append("/-- every atomic operation on a reference counter (a field `rc`) in the node / terminal-manager modules of both managers and in `arcslab`: file, `impl` owner, function, operation, operand, ordering, does the function `abort()` -/")
    L.append("def rcOps : List At.RcOp :=\n  [" + ",\n   ".join(ops) + "]")
    L.append("/-- the declarations `rc: Atomic…` (file, type) -/")
    L.append("def rcFields : List (String × String) := " + lean_list(fields))
    L.append("/-- the initialisations `rc: Atomic…::new(k)` (file, owner, function, k) -/")
    L.append("def rcInits : List (String × String × String × String) := " + lean_list(inits))
    L.append("/-- `DynamicTerminalManager::get_edge`: arm of the table lookup ↦ what it does with the counter -/")
    L.append("def getEdgeArms : List (String × List String) := " + lean_list(ge))
    L.append("/-- uses of a reference counter that the extractor does not recognise -/")
    L.append(f"def atomicityUnparsed : List String := {lean_strs(unparsed)}")
    L.append("\nend OxiddModel.Generated")
    return {"SrcAtomicity.lean": "\n".join(L) + "\n"}


# ---- `apply_ite` prologues (simple BDD, BCDD) ------------------------------------------------------

IT_OPS = {"And": "and", "Or": "or", "Nand": "nand", "Nor": "nor", "Xor": "xor", "Equiv": "equiv", "Imp": "imp", "ImpStrict": "impStrict"}
IT_V = ("f", "g", "h")


def protect_turbofish(s):
    """replace the commas inside `::<..>` by \x00 so that `split_arms` / `split_top` do not split there"""
    out, i = [], 0
    while i < len(s):
        if s.startswith("::<", i):
            depth, j = 0, i + 2
            while j < len(s):
                if s[j] == "<":
                    depth += 1
                elif s[j] == ">" and s[j - 1] != "-" and s[j - 1] != "=":
                    depth -= 1
                    if depth == 0:
                        break
                j += 1
            out.append(s[i:j + 1].replace(",", "\x00"))
            i = j + 1
        else:
            out.append(s[i])
            i += 1
    return "".join(out)


def it_split_arms(body):
    return [(p.replace("\x00", ","), r.replace("\x00", ",")) for p, r in split_arms(protect_turbofish(body))]


def it_operand(txt):
    """`f`, `f.borrowed()`, `&f`, `not(&f)` -> Lean IExpr"""
    c = compact(txt)
    m = re.fullmatch(r"not\(&?(f|g|h)\)", c)
    if m:
        return f"(.neg (.opnd .{m.group(1)}))"
    m = re.fullmatch(r"&?\*?(f|g|h)(?:\.borrowed\(\))?", c)
    if m:
        return f"(.opnd .{m.group(1)})"
    raise Unparsed("operand " + txt)


def it_test(cond, env):
    """a test inside a shortcut -> (atoms if true, atoms if false); atoms are tuples"""
    c = compact(strip_outer(cond))
    m = re.fullmatch(r"(.+?)(==|!=)(.+)", c)
    if not m:
        raise Unparsed("test " + cond)
    a, rel, b = m.group(1), m.group(2), m.group(3)
    pos = rel == "=="
    mt = re.fullmatch(r"(f|g|h)\.tag\(\)", a), re.fullmatch(r"(f|g|h)\.tag\(\)", b)
    if mt[0] and mt[1]:
        if env.get("same") != frozenset((mt[0].group(1), mt[1].group(1))):
            raise Unparsed("tags compared outside a same-node test: " + cond)
        return ([("tags", pos)], [("tags", not pos)])
    if mt[1] and not mt[0]:
        a, b, mt = b, a, (mt[1], None)
    if mt[0]:
        x, tg = mt[0].group(1), bc_tagname(b)
        if tg is None or x not in env.get("terms", ()):
            raise Unparsed("tag test on an operand not known to be the terminal: " + cond)
        v = (tg == "None") == pos
        return ([("term", x, v)], [("term", x, not v)])
    # `*t.borrow() == True`
    for l, r in ((a, b), (b, a)):
        mb = re.fullmatch(r"\*?(\w+)\.borrow\(\)", l)
        mv = re.fullmatch(r"(?:BDDTerminal::)?(True|False)", r)
        if mb and mv and mb.group(1) in env.get("binders", {}):
            x = env["binders"][mb.group(1)]
            v = (mv.group(1) == "True") == pos
            return ([("term", x, v)], [("term", x, not v)])
    raise Unparsed("test " + cond)


def it_cases(txt, env, leaf=None):
    """value of a returned expression -> [(atoms, Lean IExpr)]"""
    t = txt.strip()
    t = strip_outer(t, "{", "}").strip().rstrip(";").strip()
    t = re.sub(r"^return\b", "", t).strip()
    if t.endswith("?"):
        return it_cases(t[:-1], env, leaf)
    m = re.match(r"Ok\s*\(", t)
    if m:
        inner, end = call_args(t, m.end() - 1)
        if not t[end:].strip():
            return it_cases(inner, env, leaf)
    m = re.match(r"if\b", t)
    if m:
        i = t.index("{")
        th, end = block_after(t, i)
        rest = t[end:].strip()
        if not rest.startswith("else"):
            raise Unparsed("if without else: " + t)
        ta, fa = it_test(t[m.end():i], env)
        out = [(ta + a, e) for a, e in it_cases(th, env, leaf)] + [(fa + a, e) for a, e in it_cases(rest[4:], env, leaf)]
        return out
    m = re.match(r"match\s+\*?(\w+)\.borrow\(\)\s*(?=\{)", t)
    if m:
        arms, end = block_after(t, m.end())
        if t[end:].strip() or m.group(1) not in env.get("binders", {}):
            raise Unparsed("match " + t)
        x = env["binders"][m.group(1)]
        out, seen = [], set()
        for pat, res in it_split_arms(arms):
            k = re.sub(r"^BDDTerminal::", "", compact(pat))
            if k not in ("True", "False") or k in seen:
                raise Unparsed("terminal arm " + pat)
            seen.add(k)
            out += [([("term", x, k == "True")] + a, e) for a, e in it_cases(res, env, leaf)]
        if seen != {"True", "False"}:
            raise Unparsed("terminal match is not total: " + t)
        return out
    c = compact(t)
    m = re.match(r"manager\.clone_edge\(", c)
    if m:
        inner, end = call_args(t, t.index("("))
        if t[end:].strip():
            raise Unparsed("expression " + t)
        inner = re.sub(r"^\s*&\s*\*?", "", inner.strip())
        if re.match(r"if\b", inner):
            return it_cases(inner, env, leaf=True)
        return [([], it_operand(inner))]
    m = re.match(r"not_owned\s*\(", t)
    if m:
        inner, end = call_args(t, m.end() - 1)
        if t[end:].strip():
            raise Unparsed("expression " + t)
        return [(a, f"(.neg {e})") for a, e in it_cases(inner, env, leaf)]
    m = re.match(r"apply_not\s*\(", t)
    if m:
        inner, end = call_args(t, m.end() - 1)
        args = [a for a in split_top(inner, ",") if a.strip()]
        if t[end:].strip() or len(args) != 3 or compact(args[0]) != "manager" or compact(args[1]) != "rec":
            raise Unparsed("apply_not call " + t)
        return [([], f"(.neg {it_operand(args[2])})")]
    m = re.match(r"apply_bin\s*::\s*<[^>]*?(\w+Op)::(\w+)\s+as\s+u8\s*\}?\s*,?\s*>\s*\(", t) or re.match(r"apply_(and)()\s*\(", t)
    if m:
        op = "and" if m.group(1) == "and" else IT_OPS.get(m.group(2))
        inner, end = call_args(t, m.end() - 1)
        args = [a for a in split_top(inner, ",") if a.strip()]
        if op is None or t[end:].strip() or len(args) != 4 or compact(args[0]) != "manager" or compact(args[1]) != "rec":
            raise Unparsed("apply call " + t)
        return [([], f"(.bin .{op} {it_operand(args[2])} {it_operand(args[3])})")]
    if leaf and c in IT_V:
        return [([], f"(.opnd .{c})")]
    raise Unparsed("expression " + t)


def it_returns(txt):
    """does every path through this block end in a `return`?"""
    t = strip_outer(txt.strip(), "{", "}").strip().rstrip(";").strip()
    if re.match(r"return\b", t):
        return True
    m = re.match(r"if\b", t)
    if m and "{" in t:
        th, end = block_after(t, t.index("{"))
        rest = t[end:].strip()
        return rest.startswith("else") and it_returns(th) and it_returns(rest[4:])
    m = re.match(r"match\b[^{]*(?=\{)", t)
    if m:
        arms, end = block_after(t, m.end())
        return not t[end:].strip() and all(it_returns(r) for _, r in it_split_arms(arms))
    return False


def it_atoms_lean(atoms, same=None, terms=(), inners=()):
    """canonical Lean list of the atoms of one row"""
    out = []
    tags = [a[1] for a in atoms if a[0] == "tags"]
    if same:
        x, y = [v for v in IT_V if v in same]
        if same_is_node(same):
            if len(tags) != 1:
                raise Unparsed("same-node shortcut without exactly one tag comparison")
            out.append((IT_V.index(x), f".sameNode .{x} .{y} {lean_bool(tags[0])}"))
        else:
            if tags:
                raise Unparsed("tag comparison on plain edges")
            out.append((IT_V.index(x), f".same .{x} .{y}"))
    elif tags:
        raise Unparsed("tag comparison outside a same-node test")
    pinned = {}
    for a in atoms:
        if a[0] == "term":
            if a[1] in pinned and pinned[a[1]] != a[2]:
                raise Unparsed("contradictory tests on " + a[1])
            pinned[a[1]] = a[2]
    for x in IT_V:
        if x in pinned:
            out.append((IT_V.index(x), f".term .{x} {lean_bool(pinned[x])}"))
        elif x in terms:
            out.append((IT_V.index(x), f".termAny .{x}"))
        elif x in inners:
            out.append((IT_V.index(x), f".inner .{x}"))
    return lean_list([s for _, s in sorted(out, key=lambda p: p[0])])


_IT_NODE_SAME = set()


def same_is_node(same):
    return same in _IT_NODE_SAME


def it_sort_key(atoms):
    """sub-cases of one source construct are emitted `true` before `false` whatever the source order"""
    return tuple((0 if a[-1] else 1) for a in atoms if a[0] in ("term", "tags"))


def it_prologue(src, enum, kind):
    """`apply_ite` -> (rows, facts dict).  rows: Lean `It.Row` terms in source order"""
    bodies = [b for b in fn_bodies(src, "apply_ite")]
    if len(bodies) != 1:
        raise Unparsed("fn apply_ite not found")
    stmts = bc_stmts(bodies[0])
    rows, untag = [], {}
    seen_f_match = seen_gh_match = False
    k = 0
    _IT_NODE_SAME.clear()
    while k < len(stmts):
        st = stmts[k]
        c = compact(st)
        if re.match(r"use\b", st) or re.match(r"stat!", st) or re.match(r"if\s+rec\.should_switch_to_sequential\(\)", st):
            k += 1
            continue
        m = re.fullmatch(r"let(\w+)=(f|g|h)\.with_tag\((?:EdgeTag::)?None\)", c)
        if m:
            untag[m.group(1)] = m.group(2)
            k += 1
            continue
        m = re.match(r"if\s+\*?(\w+)\s*==\s*\*?(\w+)\s*(?=\{)", st)
        if m:
            a, b = m.group(1), m.group(2)
            blk, end = block_after(st, m.end())
            if st[end:].strip():
                raise Unparsed("shortcut with else: " + st)
            if not it_returns(blk):
                raise Unparsed("shortcut does not return: " + blk)
            if a in IT_V and b in IT_V:
                same = frozenset((a, b))
            elif a in untag and b in untag:
                same = frozenset((untag[a], untag[b]))
                _IT_NODE_SAME.add(same)
            else:
                raise Unparsed("shortcut test " + st)
            if len(same) != 2:
                raise Unparsed("shortcut test " + st)
            cases = it_cases(blk, {"same": same})
            for atoms, e in sorted(cases, key=lambda p: it_sort_key(p[0])):
                rows.append(f"⟨{it_atoms_lean(atoms, same=same)}, {e}⟩")
            k += 1
            continue
        m = re.match(r"let\s+fnode\s*=\s*match\s+manager\.get_node\(&f\)\s*(?=\{)", st)
        if m:
            arms, end = block_after(st, m.end())
            if st[end:].strip():
                raise Unparsed("after the match on f: " + st[end:])
            kinds = set()
            for pat, res in it_split_arms(arms):
                p = re.sub(r"Node::", "", compact(pat))
                mi = re.fullmatch(r"Inner\((\w+)\)", p)
                mt = re.fullmatch(r"Terminal\((\w+)\)", p)
                if mi:
                    if compact(res) != mi.group(1):
                        raise Unparsed("inner arm of the match on f: " + res)
                    kinds.add("inner")
                elif mt:
                    env = {"terms": ("f",), "binders": {} if mt.group(1) == "_" else {mt.group(1): "f"}}
                    if not it_returns(res):
                        raise Unparsed("terminal arm of the match on f does not return: " + res)
                    for atoms, e in sorted(it_cases(res, env), key=lambda p: it_sort_key(p[0])):
                        rows.append(f"⟨{it_atoms_lean(atoms, terms=('f',))}, {e}⟩")
                    kinds.add("term")
                else:
                    raise Unparsed("pattern of the match on f: " + pat)
            if kinds != {"inner", "term"}:
                raise Unparsed("match on f needs an Inner and a Terminal arm")
            seen_f_match = True
            k += 1
            continue
        m = re.match(r"let\s*\(\s*gnode\s*,\s*hnode\s*\)\s*=\s*match\s*\(\s*manager\.get_node\(&g\)\s*,\s*manager\.get_node\(&h\)\s*\)\s*(?=\{)", st)
        if m:
            if not seen_f_match:
                raise Unparsed("match on (g, h) before the match on f")
            arms, end = block_after(st, m.end())
            if st[end:].strip():
                raise Unparsed("after the match on (g, h): " + st[end:])
            for pat, res in it_split_arms(arms):
                p = re.sub(r"Node::", "", compact(pat))
                mp = re.fullmatch(r"\((\w+(?:\(\w+\))?),(\w+(?:\(\w+\))?)\)", p)
                if not mp:
                    raise Unparsed("pattern of the match on (g, h): " + pat)
                terms, inners, binders, names = [], [], {}, []
                for x, q in (("g", mp.group(1)), ("h", mp.group(2))):
                    mi, mt = re.fullmatch(r"Inner\((\w+)\)", q), re.fullmatch(r"Terminal\((\w+)\)", q)
                    if mi:
                        inners.append(x)
                        names.append(mi.group(1))
                    elif mt:
                        terms.append(x)
                        if mt.group(1) != "_":
                            binders[mt.group(1)] = x
                    elif re.fullmatch(r"_\w*", q):
                        pass  # no constraint (the earlier arms decide)
                    else:
                        raise Unparsed("pattern of the match on (g, h): " + pat)
                if len(inners) == 2:
                    if compact(res) != f"({names[0]},{names[1]})":
                        raise Unparsed("Inner/Inner arm: " + res)
                    seen_gh_match = True
                    continue
                if not it_returns(res):
                    raise Unparsed("arm of the match on (g, h) does not return: " + res)
                env = {"terms": tuple(terms), "binders": binders}
                for atoms, e in sorted(it_cases(res, env), key=lambda p: it_sort_key(p[0])):
                    rows.append(f"⟨{it_atoms_lean(atoms, terms=terms, inners=inners)}, {e}⟩")
            if not seen_gh_match:
                raise Unparsed("match on (g, h) has no Inner/Inner arm")
            k += 1
            continue
        break
    if not seen_gh_match:
        raise Unparsed("prologue ends before the match on (g, h): " + (stmts[k] if k < len(stmts) else "end"))
    rest = stmts[k:]
    text = " ; ".join(rest)
    facts = {}
    key = r"&\[\s*(\w+)(?:\.borrowed\(\))?\s*,\s*(\w+)(?:\.borrowed\(\))?\s*,\s*(\w+)(?:\.borrowed\(\))?\s*,?\s*\]"
    mg = re.search(r"\.apply_cache\(\)\s*\.get\(\s*manager\s*,\s*(?:" + enum + r"::)?(\w+)\s*,\s*" + key + r"\s*,?\s*\)", text)
    ma = re.search(r"\.apply_cache\(\)\s*\.add\(\s*manager\s*,\s*(?:" + enum + r"::)?(\w+)\s*,\s*" + key + r"\s*,\s*(\w+)\.borrowed\(\)\s*,?\s*\)", text)
    if not mg or not ma:
        raise Unparsed("apply cache get/add of apply_ite")
    facts["getTag"], facts["getKey"] = mg.group(1), [mg.group(2), mg.group(3), mg.group(4)]
    facts["addTag"], facts["addKey"] = ma.group(1), [ma.group(2), ma.group(3), ma.group(4)]
    ctext = compact(text)
    # level = min(min(flevel, glevel), hlevel)   (any nesting of the three)
    lv = {}
    for x in IT_V:
        if not re.search(r"let" + x + r"level=" + x + r"node\.level\(\)", ctext):
            raise Unparsed(x + "level binding")
    m = re.search(r"letlevel=([^;]*);", ctext)
    if not m:
        raise Unparsed("level binding")
    ml = m.group(1).replace("std::cmp::", "").replace("cmp::", "")
    names = re.findall(r"(f|g|h)level", ml)
    if sorted(names) != ["f", "g", "h"] or re.sub(r"[fgh]level", "x", ml) not in ("min(min(x,x),x)", "min(x,min(x,x))", "x.min(x).min(x)"):
        raise Unparsed("level expression " + m.group(1))
    facts["level"] = "min3"
    cof = []
    for x in IT_V:
        m = re.search(r"let\(" + x + "t," + x + r"e\)=if" + x + r"level==level\{(collect_children\(" + x + r"node\)|collect_cofactors\(" + x + r"\.tag\(\)," + x + r"node\))\}else\{\(" + x + r"\.borrowed\(\)," + x + r"\.borrowed\(\)\)\}", ctext)
        if not m:
            raise Unparsed("cofactors of " + x)
        cof.append(x)
    facts["cofactors"] = cof
    m = re.search(r"let\((\w+),(\w+)\)=rec\.ternary\(apply_ite,manager,\((\w+),(\w+),(\w+)\),\((\w+),(\w+),(\w+)\),?\)\?", ctext)
    if not m:
        raise Unparsed("rec.ternary call")
    facts["ternary"] = [m.group(i) for i in range(3, 9)]
    mr = re.search(r"let(\w+)=reduce\(manager,level,(\w+)\.into_edge\(\),(\w+)\.into_edge\(\)," + r"(?:" + enum + r"::)?(\w+)\)\?", ctext)
    if not mr or (mr.group(2), mr.group(3)) != (m.group(1), m.group(2)):
        raise Unparsed("reduce call")
    facts["reduce"] = ["then", "else"]
    facts["addValue"] = "result" if ma.group(5) == mr.group(1) else ma.group(5)
    return rows, facts


def gen_ite(read_):
    out = {}
    unparsed = []
    for kind, path, enum in (("bdd", "crates/oxidd-rules-bdd/src/simple/apply_rec.rs", "BDDOp"),
                             ("bcdd", "crates/oxidd-rules-bdd/src/complement_edge/apply_rec.rs", "BCDDOp")):
        try:
            rows, facts = it_prologue(strip_debug_asserts(strip_comments(read_(path))), enum, kind)
        except (Exception, SystemExit) as e:
            rows, facts = [], {}
            unparsed.append(desc(f"apply_ite ({kind})", err_text(e)))
        out[kind] = (rows, facts)
    L = ["import OxiddModel.Generated.RulesIte", GEN_HEADER, "namespace OxiddModel.Generated\n"]
    for kind, file in (("bdd", "simple/apply_rec.rs"), ("bcdd", "complement_edge/apply_rec.rs")):
        rows, facts = out[kind]
        L.append(f"/-- `apply_ite` (`oxidd-rules-bdd/src/{file}`): the shortcuts tested before the cache lookup, in source order (sub-cases of one test: `true` first) -/")
        L.append(f"def iteRows_{kind} : List It.Row :=\n  [" + ",\n   ".join(rows) + "]")
        fl = []
        for name in ("getTag", "getKey", "addTag", "addKey", "addValue", "level", "cofactors", "ternary", "reduce"):
            if name in facts:
                v = facts[name]
                fl.append(f'("{name}", {lean_strs(v if isinstance(v, list) else [v])})')
        L.append(f"/-- … and what follows: cache tag and key of the lookup and of the insertion, the level, the cofactors, the recursive calls, the node -/")
        L.append(f"def iteTail_{kind} : List (String × List String) :=\n  [" + ",\n   ".join(fl) + "]")
    L.append("/-- constructs of the `apply_ite` functions that the extractor does not recognise -/")
    L.append(f"def iteUnparsed : List String := {lean_strs(unparsed)}")
    L.append("\nend OxiddModel.Generated")
    return {"SrcIte.lean": "\n".join(L) + "\n"}


# ---- `gc_count` / count-cache epoch protocol -------------------------------------------------------

def depth_at(body, pos):
    d = 0
    for c in body[:pos]:
        if c == "{":
            d += 1
        elif c == "}":
            d -= 1
    return d


EP_INC = r"(?:self\s*\.\s*gc_count\s*\.\s*fetch_add\(\s*(\d+)\s*,\s*" + AT_ORD + r"\s*\)|\*\s*self\s*\.\s*gc_count\s*\.\s*get_mut\(\)\s*\+=\s*(\d+))"


def ep_incs(body, lo, hi, where, unparsed):
    """increments of `gc_count` in `body`, positioned relative to the span [lo, hi)"""
    out = []
    for m in re.finditer(r"\bgc_count\b", body):
        mm = re.search(EP_INC, body[max(0, m.start() - 12):m.end() + 120])
        if not mm:
            unparsed.append(desc(where, "use of gc_count that is not an increment by a literal: " + body[max(0, m.start() - 20):m.end() + 30]))
            continue
        if depth_at(body, m.start()) != 0:
            unparsed.append(desc(where, "conditional increment of gc_count"))
            continue
        posn = ".before" if m.start() < lo else (".after" if m.start() >= hi else ".inside")
        out.append(f"⟨{posn}, {mm.group(1) or mm.group(3)}⟩")
    return out


def ep_manager(src, tag, unparsed):
    """-> Lean term of type Ep.MgrFacts"""
    src = re.sub(r"#!?\[[^\]]*\]", "", strip_comments(src))
    gcs = [(sig, b) for sig, b in fn_defs(src, "gc") if "gc_ongoing" in b]
    res = {"gc": [], "gcShared": False, "tryLockFirst": False, "reorder": [], "reorderExclusive": False, "getter": ""}
    if len(gcs) != 1:
        unparsed.append(desc(tag, f"Manager::gc not found ({len(gcs)} candidates)"))
    else:
        sig, body = gcs[0]
        res["gcShared"] = bool(re.search(r"\(\s*&self\s*\)", sig))
        ml = re.search(r"for\s+\w+\s+in\s+&?self\s*\.\s*unique_table\s*(?=\{)", body)
        if not ml or depth_at(body, ml.start()) != 0 or not re.search(r"\.\s*gc\s*\(", block_after(body, ml.end())[0]):
            unparsed.append(desc(tag + " gc", "sweep loop `for level in &self.unique_table { .. level.gc(..) .. }` not found"))
        else:
            _, lend = block_after(body, ml.end())
            res["gc"] = ep_incs(body, ml.start(), lend, tag + " gc", unparsed)
            mt = re.search(r"if\s*!\s*self\s*\.\s*gc_ongoing\s*\.\s*try_lock\(\)\s*(?=\{)", body)
            if mt:
                blk, tend = block_after(body, mt.end())
                first_inc = re.search(r"\bgc_count\b", body)
                res["tryLockFirst"] = bool(re.search(r"\breturn\b", blk)) and (first_inc is None or first_inc.start() > tend)
    ros = fn_defs(src, "reorder")
    ros = [(sig, b) for sig, b in ros if "reorder_gc_prepared" in b]
    if len(ros) != 1:
        unparsed.append(desc(tag, f"Manager::reorder not found ({len(ros)} candidates)"))
    else:
        sig, body = ros[0]
        res["reorderExclusive"] = bool(re.search(r"\(\s*&mut\s+self\b", sig))
        calls = [m for m in re.finditer(r"\bf\s*\(\s*self\s*\)", body) if depth_at(body, m.start()) == 0]
        if len(calls) != 1:
            unparsed.append(desc(tag + " reorder", f"{len(calls)} top-level calls `f(self)`"))
        else:
            res["reorder"] = ep_incs(body, calls[0].start(), calls[0].end(), tag + " reorder", unparsed)
    gs = [b for b in fn_bodies(src, "gc_count")]
    if len(gs) == 1 and re.fullmatch(r"self\.gc_count\.load\(" + AT_ORD + r"\)", compact(gs[0])):
        res["getter"] = "load"
    else:
        unparsed.append(desc(tag, "fn gc_count is not `self.gc_count.load(_)`"))
    # any other function touching the counter?
    for m in re.finditer(r"\bgc_count\s*\.", src):
        name, _ = fn_at(fn_spans_cached(src), m.start())
        if name not in ("gc", "reorder", "gc_count"):
            unparsed.append(desc(tag, "gc_count used in fn " + name))
    mi = re.findall(r"\bgc_count\s*:\s*AtomicU64::new\(\s*(\d+)\s*\)", src)
    res["init"] = mi[0] if len(mi) == 1 else "?"
    if len(mi) != 1:
        unparsed.append(desc(tag, f"{len(mi)} initialisations of gc_count"))
    return (f"⟨{lean_list(res['gc'])}, {lean_bool(res['gcShared'])}, {lean_bool(res['tryLockFirst'])}, "
            f"{lean_list(res['reorder'])}, {lean_bool(res['reorderExclusive'])}, \"{res['getter']}\", {res['init'] if res['init'].isdigit() else 99}⟩")


def ep_clear(src, unparsed):
    """`SatCountCache::clear_if_invalid` -> Lean term of type Ep.ClearFacts; the constructors' initial fields"""
    src = strip_comments(src)
    bodies = fn_bodies(src, "clear_if_invalid")
    if len(bodies) != 1:
        raise Unparsed("fn clear_if_invalid not found")
    stmts = bc_stmts(bodies[0])
    if len(stmts) != 2:
        raise Unparsed("clear_if_invalid: expected `let epoch = ..; if .. { .. }`, found " + " ; ".join(stmts))
    m = re.fullmatch(r"let(\w+)=manager\.gc_count\(\)", compact(stmts[0]))
    if not m:
        raise Unparsed("epoch source " + stmts[0])
    ev = m.group(1)
    mi = re.match(r"if\s+(.*?)\s*(?=\{)", stmts[1], flags=re.S)
    if not mi:
        raise Unparsed("condition " + stmts[1])
    blk, end = block_after(stmts[1], mi.end())
    if stmts[1][end:].strip():
        raise Unparsed("clear_if_invalid has an else part")
    cond = strip_outer(mi.group(1))
    ors, ands = split_top(cond, "||"), split_top(cond, "&&")
    if len(ands) > 1 and len(ors) > 1:
        raise Unparsed("mixed condition " + cond)
    conn, parts = (".all", ands) if len(ands) > 1 else (".any", ors)
    tests = set()
    for p in parts:
        c = compact(strip_outer(p))
        mm = re.fullmatch(r"(\w+(?:\.\w+)?)(!=|==)(\w+(?:\.\w+)?)", c)
        if not mm:
            raise Unparsed("test " + p)
        a, rel, b = mm.group(1), mm.group(2), mm.group(3)
        pair = {a, b}
        if pair == {ev, "self.epoch"}:
            f = "epoch"
        elif pair == {"vars", "self.vars"}:
            f = "vars"
        else:
            raise Unparsed("test " + p)
        tests.add(f".{'ne' if rel == '!=' else 'eq'} .{f}")
    acts = set()
    for st in bc_stmts(blk):
        c = compact(st)
        if c == f"self.epoch={ev}":
            acts.add(".setEpoch")
        elif c == "self.vars=vars":
            acts.add(".setVars")
        elif c == "self.map.clear()":
            acts.add(".clearMap")
        else:
            raise Unparsed("action " + st)
    order = [".ne .epoch", ".eq .epoch", ".ne .vars", ".eq .vars"]
    aorder = [".setEpoch", ".setVars", ".clearMap"]
    facts = f"⟨{conn}, {lean_list(['(' + t + ')' for t in order if t in tests])}, {lean_list([a for a in aorder if a in acts])}⟩"
    inits = []
    for fn in ("default", "with_hasher"):
        for sig, body in fn_defs(src, fn):
            if "epoch" not in body:
                continue
            fields = {}
            for mf in re.finditer(r"\b(vars|epoch|cache_all)\s*:\s*(\w+)", body):
                fields[mf.group(1)] = mf.group(2)
            inits.append(f'("{fn}", "{fields.get("vars", "?")}", "{fields.get("epoch", "?")}", "{fields.get("cache_all", "?")}")')
    return facts, inits


def gen_epoch(read_):
    unparsed, mgrs, cf, inits = [], [], "⟨.any, [], []⟩", []
    for tag, path in (("index", "crates/oxidd-manager-index/src/manager.rs"), ("pointer", "crates/oxidd-manager-pointer/src/manager.rs")):
        try:
            mgrs.append(f'("{tag}", {ep_manager(read_(path), tag, unparsed)})')
        except (Exception, SystemExit) as e:
            unparsed.append(desc(tag + " manager", err_text(e)))
    try:
        cf, inits = ep_clear(read_("crates/oxidd-core/src/util/mod.rs"), unparsed)
    except (Exception, SystemExit) as e:
        unparsed.append(desc("SatCountCache", err_text(e)))
    L = ["import OxiddModel.Generated.RulesEpoch", GEN_HEADER, "namespace OxiddModel.Generated\n"]
    L.append("/-- `Manager::gc` / `Manager::reorder` / `Manager::gc_count` of both managers: the increments of `gc_count` (position relative to the sweep of the unique table resp. to the reordering closure `f(self)`, amount), `gc` takes `&self`, the failed `try_lock` returns before any increment, `reorder` takes `&mut self`, the getter -/")
    L.append("def epochManagers : List (String × Ep.MgrFacts) :=\n  [" + ",\n   ".join(mgrs) + "]")
    L.append("/-- `SatCountCache::clear_if_invalid` (`oxidd-core/src/util/mod.rs`): connective, tests (canonical order), actions (canonical order) -/")
    L.append(f"def clearIfInvalidFacts : Ep.ClearFacts := {cf}")
    L.append("/-- `SatCountCache::default` / `with_hasher`: (function, vars, epoch, cache_all) -/")
    L.append("def satCountCacheInits : List (String × String × String × String) := " + lean_list(inits))
    L.append("/-- constructs of the epoch protocol that the extractor does not recognise -/")
    L.append(f"def epochUnparsed : List String := {lean_strs(unparsed)}")
    L.append("\nend OxiddModel.Generated")
    return {"SrcEpoch.lean": "\n".join(L) + "\n"}


# ---- cache keys of quant / apply_quant / restrict / substitute (simple BDD rules) --------------------

KY_OPS = {"And": ".and", "Or": ".or", "Nand": ".nand", "Nor": ".nor", "Xor": ".xor", "Equiv": ".equiv", "Imp": ".imp", "ImpStrict": ".impStrict"}


def ky_opd(txt):
    c = re.sub(r"\.borrowed\(\)$", "", compact(txt)).lstrip("&")
    return {"f": ".f", "g": ".g", "h": ".h", "vars": ".vars"}.get(c, f"(.other {lstr(c)})")


def ky_num(txt):
    c = compact(txt)
    return ".cacheId" if c == "cache_id" else f"(.other {lstr(c)})"


def ky_slice(txt):
    """`&[a, b]` -> [a, b]"""
    c = txt.strip()
    m = re.fullmatch(r"&\s*\[(.*)\]", c, flags=re.S)
    if not m:
        raise Unparsed("slice " + txt)
    return [a for a in split_top(m.group(1), ",") if a.strip()]


def ky_tag(txt, fbody):
    c = compact(txt)
    m = re.fullmatch(r"BDDOp::(\w+)", c)
    if m:
        return f"(.lit \"{m.group(1)}\")"
    if re.fullmatch(r"\w+", c):
        mb = re.search(r"let\s+" + c + r"\s*=\s*", fbody)
        if mb:
            rest = fbody[mb.end():]
            if re.match(r"match\s*\(\s*\)\s*\{", rest) and "Q ==" in rest[:200]:
                return ".quantVar"
            if re.match(r"const\s*\{\s*BDDOp::from_apply_quant\(\s*Q\s*,\s*OP\s*\)\s*\}", rest):
                return ".applyQuantVar"
            if re.match(r"(?:const\s*\{\s*)?BDDOp::from_u8\(\s*OP\s*\)|match\s*\(\s*\)\s*\{", rest) and "OP ==" in rest[:200] or re.match(r"(?:const\s*\{\s*)?BDDOp::from_u8\(\s*OP\s*\)", rest):
                return ".opParam"
    return f"(.other {lstr(c)})"


def ky_rows(src, unparsed):
    """all apply-cache accesses of `simple/apply_rec.rs` -> [Lean KeyRow terms], pops"""
    spans = fn_spans(src)
    outer = [s for s in spans if not any(o[0] < s[0] and s[1] <= o[1] for o in spans)]
    rows, pops = [], []
    for m in re.finditer(r"\.\s*apply_cache\(\)\s*\.\s*(\w+)\s*\(", src):
        fn, fbody, fstart = "?", "", 0
        for st, en, name, body in outer:
            if st <= m.start() < en:
                fn, fbody, fstart = name, body, st
        meth = m.group(1)
        where = f"{fn}: apply_cache().{meth}"
        try:
            args, _end = call_args(src, m.end() - 1)
            parts = [a for a in split_top(args, ",") if a.strip()]
            if meth in ("get", "add"):
                if len(parts) != (3 if meth == "get" else 4) or compact(parts[0]) != "manager":
                    raise Unparsed("arguments " + args)
                edges, nums = ky_slice(parts[2]), []
                value = ""
                if meth == "add":
                    mv = re.fullmatch(r"(\w+)\.borrowed\(\)", compact(parts[3]))
                    if not mv:
                        raise Unparsed("value " + parts[3])
                    value = mv.group(1)
            elif meth in ("get_extended", "add_extended"):
                if len(parts) != (3 if meth == "get_extended" else 4) or compact(parts[0]) != "manager":
                    raise Unparsed("arguments " + args)
                kp = [a for a in split_top(strip_outer(parts[2]), ",") if a.strip()]
                if len(kp) != 2:
                    raise Unparsed("extended key " + parts[2])
                edges, nums = ky_slice(kp[0]), ky_slice(kp[1])
                value = ""
                if meth == "add_extended":
                    vp = [a for a in split_top(strip_outer(parts[3]), ",") if a.strip()]
                    ve = ky_slice(vp[0]) if len(vp) == 2 else []
                    mv = re.fullmatch(r"(\w+)\.borrowed\(\)", compact(ve[0])) if len(ve) == 1 else None
                    if not mv or ky_slice(vp[1]):
                        raise Unparsed("extended value " + parts[3])
                    value = mv.group(1)
            else:
                raise Unparsed("method " + meth)
            # is the stored value what the function returns (`…add(.., v.borrowed()); Ok(v)`)?
            if value and re.match(r"\s*;\s*Ok\(\s*" + value + r"\s*\)\s*\}", src[_end:_end + 60]):
                value = "result"
            rows.append(f'⟨"{fn}", {lean_bool(meth.startswith("add"))}, {ky_tag(parts[1], fbody)}, {lean_list([ky_opd(e) for e in edges])}, {lean_list([ky_num(n) for n in nums])}, "{value}"⟩')
        except (Unparsed, SystemExit) as e:
            unparsed.append(desc(where, err_text(e)))
    # the variable set is shortened before the lookup
    for st, en, name, body in outer:
        if name not in ("quant", "apply_quant"):
            continue
        mp = re.search(r"let\s+vars\s*=\s*if\s+(.*?)\s*\{\s*(?:crate::)?set_pop\(\s*manager\s*,\s*vars\s*,\s*(\w+)\s*\)\s*\}\s*else\s*\{\s*vars\s*\}\s*;", body, flags=re.S)
        if not mp:
            unparsed.append(desc(name, "`let vars = if .. { set_pop(manager, vars, <level>) } else { vars };` not found"))
            continue
        cond, lv = compact(mp.group(1)), mp.group(2)
        except_unique = cond in ("operator!=BDDOp::Unique", "Q!=BDDOp::Xorasu8", "BDDOp::Unique!=operator")
        if not except_unique:
            unparsed.append(desc(name, "condition of the set_pop: " + mp.group(1)))
        cb = compact(body[:mp.start()])
        if re.search(r"let" + lv + r"=fnode\.level\(\);", cb):
            level = ".flevel"
        elif re.search(r"let" + lv + r"=(?:std::cmp::|cmp::)?min\((?:fnode\.level\(\)|flevel),(?:gnode\.level\(\)|glevel)\);", cb):
            level = ".minLevel"
        else:
            level = f"(.other {lstr(lv)})"
        mg = re.search(r"\.\s*apply_cache\(\)\s*\.\s*get", body)
        pops.append(f'⟨"{name}", {level}, {lean_bool(except_unique)}, {lean_bool(bool(mg) and mp.end() < mg.start())}⟩')
    return rows, pops


def ky_quant_table(src, unparsed):
    """`let operator = match () { _ if Q == BDDOp::And as u8 => BDDOp::Forall, .. }` in `quant`"""
    bodies = fn_bodies(src, "quant")
    rows = []
    if len(bodies) != 1:
        unparsed.append(desc("quant", "fn quant not found"))
        return rows
    m = re.search(r"let\s+operator\s*=\s*match\s*\(\s*\)\s*(?=\{)", bodies[0])
    if not m:
        unparsed.append(desc("quant", "operator table not found"))
        return rows
    arms, _ = block_after(bodies[0], m.end())
    for pat, res in split_arms(arms):
        mp = re.fullmatch(r"_ifQ==BDDOp::(\w+)asu8", compact(pat))
        mr = re.fullmatch(r"BDDOp::(\w+)", compact(res))
        if mp and mr and mp.group(1) in KY_OPS:
            rows.append(f'({KY_OPS[mp.group(1)]}, "{mr.group(1)}")')
        elif compact(pat) == "_" and re.match(r"unreachable!|panic!", res.strip()):
            continue
        else:
            unparsed.append(desc("quant operator table", pat + " => " + res))
    return rows


def ky_from_apply_quant(src, unparsed):
    bodies = fn_bodies(src, "from_apply_quant")
    rows = []
    if len(bodies) != 1:
        unparsed.append(desc("mod.rs", "fn from_apply_quant not found"))
        return rows
    body = bodies[0]
    for m in re.finditer(r"if\s+q\s*==\s*BDDOp::(\w+)\s+as\s+u8\s*(?=\{)", body):
        blk, _ = block_after(body, m.end())
        mm = re.match(r"\s*match\s*\(\s*\)\s*(?=\{)", blk)
        if m.group(1) not in KY_OPS or not mm:
            unparsed.append(desc("from_apply_quant", "block for q == " + m.group(1)))
            continue
        arms, end = block_after(blk, mm.end())
        if blk[end:].strip():
            unparsed.append(desc("from_apply_quant", "code after the match for q == " + m.group(1)))
        for pat, res in split_arms(arms):
            mp = re.fullmatch(r"_ifop==BDDOp::(\w+)asu8", compact(pat))
            mr = re.fullmatch(r"BDDOp::(\w+)", compact(res))
            if mp and mr and mp.group(1) in KY_OPS:
                rows.append(f'({KY_OPS[m.group(1)]}, {KY_OPS[mp.group(1)]}, "{mr.group(1)}")')
            elif compact(pat) == "_" and re.match(r"unreachable!|panic!", res.strip()):
                continue
            else:
                unparsed.append(desc("from_apply_quant", pat + " => " + res))
    return rows


def gen_keys(read_):
    unparsed, rows, pops, qt, faq = [], [], [], [], []
    try:
        src = strip_debug_asserts(strip_comments(read_("crates/oxidd-rules-bdd/src/simple/apply_rec.rs")))
        rows, pops = ky_rows(src, unparsed)
        qt = ky_quant_table(src, unparsed)
    except (Exception, SystemExit) as e:
        unparsed.append(desc("simple/apply_rec.rs", err_text(e)))
    try:
        faq = ky_from_apply_quant(strip_comments(read_("crates/oxidd-rules-bdd/src/simple/mod.rs")), unparsed)
    except (Exception, SystemExit) as e:
        unparsed.append(desc("simple/mod.rs", err_text(e)))
    L = ["import OxiddModel.Generated.RulesKeys", GEN_HEADER, "namespace OxiddModel.Generated\n"]
    L.append("/-- every access to the apply cache in `oxidd-rules-bdd/src/simple/apply_rec.rs`: function, lookup (`false`) or insertion (`true`), operator, edge operands, numeric operands, value inserted -/")
    L.append("def keyRows : List Ky.KeyRow :=\n  [" + ",\n   ".join(rows) + "]")
    L.append("/-- `quant` / `apply_quant`: the variable set is shortened by `set_pop(manager, vars, <level>)` (except for `Unique`) before the lookup -/")
    L.append("def keyPops : List Ky.PopRow := " + lean_list(pops))
    L.append("/-- `quant`: combining operator `Q` ↦ the `BDDOp` it is memoised under -/")
    L.append("def quantOperatorRows : List (Ky.KOp × String) := " + lean_list(qt))
    L.append("/-- `BDDOp::from_apply_quant(q, op)` (`simple/mod.rs`) -/")
    L.append("def fromApplyQuantRows : List (Ky.KOp × Ky.KOp × String) :=\n  [" + ",\n   ".join(faq) + "]")
    L.append("/-- cache accesses that the extractor does not recognise -/")
    L.append(f"def keysUnparsed : List String := {lean_strs(unparsed)}")
    L.append("\nend OxiddModel.Generated")
    return {"SrcKeys.lean": "\n".join(L) + "\n"}


# ---- F64 terminal normalisation (`terminal/f64.rs`) -------------------------------------------------

FX_CONSTS = {"0.": "zero", "0.0": "zero", "0f64": "zero", "1.": "one", "1.0": "one", "f64::NAN": "nan", "f64::INFINITY": "inf",
             "f64::NEG_INFINITY": "negInf", "-0.0": "negZero", "-0.": "negZero", "-0.0f64": "negZero"}
FX_BIN = {"+": ".add", "-": ".sub", "*": ".mul", "/": ".div"}


def fx_expr(txt):
    """argument of a construction -> Lean Fx.Arg"""
    c = compact(txt)
    if c in FX_CONSTS:
        return f".const .{FX_CONSTS[c]}"
    m = re.fullmatch(r"\(?(self|lhs)\.0([-+*/])(rhs|other)\.0\)?", c)
    if m:
        return f".binop {FX_BIN[m.group(2)]}"
    return f".expr {lstr(c)}"


def fx_normaliser(arg):
    """the body of `From<f64>::from`: `if value.is_nan() { f64::NAN } else if value.to_bits() == (-0.0f64).to_bits() { 0.0 } else { value }`
    -> (handles NaN, handles -0.0, otherwise identity)"""
    t = arg.strip()
    nan = negz = ident = False
    var = None
    while True:
        m = re.match(r"if\s+(.*?)\s*(?=\{)", t, flags=re.S)
        if not m:
            break
        blk, end = block_after(t, m.end())
        cond, val = compact(m.group(1)), compact(blk)
        mn = re.fullmatch(r"(\w+)\.is_nan\(\)", cond)
        mz = re.fullmatch(r"(\w+)\.to_bits\(\)==\(?-0\.0?(?:f64)?\)?\.to_bits\(\)", cond) or re.fullmatch(r"\(?-0\.0?(?:f64)?\)?\.to_bits\(\)==(\w+)\.to_bits\(\)", cond)
        if mn and val == "f64::NAN":
            nan, var = True, mn.group(1)
        elif mz and val in ("0.0", "0.", "0f64"):
            negz, var = True, mz.group(1)
        else:
            raise Unparsed("branch of the normalisation: if " + m.group(1) + " { " + blk.strip() + " }")
        rest = t[end:].strip()
        if not rest.startswith("else"):
            raise Unparsed("normalisation without else")
        t = rest[4:].strip()
    last = compact(strip_outer(t, "{", "}"))
    ident = var is not None and last == var
    if not ident:
        raise Unparsed("last branch of the normalisation: " + t)
    return nan, negz, ident


def gen_f64(read_):
    unparsed, rows = [], []
    norm = (False, False, False)
    try:
        src = strip_comments(read_("crates/oxidd-rules-mtbdd/src/terminal/f64.rs"))
        # drop the unit tests
        mt = re.search(r"#\[cfg\(test\)\]\s*mod\s+\w+\s*(?=\{)", src)
        if mt:
            _, tend = block_after(src, mt.end())
            src = src[:mt.start()] + src[tend:]
        src = re.sub(r"#!?\[[^\]]*\]", "", src)
        ispans, fspans = impl_spans(src), fn_spans(src)

        def owner(pos):
            best = None
            for st, en, ty, tr in ispans:
                if st <= pos < en and (best is None or st > best[0]):
                    best = (st, en, ty, tr)
            return (best[3] or best[2]) if best else ""

        for m in re.finditer(r"\b(Self|F64)\s*(::\s*from\s*)?\(", src):
            pos = m.start()
            fn, _ = fn_at(fspans, pos)
            if fn == "?":
                continue  # not inside a function body (e.g. the struct declaration)
            try:
                arg, _ = call_args(src, m.end() - 1)
            except Unparsed as e:
                unparsed.append(desc(fn, str(e)))
                continue
            ow = owner(pos)
            if m.group(2):
                rows.append(f'⟨"{ow}", "{fn}", .normalised, {fx_expr(arg)}⟩')
            elif ow == "From" and fn == "from" and re.match(r"\s*if\b", arg):
                try:
                    norm = fx_normaliser(arg)
                    rows.append(f'⟨"{ow}", "{fn}", .normaliser, .expr "value"⟩')
                except (Unparsed, SystemExit) as e:
                    unparsed.append(desc("From<f64>::from", err_text(e)))
            else:
                rows.append(f'⟨"{ow}", "{fn}", .raw, {fx_expr(arg)}⟩')
        # `.into()` conversions into F64 are normalising too, but none is expected; report them
        for m in re.finditer(r"\.into\(\)", src):
            fn, _ = fn_at(fspans, m.start())
            unparsed.append(desc(fn, "`.into()` (cannot tell the target type)"))
    except (Exception, SystemExit) as e:
        unparsed.append(desc("f64.rs", err_text(e)))
    L = ["import OxiddModel.Generated.RulesF64", GEN_HEADER, "namespace OxiddModel.Generated\n"]
    L.append("/-- every construction of an `F64` in `oxidd-rules-mtbdd/src/terminal/f64.rs` (tests excluded): trait (or type) of the `impl`, function, how it is built (`Self::from(..)` = normalised, `Self(..)` = raw, the normaliser itself), from what -/")
    L.append("def f64Rows : List Fx.Row :=\n  [" + ",\n   ".join(rows) + "]")
    L.append("/-- `impl From<f64> for F64`: NaN ↦ `f64::NAN`, `-0.0` ↦ `0.0`, anything else unchanged -/")
    L.append(f"def f64Normaliser : Bool × Bool × Bool := ({lean_bool(norm[0])}, {lean_bool(norm[1])}, {lean_bool(norm[2])})")
    L.append("/-- constructs of `f64.rs` that the extractor does not recognise -/")
    L.append(f"def f64Unparsed : List String := {lean_strs(unparsed)}")
    L.append("\nend OxiddModel.Generated")
    return {"SrcF64.lean": "\n".join(L) + "\n"}


# =============================================================================================
# Part 4 (third extension): the `Function` front ends of every rules crate (sequential and
# multi-threaded copy), the cache keys of the BCDD / ZBDD / MTBDD / TDD rules, the `apply_ite`
# prologues of TDD / MTBDD / ZBDD, the order of the manager hooks in `gc` / `reorder` / `add_*vars*`.
# Same rules as parts 2 and 3: never exit, never skip; `…Unparsed` lists.
# =============================================================================================

# ---- front ends: `impl <Trait> for <Kind>Function` / `<Kind>FunctionMT` ------------------------------

FE_KINDS = [("bdd", "crates/oxidd-rules-bdd/src/simple/apply_rec.rs", "BDDFunction"),
            ("bcdd", "crates/oxidd-rules-bdd/src/complement_edge/apply_rec.rs", "BCDDFunction"),
            ("zbdd", "crates/oxidd-rules-zbdd/src/apply_rec.rs", "ZBDDFunction"),
            ("mtbdd", "crates/oxidd-rules-mtbdd/src/apply_rec.rs", "MTBDDFunction"),
            ("tdd", "crates/oxidd-rules-tdd/src/apply_rec.rs", "TDDFunction")]
FE_SKIP_TRAITS = ("From", "DotStyle", "")
FE_IDENTITY_METHODS = ("borrowed", "into_edge", "borrow", "clone", "unwrap")


def skip_angles(s, i):
    """index after the balanced `<...>` opening at s[i] == '<' (`->` / `=>` do not close)"""
    depth = 0
    while i < len(s):
        c = s[i]
        if c == "<":
            depth += 1
        elif c == ">" and s[i - 1] not in "-=":
            depth -= 1
            if depth == 0:
                return i + 1
        i += 1
    raise Unparsed("unbalanced angle brackets")


def fe_param_names(sig):
    """names of the parameters in a function signature `<generics>(a: T, b: U) -> R where ..`"""
    s = sig.strip()
    if s.startswith("<"):
        s = s[skip_angles(s, 0):].lstrip()
    if not s.startswith("("):
        raise Unparsed("signature " + sig[:60])
    inner, _ = call_args(s, 0)
    names, depth, ang, start = [], 0, 0, 0
    parts = []
    for i, c in enumerate(inner):
        if c in "([{":
            depth += 1
        elif c in ")]}":
            depth -= 1
        elif c == "<":
            ang += 1
        elif c == ">" and i > 0 and inner[i - 1] not in "-=":
            ang -= 1
        elif c == "," and depth == 0 and ang == 0:
            parts.append(inner[start:i])
            start = i + 1
    parts.append(inner[start:])
    for p in parts:
        p = p.strip()
        if not p:
            continue
        m = re.match(r"(?:mut\s+)?(\w+)\s*:(?!:)", p)
        if not m:
            if re.fullmatch(r"&?\s*(?:mut\s+)?self", p):
                names.append("self")
                continue
            raise Unparsed("parameter " + p[:60])
        names.append(m.group(1))
    return names


def top_level_fns(block):
    """[(name, signature text after the name, body)] of the functions directly inside `block`
    (the text between the braces of an `impl` / of a file), nested functions excluded"""
    out, depth, i, n = [], 0, 0, len(block)
    while i < n:
        c = block[i]
        if c == "{":
            depth += 1
        elif c == "}":
            depth -= 1
        elif depth == 0 and block.startswith("fn", i) and (i == 0 or not (block[i - 1].isalnum() or block[i - 1] == "_")):
            m = re.match(r"fn\s+([A-Za-z0-9_]+)", block[i:])
            if m:
                j, d = i + m.end(), 0
                while j < n and not (block[j] == "{" and d == 0) and not (block[j] == ";" and d == 0):
                    if block[j] in "([":
                        d += 1
                    elif block[j] in ")]":
                        d -= 1
                    j += 1
                if j < n and block[j] == "{":
                    body, end = block_after(block, j)
                    out.append((m.group(1), block[i + m.end():j], body))
                    i = end
                    continue
        i += 1
    return out


class FeCtx:
    """what the evaluator of a front-end body needs: the free functions of the file, the methods of
    the impl being evaluated and of the sequential impl, the names of the const parameters in scope"""

    def __init__(self, free, methods, seq_methods, seq_owner, consts=()):
        self.free, self.methods, self.seq_methods, self.seq_owner, self.consts = free, methods, seq_methods, seq_owner, set(consts)


def fe_neg(v):
    return v[1] if v[0] == "neg" else ("neg", v)


def fe_generics(txt, ctx):
    """the const arguments of a turbofish: `{ BDDOp::And as u8 }` -> "And", `-1` -> "-1", a const parameter in scope -> its name"""
    out, parts, depth, last = [], [], 0, 0
    for i, c in enumerate(txt):
        if c in "([{<":
            depth += 1
        elif c in ")]}" or (c == ">" and txt[i - 1] not in "-="):
            depth -= 1
        elif c == "," and depth == 0:
            parts.append(txt[last:i])
            last = i + 1
    parts.append(txt[last:])
    for g in parts:
        g = compact(g)
        if not g:
            continue
        m = re.fullmatch(r"\{?(?:\w+::)*(\w+)asu8\}?", g)
        if m:
            out.append(m.group(1))
        elif re.fullmatch(r"\{?-?\d+\}?", g):
            out.append(g.strip("{}"))
        elif g in ctx.consts:
            out.append(g)
        elif re.fullmatch(r"_|[A-Za-z_][\w:]*(?:<.*>)?|'\w+", g):
            continue  # a type argument
        else:
            raise Unparsed("generic argument " + g)
    return out


def fe_args(txt):
    return [a for a in split_top(protect_turbofish(txt), ",") if a.strip()]


def fe_eval(txt, env, ctx, depth=0):
    """symbolic value of an expression of a front-end body (see `Fe.Expr` in `RulesFrontEnds.lean`)"""
    t = txt.replace("\x00", ",").strip()
    if not t:
        raise Unparsed("empty expression")
    if depth > 12:
        raise Unparsed("call depth")
    # prefix operators
    m = re.match(r"&\s*mut\b|&|\*", t)
    if m:
        return fe_eval(t[m.end():], env, ctx, depth)
    # primary
    i = 0
    if t[0] == "(":
        inner, i = call_args(t, 0)
        parts = fe_args(inner)
        val = ("tuple", [fe_eval(p, env, ctx, depth) for p in parts]) if len(parts) > 1 or inner.rstrip().endswith(",") else fe_eval(inner, env, ctx, depth)
    elif re.match(r"-?\d", t):
        m = re.match(r"-?\d+(?:_?[ui](?:8|16|32|64|size))?", t)
        val, i = ("num", int(re.match(r"-?\d+", t).group(0))), m.end()
    else:
        m = re.match(r"[A-Za-z_]\w*", t)
        if not m or t[:m.end()] in ("if", "match", "for", "while", "loop", "unsafe", "move", "return", "let"):
            raise Unparsed("expression " + t[:70])
        segs, gens, i = [m.group(0)], [], m.end()
        while True:
            mm = re.match(r"\s*::\s*", t[i:])
            if not mm:
                break
            j = i + mm.end()
            if j < len(t) and t[j] == "<":
                k = skip_angles(t, j)
                gens.append(t[j + 1:k - 1])
                i = k
                continue
            m2 = re.match(r"[A-Za-z_]\w*", t[j:])
            if not m2:
                raise Unparsed("path " + t[:70])
            segs.append(m2.group(0))
            i = j + m2.end()
        if i < len(t) and t[i] == "!":
            raise Unparsed("macro " + t[:70])
        mm = re.match(r"\s*\(", t[i:])
        if mm:
            argtxt, i = call_args(t, i + mm.end() - 1)
            val = fe_call(segs, gens, fe_args(argtxt), env, ctx, depth)
        else:
            name = "::".join(segs)
            if len(segs) == 1 and name in env:
                val = env[name]
            elif name in ("manager", "_manager"):
                val = ("mgr",)
            elif name == "SequentialRecursor":
                val = ("rec", "seq")
            elif name in ("true", "false"):
                val = ("bool", name == "true")
            elif len(segs) >= 2 and re.fullmatch(r"[A-Z]\w*", segs[-1]):
                val = ("path", name)
            else:
                raise Unparsed("name " + name)
    # postfix chain
    while i < len(t):
        rest = t[i:]
        if rest[0].isspace():
            i += 1
            continue
        if rest[0] == "?":
            i += 1
            continue
        m = re.match(r"\.\s*(\w+)\s*\(", rest)
        if m:
            argtxt, i = call_args(t, i + m.end() - 1)
            val = fe_method(val, m.group(1), fe_args(argtxt), env, ctx, depth)
            continue
        raise Unparsed("expression " + t[:70])
    return val


def fe_method(recv, name, args, env, ctx, depth):
    if name in FE_IDENTITY_METHODS and not args:
        return recv
    a = [fe_eval(x, env, ctx, depth) for x in args]
    if recv == ("mgr",):
        if name == "clone_edge" and len(a) == 1:
            return a[0]
        if name == "get_terminal" and len(a) == 1:
            return ("term", a[0][1].split("::")[-1]) if a[0][0] == "path" else ("termOf", a[0])
        if name == "var_to_level" and len(a) == 1:
            return ("varLevel", a[0])
        if name == "zbdd_cache" and not a:
            return ("zcache",)
    if recv == ("zcache",) and name == "tautology" and len(a) == 1 and a[0][0] == "num":
        return ("taut", a[0][1])
    if recv[0] == "p" and name == "id" and not a:
        return ("substId", recv)
    if recv[0] == "p" and name == "pairs" and not a:
        return ("substPairs", recv)
    raise Unparsed("method ." + name + "(..)")


def fe_run_body(body, env, ctx, depth):
    """straight-line body: `let` bindings, then the value"""
    env = dict(env)
    stmts = [s for s in bc_stmts(protect_turbofish(body)) if not re.match(r"use\b|stat!", s)]
    stmts = [s for s in stmts if not re.match(r"if\s+rec\.should_switch_to_sequential\(\)", s)]
    for k, st in enumerate(stmts):
        st = st.replace("\x00", ",")
        m = re.match(r"let\s+(?:mut\s+)?(\w+)\s*(?::[^=]*)?=(?!=)\s*", st)
        if m:
            env[m.group(1)] = fe_eval(st[m.end():], env, ctx, depth)
            continue
        m = re.match(r"let\s*\(([^)]*)\)\s*=(?!=)\s*", st)
        if m:
            names = [v.strip() for v in m.group(1).split(",") if v.strip()]
            v = fe_eval(st[m.end():], env, ctx, depth)
            if v[0] != "tuple" or len(v[1]) != len(names):
                raise Unparsed("tuple binding " + st[:70])
            for nme, x in zip(names, v[1]):
                env[re.sub(r"^mut\s+", "", nme)] = x
            continue
        if k != len(stmts) - 1:
            raise Unparsed("statement " + st[:70])
        return fe_eval(re.sub(r"^return\b", "", st), env, ctx, depth)
    raise Unparsed("body without a value")


def fe_call(segs, gens, args, env, ctx, depth):
    name = segs[-1]
    head = "::".join(segs)
    if head == "Ok" and len(args) == 1:
        return fe_eval(args[0], env, ctx, depth)
    if head in ("EdgeDropGuard::new",) and len(args) == 2:
        return fe_eval(args[1], env, ctx, depth)
    if head == "ParallelRecursor::new" and len(args) == 1:
        return ("rec", "par")
    if head in ("not", "not_owned") and len(args) == 1:
        return fe_neg(fe_eval(args[0], env, ctx, depth))
    vals = [fe_eval(a, env, ctx, depth) for a in args]
    if head == "get_terminal" and len(vals) == 2 and vals[0] == ("mgr",) and vals[1][0] == "bool":
        return ("bterm", vals[1][1])
    # a method of this front end / of the sequential front end
    table = None
    if len(segs) == 2 and segs[0] == "Self":
        table = ctx.methods
    elif len(segs) == 2 and segs[0] == ctx.seq_owner:
        table = ctx.seq_methods
    if table is not None:
        if name not in table:
            raise Unparsed("method " + head + " not found")
        params, body = table[name]
        if len(params) != len(vals):
            raise Unparsed("arity of " + head)
        sub = FeCtx(ctx.free, table, ctx.seq_methods, ctx.seq_owner)
        if table is ctx.seq_methods and table is not ctx.methods:
            # delegation of the multi-threaded front end to the sequential one: a method with a body of
            # its own is `own` there too, provided the parameters are passed on unchanged and in order
            try:
                return fe_method_value(params, body, vals, sub, depth + 1)
            except (Unparsed, SystemExit, ValueError, IndexError):
                expected, k = [], 0
                for p in params:
                    if p in ("manager", "_manager"):
                        expected.append(("mgr",))
                    else:
                        expected.append(("p", k))
                        k += 1
                if vals == expected:
                    return ("own",)
                raise Unparsed("delegation to " + head + " with other arguments than the own parameters in order")
        return fe_method_value(params, body, vals, sub, depth + 1)
    if len(segs) != 1:
        raise Unparsed("call " + head)
    # a free function of the file: (manager, [rec], operands..)
    if not vals or vals[0] != ("mgr",):
        raise Unparsed("call " + head + " without `manager` first")
    recs = [v for v in vals[1:] if v[0] == "rec"]
    opnds = [v for v in vals[1:] if v[0] != "rec"]
    if len(recs) > 1 or any(v[0] in ("mgr", "tuple", "zcache", "bool", "path") for v in opnds):
        raise Unparsed("arguments of " + head)
    consts = []
    for g in gens:
        consts += fe_generics(g, ctx)
    # a straight-line wrapper (e.g. zbdd `apply_not`, bcdd `apply_and`) is followed
    if name in ctx.free and len(ctx.free[name]) == 1:
        params, body = ctx.free[name][0]
        if len(params) == len(vals):
            try:
                e2 = {}
                for p, v in zip(params, vals):
                    e2[p] = v
                return fe_run_body(body, e2, FeCtx(ctx.free, {}, ctx.seq_methods, ctx.seq_owner), depth + 1)
            except (Unparsed, SystemExit, ValueError, IndexError):
                pass
    return ("call", name, consts, recs[0][1] if recs else "none", opnds)


def fe_method_value(params, body, vals, ctx, depth):
    env = {}
    for p, v in zip(params, vals):
        env[p] = v
    return fe_run_body(body, env, ctx, depth)


def fe_lean(v):
    k = v[0]
    if k == "p":
        return f"(.p {v[1]})"
    if k == "neg":
        return f"(.neg {fe_lean(v[1])})"
    if k == "taut":
        return f"(.taut {v[1]})"
    if k == "num":
        return f"(.num {lean_int(v[1])})"
    if k == "term":
        return f'(.term "{v[1]}")'
    if k == "bterm":
        return f"(.bterm {lean_bool(v[1])})"
    if k in ("termOf", "varLevel", "substPairs", "substId"):
        return f"(.{k} {fe_lean(v[1])})"
    if k == "call":
        args = ".nil"
        for a in reversed(v[4]):
            args = f"(.cons {fe_lean(a)} {args})"
        return f'(.call "{v[1]}" {lean_strs(v[2])} .{v[3]} {args})'
    if k == "own":
        return ".own"
    raise Unparsed("value " + repr(v)[:60])


def fe_impls(src):
    """owner type -> [(trait, {method: (params, body)}, [method names in order])]"""
    out = {}
    for st, en, ty, tr in impl_spans(src):
        if tr in FE_SKIP_TRAITS:
            continue
        blk, _ = block_after(src, src.index("{", st))
        meths, order = {}, []
        for name, sig, body in top_level_fns(blk):
            meths[name] = (fe_param_names(sig), body)
            order.append(name)
        out.setdefault(ty, []).append((tr, meths, order))
    return out


def fe_rows(kind, src, owner, unparsed):
    """-> (Lean rows of the sequential front end, of the multi-threaded one or None)"""
    src = re.sub(r"#!?\[[^\]]*\]", "", strip_debug_asserts(strip_comments(src)))
    free = {}
    # the free functions of the file (depth 0; `pub mod mt { .. }` contains only impls)
    for name, sig, body in top_level_fns(src):
        try:
            free.setdefault(name, []).append((fe_param_names(sig), body))
        except Unparsed:
            pass
    impls = fe_impls(src)
    seq_all = {}
    for tr, meths, order in impls.get(owner, []):
        seq_all.update(meths)
    result = []
    for front, own in (("seq", owner), ("mt", owner + "MT")):
        if own not in impls:
            result.append(None)
            continue
        allm = {}
        for tr, meths, order in impls[own]:
            allm.update(meths)
        rows = []
        for tr, meths, order in impls[own]:
            for name in order:
                params, body = meths[name]
                where = f"{own}::{name}"
                ctx = FeCtx(free, allm, seq_all, owner)
                vals = [("mgr",) if p in ("manager", "_manager") else None for p in params]
                k = 0
                for idx, p in enumerate(params):
                    if vals[idx] is None:
                        vals[idx] = ("p", k)
                        k += 1
                try:
                    v = fe_method_value(params, body, vals, ctx, 0)
                    e = fe_lean(v)
                except (Unparsed, SystemExit, ValueError, IndexError) as ex:
                    if front == "seq":
                        e = ".own"  # a method with a body of its own (loops, matches, nested functions)
                    else:
                        e = f"(.other {lstr(err_text(ex))})"
                        unparsed.append(desc(where, "neither a call of a kernel nor a delegation to the sequential front end: " + err_text(ex)))
                rows.append(f'⟨"{tr}", "{name}", {k}, {e}⟩')
        result.append(rows)
    return result


def fe_dispatch_bdd(src, unparsed):
    """`apply_quant_dispatch` of the simple BDD rules: operator ↦ the call"""
    src = re.sub(r"#!?\[[^\]]*\]", "", strip_comments(src))
    rows = []
    fns = [(n, s, b) for n, s, b in top_level_fns(src) if n == "apply_quant_dispatch"]
    if len(fns) != 1:
        unparsed.append(desc("simple/apply_rec.rs", "fn apply_quant_dispatch not found"))
        return rows
    _, sig, body = fns[0]
    params = fe_param_names(sig)
    m = re.search(r"match\s+op\s*(?=\{)", body)
    if not m:
        unparsed.append(desc("apply_quant_dispatch", "no `match op`"))
        return rows
    arms, end = block_after(body, m.end())
    if body[end:].strip():
        unparsed.append(desc("apply_quant_dispatch", "code after the match"))
    env, k = {}, 0
    for p in params:
        if p in ("manager", "rec"):
            env[p] = ("mgr",) if p == "manager" else ("rec", "seq")
        else:
            env[p] = ("p", k)
            k += 1
    consts = re.findall(r"const\s+(\w+)\s*:", sig)
    ctx = FeCtx({}, {}, {}, "", consts)
    for pat, res in it_split_arms(arms):
        try:
            v = fe_eval(strip_outer(res, "{", "}"), env, ctx)
            rows.append(f'("{compact(pat).split("::")[-1]}", {fe_lean(v)})')
        except (Unparsed, SystemExit, ValueError, IndexError) as ex:
            unparsed.append(desc("apply_quant_dispatch arm " + pat, err_text(ex)))
    return rows


def fe_selection(read_, unparsed):
    """`oxidd/src/<kind>.rs`: which front end each manager flavour selects under which cfg"""
    rows = []
    for kind in ("bdd", "bcdd", "zbdd", "mtbdd", "tdd"):
        try:
            src = strip_comments(read_(f"crates/oxidd/src/{kind}.rs"))
        except (Exception, SystemExit) as e:
            unparsed.append(desc(f"oxidd/src/{kind}.rs", err_text(e)))
            continue
        found = 0
        for mm in re.finditer(r"\bmod\s+(index|pointer)\s*(?=\{)", src):
            blk, _ = block_after(src, mm.end())
            for m in re.finditer(r"((?:#\[[^\]]*\]\s*)*)type\s+FunctionInner(?:<[^>]*>)?\s*=\s*([\w:]+?)(\w+)\s*<", blk):
                attrs = compact(m.group(1))
                if attrs == "":
                    cfg = "always"
                elif attrs == '#[cfg(feature="multi-threading")]':
                    cfg = "mt"
                elif attrs == '#[cfg(not(feature="multi-threading"))]':
                    cfg = "seq"
                else:
                    cfg = "?"
                    unparsed.append(desc(f"oxidd/src/{kind}.rs", "attributes of FunctionInner: " + m.group(1)))
                rows.append(f'("{kind}", "{mm.group(1)}", "{cfg}", "{m.group(3)}")')
                found += 1
        if not found:
            unparsed.append(desc(f"oxidd/src/{kind}.rs", "no `type FunctionInner = ..`"))
    return rows


def fe_rec_depth(read_, unparsed):
    """`ParallelRecursor::new`: where the remaining split depth comes from"""
    rows = []
    for crate in ("oxidd-rules-bdd", "oxidd-rules-zbdd"):
        try:
            src = strip_comments(read_(f"crates/{crate}/src/recursor.rs"))
            m = re.search(r"impl\s+ParallelRecursor\s*(?=\{)", src)
            blk, _ = block_after(src, m.end())
            body = [b for n, s, b in top_level_fns(blk) if n == "new"][0]
            mm = re.fullmatch(r"Self\{remaining_depth:(.*?),?\}", compact(body))
            rows.append(f'("{crate}", {lstr(mm.group(1))})')
            sw = [b for b in fn_bodies(src, "should_switch_to_sequential")]
            rows.append(f'("{crate} switch", {lstr(" | ".join(compact(b) for b in sw))})')
        except (Exception, SystemExit) as e:
            unparsed.append(desc(crate + " recursor.rs", err_text(e)))
    return rows


def gen_frontends(read_):
    unparsed, tables = [], {}
    for kind, path, owner in FE_KINDS:
        try:
            tables[kind] = fe_rows(kind, read_(path), owner, unparsed)
        except (Exception, SystemExit) as e:
            tables[kind] = [None, None]
            unparsed.append(desc(f"front ends ({kind})", err_text(e)))
    disp = []
    try:
        disp = fe_dispatch_bdd(read_("crates/oxidd-rules-bdd/src/simple/apply_rec.rs"), unparsed)
    except (Exception, SystemExit) as e:
        unparsed.append(desc("apply_quant_dispatch (bdd)", err_text(e)))
    sel = fe_selection(read_, unparsed)
    recd = fe_rec_depth(read_, unparsed)
    L = ["import OxiddModel.Generated.RulesFrontEnds", GEN_HEADER, "namespace OxiddModel.Generated\n"]
    for kind, path, owner in FE_KINDS:
        seq, mt = tables[kind]
        for rows, suffix, what in ((seq, "", owner), (mt, "MT", owner + "MT")):
            L.append(f"/-- every trait method of `{what}` (`{path.replace('crates/', '')}`): trait, method, number of parameters after `manager`, and what the body evaluates to (calls of wrappers and of other methods followed) -/")
            if rows is None:
                L.append(f"def frontEnd_{kind}{suffix} : Option (List Fe.Row) := none")
            else:
                L.append(f"def frontEnd_{kind}{suffix} : Option (List Fe.Row) := some\n  [" + ",\n   ".join(rows) + "]")
    L.append("/-- `apply_quant_dispatch` of the simple BDD rules: `BooleanOperator` ↦ the kernel call (`.p 0` = `op`, `.p 1` = `f`, `.p 2` = `g`, `.p 3` = `vars`) -/")
    L.append("def frontEndDispatch_bdd : List (String × Fe.Expr) :=\n  [" + ",\n   ".join(disp) + "]")
    L.append("/-- `crates/oxidd/src/<kind>.rs`: (kind, manager flavour, cfg — `seq` = `not(feature = \"multi-threading\")`, `mt`, `always` —, the front end selected) -/")
    L.append("def frontEndSelection : List (String × String × String × String) :=\n  [" + ",\n   ".join(sel) + "]")
    L.append("/-- `ParallelRecursor::new` (where the split depth comes from) and `should_switch_to_sequential` of both recursor modules -/")
    L.append("def frontEndRecursor : List (String × String) :=\n  [" + ",\n   ".join(recd) + "]")
    L.append("/-- constructs of the front ends that the extractor does not recognise -/")
    L.append(f"def frontEndsUnparsed : List String := {lean_strs(unparsed)}")
    L.append("\nend OxiddModel.Generated")
    return {"SrcFrontEnds.lean": "\n".join(L) + "\n"}


# ---- cache keys of the BCDD / ZBDD / MTBDD / TDD rules ------------------------------------------------

KY2_FILES = [("bcdd", "crates/oxidd-rules-bdd/src/complement_edge/apply_rec.rs", "BCDDOp"),
             ("zbdd", "crates/oxidd-rules-zbdd/src/apply_rec.rs", "ZBDDOp"),
             ("mtbdd", "crates/oxidd-rules-mtbdd/src/apply_rec.rs", "MTBDDOp"),
             ("tdd", "crates/oxidd-rules-tdd/src/apply_rec.rs", "TDDOp")]


def enclosing_block(body, pos):
    """(start, end) of the innermost `{..}` of `body` containing `pos` ((0, len) at top level)"""
    depth = 0
    for i in range(pos - 1, -1, -1):
        c = body[i]
        if c == "}":
            depth += 1
        elif c == "{":
            if depth == 0:
                d = 0
                for j in range(i, len(body)):
                    if body[j] == "{":
                        d += 1
                    elif body[j] == "}":
                        d -= 1
                        if d == 0:
                            return i, j + 1
                return i, len(body)
            depth -= 1
    return 0, len(body)


def stmt_end(body, pos):
    """index of the `;` ending the statement that starts at / contains `pos` (brackets balanced from `pos`)"""
    depth = 0
    for j in range(pos, len(body)):
        c = body[j]
        if c in "([{":
            depth += 1
        elif c in ")]}":
            depth -= 1
            if depth < 0:
                return j
        elif c == ";" and depth == 0:
            return j
    return len(body)


def let_bindings(body):
    """[(position of `let`, end of statement, block start, block end, [names], defining text)] of every `let` in `body`"""
    out = []
    for m in re.finditer(r"\blet\b", body):
        depth, j = 0, m.end()
        while j < len(body):
            c = body[j]
            if c in "([{":
                depth += 1
            elif c in ")]}":
                depth -= 1
            elif c == "=" and depth == 0 and body[j + 1:j + 2] != "=" and body[j - 1] not in "=!<>":
                break
            elif c == ";" and depth == 0:
                break
            j += 1
        if j >= len(body) or body[j] != "=":
            continue
        pat = re.sub(r":[^,()]*$", "", body[m.end():j]) if "(" not in body[m.end():j] else body[m.end():j]
        names = [n for n in re.findall(r"\b[a-z_][a-z0-9_]*\b", pat) if n not in ("mut", "ref", "_")]
        end = stmt_end(body, j + 1)
        bs, be = enclosing_block(body, m.start())
        out.append((m.start(), end, bs, be, names, " ".join(body[j + 1:end].split())))
    return out


def binding_of(lets, name, pos):
    """(ordinal, defining text) of the binding of `name` visible at `pos`: 0 = not bound by a `let`
    (a parameter or a pattern of a match arm), k = the k-th visible `let` of that name"""
    k, text = 0, ""
    for lp, le, bs, be, names, rhs in lets:
        if name in names and le < pos and bs <= pos < be:
            k += 1
            text = rhs
    return k, text


def ky2_shape(text):
    """what kind of expression defines a key operand / an operator variable"""
    c = compact(text)
    if c == "manager.num_levels()":
        return "numLevels"
    m = re.fullmatch(r"(\w+)\.with_tag\((?:EdgeTag::)?None\)", c)
    if m:
        return "untag:" + m.group(1)
    m = re.fullmatch(r"(\w+)\.borrowed\(\)", c)
    if m:
        return "alias:" + m.group(1)
    if c in ("iff>g{(g,f)}else{(f,g)}", "ifg<f{(g,f)}else{(f,g)}", "iff<g{(f,g)}else{(g,f)}"):
        return "sortedPair"
    m = re.fullmatch(r"if(.*?)\{(?:crate::)?set_pop\(manager,vars,(\w+)\)\}else\{vars\}", c)
    if m:
        cond = "exceptUnique" if m.group(1) in ("operator!=BCDDOp::Unique", "Q!=BCDDOp::Uniqueasu8") else m.group(1)
        return "pop:" + m.group(2) + ":" + cond
    if re.match(r"match(?:super::)?terminal_bin::<[^>]*>\(manager,&f,&g\)\??\{", c) and "Operation::Binary(o,op1,op2)=>(o,op1,op2)" in c:
        return "terminalBin"
    if re.match(r"match\(\)\{|matchVAL\{", c):
        return "table"
    if re.fullmatch(r"const\{\w+::from_apply_quant\(Q,OP\)\}", c):
        return "fromApplyQuant"
    if re.match(r"ifOP==BCDDOp::Andasu8(?:\|\|OP==BCDDOp::UniqueNandasu8)?\{matchsuper::terminal_and\(manager,&f,&g\)", c) and "terminal_xor(manager,&f,&g)" in c:
        return "terminalKernels"
    return "other"


def ky2_name(txt):
    c = re.sub(r"\.borrowed\(\)$", "", compact(txt)).lstrip("&")
    if not re.fullmatch(r"\w+", c):
        raise Unparsed("key operand " + txt)
    return c


def ky2_scan(kind, src, enum, rows, defs, tables, unparsed):
    src = re.sub(r"#!?\[[^\]]*\]", "", strip_debug_asserts(strip_comments(src)))
    seen_defs = set()
    for fn, sig, body in top_level_fns(src):
        if ".apply_cache()" not in body:
            continue
        lets = let_bindings(body)

        def opnd(txt, pos):
            n = ky2_name(txt)
            k, text = binding_of(lets, n, pos)
            if k and (fn, n, k) not in seen_defs:
                seen_defs.add((fn, n, k))
                defs.append(f'⟨"{kind}", "{fn}", "{n}", {k}, "{ky2_shape(text)}", {lstr(compact(text)[:70])}⟩')
            return f'("{n}", {k})'

        for m in re.finditer(r"\.\s*apply_cache\(\)\s*\.\s*(\w+)\s*\(", body):
            meth = m.group(1)
            where = f"{kind} {fn}: apply_cache().{meth}"
            try:
                args, aend = call_args(body, m.end() - 1)
                parts = [a for a in split_top(args, ",") if a.strip()]
                pos = m.start()
                if meth in ("get", "add"):
                    if len(parts) != (3 if meth == "get" else 4) or compact(parts[0]) != "manager":
                        raise Unparsed("arguments " + args)
                    edges, nums = ky_slice(parts[2]), []
                    vtxt = parts[3] if meth == "add" else ""
                elif meth in ("get_extended", "add_extended"):
                    if len(parts) != (3 if meth == "get_extended" else 4) or compact(parts[0]) != "manager":
                        raise Unparsed("arguments " + args)
                    kp = [a for a in split_top(strip_outer(parts[2]), ",") if a.strip()]
                    if len(kp) != 2:
                        raise Unparsed("extended key " + parts[2])
                    edges, nums = ky_slice(kp[0]), ky_slice(kp[1])
                    vtxt = ""
                    if meth == "add_extended":
                        vp = [a for a in split_top(strip_outer(parts[3]), ",") if a.strip()]
                        ve = ky_slice(vp[0]) if len(vp) == 2 else []
                        if len(ve) != 1 or ky_slice(vp[1]):
                            raise Unparsed("extended value " + parts[3])
                        vtxt = ve[0]
                else:
                    raise Unparsed("method " + meth)
                value = ""
                if vtxt:
                    mv = re.fullmatch(r"(\w+)\.borrowed\(\)", compact(vtxt))
                    if not mv:
                        raise Unparsed("value " + vtxt)
                    value = mv.group(1)
                    tail = body[aend:aend + 160]
                    if re.match(r"\s*;\s*(?:let\s+\w+\s*=\s*" + value + r"\.tag\(\)\s*;\s*)?Ok\(\s*" + value + r"\b", tail):
                        value = "result"
                # the operator
                t = compact(parts[1])
                mt = re.fullmatch(r"(?:" + enum + r"::)(\w+)", t)
                if mt:
                    tag = f'(.lit "{mt.group(1)}")'
                elif re.fullmatch(r"[A-Z]\w*", t) and re.search(r"\buse\s+" + enum + r"::(?:\{[^}]*\b" + t + r"\b[^}]*\}|" + t + r")\s*;", body):
                    tag = f'(.lit "{t}")'
                elif re.fullmatch(r"[a-z_]\w*", t):
                    k, text = binding_of(lets, t, pos)
                    tag = f'(.var "{t}" {k})'
                    if (fn, t, k) not in seen_defs:
                        seen_defs.add((fn, t, k))
                        defs.append(f'⟨"{kind}", "{fn}", "{t}", {k}, "{ky2_shape(text)}", {lstr(compact(text)[:70])}⟩')
                        # a table `match () { _ if Q == E::A as u8 => E::B, .. }` / `match VAL { -1 => E::B, .. }`
                        mm = re.match(r"match\s*(\(\s*\)|\w+)\s*(?=\{)", text)
                        if mm:
                            arms, _ = block_after(text, mm.end())
                            for pat, res in split_arms(arms):
                                mr = re.fullmatch(r"(?:" + enum + r"::)?(\w+)", compact(res))
                                mp = re.fullmatch(r"_if\w+==" + enum + r"::(\w+)asu8", compact(pat)) or re.fullmatch(r"(-?\d+)", compact(pat))
                                if mp and mr:
                                    tables.append(f'("{kind}", "{fn}", "{mp.group(1)}", "{mr.group(1)}")')
                                elif compact(pat) == "_" and re.match(r"unreachable!|panic!", res.strip()):
                                    continue
                                else:
                                    unparsed.append(desc(where + " operator table", pat + " => " + res))
                else:
                    tag = f"(.other {lstr(t)})"
                rows.append(f'⟨"{kind}", "{fn}", {lean_bool(meth.startswith("add"))}, {tag}, {lean_list([opnd(e, pos) for e in edges])}, {lean_list([opnd(n, pos) for n in nums])}, "{value}"⟩')
            except (Unparsed, SystemExit, ValueError, IndexError) as e:
                unparsed.append(desc(where, err_text(e)))


def ky2_bcdd_restrict_tags(src, unparsed):
    """BCDD `restrict`: the key uses the untagged `f`; the complement is re-applied to the cached and to
    the computed result alike"""
    src = strip_debug_asserts(strip_comments(src))
    out = []
    fns = [b for n, s, b in top_level_fns(src) if n == "restrict"]
    if len(fns) != 1:
        unparsed.append(desc("bcdd restrict", "fn restrict not found"))
        return out
    body = fns[0]
    for what, rx in (("f_untagged", r"let\s+f_untagged\s*=\s*([^;]*);"), ("f_tag", r"let\s+f_tag\s*=\s*([^;]*);")):
        m = re.search(rx, body)
        out.append(f'("{what}", {lstr(compact(m.group(1)) if m else "?")})')
    rets = re.findall(r"Ok\(\s*(\w+)\.with_tag_owned\(\s*(\w+)\s*\^\s*(\w+)\s*\)\s*\)", body)
    for r in rets:
        mdef = re.search(r"let\s+" + r[1] + r"\s*=\s*" + r[0] + r"\.tag\(\)\s*;", body)
        out.append(f'("return", {lstr(("tag(res)^" + r[2]) if mdef else "?")})')
    return out


def gen_keys2(read_):
    rows, defs, tables, unparsed, bt, faq = [], [], [], [], [], []
    for kind, path, enum in KY2_FILES:
        try:
            ky2_scan(kind, read_(path), enum, rows, defs, tables, unparsed)
        except (Exception, SystemExit) as e:
            unparsed.append(desc(path, err_text(e)))
    try:
        bt = ky2_bcdd_restrict_tags(read_("crates/oxidd-rules-bdd/src/complement_edge/apply_rec.rs"), unparsed)
    except (Exception, SystemExit) as e:
        unparsed.append(desc("bcdd restrict tags", err_text(e)))
    try:
        src = strip_comments(read_("crates/oxidd-rules-bdd/src/complement_edge/mod.rs"))
        bodies = fn_bodies(src, "from_apply_quant")
        if len(bodies) != 1:
            unparsed.append(desc("complement_edge/mod.rs", "fn from_apply_quant not found"))
        else:
            for m in re.finditer(r"if\s+q\s*==\s*BCDDOp::(\w+)\s+as\s+u8\s*(?=\{)", bodies[0]):
                blk, _ = block_after(bodies[0], m.end())
                mm = re.match(r"\s*match\s*\(\s*\)\s*(?=\{)", blk)
                if not mm:
                    unparsed.append(desc("from_apply_quant (bcdd)", "block for q == " + m.group(1)))
                    continue
                arms, _ = block_after(blk, mm.end())
                for pat, res in split_arms(arms):
                    mp = re.fullmatch(r"_ifop==BCDDOp::(\w+)asu8", compact(pat))
                    mr = re.fullmatch(r"BCDDOp::(\w+)", compact(res))
                    if mp and mr:
                        faq.append(f'("{m.group(1)}", "{mp.group(1)}", "{mr.group(1)}")')
                    elif compact(pat) == "_" and re.match(r"unreachable!|panic!", res.strip()):
                        continue
                    else:
                        unparsed.append(desc("from_apply_quant (bcdd)", pat + " => " + res))
    except (Exception, SystemExit) as e:
        unparsed.append(desc("from_apply_quant (bcdd)", err_text(e)))
    L = ["import OxiddModel.Generated.RulesKeys2", GEN_HEADER, "namespace OxiddModel.Generated\n"]
    L.append("/-- every access to the apply cache in the `apply_rec.rs` of the BCDD / ZBDD / MTBDD / TDD rules: kind, function, lookup (`false`) or insertion (`true`), operator, edge operands, numeric operands — each operand as (name, k) where k = 0 for a parameter (or a match-arm binding) and k ≥ 1 for the k-th `let` of that name visible at the access —, the value inserted (`result` = the edge the function returns) -/")
    L.append("def keyRows2 : List Ky2.Row :=\n  [" + ",\n   ".join(rows) + "]")
    L.append("/-- every `let`-bound name used in a key or as the operator: kind, function, name, which `let`, the shape of the defining expression, its first 70 characters -/")
    L.append("def keyDefs2 : List Ky2.Def :=\n  [" + ",\n   ".join(defs) + "]")
    L.append("/-- operator variables defined by a table (`match () { _ if Q == E::A as u8 => E::B, .. }`, `match VAL { -1 => .. }`): (kind, function, selector, operator) -/")
    L.append("def keyTagTables2 : List (String × String × String × String) :=\n  [" + ",\n   ".join(tables) + "]")
    L.append("/-- `BCDDOp::from_apply_quant(q, op)` (`complement_edge/mod.rs`) -/")
    L.append("def fromApplyQuantRows_bcdd : List (String × String × String) :=\n  [" + ",\n   ".join(faq) + "]")
    L.append("/-- BCDD `restrict`: the untagged key operand, the tag put back on the result, and every `Ok(res.with_tag_owned(tag(res) ^ f_tag))` return -/")
    L.append("def bcddRestrictTags : List (String × String) := " + lean_list(bt))
    L.append("/-- cache accesses that the extractor does not recognise -/")
    L.append(f"def keys2Unparsed : List String := {lean_strs(unparsed)}")
    L.append("\nend OxiddModel.Generated")
    return {"SrcKeys2.lean": "\n".join(L) + "\n"}


# ---- order of the manager hooks in `gc` / `reorder` / `add_vars` / `add_named_vars*` --------------------

HK_EVENTS = [
    (r"(?:self|this)\s*\.\s*data\s*\.\s*pre_reorder\s*\(", ".preReorder"),
    (r"MD\s*::\s*pre_reorder_mut\s*\(", ".preReorderMut"),
    (r"(?:self|this)\s*\.\s*data\s*\.\s*post_reorder\s*\(", ".postReorder"),
    (r"MD\s*::\s*post_reorder_mut\s*\(", ".postReorderMut"),
    (r"(?:self|this)\s*\.\s*data\s*\.\s*pre_gc\s*\(", ".preGc"),
    (r"(?:self|this)\s*\.\s*data\s*\.\s*post_gc\s*\(", ".postGc"),
    (r"\.\s*unique_table\s*\.\s*resize_with\s*\(\s*(\w+)\s+as\s+usize", ".resize"),
    (r"\.\s*var_level_map\s*\.\s*extend\s*\(\s*([^;]*?)\s*\)\s*(?:;|$)", ".vlmExtend"),
    (r"\.\s*var_name_map\s*\.\s*add_unnamed\s*\(\s*(\w+)\s*\)", ".namesAddUnnamed"),
    (r"\.\s*var_name_map\s*\.\s*add_named\s*\(", ".namesAddNamed"),
    (r"self\s*\.\s*var_name_map\s*=\s*(\w+)\b(?!\s*\.)", ".namesSet"),
    (r"self\s*\.\s*reorder_gc_prepared\s*=\s*(true|false)\b", ".setPrepared"),
    (r"\bf\s*\(\s*self\s*\)", ".callF"),
    (r"self\s*\.\s*gc_ongoing\s*\.\s*unlock\s*\(", ".unlock"),
    (r"self\s*\.\s*gc_count\s*\.\s*fetch_add\s*\(\s*1\s*,|\*\s*self\s*\.\s*gc_count\s*\.\s*get_mut\(\)\s*\+=\s*1\b", ".gcCountInc"),
    (r"self\s*\.\s*reorder_count\s*\+=\s*1\b", ".reorderCountInc"),
    (r"\blevel\s*\.\s*gc\s*\(", ".sweepLevel"),
    (r"terminal_manager\b[^;]*?\.\s*gc\s*\(\s*\)", ".sweepTerminals"),
    (r"\bdrop\s*\(\s*guard\s*\)", ".dropGuard"),
    (r"\breturn\b", ".ret"),
    (r"self\s*\.\s*add_named_vars\s*\(", ".callAddNamedVars"),
]
HK_CONDS = [
    (r"!self\.reorder_gc_prepared", ".ifNotPrepared"),
    (r"self\.reorder_gc_prepared", ".ifPrepared"),
    (r"!self\.gc_ongoing\.try_lock\(\)", ".ifTryLockFails"),
    (r"!self\.var_name_map\.is_empty\(\)", ".ifNamesNonEmpty"),
]


def hk_events(text, ctx, fn, rows):
    """the events of a piece of straight-line text, in textual order"""
    found = []
    for rx, name in HK_EVENTS:
        for m in re.finditer(rx, text):
            arg = ""
            if m.groups() and m.group(1) is not None:
                arg = compact(m.group(1))
            found.append((m.start(), name, arg))
    for _, name, arg in sorted(found):
        rows.append(f'⟨"{fn}", {ctx}, {name}, {lstr(arg)}⟩')


def hk_walk(block, ctx, fn, rows, deferred, unparsed):
    """walk the statements of a block; `if` / `for` / the scope guard get their own context"""
    rest = block
    for st in bc_stmts(block):
        s = st.strip()
        # a bare block (left over from a `#[cfg(..)] { .. }`)
        while s.startswith("{"):
            blk, end = block_after(s, 0)
            hk_walk(blk, ctx, fn, rows, deferred, unparsed)
            s = s[end:].strip()
        if not s:
            continue
        m = re.match(r"if\s+(.*?)\s*(?=\{)", s, flags=re.S)
        if m and not re.match(r"if\s+let\b", s):
            cond = compact(m.group(1))
            cctx = None
            for rx, name in HK_CONDS:
                if re.fullmatch(rx, cond):
                    cctx = name
                    break
            blk, end = block_after(s, m.end())
            tail = s[end:].strip()
            has_events = any(re.search(rx, s) for rx, _ in HK_EVENTS)
            if cctx is None:
                if has_events:
                    unparsed.append(desc(f"fn {fn}", "hook / bookkeeping call under an unrecognised condition: if " + m.group(1)))
                continue
            if ctx != ".top":
                unparsed.append(desc(f"fn {fn}", "nested condition: if " + m.group(1)))
                continue
            hk_walk(blk, cctx, fn, rows, deferred, unparsed)
            if tail:
                if any(re.search(rx, tail) for rx, _ in HK_EVENTS):
                    unparsed.append(desc(f"fn {fn}", "hook / bookkeeping call in an else branch"))
            continue
        m = re.match(r"for\s+\w+\s+in\s+&?\s*self\s*\.\s*unique_table\s*(?=\{)", s)
        if m:
            blk, end = block_after(s, m.end())
            if ctx != ".top":
                unparsed.append(desc(f"fn {fn}", "sweep loop under a condition"))
            hk_events(blk, ".sweepLoop", fn, rows)
            if s[end:].strip():
                hk_walk(s[end:], ctx, fn, rows, deferred, unparsed)
            continue
        m = re.match(r"let\s+(?:mut\s+)?guard\s*=\s*scopeguard::guard\s*\(\s*self\s*,\s*\|\s*this\s*\|\s*(?=\{)", s)
        if m:
            blk, end = block_after(s, m.end())
            tmp = []
            hk_walk(blk, ".guard", fn, tmp, None, unparsed)
            if deferred is None:
                unparsed.append(desc(f"fn {fn}", "scope guard inside a scope guard"))
            else:
                deferred.extend(tmp)
            continue
        if re.match(r"(for|while|loop|match)\b", s) and any(re.search(rx, s) for rx, _ in HK_EVENTS if rx != r"\breturn\b"):
            unparsed.append(desc(f"fn {fn}", "hook / bookkeeping call inside a loop or match: " + s[:50]))
            continue
        before = len(rows)
        hk_events(s, ctx, fn, rows)
        # the scope guard runs where it is dropped
        if deferred is not None and any(".dropGuard" in r for r in rows[before:]):
            rows.extend(deferred)
            del deferred[:]


def hk_manager(src, tag, unparsed):
    src = re.sub(r"#!?\[[^\]]*\]", "", strip_debug_asserts(strip_comments(src)))
    rows = []
    wanted = {"add_vars": "unique_table", "add_named_vars": "pre_reorder", "add_named_vars_from_map": "pre_reorder",
              "gc": "gc_ongoing", "reorder": "reorder_gc_prepared"}
    for name, marker in wanted.items():
        cands = [(sig, b) for sig, b in fn_defs(src, name) if marker in b]
        if len(cands) != 1:
            unparsed.append(desc(tag, f"fn {name}: {len(cands)} candidates"))
            continue
        sig, body = cands[0]
        deferred = []
        try:
            hk_walk(body, ".top", name, rows, deferred, unparsed)
        except (Unparsed, SystemExit, ValueError, IndexError) as e:
            unparsed.append(desc(f"{tag} fn {name}", err_text(e)))
        if deferred:
            unparsed.append(desc(f"{tag} fn {name}", "scope guard never dropped explicitly"))
    # where else are the hooks called / is the flag written?
    spans = fn_spans_cached(src)
    for m in re.finditer(r"\.\s*data\s*\.\s*(?:pre|post)_(?:gc|reorder)\s*\(|MD\s*::\s*(?:pre|post)_reorder_mut\s*\(|\breorder_gc_prepared\s*=(?!=)", src):
        name, _ = fn_at(spans, m.start())
        if name not in wanted:
            unparsed.append(desc(tag, "hook call / write of reorder_gc_prepared in fn " + name))
    return rows


def gen_hooks(read_):
    unparsed, tabs = [], {}
    for tag, path in (("index", "crates/oxidd-manager-index/src/manager.rs"), ("pointer", "crates/oxidd-manager-pointer/src/manager.rs")):
        try:
            tabs[tag] = hk_manager(read_(path), tag, unparsed)
        except (Exception, SystemExit) as e:
            tabs[tag] = []
            unparsed.append(desc(tag + " manager", err_text(e)))
    L = ["import OxiddModel.Generated.RulesHooks", GEN_HEADER, "namespace OxiddModel.Generated\n"]
    for tag in ("index", "pointer"):
        L.append(f"/-- `add_vars`, `add_named_vars`, `add_named_vars_from_map`, `gc`, `reorder` of `oxidd-manager-{tag}/src/manager.rs`: the calls of the subscriber hooks, the resize of the level tables, the flag `reorder_gc_prepared`, the counters, in execution order (the scope guard of `add_named_vars` where it is dropped), each with the condition it is under -/")
        L.append(f"def hookRows_{tag} : List Hk.Row :=\n  [" + ",\n   ".join(tabs[tag]) + "]")
    L.append("/-- constructs of these functions that the extractor does not recognise -/")
    L.append(f"def hooksUnparsed : List String := {lean_strs(unparsed)}")
    L.append("\nend OxiddModel.Generated")
    return {"SrcHooks.lean": "\n".join(L) + "\n"}


# ---- `apply_ite` prologues of the MTBDD, TDD and ZBDD rules ---------------------------------------------

I2_V = ("f", "g", "h")


def i2_res(txt):
    """value of a `return <expr>;` of a prologue -> Lean `I2.Res`"""
    t = txt.strip().rstrip(";").strip()
    t = re.sub(r"^return\b", "", t).strip()
    env = {"f": ("p", 0), "g": ("p", 1), "h": ("p", 2), "rec": ("rec", "seq")}
    for nm in ("True", "False", "Unknown", "Empty", "Base"):  # `use <Terminal>::*`
        env[nm] = ("path", "Terminal::" + nm)
    v = fe_eval(t, env, FeCtx({}, {}, {}, ""))

    def opnd(x):
        if x[0] == "p" and x[1] in (0, 1, 2):
            return "." + I2_V[x[1]]
        raise Unparsed("operand of a shortcut result: " + repr(x))

    if v[0] == "p":
        return f"(.opnd {opnd(v)})"
    if v[0] == "term":
        return f'(.const "{v[1]}")'
    if v[0] == "call" and len(v[4]) == 1 and not v[2]:
        return f'(.un "{v[1]}" {opnd(v[4][0])})'
    if v[0] == "call" and len(v[4]) == 2 and len(v[2]) <= 1:
        return f'(.bin "{v[1]}" "{v[2][0] if v[2] else ""}" {opnd(v[4][0])} {opnd(v[4][1])})'
    raise Unparsed("shortcut result " + txt[:60])


def i2_row(atoms, res):
    return f"⟨{lean_list(atoms)}, {res}⟩"


def i2_single_return(blk):
    sts = bc_stmts(blk)
    if len(sts) != 1 or not re.match(r"return\b", sts[0]):
        raise Unparsed("shortcut body is not a single return: " + blk[:60])
    return sts[0]


def i2_same_shortcuts(stmts, k, rows):
    """leading `if a == b { return X; }` statements"""
    while k < len(stmts):
        m = re.match(r"if\s+\*?(f|g|h)\s*==\s*\*?(f|g|h)\s*(?=\{)", stmts[k])
        if not m:
            break
        blk, end = block_after(stmts[k], m.end())
        if stmts[k][end:].strip():
            raise Unparsed("shortcut with else: " + stmts[k][:60])
        rows.append(i2_row([f".same .{m.group(1)} .{m.group(2)}"], i2_res(i2_single_return(blk))))
        k += 1
    return k


def i2_prologue_stmts(src, fn):
    bodies = fn_bodies(src, fn)
    if len(bodies) != 1:
        raise Unparsed(f"fn {fn} not found")
    body = bodies[0]
    cut = re.search(r"(?:if\s+let\s+Some\(\w+\)\s*=\s*)?manager\s*\.\s*apply_cache\(\)", body)
    if not cut:
        raise Unparsed("no cache lookup in " + fn)
    stmts = [s for s in bc_stmts(body[:cut.start()]) if not re.match(r"use\b|stat!|if\s+rec\.should_switch_to_sequential\(\)", s)]
    return stmts, body


def i2_mtbdd(src):
    stmts, body = i2_prologue_stmts(src, "apply_ite")
    rows = []
    k = i2_same_shortcuts(stmts, 0, rows)
    if k != len(stmts) - 1:
        raise Unparsed("statements after the shortcuts: " + " ; ".join(s[:40] for s in stmts[k:]))
    c = compact(stmts[k])
    m = re.fullmatch(r"letfnode=matchmanager\.get_node\(&f\)\{(?:Node::)?Inner\((\w+)\)=>\1,(?:Node::)?Terminal\((\w+)\)=>\{let(\w+)=\2\.borrow\(\);returnOk\(if\3\.is_zero\(\)\{(.*?)\}else\{(.*?)\}\);\}\}", c)
    if not m:
        raise Unparsed("match on f: " + stmts[k][:80])
    rows.append(i2_row(['.termIs .f "Zero"'], i2_res(m.group(4))))
    rows.append(i2_row([".termAny .f"], i2_res(m.group(5))))
    # what follows the lookup
    cb = compact(body)
    facts = []
    facts.append(("level", "min3" if re.search(r"letlevel=flevel\.min\(glevel\)\.min\(hlevel\);|letlevel=(?:std::cmp::)?min\((?:std::cmp::)?min\(flevel,glevel\),hlevel\);", cb) else "?"))
    cof = [x for x in I2_V if re.search(r"let\(" + x + "t," + x + r"e\)=if" + x + r"level==level\{collect_children\(" + x + r"node(?:\.unwrap_inner\(\))?\)\}else\{\(" + x + r"\.borrowed\(\)," + x + r"\.borrowed\(\)\)\}", cb)]
    facts.append(("cofactors", " ".join(cof)))
    rec = re.findall(r"apply_ite\(manager,(\w+),(\w+),(\w+)\)\?", cb)
    facts.append(("recursion", " | ".join(" ".join(r) for r in rec)))
    mr = re.search(r"let(\w+)=reduce\(manager,level,(\w+)\.into_edge\(\),(\w+)\.into_edge\(\),MTBDDOp::Ite\)\?", cb)
    facts.append(("reduce", (mr.group(2) + " " + mr.group(3)) if mr else "?"))
    return rows, facts


TDD_VALS = ("True", "Unknown", "False")


def i2_tdd(src):
    stmts, body = i2_prologue_stmts(src, "apply_ite_rec")
    rows = []
    k = i2_same_shortcuts(stmts, 0, rows)
    for x in I2_V:
        if k >= len(stmts) or compact(stmts[k]) != f"let{x}node=manager.get_node(&{x})":
            raise Unparsed(f"`let {x}node = manager.get_node(&{x})` expected: " + (stmts[k][:60] if k < len(stmts) else "end"))
        k += 1
    # `if let Node::Terminal(t) = fnode { .. }`
    c = compact(stmts[k]) if k < len(stmts) else ""
    m = re.fullmatch(r"ifletNode::Terminal\((\w+)\)=fnode\{let(\w+)=\*\1\.borrow\(\);if\2!=Unknown\{returnOk\(manager\.clone_edge\(&\*if\2==True\{(g|h)\}else\{(g|h)\}\)\);\}elseifgnode\.is_any_terminal\(\)&&hnode\.is_any_terminal\(\)\{return(.*?);\}\}", c)
    if not m:
        raise Unparsed("terminal case of f: " + (stmts[k][:80] if k < len(stmts) else "end"))
    rows.append(i2_row(['.termIs .f "True"'], f"(.opnd .{m.group(3)})"))
    rows.append(i2_row(['.termIs .f "False"'], f"(.opnd .{m.group(4)})"))
    rows.append(i2_row(['.termIs .f "Unknown"', ".termAny .g", ".termAny .h"], i2_res(m.group(5))))
    k += 1
    st = stmts[k] if k < len(stmts) else ""
    m = re.match(r"match\s*\(\s*manager\.get_node\(&g\)\s*,\s*manager\.get_node\(&h\)\s*\)\s*(?=\{)", st)
    if not m or k != len(stmts) - 1:
        raise Unparsed("match on (g, h): " + st[:80])
    arms, end = block_after(st, m.end())
    if st[end:].strip().strip(";"):
        raise Unparsed("after the match on (g, h)")
    for pat, res in it_split_arms(arms):
        p = compact(pat).replace("Node::", "")
        r = strip_outer(res.strip(), "{", "}").strip()
        mt = re.fullmatch(r"\(Terminal\((\w+)\),Inner\(_\)\)", p)
        mi = re.fullmatch(r"\(Inner\(_\),Terminal\((\w+)\)\)", p)
        mtt = re.fullmatch(r"\(Terminal\((\w+)\),Terminal\((\w+)\)\)", p)
        if mt or mi:
            x, y, b = ("g", "h", mt.group(1)) if mt else ("h", "g", mi.group(1))
            mm = re.match(r"match\s*\*" + b + r"\.borrow\(\)\s*(?=\{)", r)
            if not mm:
                raise Unparsed("arm " + pat + ": " + r[:60])
            inner, e2 = block_after(r, mm.end())
            if r[e2:].strip().strip(";,"):
                raise Unparsed("after the inner match of " + pat)
            for vp, vr in it_split_arms(inner):
                v = compact(vp)
                if v not in TDD_VALS:
                    raise Unparsed("terminal value " + vp)
                if compact(vr) in ("{}", ""):
                    continue
                rows.append(i2_row([f'.termIs .{x} "{v}"', f".inner .{y}"], i2_res(vr)))
        elif mtt:
            mm = re.match(r"match\s*\(\s*\*" + mtt.group(1) + r"\.borrow\(\)\s*,\s*\*" + mtt.group(2) + r"\.borrow\(\)\s*\)\s*(?=\{)", r)
            if not mm:
                raise Unparsed("arm " + pat + ": " + r[:60])
            inner, e2 = block_after(r, mm.end())
            if r[e2:].strip().strip(";,"):
                raise Unparsed("after the inner match of " + pat)
            for vp, vr in it_split_arms(inner):
                v = compact(vp)
                if v == "_" and compact(vr) in ("{}", ""):
                    continue
                mv = re.fullmatch(r"\((\w+),(\w+)\)", v)
                if not mv or mv.group(1) not in TDD_VALS or mv.group(2) not in TDD_VALS:
                    raise Unparsed("terminal values " + vp)
                rows.append(i2_row([f'.termIs .g "{mv.group(1)}"', f'.termIs .h "{mv.group(2)}"'], i2_res(vr)))
        elif p == "_" and compact(r) in ("{}", ""):
            continue
        else:
            raise Unparsed("arm of the match on (g, h): " + pat)
    cb = compact(body)
    facts = []
    facts.append(("level", "min3" if re.search(r"letlevel=(?:std::cmp::)?min\((?:std::cmp::)?min\(flevel,glevel\),hlevel\);", cb) else "?"))
    cof = [x for x in I2_V if re.search(r"let\(" + x + "0," + x + "1," + x + r"2\)=if" + x + r"level==level\{collect_children\(" + x + r"node\.unwrap_inner\(\)\)\}else\{\(" + x + r"\.borrowed\(\)," + x + r"\.borrowed\(\)," + x + r"\.borrowed\(\)\)\}", cb)]
    facts.append(("cofactors", " ".join(cof)))
    rec = re.findall(r"apply_ite_rec\(manager,(\w+),(\w+),(\w+)\)\?", cb)
    facts.append(("recursion", " | ".join(" ".join(r) for r in rec)))
    mr = re.search(r"let(\w+)=reduce\(manager,level,(\w+)\.into_edge\(\),(\w+)\.into_edge\(\),(\w+)\.into_edge\(\),TDDOp::Ite,?\)\?", cb)
    facts.append(("reduce", " ".join(mr.group(i) for i in (2, 3, 4)) if mr else "?"))
    return rows, facts


def i2_zbdd(src):
    stmts, body = i2_prologue_stmts(src, "apply_ite")
    rows, facts = [], []
    k = i2_same_shortcuts(stmts, 0, rows)
    seen_nodes = []
    while k < len(stmts):
        c = compact(stmts[k])
        m = re.fullmatch(r"let(f|g|h)node=manager\.get_node\(&\1\)", c)
        if m:
            seen_nodes.append(m.group(1))
            k += 1
            continue
        if re.fullmatch(r"let(f|g|h)level=\1node\.level\(\)", c):
            k += 1
            continue
        m = re.match(r"if\s+(f|g|h)node\.is_terminal\(&Empty\)\s*(?=\{)", stmts[k])
        if m:
            if m.group(1) not in seen_nodes:
                raise Unparsed("terminal test before get_node: " + stmts[k][:60])
            blk, end = block_after(stmts[k], m.end())
            if stmts[k][end:].strip():
                raise Unparsed("shortcut with else: " + stmts[k][:60])
            rows.append(i2_row([f'.termIs .{m.group(1)} "Empty"'], i2_res(i2_single_return(blk))))
            k += 1
            continue
        break
    # the tautology at the top level of the three operands
    rest = [compact(s) for s in stmts[k:k + 3]]
    if rest[:3] != ["letghlevel=std::cmp::min(glevel,hlevel)", "letlevel=std::cmp::min(flevel,ghlevel)", "lettautology=manager.zbdd_cache().tautology(level)"]:
        raise Unparsed("level / tautology bindings: " + " ; ".join(rest))
    facts.append(("tautologyLevel", "min(flevel, min(glevel, hlevel))"))
    k += 3
    while k < len(stmts):
        m = re.match(r"if\s+\*(f|g|h)\s*==\s*\*tautology\s*(?=\{)", stmts[k])
        if not m:
            raise Unparsed("statement before the cache lookup: " + stmts[k][:60])
        blk, end = block_after(stmts[k], m.end())
        if stmts[k][end:].strip():
            raise Unparsed("shortcut with else: " + stmts[k][:60])
        rows.append(i2_row([f".taut .{m.group(1)}"], i2_res(i2_single_return(blk))))
        k += 1
    return rows, facts


def gen_ite2(read_):
    unparsed, out = [], {}
    for kind, path, fn in (("mtbdd", "crates/oxidd-rules-mtbdd/src/apply_rec.rs", i2_mtbdd),
                           ("tdd", "crates/oxidd-rules-tdd/src/apply_rec.rs", i2_tdd),
                           ("zbdd", "crates/oxidd-rules-zbdd/src/apply_rec.rs", i2_zbdd)):
        try:
            out[kind] = fn(re.sub(r"#!?\[[^\]]*\]", "", strip_debug_asserts(strip_comments(read_(path)))))
        except (Exception, SystemExit) as e:
            out[kind] = ([], [])
            unparsed.append(desc(f"apply_ite ({kind})", err_text(e)))
    L = ["import OxiddModel.Generated.RulesIte2", GEN_HEADER, "namespace OxiddModel.Generated\n"]
    for kind in ("mtbdd", "tdd", "zbdd"):
        rows, facts = out[kind]
        L.append(f"/-- `apply_ite` of the {kind.upper()} rules: the shortcuts tested before the cache lookup, in source order (a decision list: a row is reached only if no earlier row fired) -/")
        L.append(f"def ite2Rows_{kind} : List I2.Row :=\n  [" + ",\n   ".join(rows) + "]")
        L.append(f"/-- … and facts about what surrounds / follows them -/")
        L.append(f"def ite2Facts_{kind} : List (String × String) := " + lean_list([f'("{a}", {lstr(b)})' for a, b in facts]))
    L.append("/-- constructs of these `apply_ite` functions that the extractor does not recognise -/")
    L.append(f"def ite2Unparsed : List String := {lean_strs(unparsed)}")
    L.append("\nend OxiddModel.Generated")
    return {"SrcIte2.lean": "\n".join(L) + "\n"}


def lean_list(xs):
    return "[" + ", ".join(xs) + "]"


def main():
    bdd = read("crates/oxidd-rules-bdd/src/simple/mod.rs")
    bcdd = read("crates/oxidd-rules-bdd/src/complement_edge/mod.rs")
    bcdd_apply = read("crates/oxidd-rules-bdd/src/complement_edge/apply_rec.rs")
    zbdd = read("crates/oxidd-rules-zbdd/src/lib.rs")
    mtbdd = read("crates/oxidd-rules-mtbdd/src/lib.rs")
    tdd = read("crates/oxidd-rules-tdd/src/lib.rs")
    raw = read("crates/linear-hashtbl/src/raw.rs")
    mgr = read("crates/oxidd-manager-index/src/manager.rs")

    enums = {
        "BDDOp": enum_variants(bdd, "BDDOp"),
        "BCDDOp": enum_variants(bcdd, "BCDDOp"),
        "ZBDDOp": enum_variants(zbdd, "ZBDDOp"),
        "MTBDDOp": enum_variants(mtbdd, "MTBDDOp"),
        "TDDOp": enum_variants(tdd, "TDDOp"),
    }
    memos = {
        "bdd": memo_tags(bdd, "BDDOp"),
        "mtbdd": memo_tags(mtbdd, "MTBDDOp"),
        "tdd": memo_tags(tdd, "TDDOp"),
    }
    trules = {"bdd": terminal_rules(bdd, "BDDOp"), "tdd": terminal_rules(tdd, "TDDOp")}
    kern = {"OA": "and", "OX": "xor", "ONA": "nand"}
    disp = dispatch_rows(bcdd_apply, "apply_quant_dispatch", kern)
    dispu = dispatch_rows(bcdd_apply, "apply_quant_unique_dispatch", kern)
    ratio_n, ratio_d, min_cap = const_usize(raw, "RATIO_N"), const_usize(raw, "RATIO_D"), const_usize(raw, "MIN_CAP")
    m = re.search(r"let gc_lwm = inner_node_capacity / 100 \* (\d+);\s*let gc_hwm = inner_node_capacity / 100 \* (\d+);", mgr)
    if not m:
        die("gc water marks not found")
    lwm, hwm = int(m.group(1)), int(m.group(2))

    ord_files = [
        ("index/node", "crates/oxidd-manager-index/src/node/fixed_arity.rs"),
        ("index/manager", "crates/oxidd-manager-index/src/manager.rs"),
        ("index/terminals", "crates/oxidd-manager-index/src/terminal_manager/dynamic.rs"),
        ("index/trylock", "crates/oxidd-manager-index/src/util/mod.rs"),
        ("pointer/node", "crates/oxidd-manager-pointer/src/node/fixed_arity.rs"),
        ("pointer/manager", "crates/oxidd-manager-pointer/src/manager.rs"),
        ("pointer/trylock", "crates/oxidd-manager-pointer/src/util/mod.rs"),
        ("cache/spinlock", "crates/oxidd-cache/src/util.rs"),
    ]
    rel, lic, fen, lk, ul = [], [], [], [], []
    for tag, f in ord_files:
        a, b, c, d, e = orderings(tag, read(f))
        rel += a; lic += b; fen += c; lk += d; ul += e
    if len(rel) < 3 or len(lic) < 4 or not lk or not ul:
        die(f"memory orderings: expected the reference-count decrements (found {len(rel)}), the loads licensing a free (found {len(lic)}), lock/unlock sites (found {len(lk)}/{len(ul)})")

    L = []
    L.append("/-! GENERATED by tools/extract_tables.py from /repo's current source — do not edit. -/")
    L.append("namespace OxiddModel.Generated\n")
    for name, vs in enums.items():
        L.append(f"def enum{name} : List String := {lean_list([chr(34) + v + chr(34) for v in vs])}")
    L.append("")
    for k, rows in memos.items():
        items = [f'("{op}", {lean_list([chr(34) + t + chr(34) for t in tags])})' for op, tags in rows]
        L.append(f"/-- `terminal_bin` ({k}): operator block ↦ tags of its `Binary(tag, ..)` results -/")
        L.append(f"def memoTags_{k} : List (String × List String) := {lean_list(items)}")
    L.append("")
    L.append("/-- a dispatch row: operator, quantifier swapped (`QN` instead of `Q`), inner kernel, ¬f, ¬g, ¬result -/")
    L.append("structure Row where\n  op : String\n  swapped : Bool\n  kernel : String\n  negF : Bool\n  negG : Bool\n  negRes : Bool\nderiving DecidableEq, Repr\n")

    def rows_lean(rows):
        return lean_list([f'⟨"{n}", {str(q == "QN").lower()}, "{k}", {str(a).lower()}, {str(b).lower()}, {str(c).lower()}⟩' for n, q, k, a, b, c in rows])

    L.append(f"def dispatchRows : List Row := {rows_lean(disp)}")
    L.append(f"def dispatchUniqueRows : List Row := {rows_lean(dispu)}")
    L.append("")
    L.append(f"def tblRatioN : Nat := {ratio_n}\ndef tblRatioD : Nat := {ratio_d}\ndef tblMinCap : Nat := {min_cap}")
    L.append(f"def gcLwmPercent : Nat := {lwm}\ndef gcHwmPercent : Nat := {hwm}")
    L.append("")
    L.append("/-- one arm of a `terminal_bin` decision list: pattern (`eq` = the `if f == g` test before the match), the terminal constant of its guard, result kind (`clone`/`const`/`not`/`bin`), and the result's arguments -/")
    L.append("structure TRule where\n  pat : String\n  c : String\n  res : String\n  x : String\n  a : String\n  b : String\nderiving DecidableEq, Repr\n")
    for k, (rules, unparsed) in trules.items():
        items = []
        for op, rs in rules:
            rl = lean_list([f'⟨"{p}", "{c}", "{r}", "{x}", "{a}", "{b}"⟩' for p, c, r, x, a, b in rs])
            items.append(f'("{op}", {rl})')
        L.append(f"/-- `terminal_bin` ({k}): operator ↦ decision list, in source order -/")
        L.append(f"def termRules_{k} : List (String × List TRule) := {lean_list(items)}")
        L.append(f"/-- operator blocks of `terminal_bin` ({k}) that use a construct the extractor does not recognise -/")
        L.append(f"def termRulesUnparsed_{k} : List String := {lean_list([chr(34) + u + chr(34) for u in unparsed])}")

    def trip(xs):
        return lean_list([f'("{a}", "{b}", "{c}")' for a, b, c in xs])

    L.append("")
    L.append("/-- (file, function, ordering) of every reference-count decrement -/")
    L.append(f"def rcDecrements : List (String × String × String) := {trip(rel)}")
    L.append("/-- … of every load of a reference count whose comparison with 1 licenses freeing the node -/")
    L.append(f"def rcFreeLoads : List (String × String × String) := {trip(lic)}")
    L.append("/-- … of every fence -/")
    L.append(f"def fences : List (String × String × String) := {trip(fen)}")
    L.append("/-- … of the `swap(true, _)` of the hand-written locks (`TryLock`, the cache's spin mutex) -/")
    L.append(f"def lockSwaps : List (String × String × String) := {trip(lk)}")
    L.append("/-- … of their `store(false, _)` -/")
    L.append(f"def unlockStores : List (String × String × String) := {trip(ul)}")
    L.append("\nend OxiddModel.Generated")
    text = "\n".join(L) + "\n"
    os.makedirs(os.path.dirname(OUT), exist_ok=True)
    old = open(OUT).read() if os.path.exists(OUT) else None
    if old != text:
        open(OUT, "w").write(text)
        print("extract_tables: SrcFacts.lean regenerated (changed)")
    else:
        print("extract_tables: SrcFacts.lean up to date")
    files = {}
    for gen in PART2:
        files.update(gen(read))
    for gen in PART3:
        files.update(gen(read))
    for gen in PART4:
        files.update(gen(read))
    for name in sorted(files):
        path = os.path.join(GEN_DIR, name)
        old = open(path, encoding="utf-8").read() if os.path.exists(path) else None
        if old != files[name]:
            open(path, "w", encoding="utf-8").write(files[name])
            print(f"extract_tables: {name} regenerated (changed)")
        else:
            print(f"extract_tables: {name} up to date")


PART2 = [gen_mtbdd, gen_i64, gen_bcdd_kernels, gen_zbdd_apply, gen_reduce]
PART3 = [gen_atomicity, gen_ite, gen_epoch, gen_keys, gen_f64]
PART4 = [gen_frontends, gen_keys2, gen_hooks, gen_ite2]


if __name__ == "__main__":
    main()
