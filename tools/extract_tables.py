#!/usr/bin/env python3
"""Translator: regenerate lean/OxiddModel/Generated/SrcFacts.lean from /repo's current source.

Purpose-built extraction (regular expressions + bracket matching; no general Rust front end) of the
places where a hand-written model can drift silently because they are *tables*:

  * the operator enums (variant lists, in order),
  * for each `terminal_bin` (BDD, MTBDD, TDD): per `OP == <Enum>::<X>` block the operator tags that
    appear in its `Binary(<Enum>::<Y>, ..)` results (the apply-cache tag each operator is memoised
    under),
  * the BCDD dispatch tables `apply_quant_dispatch` / `apply_quant_unique_dispatch`
    (operator -> quantifier swapped?, inner kernel, negate f, negate g, negate result),
  * constants of the hash table (RATIO_N, RATIO_D, MIN_CAP) and the GC water marks.

`OxiddModel/Generated/Obligations.lean` (hand-written, fixed) proves by `decide` that these facts
satisfy what the models assume. A construct this script cannot parse is an error (exit 1): the
check then treats it like a broken correspondence, never silently skips it.
"""
import os
import re
import sys

REPO = os.environ.get("OXIDD_REPO", "/repo")
ROOT = os.path.dirname(os.path.dirname(os.path.abspath(__file__)))
OUT = os.path.join(ROOT, "lean", "OxiddModel", "Generated", "SrcFacts.lean")


def read(rel):
    return open(os.path.join(REPO, rel), encoding="utf-8").read()


def die(msg):
    print("extract_tables: " + msg)
    sys.exit(1)


def strip_comments(src):
    src = re.sub(r"//[^\n]*", "", src)
    return re.sub(r"/\*.*?\*/", "", src, flags=re.S)


def block_after(src, start):
    """text of the {...} block whose opening brace is the first '{' at or after `start`"""
    i = src.index("{", start)
    depth = 0
    for j in range(i, len(src)):
        if src[j] == "{":
            depth += 1
        elif src[j] == "}":
            depth -= 1
            if depth == 0:
                return src[i + 1:j], j + 1
    die("unbalanced braces")


def enum_variants(src, name):
    m = re.search(r"pub enum " + name + r"\b", src)
    if not m:
        die(f"enum {name} not found")
    body, _ = block_after(src, m.end())
    body = strip_comments(body)
    body = re.sub(r"#\[[^\]]*\]", "", body)
    vs = [v.strip() for v in body.split(",")]
    vs = [re.match(r"[A-Za-z0-9_]+", v).group(0) for v in vs if v and re.match(r"[A-Za-z0-9_]+", v)]
    if not vs:
        die(f"enum {name}: no variants")
    return vs


def memo_tags(src, enum, fn="terminal_bin"):
    """[(operator, [tags in Binary(..) results])] for the `if OP == Enum::X as u8 { .. }` chain"""
    src = strip_comments(src)
    m = re.search(r"fn " + fn + r"\b", src)
    if not m:
        die(f"{fn} not found for {enum}")
    body, _ = block_after(src, m.end())
    out = []
    pos = 0
    while True:
        mm = re.search(r"OP == " + enum + r"::([A-Za-z0-9_]+) as u8\s*", body[pos:])
        if not mm:
            break
        op = mm.group(1)
        blk, end = block_after(body, pos + mm.end())
        tags = re.findall(r"Binary\(\s*" + enum + r"::([A-Za-z0-9_]+)", blk)
        out.append((op, tags))
        pos = end
    if not out:
        die(f"{fn}: no operator blocks for {enum}")
    return out


def dispatch_rows(src, fn, kernels):
    """rows of a BCDD dispatch `match op { X => ... }`"""
    src = strip_comments(src)
    m = re.search(r"fn " + fn + r"\b", src)
    if not m:
        die(f"{fn} not found")
    # skip the signature: the body is the block after the `where` clause
    w = src.index("where", m.end())
    body, _ = block_after(src, w)
    mm = re.search(r"match op\s*", body)
    if not mm:
        die(f"{fn}: no `match op`")
    arms, _ = block_after(body, mm.end())
    rows = []
    # split the arms at top level on `Name =>`
    idx = [(a.start(), a.group(1)) for a in re.finditer(r"(?m)^\s*([A-Z][A-Za-z]+) =>", arms)]
    for k, (st, name) in enumerate(idx):
        en = idx[k + 1][0] if k + 1 < len(idx) else len(arms)
        arm = arms[st:en]
        call = re.search(r"apply_quant::<M, R, (\w+), (\w+)>\(manager, rec, ([^;]*?), vars\)", arm, flags=re.S)
        if not call:
            die(f"{fn}: cannot parse arm {name}")
        q, kern, args = call.group(1), call.group(2), call.group(3)
        parts = [a.strip() for a in args.split(",")]
        if len(parts) != 2:
            # `not(&f), not(&g)` contains no extra commas; anything else is unexpected
            die(f"{fn}: arm {name}: operands `{args}`")
        negf = parts[0].startswith("not(")
        negg = parts[1].startswith("not(")
        negres = "not_owned(tmp)" in arm
        if kern not in kernels:
            die(f"{fn}: arm {name}: unknown kernel {kern}")
        rows.append((name, q, kernels[kern], negf, negg, negres))
    if len(rows) != 8:
        die(f"{fn}: expected 8 arms, found {len(rows)}")
    return rows


def split_arms(body):
    """split the body of a `match` into (pattern, result) pairs at top level"""
    arms = []
    i, n = 0, len(body)
    while i < n:
        # pattern up to `=>` at depth 0
        depth = 0
        j = i
        while j < n:
            c = body[j]
            if c in "([{":
                depth += 1
            elif c in ")]}":
                depth -= 1
            elif c == "=" and depth == 0 and body[j:j + 2] == "=>":
                break
            j += 1
        if j >= n:
            break
        pat = " ".join(body[i:j].split())
        k = j + 2
        while k < n and body[k].isspace():
            k += 1
        if k < n and body[k] == "{":
            blk, end = block_after(body, k)
            res = " ".join(blk.split())
            k = end
            while k < n and (body[k].isspace() or body[k] == ","):
                k += 1
        else:
            depth = 0
            e = k
            while e < n:
                c = body[e]
                if c in "([{":
                    depth += 1
                elif c in ")]}":
                    depth -= 1
                elif c == "," and depth == 0:
                    break
                e += 1
            res = " ".join(body[k:e].split())
            k = e + 1
        if pat:
            arms.append((pat, res))
        i = k
    return arms


def classify_result(res, enum):
    res = res.strip().rstrip(";").strip()
    res = re.sub(r"^return\s+", "", res)
    m = re.fullmatch(r"Done\(m\.clone_edge\((f|g)\)\)", res)
    if m:
        return ("clone", m.group(1), "", "")
    m = re.fullmatch(r"Done\(m\.get_terminal\((\w+)\)\.unwrap\(\)\)", res)
    if m:
        return ("const", m.group(1), "", "")
    m = re.fullmatch(r"Not\((f|g)\.borrowed\(\)\)", res)
    if m:
        return ("not", m.group(1), "", "")
    m = re.fullmatch(r"Binary\(" + enum + r"::(\w+), (f|g)\.borrowed\(\), (f|g)\.borrowed\(\)\)", res)
    if m:
        return ("bin", m.group(1), m.group(2), m.group(3))
    return None


def classify_pattern(pat):
    table = [
        (r"\(Terminal\(t\), _\) \| \(_, Terminal\(t\)\) if \*t\.borrow\(\) == (\w+)", "either"),
        (r"\(Terminal\(t\), _\) if \*t\.borrow\(\) == (\w+)", "f"),
        (r"\(_, Terminal\(t\)\) if \*t\.borrow\(\) == (\w+)", "g"),
        (r"\(Terminal\(_\), _\)", "fterm"),
        (r"\(_, Terminal\(_\)\)", "gterm"),
        (r"\(Inner\(_\), Inner\(_\)\) if f > g", "inner_gt"),
        (r"\(Inner\(_\), Inner\(_\)\)", "inner"),
        (r"_ if f > g", "any_gt"),
        (r"_", "any"),
    ]
    for rx, name in table:
        m = re.fullmatch(rx, pat)
        if m:
            return (name, m.group(1) if m.groups() else "")
    return None


def terminal_rules(src, enum, fn="terminal_bin"):
    """the decision list of every operator block of `terminal_bin`:
    [(operator, [(pattern, constant, result kind, x, a, b)])]; operators whose block uses a
    construct outside the recognised shapes are returned in the second list (not an error: the
    correspondence streams still cover them)"""
    src = strip_comments(src)
    m = re.search(r"fn " + fn + r"\b", src)
    if not m:
        die(f"{fn} not found for {enum}")
    body, _ = block_after(src, m.end())
    out, unparsed = [], []
    pos = 0
    while True:
        mm = re.search(r"OP == " + enum + r"::([A-Za-z0-9_]+) as u8\s*", body[pos:])
        if not mm:
            break
        op = mm.group(1)
        blk, end = block_after(body, pos + mm.end())
        pos = end
        rules = []
        ok = True
        rest = blk
        me = re.match(r"\s*if f == g \{(.*?)\}", rest, flags=re.S)
        if me:
            r = classify_result(" ".join(me.group(1).split()), enum)
            if r is None:
                ok = False
            else:
                rules.append(("eq", "") + r)
            rest = rest[me.end():]
        mt = re.match(r"\s*match \(m\.get_node\(f\), m\.get_node\(g\)\)\s*", rest)
        if not mt:
            ok = False
        else:
            arms_body, e2 = block_after(rest, mt.end() - 1)
            if rest[e2:].strip():
                ok = False
            for pat, res in split_arms(arms_body):
                pc, rc = classify_pattern(pat), classify_result(res, enum)
                if pc is None or rc is None:
                    ok = False
                    break
                rules.append(pc + rc)
        if ok and rules:
            out.append((op, rules))
        else:
            unparsed.append(op)
    return out, unparsed


def const_usize(src, name):
    m = re.search(r"const " + name + r"\s*:\s*\w+\s*=\s*(\d+)\s*;", src)
    if not m:
        die(f"const {name} not found")
    return int(m.group(1))


def fn_bodies(src, name):
    """bodies of all `fn <name>` definitions (comments stripped)"""
    src = strip_comments(src)
    out = []
    for m in re.finditer(r"fn " + name + r"\b[^;{]*", src):
        # skip declarations without body (trait methods ending in `;`)
        j = m.end()
        if j < len(src) and src[j] == "{":
            body, _ = block_after(src, m.start())
            out.append(body)
    return out


def enclosing_fn(src, pos):
    ms = list(re.finditer(r"fn ([A-Za-z0-9_]+)", src[:pos]))
    return ms[-1].group(1) if ms else "?"


ORD = r"(?:Ordering::)?(Relaxed|Release|Acquire|AcqRel|SeqCst)"


def orderings(tag, src):
    """memory orderings of the reference-count protocol and of the hand-written locks in one file"""
    src = strip_comments(src)
    # drop debug assertions (they do not license anything)
    src = re.sub(r"debug_assert(?:_eq|_ne)?!\s*\((?:[^()]|\([^()]*\))*\)\s*;", "", src)
    rel = [(tag, enclosing_fn(src, m.start()), m.group(1)) for m in re.finditer(r"\brc\s*\.\s*fetch_sub\(\s*1\s*,\s*" + ORD + r"\s*\)", src)]
    lic = [(tag, enclosing_fn(src, m.start()), m.group(1)) for m in re.finditer(r"load_rc\(\s*" + ORD + r"\s*\)\s*(?:!=|==)\s*1", src)]
    lic += [(tag, enclosing_fn(src, m.start()), m.group(1)) for m in re.finditer(r"\brc\s*\.\s*load\(\s*" + ORD + r"\s*\)\s*(?:!=|==)\s*1", src)]
    # `let rc = node.load_rc(X); ... if rc != 1`
    lic += [(tag, enclosing_fn(src, m.start()), m.group(1)) for m in re.finditer(r"let rc = [a-z_.]*load_rc\(\s*" + ORD + r"\s*\)\s*;", src)]
    fen = [(tag, enclosing_fn(src, m.start()), m.group(1)) for m in re.finditer(r"fence\(\s*" + ORD + r"\s*\)", src)]
    lk = [(tag, enclosing_fn(src, m.start()), m.group(1)) for m in re.finditer(r"\.swap\(\s*true\s*,\s*" + ORD + r"\s*\)", src)]
    ul = [(tag, enclosing_fn(src, m.start()), m.group(1)) for m in re.finditer(r"\.store\(\s*false\s*,\s*" + ORD + r"\s*\)", src)]
    return rel, lic, fen, lk, ul


def lean_list(xs):
    return "[" + ", ".join(xs) + "]"


def main():
    bdd = read("crates/oxidd-rules-bdd/src/simple/mod.rs")
    bcdd = read("crates/oxidd-rules-bdd/src/complement_edge/mod.rs")
    bcdd_apply = read("crates/oxidd-rules-bdd/src/complement_edge/apply_rec.rs")
    zbdd = read("crates/oxidd-rules-zbdd/src/lib.rs")
    mtbdd = read("crates/oxidd-rules-mtbdd/src/lib.rs")
    tdd = read("crates/oxidd-rules-tdd/src/lib.rs")
    raw = read("crates/linear-hashtbl/src/raw.rs")
    mgr = read("crates/oxidd-manager-index/src/manager.rs")

    enums = {
        "BDDOp": enum_variants(bdd, "BDDOp"),
        "BCDDOp": enum_variants(bcdd, "BCDDOp"),
        "ZBDDOp": enum_variants(zbdd, "ZBDDOp"),
        "MTBDDOp": enum_variants(mtbdd, "MTBDDOp"),
        "TDDOp": enum_variants(tdd, "TDDOp"),
    }
    memos = {
        "bdd": memo_tags(bdd, "BDDOp"),
        "mtbdd": memo_tags(mtbdd, "MTBDDOp"),
        "tdd": memo_tags(tdd, "TDDOp"),
    }
    trules = {"bdd": terminal_rules(bdd, "BDDOp"), "tdd": terminal_rules(tdd, "TDDOp")}
    kern = {"OA": "and", "OX": "xor", "ONA": "nand"}
    disp = dispatch_rows(bcdd_apply, "apply_quant_dispatch", kern)
    dispu = dispatch_rows(bcdd_apply, "apply_quant_unique_dispatch", kern)
    ratio_n, ratio_d, min_cap = const_usize(raw, "RATIO_N"), const_usize(raw, "RATIO_D"), const_usize(raw, "MIN_CAP")
    m = re.search(r"let gc_lwm = inner_node_capacity / 100 \* (\d+);\s*let gc_hwm = inner_node_capacity / 100 \* (\d+);", mgr)
    if not m:
        die("gc water marks not found")
    lwm, hwm = int(m.group(1)), int(m.group(2))

    ord_files = [
        ("index/node", "crates/oxidd-manager-index/src/node/fixed_arity.rs"),
        ("index/manager", "crates/oxidd-manager-index/src/manager.rs"),
        ("index/terminals", "crates/oxidd-manager-index/src/terminal_manager/dynamic.rs"),
        ("index/trylock", "crates/oxidd-manager-index/src/util/mod.rs"),
        ("pointer/node", "crates/oxidd-manager-pointer/src/node/fixed_arity.rs"),
        ("pointer/manager", "crates/oxidd-manager-pointer/src/manager.rs"),
        ("pointer/trylock", "crates/oxidd-manager-pointer/src/util/mod.rs"),
        ("cache/spinlock", "crates/oxidd-cache/src/util.rs"),
    ]
    rel, lic, fen, lk, ul = [], [], [], [], []
    for tag, f in ord_files:
        a, b, c, d, e = orderings(tag, read(f))
        rel += a; lic += b; fen += c; lk += d; ul += e
    if len(rel) < 3 or len(lic) < 4 or not lk or not ul:
        die(f"memory orderings: expected the reference-count decrements (found {len(rel)}), the loads licensing a free (found {len(lic)}), lock/unlock sites (found {len(lk)}/{len(ul)})")

    L = []
    L.append("/-! GENERATED by tools/extract_tables.py from /repo's current source — do not edit. -/")
    L.append("namespace OxiddModel.Generated\n")
    for name, vs in enums.items():
        L.append(f"def enum{name} : List String := {lean_list([chr(34) + v + chr(34) for v in vs])}")
    L.append("")
    for k, rows in memos.items():
        items = [f'("{op}", {lean_list([chr(34) + t + chr(34) for t in tags])})' for op, tags in rows]
        L.append(f"/-- `terminal_bin` ({k}): operator block ↦ tags of its `Binary(tag, ..)` results -/")
        L.append(f"def memoTags_{k} : List (String × List String) := {lean_list(items)}")
    L.append("")
    L.append("/-- a dispatch row: operator, quantifier swapped (`QN` instead of `Q`), inner kernel, ¬f, ¬g, ¬result -/")
    L.append("structure Row where\n  op : String\n  swapped : Bool\n  kernel : String\n  negF : Bool\n  negG : Bool\n  negRes : Bool\nderiving DecidableEq, Repr\n")

    def rows_lean(rows):
        return lean_list([f'⟨"{n}", {str(q == "QN").lower()}, "{k}", {str(a).lower()}, {str(b).lower()}, {str(c).lower()}⟩' for n, q, k, a, b, c in rows])

    L.append(f"def dispatchRows : List Row := {rows_lean(disp)}")
    L.append(f"def dispatchUniqueRows : List Row := {rows_lean(dispu)}")
    L.append("")
    L.append(f"def tblRatioN : Nat := {ratio_n}\ndef tblRatioD : Nat := {ratio_d}\ndef tblMinCap : Nat := {min_cap}")
    L.append(f"def gcLwmPercent : Nat := {lwm}\ndef gcHwmPercent : Nat := {hwm}")
    L.append("")
    L.append("/-- one arm of a `terminal_bin` decision list: pattern (`eq` = the `if f == g` test before the match), the terminal constant of its guard, result kind (`clone`/`const`/`not`/`bin`), and the result's arguments -/")
    L.append("structure TRule where\n  pat : String\n  c : String\n  res : String\n  x : String\n  a : String\n  b : String\nderiving DecidableEq, Repr\n")
    for k, (rules, unparsed) in trules.items():
        items = []
        for op, rs in rules:
            rl = lean_list([f'⟨"{p}", "{c}", "{r}", "{x}", "{a}", "{b}"⟩' for p, c, r, x, a, b in rs])
            items.append(f'("{op}", {rl})')
        L.append(f"/-- `terminal_bin` ({k}): operator ↦ decision list, in source order -/")
        L.append(f"def termRules_{k} : List (String × List TRule) := {lean_list(items)}")
        L.append(f"/-- operator blocks of `terminal_bin` ({k}) that use a construct the extractor does not recognise -/")
        L.append(f"def termRulesUnparsed_{k} : List String := {lean_list([chr(34) + u + chr(34) for u in unparsed])}")

    def trip(xs):
        return lean_list([f'("{a}", "{b}", "{c}")' for a, b, c in xs])

    L.append("")
    L.append("/-- (file, function, ordering) of every reference-count decrement -/")
    L.append(f"def rcDecrements : List (String × String × String) := {trip(rel)}")
    L.append("/-- … of every load of a reference count whose comparison with 1 licenses freeing the node -/")
    L.append(f"def rcFreeLoads : List (String × String × String) := {trip(lic)}")
    L.append("/-- … of every fence -/")
    L.append(f"def fences : List (String × String × String) := {trip(fen)}")
    L.append("/-- … of the `swap(true, _)` of the hand-written locks (`TryLock`, the cache's spin mutex) -/")
    L.append(f"def lockSwaps : List (String × String × String) := {trip(lk)}")
    L.append("/-- … of their `store(false, _)` -/")
    L.append(f"def unlockStores : List (String × String × String) := {trip(ul)}")
    L.append("\nend OxiddModel.Generated")
    text = "\n".join(L) + "\n"
    os.makedirs(os.path.dirname(OUT), exist_ok=True)
    old = open(OUT).read() if os.path.exists(OUT) else None
    if old != text:
        open(OUT, "w").write(text)
        print("extract_tables: SrcFacts.lean regenerated (changed)")
    else:
        print("extract_tables: SrcFacts.lean up to date")


if __name__ == "__main__":
    main()
